package vgen

import (
	"math"
	"math/big"

	fix "github.com/onflow/fixed-point"

	"github.com/onflow/cadence"
	"github.com/onflow/cadence/common"
)

// ---- strings (C19 pool) ---------------------------------------------------------------

var stringPool = []string{"", "a", "hello", "Hello, World!", "\x00", "\n\t\"\\", "é", "é", "é́", "👪", "👨‍👩‍👧‍👦",
	"🇺🇸🇩🇪", "ᄀᄀᄀ각ᆨᆨ", "‍", "\ufeffx", "مرحبا", "日本語", "<script>", " ", "\U0010ffff", "à́̂",
	"{\"type\":\"Int\"}", "0x01", "nil", "null", "\r\n"}

var characterPool = []string{"a", "Z", "0", " ", "\n", "\x00", "é", "é", "👪", "👨‍👩‍👧‍👦", "🇺🇸", "각", "\r\n", "\U0010ffff", "\"", "\\",
	"à́̂", " "}

// String draws a valid UTF-8 string.
func (g *G) String() string {
	switch g.weighted(3, 5, 2, 1) {
	case 0:
		return pick(g, identPool)
	case 1:
		return pick(g, stringPool)
	case 2:
		n := 1 + g.intn(4)
		s := ""
		for i := 0; i < n; i++ {
			s += pick(g, stringPool)
		}
		return s
	default:
		// long string (> inline slab size)
		n := 100 + g.intn(900)
		b := make([]byte, n)
		for i := range b {
			b[i] = byte('a' + (i*7+n)%26)
		}
		return string(b)
	}
}

// ---- numbers --------------------------------------------------------------------------------

type numInfo struct {
	bits   int // 0 = unbounded
	signed bool
}

var intInfo = map[cadence.PrimitiveType]numInfo{
	cadence.IntType: {0, true}, cadence.Int8Type: {8, true}, cadence.Int16Type: {16, true}, cadence.Int32Type: {32, true},
	cadence.Int64Type: {64, true}, cadence.Int128Type: {128, true}, cadence.Int256Type: {256, true},
	cadence.UIntType: {0, false}, cadence.UInt8Type: {8, false}, cadence.UInt16Type: {16, false}, cadence.UInt32Type: {32, false},
	cadence.UInt64Type: {64, false}, cadence.UInt128Type: {128, false}, cadence.UInt256Type: {256, false},
	cadence.Word8Type: {8, false}, cadence.Word16Type: {16, false}, cadence.Word32Type: {32, false},
	cadence.Word64Type: {64, false}, cadence.Word128Type: {128, false}, cadence.Word256Type: {256, false},
}

// IntRange returns the bounds of an integer type (nil = unbounded).
func IntRange(t cadence.PrimitiveType) (min, max *big.Int) {
	in, ok := intInfo[t]
	if !ok {
		panic("vgen: not an integer type " + t.ID())
	}
	if in.bits == 0 {
		if in.signed {
			return nil, nil
		}
		return big.NewInt(0), nil
	}
	one := big.NewInt(1)
	if in.signed {
		max = new(big.Int).Lsh(one, uint(in.bits-1))
		min = new(big.Int).Neg(max)
		max = new(big.Int).Sub(max, one)
		return
	}
	max = new(big.Int).Sub(new(big.Int).Lsh(one, uint(in.bits)), one)
	return big.NewInt(0), max
}

// bigIn draws a boundary-biased integer within [min, max] (nil = unbounded).
func (g *G) bigIn(min, max *big.Int) *big.Int {
	clamp := func(v *big.Int) *big.Int {
		if min != nil && v.Cmp(min) < 0 {
			return new(big.Int).Set(min)
		}
		if max != nil && v.Cmp(max) > 0 {
			return new(big.Int).Set(max)
		}
		return v
	}
	switch g.weighted(3, 2, 2, 2, 3, 1) {
	case 0:
		return clamp(big.NewInt(int64(g.intn(3))))
	case 1:
		return clamp(big.NewInt(int64(g.intn(5) - 2)))
	case 2:
		if min != nil {
			return new(big.Int).Add(min, clamp0(big.NewInt(int64(g.intn(2))), min, max))
		}
		// unbounded below: a big negative number
		return new(big.Int).Neg(new(big.Int).Lsh(big.NewInt(1), uint(64+g.intn(200))))
	case 3:
		if max != nil {
			return clamp(new(big.Int).Sub(max, big.NewInt(int64(g.intn(2)))))
		}
		return new(big.Int).Add(new(big.Int).Lsh(big.NewInt(1), uint(64+g.intn(200))), big.NewInt(int64(g.intn(2))))
	case 4:
		// random magnitude of random bit length
		bits := 1 + g.intn(70)
		if max != nil && max.BitLen() > 64 && g.chance(1, 2) {
			bits = 1 + g.intn(max.BitLen())
		}
		v := new(big.Int).SetBytes(g.bytes((bits + 7) / 8))
		v.Rsh(v, uint((8-bits%8)%8))
		if g.chance(1, 2) {
			v.Neg(v)
		}
		return clamp(v)
	default:
		// power of two neighbourhood
		k := g.intn(260)
		v := new(big.Int).Lsh(big.NewInt(1), uint(k))
		v.Add(v, big.NewInt(int64(g.intn(3)-1)))
		if g.chance(1, 2) {
			v.Neg(v)
		}
		return clamp(v)
	}
}

func clamp0(d, min, max *big.Int) *big.Int {
	if max != nil && min != nil && new(big.Int).Add(min, d).Cmp(max) > 0 {
		return big.NewInt(0)
	}
	return d
}

// MakeInt builds the integer value of type t from v (which must be in range).
func MakeInt(t cadence.PrimitiveType, v *big.Int) cadence.Value {
	must := func(x cadence.Value, err error) cadence.Value {
		if err != nil {
			panic(err)
		}
		return x
	}
	switch t {
	case cadence.IntType:
		return cadence.NewIntFromBig(v)
	case cadence.Int8Type:
		return cadence.NewInt8(int8(v.Int64()))
	case cadence.Int16Type:
		return cadence.NewInt16(int16(v.Int64()))
	case cadence.Int32Type:
		return cadence.NewInt32(int32(v.Int64()))
	case cadence.Int64Type:
		return cadence.NewInt64(v.Int64())
	case cadence.Int128Type:
		x, err := cadence.NewInt128FromBig(v)
		return must(x, err)
	case cadence.Int256Type:
		x, err := cadence.NewInt256FromBig(v)
		return must(x, err)
	case cadence.UIntType:
		x, err := cadence.NewUIntFromBig(v)
		return must(x, err)
	case cadence.UInt8Type:
		return cadence.NewUInt8(uint8(v.Uint64()))
	case cadence.UInt16Type:
		return cadence.NewUInt16(uint16(v.Uint64()))
	case cadence.UInt32Type:
		return cadence.NewUInt32(uint32(v.Uint64()))
	case cadence.UInt64Type:
		return cadence.NewUInt64(v.Uint64())
	case cadence.UInt128Type:
		x, err := cadence.NewUInt128FromBig(v)
		return must(x, err)
	case cadence.UInt256Type:
		x, err := cadence.NewUInt256FromBig(v)
		return must(x, err)
	case cadence.Word8Type:
		return cadence.NewWord8(uint8(v.Uint64()))
	case cadence.Word16Type:
		return cadence.NewWord16(uint16(v.Uint64()))
	case cadence.Word32Type:
		return cadence.NewWord32(uint32(v.Uint64()))
	case cadence.Word64Type:
		return cadence.NewWord64(v.Uint64())
	case cadence.Word128Type:
		x, err := cadence.NewWord128FromBig(v)
		return must(x, err)
	case cadence.Word256Type:
		x, err := cadence.NewWord256FromBig(v)
		return must(x, err)
	}
	panic("vgen: not an integer type " + t.ID())
}

// BigOf returns the mathematical value of an integer value (raw value for
// fixed-point: value * 10^scale), or nil when v is not a number.
func BigOf(v cadence.Value) *big.Int {
	switch x := v.(type) {
	case cadence.Int:
		return x.Big()
	case cadence.Int8:
		return big.NewInt(int64(x))
	case cadence.Int16:
		return big.NewInt(int64(x))
	case cadence.Int32:
		return big.NewInt(int64(x))
	case cadence.Int64:
		return big.NewInt(int64(x))
	case cadence.Int128:
		return x.Big()
	case cadence.Int256:
		return x.Big()
	case cadence.UInt:
		return x.Big()
	case cadence.UInt8:
		return big.NewInt(int64(x))
	case cadence.UInt16:
		return big.NewInt(int64(x))
	case cadence.UInt32:
		return big.NewInt(int64(x))
	case cadence.UInt64:
		return new(big.Int).SetUint64(uint64(x))
	case cadence.UInt128:
		return x.Big()
	case cadence.UInt256:
		return x.Big()
	case cadence.Word8:
		return big.NewInt(int64(x))
	case cadence.Word16:
		return big.NewInt(int64(x))
	case cadence.Word32:
		return big.NewInt(int64(x))
	case cadence.Word64:
		return new(big.Int).SetUint64(uint64(x))
	case cadence.Word128:
		return x.Big()
	case cadence.Word256:
		return x.Big()
	case cadence.Fix64:
		return big.NewInt(int64(x))
	case cadence.UFix64:
		return new(big.Int).SetUint64(uint64(x))
	case cadence.Fix128:
		return raw128ToBig(uint64(fix.Fix128(x).Hi), uint64(fix.Fix128(x).Lo), true)
	case cadence.UFix128:
		return raw128ToBig(uint64(fix.UFix128(x).Hi), uint64(fix.UFix128(x).Lo), false)
	}
	return nil
}

func raw128ToBig(hi, lo uint64, signed bool) *big.Int {
	v := new(big.Int).SetUint64(hi)
	v.Lsh(v, 64)
	v.Or(v, new(big.Int).SetUint64(lo))
	if signed && hi>>63 == 1 {
		v.Sub(v, new(big.Int).Lsh(big.NewInt(1), 128))
	}
	return v
}

func (g *G) u64() uint64 {
	switch g.weighted(3, 2, 2, 3) {
	case 0:
		return uint64(g.intn(3))
	case 1:
		return math.MaxUint64 - uint64(g.intn(2))
	case 2:
		return 1<<63 - 1 + uint64(g.intn(3))
	default:
		return g.S.Uint64() >> uint(g.intn(64))
	}
}

// Number draws a value of a concrete numeric type.
func (g *G) Number(t cadence.PrimitiveType) cadence.Value {
	switch t {
	case cadence.Fix64Type:
		return cadence.Fix64(int64(g.u64()))
	case cadence.UFix64Type:
		return cadence.UFix64(g.u64())
	case cadence.Fix128Type:
		return cadence.Fix128(fix.NewFix128(g.u64(), g.u64()))
	case cadence.UFix128Type:
		return cadence.UFix128(fix.NewUFix128(g.u64(), g.u64()))
	}
	min, max := IntRange(t)
	return MakeInt(t, g.bigIn(min, max))
}

// ---- concretisation of abstract static types --------------------------------------------------

// Concretize picks a concrete (value-bearing) type conforming to the abstract
// static type t; for concrete types it returns t.
func (g *G) Concretize(t cadence.Type, d int) cadence.Type {
	p, ok := t.(cadence.PrimitiveType)
	if !ok {
		return t
	}
	switch p {
	case cadence.AnyStructType:
		for i := 0; i < 8; i++ {
			lim := len(g.U.Composites)
			if d <= 0 {
				lim = 0 // no composites below the depth budget: keeps values of recursive types finite
			}
			c := g.valueType(d, lim)
			if c == cadence.Type(cadence.AnyStructType) || ContainsResourceKind(c) {
				continue
			}
			if _, isRef := c.(*cadence.ReferenceType); isRef {
				continue
			}
			if _, isInter := c.(*cadence.IntersectionType); isInter {
				continue
			}
			return g.Concretize(c, d)
		}
		return cadence.IntType
	case cadence.AnyResourceType:
		for _, c := range g.U.Composites {
			if _, ok := c.(*cadence.ResourceType); ok {
				return c
			}
		}
		return nil
	case cadence.HashableStructType:
		return g.Concretize(g.hashableTypeConcrete(), d)
	case cadence.NumberType:
		return pick(g, NumberTypes)
	case cadence.SignedNumberType:
		return pick(g, concat(SignedIntegerTypes, SignedFixedTypes))
	case cadence.IntegerType:
		return pick(g, IntegerTypes)
	case cadence.SignedIntegerType:
		return pick(g, SignedIntegerTypes)
	case cadence.FixedSizeUnsignedIntegerType:
		return pick(g, FixedSizeUnsignedTypes)
	case cadence.FixedPointType:
		return pick(g, FixedTypes)
	case cadence.SignedFixedPointType:
		return pick(g, SignedFixedTypes)
	case cadence.PathType:
		return pick(g, PathTypes)
	case cadence.CapabilityPathType:
		return pick(g, PathTypes[1:])
	}
	return t
}

func (g *G) hashableTypeConcrete() cadence.Type {
	for {
		t := g.hashableType()
		if t != cadence.HashableStructType {
			return t
		}
	}
}

// ContainsResourceKind reports whether the type is or directly contains a
// resource-kinded type (resource composite, AnyResource, resource interface).
func ContainsResourceKind(t cadence.Type) bool {
	switch t := t.(type) {
	case *cadence.ResourceType, *cadence.ResourceInterfaceType:
		return true
	case cadence.PrimitiveType:
		return t == cadence.AnyResourceType || t == cadence.AnyResourceAttachmentType
	case *cadence.OptionalType:
		return ContainsResourceKind(t.Type)
	case *cadence.VariableSizedArrayType:
		return ContainsResourceKind(t.ElementType)
	case *cadence.ConstantSizedArrayType:
		return ContainsResourceKind(t.ElementType)
	case *cadence.DictionaryType:
		return ContainsResourceKind(t.ElementType) || ContainsResourceKind(t.KeyType)
	case *cadence.IntersectionType:
		for _, m := range t.Types {
			if ContainsResourceKind(m) {
				return true
			}
		}
	case *cadence.AttachmentType:
		switch b := t.BaseType.(type) {
		case *cadence.ResourceType, *cadence.ResourceInterfaceType:
			return true
		case cadence.PrimitiveType:
			return b == cadence.AnyResourceType
		}
	}
	return false
}

// ---- values ---------------------------------------------------------------------------------------

// Value builds a value conforming to t with complete type information
// (typed arrays/dictionaries, composite types with their declared fields).
// t must come from ValueType / a universe composite.
func (g *G) Value(t cadence.Type, d int) cadence.Value {
	switch t := t.(type) {
	case nil:
		return cadence.NewVoid()
	case cadence.PrimitiveType:
		return g.primitiveValue(t, d)
	case *cadence.OptionalType:
		if d <= 0 || g.chance(1, 6) {
			return cadence.NewOptional(nil)
		}
		return cadence.NewOptional(g.Value(t.Type, d-1))
	case *cadence.VariableSizedArrayType:
		// covariance: a position of type [Abstract] may hold an array whose own type is
		// [Concrete] (let x: [Int] = [1]; let y: [[AnyStruct]] = [x])
		if isOneOf(t.ElementType, AbstractTypes) && g.chance(1, 8) {
			if c := g.Concretize(t.ElementType, d-1); c != nil && c != t.ElementType {
				t = cadence.NewVariableSizedArrayType(c)
			}
		}
		n := 0
		if d > 0 {
			n = g.weighted(1, 3, 4, 2)
		}
		vs := make([]cadence.Value, n)
		for i := range vs {
			vs[i] = g.Value(t.ElementType, d-1)
		}
		return cadence.NewArray(vs).WithType(t)
	case *cadence.ConstantSizedArrayType:
		vs := make([]cadence.Value, t.Size)
		for i := range vs {
			vs[i] = g.Value(t.ElementType, d-1)
		}
		return cadence.NewArray(vs).WithType(t)
	case *cadence.DictionaryType:
		if isOneOf(t.ElementType, AbstractTypes) && g.chance(1, 8) {
			if c := g.Concretize(t.ElementType, d-1); c != nil && c != t.ElementType {
				t = cadence.NewDictionaryType(t.KeyType, c)
			}
		}
		n := 0
		if d > 0 {
			n = g.weighted(1, 2, 4, 3, 1)
		}
		var pairs []cadence.KeyValuePair
		seen := map[string]bool{}
		// half of the dictionaries draw their keys from pools that mix signs, magnitudes
		// (encoded lengths) and path domains, so that every notion of key order differs
		mixed := g.chance(1, 2)
		if mixed && n < 2 && d > 0 {
			n = 2 + g.intn(2)
		}
		for i := 0; i < n; i++ {
			var k cadence.Value
			if mixed {
				k = g.mixedKey(t.KeyType)
			}
			if k == nil {
				k = g.Value(t.KeyType, 1)
			}
			ks := KeyString(k)
			if seen[ks] {
				continue
			}
			seen[ks] = true
			pairs = append(pairs, cadence.KeyValuePair{Key: k, Value: g.Value(t.ElementType, d-1)})
		}
		if pairs == nil {
			pairs = []cadence.KeyValuePair{}
		}
		return cadence.NewDictionary(pairs).WithType(t)
	case *cadence.InclusiveRangeType:
		et := g.Concretize(t.ElementType, 0).(cadence.PrimitiveType)
		return cadence.NewInclusiveRange(g.Number(et), g.Number(et), g.Number(et)).WithType(t)
	case cadence.CompositeType:
		return g.compositeValue(t, d)
	case *cadence.CapabilityType:
		return cadence.NewCapability(cadence.UInt64(g.u64()), cadence.Address(g.Address()), t.BorrowType)
	case *cadence.FunctionType:
		return cadence.NewFunction(t)
	case *cadence.ReferenceType:
		return g.Value(t.Type, d)
	case *cadence.IntersectionType:
		// a composite of the interfaces' kind stands in for a conforming value
		var cands []cadence.CompositeType
		wantResource := false
		if len(t.Types) > 0 {
			_, wantResource = t.Types[0].(*cadence.ResourceInterfaceType)
		}
		for _, c := range g.U.Composites {
			switch c.(type) {
			case *cadence.StructType:
				if !wantResource {
					cands = append(cands, c)
				}
			case *cadence.ResourceType:
				if wantResource {
					cands = append(cands, c)
				}
			}
		}
		if len(cands) == 0 {
			panic("vgen: intersection static type without a candidate composite")
		}
		// always the lowest-index candidate: intersectionWithValue guarantees it lies
		// below the owner of the field, so recursive types stay finite
		return g.compositeValue(cands[0], d)
	}
	panic("vgen: cannot build a value of type " + t.ID())
}

var mixedKeyMagnitudes = []int64{0, 1, 23, 24, 100, 127, 128, 255, 256, 1000, 65535, 65536, 1 << 32, 1 << 40}

// mixedKey draws a dictionary key of (a concretisation of) type t from a pool
// mixing signs, magnitudes (1..9 byte CBOR heads, bignums), path domains and
// string lengths; nil when t has no such pool.
func (g *G) mixedKey(t cadence.Type) cadence.Value {
	p, ok := t.(cadence.PrimitiveType)
	if !ok {
		return nil
	}
	switch p {
	case cadence.HashableStructType, cadence.NumberType, cadence.SignedNumberType, cadence.IntegerType, cadence.SignedIntegerType,
		cadence.FixedPointType, cadence.SignedFixedPointType, cadence.PathType, cadence.CapabilityPathType:
		// an abstract key type: one of the pooled concrete kinds it admits
		var cands []cadence.PrimitiveType
		for _, c := range concat(SignedIntegerTypes, []cadence.PrimitiveType{cadence.Fix64Type, cadence.StringType}, PathTypes) {
			if Conformable(t, c) {
				cands = append(cands, c)
			}
		}
		if len(cands) == 0 {
			return nil
		}
		p = pick(g, cands)
	}
	magnitude := func() *big.Int {
		m := big.NewInt(pick(g, mixedKeyMagnitudes))
		if g.chance(1, 8) {
			m.Lsh(big.NewInt(1), uint(64+g.intn(60)))
		}
		return m
	}
	if _, isInt := intInfo[p]; isInt {
		min, max := IntRange(p)
		v := magnitude()
		if min == nil || min.Sign() < 0 {
			if g.chance(1, 2) {
				v.Neg(v)
				v.Sub(v, big.NewInt(int64(g.intn(2)))) // -m or -m-1
			}
		}
		if min != nil && v.Cmp(min) < 0 {
			v.Set(min)
		}
		if max != nil && v.Cmp(max) > 0 {
			v.Set(max)
		}
		return MakeInt(p, v)
	}
	switch p {
	case cadence.Fix64Type:
		v := magnitude()
		if !v.IsInt64() {
			v = big.NewInt(1 << 40)
		}
		x := v.Int64() * 1000
		if g.chance(1, 2) {
			x = -x - 1
		}
		return cadence.Fix64(x)
	case cadence.UFix64Type:
		v := magnitude()
		if !v.IsUint64() {
			v = big.NewInt(1 << 40)
		}
		return cadence.UFix64(v.Uint64())
	case cadence.StoragePathType, cadence.PublicPathType, cadence.PrivatePathType:
		return cadence.Path{Domain: pathDomainOf(p), Identifier: pick(g, []string{"a", "b", "aa", "ab", "vault", "x", "flowTokenReceiver"})}
	case cadence.StringType:
		return cadence.String(pick(g, []string{"", "a", "b", "aa", "ab", "ba", "abc", "z", "zz", "0123456789012345678901234", "é"}))
	}
	return nil
}

func pathDomainOf(p cadence.PrimitiveType) common.PathDomain {
	switch p {
	case cadence.PublicPathType:
		return common.PathDomainPublic
	case cadence.PrivatePathType:
		return common.PathDomainPrivate
	}
	return common.PathDomainStorage
}

// Conformable reports whether the concrete primitive c may stand in a position
// of (possibly abstract) static primitive type t.
func Conformable(t cadence.Type, c cadence.PrimitiveType) bool {
	p, ok := t.(cadence.PrimitiveType)
	if !ok {
		return false
	}
	switch p {
	case cadence.HashableStructType, cadence.AnyStructType:
		return true
	case cadence.NumberType:
		return isOneOf(c, NumberTypes)
	case cadence.SignedNumberType:
		return isOneOf(c, concat(SignedIntegerTypes, SignedFixedTypes))
	case cadence.IntegerType:
		return isOneOf(c, IntegerTypes)
	case cadence.SignedIntegerType:
		return isOneOf(c, SignedIntegerTypes)
	case cadence.FixedSizeUnsignedIntegerType:
		return isOneOf(c, FixedSizeUnsignedTypes)
	case cadence.FixedPointType:
		return isOneOf(c, FixedTypes)
	case cadence.SignedFixedPointType:
		return isOneOf(c, SignedFixedTypes)
	case cadence.PathType:
		return isOneOf(c, PathTypes)
	case cadence.CapabilityPathType:
		return isOneOf(c, PathTypes[1:])
	}
	return p == c
}

// KeyString is an injective rendering of hashable key values (used to keep
// dictionary keys distinct).
func KeyString(v cadence.Value) string {
	if e, ok := v.(cadence.Enum); ok {
		return "enum:" + e.EnumType.ID() + ":" + KeyString(FieldValues(e)[0])
	}
	if tv, ok := v.(cadence.TypeValue); ok {
		if tv.StaticType == nil {
			return "type:<nil>"
		}
		return "type:" + tv.StaticType.ID()
	}
	t := "<nil>"
	if v.Type() != nil {
		t = v.Type().ID()
	}
	return t + ":" + v.String()
}

func (g *G) primitiveValue(t cadence.PrimitiveType, d int) cadence.Value {
	if _, ok := intInfo[t]; ok || isOneOf(t, FixedTypes) {
		return g.Number(t)
	}
	switch t {
	case cadence.VoidType:
		return cadence.NewVoid()
	case cadence.BoolType:
		return cadence.NewBool(g.intn(2) == 1)
	case cadence.StringType:
		return cadence.String(g.String())
	case cadence.CharacterType:
		return cadence.Character(pick(g, characterPool))
	case cadence.AddressType:
		return cadence.Address(g.Address())
	case cadence.StoragePathType:
		return cadence.Path{Domain: common.PathDomainStorage, Identifier: g.pathIdent()}
	case cadence.PublicPathType:
		return cadence.Path{Domain: common.PathDomainPublic, Identifier: g.pathIdent()}
	case cadence.PrivatePathType:
		return cadence.Path{Domain: common.PathDomainPrivate, Identifier: g.pathIdent()}
	case cadence.MetaType:
		if g.chance(1, 20) {
			return cadence.NewTypeValue(nil)
		}
		return cadence.NewTypeValue(g.Type(d))
	}
	c := g.Concretize(t, d-1)
	if c == nil || c == cadence.Type(t) {
		panic("vgen: no value for primitive type " + t.ID())
	}
	return g.Value(c, d-1)
}

func (g *G) pathIdent() string {
	if g.chance(1, 6) {
		return pick(g, stringPool)
	}
	return g.ident()
}

func (g *G) compositeValue(t cadence.CompositeType, d int) cadence.Value {
	fields := TypeFields(t)
	vs := make([]cadence.Value, len(fields))
	for i, f := range fields {
		vs[i] = g.Value(f.Type, d-1)
	}
	// attachments travel as extra field values of their base composite
	if !g.Cfg.NoAttachmentValues && g.chance(1, 12) {
		switch t.(type) {
		case *cadence.StructType, *cadence.ResourceType:
			for _, c := range g.U.Composites {
				if at, ok := c.(*cadence.AttachmentType); ok && !isComposite(at.BaseType) {
					vs = append(vs, g.compositeValue(at, d-1))
					break
				}
			}
		}
	}
	return NewComposite(t, vs)
}

func isComposite(t cadence.Type) bool {
	_, ok := t.(cadence.CompositeType)
	return ok
}

// AnyValue draws a top-level value of any kind together with its static type.
func (g *G) AnyValue() (cadence.Value, cadence.Type) {
	d := g.Cfg.MaxDepth
	var t cadence.Type
	all := len(g.U.Composites)
	switch g.weighted(2, 3, 2, 2, 2, 1) {
	case 0:
		t = g.ValueType(d)
	case 1:
		t = g.U.Composites[g.intn(all)]
	case 2:
		t = cadence.NewDictionaryType(g.hashableType(), g.ValueType(d-1))
	case 3:
		t = cadence.NewVariableSizedArrayType(g.ValueType(d - 1))
	case 4:
		t = cadence.NewOptionalType(g.ValueType(d - 1))
	default:
		t = cadence.NewConstantSizedArrayType(uint(1+g.intn(3)), g.ValueType(d-1))
	}
	if at, ok := t.(*cadence.AttachmentType); ok && g.Cfg.NoAttachmentValues {
		_ = at
		t = cadence.NewOptionalType(cadence.IntType)
	}
	return g.Value(t, d), t
}
