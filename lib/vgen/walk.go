package vgen

import (
	"fmt"
	"math/big"
	"sort"

	"github.com/onflow/cadence"
)

// Info summarises a value for evidence classes and non-triviality rules.
type Info struct {
	Depth              int             // nesting depth of the value (a leaf has depth 1)
	Kinds              map[string]bool // value kinds occurring anywhere
	TypeKinds          map[string]bool // type kinds occurring in embedded types
	MaxDictEntries     int
	MaxSetMembers      int // largest intersection / entitlement set in any type
	MaxFields          int // largest declared field count of any composite type
	RecursiveType      bool
	HasAttachmentValue bool
	HasExtraFieldValue bool // composite carrying more field values than declared fields
	UnboundedTypeParam bool
	BigConstSize       bool // constant-sized array type with size > 2^53
	HasIntersection    bool
	HasNilType         bool // a nil type inside a type value / capability
	InlineFunctionType bool // a function type in a value position (array element type, field type, borrow type...)
	// dictionaries whose key set mixes signs / encoded lengths / path domains
	DictMixedSignKeys    bool
	DictMixedLengthKeys  bool
	DictMixedPathDomains bool
	Nodes                int
	inlinePos            bool
}

// Inspect walks v.
func Inspect(v cadence.Value) *Info {
	in := &Info{Kinds: map[string]bool{}, TypeKinds: map[string]bool{}}
	in.Depth = in.value(v)
	return in
}

// KindList returns the sorted value kinds.
func (in *Info) KindList() []string {
	out := make([]string, 0, len(in.Kinds))
	for k := range in.Kinds {
		out = append(out, k)
	}
	sort.Strings(out)
	return out
}

func (in *Info) value(v cadence.Value) int {
	in.Nodes++
	max := 0
	sub := func(x cadence.Value) {
		if d := in.value(x); d > max {
			max = d
		}
	}
	switch x := v.(type) {
	case nil:
		in.Kinds["nil"] = true
		return 0
	case cadence.Optional:
		in.Kinds["Optional"] = true
		if x.Value != nil {
			sub(x.Value)
		}
	case cadence.Array:
		in.Kinds["Array"] = true
		in.inlinePos = true
		in.typ(x.ArrayType, map[cadence.Type]bool{})
		for _, e := range x.Values {
			sub(e)
		}
	case cadence.Dictionary:
		in.Kinds["Dictionary"] = true
		if x.DictionaryType != nil {
			in.inlinePos = true
			in.typ(x.DictionaryType, map[cadence.Type]bool{})
		}
		if len(x.Pairs) > in.MaxDictEntries {
			in.MaxDictEntries = len(x.Pairs)
		}
		// key sets whose encodings differ in sign / length / domain (order-sensitive codecs)
		var neg, nonneg, small, large bool
		domains := map[string]bool{}
		lens := map[int]bool{}
		for _, p := range x.Pairs {
			if b := BigOf(p.Key); b != nil {
				if b.Sign() < 0 {
					neg = true
				} else {
					nonneg = true
				}
				if new(big.Int).Abs(b).Cmp(big.NewInt(24)) < 0 {
					small = true
				} else {
					large = true
				}
			}
			switch k := p.Key.(type) {
			case cadence.Path:
				domains[k.Domain.Identifier()] = true
				lens[len(k.Identifier)] = true
			case cadence.String:
				lens[len(k)] = true
			}
		}
		if neg && nonneg {
			in.DictMixedSignKeys = true
		}
		if small && large || len(lens) > 1 {
			in.DictMixedLengthKeys = true
		}
		if len(domains) > 1 {
			in.DictMixedPathDomains = true
		}
		for _, p := range x.Pairs {
			sub(p.Key)
			sub(p.Value)
		}
	case *cadence.InclusiveRange:
		in.Kinds["InclusiveRange"] = true
		if x.InclusiveRangeType != nil {
			in.inlinePos = true
			in.typ(x.InclusiveRangeType, map[cadence.Type]bool{})
		}
		sub(x.Start)
		sub(x.End)
		sub(x.Step)
	case cadence.Composite:
		in.Kinds[fmt.Sprintf("%T", v)[len("cadence."):]] = true
		if _, ok := v.(cadence.Attachment); ok {
			in.HasAttachmentValue = true
		}
		t := CompositeTypeOf(x)
		if t != nil {
			in.inlinePos = true
			in.typ(t, map[cadence.Type]bool{})
			if len(FieldValues(x)) > len(TypeFields(t)) {
				in.HasExtraFieldValue = true
			}
		}
		for _, f := range FieldValues(x) {
			sub(f)
		}
	case cadence.TypeValue:
		in.Kinds["Type"] = true
		if isNilType(x.StaticType) {
			in.HasNilType = true
		}
		in.inlinePos = false
		in.typ(x.StaticType, map[cadence.Type]bool{})
	case cadence.Capability:
		in.Kinds["Capability"] = true
		if isNilType(x.BorrowType) {
			in.HasNilType = true
		}
		in.inlinePos = true
		in.typ(x.BorrowType, map[cadence.Type]bool{})
	case cadence.Function:
		in.Kinds["Function"] = true
		if x.FunctionType != nil {
			in.inlinePos = false
			in.typ(x.FunctionType, map[cadence.Type]bool{})
		}
	case cadence.Path:
		in.Kinds["Path"] = true
	default:
		if t := v.Type(); t != nil {
			in.Kinds[t.ID()] = true
		}
	}
	return max + 1
}

func (in *Info) typ(t cadence.Type, onPath map[cadence.Type]bool) {
	if isNilType(t) {
		return
	}
	switch x := t.(type) {
	case cadence.PrimitiveType:
		in.TypeKinds["primitive"] = true
	case cadence.BytesType:
		in.TypeKinds["Bytes"] = true
	case *cadence.OptionalType:
		in.TypeKinds["Optional"] = true
		in.typ(x.Type, onPath)
	case *cadence.VariableSizedArrayType:
		in.TypeKinds["VariableSizedArray"] = true
		in.typ(x.ElementType, onPath)
	case *cadence.ConstantSizedArrayType:
		in.TypeKinds["ConstantSizedArray"] = true
		if x.Size > 1<<53 {
			in.BigConstSize = true
		}
		in.typ(x.ElementType, onPath)
	case *cadence.DictionaryType:
		in.TypeKinds["Dictionary"] = true
		in.typ(x.KeyType, onPath)
		in.typ(x.ElementType, onPath)
	case *cadence.InclusiveRangeType:
		in.TypeKinds["InclusiveRange"] = true
		in.typ(x.ElementType, onPath)
	case *cadence.CapabilityType:
		in.TypeKinds["Capability"] = true
		in.typ(x.BorrowType, onPath)
	case *cadence.ReferenceType:
		in.TypeKinds["Reference"] = true
		switch a := x.Authorization.(type) {
		case *cadence.EntitlementSetAuthorization:
			in.TypeKinds["auth-set"] = true
			if len(a.Entitlements) > in.MaxSetMembers {
				in.MaxSetMembers = len(a.Entitlements)
			}
		case cadence.EntitlementMapAuthorization:
			in.TypeKinds["auth-map"] = true
		}
		in.typ(x.Type, onPath)
	case *cadence.IntersectionType:
		in.TypeKinds["Intersection"] = true
		in.HasIntersection = true
		if len(x.Types) > in.MaxSetMembers {
			in.MaxSetMembers = len(x.Types)
		}
		for _, m := range x.Types {
			in.typ(m, onPath)
		}
	case *cadence.FunctionType:
		in.TypeKinds["Function"] = true
		if in.inlinePos {
			in.InlineFunctionType = true
		}
		for _, tp := range x.TypeParameters {
			in.TypeKinds["type-parameter"] = true
			if isNilType(tp.TypeBound) {
				in.UnboundedTypeParam = true
			}
			in.typ(tp.TypeBound, onPath)
		}
		for _, p := range x.Parameters {
			in.typ(p.Type, onPath)
		}
		in.typ(x.ReturnType, onPath)
	case cadence.CompositeType:
		k, _ := KindOf(t)
		in.TypeKinds[k.String()] = true
		if onPath[t] {
			in.RecursiveType = true
			return
		}
		onPath[t] = true
		fs := TypeFields(x)
		if len(fs) > in.MaxFields {
			in.MaxFields = len(fs)
		}
		for _, f := range fs {
			in.typ(f.Type, onPath)
		}
		for _, ps := range x.CompositeInitializers() {
			for _, p := range ps {
				in.typ(p.Type, onPath)
			}
		}
		switch y := t.(type) {
		case *cadence.EnumType:
			in.typ(y.RawType, onPath)
		case *cadence.AttachmentType:
			in.typ(y.BaseType, onPath)
		}
		delete(onPath, t)
	case cadence.InterfaceType:
		k, _ := KindOf(t)
		in.TypeKinds[k.String()] = true
		if onPath[t] {
			in.RecursiveType = true
			return
		}
		onPath[t] = true
		for _, f := range InterfaceFields(x) {
			in.typ(f.Type, onPath)
		}
		for _, ps := range x.InterfaceInitializers() {
			for _, p := range ps {
				in.typ(p.Type, onPath)
			}
		}
		delete(onPath, t)
	default:
		in.TypeKinds[fmt.Sprintf("%T", t)] = true
	}
}

// Show renders a value for logs and samples without ever panicking.
func Show(v cadence.Value) (s string) {
	defer func() {
		if r := recover(); r != nil {
			s = fmt.Sprintf("<%T: String() panicked: %v>", v, r)
		}
	}()
	if v == nil {
		return "<nil>"
	}
	t := "<untyped>"
	if ty := v.Type(); !isNilType(ty) {
		t = ty.ID()
	}
	s = v.String()
	if len(s) > 600 {
		s = s[:600] + "…"
	}
	return s + " : " + t
}

// WalkTypes calls f once for every type reachable from t (element, key, field,
// initializer parameter, bound, raw, base, member types ...), t included.
func WalkTypes(t cadence.Type, f func(cadence.Type)) {
	seen := map[cadence.Type]bool{}
	var walk func(t cadence.Type)
	params := func(ps []cadence.Parameter) {
		for _, p := range ps {
			walk(p.Type)
		}
	}
	walk = func(t cadence.Type) {
		if isNilType(t) {
			return
		}
		switch t.(type) {
		case cadence.CompositeType, cadence.InterfaceType:
			if seen[t] {
				return
			}
			seen[t] = true
		}
		f(t)
		switch x := t.(type) {
		case *cadence.OptionalType:
			walk(x.Type)
		case *cadence.VariableSizedArrayType:
			walk(x.ElementType)
		case *cadence.ConstantSizedArrayType:
			walk(x.ElementType)
		case *cadence.DictionaryType:
			walk(x.KeyType)
			walk(x.ElementType)
		case *cadence.InclusiveRangeType:
			walk(x.ElementType)
		case *cadence.CapabilityType:
			walk(x.BorrowType)
		case *cadence.ReferenceType:
			walk(x.Type)
		case *cadence.IntersectionType:
			for _, m := range x.Types {
				walk(m)
			}
		case *cadence.FunctionType:
			for _, tp := range x.TypeParameters {
				walk(tp.TypeBound)
			}
			params(x.Parameters)
			walk(x.ReturnType)
		case cadence.CompositeType:
			for _, fd := range TypeFields(x) {
				walk(fd.Type)
			}
			for _, ps := range x.CompositeInitializers() {
				params(ps)
			}
			switch y := t.(type) {
			case *cadence.EnumType:
				walk(y.RawType)
			case *cadence.AttachmentType:
				walk(y.BaseType)
			}
		case cadence.InterfaceType:
			for _, fd := range InterfaceFields(x) {
				walk(fd.Type)
			}
			for _, ps := range x.InterfaceInitializers() {
				params(ps)
			}
		}
	}
	walk(t)
}

// ParameterLists returns the parameter lists a type itself declares (function
// parameters, initializers).
func ParameterLists(t cadence.Type) [][]cadence.Parameter {
	switch x := t.(type) {
	case *cadence.FunctionType:
		return [][]cadence.Parameter{x.Parameters}
	case cadence.CompositeType:
		return x.CompositeInitializers()
	case cadence.InterfaceType:
		return x.InterfaceInitializers()
	}
	return nil
}
