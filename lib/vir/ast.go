package vir

import "math/big"

// ---- expressions ---------------------------------------------------------------

type Expr interface{ isExpr() }

type (
	// IntLit is an integer literal of integer type T.
	IntLit struct {
		T string
		V *big.Int
	}
	BoolLit struct{ V bool }
	StrLit  struct{ V string }
	NilLit  struct{}
	Var     struct{ Name string }
	Self    struct{}
	// Unary: "-" (checked negation) or "!" (boolean not).
	Unary struct {
		Op string
		X  Expr
	}
	// Binary: + - * / % == != < <= > >= && || ??
	Binary struct {
		Op   string
		L, R Expr
	}
	Cond struct{ C, A, B Expr }
	// Force is x!
	Force struct{ X Expr }
	// Cast: Op is "as", "as?" or "as!".
	Cast struct {
		Op string
		X  Expr
		T  *Type
	}
	// Index is x[i] on an array (element, fails when out of bounds), a
	// dictionary (optional element) or a reference to either.
	Index struct{ X, I Expr }
	// Member is x.Name, or x?.Name when Opt.
	Member struct {
		X    Expr
		Name string
		Opt  bool
	}
	// Call of a global function.
	Call struct {
		Fn   string
		Args []Arg
	}
	// CallVal calls a function value (closure held in a variable, ...).
	CallVal struct {
		F    Expr
		Args []Arg
	}
	// Invoke is a method call x.Name(args) (x?.Name(args) when Opt) on a
	// composite (user method) or container (built-in: append, insert, remove,
	// removeFirst, removeLast, length is a Member).
	Invoke struct {
		X    Expr
		Opt  bool
		Name string
		Args []Arg
	}
	// New constructs a composite: S(args) or create R(args).
	New struct {
		Name   string
		Create bool
		Args   []Arg
	}
	ArrLit struct {
		T     *Type // array type (annotation printed when Annot)
		Elems []Expr
		Annot bool
	}
	DictLit struct {
		T     *Type
		Keys  []Expr
		Vals  []Expr
		Annot bool
	}
	// RefOf is &x as T (T a reference type).
	RefOf struct {
		X Expr
		T *Type
	}
	// Deref is *x.
	Deref struct{ X Expr }
	// Tmpl is a string template: Parts[0] \(Exprs[0]) Parts[1] ...
	Tmpl struct {
		Parts []string
		Exprs []Expr
	}
	// Closure is a function expression.
	Closure struct{ Decl *FuncDecl }
	// Before is before(x) inside a post-condition.
	Before struct{ X Expr }
	// Move marks a resource move `<- x` (evaluates like x).
	Move struct{ X Expr }

	// storage access on the account `acct` bound by the printer
	StorageLoad struct {
		T    *Type
		Path string
		Copy bool // copy<T> instead of load<T>
	}
	StorageBorrow struct {
		T    *Type // reference type
		Path string
	}
)

type Arg struct {
	Label string
	E     Expr
}

func (IntLit) isExpr()        {}
func (BoolLit) isExpr()       {}
func (StrLit) isExpr()        {}
func (NilLit) isExpr()        {}
func (Var) isExpr()           {}
func (Self) isExpr()          {}
func (Unary) isExpr()         {}
func (Binary) isExpr()        {}
func (Cond) isExpr()          {}
func (Force) isExpr()         {}
func (Cast) isExpr()          {}
func (Index) isExpr()         {}
func (Member) isExpr()        {}
func (Call) isExpr()          {}
func (CallVal) isExpr()       {}
func (Invoke) isExpr()        {}
func (New) isExpr()           {}
func (ArrLit) isExpr()        {}
func (DictLit) isExpr()       {}
func (RefOf) isExpr()         {}
func (Deref) isExpr()         {}
func (Tmpl) isExpr()          {}
func (Closure) isExpr()       {}
func (Before) isExpr()        {}
func (Move) isExpr()          {}
func (StorageLoad) isExpr()   {}
func (StorageBorrow) isExpr() {}

func I(v int64) Expr            { return IntLit{T: "Int", V: big.NewInt(v)} }
func IT(t string, v int64) Expr { return IntLit{T: t, V: big.NewInt(v)} }
func B(v bool) Expr             { return BoolLit{V: v} }
func S(v string) Expr           { return StrLit{V: v} }
func V(n string) Expr           { return Var{Name: n} }

// ---- statements ------------------------------------------------------------------

type Stmt interface{ isStmt() }

type (
	Let struct {
		Name  string
		T     *Type // optional annotation
		IsVar bool
		Init  Expr
		Move  bool // `<-`
	}
	Assign struct {
		Target Expr // Var, Member or Index
		Value  Expr
		Move   bool
	}
	Swap struct{ L, R Expr }
	If   struct {
		Cond Expr
		Then []Stmt
		Else []Stmt // nil = no else
	}
	IfLet struct {
		Name string
		Init Expr
		Then []Stmt
		Else []Stmt
	}
	While struct {
		Cond Expr
		Body []Stmt
	}
	ForIn struct {
		Name string
		X    Expr
		Body []Stmt
	}
	Return struct {
		E    Expr // nil = bare return
		Move bool
	}
	ExprStmt struct{ E Expr }
	Log      struct{ E Expr }
	Break    struct{}
	Continue struct{}
	Emit     struct {
		Event string
		Args  []Arg
	}
	// FuncStmt is an inner function declaration `fun name(..): T { .. }`; the
	// name is bound to the function value (called with CallVal{F: Var{name}}).
	FuncStmt struct{ Decl *FuncDecl }
	Panic    struct{ Msg string }
	Destroy  struct{ E Expr }
	// StorageSave is acct.storage.save(Value, to: /storage/Path)
	StorageSave struct {
		Value Expr
		Path  string
		Move  bool
	}
)

func (Let) isStmt()         {}
func (Assign) isStmt()      {}
func (Swap) isStmt()        {}
func (If) isStmt()          {}
func (IfLet) isStmt()       {}
func (While) isStmt()       {}
func (ForIn) isStmt()       {}
func (Return) isStmt()      {}
func (ExprStmt) isStmt()    {}
func (Log) isStmt()         {}
func (Break) isStmt()       {}
func (Continue) isStmt()    {}
func (Emit) isStmt()        {}
func (Panic) isStmt()       {}
func (FuncStmt) isStmt()    {}
func (Destroy) isStmt()     {}
func (StorageSave) isStmt() {}

// ---- declarations ----------------------------------------------------------------

type Param struct {
	Label string // "" = same as Name, "_" = no label
	Name  string
	T     *Type
}

// Condition is one pre/post condition: a boolean test or an emit.
type Condition struct {
	Test Expr  // nil when Emit is set
	Emit *Emit // emit condition
	Msg  string
}

type FuncDecl struct {
	Name    string
	Params  []Param
	Ret     *Type // nil or Void = no result
	View    bool
	Pre     []Condition
	Post    []Condition
	Body    []Stmt
	NoBody  bool // interface function without default implementation
	Access  string
	IsInit  bool
	Comment string
	Owner   string // declaring composite/interface (informational; used in condition ids)
}

type Field struct {
	Name  string
	T     *Type
	IsVar bool
}

// CompDecl is a struct/resource declaration or (Iface) an interface.
type CompDecl struct {
	Name     string
	Resource bool
	Iface    bool
	Conforms []string
	Fields   []Field
	Init     *FuncDecl // nil: memberwise initializer is generated by the printer for non-interfaces
	Methods  []*FuncDecl
}

type EventDecl struct {
	Name   string
	Params []Param
}

// Program is a set of declarations plus an entry point.
type Program struct {
	Events []*EventDecl
	Comps  []*CompDecl // interfaces and composites, in declaration order
	Funcs  []*FuncDecl
	Main   *FuncDecl // script entry point `main`
}

// History is a multi-step program: declarations deployed as contract `C` to
// account 0x1, then transactions/scripts that import it and share storage.
type History struct {
	Decls *Program // Main ignored
	Steps []Step
}

type Step struct {
	Tx   bool // transaction (storage writes persist) or script
	Body []Stmt
	Ret  *Type // scripts: result type
}

func (p *Program) Comp(name string) *CompDecl {
	for _, c := range p.Comps {
		if c.Name == name {
			return c
		}
	}
	return nil
}

func (p *Program) Func(name string) *FuncDecl {
	for _, f := range p.Funcs {
		if f.Name == name {
			return f
		}
	}
	return nil
}

func (c *CompDecl) Method(name string) *FuncDecl {
	for _, m := range c.Methods {
		if m.Name == name {
			return m
		}
	}
	return nil
}
