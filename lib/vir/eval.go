package vir

import (
	"fmt"
	"math/big"
	"strings"

	"verif/lib/oracle"
)

// Failure kinds of the reference evaluator.
const (
	FailOverflow  = "overflow"
	FailDivZero   = "div-zero"
	FailIndex     = "index-out-of-bounds"
	FailForceNil  = "force-nil"
	FailForceCast = "force-cast"
	FailPre       = "condition-failed(pre)"
	FailPost      = "condition-failed(post)"
	FailPanic     = "panic"
	FailOverwrite = "storage-overwrite"
)

// Event is an emitted event.
type Event struct {
	Name string
	Args []Value
}

// Outcome of evaluating a program (or one step of a history).
type Outcome struct {
	Fail    string // "" = completed normally
	Value   Value  // result of main (nil for Void / transactions)
	Logs    []string
	Events  []Event
	Unknown string // non-empty: the evaluator does not model this program
	// Notes counts dynamic situations a check may want to recognise (e.g.
	// "self-member-swap": a swap whose two targets are the same field of the
	// same object).
	Notes map[string]int
	// Skips counts short-circuit decisions (&&, ||, ??, ?:, optional chaining)
	// whose unevaluated part contains a call (i.e. an observable effect).
	Skips int
}

func (o Outcome) String() string {
	s := "ok " + Canon(o.Value)
	if o.Fail != "" {
		s = "fail " + o.Fail
	}
	if o.Unknown != "" {
		s = "unknown " + o.Unknown
	}
	return fmt.Sprintf("%s logs=%v", s, o.Logs)
}

type failure struct{ kind string }
type unknown struct{ what string }

func fail(kind string) { panic(failure{kind}) }
func unk(format string, a ...any) {
	panic(unknown{fmt.Sprintf(format, a...)})
}

type cell struct{ v Value }

type env struct {
	vars   map[string]*cell
	parent *env
}

func newEnv(parent *env) *env { return &env{vars: map[string]*cell{}, parent: parent} }

func (e *env) lookup(n string) *cell {
	for s := e; s != nil; s = s.parent {
		if c, ok := s.vars[n]; ok {
			return c
		}
	}
	return nil
}

func (e *env) declare(n string, v Value) { e.vars[n] = &cell{v: v} }

type frame struct {
	self   *CompV
	env    *env
	ret    Value
	before map[string]Value
}

type ctrl int

const (
	ctrlNone ctrl = iota
	ctrlBreak
	ctrlContinue
	ctrlReturn
)

// Machine evaluates programs; Storage persists across the steps of a history.
type Machine struct {
	prog    *Program
	logs    []string
	events  []Event
	Storage map[string]Value
	fuel    int
	skips   int
	notes   map[string]int
	// Diag: do not abort on a false condition but record it in FalseConds and
	// continue (used by generators to find arguments falsifying exactly one
	// condition).
	Diag       bool
	FalseConds []string
}

// Fuel is the statement/expression budget of one evaluation.
const Fuel = 2_000_000

func NewMachine(p *Program) *Machine {
	return &Machine{prog: p, Storage: map[string]Value{}}
}

// EvalDiag runs the program without aborting on false conditions and returns
// the identifiers of the conditions that were false.
func EvalDiag(p *Program) ([]string, Outcome) {
	m := NewMachine(p)
	m.Diag = true
	o := m.run(func() Value { return m.callDecl(p.Main, nil, nil, nil) })
	return m.FalseConds, o
}

// Eval runs the script entry point of a program.
func Eval(p *Program) Outcome {
	m := NewMachine(p)
	return m.run(func() Value {
		return m.callDecl(p.Main, nil, nil, nil)
	})
}

// EvalHistory runs all steps in order; a failed transaction leaves storage
// unchanged (the host rolls it back).
func EvalHistory(h *History) []Outcome {
	m := NewMachine(h.Decls)
	out := make([]Outcome, len(h.Steps))
	for i, s := range h.Steps {
		out[i] = m.RunStep(s)
	}
	return out
}

func (m *Machine) RunStep(s Step) Outcome {
	snap := map[string]Value{}
	for k, v := range m.Storage {
		snap[k] = Copy(v)
	}
	decl := &FuncDecl{Name: "main", Ret: s.Ret, Body: s.Body}
	o := m.run(func() Value { return m.callDecl(decl, nil, nil, nil) })
	if o.Fail != "" || o.Unknown != "" || !s.Tx {
		// scripts never persist; failed transactions are rolled back
		m.Storage = snap
	}
	return o
}

func (m *Machine) run(f func() Value) (o Outcome) {
	m.logs, m.events, m.fuel, m.skips, m.notes = nil, nil, Fuel, 0, map[string]int{}
	defer func() {
		o.Logs, o.Events, o.Skips, o.Notes = m.logs, m.events, m.skips, m.notes
		if r := recover(); r != nil {
			switch x := r.(type) {
			case failure:
				o.Fail = x.kind
			case unknown:
				o.Unknown = x.what
			default:
				panic(r)
			}
		}
	}()
	o.Value = f()
	return
}

func (m *Machine) tick() {
	m.fuel--
	if m.fuel < 0 {
		unk("out of fuel")
	}
}

// ---- functions ---------------------------------------------------------------------

// ifaceClosure lists the interfaces a composite (or interface) conforms to,
// transitively, without duplicates, in depth-first declaration order.
func (m *Machine) ifaceClosure(c *CompDecl) []*CompDecl {
	var out []*CompDecl
	seen := map[string]bool{}
	var walk func(names []string)
	walk = func(names []string) {
		for _, n := range names {
			if seen[n] {
				continue
			}
			seen[n] = true
			d := m.prog.Comp(n)
			if d == nil {
				unk("unknown interface %s", n)
			}
			out = append(out, d)
			walk(d.Conforms)
		}
	}
	walk(c.Conforms)
	return out
}

// resolveMethod finds the implementation of a method of a composite plus every
// declaration (own and inherited) that contributes conditions.
func (m *Machine) resolveMethod(c *CompDecl, name string) (impl *FuncDecl, all []*FuncDecl) {
	if d := c.Method(name); d != nil {
		impl = d
		all = append(all, d)
	}
	own := impl != nil
	for _, i := range m.ifaceClosure(c) {
		d := i.Method(name)
		if d == nil {
			continue
		}
		all = append(all, d)
		if !own && !d.NoBody {
			if impl != nil {
				unk("ambiguous default implementation of %s", name)
			}
			impl = d
		}
	}
	return
}

func collectBefore(e Expr, out *[]Before) {
	switch e := e.(type) {
	case Before:
		*out = append(*out, e)
	case Unary:
		collectBefore(e.X, out)
	case Binary:
		collectBefore(e.L, out)
		collectBefore(e.R, out)
	case Cond:
		collectBefore(e.C, out)
		collectBefore(e.A, out)
		collectBefore(e.B, out)
	case Force:
		collectBefore(e.X, out)
	case Member:
		collectBefore(e.X, out)
	case Index:
		collectBefore(e.X, out)
		collectBefore(e.I, out)
	case Call:
		for _, a := range e.Args {
			collectBefore(a.E, out)
		}
	case Invoke:
		collectBefore(e.X, out)
		for _, a := range e.Args {
			collectBefore(a.E, out)
		}
	}
}

// callDecl runs a function. conds lists every declaration that contributes
// conditions (the implementation itself plus the inherited interface
// declarations; nil = just impl). Each declaration sees the arguments under its
// own parameter names. Order: all pre-conditions, the before-snapshots of all
// post-conditions (entry state), the body of impl, all post-conditions with
// `result` bound to the returned value.
func (m *Machine) callDecl(impl *FuncDecl, conds []*FuncDecl, self *CompV, args []Value, closure ...*env) Value {
	m.tick()
	var parent *env
	if len(closure) > 0 {
		parent = closure[0]
	}
	if conds == nil {
		conds = []*FuncDecl{impl}
	}
	bind := func(d *FuncDecl) *frame {
		fr := &frame{self: self, env: newEnv(parent), before: map[string]Value{}}
		if len(args) != len(d.Params) {
			unk("arity mismatch calling %s", d.Name)
		}
		for i, p := range d.Params {
			fr.env.declare(p.Name, args[i])
		}
		return fr
	}
	frames := make([]*frame, len(conds))
	for i, d := range conds {
		frames[i] = bind(d)
	}
	for i, d := range conds {
		for k, c := range d.Pre {
			m.condition(frames[i], c, FailPre, d, k)
		}
	}
	for i, d := range conds {
		for _, c := range d.Post {
			if c.Emit != nil {
				for _, a := range c.Emit.Args {
					m.snapBefore(frames[i], a.E)
				}
				continue
			}
			m.snapBefore(frames[i], c.Test)
		}
	}
	bfr := bind(impl)
	var ret Value
	if m.execBlock(bfr, impl.Body) == ctrlReturn {
		ret = bfr.ret
	}
	for i, d := range conds {
		if len(d.Post) == 0 {
			continue
		}
		if impl.Ret != nil && impl.Ret.K != KVoid {
			frames[i].env.declare("result", ret)
		}
		for k, c := range d.Post {
			m.condition(frames[i], c, FailPost, d, k)
		}
	}
	if ret == nil {
		return VoidV{}
	}
	return ret
}

func (m *Machine) snapBefore(fr *frame, e Expr) {
	var bs []Before
	collectBefore(e, &bs)
	for _, b := range bs {
		key := ExprString(b.X)
		if _, ok := fr.before[key]; !ok {
			fr.before[key] = Copy(m.eval(fr, b.X))
		}
	}
}

// CondID names one condition: "<owner>.<function>/<pre|post>/<index>".
func CondID(d *FuncDecl, kind string, k int) string {
	w := "pre"
	if kind == FailPost {
		w = "post"
	}
	return fmt.Sprintf("%s.%s/%s/%d", d.Owner, d.Name, w, k)
}

func (m *Machine) condition(fr *frame, c Condition, kind string, d *FuncDecl, k int) {
	if c.Emit != nil {
		m.emit(fr, *c.Emit)
		return
	}
	v := m.eval(fr, c.Test)
	b, ok := v.(BoolV)
	if !ok {
		unk("condition is not boolean")
	}
	if !b {
		if m.Diag {
			m.FalseConds = append(m.FalseConds, CondID(d, kind, k))
			return
		}
		fail(kind)
	}
}

func (m *Machine) emit(fr *frame, e Emit) {
	ev := Event{Name: e.Event}
	for _, a := range e.Args {
		ev.Args = append(ev.Args, Copy(m.eval(fr, a.E)))
	}
	m.events = append(m.events, ev)
}

func (m *Machine) evalArgs(fr *frame, args []Arg) []Value {
	out := make([]Value, len(args))
	for i, a := range args {
		// each argument is transferred to the callee (an independent copy)
		// right after it has been evaluated
		out[i] = m.transfer(m.eval(fr, a.E))
	}
	return out
}

func (m *Machine) construct(fr *frame, e New) Value {
	cd := m.prog.Comp(e.Name)
	if cd == nil || cd.Iface {
		unk("unknown composite %s", e.Name)
	}
	args := m.evalArgs(fr, e.Args)
	obj := &CompV{Name: cd.Name, Fields: map[string]Value{}}
	for _, f := range cd.Fields {
		obj.Order = append(obj.Order, f.Name)
	}
	if cd.Init != nil {
		m.callDecl(cd.Init, nil, obj, args)
	} else {
		if len(args) != len(cd.Fields) {
			unk("arity mismatch constructing %s", cd.Name)
		}
		for i, f := range cd.Fields {
			obj.Fields[f.Name] = Copy(args[i])
		}
	}
	for _, f := range cd.Fields {
		if _, ok := obj.Fields[f.Name]; !ok {
			unk("field %s.%s not initialized", cd.Name, f.Name)
		}
	}
	return obj
}

// ---- statements ----------------------------------------------------------------------

func (m *Machine) execBlock(fr *frame, ss []Stmt) ctrl {
	for _, s := range ss {
		if c := m.exec(fr, s); c != ctrlNone {
			return c
		}
	}
	return ctrlNone
}

func (m *Machine) scoped(fr *frame, ss []Stmt, bind func(e *env)) ctrl {
	inner := &frame{self: fr.self, env: newEnv(fr.env), before: fr.before}
	if bind != nil {
		bind(inner.env)
	}
	c := m.execBlock(inner, ss)
	if c == ctrlReturn {
		fr.ret = inner.ret
	}
	return c
}

func (m *Machine) exec(fr *frame, s Stmt) ctrl {
	m.tick()
	switch s := s.(type) {
	case Let:
		fr.env.declare(s.Name, m.transfer(m.eval(fr, s.Init)))
	case Assign:
		lv := m.lvalue(fr, s.Target)
		v := m.transfer(m.eval(fr, s.Value))
		lv.set(v)
	case Swap:
		l := m.lvalue(fr, s.L)
		r := m.lvalue(fr, s.R)
		if l.obj != nil && l.obj == r.obj && l.field == r.field {
			m.notes["self-member-swap"]++
		}
		lv := l.get()
		rv := r.get()
		lc, rc := Copy(lv), Copy(rv)
		l.set(rc)
		r.set(lc)
	case If:
		if m.evalBool(fr, s.Cond) {
			return m.scoped(fr, s.Then, nil)
		} else if s.Else != nil {
			return m.scoped(fr, s.Else, nil)
		}
	case IfLet:
		v := m.transfer(m.eval(fr, s.Init)) // a variable declaration: converts (see transfer)
		if _, isNil := v.(NilV); !isNil {
			c := v
			return m.scoped(fr, s.Then, func(e *env) { e.declare(s.Name, c) })
		} else if s.Else != nil {
			return m.scoped(fr, s.Else, nil)
		}
	case While:
		for m.evalBool(fr, s.Cond) {
			c := m.scoped(fr, s.Body, nil)
			if c == ctrlBreak {
				break
			}
			if c == ctrlReturn {
				return c
			}
		}
	case ForIn:
		x := deref(m.eval(fr, s.X))
		arr, ok := x.(*ArrV)
		if !ok {
			unk("for-in over %T", x)
		}
		for i := 0; i < len(arr.Elems); i++ {
			el := Copy(arr.Elems[i])
			c := m.scoped(fr, s.Body, func(e *env) { e.declare(s.Name, el) })
			if c == ctrlBreak {
				break
			}
			if c == ctrlReturn {
				return c
			}
		}
	case Return:
		if s.E != nil {
			fr.ret = m.transfer(m.eval(fr, s.E))
		}
		return ctrlReturn
	case ExprStmt:
		m.eval(fr, s.E)
	case Log:
		m.logs = append(m.logs, LogString(m.eval(fr, s.E)))
	case Break:
		return ctrlBreak
	case Continue:
		return ctrlContinue
	case Emit:
		m.emit(fr, s)
	case FuncStmt:
		fr.env.declare(s.Decl.Name, &FuncV{Decl: s.Decl, Env: fr.env, Self: fr.self})
	case Panic:
		fail(FailPanic)
	case Destroy:
		m.eval(fr, s.E)
	case StorageSave:
		v := Copy(m.eval(fr, s.Value))
		if _, ok := m.Storage[s.Path]; ok {
			fail(FailOverwrite)
		}
		m.Storage[s.Path] = v
	default:
		unk("statement %T", s)
	}
	return ctrlNone
}

// ---- assignment targets ------------------------------------------------------------

type lval struct {
	get   func() Value
	set   func(Value)
	obj   *CompV // member targets: the object and field
	field string
}

func deref(v Value) Value {
	if r, ok := v.(RefV); ok {
		return r.To
	}
	return v
}

// lvalue evaluates the sub-expressions of an assignment/swap target (target
// expression, then index) and returns accessors; bounds are checked when the
// accessor is used, i.e. after the assigned value has been evaluated.
func (m *Machine) lvalue(fr *frame, t Expr) lval {
	switch t := t.(type) {
	case Var:
		c := fr.env.lookup(t.Name)
		if c == nil {
			unk("assignment to unknown variable %s", t.Name)
		}
		return lval{get: func() Value { return c.v }, set: func(v Value) { c.v = v }}
	case Member:
		obj, ok := deref(m.eval(fr, t.X)).(*CompV)
		if !ok {
			unk("member assignment on non-composite")
		}
		return lval{
			get: func() Value { return obj.Fields[t.Name] },
			set: func(v Value) { obj.Fields[t.Name] = v },
			obj: obj, field: t.Name,
		}
	case Index:
		c := deref(m.eval(fr, t.X))
		i := m.eval(fr, t.I)
		switch c := c.(type) {
		case *ArrV:
			idx := func() int {
				n := i.(IntV).V
				if n.Sign() < 0 || !n.IsInt64() || n.Int64() >= int64(len(c.Elems)) {
					fail(FailIndex)
				}
				return int(n.Int64())
			}
			return lval{
				get: func() Value { return c.Elems[idx()] },
				set: func(v Value) { c.Elems[idx()] = v },
			}
		case *DictV:
			return lval{
				get: func() Value {
					if k := c.find(i); k >= 0 {
						return c.Vals[k]
					}
					return NilV{}
				},
				set: func(v Value) { c.put(i, v) },
			}
		}
		unk("index assignment on %T", c)
	}
	unk("assignment target %T", t)
	return lval{}
}

// put sets d[k] = v; assigning nil removes the key.
func (d *DictV) put(k, v Value) {
	i := d.find(k)
	if _, isNil := v.(NilV); isNil {
		if i >= 0 {
			d.Keys = append(d.Keys[:i:i], d.Keys[i+1:]...)
			d.Vals = append(d.Vals[:i:i], d.Vals[i+1:]...)
		}
		return
	}
	if i >= 0 {
		d.Vals[i] = v
		return
	}
	d.Keys = append(d.Keys, Copy(k))
	d.Vals = append(d.Vals, v)
}

// ---- expressions ----------------------------------------------------------------------

func (m *Machine) evalBool(fr *frame, e Expr) bool {
	b, ok := m.eval(fr, e).(BoolV)
	if !ok {
		unk("expected Bool")
	}
	return bool(b)
}

func isNil(v Value) bool { _, ok := v.(NilV); return ok }

// Nested optionals: some(v) is represented by v itself unless v is nil or
// some(nil)..., which are wrapped in SomeV (so nil, some(nil), some(some(nil))
// stay distinguishable while some(5) == some(some(5)) == 5 needs no boxing).
func wrap(v Value) Value {
	switch v.(type) {
	case NilV, SomeV:
		return SomeV{V: v}
	}
	return v
}

func unwrap(v Value) Value {
	if s, ok := v.(SomeV); ok {
		return s.V
	}
	return v
}

// transfer copies a value that is moved to a new place (variable, argument,
// result, container element). Every transfer converts the value to the target
// type, and cadence's boxing rule is that a nested nil is unboxed: some(nil)
// (e.g. the result of x?.m() where m returned nil) becomes nil when it is bound
// to a variable, passed or returned — it is only observable by an operator
// applied directly to the expression that produced it (??, !).
func (m *Machine) transfer(v Value) Value {
	if _, ok := v.(SomeV); ok {
		m.notes["some-nil-collapsed"]++
		return NilV{}
	}
	return Copy(v)
}

// viaRef: a member/element read through a reference yields a reference when
// the member is itself a container or composite.
func viaRef(recv Value, child Value) Value {
	r, ok := recv.(RefV)
	if !ok {
		return child
	}
	switch child.(type) {
	case *ArrV, *DictV, *CompV:
		return RefV{To: child, Auth: r.Auth}
	}
	return child
}

func (m *Machine) eval(fr *frame, e Expr) Value {
	m.tick()
	switch e := e.(type) {
	case IntLit:
		return IntV{T: e.T, V: e.V}
	case BoolLit:
		return BoolV(e.V)
	case StrLit:
		return StrV(e.V)
	case NilLit:
		return NilV{}
	case Var:
		c := fr.env.lookup(e.Name)
		if c == nil {
			unk("unknown variable %s", e.Name)
		}
		return c.v
	case Self:
		if fr.self == nil {
			unk("self outside of composite")
		}
		return fr.self
	case Move:
		return m.eval(fr, e.X)
	case Unary:
		x := m.eval(fr, e.X)
		switch e.Op {
		case "!":
			return !x.(BoolV)
		case "-":
			iv := x.(IntV)
			return m.checked(iv.T, new(big.Int).Neg(iv.V))
		}
		unk("unary %s", e.Op)
	case Binary:
		return m.binary(fr, e)
	case Cond:
		if m.evalBool(fr, e.C) {
			m.skipped(e.B)
			return m.eval(fr, e.A)
		}
		m.skipped(e.A)
		return m.eval(fr, e.B)
	case Force:
		x := m.eval(fr, e.X)
		if isNil(x) {
			fail(FailForceNil)
		}
		if _, ok := x.(SomeV); ok {
			m.notes["force-some-nil"]++
		}
		return unwrap(x)
	case Cast:
		x := m.eval(fr, e.X)
		switch e.Op {
		case "as":
			return x
		case "as?":
			if m.conforms(x, e.T) {
				return x
			}
			return NilV{}
		case "as!":
			if m.conforms(x, e.T) {
				return x
			}
			fail(FailForceCast)
		}
		unk("cast %s", e.Op)
	case Index:
		recv := m.eval(fr, e.X)
		i := m.eval(fr, e.I)
		switch c := deref(recv).(type) {
		case *ArrV:
			n := i.(IntV).V
			if n.Sign() < 0 || !n.IsInt64() || n.Int64() >= int64(len(c.Elems)) {
				fail(FailIndex)
			}
			return viaRef(recv, c.Elems[n.Int64()])
		case *DictV:
			if k := c.find(i); k >= 0 {
				return viaRef(recv, c.Vals[k])
			}
			return NilV{}
		}
		unk("index on %T", deref(recv))
	case Member:
		recv := m.eval(fr, e.X)
		if e.Opt && isNil(recv) {
			return NilV{}
		}
		return m.member(recv, e.Name)
	case Call:
		d := m.prog.Func(e.Fn)
		if d == nil {
			unk("unknown function %s", e.Fn)
		}
		args := m.evalArgs(fr, e.Args)
		return m.callDecl(d, nil, nil, args)
	case CallVal:
		f, ok := m.eval(fr, e.F).(*FuncV)
		if !ok {
			unk("call of non-function")
		}
		args := m.evalArgs(fr, e.Args)
		return m.callDecl(f.Decl, nil, f.Self, args, f.Env)
	case Invoke:
		recv := m.eval(fr, e.X)
		if e.Opt && isNil(recv) {
			for _, a := range e.Args {
				m.skipped(a.E)
			}
			return NilV{} // arguments are not evaluated
		}
		if e.Opt {
			// x?.m(..) has type (result type)?: an optional result is wrapped once more
			return wrap(m.invoke(fr, recv, e.Name, e.Args))
		}
		return m.invoke(fr, recv, e.Name, e.Args)
	case New:
		return m.construct(fr, e)
	case ArrLit:
		a := &ArrV{T: e.T, Elems: make([]Value, 0, len(e.Elems))}
		for _, x := range e.Elems {
			a.Elems = append(a.Elems, m.transfer(m.eval(fr, x)))
		}
		return a
	case DictLit:
		d := &DictV{T: e.T}
		for i := range e.Keys {
			k := m.eval(fr, e.Keys[i])
			v := m.eval(fr, e.Vals[i])
			d.insert(m.transfer(k), m.transfer(v))
		}
		return d
	case RefOf:
		x := m.eval(fr, e.X)
		if isNil(x) {
			return x
		}
		x = deref(x)
		switch x.(type) {
		case *ArrV, *DictV, *CompV:
			return RefV{To: x, Auth: e.T.Auth}
		}
		unk("reference to %T", x)
	case Deref:
		r, ok := m.eval(fr, e.X).(RefV)
		if !ok {
			unk("dereference of non-reference")
		}
		return Copy(r.To)
	case Tmpl:
		var sb strings.Builder
		for i, p := range e.Parts {
			sb.WriteString(p)
			if i < len(e.Exprs) {
				sb.WriteString(TemplateString(m.eval(fr, e.Exprs[i])))
			}
		}
		return StrV(sb.String())
	case Closure:
		return &FuncV{Decl: e.Decl, Env: fr.env, Self: fr.self}
	case Before:
		v, ok := fr.before[ExprString(e.X)]
		if !ok {
			unk("before() outside of a post-condition")
		}
		return v
	case StorageLoad:
		v, ok := m.Storage[e.Path]
		if !ok {
			return NilV{}
		}
		if e.Copy {
			return Copy(v)
		}
		delete(m.Storage, e.Path)
		return v
	case StorageBorrow:
		v, ok := m.Storage[e.Path]
		if !ok {
			return NilV{}
		}
		return RefV{To: v, Auth: e.T.Auth}
	}
	unk("expression %T", e)
	return nil
}

// insert is dictionary insertion (later duplicates of a key replace the value).
func (d *DictV) insert(k, v Value) Value {
	if i := d.find(k); i >= 0 {
		old := d.Vals[i]
		d.Vals[i] = v
		return old
	}
	d.Keys = append(d.Keys, k)
	d.Vals = append(d.Vals, v)
	return NilV{}
}

func (m *Machine) member(recv Value, name string) Value {
	switch c := deref(recv).(type) {
	case *CompV:
		v, ok := c.Fields[name]
		if !ok {
			unk("no field %s in %s", name, c.Name)
		}
		return viaRef(recv, v)
	case *ArrV:
		if name == "length" {
			return IntV{T: "Int", V: big.NewInt(int64(len(c.Elems)))}
		}
	case *DictV:
		if name == "length" {
			return IntV{T: "Int", V: big.NewInt(int64(len(c.Keys)))}
		}
	case StrV:
		if name == "length" {
			return IntV{T: "Int", V: big.NewInt(int64(len(c)))}
		}
	}
	unk("member %s on %T", name, deref(recv))
	return nil
}

func (m *Machine) invoke(fr *frame, recv Value, name string, argExprs []Arg) Value {
	switch c := deref(recv).(type) {
	case *CompV:
		cd := m.prog.Comp(c.Name)
		impl, all := m.resolveMethod(cd, name)
		if impl == nil {
			unk("no method %s.%s", c.Name, name)
		}
		args := m.evalArgs(fr, argExprs)
		return m.callDecl(impl, all, c, args)
	case *ArrV:
		args := m.evalArgs(fr, argExprs)
		idx := func(v Value, max int) int {
			n := v.(IntV).V
			if n.Sign() < 0 || !n.IsInt64() || n.Int64() >= int64(max) {
				fail(FailIndex)
			}
			return int(n.Int64())
		}
		switch name {
		case "append":
			c.Elems = append(c.Elems, args[0])
			return VoidV{}
		case "appendAll":
			c.Elems = append(c.Elems, args[0].(*ArrV).Elems...)
			return VoidV{}
		case "insert":
			i := idx(args[0], len(c.Elems)+1)
			c.Elems = append(c.Elems, nil)
			copy(c.Elems[i+1:], c.Elems[i:])
			c.Elems[i] = args[1]
			return VoidV{}
		case "remove":
			i := idx(args[0], len(c.Elems))
			v := c.Elems[i]
			c.Elems = append(c.Elems[:i:i], c.Elems[i+1:]...)
			return v
		case "removeFirst":
			i := idx(IntV{T: "Int", V: big.NewInt(0)}, len(c.Elems))
			v := c.Elems[i]
			c.Elems = append([]Value(nil), c.Elems[1:]...)
			return v
		case "removeLast":
			i := idx(IntV{T: "Int", V: big.NewInt(int64(len(c.Elems) - 1))}, len(c.Elems))
			v := c.Elems[i]
			c.Elems = c.Elems[:i:i]
			return v
		case "contains":
			for _, x := range c.Elems {
				if Equal(x, args[0]) {
					return BoolV(true)
				}
			}
			return BoolV(false)
		}
	case StrV:
		args := m.evalArgs(fr, argExprs)
		if name == "concat" {
			return StrV(string(c) + string(args[0].(StrV)))
		}
	case IntV:
		if name == "toString" {
			return StrV(c.V.String())
		}
	case *DictV:
		args := m.evalArgs(fr, argExprs)
		switch name {
		case "insert":
			return c.insert(args[0], args[1])
		case "remove":
			i := c.find(args[0])
			if i < 0 {
				return NilV{}
			}
			v := c.Vals[i]
			c.put(args[0], NilV{})
			return v
		case "containsKey":
			return BoolV(c.find(args[0]) >= 0)
		}
	}
	unk("method %s on %T", name, deref(recv))
	return nil
}

func (m *Machine) checked(t string, v *big.Int) Value {
	if !oracle.ByName(t).Fits(v) {
		fail(FailOverflow)
	}
	return IntV{T: t, V: v}
}

func (m *Machine) binary(fr *frame, e Binary) Value {
	switch e.Op {
	case "&&":
		if !m.evalBool(fr, e.L) {
			m.skipped(e.R)
			return BoolV(false)
		}
		return BoolV(m.evalBool(fr, e.R))
	case "||":
		if m.evalBool(fr, e.L) {
			m.skipped(e.R)
			return BoolV(true)
		}
		return BoolV(m.evalBool(fr, e.R))
	case "??":
		l := m.eval(fr, e.L)
		if !isNil(l) {
			m.skipped(e.R)
			if _, ok := l.(SomeV); ok {
				m.notes["coalesce-some-nil"]++ // some(nil) is not nil: the result is the inner nil
			}
			return unwrap(l)
		}
		return m.eval(fr, e.R)
	}
	l := m.eval(fr, e.L)
	r := m.eval(fr, e.R)
	switch e.Op {
	case "==":
		return BoolV(Equal(l, r))
	case "!=":
		return BoolV(!Equal(l, r))
	}
	a, ok1 := l.(IntV)
	b, ok2 := r.(IntV)
	if !ok1 || !ok2 || a.T != b.T {
		unk("binary %s on %T, %T", e.Op, l, r)
	}
	switch e.Op {
	case "+":
		return m.checked(a.T, new(big.Int).Add(a.V, b.V))
	case "-":
		return m.checked(a.T, new(big.Int).Sub(a.V, b.V))
	case "*":
		return m.checked(a.T, new(big.Int).Mul(a.V, b.V))
	case "/":
		if b.V.Sign() == 0 {
			fail(FailDivZero)
		}
		return m.checked(a.T, oracle.TruncQuo(a.V, b.V))
	case "%":
		if b.V.Sign() == 0 {
			fail(FailDivZero)
		}
		return m.checked(a.T, oracle.TruncRem(a.V, b.V))
	case "&":
		return m.checked(a.T, new(big.Int).And(a.V, b.V)) // two's complement semantics (math/big)
	case "|":
		return m.checked(a.T, new(big.Int).Or(a.V, b.V))
	case "^":
		return m.checked(a.T, new(big.Int).Xor(a.V, b.V))
	case "<":
		return BoolV(a.V.Cmp(b.V) < 0)
	case "<=":
		return BoolV(a.V.Cmp(b.V) <= 0)
	case ">":
		return BoolV(a.V.Cmp(b.V) > 0)
	case ">=":
		return BoolV(a.V.Cmp(b.V) >= 0)
	}
	unk("binary %s", e.Op)
	return nil
}

// conforms is the run-time type test behind as? / as!.
func (m *Machine) conforms(v Value, t *Type) bool {
	switch t.K {
	case KAny:
		return true
	case KOpt:
		return isNil(v) || m.conforms(v, t.Elem)
	}
	switch x := v.(type) {
	case IntV:
		return t.K == KInt && t.Name == x.T
	case BoolV:
		return t.K == KBool
	case StrV:
		return t.K == KString
	case NilV:
		return false
	case *CompV:
		if t.K != KComp {
			return false
		}
		if t.Name == x.Name {
			return true
		}
		for _, i := range m.ifaceClosure(m.prog.Comp(x.Name)) {
			if i.Name == t.Name {
				return true
			}
		}
		return false
	case *ArrV:
		return t.K == KArr && x.T != nil && x.T.Equal(t)
	case *DictV:
		return t.K == KDict && x.T != nil && x.T.Equal(t)
	}
	unk("type test of %T", v)
	return false
}

func (m *Machine) skipped(e Expr) {
	if HasCall(e) {
		m.skips++
	}
}

// HasCall reports whether evaluating e can run a function (and so log).
func HasCall(e Expr) bool {
	switch e := e.(type) {
	case Call, CallVal, Invoke, New:
		return true
	case Unary:
		return HasCall(e.X)
	case Binary:
		return HasCall(e.L) || HasCall(e.R)
	case Cond:
		return HasCall(e.C) || HasCall(e.A) || HasCall(e.B)
	case Force:
		return HasCall(e.X)
	case Cast:
		return HasCall(e.X)
	case Index:
		return HasCall(e.X) || HasCall(e.I)
	case Member:
		return HasCall(e.X)
	case ArrLit:
		for _, x := range e.Elems {
			if HasCall(x) {
				return true
			}
		}
	case DictLit:
		for i := range e.Keys {
			if HasCall(e.Keys[i]) || HasCall(e.Vals[i]) {
				return true
			}
		}
	case RefOf:
		return HasCall(e.X)
	case Deref:
		return HasCall(e.X)
	case Tmpl:
		for _, x := range e.Exprs {
			if HasCall(x) {
				return true
			}
		}
	case Move:
		return HasCall(e.X)
	}
	return false
}

// ---- interactive sessions (generators that need the model state while generating) ----

// Session executes statements one at a time in a persistent frame, so that a
// generator can inspect the model's current values to pick valid access paths.
type Session struct {
	m  *Machine
	fr *frame
}

// Begin starts a session (one function body / one step of a history).
func (m *Machine) Begin() *Session {
	m.logs, m.events, m.fuel, m.skips, m.notes = nil, nil, Fuel, 0, map[string]int{}
	return &Session{m: m, fr: &frame{env: newEnv(nil), before: map[string]Value{}}}
}

// Exec runs one statement; the result is "" or the failure/unknown description.
func (s *Session) Exec(st Stmt) (problem string) {
	defer func() {
		if r := recover(); r != nil {
			switch x := r.(type) {
			case failure:
				problem = "fail:" + x.kind
			case unknown:
				problem = "unknown:" + x.what
			default:
				panic(r)
			}
		}
	}()
	s.m.fuel = Fuel
	s.m.exec(s.fr, st)
	return ""
}

// Eval evaluates an expression in the session's scope.
func (s *Session) Eval(e Expr) (v Value, problem string) {
	defer func() {
		if r := recover(); r != nil {
			switch x := r.(type) {
			case failure:
				problem = "fail:" + x.kind
			case unknown:
				problem = "unknown:" + x.what
			default:
				panic(r)
			}
		}
	}()
	s.m.fuel = Fuel
	return s.m.eval(s.fr, e), ""
}
