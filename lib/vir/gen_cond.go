package vir

import (
	"fmt"
	"sort"
	"strings"

	"pgregory.net/rapid"
)

// Pre/post-condition programs (C10).
//
// A generated program declares an interface DAG I0..In-1 (depth <= 3, diamonds
// allowed) of struct or resource interfaces. Each interface may declare the
// functions f and g — bare, with pre/post conditions only, or with a default
// implementation (with or without conditions) — under the checker's rules (at
// most one default implementation reaches any interface or the composite; a
// default can only be re-declared below with conditions). The composite T
// conforms to some of the interfaces and implements f/g itself (possibly with
// own conditions) or inherits the default. Parameter names vary between the
// declarations of one function (conditions are bound positionally).
// Conditions are boolean combinations of comparisons over the parameters,
// self.x, before(...) and result, plus emit conditions.

// CondProgram is a generated declaration set plus what is needed to call it.
type CondProgram struct {
	Decls    *Program
	Resource bool
	Funcs    []string       // functions T has ("f", "g")
	Ifaces   []string       // interfaces T conforms to (transitively), usable as static type of the receiver
	Shape    string         // DAG shape + implementation levels (distinctness key)
	NConds   map[string]int // function -> number of boolean conditions (own + inherited), without nested calls
	// Diamonds classifies the conformance lists met by the depth-first walk from
	// T (the walk that computes the effective conformances): for every list with
	// >= 2 entries that mentions an interface already reached earlier:
	// "shared-first" / "shared-middle" / "shared-last" by its position, and
	// "shared-then-new" when a not yet reached interface follows it in the list.
	Diamonds map[string]bool
}

// CondCall is one invocation of a function of T.
type CondCall struct {
	Fn      string
	Via     string // "" = call on the concrete type, "I2" = through {I2}, "&I2" = through a reference &{I2}
	A, B, X int64
}

type condGen struct {
	t      *rapid.T
	events bool
}

func (g *condGen) draw(n int, label string) int { return rapid.IntRange(0, n-1).Draw(g.t, label) }

func (g *condGen) konst() Expr { return I(int64(g.draw(12, "const") - 2)) }

// intExpr: an Int expression over the two parameters and self.x.
func (g *condGen) intExpr(p [2]string, post bool) Expr {
	n := 6
	if post {
		n = 10
	}
	sx := Member{X: Self{}, Name: "x"}
	switch g.draw(n, "int-expr") {
	case 0:
		return V(p[0])
	case 1:
		return V(p[1])
	case 2:
		return sx
	case 3:
		return Binary{Op: "+", L: V(p[0]), R: V(p[1])}
	case 4:
		return Binary{Op: "+", L: sx, R: V(p[g.draw(2, "param")])}
	case 5:
		return Binary{Op: "-", L: V(p[0]), R: V(p[1])}
	case 6:
		return V("result")
	case 7:
		return Before{X: sx}
	case 8:
		return Binary{Op: "-", L: sx, R: Before{X: sx}}
	default:
		return Before{X: Binary{Op: "+", L: sx, R: V(p[g.draw(2, "param")])}}
	}
}

// boolExpr: a condition that is true for most small arguments.
func (g *condGen) boolExpr(p [2]string, post bool, depth int) Expr {
	if depth > 0 && g.draw(5, "combine") == 0 {
		op := []string{"&&", "||"}[g.draw(2, "bool-op")]
		l := g.boolExpr(p, post, depth-1)
		r := g.boolExpr(p, post, depth-1)
		if op == "||" {
			// keep the disjunction falsifiable: a rarely-true right side
			r = Binary{Op: "==", L: g.intExpr(p, post), R: g.konst()}
		}
		return Binary{Op: op, L: l, R: r}
	}
	e := g.intExpr(p, post)
	switch g.draw(6, "cmp") {
	case 0, 1, 2:
		return Binary{Op: "!=", L: e, R: g.konst()}
	case 3:
		return Binary{Op: "<", L: e, R: I(int64(8 + g.draw(12, "upper")))}
	case 4:
		return Binary{Op: ">", L: e, R: I(int64(-8 + g.draw(7, "lower")))}
	default:
		return Unary{Op: "!", X: Binary{Op: "==", L: e, R: g.konst()}}
	}
}

func (g *condGen) conds(owner, fn string, p [2]string, post bool) []Condition {
	n := 0
	switch g.draw(4, "ncond") {
	case 0, 1:
		n = 1
	case 2:
		n = 2
	}
	var out []Condition
	for i := 0; i < n; i++ {
		if g.events && g.draw(6, "emit") == 0 {
			out = append(out, Condition{Emit: &Emit{Event: "Ev", Args: []Arg{{Label: "v", E: g.intExpr(p, post)}}}})
			continue
		}
		kind := "pre"
		if post {
			kind = "post"
		}
		out = append(out, Condition{Test: g.boolExpr(p, post, 1), Msg: fmt.Sprintf("%s %s %s %d", owner, fn, kind, i)})
	}
	return out
}

// body: an implementation of f or g.
func (g *condGen) body(fn string, p [2]string, hasG bool) []Stmt {
	var out []Stmt
	sx := Member{X: Self{}, Name: "x"}
	if g.draw(2, "mutate") == 0 {
		out = append(out, Assign{Target: sx, Value: Binary{Op: "+", L: sx, R: V(p[g.draw(2, "mut-param")])}})
	}
	ret := []Expr{
		Binary{Op: "+", L: V(p[0]), R: V(p[1])},
		Binary{Op: "-", L: V(p[0]), R: V(p[1])},
		Binary{Op: "+", L: sx, R: V(p[0])},
		V(p[1]),
		Binary{Op: "*", L: V(p[0]), R: I(2)},
	}[g.draw(5, "ret")]
	if fn == "f" && hasG && g.draw(2, "nested") == 0 {
		// nested call between the functions (its conditions apply as well)
		args := []Arg{{E: V(p[1])}, {E: V(p[0])}}
		if g.draw(2, "nested-args") == 0 {
			args = []Arg{{E: Binary{Op: "+", L: V(p[0]), R: I(1)}}, {E: V(p[1])}}
		}
		out = append(out, Let{Name: "n", Init: Invoke{X: Self{}, Name: "g", Args: args}})
		ret = Binary{Op: "+", L: ret, R: V("n")}
	}
	if g.draw(3, "late-mutate") == 0 {
		out = append(out, Assign{Target: sx, Value: Binary{Op: "+", L: sx, R: I(1)}})
	}

	// inner function declarations and closures (with and without own conditions,
	// called or not), placed anywhere among the other statements
	early := ret
	nInner := []int{0, 0, 1, 1, 2}[g.draw(5, "inner-functions")]
	for i := 0; i < nInner; i++ {
		name := fmt.Sprintf("h%d", i)
		d := &FuncDecl{Name: name, Owner: "inner", Ret: Int, Params: []Param{{Label: "_", Name: "v", T: Int}},
			Body: []Stmt{Return{E: Binary{Op: "+", L: V("v"), R: I(int64(1 + g.draw(3, "inner-add")))}}}}
		switch g.draw(4, "inner-conds") {
		case 1:
			d.Pre = []Condition{{Test: Binary{Op: "!=", L: V("v"), R: g.konst()}, Msg: name + " pre"}}
		case 2:
			d.Post = []Condition{{Test: Binary{Op: "!=", L: V("result"), R: g.konst()}, Msg: name + " post"}}
		case 3:
			d.Pre = []Condition{{Test: Binary{Op: "<", L: V("v"), R: I(40)}, Msg: name + " pre"}}
			d.Post = []Condition{{Test: Binary{Op: "!=", L: V("result"), R: Binary{Op: "-", L: V("v"), R: I(1)}}, Msg: name + " post"}}
		}
		var st Stmt = FuncStmt{Decl: d}
		if g.draw(2, "closure") == 0 {
			st = Let{Name: name, Init: Closure{Decl: d}}
		}
		at := g.draw(len(out)+1, "inner-at")
		out = append(out[:at:at], append([]Stmt{st}, out[at:]...)...)
		switch g.draw(3, "inner-called") {
		case 0:
			ret = Binary{Op: "+", L: ret, R: CallVal{F: V(name), Args: []Arg{{E: V(p[g.draw(2, "inner-arg")])}}}}
		case 1:
			early = Binary{Op: "-", L: early, R: CallVal{F: V(name), Args: []Arg{{E: V(p[g.draw(2, "inner-arg")])}}}}
		}
	}
	// explicit early return (after the inner functions it may use)
	if g.draw(2, "early-return") == 0 {
		out = append(out, If{Cond: Binary{Op: ">", L: V(p[g.draw(2, "early-param")]), R: I(int64(2 + g.draw(6, "early-bound")))},
			Then: []Stmt{Return{E: early}}})
		if g.draw(3, "after-early") == 0 {
			out = append(out, Assign{Target: sx, Value: Binary{Op: "+", L: sx, R: I(2)}})
		}
	}
	return append(out, Return{E: ret})
}

// hasNestedFunction reports whether a body declares an inner function or closure.
func hasNestedFunction(ss []Stmt) bool {
	for _, s := range ss {
		switch s := s.(type) {
		case FuncStmt:
			return true
		case Let:
			if _, ok := s.Init.(Closure); ok {
				return true
			}
		case If:
			if hasNestedFunction(s.Then) || hasNestedFunction(s.Else) {
				return true
			}
		}
	}
	return false
}

// ImplHasNestedFunction: the implementation of fn that T executes (own or
// inherited default) declares an inner function or closure in its body.
func (cp *CondProgram) ImplHasNestedFunction(fn string) bool {
	m := NewMachine(cp.Decls)
	impl, _ := m.resolveMethod(cp.Decls.Comp("T"), fn)
	return impl != nil && hasNestedFunction(impl.Body)
}

var condParamNames = [][2]string{{"a", "b"}, {"a", "b"}, {"p", "q"}, {"b", "a"}, {"u", "v"}}

// GenCond generates a condition program.
func GenCond(t *rapid.T) *CondProgram {
	g := &condGen{t: t}
	cp := &CondProgram{Decls: &Program{}, NConds: map[string]int{}}
	cp.Resource = g.draw(3, "resource") == 0
	g.events = g.draw(2, "events") == 0
	if g.events {
		cp.Decls.Events = []*EventDecl{{Name: "Ev", Params: []Param{{Name: "v", T: Int}}}}
	}
	fns := []string{"f"}
	if g.draw(3, "two-functions") != 0 {
		fns = append(fns, "g")
	}
	hasG := len(fns) == 2

	n := 1 + g.draw(6, "interfaces")
	if n < 3 && g.draw(3, "more-interfaces") != 0 {
		n = 3 + g.draw(4, "interfaces-again")
	}
	type iface struct {
		decl     *CompDecl
		depth    int
		closure  map[int]bool      // indices of inherited interfaces (transitive)
		defaults map[string]int    // fn -> index of the interface holding the default in closure+self, -1 none
		declares map[string]bool   // fn declared somewhere in closure+self
		form     map[string]string // fn -> "", "decl", "cond", "impl", "impl+cond"
		parents  []int
	}
	ifs := make([]*iface, 0, n)
	var shape []string
	for k := 0; k < n; k++ {
		it := &iface{closure: map[int]bool{}, defaults: map[string]int{}, declares: map[string]bool{}, form: map[string]string{}}
		name := fmt.Sprintf("I%d", k)
		it.decl = &CompDecl{Name: name, Iface: true, Resource: cp.Resource,
			Fields: []Field{{Name: "x", T: Int, IsVar: true}}}
		// parents among earlier interfaces with depth < 3
		var parents []int
		if k > 0 {
			// 0-3 parents in random order; mostly 2-3 once there is a choice, so
			// that ancestors are shared (diamonds) in all positions of the lists
			np := g.draw(4, "nparents")
			if k >= 2 && np < 2 && g.draw(4, "dense") != 0 {
				np = 2 + g.draw(2, "nparents-again")
			}
			for j := 0; j < np; j++ {
				c := g.draw(k, "parent")
				if ifs[c].depth >= 3 {
					continue
				}
				dup := false
				for _, q := range parents {
					dup = dup || q == c
				}
				if !dup {
					parents = append(parents, c)
				}
			}
		}
		// drop parents until at most one default implementation per function is inherited
		for {
			ok := true
			for _, fn := range fns {
				seen := map[int]bool{}
				for _, q := range parents {
					if d, has := ifs[q].defaults[fn]; has && d >= 0 {
						seen[d] = true
					}
				}
				ok = ok && len(seen) <= 1
			}
			if ok {
				break
			}
			parents = parents[:len(parents)-1]
		}
		it.parents = parents
		for _, q := range parents {
			it.decl.Conforms = append(it.decl.Conforms, ifs[q].decl.Name)
			it.closure[q] = true
			for c := range ifs[q].closure {
				it.closure[c] = true
			}
			if ifs[q].depth+1 > it.depth {
				it.depth = ifs[q].depth + 1
			}
		}
		// g before f: a default implementation of f may only call self.g when
		// the interface (transitively) declares g
		for fi := len(fns) - 1; fi >= 0; fi-- {
			fn := fns[fi]
			inheritedDefault := -1
			declared := false
			for c := range it.closure {
				if d, has := ifs[c].defaults[fn]; has && d >= 0 {
					inheritedDefault = d
				}
				declared = declared || ifs[c].declares[fn]
			}
			// forms allowed here
			// every interface can carry conditions for every function
			forms := []string{"", "cond", "cond", "cond"}
			if inheritedDefault < 0 {
				forms = append(forms, "cond", "decl", "impl", "impl+cond", "impl+cond")
			}
			form := forms[g.draw(len(forms), "form-"+fn)]
			it.form[fn] = form
			it.defaults[fn] = inheritedDefault
			it.declares[fn] = declared || form != ""
			if form == "" {
				continue
			}
			p := condParamNames[g.draw(len(condParamNames), "param-names")]
			d := &FuncDecl{Name: fn, Owner: name, Ret: Int,
				Params: []Param{{Label: "_", Name: p[0], T: Int}, {Label: "_", Name: p[1], T: Int}}}
			if form == "cond" || form == "impl+cond" {
				d.Pre = g.conds(name, fn, p, false)
				d.Post = g.conds(name, fn, p, true)
				if len(d.Pre)+len(d.Post) == 0 {
					d.Pre = []Condition{{Test: Binary{Op: "!=", L: V(p[0]), R: g.konst()}, Msg: name + " " + fn + " pre"}}
				}
			}
			if strings.HasPrefix(form, "impl") {
				d.Body = g.body(fn, p, it.declares["g"])
				it.defaults[fn] = k
			} else {
				d.NoBody = true
			}
			it.decl.Methods = append(it.decl.Methods, d)
		}
		ifs = append(ifs, it)
		cp.Decls.Comps = append(cp.Decls.Comps, it.decl)
		fs := make([]string, 0, 2)
		for _, fn := range fns {
			fs = append(fs, fn+"="+it.form[fn])
		}
		shape = append(shape, fmt.Sprintf("{%s}", strings.Join(fs, ",")))
	}

	// the composite
	comp := &CompDecl{Name: "T", Resource: cp.Resource, Fields: []Field{{Name: "x", T: Int, IsVar: true}}}
	var conf []int
	// mostly conform to a pair (A, B) where B's own conformance list mentions both
	// an interface that is already reached through A and one that is not
	{
		var pairs [][2]int
		for a := 0; a < n; a++ {
			for b := 0; b < n; b++ {
				if a == b || ifs[a].closure[b] {
					continue
				}
				old, fresh := false, false
				for _, q := range ifs[b].parents {
					if q == a || ifs[a].closure[q] {
						old = true
					} else {
						fresh = true
					}
				}
				if old && fresh {
					pairs = append(pairs, [2]int{a, b})
				}
			}
		}
		if len(pairs) > 0 && g.draw(4, "diamond-pair") != 0 {
			pr := pairs[g.draw(len(pairs), "pair")]
			conf = []int{pr[0], pr[1]}
		}
	}
	nc := 1 + g.draw(3, "nconforms")
	if n >= 2 && nc < 2 && g.draw(4, "dense") != 0 {
		nc = 2 + g.draw(2, "nconforms-again")
	}
	if len(conf) > 0 {
		nc = g.draw(2, "extra-conforms")
	}
	for j := 0; j < nc; j++ {
		c := n - 1 - g.draw(min(n, 4), "conforms") // prefer the more derived interfaces; random order
		dup := false
		for _, q := range conf {
			dup = dup || q == c
		}
		if !dup {
			conf = append(conf, c)
		}
	}
	closure := map[int]bool{}
	for _, c := range conf {
		comp.Conforms = append(comp.Conforms, ifs[c].decl.Name)
		closure[c] = true
		for q := range ifs[c].closure {
			closure[q] = true
		}
	}
	var level []string
	for _, fn := range fns {
		defaults := map[int]bool{}
		declared := false
		for c := range closure {
			if d := ifs[c].defaults[fn]; d >= 0 {
				defaults[d] = true
			}
			declared = declared || ifs[c].declares[fn]
		}
		mustImpl := len(defaults) != 1
		if !mustImpl && g.draw(2, "override-"+fn) == 0 {
			level = append(level, fn+"=inherited")
		} else {
			p := condParamNames[g.draw(len(condParamNames), "param-names")]
			d := &FuncDecl{Name: fn, Owner: "T", Ret: Int,
				Params: []Param{{Label: "_", Name: p[0], T: Int}, {Label: "_", Name: p[1], T: Int}},
				Body:   g.body(fn, p, hasG)}
			if g.draw(2, "own-conds") == 0 {
				d.Pre = g.conds("T", fn, p, false)
				d.Post = g.conds("T", fn, p, true)
			}
			comp.Methods = append(comp.Methods, d)
			if len(defaults) > 0 {
				level = append(level, fn+"=override")
			} else {
				level = append(level, fn+"=own")
			}
		}
		_ = declared
		cp.Funcs = append(cp.Funcs, fn)
	}
	cp.Decls.Comps = append(cp.Decls.Comps, comp)
	for c := range closure {
		cp.Ifaces = append(cp.Ifaces, ifs[c].decl.Name)
	}
	sort.Strings(cp.Ifaces)
	kind := "struct"
	if cp.Resource {
		kind = "resource"
	}
	// steer the order inside conformance lists: walk the DAG from T the way the
	// effective conformances are computed and, where a list mentions both already
	// reached and new interfaces, mostly move a reached one in front of a new one
	// (shared ancestor first or in the middle, followed by a new interface)
	{
		reached := map[string]bool{}
		var plan func(list []string)
		plan = func(list []string) {
			var old, fresh []string
			for _, name := range list {
				if reached[name] {
					old = append(old, name)
				} else {
					fresh = append(fresh, name)
				}
			}
			if len(old) > 0 && len(fresh) > 0 && g.draw(4, "steer") != 0 {
				var order []string
				if len(fresh) >= 2 && g.draw(2, "middle") == 0 {
					order = append(append(append(order, fresh[0]), old...), fresh[1:]...)
				} else {
					order = append(append(order, old...), fresh...)
				}
				copy(list, order)
			}
			for _, name := range list {
				if !reached[name] {
					reached[name] = true
					plan(cp.Decls.Comp(name).Conforms)
				}
			}
		}
		plan(comp.Conforms)
	}
	for i, it := range ifs {
		shape[i] = fmt.Sprintf("%s:%v%s", it.decl.Name, it.decl.Conforms, shape[i])
	}
	cp.Shape = fmt.Sprintf("%s T:%v %s | %s", kind, comp.Conforms, strings.Join(level, ","), strings.Join(shape, " "))

	cp.Diamonds = map[string]bool{}
	seen := map[string]bool{}
	var walk func(list []string)
	walk = func(list []string) {
		sharedBefore := false
		for i, name := range list {
			if seen[name] {
				if len(list) >= 2 {
					switch i {
					case 0:
						cp.Diamonds["shared-first"] = true
					case len(list) - 1:
						cp.Diamonds["shared-last"] = true
					default:
						cp.Diamonds["shared-middle"] = true
					}
					sharedBefore = true
				}
				continue
			}
			if sharedBefore {
				cp.Diamonds["shared-then-new"] = true
			}
			seen[name] = true
			walk(cp.Decls.Comp(name).Conforms)
		}
	}
	walk(comp.Conforms)

	// condition counts per function (own + inherited)
	m := NewMachine(cp.Decls)
	for _, fn := range cp.Funcs {
		_, all := m.resolveMethod(comp, fn)
		for _, d := range all {
			for _, c := range append(append([]Condition{}, d.Pre...), d.Post...) {
				if c.Test != nil {
					cp.NConds[fn]++
				}
			}
		}
	}
	return cp
}

// CondIDs lists the identifiers of all boolean conditions that apply to fn of T.
func (cp *CondProgram) CondIDs(fn string) []string {
	m := NewMachine(cp.Decls)
	_, all := m.resolveMethod(cp.Decls.Comp("T"), fn)
	var out []string
	for _, d := range all {
		for k, c := range d.Pre {
			if c.Test != nil {
				out = append(out, CondID(d, FailPre, k))
			}
		}
		for k, c := range d.Post {
			if c.Test != nil {
				out = append(out, CondID(d, FailPost, k))
			}
		}
	}
	return out
}

// IfaceDeclares reports whether interface name (transitively) declares fn, i.e.
// whether fn can be called through {name}.
func (cp *CondProgram) IfaceDeclares(name, fn string) bool {
	m := NewMachine(cp.Decls)
	d := cp.Decls.Comp(name)
	if d.Method(fn) != nil {
		return true
	}
	for _, i := range m.ifaceClosure(d) {
		if i.Method(fn) != nil {
			return true
		}
	}
	return false
}

// WithCall returns the program with a main that constructs T(x: X), calls the
// function and returns [result, x afterwards].
func (cp *CondProgram) WithCall(c CondCall) *Program {
	p := &Program{Events: cp.Decls.Events, Comps: cp.Decls.Comps, Funcs: cp.Decls.Funcs}
	mk := New{Name: "T", Create: cp.Resource, Args: []Arg{{Label: "x", E: I(c.X)}}}
	args := []Arg{{E: I(c.A)}, {E: I(c.B)}}
	var body []Stmt
	recv := Expr(V("t"))
	switch {
	case c.Via == "":
		body = append(body, Let{Name: "t", Init: mk, Move: cp.Resource})
	case strings.HasPrefix(c.Via, "&"):
		body = append(body, Let{Name: "t", Init: mk, Move: cp.Resource})
		recv = RefOf{X: V("t"), T: Ref(&Type{K: KComp, Name: "{" + c.Via[1:] + "}"})}
	default:
		body = append(body, Let{Name: "t", T: &Type{K: KComp, Name: "{" + c.Via + "}", Resource: cp.Resource}, Init: mk, Move: cp.Resource})
	}
	body = append(body,
		Let{Name: "r", Init: Invoke{X: recv, Name: c.Fn, Args: args}},
		Let{Name: "x", Init: Member{X: V("t"), Name: "x"}})
	if cp.Resource {
		body = append(body, Destroy{E: V("t")})
	}
	body = append(body, Return{E: ArrLit{T: Arr(Int), Elems: []Expr{V("r"), V("x")}}})
	p.Main = &FuncDecl{Name: "main", Ret: Arr(Int), Body: body}
	return p
}
