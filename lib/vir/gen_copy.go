package vir

import (
	"fmt"

	"pgregory.net/rapid"
)

// Copy-semantics programs (C05).
//
// A generated program declares 1-3 struct types (fields of integers, strings,
// arrays, dictionaries, optionals and earlier structs, each with a setter),
// builds a nested value `a` (container sizes 0..300, long strings), obtains `b`
// from `a` through one transfer form, then applies random mutations through
// random access paths on either side — directly, through long-lived references
// to the roots, and through temporary references to nested containers — and
// finally returns both sides. While generating, the statements are executed on
// the reference evaluator (Session) so that every index and key that is used
// exists: generated programs never fail.

// CopyInfo describes a generated copy-semantics case.
type CopyInfo struct {
	Form     string // transfer form
	RootType string
	Depth    int // nesting depth of the root type
	MutA     int // mutations applied to the a side
	MutB     int // mutations applied to the b side
	ViaRef   int // mutations performed through a reference
	MaxSize  int // largest container (or string) size built
	Features map[string]bool
}

// CopyCase is a script (Script != nil) or a multi-transaction history.
type CopyCase struct {
	Script *Program
	Hist   *History
	Info   *CopyInfo
}

const (
	modeDirect   = iota // owned value reached through variables/fields/indices
	modeAuthRef         // auth(Mutate) reference to the value itself
	modePlainRef        // unauthorized reference (reached through another reference)
)

type place struct {
	e    Expr
	t    *Type
	mode int
	pure bool // e consists of identifiers, members and indices only (valid assignment target root)
}

type copyGen struct {
	t       *rapid.T
	prog    *Program
	structs []*CompDecl
	fnSeen  map[string]bool
	m       *Machine
	sess    *Session
	body    []Stmt
	info    *CopyInfo
	seed    int64
	tmp     int
	big     int // remaining budget of large containers
}

func (g *copyGen) draw(n int, label string) int { return rapid.IntRange(0, n-1).Draw(g.t, label) }
func (g *copyGen) feat(f string)                { g.info.Features[f] = true }

func (g *copyGen) nextSeed() int64 {
	g.seed += int64(1 + g.draw(5, "seed-step"))
	return g.seed
}

// emit appends a statement to the current body and runs it on the model.
func (g *copyGen) emit(st Stmt) {
	g.body = append(g.body, st)
	if p := g.sess.Exec(st); p != "" {
		g.t.Fatalf("harness: generated statement fails on the model (%s): %s", p, StmtString(st))
	}
}

func (g *copyGen) valueAt(e Expr) Value {
	v, p := g.sess.Eval(e)
	if p != "" {
		g.t.Fatalf("harness: generated path fails on the model (%s): %s", p, ExprString(e))
	}
	return deref(v)
}

// StmtString renders one statement (for messages).
func StmtString(s Stmt) string {
	p := &printer{}
	p.stmt(s)
	return p.sb.String()
}

// ---- types ------------------------------------------------------------------------

func typeDepth(p *Program, t *Type) int {
	switch t.K {
	case KArr, KDict:
		return 1 + typeDepth(p, t.Elem)
	case KOpt:
		return typeDepth(p, t.Elem)
	case KComp:
		d := 0
		for _, f := range p.Comp(t.Name).Fields {
			if x := typeDepth(p, f.T); x > d {
				d = x
			}
		}
		return 1 + d
	}
	return 0
}

func isLeafType(t *Type) bool { return t.K == KInt || t.K == KString || t.K == KBool }

func (g *copyGen) genStructs() {
	n := 1 + g.draw(3, "structs")
	for i := 0; i < n; i++ {
		name := fmt.Sprintf("S%d", i)
		pool := []*Type{Int, String, Arr(Int), Dict(String, Int), Dict(Int, String), Opt(Int), Arr(String)}
		if i > 0 {
			for j := 0; j < i; j++ {
				s := Comp(fmt.Sprintf("S%d", j))
				pool = append(pool, s, s, Arr(s), Arr(s), Dict(String, s), Dict(Int, s), Opt(s))
			}
			pool = append(pool, Arr(Arr(Int)), Dict(String, Arr(Int)))
		}
		nf := 2 + g.draw(2, "fields")
		c := &CompDecl{Name: name}
		for k := 0; k < nf; k++ {
			ft := pool[g.draw(len(pool), "field-type")]
			fname := fmt.Sprintf("f%d", k)
			c.Fields = append(c.Fields, Field{Name: fname, T: ft, IsVar: true})
			c.Methods = append(c.Methods, &FuncDecl{Name: "setF" + fmt.Sprint(k), Owner: name,
				Params: []Param{{Label: "_", Name: "v", T: ft}},
				Body:   []Stmt{Assign{Target: Member{X: Self{}, Name: fname}, Value: V("v")}}})
		}
		g.structs = append(g.structs, c)
		g.prog.Comps = append(g.prog.Comps, c)
	}
}

func (g *copyGen) rootType() *Type {
	s := Comp(g.structs[g.draw(len(g.structs), "root-struct")].Name)
	cands := []*Type{s, s, Arr(s), Arr(s), Dict(String, s), Dict(Int, s), Arr(Int), Arr(Arr(Int)),
		Dict(String, Arr(Int)), Arr(String), Dict(Int, Arr(s)), Arr(Dict(String, Int)), Dict(String, Dict(Int, Int))}
	return cands[g.draw(len(cands), "root-type")]
}

// ---- builder functions (part of the program, interpreted by both sides) ------------

func call(fn string, args ...Expr) Expr {
	c := Call{Fn: fn}
	for _, a := range args {
		c.Args = append(c.Args, Arg{E: a})
	}
	return c
}

func add(a, b Expr) Expr { return Binary{Op: "+", L: a, R: b} }
func mul(a, b Expr) Expr { return Binary{Op: "*", L: a, R: b} }
func mod(a, b Expr) Expr { return Binary{Op: "%", L: a, R: b} }

func (g *copyGen) addFn(f *FuncDecl) {
	if !g.fnSeen[f.Name] {
		g.fnSeen[f.Name] = true
		g.prog.Funcs = append(g.prog.Funcs, f)
	}
}

var seedParams = []Param{{Label: "_", Name: "s", T: Int}}
var sizeSeedParams = []Param{{Label: "_", Name: "n", T: Int}, {Label: "_", Name: "s", T: Int}}

func loop(body ...Stmt) []Stmt {
	return []Stmt{
		Let{Name: "i", IsVar: true, Init: I(0)},
		While{Cond: Binary{Op: "<", L: V("i"), R: V("n")},
			Body: append(body, Assign{Target: V("i"), Value: add(V("i"), I(1))})},
	}
}

func (g *copyGen) mkStr() string {
	g.addFn(&FuncDecl{Name: "mkStr", Params: sizeSeedParams, Ret: String, Body: append(append(
		[]Stmt{Let{Name: "r", IsVar: true, Init: S("")}},
		loop(Assign{Target: V("r"), Value: Invoke{X: V("r"), Name: "concat",
			Args: []Arg{{E: Invoke{X: mod(add(V("s"), V("i")), I(10)), Name: "toString"}}}}})...),
		Return{E: V("r")})})
	return "mkStr"
}

// keyFromSeed builds a dictionary key of type k from an Int expression.
func (g *copyGen) keyFromSeed(k *Type, e Expr) Expr {
	if k.K == KString {
		return Invoke{X: S("k"), Name: "concat", Args: []Arg{{E: Invoke{X: e, Name: "toString"}}}}
	}
	return e
}

// mkFn returns the builder `mk_<T>(n, s)` of an array or dictionary type.
func (g *copyGen) mkFn(t *Type) string {
	name := "mk_" + t.Mangle()
	if g.fnSeen[name] {
		return name
	}
	g.fnSeen[name] = true
	el := g.elFn(t.Elem)
	f := &FuncDecl{Name: name, Params: sizeSeedParams, Ret: t}
	if t.K == KArr {
		f.Body = append(append([]Stmt{Let{Name: "r", T: t, IsVar: true, Init: ArrLit{T: t}}},
			loop(ExprStmt{E: Invoke{X: V("r"), Name: "append", Args: []Arg{{E: call(el, add(V("s"), mul(V("i"), I(7))))}}}})...),
			Return{E: V("r")})
	} else {
		f.Body = append(append([]Stmt{Let{Name: "r", T: t, IsVar: true, Init: DictLit{T: t}}},
			loop(Assign{Target: Index{X: V("r"), I: g.keyFromSeed(t.Key, add(V("s"), V("i")))},
				Value: call(el, add(V("s"), mul(V("i"), I(5))))})...),
			Return{E: V("r")})
	}
	g.prog.Funcs = append(g.prog.Funcs, f)
	return name
}

// elFn returns the function `el_<T>(s)` that builds a small value of type t from a seed.
func (g *copyGen) elFn(t *Type) string {
	name := "el_" + t.Mangle()
	if g.fnSeen[name] {
		return name
	}
	g.fnSeen[name] = true
	f := &FuncDecl{Name: name, Params: seedParams, Ret: t}
	switch t.K {
	case KInt:
		f.Body = []Stmt{Return{E: V("s")}}
	case KString:
		f.Body = []Stmt{Return{E: call(g.mkStr(), mod(V("s"), I(6)), V("s"))}}
	case KArr:
		f.Body = []Stmt{Return{E: call(g.mkFn(t), mod(V("s"), I(4)), V("s"))}}
	case KDict:
		f.Body = []Stmt{Return{E: call(g.mkFn(t), mod(V("s"), I(3)), V("s"))}}
	case KOpt:
		f.Body = []Stmt{
			If{Cond: Binary{Op: "==", L: mod(V("s"), I(3)), R: I(0)}, Then: []Stmt{Return{E: NilLit{}}}},
			Return{E: call(g.elFn(t.Elem), V("s"))}}
	case KComp:
		n := New{Name: t.Name}
		for i, fd := range g.prog.Comp(t.Name).Fields {
			n.Args = append(n.Args, Arg{Label: fd.Name, E: call(g.elFn(fd.T), add(V("s"), I(int64(i+1))))})
		}
		f.Body = []Stmt{Return{E: n}}
	default:
		panic("vir: elFn: unsupported type " + t.String())
	}
	g.prog.Funcs = append(g.prog.Funcs, f)
	return name
}

var sizePool = []int{0, 1, 2, 3, 5, 9, 20, 45, 80, 150, 300}

func (g *copyGen) note(n int) {
	if n > g.info.MaxSize {
		g.info.MaxSize = n
	}
}

// rootExpr builds the expression constructing a (possibly large) value of type t.
func (g *copyGen) rootExpr(t *Type) Expr {
	switch t.K {
	case KInt:
		return I(g.nextSeed())
	case KString:
		n := []int{0, 1, 5, 40, 200}[g.draw(5, "strlen")]
		g.note(n)
		return call(g.mkStr(), I(int64(n)), I(g.nextSeed()))
	case KOpt:
		if g.draw(4, "nil") == 0 {
			return NilLit{}
		}
		return g.rootExpr(t.Elem)
	case KComp:
		n := New{Name: t.Name}
		for _, fd := range g.prog.Comp(t.Name).Fields {
			n.Args = append(n.Args, Arg{Label: fd.Name, E: g.rootExpr(fd.T)})
		}
		return n
	case KArr, KDict:
		if g.big > 0 && g.draw(3, "big") != 0 {
			g.big--
			n := sizePool[g.draw(len(sizePool), "size")]
			g.note(n)
			return call(g.mkFn(t), I(int64(n)), I(g.nextSeed()))
		}
		n := g.draw(4, "small-size")
		if t.K == KArr {
			a := ArrLit{T: t, Annot: true}
			for i := 0; i < n; i++ {
				a.Elems = append(a.Elems, g.rootExpr(t.Elem))
			}
			return a
		}
		d := DictLit{T: t, Annot: true}
		for i := 0; i < n; i++ {
			d.Keys = append(d.Keys, g.keyLit(t.Key, int64(i)))
			d.Vals = append(d.Vals, g.rootExpr(t.Elem))
		}
		return d
	}
	panic("vir: rootExpr: unsupported type " + t.String())
}

func (g *copyGen) keyLit(k *Type, n int64) Expr {
	if k.K == KString {
		return S(fmt.Sprintf("k%d", n))
	}
	return I(n)
}

// newValue is a fresh small value of type t (used by mutations).
func (g *copyGen) newValue(t *Type) Expr {
	if (t.K == KArr || t.K == KDict) && g.draw(6, "big-new") == 0 {
		n := sizePool[g.draw(len(sizePool), "size")]
		g.note(n)
		return call(g.mkFn(t), I(int64(n)), I(g.nextSeed()))
	}
	return call(g.elFn(t), I(g.nextSeed()))
}

// ---- mutations -----------------------------------------------------------------------

func (g *copyGen) tmpName(prefix string) string {
	g.tmp++
	return fmt.Sprintf("%s%d", prefix, g.tmp)
}

// refTo declares `let rN = &<p> as auth(Mutate) &T` and returns the place reached through it.
func (g *copyGen) refTo(p place) place {
	name := g.tmpName("r")
	rt := AuthRef("Mutate", p.t)
	g.emit(Let{Name: name, Init: RefOf{X: p.e, T: rt}})
	g.feat("temporary-reference")
	return place{e: V(name), t: p.t, mode: modeAuthRef, pure: true}
}

func childMode(m int) int {
	if m == modeDirect {
		return modeDirect
	}
	return modePlainRef
}

// mutateAt performs one mutation at or below p; false when nothing can be done there.
func (g *copyGen) mutateAt(p place, depth int) bool {
	if depth > 8 {
		return false
	}
	// occasionally continue through a temporary auth(Mutate) reference to the place
	if p.mode == modeDirect && p.pure && p.t.K != KOpt && !isLeafType(p.t) && g.draw(6, "tmp-ref") == 0 {
		p = g.refTo(p)
	}
	viaRef := func() {
		if p.mode != modeDirect {
			g.info.ViaRef++
		}
	}
	switch p.t.K {
	case KOpt:
		if _, isNil := g.valueAt(p.e).(NilV); isNil || isLeafType(p.t.Elem) {
			return false
		}
		g.feat("through-optional")
		return g.mutateAt(place{e: Force{X: p.e}, t: p.t.Elem, mode: p.mode, pure: false}, depth+1)

	case KComp:
		cd := g.prog.Comp(p.t.Name)
		// descend into a non-leaf field or replace a field through its setter
		var nonLeaf []int
		for i, f := range cd.Fields {
			if !isLeafType(f.T) && !(f.T.K == KOpt && isLeafType(f.T.Elem)) {
				nonLeaf = append(nonLeaf, i)
			}
		}
		if len(nonLeaf) > 0 && g.draw(3, "descend-field") != 0 {
			i := nonLeaf[g.draw(len(nonLeaf), "field")]
			f := cd.Fields[i]
			if g.mutateAt(place{e: Member{X: p.e, Name: f.Name}, t: f.T, mode: childMode(p.mode), pure: p.pure}, depth+1) {
				return true
			}
		}
		i := g.draw(len(cd.Fields), "set-field")
		g.feat("setter")
		viaRef()
		g.emit(ExprStmt{E: Invoke{X: p.e, Name: fmt.Sprintf("setF%d", i), Args: []Arg{{E: g.newValue(cd.Fields[i].T)}}}})
		return true

	case KArr:
		arr := g.valueAt(p.e).(*ArrV)
		n := len(arr.Elems)
		canDescend := n > 0 && !isLeafType(p.t.Elem)
		if p.mode == modePlainRef {
			if !canDescend {
				return false
			}
			i := g.draw(n, "elem")
			return g.mutateAt(place{e: Index{X: p.e, I: I(int64(i))}, t: p.t.Elem, mode: modePlainRef, pure: p.pure}, depth+1)
		}
		if canDescend && g.draw(2, "descend-elem") == 0 {
			i := g.draw(n, "elem")
			if g.mutateAt(place{e: Index{X: p.e, I: I(int64(i))}, t: p.t.Elem, mode: childMode(p.mode), pure: p.pure}, depth+1) {
				return true
			}
		}
		viaRef()
		op := g.draw(5, "array-op")
		if n == 0 || n > 320 {
			op = 0
			if n > 320 {
				op = 2
			}
		}
		switch op {
		case 0:
			g.feat("array-append")
			g.emit(ExprStmt{E: Invoke{X: p.e, Name: "append", Args: []Arg{{E: g.newValue(p.t.Elem)}}}})
		case 1:
			g.feat("array-insert")
			g.emit(ExprStmt{E: Invoke{X: p.e, Name: "insert", Args: []Arg{{Label: "at", E: I(int64(g.draw(n+1, "at")))}, {E: g.newValue(p.t.Elem)}}}})
		case 2:
			g.feat("array-remove")
			g.emit(ExprStmt{E: Invoke{X: p.e, Name: "remove", Args: []Arg{{Label: "at", E: I(int64(g.draw(n, "at")))}}}})
		default:
			g.feat("array-set-index")
			q := p
			if !q.pure {
				q = g.refTo(p)
			}
			g.emit(Assign{Target: Index{X: q.e, I: I(int64(g.draw(n, "at")))}, Value: g.newValue(p.t.Elem)})
		}
		return true

	case KDict:
		d := g.valueAt(p.e).(*DictV)
		n := len(d.Keys)
		canDescend := n > 0 && !isLeafType(p.t.Elem)
		existing := func() Expr {
			k := d.Keys[g.draw(n, "key")]
			switch k := k.(type) {
			case IntV:
				return IntLit{T: "Int", V: k.V}
			case StrV:
				return S(string(k))
			}
			panic("vir: unexpected key")
		}
		if p.mode == modePlainRef {
			if !canDescend {
				return false
			}
			return g.mutateAt(place{e: Force{X: Index{X: p.e, I: existing()}}, t: p.t.Elem, mode: modePlainRef, pure: false}, depth+1)
		}
		if canDescend && g.draw(2, "descend-value") == 0 {
			if g.mutateAt(place{e: Force{X: Index{X: p.e, I: existing()}}, t: p.t.Elem, mode: childMode(p.mode), pure: false}, depth+1) {
				return true
			}
		}
		viaRef()
		key := g.keyLit(p.t.Key, int64(1000+g.draw(6, "new-key")))
		if n > 0 && g.draw(2, "existing-key") == 0 {
			key = existing()
		}
		op := g.draw(3, "dict-op")
		if n > 320 {
			op = 1
		}
		switch op {
		case 0:
			g.feat("dict-insert")
			g.emit(ExprStmt{E: Invoke{X: p.e, Name: "insert", Args: []Arg{{Label: "key", E: key}, {E: g.newValue(p.t.Elem)}}}})
		case 1:
			g.feat("dict-remove")
			g.emit(ExprStmt{E: Invoke{X: p.e, Name: "remove", Args: []Arg{{Label: "key", E: key}}}})
		default:
			g.feat("dict-set-index")
			q := p
			if !q.pure {
				q = g.refTo(p)
			}
			g.emit(Assign{Target: Index{X: q.e, I: key}, Value: g.newValue(p.t.Elem)})
		}
		return true
	}
	return false
}

// side is one of the two values whose independence is checked.
type side struct {
	name  string
	roots []place // ways to reach the value: directly, through long-lived references
	muts  *int
}

func (g *copyGen) mutate(s *side) {
	for try := 0; try < 6; try++ {
		r := s.roots[g.draw(len(s.roots), "root")]
		if g.mutateAt(r, 0) {
			*s.muts++
			return
		}
	}
	// whole-value replacement is always possible on a direct variable root
	r := s.roots[0]
	if r.pure && r.mode == modeDirect {
		if _, isVar := r.e.(Var); isVar {
			g.feat("reassign-root")
			g.emit(Assign{Target: r.e, Value: g.newValue(r.t)})
			*s.muts++
			// references taken earlier keep pointing to the replaced value
			s.roots = s.roots[:1]
		}
	}
}

func (g *copyGen) mutations(a, b *side, n int) {
	for i := 0; i < n; i++ {
		s := a
		if g.draw(2, "side") == 0 {
			s = b
		}
		g.mutate(s)
	}
}

// addRootRef declares a long-lived auth(Mutate) reference to a side's root.
func (g *copyGen) addRootRef(s *side) {
	r := s.roots[0]
	if isLeafType(r.t) || r.t.K == KOpt {
		return
	}
	name := "ref_" + s.name
	g.emit(Let{Name: name, Init: RefOf{X: r.e, T: AuthRef("Mutate", r.t)}})
	g.feat("root-reference")
	s.roots = append(s.roots, place{e: V(name), t: r.t, mode: modeAuthRef, pure: true})
}

func isPrimitiveContainer(t *Type) bool {
	switch t.K {
	case KArr:
		return isPrimitiveContainer(t.Elem)
	case KDict:
		return isPrimitiveContainer(t.Key) && isPrimitiveContainer(t.Elem)
	case KInt, KString, KBool:
		return true
	}
	return false
}

var copyForms = []string{"let", "assign", "argument-return", "argument-mutated", "field-store", "constructor-argument",
	"method-return", "array-insert", "dict-insert", "closure-capture", "dereference", "optional-unwrap", "for-in",
	"storage-copy", "storage-load"}

func newCopyGen(t *rapid.T) *copyGen {
	g := &copyGen{t: t, prog: &Program{}, fnSeen: map[string]bool{}, info: &CopyInfo{Features: map[string]bool{}}, big: 2}
	g.genStructs()
	g.m = NewMachine(g.prog)
	return g
}

// holder declares struct H_<T> { var f: T; setF; getF } and returns its name.
func (g *copyGen) holder(t *Type) string {
	name := "H"
	if g.prog.Comp(name) == nil {
		g.prog.Comps = append(g.prog.Comps, &CompDecl{Name: name,
			Fields: []Field{{Name: "f", T: t, IsVar: true}},
			Methods: []*FuncDecl{
				{Name: "setF", Owner: name, Params: []Param{{Label: "_", Name: "v", T: t}},
					Body: []Stmt{Assign{Target: Member{X: Self{}, Name: "f"}, Value: V("v")}}},
				{Name: "getF", Owner: name, Ret: t, Body: []Stmt{Return{E: Member{X: Self{}, Name: "f"}}}},
			}})
	}
	return name
}

// topMutation is a fixed mutation applied directly to expression e of type t
// (struct: first setter, array: append, dictionary: insert).
func (g *copyGen) topMutation(e Expr, t *Type, seed int64) Stmt {
	switch t.K {
	case KArr:
		return ExprStmt{E: Invoke{X: e, Name: "append", Args: []Arg{{E: call(g.elFn(t.Elem), I(seed))}}}}
	case KDict:
		return ExprStmt{E: Invoke{X: e, Name: "insert", Args: []Arg{{Label: "key", E: g.keyLit(t.Key, seed)}, {E: call(g.elFn(t.Elem), I(seed))}}}}
	case KComp:
		ft := g.prog.Comp(t.Name).Fields[0].T
		return ExprStmt{E: Invoke{X: e, Name: "setF0", Args: []Arg{{E: call(g.elFn(ft), I(seed))}}}}
	}
	panic("vir: topMutation: unsupported type " + t.String())
}

// mutateTemp mutates the value of expression e (a call / load / dereference
// result) in place without binding it to a variable first: the mutation must be
// lost, because the expression yielded a copy.
func (g *copyGen) mutateTemp(e Expr, t *Type) {
	if g.draw(3, "mutate-temp") == 0 {
		return
	}
	g.feat("mutate-temporary")
	g.emit(g.topMutation(e, t, 888))
}

// GenCopy generates a copy-semantics case.
func GenCopy(t *rapid.T) *CopyCase {
	g := newCopyGen(t)
	T := g.rootType()
	g.info.RootType = T.String()
	g.info.Depth = typeDepth(g.prog, T)
	form := copyForms[g.draw(len(copyForms), "form")]
	if form == "dereference" && !isPrimitiveContainer(T) {
		form = "let"
	}
	if form == "for-in" {
		T = Arr(T)
	}
	g.info.Form = form
	if form == "storage-copy" || form == "storage-load" {
		return g.history(T, form)
	}

	g.sess = g.m.Begin()
	g.emit(Let{Name: "a", IsVar: true, Init: g.rootExpr(T)})
	a := &side{name: "a", roots: []place{{e: V("a"), t: T, mode: modeDirect, pure: true}}, muts: &g.info.MutA}
	b := &side{name: "b", muts: &g.info.MutB}
	bRoot := place{e: V("b"), t: T, mode: modeDirect, pure: true}
	nMut := 4 + g.draw(9, "mutations")

	switch form {
	case "let":
		g.emit(Let{Name: "b", IsVar: true, Init: V("a")})
	case "assign":
		g.emit(Let{Name: "b", IsVar: true, Init: g.newValue(T)})
		g.emit(Assign{Target: V("b"), Value: V("a")})
	case "argument-return":
		g.addFn(&FuncDecl{Name: "pass", Params: []Param{{Label: "_", Name: "v", T: T}}, Ret: T, Body: []Stmt{Return{E: V("v")}}})
		g.addFn(&FuncDecl{Name: "pass2", Params: []Param{{Label: "_", Name: "n", T: Int}, {Name: "v", T: T}}, Ret: T, Body: []Stmt{Return{E: V("v")}}})
		pass := call("pass", V("a"))
		if g.draw(2, "second-argument") == 0 {
			pass = Call{Fn: "pass2", Args: []Arg{{E: I(1)}, {Label: "v", E: V("a")}}}
		}
		g.emit(Let{Name: "b", IsVar: true, Init: pass})
		g.mutateTemp(pass, T)
	case "argument-mutated":
		// the callee mutates its parameter: the caller's value must not change
		mut := g.topMutation(V("v"), T, 777)
		g.addFn(&FuncDecl{Name: "take", Params: []Param{{Label: "_", Name: "v", T: T}}, Ret: T, Body: []Stmt{mut, Return{E: V("v")}}})
		g.emit(Let{Name: "b", IsVar: true, Init: call("take", V("a"))})
	case "field-store":
		h := g.holder(T)
		g.emit(Let{Name: "h", IsVar: true, Init: New{Name: h, Args: []Arg{{Label: "f", E: g.newValue(T)}}}})
		g.emit(ExprStmt{E: Invoke{X: V("h"), Name: "setF", Args: []Arg{{E: V("a")}}}})
		bRoot = place{e: Member{X: V("h"), Name: "f"}, t: T, mode: modeDirect, pure: true}
	case "constructor-argument":
		h := g.holder(T)
		g.emit(Let{Name: "h", IsVar: true, Init: New{Name: h, Args: []Arg{{Label: "f", E: V("a")}}}})
		bRoot = place{e: Member{X: V("h"), Name: "f"}, t: T, mode: modeDirect, pure: true}
	case "method-return":
		h := g.holder(T)
		g.emit(Let{Name: "h", IsVar: true, Init: New{Name: h, Args: []Arg{{Label: "f", E: V("a")}}}})
		g.emit(Let{Name: "b", IsVar: true, Init: Invoke{X: V("h"), Name: "getF"}})
		g.mutateTemp(Invoke{X: V("h"), Name: "getF"}, T)
		// h.f is a third copy; mutate it a little as well
		third := &side{name: "h", roots: []place{{e: Member{X: V("h"), Name: "f"}, t: T, mode: modeDirect, pure: true}}, muts: new(int)}
		g.mutate(third)
	case "array-insert":
		g.emit(Let{Name: "box", T: Arr(T), IsVar: true, Init: ArrLit{T: Arr(T)}})
		if g.draw(2, "insert-at") == 0 {
			g.emit(ExprStmt{E: Invoke{X: V("box"), Name: "insert", Args: []Arg{{Label: "at", E: I(0)}, {E: V("a")}}}})
		} else {
			g.emit(ExprStmt{E: Invoke{X: V("box"), Name: "append", Args: []Arg{{E: V("a")}}}})
		}
		bRoot = place{e: Index{X: V("box"), I: I(0)}, t: T, mode: modeDirect, pure: true}
	case "dict-insert":
		g.emit(Let{Name: "box", T: Dict(String, T), IsVar: true, Init: DictLit{T: Dict(String, T)}})
		if g.draw(2, "insert-key") == 0 {
			g.emit(ExprStmt{E: Invoke{X: V("box"), Name: "insert", Args: []Arg{{Label: "key", E: S("k")}, {E: V("a")}}}})
		} else {
			g.emit(Assign{Target: Index{X: V("box"), I: S("k")}, Value: V("a")})
		}
		bRoot = place{e: Force{X: Index{X: V("box"), I: S("k")}}, t: T, mode: modeDirect, pure: false}
	case "closure-capture":
		g.emit(Let{Name: "get", Init: Closure{Decl: &FuncDecl{Name: "get", Ret: T, Body: []Stmt{Return{E: V("a")}}}}})
		// the closure captures the variable: mutations made before the call are seen by it
		g.mutate(a)
		g.mutate(a)
		g.emit(Let{Name: "b", IsVar: true, Init: CallVal{F: V("get")}})
		g.mutateTemp(CallVal{F: V("get")}, T)
	case "dereference":
		g.emit(Let{Name: "r0", Init: RefOf{X: V("a"), T: Ref(T)}})
		g.emit(Let{Name: "b", IsVar: true, Init: Deref{X: V("r0")}})
		g.mutateTemp(Deref{X: V("r0")}, T)
	case "optional-unwrap":
		g.emit(Let{Name: "o", T: Opt(T), IsVar: true, Init: V("a")})
		g.emit(Let{Name: "b", IsVar: true, Init: Force{X: V("o")}})
		third := &side{name: "o", roots: []place{{e: V("o"), t: Opt(T), mode: modeDirect, pure: true}}, muts: new(int)}
		g.mutate(third)
	case "for-in":
		// T is [E]: each loop variable is a copy of the element; mutating it must not change a
		el := T.Elem
		g.emit(Let{Name: "b", T: T, IsVar: true, Init: ArrLit{T: T}})
		inner := g.topMutation(V("e"), el, 555)
		g.emit(ForIn{Name: "e", X: V("a"), Body: []Stmt{inner, ExprStmt{E: Invoke{X: V("b"), Name: "append", Args: []Arg{{E: V("e")}}}}}})
	}
	b.roots = []place{bRoot}
	if g.draw(2, "refs-a") == 0 {
		g.addRootRef(a)
	}
	if g.draw(2, "refs-b") == 0 && bRoot.pure {
		g.addRootRef(b)
	}
	// at least one mutation on each side, then random ones
	g.mutate(a)
	g.mutate(b)
	g.mutations(a, b, nMut/2)
	// snapshots in the middle: further copies that later mutations must not reach
	g.emit(Let{Name: "snapA", Init: V("a")})
	g.emit(Let{Name: "snapB", Init: bRoot.e})
	g.mutations(a, b, nMut-nMut/2)

	res := ArrLit{T: Arr(Any), Elems: []Expr{V("a"), bRoot.e, V("snapA"), V("snapB")}}
	if form == "method-return" {
		res.Elems = append(res.Elems, Member{X: V("h"), Name: "f"})
	}
	if form == "optional-unwrap" {
		res.Elems = append(res.Elems, V("o"))
	}
	g.emit(Return{E: res})
	g.prog.Main = &FuncDecl{Name: "main", Ret: Arr(Any), Body: g.body}
	return &CopyCase{Script: g.prog, Info: g.info}
}

// history builds the cross-transaction forms: a is saved in one transaction, b
// is obtained from storage by copy/load in a later one, both sides are mutated
// (the stored one through borrowed references) in several transactions, and a
// final script returns both.
func (g *copyGen) history(T *Type, form string) *CopyCase {
	h := &History{Decls: g.prog}
	borrow := func(path string) Expr {
		return Force{X: StorageBorrow{T: AuthRef("Mutate", T), Path: path}}
	}
	begin := func() { g.sess = g.m.Begin(); g.body = nil }
	end := func() { h.Steps = append(h.Steps, Step{Tx: true, Body: g.body}) }
	var sink int

	// tx 1: build and save a; mutate the local variable afterwards (must not reach storage)
	begin()
	g.emit(Let{Name: "a", IsVar: true, Init: g.rootExpr(T)})
	g.emit(StorageSave{Value: V("a"), Path: "a"})
	local := &side{name: "a", roots: []place{{e: V("a"), t: T, mode: modeDirect, pure: true}}, muts: &sink}
	g.mutate(local)
	end()

	// tx 2: obtain b
	begin()
	a := &side{name: "sa", muts: &g.info.MutA}
	b := &side{name: "b", roots: []place{{e: V("b"), t: T, mode: modeDirect, pure: true}}, muts: &g.info.MutB}
	if form == "storage-copy" {
		g.emit(Let{Name: "b", IsVar: true, Init: Force{X: StorageLoad{T: T, Path: "a", Copy: true}}})
		g.mutateTemp(Force{X: StorageLoad{T: T, Path: "a", Copy: true}}, T)
	} else {
		// load removes the value; save a copy back so that both sides exist
		g.emit(Let{Name: "b", IsVar: true, Init: Force{X: StorageLoad{T: T, Path: "a"}}})
		g.emit(StorageSave{Value: V("b"), Path: "a"})
	}
	canRef := !isLeafType(T) && T.K != KOpt
	bindStored := func() {
		g.emit(Let{Name: "sa", Init: borrow("a")})
		a.roots = []place{{e: V("sa"), t: T, mode: modeAuthRef, pure: true}}
	}
	if canRef {
		bindStored()
		g.mutate(a)
	}
	g.mutate(b)
	g.mutations(a, b, 2+g.draw(4, "mutations"))
	g.emit(StorageSave{Value: V("b"), Path: "b"})
	// mutating the local b after saving must not reach storage
	g.mutate(&side{name: "b", roots: b.roots, muts: &sink})
	end()

	// tx 3..: mutate both stored values through borrowed references
	ntx := 1 + g.draw(2, "more-txs")
	for i := 0; i < ntx; i++ {
		begin()
		bindStored()
		g.emit(Let{Name: "sb", Init: borrow("b")})
		b.roots = []place{{e: V("sb"), t: T, mode: modeAuthRef, pure: true}}
		b.name = "sb"
		g.mutations(a, b, 2+g.draw(4, "mutations"))
		g.mutateTemp(Force{X: StorageLoad{T: T, Path: "b", Copy: true}}, T)
		end()
	}

	// final script
	g.sess = g.m.Begin()
	g.body = nil
	g.emit(Return{E: ArrLit{T: Arr(Any), Elems: []Expr{
		Force{X: StorageLoad{T: T, Path: "a", Copy: true}},
		Force{X: StorageLoad{T: T, Path: "b", Copy: true}}}}})
	h.Steps = append(h.Steps, Step{Body: g.body, Ret: Arr(Any)})
	g.feat("cross-transaction")
	return &CopyCase{Hist: h, Info: g.info}
}
