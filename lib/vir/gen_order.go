package vir

import (
	"fmt"
	"math/big"

	"pgregory.net/rapid"
)

// Evaluation-order programs (C52): every leaf of every generated expression is
// a call t_<T>(k, v) that logs the unique number k and returns v, so that the
// log is a complete trace of the evaluation order.
//
// Shape of a generated program:
//
//	struct S { var f: Int; var g: Bool; var arr: [Int]; init(..) {log("init") ..}
//	           fun m(_ a: Int, b: Int): Int {log("m") ..}  fun p.. fun oi..
//	           fun body(): [AnyStruct] { <generated statements>; return [..] } }
//	fun f2.. fun f3.. (logging functions with several, partly labelled, parameters)
//	fun t_Int(_ k: Int, _ v: Int): Int { log(k); return v } ... one per leaf type
//	fun main(): [AnyStruct] { return S(f: 1, g: true).body() }
//
// The body runs as a method of S because fields can only be assigned from
// inside the declaring type.

// OrderInfo describes a generated evaluation-order program.
type OrderInfo struct {
	Leaves   int             // number of logging leaves in the program text
	Features map[string]bool // syntactic forms used
}

type orderGen struct {
	t        *rapid.T
	prog     *Program
	nextK    int64
	helpers  map[string]bool
	info     *OrderInfo
	vars     map[string][]string // type string -> variable names in scope (body level)
	counter  int
	noStr    int   // >0: inside a string template hole: no string literals
	anyHint  *Type // dynamic type AnyStruct values should mostly have (cast targets)
	maxDepth int
}

var (
	tS     = Comp("S")
	tOInt  = Opt(Int)
	tOS    = Opt(tS)
	tAInt  = Arr(Int)
	tAAInt = Arr(Arr(Int))
	tAS    = Arr(tS)
	tDII   = Dict(Int, Int)
	tRS    = Ref(tS)
	tRMA   = AuthRef("Mutate", tAInt)
)

func (g *orderGen) draw(n int, label string) int {
	return rapid.IntRange(0, n-1).Draw(g.t, label)
}

func (g *orderGen) feat(f string) { g.info.Features[f] = true }

// leaf builds t_<T>(k, v).
func (g *orderGen) leaf(t *Type) Expr {
	g.nextK++
	g.info.Leaves++
	name := g.leafHelper(t)
	return Call{Fn: name, Args: []Arg{{E: IntLit{T: "Int", V: big.NewInt(g.nextK)}}, {E: g.value(t)}}}
}

func (g *orderGen) leafHelper(t *Type) string {
	name := "t_" + t.Mangle()
	if !g.helpers[name] {
		g.helpers[name] = true
		g.prog.Funcs = append(g.prog.Funcs, &FuncDecl{
			Name:   name,
			Params: []Param{{Label: "_", Name: "k", T: Int}, {Label: "_", Name: "v", T: t}},
			Ret:    t,
			Body:   []Stmt{Log{E: V("k")}, Return{E: V("v")}},
		})
	}
	return name
}

func (g *orderGen) pickVar(t *Type) (Expr, bool) {
	names := g.vars[t.String()]
	if len(names) == 0 || g.draw(3, "usevar") != 0 {
		return nil, false
	}
	return V(names[g.draw(len(names), "var")]), true
}

// value builds a non-logging (except for S's initializer) expression of type t
// used as the value a leaf returns.
func (g *orderGen) value(t *Type) Expr {
	if v, ok := g.pickVar(t); ok {
		return v
	}
	switch t.K {
	case KInt:
		if t.Name == "Int8" {
			pool := []int64{-128, -127, -2, -1, 0, 1, 2, 3, 63, 64, 100, 126, 127}
			return IT("Int8", pool[g.draw(len(pool), "i8")])
		}
		pool := []int64{0, 1, 1, 2, 2, 3, 4, 5, 7, -1, -2}
		return I(pool[g.draw(len(pool), "int")])
	case KBool:
		return B(g.draw(2, "bool") == 0)
	case KString:
		return S(fmt.Sprintf("s%d", g.draw(4, "str")))
	case KOpt:
		if g.draw(3, "nil") == 0 {
			return NilLit{}
		}
		return g.value(t.Elem)
	case KArr:
		n := 1 + g.draw(4, "alen")
		if g.draw(8, "empty") == 0 {
			n = 0
		}
		a := ArrLit{T: t}
		for i := 0; i < n; i++ {
			a.Elems = append(a.Elems, g.value(t.Elem))
		}
		return a
	case KDict:
		n := g.draw(4, "dlen")
		d := DictLit{T: t}
		for i := 0; i < n; i++ {
			d.Keys = append(d.Keys, I(int64(g.draw(4, "dkey"))))
			d.Vals = append(d.Vals, g.value(t.Elem))
		}
		return d
	case KComp:
		return New{Name: "S", Args: []Arg{{Label: "f", E: g.value(Int)}, {Label: "g", E: g.value(Bool)}}}
	case KRef:
		if t.Equal(tRS) {
			return RefOf{X: V("s0"), T: tRS}
		}
		names := g.vars[tAInt.String()]
		return RefOf{X: V(names[g.draw(len(names), "refarr")]), T: tRMA}
	case KAny:
		if h := g.anyHint; h != nil && g.draw(4, "any-hit") != 0 {
			return g.value(h)
		}
		n := 5
		if g.noStr > 0 {
			n = 4
		}
		switch g.draw(n, "any") {
		case 0:
			return g.value(Int)
		case 1:
			return g.value(Bool)
		case 2:
			return NilLit{}
		case 3:
			return g.value(tS)
		default:
			return g.value(String)
		}
	}
	panic("vir: no value for type " + t.String())
}

// expr builds an expression of type t with nesting depth at most d.
func (g *orderGen) expr(t *Type, d int) Expr {
	if d <= 0 || g.draw(10, "leaf?") < 2 {
		return g.leaf(t)
	}
	d--
	switch t.String() {
	case "Int":
		switch g.draw(14, "int-form") {
		case 0, 1:
			ops := []string{"+", "-", "*", "/", "%", "&", "|", "^"}
			op := ops[g.draw(len(ops), "op")]
			g.feat("binary " + op)
			return Binary{Op: op, L: g.expr(Int, d), R: g.expr(Int, d)}
		case 2:
			g.feat("conditional")
			return Cond{C: g.expr(Bool, d), A: g.expr(Int, d), B: g.expr(Int, d)}
		case 3:
			g.feat("nil-coalescing")
			return Binary{Op: "??", L: g.expr(tOInt, d), R: g.expr(Int, d)}
		case 4:
			g.feat("force-unwrap")
			return Force{X: g.expr(tOInt, d)}
		case 5:
			g.feat("index-array")
			return Index{X: g.expr(tAInt, d), I: g.index(d)}
		case 6:
			g.feat("member")
			if g.draw(2, "via-ref") == 0 {
				return Member{X: g.expr(tRS, d), Name: "f"}
			}
			return Member{X: g.expr(tS, d), Name: "f"}
		case 7:
			g.feat("call-2")
			return Call{Fn: "f2", Args: []Arg{{E: g.expr(Int, d)}, {Label: "b", E: g.expr(Int, d)}}}
		case 8:
			g.feat("call-3")
			return Call{Fn: "f3", Args: []Arg{{Label: "a", E: g.expr(Int, d)}, {Label: "b", E: g.expr(Bool, d)}, {Label: "c", E: g.expr(Int, d)}}}
		case 9, 10:
			g.feat("method-call")
			recv := tS
			if g.draw(2, "via-ref") == 0 {
				recv = tRS
			}
			return Invoke{X: g.expr(recv, d), Name: "m", Args: []Arg{{E: g.expr(Int, d)}, {Label: "b", E: g.expr(Int, d)}}}
		case 11:
			g.feat("force-cast")
			return Cast{Op: "as!", X: g.anyExpr(d, Int), T: Int}
		case 12:
			g.feat("unary-minus")
			return Unary{Op: "-", X: g.expr(Int, d)}
		default:
			g.feat("index-array-via-ref")
			return Index{X: g.expr(tRMA, d), I: g.index(d)}
		}
	case "Int8":
		switch g.draw(4, "int8-form") {
		case 0, 1:
			ops := []string{"+", "-", "*", "/", "%"}
			op := ops[g.draw(len(ops), "op")]
			g.feat("binary8 " + op)
			return Binary{Op: op, L: g.expr(Int8, d), R: g.expr(Int8, d)}
		case 2:
			g.feat("conditional")
			return Cond{C: g.expr(Bool, d), A: g.expr(Int8, d), B: g.expr(Int8, d)}
		default:
			g.feat("unary-minus")
			return Unary{Op: "-", X: g.expr(Int8, d)}
		}
	case "Bool":
		switch g.draw(10, "bool-form") {
		case 0, 1:
			g.feat("and")
			return Binary{Op: "&&", L: g.expr(Bool, d), R: g.expr(Bool, d)}
		case 2, 3:
			g.feat("or")
			return Binary{Op: "||", L: g.expr(Bool, d), R: g.expr(Bool, d)}
		case 4:
			g.feat("not")
			return Unary{Op: "!", X: g.expr(Bool, d)}
		case 5:
			ops := []string{"<", "<=", ">", ">=", "==", "!="}
			op := ops[g.draw(len(ops), "cmp")]
			g.feat("compare " + op)
			if g.draw(4, "cmp8") == 0 {
				return Binary{Op: op, L: g.expr(Int8, d), R: g.expr(Int8, d)}
			}
			return Binary{Op: op, L: g.expr(Int, d), R: g.expr(Int, d)}
		case 6:
			g.feat("conditional")
			return Cond{C: g.expr(Bool, d), A: g.expr(Bool, d), B: g.expr(Bool, d)}
		case 7:
			g.feat("method-call")
			return Invoke{X: g.expr(tS, d), Name: "p", Args: []Arg{{E: g.expr(Bool, d)}}}
		case 8:
			g.feat("force-cast")
			return Cast{Op: "as!", X: g.anyExpr(d, Bool), T: Bool}
		default:
			g.feat("optional-equals")
			op := []string{"==", "!="}[g.draw(2, "eq")]
			return Binary{Op: op, L: g.expr(tOInt, d), R: g.expr(tOInt, d)}
		}
	case "String":
		if g.noStr > 0 {
			return g.leaf(t)
		}
		switch g.draw(3, "string-form") {
		case 0, 1:
			g.feat("string-template")
			n := 1 + g.draw(3, "holes")
			tm := Tmpl{Parts: []string{"a"}}
			g.noStr++
			for i := 0; i < n; i++ {
				ht := []*Type{Int, Bool, Int8}[g.draw(3, "hole-type")]
				tm.Exprs = append(tm.Exprs, g.expr(ht, d))
				tm.Parts = append(tm.Parts, fmt.Sprintf(" p%d ", i))
			}
			g.noStr--
			return tm
		default:
			g.feat("conditional")
			return Cond{C: g.expr(Bool, d), A: g.expr(String, d), B: g.expr(String, d)}
		}
	case "Int?":
		switch g.draw(13, "oint-form") {
		case 9:
			// the member is itself optional: the chain's result is flattened to Int?
			g.feat("optional-chaining-optional-member")
			return Member{X: g.expr(tOS, d), Name: "o", Opt: true}
		case 10, 11:
			// left operand of type Int??: some(nil) is not nil, the right side must not run
			g.feat("nil-coalescing-nested")
			l := g.chainOI(d)
			r := g.expr(tOInt, d)
			if _, isCall := r.(Call); !isCall {
				r = Cast{Op: "as", X: r, T: tOInt}
			}
			return Binary{Op: "??", L: l, R: r}
		case 12:
			g.feat("force-unwrap-nested")
			return Force{X: g.chainOI(d)}
		case 0:
			g.feat("index-dict")
			return Index{X: g.expr(tDII, d), I: g.index(d)}
		case 1, 2:
			g.feat("optional-chaining-member")
			return Member{X: g.expr(tOS, d), Name: "f", Opt: true}
		case 3, 4:
			g.feat("optional-chaining-call")
			return Invoke{X: g.expr(tOS, d), Opt: true, Name: "m", Args: []Arg{{E: g.expr(Int, d)}, {Label: "b", E: g.expr(Int, d)}}}
		case 5:
			g.feat("failable-cast")
			return Cast{Op: "as?", X: g.expr(Any, d), T: Int}
		case 6:
			g.feat("conditional")
			return Cond{C: g.expr(Bool, d), A: g.expr(tOInt, d), B: g.expr(tOInt, d)}
		case 7:
			g.feat("nil-coalescing-optional")
			// the checker infers the right operand with expected type Int first;
			// a static cast keeps compound right operands at Int?
			l, r := g.expr(tOInt, d), g.expr(tOInt, d)
			if _, isCall := r.(Call); !isCall {
				r = Cast{Op: "as", X: r, T: tOInt}
			}
			return Binary{Op: "??", L: l, R: r}
		default:
			g.feat("method-call")
			return Invoke{X: g.expr(tS, d), Name: "oi", Args: []Arg{{E: g.expr(Int, d)}}}
		}
	case "S":
		switch g.draw(6, "s-form") {
		case 0, 1:
			g.feat("constructor")
			return New{Name: "S", Args: []Arg{{Label: "f", E: g.expr(Int, d)}, {Label: "g", E: g.expr(Bool, d)}}}
		case 2:
			g.feat("conditional")
			return Cond{C: g.expr(Bool, d), A: g.expr(tS, d), B: g.expr(tS, d)}
		case 3:
			g.feat("force-unwrap")
			return Force{X: g.expr(tOS, d)}
		case 4:
			g.feat("nil-coalescing")
			return Binary{Op: "??", L: g.expr(tOS, d), R: g.expr(tS, d)}
		default:
			g.feat("force-cast")
			return Cast{Op: "as!", X: g.anyExpr(d, tS), T: tS}
		}
	case "S?":
		switch g.draw(3, "os-form") {
		case 0:
			g.feat("conditional")
			return Cond{C: g.expr(Bool, d), A: g.expr(tOS, d), B: g.expr(tOS, d)}
		case 1:
			g.feat("failable-cast")
			return Cast{Op: "as?", X: g.expr(Any, d), T: tS}
		default:
			return g.leaf(t)
		}
	case "[Int]":
		switch g.draw(4, "arr-form") {
		case 0, 1:
			g.feat("array-literal")
			n := g.draw(4, "n")
			a := ArrLit{T: tAInt}
			for i := 0; i < n; i++ {
				a.Elems = append(a.Elems, g.expr(Int, d))
			}
			if n == 0 {
				a.Annot = true
			}
			return a
		case 2:
			g.feat("conditional")
			return Cond{C: g.expr(Bool, d), A: g.expr(tAInt, d), B: g.expr(tAInt, d)}
		default:
			g.feat("member")
			return Member{X: g.expr(tS, d), Name: "arr"}
		}
	case "{Int: Int}":
		switch g.draw(3, "dict-form") {
		case 0, 1:
			g.feat("dictionary-literal")
			n := g.draw(4, "n")
			dl := DictLit{T: tDII}
			for i := 0; i < n; i++ {
				dl.Keys = append(dl.Keys, g.expr(Int, d))
				dl.Vals = append(dl.Vals, g.expr(Int, d))
			}
			if n == 0 {
				dl.Annot = true
			}
			return dl
		default:
			g.feat("conditional")
			return Cond{C: g.expr(Bool, d), A: g.expr(tDII, d), B: g.expr(tDII, d)}
		}
	case "AnyStruct":
		g.feat("static-cast")
		ts := []*Type{Int, Bool, tS, tOInt}
		if g.noStr == 0 {
			ts = append(ts, String)
		}
		at := ts[g.draw(len(ts), "any-of")]
		if h := g.anyHint; h != nil && g.draw(4, "any-hit") != 0 {
			at = h
		}
		return Cast{Op: "as", X: exact(g.expr(at, d), at), T: Any}
	}
	// references: conditional or leaf
	if g.draw(3, "ref-cond") == 0 {
		g.feat("conditional")
		return Cond{C: g.expr(Bool, d), A: g.expr(t, d), B: g.expr(t, d)}
	}
	return g.leaf(t)
}

// index builds an index expression. The checker types an arithmetic expression
// in index position with the expected type `Integer` taken from the array, which
// makes e.g. `a[(c ? x : y) % z]` ill-typed (`Integer % Int`); a static cast
// keeps such operands at type Int. (Checker quirk, not part of C52.)
func (g *orderGen) index(d int) Expr {
	if g.draw(10, "index-simple") < 6 {
		// a leaf with a small index that is mostly in range
		g.nextK++
		g.info.Leaves++
		g.leafHelper(Int)
		return Call{Fn: "t_Int", Args: []Arg{{E: I(g.nextK)}, {E: I(int64(g.draw(3, "small-index") % 2))}}}
	}
	return exact(g.expr(Int, d), Int)
}

// exact pins the static type of an operator expression that is placed where the
// expected type is a proper supertype (Integer for indices, AnyStruct for
// elements of the result array).
func exact(e Expr, t *Type) Expr {
	switch e.(type) {
	case Binary, Unary, Cond:
		return Cast{Op: "as", X: e, T: t}
	}
	return e
}

// chainOI builds x?.oi(e): an optional-chained call of a method that itself
// returns an optional. Static type Int??; value nil (x nil), some(nil) or an Int.
func (g *orderGen) chainOI(d int) Expr {
	g.feat("optional-chaining-optional-call")
	return Invoke{X: g.expr(tOS, d), Opt: true, Name: "oi", Args: []Arg{{E: g.expr(Int, d)}}}
}

// anyExpr builds an AnyStruct expression whose dynamic type is mostly want.
func (g *orderGen) anyExpr(d int, want *Type) Expr {
	old := g.anyHint
	g.anyHint = want
	e := g.expr(Any, d)
	g.anyHint = old
	return e
}

func (g *orderGen) addVar(t *Type, name string) {
	g.vars[t.String()] = append(g.vars[t.String()], name)
}

func (g *orderGen) fresh(prefix string) string {
	g.counter++
	return fmt.Sprintf("%s%d", prefix, g.counter)
}

// target builds an assignment/swap target of type Int: a chain of identifier,
// index and member expressions whose index sub-expressions are generated.
func (g *orderGen) intTarget(d int) Expr {
	switch g.draw(7, "target") {
	case 0:
		g.feat("target-variable")
		return V("x0")
	case 1, 2:
		g.feat("target-index")
		names := g.vars[tAInt.String()]
		return Index{X: V(names[g.draw(len(names), "arr")]), I: g.index(d)}
	case 3:
		g.feat("target-index-index")
		return Index{X: Index{X: V("aa0"), I: g.index(d)}, I: g.index(d)}
	case 4:
		g.feat("target-index-member")
		return Member{X: Index{X: V("ss0"), I: g.index(d)}, Name: "f"}
	case 5:
		g.feat("target-member-index")
		base := []Expr{V("s0"), Self{}}[g.draw(2, "self")]
		return Index{X: Member{X: base, Name: "arr"}, I: g.index(d)}
	default:
		g.feat("target-member")
		base := []Expr{V("s0"), Self{}}[g.draw(2, "self")]
		return Member{X: base, Name: "f"}
	}
}

func (g *orderGen) stmt(d int, nest int) []Stmt {
	n := 13
	if nest >= 2 {
		n = 6 // no compound statements
	}
	switch g.draw(n, "stmt") {
	case 0, 1:
		ts := []*Type{Int, Int, Bool, String, tOInt, tS, tOS, tAInt, tDII, Int8, Any}
		t := ts[g.draw(len(ts), "let-type")]
		name := g.fresh("v")
		g.feat("let")
		s := Let{Name: name, Init: g.expr(t, d)}
		if nest == 0 {
			// visible to later statements and part of the result
			defer g.addVar(t, name)
		}
		return []Stmt{s}
	case 2:
		g.feat("assign")
		return []Stmt{Assign{Target: g.intTarget(d - 1), Value: g.expr(Int, d-1)}}
	case 3:
		g.feat("assign-dict")
		return []Stmt{Assign{Target: Index{X: V("d0"), I: g.index(d - 1)}, Value: g.expr(tOInt, d-1)}}
	case 4:
		g.feat("swap")
		return []Stmt{Swap{L: g.intTarget(d - 1), R: g.intTarget(d - 1)}}
	case 5:
		g.feat("expression-statement")
		return []Stmt{ExprStmt{E: Invoke{X: g.expr(tRS, d-1), Name: "setF", Args: []Arg{{E: g.expr(Int, d-1)}}}}}
	case 6, 7:
		g.feat("if")
		s := If{Cond: g.expr(Bool, d)}
		s.Then = g.block(d-1, nest+1)
		if g.draw(2, "else") == 0 {
			s.Else = g.block(d-1, nest+1)
		}
		return []Stmt{s}
	case 8:
		g.feat("while")
		c := g.fresh("c")
		lim := int64(1 + g.draw(2, "iters"))
		cond := Binary{Op: "&&",
			L: Binary{Op: "<", L: V(c), R: I(lim)},
			R: g.expr(Bool, d-1)}
		body := append([]Stmt{Assign{Target: V(c), Value: Binary{Op: "+", L: V(c), R: I(1)}}}, g.block(d-2, nest+1)...)
		return []Stmt{Let{Name: c, IsVar: true, Init: I(0)}, While{Cond: cond, Body: body}}
	case 12:
		// inner function declaration / closure with a logging body, called with generated arguments
		g.feat("inner-function")
		name := g.fresh("h")
		fd := &FuncDecl{Name: name, Ret: Int, Params: []Param{{Label: "_", Name: "v", T: Int}, {Name: "w", T: Bool}},
			Body: []Stmt{Log{E: S(name)}, Return{E: Cond{C: V("w"), A: V("v"), B: Unary{Op: "-", X: V("v")}}}}}
		var st Stmt = FuncStmt{Decl: fd}
		if g.draw(2, "closure") == 0 {
			g.feat("closure")
			st = Let{Name: name, Init: Closure{Decl: fd}}
		}
		res := g.fresh("v")
		if nest == 0 {
			defer g.addVar(Int, res)
		}
		return []Stmt{st, Let{Name: res, Init: CallVal{F: V(name), Args: []Arg{{E: g.expr(Int, d-1)}, {Label: "w", E: g.expr(Bool, d-1)}}}}}
	case 11:
		// a nested optional bound to a variable / tested by if-let (see FV2)
		if g.draw(2, "nested-stmt") == 0 {
			g.feat("if-let-nested")
			name := g.fresh("w")
			s := IfLet{Name: name, Init: g.chainOI(d - 1)}
			s.Then = append([]Stmt{Log{E: V(name)}}, g.block(d-1, nest+1)...)
			s.Else = g.block(d-1, nest+1)
			return []Stmt{s}
		}
		g.feat("let-nested")
		name := g.fresh("n")
		// (kept shallow: the parser limits expression nesting to 16 levels)
		r := g.expr(tOInt, d-2)
		if _, isCall := r.(Call); !isCall {
			r = Cast{Op: "as", X: r, T: tOInt}
		}
		name2 := g.fresh("n")
		return []Stmt{Let{Name: name, Init: g.chainOI(d - 1)},
			Let{Name: name2, Init: Binary{Op: "??", L: V(name), R: r}},
			Log{E: Binary{Op: "??", L: V(name2), R: I(-77)}}}
	case 9:
		g.feat("if-let")
		name := g.fresh("w")
		s := IfLet{Name: name, Init: g.expr(tOInt, d)}
		s.Then = append([]Stmt{Log{E: V(name)}}, g.block(d-1, nest+1)...)
		if g.draw(2, "else") == 0 {
			s.Else = g.block(d-1, nest+1)
		}
		return []Stmt{s}
	default:
		g.feat("early-return")
		return []Stmt{If{Cond: g.expr(Bool, d-1), Then: []Stmt{Return{E: ArrLit{T: Arr(Any), Elems: []Expr{exact(g.expr(Int, d-1), Int)}}}}}}
	}
}

func (g *orderGen) block(d int, nest int) []Stmt {
	n := 1 + g.draw(2, "block-len")
	var out []Stmt
	for i := 0; i < n; i++ {
		out = append(out, g.stmt(d, nest)...)
	}
	g.nextK++
	out = append(out, Log{E: I(1000 + g.nextK)})
	return out
}

// GenOrder generates an evaluation-order program.
func GenOrder(t *rapid.T) (*Program, *OrderInfo) {
	g := &orderGen{t: t, prog: &Program{}, helpers: map[string]bool{}, vars: map[string][]string{},
		info: &OrderInfo{Features: map[string]bool{}}}
	g.maxDepth = 2 + g.draw(4, "depth") // 2..5

	logs := func(s string) Stmt { return Log{E: S(s)} }
	sDecl := &CompDecl{Name: "S",
		Fields: []Field{{Name: "f", T: Int, IsVar: true}, {Name: "g", T: Bool, IsVar: true}, {Name: "arr", T: tAInt, IsVar: true},
			{Name: "o", T: tOInt, IsVar: true}},
		Init: &FuncDecl{IsInit: true, Params: []Param{{Name: "f", T: Int}, {Name: "g", T: Bool}}, Body: []Stmt{
			logs("init"),
			Assign{Target: Member{X: Self{}, Name: "f"}, Value: V("f")},
			Assign{Target: Member{X: Self{}, Name: "g"}, Value: V("g")},
			Assign{Target: Member{X: Self{}, Name: "arr"}, Value: ArrLit{T: tAInt, Elems: []Expr{V("f"), I(10), I(20)}}},
			Assign{Target: Member{X: Self{}, Name: "o"}, Value: Cond{C: V("g"), A: V("f"), B: NilLit{}}},
		}},
		Methods: []*FuncDecl{
			{Name: "m", Params: []Param{{Label: "_", Name: "a", T: Int}, {Name: "b", T: Int}}, Ret: Int, Body: []Stmt{
				logs("m"), Return{E: Binary{Op: "-", L: Binary{Op: "+", L: Member{X: Self{}, Name: "f"}, R: V("a")}, R: V("b")}}}},
			{Name: "p", Params: []Param{{Label: "_", Name: "a", T: Bool}}, Ret: Bool, Body: []Stmt{
				logs("p"), Return{E: Binary{Op: "!=", L: V("a"), R: Member{X: Self{}, Name: "g"}}}}},
			{Name: "oi", Params: []Param{{Label: "_", Name: "a", T: Int}}, Ret: tOInt, Body: []Stmt{
				logs("oi"), If{Cond: Binary{Op: ">", L: V("a"), R: I(1)}, Then: []Stmt{Return{E: V("a")}}}, Return{E: NilLit{}}}},
			{Name: "setF", Params: []Param{{Label: "_", Name: "a", T: Int}}, Body: []Stmt{
				logs("setF"), Assign{Target: Member{X: Self{}, Name: "f"}, Value: V("a")}}},
		},
	}
	g.prog.Comps = []*CompDecl{sDecl}
	g.prog.Funcs = []*FuncDecl{
		{Name: "f2", Params: []Param{{Label: "_", Name: "a", T: Int}, {Name: "b", T: Int}}, Ret: Int, Body: []Stmt{
			logs("f2"), Return{E: Binary{Op: "-", L: V("a"), R: V("b")}}}},
		{Name: "f3", Params: []Param{{Name: "a", T: Int}, {Name: "b", T: Bool}, {Name: "c", T: Int}}, Ret: Int, Body: []Stmt{
			logs("f3"), Return{E: Cond{C: V("b"), A: V("a"), B: V("c")}}}},
	}

	// fixed prologue: the state the statements read and mutate
	body := []Stmt{
		Let{Name: "x0", IsVar: true, Init: I(5)},
		Let{Name: "a0", IsVar: true, Init: ArrLit{T: tAInt, Elems: []Expr{I(1), I(2), I(3)}}},
		Let{Name: "a1", IsVar: true, Init: ArrLit{T: tAInt, Elems: []Expr{I(4), I(5)}}},
		Let{Name: "aa0", IsVar: true, Init: ArrLit{T: tAAInt, Elems: []Expr{
			ArrLit{T: tAInt, Elems: []Expr{I(6), I(7)}}, ArrLit{T: tAInt, Elems: []Expr{I(8)}}}}},
		Let{Name: "d0", IsVar: true, Init: DictLit{T: tDII, Keys: []Expr{I(1), I(2)}, Vals: []Expr{I(11), I(12)}}},
		Let{Name: "s0", IsVar: true, Init: New{Name: "S", Args: []Arg{{Label: "f", E: I(2)}, {Label: "g", E: B(false)}}}},
		Let{Name: "ss0", IsVar: true, Init: ArrLit{T: tAS, Elems: []Expr{
			New{Name: "S", Args: []Arg{{Label: "f", E: I(3)}, {Label: "g", E: B(true)}}},
			New{Name: "S", Args: []Arg{{Label: "f", E: I(4)}, {Label: "g", E: B(false)}}}}}},
	}
	g.addVar(Int, "x0")
	g.addVar(tAInt, "a0")
	g.addVar(tAInt, "a1")
	g.addVar(tDII, "d0")
	g.addVar(tS, "s0")
	resultVars := []string{"x0", "a0", "a1", "aa0", "d0", "s0", "ss0"}

	n := 1 + g.draw(5, "stmts")
	for i := 0; i < n; i++ {
		before := g.counter
		ss := g.stmt(g.maxDepth, 0)
		body = append(body, ss...)
		for _, s := range ss {
			if l, ok := s.(Let); ok && g.counter > before && l.Name[0] == 'v' {
				resultVars = append(resultVars, l.Name)
			}
		}
	}
	// final statement: return with a generated expression first, then the state
	res := ArrLit{T: Arr(Any)}
	g.feat("return")
	res.Elems = append(res.Elems, exact(g.expr(Int, g.maxDepth-1), Int))
	for _, v := range resultVars {
		res.Elems = append(res.Elems, V(v))
	}
	res.Elems = append(res.Elems, Self{})
	body = append(body, Return{E: res})
	sDecl.Methods = append(sDecl.Methods, &FuncDecl{Name: "body", Ret: Arr(Any), Body: body})

	g.prog.Main = &FuncDecl{Name: "main", Ret: Arr(Any), Body: []Stmt{
		Return{E: Invoke{X: New{Name: "S", Args: []Arg{{Label: "f", E: I(1)}, {Label: "g", E: B(true)}}}, Name: "body"}},
	}}
	return g.prog, g.info
}
