package vir

import (
	"fmt"
	"strings"
)

// printer renders IR as Cadence source. qual is the prefix for names declared
// in the contract when printing code outside of it ("C." or "").
type printer struct {
	sb    strings.Builder
	ind   int
	qual  string // prefix of composite/event names
	fqual string // prefix of global function names
}

func (p *printer) line(format string, args ...any) {
	p.sb.WriteString(strings.Repeat("    ", p.ind))
	fmt.Fprintf(&p.sb, format, args...)
	p.sb.WriteByte('\n')
}

func (p *printer) ty(t *Type) string { return t.Render(p.qual) }

// PrintScript renders the program as one script (declarations inline).
func PrintScript(prog *Program) string {
	p := &printer{}
	p.decls(prog)
	if prog.Main != nil {
		p.fun(prog.Main, "access(all) ")
	}
	return p.sb.String()
}

// ContractName is the name of the contract a History's declarations live in.
const ContractName = "C"

// PrintContract renders the declarations as contract C.
func PrintContract(prog *Program) string {
	// inside the contract nested types are in scope, contract functions are not
	p := &printer{fqual: ContractName + "."}
	p.line("access(all) contract %s {", ContractName)
	p.ind++
	p.decls(prog)
	p.ind--
	p.line("}")
	return p.sb.String()
}

// PrintStep renders a transaction or script step importing contract C from 0x1.
func PrintStep(s Step) string {
	p := &printer{qual: ContractName + ".", fqual: ContractName + "."}
	p.line("import %s from 0x1", ContractName)
	if s.Tx {
		p.line("transaction {")
		p.ind++
		p.line("prepare(acct: auth(Storage) &Account) {")
		p.ind++
		p.stmts(s.Body)
		p.ind--
		p.line("}")
		p.ind--
		p.line("}")
	} else {
		ret := ""
		if s.Ret != nil && s.Ret.K != KVoid {
			ret = ": " + p.ty(s.Ret)
		}
		p.line("access(all) fun main()%s {", ret)
		p.ind++
		p.line("let acct = getAuthAccount<auth(Storage) &Account>(0x1)")
		p.stmts(s.Body)
		p.ind--
		p.line("}")
	}
	return p.sb.String()
}

func (p *printer) decls(prog *Program) {
	for _, e := range prog.Events {
		p.line("access(all) event %s(%s)", e.Name, p.params(e.Params))
	}
	for _, c := range prog.Comps {
		p.comp(c)
	}
	for _, f := range prog.Funcs {
		p.fun(f, "access(all) ")
	}
}

func (p *printer) params(ps []Param) string {
	out := make([]string, len(ps))
	for i, a := range ps {
		switch a.Label {
		case "", a.Name:
			out[i] = fmt.Sprintf("%s: %s", a.Name, p.ty(a.T))
		default:
			out[i] = fmt.Sprintf("%s %s: %s", a.Label, a.Name, p.ty(a.T))
		}
	}
	return strings.Join(out, ", ")
}

func (p *printer) comp(c *CompDecl) {
	kind := "struct"
	if c.Resource {
		kind = "resource"
	}
	if c.Iface {
		kind += " interface"
	}
	conf := ""
	if len(c.Conforms) > 0 {
		conf = ": " + strings.Join(c.Conforms, ", ")
	}
	p.line("access(all) %s %s%s {", kind, c.Name, conf)
	p.ind++
	for _, f := range c.Fields {
		kw := "let"
		if f.IsVar {
			kw = "var"
		}
		p.line("access(all) %s %s: %s", kw, f.Name, p.ty(f.T))
	}
	if c.Init != nil {
		p.fun(c.Init, "")
	} else if !c.Iface {
		ps := make([]Param, len(c.Fields))
		for i, f := range c.Fields {
			ps[i] = Param{Name: f.Name, T: f.T}
		}
		p.line("init(%s) {", p.params(ps))
		p.ind++
		for _, f := range c.Fields {
			if f.T.IsResource() {
				p.line("self.%s <- %s", f.Name, f.Name)
			} else {
				p.line("self.%s = %s", f.Name, f.Name)
			}
		}
		p.ind--
		p.line("}")
	}
	for _, m := range c.Methods {
		p.fun(m, "access(all) ")
	}
	p.ind--
	p.line("}")
}

func (p *printer) fun(f *FuncDecl, access string) {
	if f.Comment != "" {
		p.line("// %s", f.Comment)
	}
	head := access
	if f.View {
		head += "view "
	}
	if f.IsInit {
		head = "init"
	} else {
		head += "fun " + f.Name
	}
	head += "(" + p.params(f.Params) + ")"
	if f.Ret != nil && f.Ret.K != KVoid {
		head += ": " + p.ty(f.Ret)
	}
	if f.NoBody && len(f.Pre) == 0 && len(f.Post) == 0 {
		p.line("%s", head)
		return
	}
	p.line("%s {", head)
	p.ind++
	p.conds("pre", f.Pre)
	p.conds("post", f.Post)
	if !f.NoBody {
		p.stmts(f.Body)
	}
	p.ind--
	p.line("}")
}

// funExpr prints a function expression / inner function: head { pre post body }
// without indentation of the first line and without a trailing newline.
func (p *printer) funExpr(d *FuncDecl, head string) {
	head += "(" + p.params(d.Params) + ")"
	if d.Ret != nil && d.Ret.K != KVoid {
		head += ": " + p.ty(d.Ret)
	}
	p.sb.WriteString(head + " {\n")
	p.ind++
	p.conds("pre", d.Pre)
	p.conds("post", d.Post)
	p.stmts(d.Body)
	p.ind--
	p.sb.WriteString(strings.Repeat("    ", p.ind) + "}")
}

func (p *printer) conds(kw string, cs []Condition) {
	if len(cs) == 0 {
		return
	}
	p.line("%s {", kw)
	p.ind++
	for _, c := range cs {
		if c.Emit != nil {
			p.line("emit %s%s(%s)", p.qual, c.Emit.Event, p.args(c.Emit.Args))
			continue
		}
		if c.Msg != "" {
			p.line("%s: %q", p.expr(c.Test), c.Msg)
		} else {
			p.line("%s", p.expr(c.Test))
		}
	}
	p.ind--
	p.line("}")
}

func (p *printer) stmts(ss []Stmt) {
	for _, s := range ss {
		p.stmt(s)
	}
}

func arrow(move bool) string {
	if move {
		return "<-"
	}
	return "="
}

func (p *printer) stmt(s Stmt) {
	switch s := s.(type) {
	case Let:
		kw := "let"
		if s.IsVar {
			kw = "var"
		}
		ann := ""
		if s.T != nil {
			ann = ": " + p.ty(s.T)
		}
		p.line("%s %s%s %s %s", kw, s.Name, ann, arrow(s.Move), p.expr(s.Init))
	case Assign:
		p.line("%s %s %s", p.expr(s.Target), arrow(s.Move), p.expr(s.Value))
	case Swap:
		p.line("%s <-> %s", p.expr(s.L), p.expr(s.R))
	case If:
		p.line("if %s {", p.expr(s.Cond))
		p.block(s.Then)
		if s.Else != nil {
			p.line("} else {")
			p.block(s.Else)
		}
		p.line("}")
	case IfLet:
		p.line("if let %s = %s {", s.Name, p.expr(s.Init))
		p.block(s.Then)
		if s.Else != nil {
			p.line("} else {")
			p.block(s.Else)
		}
		p.line("}")
	case While:
		p.line("while %s {", p.expr(s.Cond))
		p.block(s.Body)
		p.line("}")
	case ForIn:
		p.line("for %s in %s {", s.Name, p.expr(s.X))
		p.block(s.Body)
		p.line("}")
	case Return:
		switch {
		case s.E == nil:
			p.line("return")
		case s.Move:
			p.line("return <- %s", p.expr(s.E))
		default:
			p.line("return %s", p.expr(s.E))
		}
	case ExprStmt:
		p.line("%s", p.expr(s.E))
	case Log:
		p.line("log(%s)", p.expr(s.E))
	case Break:
		p.line("break")
	case Continue:
		p.line("continue")
	case Emit:
		p.line("emit %s%s(%s)", p.qual, s.Event, p.args(s.Args))
	case FuncStmt:
		p.sb.WriteString(strings.Repeat("    ", p.ind))
		p.funExpr(s.Decl, "fun "+s.Decl.Name)
		p.sb.WriteByte('\n')
	case Panic:
		p.line("panic(%q)", s.Msg)
	case Destroy:
		p.line("destroy %s", p.expr(s.E))
	case StorageSave:
		v := p.expr(s.Value)
		if s.Move {
			v = "<- " + v
		}
		p.line("acct.storage.save(%s, to: /storage/%s)", v, s.Path)
	default:
		panic(fmt.Sprintf("vir: print: unknown statement %T", s))
	}
}

func (p *printer) block(ss []Stmt) {
	p.ind++
	p.stmts(ss)
	p.ind--
}

func (p *printer) args(as []Arg) string {
	out := make([]string, len(as))
	for i, a := range as {
		e := p.expr(a.E)
		if a.Label != "" && a.Label != "_" {
			e = a.Label + ": " + e
		}
		out[i] = e
	}
	return strings.Join(out, ", ")
}

// ExprString renders one expression (unqualified) — used in samples/labels.
func ExprString(e Expr) string { return (&printer{}).expr(e) }

func (p *printer) expr(e Expr) string {
	switch e := e.(type) {
	case IntLit:
		s := e.V.String()
		if e.T != "Int" {
			return e.T + "(" + s + ")"
		}
		if e.V.Sign() < 0 {
			return "(" + s + ")"
		}
		return s
	case BoolLit:
		if e.V {
			return "true"
		}
		return "false"
	case StrLit:
		return `"` + e.V + `"`
	case NilLit:
		return "nil"
	case Var:
		return e.Name
	case Self:
		return "self"
	case Unary:
		return "(" + e.Op + p.expr(e.X) + ")"
	case Binary:
		return "(" + p.expr(e.L) + " " + e.Op + " " + p.expr(e.R) + ")"
	case Cond:
		return "(" + p.expr(e.C) + " ? " + p.expr(e.A) + " : " + p.expr(e.B) + ")"
	case Force:
		switch x := e.X.(type) {
		case Invoke:
			if x.Opt {
				return "(" + p.expr(e.X) + ")!"
			}
		case Member:
			if x.Opt {
				return "(" + p.expr(e.X) + ")!"
			}
		}
		return p.expr(e.X) + "!"
	case Cast:
		return "(" + p.expr(e.X) + " " + e.Op + " " + p.ty(e.T) + ")"
	case Index:
		return p.expr(e.X) + "[" + p.expr(e.I) + "]"
	case Member:
		if e.Opt {
			return p.expr(e.X) + "?." + e.Name
		}
		return p.expr(e.X) + "." + e.Name
	case Call:
		return p.fqual + e.Fn + "(" + p.args(e.Args) + ")"
	case CallVal:
		return p.expr(e.F) + "(" + p.args(e.Args) + ")"
	case Invoke:
		dot := "."
		if e.Opt {
			dot = "?."
		}
		return p.expr(e.X) + dot + e.Name + "(" + p.args(e.Args) + ")"
	case New:
		s := p.qual + e.Name + "(" + p.args(e.Args) + ")"
		if e.Create {
			return "create " + s
		}
		return s
	case ArrLit:
		parts := make([]string, len(e.Elems))
		for i, x := range e.Elems {
			parts[i] = p.expr(x)
		}
		s := "[" + strings.Join(parts, ", ") + "]"
		if e.Annot {
			return "(" + s + " as " + p.ty(e.T) + ")"
		}
		return s
	case DictLit:
		parts := make([]string, len(e.Keys))
		for i := range e.Keys {
			parts[i] = p.expr(e.Keys[i]) + ": " + p.expr(e.Vals[i])
		}
		s := "{" + strings.Join(parts, ", ") + "}"
		if e.Annot {
			return "(" + s + " as " + p.ty(e.T) + ")"
		}
		return s
	case RefOf:
		return "(&" + p.expr(e.X) + " as " + p.ty(e.T) + ")"
	case Deref:
		return "(*" + p.expr(e.X) + ")"
	case Tmpl:
		var sb strings.Builder
		sb.WriteByte('"')
		for i, part := range e.Parts {
			sb.WriteString(part)
			if i < len(e.Exprs) {
				sb.WriteString(`\(` + p.expr(e.Exprs[i]) + `)`)
			}
		}
		sb.WriteByte('"')
		return sb.String()
	case Closure:
		sub := &printer{ind: p.ind, qual: p.qual, fqual: p.fqual}
		sub.funExpr(e.Decl, "fun ")
		return sub.sb.String()
	case Before:
		return "before(" + p.expr(e.X) + ")"
	case Move:
		return "<- " + p.expr(e.X)
	case StorageLoad:
		fn := "load"
		if e.Copy {
			fn = "copy"
		}
		return fmt.Sprintf("acct.storage.%s<%s>(from: /storage/%s)", fn, p.ty(e.T), e.Path)
	case StorageBorrow:
		return fmt.Sprintf("acct.storage.borrow<%s>(from: /storage/%s)", p.ty(e.T), e.Path)
	}
	panic(fmt.Sprintf("vir: print: unknown expression %T", e))
}
