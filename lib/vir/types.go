// Package vir is a small typed program IR for a subset of Cadence, with
//
//  1. rapid generators that build well-typed programs by construction
//     (gen_*.go),
//  2. a printer to Cadence source (print.go) and
//  3. a reference evaluator written from the language definition (eval.go).
//
// The evaluator is the oracle of the program-level properties (C52 evaluation
// order, C10 conditions, C05 copy semantics). Nothing in this package imports
// cadence: values are plain Go data, every transfer of a value is a Go deep
// copy, arithmetic is math/big checked against the ranges of lib/oracle. The
// bridge that runs a printed program on cadence and converts the results lives
// in the sub-package verif/lib/vir/virhost.
package vir

import (
	"strings"
)

// Kind of a type.
type Kind int

const (
	KVoid Kind = iota
	KBool
	KInt    // any integer type of lib/oracle; Name holds the Cadence name
	KString // String
	KAny    // AnyStruct
	KOpt    // Elem?
	KArr    // [Elem]
	KDict   // {Key: Elem}
	KComp   // struct / resource / interface named Name
	KRef    // &Elem or auth(Auth) &Elem
	KFunc   // fun(Params...): Elem
)

// Type is a Cadence type of the modelled subset. Types are immutable; compare
// them with Equal or by String().
type Type struct {
	K        Kind
	Name     string
	Elem     *Type
	Key      *Type
	Params   []*Type
	Auth     string // reference authorization, e.g. "Mutate" (empty = unauthorized)
	Resource bool   // KComp: resource (printed with @, moved with <-)
}

var (
	Void   = &Type{K: KVoid}
	Bool   = &Type{K: KBool}
	Int    = &Type{K: KInt, Name: "Int"}
	Int8   = &Type{K: KInt, Name: "Int8"}
	UInt8  = &Type{K: KInt, Name: "UInt8"}
	Int16  = &Type{K: KInt, Name: "Int16"}
	String = &Type{K: KString}
	Any    = &Type{K: KAny}
)

func IntType(name string) *Type          { return &Type{K: KInt, Name: name} }
func Opt(e *Type) *Type                  { return &Type{K: KOpt, Elem: e} }
func Arr(e *Type) *Type                  { return &Type{K: KArr, Elem: e} }
func Dict(k, v *Type) *Type              { return &Type{K: KDict, Key: k, Elem: v} }
func Comp(name string) *Type             { return &Type{K: KComp, Name: name} }
func Res(name string) *Type              { return &Type{K: KComp, Name: name, Resource: true} }
func Ref(e *Type) *Type                  { return &Type{K: KRef, Elem: e} }
func AuthRef(auth string, e *Type) *Type { return &Type{K: KRef, Elem: e, Auth: auth} }
func Func(ret *Type, ps ...*Type) *Type  { return &Type{K: KFunc, Elem: ret, Params: ps} }

// IsResource reports whether values of the type are moved rather than copied.
func (t *Type) IsResource() bool {
	switch t.K {
	case KComp:
		return t.Resource
	case KOpt, KArr, KDict:
		return t.Elem.IsResource()
	}
	return false
}

// String prints the type in Cadence syntax without qualification.
func (t *Type) String() string { return t.Render("") }

// Render prints the type; composite names are prefixed with qual (e.g. "C.").
func (t *Type) Render(qual string) string {
	switch t.K {
	case KVoid:
		return "Void"
	case KBool:
		return "Bool"
	case KInt:
		return t.Name
	case KString:
		return "String"
	case KAny:
		return "AnyStruct"
	case KOpt:
		if t.Elem.K == KRef || t.Elem.K == KFunc {
			return "(" + t.Elem.Render(qual) + ")?"
		}
		return t.Elem.Render(qual) + "?"
	case KArr:
		return "[" + t.Elem.Render(qual) + "]"
	case KDict:
		return "{" + t.Key.Render(qual) + ": " + t.Elem.Render(qual) + "}"
	case KComp:
		if t.Resource {
			return "@" + qual + t.Name
		}
		return qual + t.Name
	case KRef:
		if t.Auth != "" {
			return "auth(" + t.Auth + ") &" + t.Elem.renderNoAt(qual)
		}
		return "&" + t.Elem.renderNoAt(qual)
	case KFunc:
		ps := make([]string, len(t.Params))
		for i, p := range t.Params {
			ps[i] = p.Render(qual)
		}
		return "fun(" + strings.Join(ps, ", ") + "): " + t.Elem.Render(qual)
	}
	return "?"
}

// renderNoAt renders the referenced type of a reference: resources are written
// without the @ sigil there (&R, &[R]).
func (t *Type) renderNoAt(qual string) string {
	return strings.ReplaceAll(t.Render(qual), "@", "")
}

// Mangle is an identifier-safe rendering used for helper function names.
func (t *Type) Mangle() string {
	switch t.K {
	case KVoid:
		return "Void"
	case KBool:
		return "Bool"
	case KInt:
		return t.Name
	case KString:
		return "String"
	case KAny:
		return "Any"
	case KOpt:
		return "O" + t.Elem.Mangle()
	case KArr:
		return "A" + t.Elem.Mangle()
	case KDict:
		return "D" + t.Key.Mangle() + "_" + t.Elem.Mangle()
	case KComp:
		return t.Name
	case KRef:
		return "R" + t.Auth + t.Elem.Mangle()
	case KFunc:
		s := "F"
		for _, p := range t.Params {
			s += p.Mangle()
		}
		return s + "_" + t.Elem.Mangle()
	}
	return "X"
}

func (t *Type) Equal(o *Type) bool {
	if t == nil || o == nil {
		return t == o
	}
	return t.String() == o.String()
}
