package vir

import (
	"fmt"
	"math/big"
	"sort"
	"strconv"
	"strings"
)

// Value is a model value. Containers and composites are pointers (they have an
// identity that references can point to); everything else is immutable.
// Optionals are flattened: nil is NilV, some(v) is v itself (the generators
// never build nested optionals).
type Value interface{}

type (
	IntV struct {
		T string
		V *big.Int
	}
	BoolV bool
	StrV  string
	NilV  struct{}
	// SomeV wraps nil (or another SomeV) only: some(nil) of a nested optional type.
	SomeV struct{ V Value }
	VoidV struct{}
	ArrV  struct {
		T     *Type // static type the array was created with (may be nil)
		Elems []Value
	}
	DictV struct {
		T    *Type
		Keys []Value // insertion order (never compared with cadence's order)
		Vals []Value
	}
	CompV struct {
		Name   string
		Order  []string // declared field order
		Fields map[string]Value
	}
	// RefV is a reference to a container/composite value (pointer identity).
	RefV struct {
		To   Value
		Auth string
	}
	// FuncV is a closure or a bound global function.
	FuncV struct {
		Decl *FuncDecl
		Env  *env
		Self *CompV
	}
)

func MkInt(t string, v int64) IntV { return IntV{T: t, V: big.NewInt(v)} }

// Copy is the transfer of a non-resource value: a deep copy that shares nothing
// with the original. References are copied as references (they keep pointing
// to the same referenced value); closures likewise.
func Copy(v Value) Value {
	switch x := v.(type) {
	case *ArrV:
		c := &ArrV{T: x.T, Elems: make([]Value, len(x.Elems))}
		for i, e := range x.Elems {
			c.Elems[i] = Copy(e)
		}
		return c
	case *DictV:
		c := &DictV{T: x.T, Keys: make([]Value, len(x.Keys)), Vals: make([]Value, len(x.Vals))}
		for i := range x.Keys {
			c.Keys[i] = Copy(x.Keys[i])
			c.Vals[i] = Copy(x.Vals[i])
		}
		return c
	case *CompV:
		c := &CompV{Name: x.Name, Order: x.Order, Fields: make(map[string]Value, len(x.Fields))}
		for k, f := range x.Fields {
			c.Fields[k] = Copy(f)
		}
		return c
	case IntV:
		return IntV{T: x.T, V: new(big.Int).Set(x.V)}
	}
	return v
}

// Canon renders a value canonically: dictionaries sorted by key, composite
// fields sorted by name. virhost renders cadence values in the same format.
func Canon(v Value) string {
	var sb strings.Builder
	canon(&sb, v)
	return sb.String()
}

func canon(sb *strings.Builder, v Value) {
	switch x := v.(type) {
	case IntV:
		sb.WriteString(x.T)
		sb.WriteByte('(')
		sb.WriteString(x.V.String())
		sb.WriteByte(')')
	case BoolV:
		sb.WriteString(strconv.FormatBool(bool(x)))
	case StrV:
		sb.WriteString(strconv.Quote(string(x)))
	case NilV, nil:
		sb.WriteString("nil")
	case SomeV:
		sb.WriteString("some(")
		canon(sb, x.V)
		sb.WriteByte(')')
	case VoidV:
		sb.WriteString("()")
	case *ArrV:
		sb.WriteByte('[')
		for i, e := range x.Elems {
			if i > 0 {
				sb.WriteString(", ")
			}
			canon(sb, e)
		}
		sb.WriteByte(']')
	case *DictV:
		items := make([]string, len(x.Keys))
		for i := range x.Keys {
			items[i] = Canon(x.Keys[i]) + ": " + Canon(x.Vals[i])
		}
		sort.Strings(items)
		sb.WriteByte('{')
		sb.WriteString(strings.Join(items, ", "))
		sb.WriteByte('}')
	case *CompV:
		sb.WriteString(x.Name)
		sb.WriteByte('(')
		names := append([]string(nil), x.Order...)
		sort.Strings(names)
		for i, n := range names {
			if i > 0 {
				sb.WriteString(", ")
			}
			sb.WriteString(n)
			sb.WriteString(": ")
			canon(sb, x.Fields[n])
		}
		sb.WriteByte(')')
	case RefV:
		sb.WriteString("&")
		canon(sb, x.To)
	case *FuncV:
		sb.WriteString("<fun>")
	default:
		fmt.Fprintf(sb, "<?%T>", v)
	}
}

// keyString identifies a dictionary key.
func keyString(v Value) string { return Canon(v) }

func (d *DictV) find(k Value) int {
	ks := keyString(k)
	for i, e := range d.Keys {
		if keyString(e) == ks {
			return i
		}
	}
	return -1
}

// Equal is structural equality (what == means for the modelled types).
func Equal(a, b Value) bool { return Canon(a) == Canon(b) }

// LogString is how log(v) renders a value (only the kinds the generators log).
func LogString(v Value) string {
	switch x := v.(type) {
	case IntV:
		return x.V.String()
	case BoolV:
		return strconv.FormatBool(bool(x))
	case StrV:
		return strconv.Quote(string(x))
	case NilV:
		return "nil"
	case *ArrV:
		parts := make([]string, len(x.Elems))
		for i, e := range x.Elems {
			parts[i] = LogString(e)
		}
		return "[" + strings.Join(parts, ", ") + "]"
	}
	return Canon(v)
}

// TemplateString is how a value is rendered inside a string template.
func TemplateString(v Value) string {
	switch x := v.(type) {
	case StrV:
		return string(x)
	}
	return LogString(v)
}
