package virhost

import (
	"sort"

	"pgregory.net/rapid"

	"verif/lib/prog"
	"verif/lib/vir"
)

// Generators of executable histories for the properties that consume *any*
// program (C01, C24, C31, C33, C34): the programs of the three vir generators
// rendered as prog.History values. All of them are accepted by the checker; the
// evaluation-order programs may fail at run time with user errors (MayFail).

func features(m map[string]bool) []string {
	out := make([]string, 0, len(m))
	for f := range m {
		out = append(out, f)
	}
	sort.Strings(out)
	return out
}

// GenOrderHistory: one script of the evaluation-order generator (C52).
func GenOrderHistory(t *rapid.T) prog.History {
	p, info := vir.GenOrder(t)
	return ScriptHistory(p, "vir.GenOrder", features(info.Features)...)
}

// GenCondHistory: a condition program (C10) with one random call.
func GenCondHistory(t *rapid.T) prog.History {
	cp := vir.GenCond(t)
	fn := cp.Funcs[rapid.IntRange(0, len(cp.Funcs)-1).Draw(t, "fn")]
	c := vir.CondCall{Fn: fn,
		A: int64(rapid.IntRange(-3, 12).Draw(t, "a")),
		B: int64(rapid.IntRange(-3, 12).Draw(t, "b")),
		X: int64(rapid.IntRange(0, 7).Draw(t, "x"))}
	feats := []string{"conditions"}
	if cp.Resource {
		feats = append(feats, "resource")
	}
	return ScriptHistory(cp.WithCall(c), "vir.GenCond", feats...)
}

// GenCopyHistory: a copy-semantics script or multi-transaction history (C05).
func GenCopyHistory(t *rapid.T) prog.History {
	cc := vir.GenCopy(t)
	feats := append([]string{"form:" + cc.Info.Form}, features(cc.Info.Features)...)
	if cc.Script != nil {
		return ScriptHistory(cc.Script, "vir.GenCopy", feats...)
	}
	h := ToHistory(cc.Hist, "vir.GenCopy")
	h.Features = feats
	for i := range h.Steps {
		h.Steps[i].MayFail = false // generated so that no step fails
	}
	return h
}

// GenHistory draws from all three generators.
func GenHistory(t *rapid.T) prog.History {
	switch rapid.IntRange(0, 2).Draw(t, "vir-generator") {
	case 0:
		return GenOrderHistory(t)
	case 1:
		return GenCondHistory(t)
	default:
		return GenCopyHistory(t)
	}
}

// Expected returns the reference evaluator's outcomes for the steps of a
// history produced by ToHistory (index 0 is the deployment, always ok).
func Expected(h *vir.History) []vir.Outcome {
	return append([]vir.Outcome{{}}, vir.EvalHistory(h)...)
}
