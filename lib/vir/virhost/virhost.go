// Package virhost runs printed vir programs on cadence (through lib/host) and
// brings the results into the form the reference evaluator of package vir
// produces: a failure kind, a canonical rendering of the result value, the log.
package virhost

import (
	"errors"
	"fmt"
	"sort"
	"strconv"
	"strings"

	"github.com/onflow/cadence"
	"github.com/onflow/cadence/ast"
	"github.com/onflow/cadence/interpreter"

	"verif/lib/host"
	"verif/lib/oracle"
	"verif/lib/prog"
	"verif/lib/vir"
)

// Observed is what one engine did with a program.
type Observed struct {
	Fail   string // "" ok, one of vir.Fail*, or "other:<root error type>" / "panic:<...>"
	Value  string // canonical rendering of the result ("" when failed / no value)
	Logs   []string
	Events []string
	Err    error
}

func (o Observed) String() string {
	s := "ok " + o.Value
	if o.Fail != "" {
		s = "fail " + o.Fail
	}
	return fmt.Sprintf("%s logs=%v", s, o.Logs)
}

// FailKind maps a result to a failure kind of the model.
func FailKind(r host.Result) string {
	if r.Panic != nil {
		return fmt.Sprintf("panic:%v", r.Panic)
	}
	if r.Err == nil {
		return ""
	}
	var ce *interpreter.ConditionError
	if errors.As(r.Err, &ce) {
		switch ce.ConditionKind {
		case ast.ConditionKindPre:
			return vir.FailPre
		case ast.ConditionKindPost:
			return vir.FailPost
		}
		return "other:condition-kind-" + ce.ConditionKind.Name()
	}
	info := host.Classify(r)
	if info.Class != "user" {
		return "other:" + info.Class + ":" + info.Root
	}
	root := info.Root
	switch shortName(root) {
	case "OverflowError", "UnderflowError":
		return vir.FailOverflow
	case "DivisionByZeroError":
		return vir.FailDivZero
	case "ArrayIndexOutOfBoundsError":
		return vir.FailIndex
	case "ForceNilError":
		return vir.FailForceNil
	case "ForceCastTypeMismatchError":
		return vir.FailForceCast
	case "PanicError":
		return vir.FailPanic
	case "OverwriteError":
		return vir.FailOverwrite
	}
	return "other:" + root
}

// Observe converts a host result.
func Observe(r host.Result) Observed {
	o := Observed{Fail: FailKind(r), Logs: r.Logs, Err: r.Err}
	if o.Fail == "" && r.Value != nil {
		o.Value = Canon(r.Value)
	}
	for _, e := range r.Events {
		o.Events = append(o.Events, Canon(e))
	}
	return o
}

// RunScript runs a single-script program on one engine.
func RunScript(src string, e host.Engine) Observed {
	h := host.New()
	return Observe(h.Script(src, nil, host.Options{Engine: e}))
}

// ToHistory renders a vir history as an executable prog.History
// (deploy contract C to account 1, then the steps signed by account 1).
func ToHistory(h *vir.History, origin string) prog.History {
	out := prog.History{Origin: origin}
	out.Steps = append(out.Steps, prog.Step{Kind: prog.Deploy, Name: vir.ContractName, Signers: []uint64{1},
		Source: vir.PrintContract(h.Decls)})
	for _, s := range h.Steps {
		st := prog.Step{Kind: prog.Script, Source: vir.PrintStep(s), MayFail: true}
		if s.Tx {
			st.Kind = prog.Tx
			st.Signers = []uint64{1}
		}
		out.Steps = append(out.Steps, st)
	}
	return out
}

// ScriptHistory wraps a single-script program.
func ScriptHistory(p *vir.Program, origin string, features ...string) prog.History {
	return prog.History{Origin: origin, Features: features,
		Steps: []prog.Step{{Kind: prog.Script, Source: vir.PrintScript(p), MayFail: true}}}
}

func shortName(qualified string) string {
	if i := strings.LastIndex(qualified, "."); i >= 0 {
		return qualified[i+1:]
	}
	return qualified
}

// Canon renders a cadence value in the format of vir.Canon.
func Canon(v cadence.Value) string {
	var sb strings.Builder
	canon(&sb, v)
	return sb.String()
}

func canonFields(sb *strings.Builder, name string, values map[string]cadence.Value) {
	sb.WriteString(shortName(name))
	sb.WriteByte('(')
	names := make([]string, 0, len(values))
	for n := range values {
		if n != "uuid" {
			names = append(names, n)
		}
	}
	sort.Strings(names)
	for i, n := range names {
		if i > 0 {
			sb.WriteString(", ")
		}
		sb.WriteString(n)
		sb.WriteString(": ")
		canon(sb, values[n])
	}
	sb.WriteByte(')')
}

func canon(sb *strings.Builder, v cadence.Value) {
	switch x := v.(type) {
	case nil:
		sb.WriteString("nil")
	case cadence.Void:
		sb.WriteString("()")
	case cadence.Bool:
		sb.WriteString(strconv.FormatBool(bool(x)))
	case cadence.String:
		sb.WriteString(strconv.Quote(string(x)))
	case cadence.Optional:
		// same encoding as vir: some(v) is v unless v is nil / some(nil)...
		if x.Value == nil {
			sb.WriteString("nil")
		} else if _, nested := x.Value.(cadence.Optional); nested {
			inner := Canon(x.Value)
			if inner == "nil" || strings.HasPrefix(inner, "some(") {
				sb.WriteString("some(" + inner + ")")
			} else {
				sb.WriteString(inner)
			}
		} else {
			canon(sb, x.Value)
		}
	case cadence.Array:
		sb.WriteByte('[')
		for i, e := range x.Values {
			if i > 0 {
				sb.WriteString(", ")
			}
			canon(sb, e)
		}
		sb.WriteByte(']')
	case cadence.Dictionary:
		items := make([]string, len(x.Pairs))
		for i, p := range x.Pairs {
			items[i] = Canon(p.Key) + ": " + Canon(p.Value)
		}
		sort.Strings(items)
		sb.WriteByte('{')
		sb.WriteString(strings.Join(items, ", "))
		sb.WriteByte('}')
	case cadence.Struct:
		canonFields(sb, x.StructType.QualifiedIdentifier, x.FieldsMappedByName())
	case cadence.Resource:
		canonFields(sb, x.ResourceType.QualifiedIdentifier, x.FieldsMappedByName())
	case cadence.Event:
		canonFields(sb, x.EventType.QualifiedIdentifier, x.FieldsMappedByName())
	default:
		if v != nil && v.Type() != nil {
			id := v.Type().ID()
			if _, ok := intTypes[id]; ok {
				sb.WriteString(id)
				sb.WriteByte('(')
				sb.WriteString(v.String())
				sb.WriteByte(')')
				return
			}
		}
		fmt.Fprintf(sb, "<?%T %s>", v, v)
	}
}

var intTypes = func() map[string]bool {
	m := map[string]bool{}
	for _, t := range oracle.Types {
		if t.IsInteger() {
			m[t.Name] = true
		}
	}
	return m
}()
