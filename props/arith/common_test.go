package arith

import (
	"fmt"
	"math/big"
	"sync"
	"testing"

	"github.com/onflow/cadence/common"
	"github.com/onflow/cadence/interpreter"
	"github.com/onflow/cadence/sema"

	"verif/lib/numv"
	"verif/lib/oracle"
)

var (
	ctxOnce sync.Once
	ctx     *interpreter.Interpreter
)

// context returns a bare interpreter used as the arithmetic context.
func context(t testing.TB) *interpreter.Interpreter {
	ctxOnce.Do(func() {
		storage := interpreter.NewInMemoryStorage(nil, nil)
		inter, err := interpreter.NewInterpreter(nil, common.StringLocation("verif"), &interpreter.Config{Storage: storage})
		if err != nil {
			panic(err)
		}
		ctx = inter
	})
	return ctx
}

// Case is the JSON form of one arithmetic case (also the replay format).
type Case struct {
	Type string `json:"type"`
	Op   string `json:"op"`
	A    string `json:"a"`
	B    string `json:"b,omitempty"`
	C    string `json:"c,omitempty"`
	Rule string `json:"rule,omitempty"`
}

func bi(s string) *big.Int {
	v, ok := new(big.Int).SetString(s, 10)
	if !ok {
		panic("bad integer " + s)
	}
	return v
}

// Expect is what the oracle says about a case.
type Expect struct {
	Value    *big.Int // exact expected raw result when Fail == ""
	Fail     string   // "", "range" (overflow or underflow), "divzero", "negshift"
	AltRange bool     // additionally allow a range failure (C14: unbounded shift amount not fitting 64 bits)
}

func (e Expect) String() string {
	if e.Fail != "" {
		return "fail:" + e.Fail
	}
	s := e.Value.String()
	if e.AltRange {
		s += " (or overflow)"
	}
	return s
}

// judge compares an outcome with the expectation; "" means agreement.
func judge(t oracle.Type, e Expect, o numv.Outcome) string {
	class := numv.ErrClass(o.Panic)
	switch {
	case e.Fail == "":
		if class == "ok" {
			name, raw := numv.Raw(o.Value)
			if name != t.Name {
				return fmt.Sprintf("result has type %s, want %s", name, t.Name)
			}
			if raw.Cmp(e.Value) != 0 {
				return fmt.Sprintf("got %s, want %s", raw, e.Value)
			}
			if !t.Fits(raw) {
				return fmt.Sprintf("result %s is outside the range of %s", raw, t.Name)
			}
			return ""
		}
		if e.AltRange && numv.RangeFail(class) {
			return ""
		}
		return fmt.Sprintf("failed with %s, want %s", class, e.Value)
	case e.Fail == "range":
		if numv.RangeFail(class) {
			return ""
		}
		if class == "ok" {
			_, raw := numv.Raw(o.Value)
			return fmt.Sprintf("returned %s, want overflow/underflow error", raw)
		}
		return fmt.Sprintf("failed with %s, want overflow/underflow error", class)
	default:
		if class == e.Fail {
			return ""
		}
		if class == "ok" {
			_, raw := numv.Raw(o.Value)
			return fmt.Sprintf("returned %s, want %s error", raw, e.Fail)
		}
		return fmt.Sprintf("failed with %s, want %s error", class, e.Fail)
	}
}

func semaTypeByName(name string) sema.Type {
	for _, t := range sema.AllNumberTypes {
		if t.String() == name {
			return t
		}
	}
	panic("no sema type " + name)
}

func typesWhere(f func(oracle.Type) bool) []oracle.Type {
	var out []oracle.Type
	for _, t := range oracle.Types {
		if f(t) {
			out = append(out, t)
		}
	}
	return out
}
