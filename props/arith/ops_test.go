package arith

import (
	"math/big"
	"math/rand"
	"testing"

	"github.com/onflow/cadence/interpreter"

	"verif/lib/evid"
	"verif/lib/numv"
	"verif/lib/oracle"
)

// binop describes one binary (or unary) operation under test together with its
// reference semantics over raw integers.
type binop struct {
	name  string
	unary bool
	run   func(ctx *interpreter.Interpreter, a, b interpreter.NumberValue) interpreter.Value
	// exact returns the exact mathematical raw result, or fail kind.
	expect func(t oracle.Type, a, b *big.Int) Expect
}

// checked: exact result must fit, else range failure (C11 / fixed-point C15 plus/minus).
func checkedExpect(t oracle.Type, exact *big.Int) Expect {
	if t.Fits(exact) {
		return Expect{Value: exact}
	}
	return Expect{Fail: "range"}
}

func wrapExpect(t oracle.Type, exact *big.Int) Expect { return Expect{Value: t.Wrap(exact)} }

func clampExpect(t oracle.Type, exact *big.Int) Expect { return Expect{Value: t.Clamp(exact)} }

func exactOf(op string, t oracle.Type, a, b *big.Int) (*big.Int, string) {
	switch op {
	case "plus":
		return new(big.Int).Add(a, b), ""
	case "minus":
		return new(big.Int).Sub(a, b), ""
	case "mul":
		p := new(big.Int).Mul(a, b)
		if t.IsFixed() {
			p = oracle.TruncQuo(p, oracle.Pow10(t.Scale))
		}
		return p, ""
	case "div":
		if b.Sign() == 0 {
			return nil, "divzero"
		}
		n := new(big.Int).Set(a)
		if t.IsFixed() {
			n.Mul(n, oracle.Pow10(t.Scale))
		}
		return oracle.TruncQuo(n, b), ""
	case "mod":
		if b.Sign() == 0 {
			return nil, "divzero"
		}
		return oracle.TruncRem(a, b), ""
	case "negate":
		return new(big.Int).Neg(a), ""
	}
	panic("unknown op " + op)
}

var arithOps = map[string]func(ctx *interpreter.Interpreter, a, b interpreter.NumberValue) interpreter.Value{
	"plus":   func(c *interpreter.Interpreter, a, b interpreter.NumberValue) interpreter.Value { return a.Plus(c, b) },
	"minus":  func(c *interpreter.Interpreter, a, b interpreter.NumberValue) interpreter.Value { return a.Minus(c, b) },
	"mul":    func(c *interpreter.Interpreter, a, b interpreter.NumberValue) interpreter.Value { return a.Mul(c, b) },
	"div":    func(c *interpreter.Interpreter, a, b interpreter.NumberValue) interpreter.Value { return a.Div(c, b) },
	"mod":    func(c *interpreter.Interpreter, a, b interpreter.NumberValue) interpreter.Value { return a.Mod(c, b) },
	"negate": func(c *interpreter.Interpreter, a, _ interpreter.NumberValue) interpreter.Value { return a.Negate(c) },
	"satplus": func(c *interpreter.Interpreter, a, b interpreter.NumberValue) interpreter.Value {
		return a.SaturatingPlus(c, b)
	},
	"satminus": func(c *interpreter.Interpreter, a, b interpreter.NumberValue) interpreter.Value {
		return a.SaturatingMinus(c, b)
	},
	"satmul": func(c *interpreter.Interpreter, a, b interpreter.NumberValue) interpreter.Value {
		return a.SaturatingMul(c, b)
	},
	"satdiv": func(c *interpreter.Interpreter, a, b interpreter.NumberValue) interpreter.Value {
		return a.SaturatingDiv(c, b)
	},
	"and": func(c *interpreter.Interpreter, a, b interpreter.NumberValue) interpreter.Value {
		return a.(interpreter.IntegerValue).BitwiseAnd(c, b.(interpreter.IntegerValue))
	},
	"or": func(c *interpreter.Interpreter, a, b interpreter.NumberValue) interpreter.Value {
		return a.(interpreter.IntegerValue).BitwiseOr(c, b.(interpreter.IntegerValue))
	},
	"xor": func(c *interpreter.Interpreter, a, b interpreter.NumberValue) interpreter.Value {
		return a.(interpreter.IntegerValue).BitwiseXor(c, b.(interpreter.IntegerValue))
	},
	"shl": func(c *interpreter.Interpreter, a, b interpreter.NumberValue) interpreter.Value {
		return a.(interpreter.IntegerValue).BitwiseLeftShift(c, b.(interpreter.IntegerValue))
	},
	"shr": func(c *interpreter.Interpreter, a, b interpreter.NumberValue) interpreter.Value {
		return a.(interpreter.IntegerValue).BitwiseRightShift(c, b.(interpreter.IntegerValue))
	},
}

// runCase executes one case against the code under test.
func runCase(ctx *interpreter.Interpreter, t oracle.Type, op string, a, b *big.Int) numv.Outcome {
	av := numv.Make(t, a)
	var bv interpreter.NumberValue
	if b != nil {
		bv = numv.Make(t, b)
	}
	f := arithOps[op]
	return numv.Call(func() interpreter.Value { return f(ctx, av, bv) })
}

// driver shared by C11/C12/C13/C14: enumerates 8-bit spaces exhaustively and
// draws boundary-biased/random operands for the wider types.
type arithCheck struct {
	rec      *evid.Rec
	t        *testing.T
	types    []oracle.Type
	ops      []string
	opsFor   func(oracle.Type) []string // optional per-type op filter
	expect   func(t oracle.Type, op string, a, b *big.Int) Expect
	nontriv  func(t oracle.Type, op string, a, b *big.Int, e Expect) bool
	exclude  func(t oracle.Type, op string, a, b *big.Int) string // known-finding id or ""
	pickB    func(p *oracle.Picker, r *rand.Rand, t oracle.Type, op string, a *big.Int) *big.Int
	perTypeN int
}

func (c *arithCheck) one(ctx *interpreter.Interpreter, ty oracle.Type, op string, a, b *big.Int) {
	if c.exclude != nil {
		if id := c.exclude(ty, op, a, b); id != "" && c.rec.Known(id) {
			c.rec.Excluded(id)
			return
		}
	}
	e := c.expect(ty, op, a, b)
	o := runCase(ctx, ty, op, a, b)
	nt := c.nontriv(ty, op, a, b, e)
	bs := ""
	if b != nil {
		bs = b.String()
	}
	c.rec.CaseH(nt, evid.Hash(ty.Name, op, a.String(), bs))
	if nt {
		c.rec.Class(ty.Name + "/" + op)
		label := ty.Name + "/" + op + "/" + e.String()[:min(4, len(e.String()))]
		if c.rec.WantSample(label) {
			c.rec.Sample(label, map[string]any{"type": ty.Name, "op": op, "a": a.String(), "b": bs, "expected": e.String()})
		}
	}
	if msg := judge(ty, e, o); msg != "" {
		c.rec.Violation(c.t, Case{Type: ty.Name, Op: op, A: a.String(), B: bs}, "%s: %s %s %s: %s", ty.Name, a, op, bs, msg)
	}
}

func (c *arithCheck) opsOf(ty oracle.Type) []string {
	if c.opsFor != nil {
		return c.opsFor(ty)
	}
	return c.ops
}

func (c *arithCheck) run() {
	ctx := context(c.t)
	if f := evid.ReplayFile(); f != "" {
		var cs Case
		if err := evid.LoadReplay(f, &cs); err != nil {
			c.t.Fatalf("bad replay file: %v", err)
		}
		var b *big.Int
		if cs.B != "" {
			b = bi(cs.B)
		}
		c.exclude = nil
		c.one(ctx, oracle.ByName(cs.Type), cs.Op, bi(cs.A), b)
		return
	}
	exhaustiveDone := false
	for _, ty := range c.types {
		r := evid.Rand(int64(evid.Hash(ty.Name) % 1000003))
		if ty.Bits == 8 {
			if evid.Shard() != 0 {
				continue
			}
			lo, hi := ty.Min.Int64(), ty.Max.Int64()
			for _, op := range c.opsOf(ty) {
				for a := lo; a <= hi; a++ {
					if op == "negate" {
						c.one(ctx, ty, op, big.NewInt(a), nil)
						continue
					}
					for b := lo; b <= hi; b++ {
						c.one(ctx, ty, op, big.NewInt(a), big.NewInt(b))
					}
				}
			}
			exhaustiveDone = true
			continue
		}
		p := oracle.NewPicker(ty)
		ops := c.opsOf(ty)
		// pool × pool sweep for the small pools is cheap and systematic
		pool := p.PoolValues()
		for _, op := range ops {
			n := c.perTypeN
			if op == "negate" {
				for _, a := range pool {
					c.one(ctx, ty, op, a, nil)
				}
				continue
			}
			// systematic: a sample of pool pairs (all pairs for pools up to 64 entries, else strided)
			stride := 1
			if len(pool)*len(pool) > n {
				stride = len(pool)*len(pool)/n + 1
			}
			k := r.Intn(stride)
			for ; k < len(pool)*len(pool); k += stride {
				a, b := pool[k/len(pool)], pool[k%len(pool)]
				if c.pickB != nil {
					b = c.pickB(p, r, ty, op, a)
				}
				c.one(ctx, ty, op, a, b)
			}
			for i := 0; i < n; i++ {
				a, b := p.Pair(r)
				if c.pickB != nil {
					b = c.pickB(p, r, ty, op, a)
				}
				c.one(ctx, ty, op, a, b)
			}
		}
	}
	if exhaustiveDone {
		c.rec.Extra("exhaustive_subspaces", "all operand pairs of every 8-bit type for every operation")
	}
}

func near(t oracle.Type, v *big.Int, d int64) bool {
	dd := big.NewInt(d)
	if t.Max != nil && new(big.Int).Abs(new(big.Int).Sub(t.Max, v)).Cmp(dd) <= 0 {
		return true
	}
	if t.Min != nil && new(big.Int).Abs(new(big.Int).Sub(t.Min, v)).Cmp(dd) <= 0 {
		return true
	}
	return false
}

func isSmallDivisor(b *big.Int) bool {
	return b != nil && b.IsInt64() && (b.Int64() == 0 || b.Int64() == 1 || b.Int64() == -1)
}

// ---------------------------------------------------------------- C11

func TestC11(t *testing.T) {
	rec := evid.Start(t, "C11", "direct calls of Plus/Minus/Mul/Div/Mod/Negate on interpreter number values of Int8..Int256, UInt8..UInt256, Int, UInt "+
		"compared with exact math/big results; 8-bit types exhaustively, wider types from a boundary pool (0,±1,min,max,2^k,2^k±1,√max) × pool plus random, "+
		"with partners derived so that sums/products land within 2 of a bound. Non-trivial: exact result within 2 of a bound or out of range, "+
		"or divisor in {0,±1}, or operands of mixed sign. Distinct by (type, op, a, b).")
	c := &arithCheck{
		rec: rec, t: t,
		types: typesWhere(func(ty oracle.Type) bool { return ty.Kind == oracle.SignedInt || ty.Kind == oracle.UnsignedInt }),
		opsFor: func(ty oracle.Type) []string {
			if ty.Signed() {
				return []string{"plus", "minus", "mul", "div", "mod", "negate"}
			}
			return []string{"plus", "minus", "mul", "div", "mod"}
		},
		expect: func(ty oracle.Type, op string, a, b *big.Int) Expect {
			exact, fail := exactOf(op, ty, a, b)
			if fail != "" {
				return Expect{Fail: fail}
			}
			if op == "mod" {
				// remainder: the quotient may be unrepresentable (min % -1) yet the remainder 0 is;
				// the statement only fixes the result's value, which always fits.
				return Expect{Value: exact}
			}
			return checkedExpect(ty, exact)
		},
		nontriv: func(ty oracle.Type, op string, a, b *big.Int, e Expect) bool {
			if e.Fail != "" {
				return true
			}
			if near(ty, e.Value, 2) || isSmallDivisor(b) && (op == "div" || op == "mod") {
				return true
			}
			return b != nil && a.Sign()*b.Sign() < 0
		},
		perTypeN: evid.N(40_000, 1_500_000),
	}
	c.run()
	scriptTie(t, rec, c, evid.N(24, 200), evid.N(6, 40))
}

// ---------------------------------------------------------------- C12

func TestC12(t *testing.T) {
	rec := evid.Start(t, "C12", "direct calls of Plus/Minus/Mul/Div/Mod on Word8..Word256 values compared with the exact result reduced modulo 2^n; "+
		"Word8 exhaustively, wider types boundary pool × pool plus random. Non-trivial: the exact result lies outside [0,2^n) (the operation actually wraps) or the divisor is 0. "+
		"Distinct by (type, op, a, b).")
	c := &arithCheck{
		rec: rec, t: t,
		types: typesWhere(func(ty oracle.Type) bool { return ty.Kind == oracle.Word }),
		ops:   []string{"plus", "minus", "mul", "div", "mod"},
		expect: func(ty oracle.Type, op string, a, b *big.Int) Expect {
			exact, fail := exactOf(op, ty, a, b)
			if fail != "" {
				return Expect{Fail: fail}
			}
			return wrapExpect(ty, exact)
		},
		nontriv: func(ty oracle.Type, op string, a, b *big.Int, e Expect) bool {
			if e.Fail != "" {
				return true
			}
			exact, _ := exactOf(op, ty, a, b)
			return !ty.Fits(exact)
		},
		perTypeN: evid.N(60_000, 2_000_000),
	}
	c.run()
	scriptTie(t, rec, c, evid.N(24, 200), evid.N(6, 40))
}

// ---------------------------------------------------------------- C13

var satOf = map[string]string{"satplus": "plus", "satminus": "minus", "satmul": "mul", "satdiv": "div"}

func TestC13(t *testing.T) {
	rec := evid.Start(t, "C13", "direct calls of SaturatingPlus/Minus/Mul/Div on every numeric type whose sema type declares the member "+
		"(read from sema's SupportsSaturating* so an undeclared member is never called), compared with clamp(exact result truncated as for the plain operator); "+
		"8-bit exhaustively, others boundary pool × pool plus random. Cross-check: whenever the plain checked operator succeeds the saturating one returns the same value. "+
		"Non-trivial: exact result out of range (clamping happens) or within 2 of a bound, or divisor 0. Distinct by (type, op, a, b).")
	ctx := context(t)
	c := &arithCheck{
		rec: rec, t: t,
		types: typesWhere(func(ty oracle.Type) bool {
			st, ok := semaTypeByName(ty.Name).(interface {
				SupportsSaturatingAdd() bool
				SupportsSaturatingSubtract() bool
				SupportsSaturatingMultiply() bool
				SupportsSaturatingDivide() bool
			})
			return ok && (st.SupportsSaturatingAdd() || st.SupportsSaturatingSubtract() || st.SupportsSaturatingMultiply() || st.SupportsSaturatingDivide())
		}),
		opsFor: func(ty oracle.Type) []string {
			st := semaTypeByName(ty.Name).(interface {
				SupportsSaturatingAdd() bool
				SupportsSaturatingSubtract() bool
				SupportsSaturatingMultiply() bool
				SupportsSaturatingDivide() bool
			})
			var ops []string
			if st.SupportsSaturatingAdd() {
				ops = append(ops, "satplus")
			}
			if st.SupportsSaturatingSubtract() {
				ops = append(ops, "satminus")
			}
			if st.SupportsSaturatingMultiply() {
				ops = append(ops, "satmul")
			}
			if st.SupportsSaturatingDivide() {
				ops = append(ops, "satdiv")
			}
			return ops
		},
		expect: func(ty oracle.Type, op string, a, b *big.Int) Expect {
			exact, fail := exactOf(satOf[op], ty, a, b)
			if fail != "" {
				return Expect{Fail: fail}
			}
			return clampExpect(ty, exact)
		},
		nontriv: func(ty oracle.Type, op string, a, b *big.Int, e Expect) bool {
			if e.Fail != "" {
				return true
			}
			exact, _ := exactOf(satOf[op], ty, a, b)
			return !ty.Fits(exact) || near(ty, exact, 2)
		},
		perTypeN: evid.N(30_000, 1_000_000),
	}
	c.run()
	scriptTie(t, rec, c, evid.N(24, 200), evid.N(6, 40))
	// cross-check against the plain operator on a sample
	if evid.ReplayFile() == "" {
		r := evid.Rand(13)
		for _, ty := range c.types {
			p := oracle.NewPicker(ty)
			for _, op := range c.opsFor(ty) {
				for i := 0; i < evid.N(2000, 50_000); i++ {
					a, b := p.Pair(r)
					plain := runCase(ctx, ty, satOf[op], a, b)
					if plain.Panic != nil {
						continue
					}
					sat := runCase(ctx, ty, op, a, b)
					rec.Evals(1)
					if sat.Panic != nil {
						rec.Violation(t, Case{Type: ty.Name, Op: op, A: a.String(), B: b.String()}, "%s %s %s %s fails (%s) although the plain operator succeeds", ty.Name, a, op, b, numv.ErrClass(sat.Panic))
					}
					_, pr := numv.Raw(plain.Value)
					_, sr := numv.Raw(sat.Value)
					if pr.Cmp(sr) != 0 {
						rec.Violation(t, Case{Type: ty.Name, Op: op, A: a.String(), B: b.String()}, "%s %s %s %s = %s but plain operator gives %s", ty.Name, a, op, b, sr, pr)
					}
				}
			}
		}
	}
}

// ---------------------------------------------------------------- C14

var two64 = new(big.Int).Lsh(big.NewInt(1), 64)

func shiftAmounts(ty oracle.Type) []*big.Int {
	var out []*big.Int
	add := func(v *big.Int) {
		if ty.Fits(v) {
			out = append(out, v)
		}
	}
	w := ty.Bits
	if w == 0 {
		w = 256
	}
	for i := 0; i <= w+1; i++ {
		add(big.NewInt(int64(i)))
	}
	for _, k := range []uint{31, 32, 63, 64} {
		p := new(big.Int).Lsh(big.NewInt(1), k)
		add(p)
		add(new(big.Int).Sub(p, big.NewInt(1)))
		add(new(big.Int).Add(p, big.NewInt(1)))
	}
	for _, i := range []int64{62, 63, 64, 65, 127, 128, 129, 255, 256, 257, 1000, 4095, 4096} {
		add(big.NewInt(i))
	}
	if ty.Max != nil {
		add(ty.Max)
		add(new(big.Int).Sub(ty.Max, big.NewInt(1)))
	}
	if ty.Signed() {
		add(big.NewInt(-1))
		add(big.NewInt(-2))
		add(big.NewInt(-64))
		if ty.Min != nil {
			add(ty.Min)
		}
	}
	return out
}

const c14MaxUnboundedShl = 4096

func TestC14(t *testing.T) {
	rec := evid.Start(t, "C14", "direct calls of BitwiseAnd/Or/Xor/LeftShift/RightShift on all integer and Word types compared with a two's-complement model at the type's width "+
		"(x<<n = x·2^n wrapped, exact for Int/UInt; x>>n = floor(x/2^n); negative amount fails; Int/UInt may raise overflow when n does not fit 64 bits). "+
		"8-bit exhaustively; wider types boundary pool × pool plus random, shift amounts 0..width+1, 2^31±1, 2^32±1, 2^63±1, 2^64±1, type max, negative amounts. "+
		"Left shifts of non-zero Int/UInt are capped at 4096 bits (allocation). Non-trivial: shift ≥ width-1, or negative left operand, or amount ≥ 2^63, or negative amount. Distinct by (type, op, a, n).")
	amounts := map[string][]*big.Int{}
	c := &arithCheck{
		rec: rec, t: t,
		types: typesWhere(func(ty oracle.Type) bool { return ty.IsInteger() }),
		ops:   []string{"and", "or", "xor", "shl", "shr"},
		pickB: func(p *oracle.Picker, r *rand.Rand, ty oracle.Type, op string, a *big.Int) *big.Int {
			if op != "shl" && op != "shr" {
				return p.One(r)
			}
			am := amounts[ty.Name]
			if am == nil {
				am = shiftAmounts(ty)
				amounts[ty.Name] = am
			}
			var n *big.Int
			if r.Intn(10) < 8 {
				n = am[r.Intn(len(am))]
			} else {
				n = p.One(r)
			}
			if op == "shl" && ty.Bits == 0 && a.Sign() != 0 && (!n.IsInt64() || n.Int64() > c14MaxUnboundedShl) {
				n = big.NewInt(int64(r.Intn(c14MaxUnboundedShl + 1)))
			}
			return n
		},
		expect: func(ty oracle.Type, op string, a, b *big.Int) Expect {
			switch op {
			case "and", "or", "xor":
				var res *big.Int
				if ty.Bits == 0 {
					// unbounded: math/big implements infinite two's complement
					res = new(big.Int)
					switch op {
					case "and":
						res.And(a, b)
					case "or":
						res.Or(a, b)
					default:
						res.Xor(a, b)
					}
					return Expect{Value: res}
				}
				x, y := oracle.ToTwos(a, ty.Bits), oracle.ToTwos(b, ty.Bits)
				res = new(big.Int)
				switch op {
				case "and":
					res.And(x, y)
				case "or":
					res.Or(x, y)
				default:
					res.Xor(x, y)
				}
				return Expect{Value: ty.FromTwos(res)}
			}
			if b.Sign() < 0 {
				return Expect{Fail: "negshift"}
			}
			fits64 := b.Cmp(two64) < 0
			if op == "shr" {
				var res *big.Int
				if !b.IsUint64() || b.Uint64() > 1<<20 {
					// floor(x / 2^n) for huge n: 0 for x >= 0, -1 for x < 0
					if a.Sign() < 0 {
						res = big.NewInt(-1)
					} else {
						res = big.NewInt(0)
					}
				} else {
					res = oracle.FloorDivPow2(a, uint(b.Uint64()))
				}
				return Expect{Value: res, AltRange: ty.Bits == 0 && !fits64}
			}
			// shl
			if ty.Bits == 0 {
				if !fits64 {
					if a.Sign() == 0 {
						return Expect{Value: big.NewInt(0), AltRange: true}
					}
					return Expect{Fail: "range"} // cannot be represented in memory; overflow is the allowed failure
				}
				return Expect{Value: new(big.Int).Lsh(a, uint(b.Uint64()))}
			}
			if !b.IsUint64() || b.Uint64() >= uint64(ty.Bits) {
				return Expect{Value: big.NewInt(0)} // x·2^n ≡ 0 mod 2^width
			}
			return Expect{Value: ty.Wrap(new(big.Int).Lsh(a, uint(b.Uint64())))}
		},
		nontriv: func(ty oracle.Type, op string, a, b *big.Int, e Expect) bool {
			if op == "shl" || op == "shr" {
				w := ty.Bits
				if w == 0 {
					w = 64
				}
				return b.Sign() < 0 || a.Sign() < 0 || b.Cmp(big.NewInt(int64(w-1))) >= 0
			}
			return a.Sign() < 0 || b.Sign() < 0
		},
		exclude: func(ty oracle.Type, op string, a, b *big.Int) string {
			if (ty.Name == "Int128" || ty.Name == "Int256") && op == "shr" && a.Sign() < 0 && b.Cmp(two64) >= 0 {
				return "F2"
			}
			return ""
		},
		perTypeN: evid.N(40_000, 1_500_000),
	}
	// known finding F2 repro (only if still listed as known)
	if rec.Known("F2") {
		ty := oracle.ByName("Int128")
		o := runCase(context(t), ty, "shr", big.NewInt(-1), two64)
		e := c.expect(ty, "shr", big.NewInt(-1), two64)
		rec.ReportKnown("F2", judge(ty, e, o) != "")
	}
	c.run()
	scriptTie(t, rec, c, evid.N(24, 200), evid.N(6, 40))
}
