package arith

import (
	"fmt"
	"math/big"
	"strings"
	"testing"

	"github.com/onflow/cadence"

	"verif/lib/evid"
	"verif/lib/host"
	"verif/lib/oracle"
)

// Script-level tie: a slice of the cases is also executed as Cadence scripts on
// both engines, so that the operator → method wiring of the interpreter and of
// the VM is covered, not only the value methods.

var opSyntax = map[string]string{
	"plus": "a[i] + b[i]", "minus": "a[i] - b[i]", "mul": "a[i] * b[i]", "div": "a[i] / b[i]", "mod": "a[i] % b[i]",
	"negate":  "-a[i]",
	"satplus": "a[i].saturatingAdd(b[i])", "satminus": "a[i].saturatingSubtract(b[i])",
	"satmul": "a[i].saturatingMultiply(b[i])", "satdiv": "a[i].saturatingDivide(b[i])",
	"and": "a[i] & b[i]", "or": "a[i] | b[i]", "xor": "a[i] ^ b[i]", "shl": "a[i] << b[i]", "shr": "a[i] >> b[i]",
}

// literal renders a raw value of type ty as a Cadence expression of that type.
func literal(ty oracle.Type, raw *big.Int) string {
	if !ty.IsFixed() {
		return raw.String()
	}
	neg := raw.Sign() < 0
	abs := new(big.Int).Abs(raw)
	q, r := new(big.Int).QuoRem(abs, oracle.Pow10(ty.Scale), new(big.Int))
	s := fmt.Sprintf("%s.%0*s", q, ty.Scale, r)
	if neg {
		s = "-" + s
	}
	return s
}

func literalList(ty oracle.Type, vs []*big.Int) string {
	parts := make([]string, len(vs))
	for i, v := range vs {
		parts[i] = literal(ty, v)
	}
	return "[" + strings.Join(parts, ", ") + "]"
}

// rawOfCadence extracts the raw integer from an exported number value.
func rawOfCadence(ty oracle.Type, v cadence.Value) (*big.Int, bool) {
	s := v.String()
	if ty.IsFixed() {
		neg := strings.HasPrefix(s, "-")
		s = strings.TrimPrefix(s, "-")
		parts := strings.SplitN(s, ".", 2)
		frac := ""
		if len(parts) == 2 {
			frac = parts[1]
		}
		for len(frac) < ty.Scale {
			frac += "0"
		}
		r, ok := new(big.Int).SetString(parts[0]+frac, 10)
		if ok && neg {
			r.Neg(r)
		}
		return r, ok
	}
	return new(big.Int).SetString(s, 10)
}

func errKindOf(info host.ErrInfo) string {
	switch {
	case info.HasType("OverflowError"):
		return "overflow"
	case info.HasType("UnderflowError"):
		return "underflow"
	case info.HasType("DivisionByZeroError"):
		return "divzero"
	case info.HasType("NegativeShiftError"):
		return "negshift"
	}
	return info.Class + ":" + info.Root
}

// scriptTie runs, per (type, op): one batched script over cases expected to
// succeed and single-case scripts for cases expected to fail, on both engines.
func scriptTie(t *testing.T, rec *evid.Rec, c *arithCheck, okPerOp, failPerOp int) {
	if evid.ReplayFile() != "" {
		return
	}
	r := evid.Rand(4242)
	for _, ty := range c.types {
		p := oracle.NewPicker(ty)
		for _, op := range c.opsOf(ty) {
			var okA, okB []*big.Int
			var okE []Expect
			type failCase struct {
				a, b *big.Int
				e    Expect
			}
			var fails []failCase
			for tries := 0; tries < 40*(okPerOp+failPerOp) && (len(okA) < okPerOp || len(fails) < failPerOp); tries++ {
				a, b := p.Pair(r)
				if c.pickB != nil {
					b = c.pickB(p, r, ty, op, a)
				}
				if op == "negate" {
					b = big.NewInt(0)
				}
				if c.exclude != nil {
					if id := c.exclude(ty, op, a, b); id != "" && rec.Known(id) {
						continue
					}
				}
				var e Expect
				if op == "negate" {
					e = c.expect(ty, op, a, nil)
				} else {
					e = c.expect(ty, op, a, b)
				}
				if e.Fail == "" && !e.AltRange {
					if len(okA) < okPerOp && (e.Value.BitLen() < 20_000) {
						okA, okB, okE = append(okA, a), append(okB, b), append(okE, e)
					}
				} else if e.Fail != "" && len(fails) < failPerOp {
					fails = append(fails, failCase{a, b, e})
				}
			}
			src := func(as, bs []*big.Int) string {
				return fmt.Sprintf(`access(all) fun main(): [%[1]s] {
  let a: [%[1]s] = %[2]s
  let b: [%[1]s] = %[3]s
  var r: [%[1]s] = []
  var i = 0
  while i < a.length { r.append(%[4]s); i = i + 1 }
  return r
}`, ty.Name, literalList(ty, as), literalList(ty, bs), opSyntax[op])
			}
			for _, eng := range host.Engines {
				if len(okA) > 0 {
					s := src(okA, okB)
					res := host.New().Script(s, nil, host.Options{Engine: eng})
					info := host.Classify(res)
					rec.Case(true, "script", eng, ty.Name, op, s)
					rec.Class("script/" + eng.String() + "/ok-batch")
					cs := map[string]any{"level": "script", "engine": eng.String(), "source": s}
					if info.Class != "ok" {
						rec.Violation(t, cs, "%s %s script (%s) failed: %s %v", ty.Name, op, eng, errKindOf(info), res.Err)
					}
					arr, ok := res.Value.(cadence.Array)
					if !ok || len(arr.Values) != len(okA) {
						rec.Violation(t, cs, "%s %s script (%s) returned %v", ty.Name, op, eng, res.Value)
					}
					for i, v := range arr.Values {
						got, ok := rawOfCadence(ty, v)
						if !ok || got.Cmp(okE[i].Value) != 0 {
							rec.Violation(t, cs, "%s (%s): %s %s %s = %s, want %s", ty.Name, eng, okA[i], op, okB[i], v, okE[i].Value)
						}
					}
					if rec.WantSample("script/" + op) {
						rec.Sample("script/"+op, cs)
					}
				}
				for _, f := range fails {
					s := src([]*big.Int{f.a}, []*big.Int{f.b})
					res := host.New().Script(s, nil, host.Options{Engine: eng})
					kind := errKindOf(host.Classify(res))
					rec.Case(true, "script", eng, ty.Name, op, s)
					rec.Class("script/" + eng.String() + "/fail-" + f.e.Fail)
					good := kind == f.e.Fail || (f.e.Fail == "range" && (kind == "overflow" || kind == "underflow"))
					if !good {
						rec.Violation(t, map[string]any{"level": "script", "engine": eng.String(), "source": s},
							"%s (%s): %s %s %s: outcome %s (%v), want %s error", ty.Name, eng, f.a, op, f.b, kind, res.Value, f.e.Fail)
					}
				}
			}
		}
	}
}
