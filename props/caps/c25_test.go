package caps

import (
	"fmt"
	"sort"
	"strings"
	"testing"

	"github.com/onflow/cadence"
	"github.com/onflow/cadence/common"
	"pgregory.net/rapid"

	"verif/lib/capgen"
	"verif/lib/evid"
	"verif/lib/host"
)

const ruleC25 = "rapid state machine: 3 accounts, 3 storage target paths, 3 public paths, 2 inbox names, 10 borrow types (&S, &{I}, auth(E) &S, &R, " +
	"&AnyStruct, &S2 (unrelated), auth(E) &{I}, &AnyResource, &Account, auth(Storage) &Account); 20..44 actions (storage/account issue, getController, " +
	"getControllers, forEachController (full / early stop), retarget, setTag, delete, publish, unpublish, capabilities.get/borrow/exists, borrow/check on " +
	"capabilities retained in storage, inbox publish/unpublish/claim, save/load at target paths), 1-5 per transaction, 8% aborted; after every " +
	"transaction a script reads back every controller by ID, the per-path controller sets, get/borrow of every published capability with all 10 types " +
	"and check<T> of every retained capability with all 10 types; both engines; expectations from a Go controller model with a hand-written " +
	"subtype/authorization table. One evaluation = one history on both engines. Non-trivial: the history has a retarget that moves a controller followed " +
	"by a delete, an upcasting borrow/check that succeeds and one with an unrelated type (in a transaction or in the read-back script), and a target path whose value was unloaded/replaced; distinct by hash " +
	"of all transaction sources."

// normalise sorts every maximal run of "~" lines (unordered blocks).
func normalise(lines []string) []string {
	out := append([]string(nil), lines...)
	for i := 0; i < len(out); {
		if !strings.HasPrefix(out[i], "~") {
			i++
			continue
		}
		j := i
		for j < len(out) && strings.HasPrefix(out[j], "~") {
			j++
		}
		sort.Strings(out[i:j])
		i = j
	}
	return out
}

// diffModelLines compares observed lines with the model's (with unordered blocks
// and "?a|b" alternatives).
func diffModelLines(got, want []string) string {
	got, want = normalise(got), normalise(want)
	for i := 0; i < len(got) || i < len(want); i++ {
		g, w := "<missing>", "<missing>"
		if i < len(got) {
			g = got[i]
		}
		if i < len(want) {
			w = want[i]
		}
		if alts, ok := strings.CutPrefix(w, "?"); ok {
			found := false
			for _, a := range strings.Split(alts, "|") {
				if a == g {
					found = true
				}
			}
			if found {
				continue
			}
		}
		if g != w {
			return fmt.Sprintf("line %d: got %q, want %q", i, clip(g), clip(w))
		}
	}
	return ""
}

// capEventString renders the capability/inbox events the way the model does.
func capEventString(e cadence.Event) string {
	f := cadence.FieldsMappedByName(e)
	var parts []string
	for _, n := range []string{"id", "address", "provider", "recipient", "name", "type", "path", "capability"} {
		v, ok := f[n]
		if !ok {
			continue
		}
		s := ""
		switch x := v.(type) {
		case cadence.TypeValue:
			s = x.StaticType.ID()
		case cadence.String:
			s = string(x)
		case cadence.Capability:
			bt := "<nil>"
			if x.BorrowType != nil {
				bt = x.BorrowType.ID()
			}
			s = fmt.Sprintf("%s/%d/%s", x.Address.String(), uint64(x.ID), bt)
		default:
			s = v.String()
		}
		parts = append(parts, n+"="+s)
	}
	return e.EventType.ID() + " " + strings.Join(parts, " ")
}

func capEvents(evs []cadence.Event) []string {
	var out []string
	for _, e := range evs {
		if strings.HasPrefix(e.EventType.ID(), "flow.") {
			out = append(out, capEventString(e))
		}
	}
	return out
}

func checkCapStep(h *host.Host, signers []common.Address, st capgen.CapStep, eng host.Engine) string {
	o := host.Options{Engine: eng}
	r := h.Tx(st.Source, nil, signers, o)
	info := host.Classify(r)
	e := st.Expect
	if info.Class == "internal" || info.Class == "panic" {
		return "transaction ended with an internal error / Go panic: " + outcome(r)
	}
	if e.Fails {
		if info.Class == "ok" {
			return fmt.Sprintf("transaction succeeded, model says action %d fails (%s); logs %q", e.FailAt, e.ErrContains, r.Logs)
		}
		if info.Class != "user" {
			return "transaction failed with a non-user error: " + outcome(r)
		}
		if !errMatches(r, e.ErrContains) {
			return fmt.Sprintf("transaction failed for another reason than %q: %s (error types %v)", e.ErrContains, outcome(r), info.Types)
		}
	} else if info.Class != "ok" {
		return fmt.Sprintf("transaction failed, model says it succeeds: %s; logs so far %q", outcome(r), r.Logs)
	}
	if d := diffModelLines(unquoteLogs(r.Logs), e.Logs); d != "" {
		return "transaction logs differ from the model: " + d
	}
	if !e.Fails {
		if d := diffLines(capEvents(r.Events), e.Events); d != "" {
			return "capability events differ from the model: " + d
		}
	}
	v := h.Script(st.Verify, nil, o)
	if host.Classify(v).Class != "ok" {
		return "verification script failed: " + outcome(v)
	}
	lines, err := stringsOf(v.Value)
	if err != nil {
		return "verification script: " + err.Error()
	}
	if d := diffModelLines(lines, st.VerifyWant); d != "" {
		return "state read back after the transaction differs from the model: " + d
	}
	if len(v.Writes) != 0 {
		return "verification script wrote registers"
	}
	return ""
}

func newCapHost(eng host.Engine) (*host.Host, error) {
	h := host.New()
	r := h.Deploy(host.Addr(capgen.TypesAccount), "T", capgen.TypesContract, eng)
	if r.Err != nil || r.Panic != nil {
		return nil, fmt.Errorf("deploying the type universe failed: %s", outcome(r))
	}
	return h, nil
}

func TestC25(t *testing.T) {
	rec := evid.Start(t, "C25", ruleC25)
	rapid.Check(t, func(rt *rapid.T) {
		hist := capgen.GenCapHistory(rapidChooser{rt}, capgen.CapGenOptions{MaxActions: 44})
		var signers []common.Address
		for _, a := range hist.Accts {
			signers = append(signers, host.Addr(uint64(a)))
		}
		for _, eng := range host.Engines {
			h, err := newCapHost(eng)
			if err != nil {
				rt.Fatalf("%v", err)
			}
			for i, st := range hist.Steps {
				if why := checkCapStep(h, signers, st, eng); why != "" {
					rt.Fatalf("C25 violated on %v at step %d: %s\n--- transaction %d:\n%s\nmodel logs: %q\nmodel: fails=%v at %d (%s)",
						eng, i, why, i, st.Source, st.Expect.Logs, st.Expect.Fails, st.Expect.FailAt, st.Expect.ErrContains)
				}
			}
		}
		// evidence
		flags := map[string]bool{}
		retargeted := false
		retargetThenDelete := false
		var key strings.Builder
		for _, st := range hist.Steps {
			key.WriteString(st.Source)
			e := st.Expect
			switch {
			case e.Fails && e.FailAt == len(st.Tx.Actions):
				rec.Class("tx:aborted")
			case e.Fails:
				rec.Class("tx:failed:" + e.ErrContains)
			default:
				rec.Class("tx:ok")
			}
			for i, a := range st.Tx.Actions {
				if e.Fails && i > e.FailAt {
					break
				}
				rec.Class("op:" + a.Op)
			}
			for f := range st.VerifyFlags {
				flags["verify:"+f] = true
			}
			if st.Decisive > 0 {
				flags["verify:controller-type-check-decisive"] = true
			}
			if e.Fails {
				continue
			}
			for f := range e.Flags {
				flags[f] = true
			}
			if e.Flags["retarget-moved"] {
				retargeted = true
			}
			for _, a := range st.Tx.Actions {
				if a.Op == "delete" && retargeted {
					retargetThenDelete = true
				}
			}
		}
		for f := range flags {
			rec.Class("hist:" + f)
		}
		if retargetThenDelete {
			rec.Class("hist:retarget-then-delete")
		}
		upcast := flags["borrow:upcast-ok"] || flags["verify:borrow:upcast-ok"]
		unrelated := flags["borrow:unrelated-type"] || flags["verify:borrow:unrelated-type"]
		nt := retargetThenDelete && upcast && unrelated && flags["target-unloaded"]
		rec.Case(nt, key.String())
		compact := func() []any {
			var out []any
			for _, st := range hist.Steps {
				out = append(out, map[string]any{"actions": st.Tx.Actions, "abort": st.Tx.Abort, "model_fails": st.Expect.Fails, "model_error": st.Expect.ErrContains})
			}
			return out
		}
		switch {
		case nt && rec.WantSample("nontrivial"):
			rec.Sample("nontrivial", compact())
		case !nt && rec.WantSample("trivial"):
			rec.Sample("trivial", compact())
		case rec.WantSample("a-transaction-source"):
			rec.Sample("a-transaction-source", hist.Steps[len(hist.Steps)/2].Source)
		}
	})
}
