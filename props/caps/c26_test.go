package caps

import (
	"fmt"
	"strings"
	"testing"

	"github.com/onflow/cadence"
	"github.com/onflow/cadence/common"
	"pgregory.net/rapid"

	"verif/lib/capgen"
	"verif/lib/evid"
	"verif/lib/host"
)

const ruleC26 = "rapid state machine: 2 accounts x 3 contract names, 10..25 actions (add/update/tryUpdate/remove/get/borrow/names/" +
	"calls) from a 20-source pool (valid, compatible, incompatible, type/syntax error, name mismatch, enum, interface, init panics/arguments, contracts importing another pool contract), " +
	"1-3 lifecycle/read actions per transaction, each lifecycle call surrounded by observations through the same account reference (names, names.length, get(name:), borrow, a call of the contract) compared with the model state at that point, 10% aborted; every transaction is followed by a script reading names/get/borrow/version/state of all 6 slots; " +
	"both engines; one evaluation = one history on both engines. Non-trivial: the history has a failed tryUpdate on a deployed contract " +
	"(the verification script then calls the old version successfully) and a successful add after a committed remove of the same name; " +
	"distinct by hash of all transaction sources."

// fk1Repro reports whether `borrow` of a contract added earlier in the same
// transaction still fails with an internal error on the interpreter.
func fk1Repro() bool {
	h := host.New()
	tx := fmt.Sprintf(`transaction { prepare(a: auth(Contracts) &Account) {
  a.contracts.add(name: "N", code: "%x".decodeHex())
  log(a.contracts.borrow<&AnyStruct>(name: "N") != nil)
} }`, "access(all) contract N {}")
	r := h.Tx(tx, nil, []common.Address{host.Addr(1)}, host.Options{Engine: host.Interp})
	c := host.Classify(r).Class
	return c == "internal" || c == "panic"
}

// fk2Repro reports whether add followed by remove of the same name in one
// transaction still ends in an internal error (unreferenced slabs at commit).
func fk2Repro() bool {
	for _, eng := range host.Engines {
		h := host.New()
		tx := fmt.Sprintf(`transaction { prepare(a: auth(Contracts) &Account) {
  a.contracts.add(name: "N", code: "%x".decodeHex())
  a.contracts.remove(name: "N")
} }`, "access(all) contract N {}")
		r := h.Tx(tx, nil, []common.Address{host.Addr(1)}, host.Options{Engine: eng})
		if c := host.Classify(r).Class; c == "internal" || c == "panic" {
			return true
		}
	}
	return false
}

// fk4Repro: on the VM, `import C as C_1` after importing a contract that itself
// imports C ends in an internal error.
func fk4Repro() bool {
	h := host.New()
	h.Deploy(host.Addr(1), "C", "access(all) contract C { access(all) view fun version(): Int { return 1 } }", host.VM)
	h.Deploy(host.Addr(1), "B", "import C from 0x1\naccess(all) contract B { access(all) view fun dep(): Int { return C.version() } }", host.VM)
	r := h.Script("import B from 0x1\nimport C as C_1 from 0x1\naccess(all) fun main(): Int { return B.dep() + C_1.version() }", nil, host.Options{Engine: host.VM})
	c := host.Classify(r).Class
	return c == "internal" || c == "panic"
}

func contractEvents(evs []cadence.Event) []capgen.CEvent {
	var out []capgen.CEvent
	for _, e := range evs {
		id := e.EventType.ID()
		if !strings.HasPrefix(id, "flow.AccountContract") {
			continue
		}
		f := cadence.FieldsMappedByName(e)
		ce := capgen.CEvent{Type: id, CodeHash: byteArrayHex(f["codeHash"])}
		if a, ok := f["address"].(cadence.Address); ok {
			ce.Acct = int(a[7]) | int(a[6])<<8
		}
		if s, ok := f["contract"].(cadence.String); ok {
			ce.Name = string(s)
		}
		out = append(out, ce)
	}
	return out
}

func codeCalls(tr []host.Call) []string {
	var out []string
	for _, c := range tr {
		if c.Kind == "UpdateAccountContractCode" || c.Kind == "RemoveAccountContractCode" {
			out = append(out, c.Kind+" "+c.Detail)
		}
	}
	return out
}

// checkContractStep runs one step on h and returns "" or the disagreement.
func checkContractStep(h *host.Host, signers []common.Address, st capgen.ContractStep, eng host.Engine) string {
	o := host.Options{Engine: eng}
	r := h.Tx(st.Source, nil, signers, o)
	info := host.Classify(r)
	e := st.Expect
	if info.Class == "internal" || info.Class == "panic" {
		return "transaction ended with an internal error / Go panic: " + outcome(r)
	}
	if e.Fails {
		if info.Class == "ok" {
			return fmt.Sprintf("transaction succeeded, model says action %d fails (%s); logs %q", e.FailAt, e.ErrContains, r.Logs)
		}
		if info.Class != "user" {
			return "transaction failed with a non-user error: " + outcome(r)
		}
		if !errMatches(r, e.ErrContains) {
			return fmt.Sprintf("transaction failed for another reason than %q: %s (error types %v)", e.ErrContains, outcome(r), info.Types)
		}
	} else if info.Class != "ok" {
		return fmt.Sprintf("transaction failed, model says it succeeds: %s; logs so far %q", outcome(r), r.Logs)
	}
	if d := diffLines(unquoteLogs(r.Logs), e.Logs); d != "" {
		return "transaction logs differ from the model: " + d
	}
	if !e.Fails {
		got, want := contractEvents(r.Events), e.Events
		if fmt.Sprint(got) != fmt.Sprint(want) {
			return fmt.Sprintf("contract events differ: got %v, want %v", got, want)
		}
		if g, w := codeCalls(r.Trace), e.HostCalls; fmt.Sprint(g) != fmt.Sprint(w) {
			return fmt.Sprintf("host code-update calls differ: got %v, want %v", g, w)
		}
	}
	// read everything back in a fresh execution
	v := h.Script(st.Verify, nil, o)
	if host.Classify(v).Class != "ok" {
		return "verification script failed (the model says every imported contract is deployed): " + outcome(v)
	}
	lines, err := stringsOf(v.Value)
	if err != nil {
		return "verification script: " + err.Error()
	}
	if d := diffLines(lines, st.VerifyWant); d != "" {
		return "state read back after the transaction differs from the model: " + d
	}
	if len(v.Writes) != 0 {
		return "verification script wrote registers"
	}
	return ""
}

func TestC26(t *testing.T) {
	rec := evid.Start(t, "C26", ruleC26)
	avoid := map[string]bool{}
	if rec.Known("FK1") {
		avoid["FK1"] = true
		rec.ReportKnown("FK1", fk1Repro())
	}
	if rec.Known("FK4") {
		avoid["FK4"] = true
		rec.ReportKnown("FK4", fk4Repro())
	}
	if rec.Known("FK2") {
		avoid["FK2"] = true
		rec.ReportKnown("FK2", fk2Repro())
	}
	rapid.Check(t, func(rt *rapid.T) {
		hist := capgen.GenContractHistory(rapidChooser{rt}, capgen.ContractGenOptions{
			MaxActions: 25,
			Avoid:      avoid,
			OnAvoid:    rec.Excluded,
		})
		var signers []common.Address
		for _, a := range hist.Accts {
			signers = append(signers, host.Addr(uint64(a)))
		}
		for _, eng := range host.Engines {
			h := host.New()
			for i, st := range hist.Steps {
				if why := checkContractStep(h, signers, st, eng); why != "" {
					rt.Fatalf("C26 violated on %v at step %d: %s\n--- transaction %d:\n%s\nmodel: %+v", eng, i, why, i, st.Source, st.Expect)
				}
			}
		}
		// evidence
		failedTry, addAfterRemove := false, false
		removed := map[capgen.CKey]bool{}
		var key strings.Builder
		for _, st := range hist.Steps {
			key.WriteString(st.Source)
			e := st.Expect
			switch {
			case e.Fails && e.FailAt < 0:
				rec.Class("tx:rejected-at-check(import)")
			case e.Fails && e.FailAt == len(st.Tx.Actions):
				rec.Class("tx:aborted")
			case e.Fails:
				rec.Class("tx:failed:" + e.ErrContains)
			default:
				rec.Class("tx:ok")
			}
			for f := range e.Flags {
				rec.Class("flag:" + f)
			}
			for i, a := range st.Tx.Actions {
				if e.Fails && (e.FailAt < 0 || i > e.FailAt) {
					break
				}
				res := "ok"
				if e.Fails && i == e.FailAt {
					res = "fails"
				}
				rec.Class("op:" + a.Op + ":" + res)
				if a.Op == "add" || a.Op == "update" || a.Op == "tryUpdate" {
					rec.Class("src:" + capgen.Pool("A")[a.Src].Label)
				}
				if e.Fails {
					continue
				}
				k := capgen.CKey{Acct: a.Acct, Name: a.Name}
				switch a.Op {
				case "remove":
					removed[k] = true // (a refused or no-op remove does not reach here with a later add succeeding on an occupied name)
				case "add":
					if removed[k] {
						addAfterRemove = true
					}
				}
			}
			if e.Flags["tryUpdate-failed-deployed"] && !e.Fails {
				failedTry = true
			}
		}
		if failedTry {
			rec.Class("hist:failed-tryUpdate-then-old-version-call")
		}
		if addAfterRemove {
			rec.Class("hist:add-after-remove")
		}
		nt := failedTry && addAfterRemove
		rec.Case(nt, key.String())
		compact := func() []any {
			var out []any
			for _, st := range hist.Steps {
				out = append(out, map[string]any{"actions": st.Tx.Actions, "abort": st.Tx.Abort, "model_fails": st.Expect.Fails,
					"model_fail_at": st.Expect.FailAt, "model_error": st.Expect.ErrContains})
			}
			return out
		}
		switch {
		case nt && rec.WantSample("nontrivial"):
			rec.Sample("nontrivial", compact())
		case !nt && rec.WantSample("trivial"):
			rec.Sample("trivial", compact())
		case rec.WantSample("first-transaction-source"):
			rec.Sample("first-transaction-source", hist.Steps[0].Source)
		}
	})
}
