package caps

import (
	"fmt"
	"strings"
	"testing"

	"github.com/onflow/cadence/common"
	"pgregory.net/rapid"

	"verif/lib/capgen"
	"verif/lib/evid"
	"verif/lib/host"
)

const ruleC27 = "rapid: generated contract v1 (struct/resource interfaces, 1-2 enums, 2-5 structs/resources with 1-4 fields of primitive, optional, " +
	"array, constant-size array, dictionary, nested composite, interface and enum types, 0-3 contract fields); every composite and every enum case (and all of them once more inside [AnyStruct] / @[AnyResource] containers) is " +
	"stored in 2 accounts; v2 = v1 under 1-3 of 26 mutation kinds (the kind change keeps the name and goes between struct, resource, enum, struct/resource interface and event) (field add/remove/retype/subtle retype/reorder/rename/access/let-var, declaration " +
	"add/remove/remove with #removedType, conformance add/remove, enum case append/insert/remove/swap, enum raw type, struct<->resource, contract " +
	"field add/remove/retype, sibling retype A->B keeping qualified spelling and wrappers, conformance swap); a share of types and conformances " +
	"is written in qualified form (C.A) or through an imported contract (Imp.A, Imp.I), contract fields may be Capability<&T>. Update through contracts.update on both engines. If accepted: nothing stored may have lost its declaration, enum case or " +
	"v1 conformance, and a generated reader script must borrow/copy every stored value, check isInstance(Type<Declared>()) of every field v2 declares " +
	"(recursively, inside the contract so that access modifiers do not matter), the enum case of every stored enum value and the conformances. " +
	"Rejected updates are only counted. Non-trivial: accepted, v2 != v1 and a stored value belongs to a declaration the mutations changed; distinct by v2 source."

// runUpdatePair executes the pair on one engine: ("accepted"|"rejected:<why>", problem).
func runUpdatePair(p *capgen.UpdatePair, eng host.Engine) (string, string, error) {
	h := host.New()
	a1 := host.Addr(capgen.UpdateAccount)
	if r := h.Deploy(a1, "Imp", p.ImpCode, eng); r.Err != nil || r.Panic != nil {
		return "", "", fmt.Errorf("deploying Imp failed: %s", outcome(r))
	}
	if r := h.Deploy(a1, "C", p.V1Code, eng); r.Err != nil || r.Panic != nil {
		return "", "", fmt.Errorf("deploying v1 failed: %s", outcome(r))
	}
	for i, tx := range p.StoreTx {
		if r := h.Tx(tx, nil, []common.Address{host.Addr(uint64(i + 1))}, host.Options{Engine: eng}); r.Err != nil || r.Panic != nil {
			return "", "", fmt.Errorf("storing values under v1 failed: %s", outcome(r))
		}
	}
	r := h.Update(a1, "C", p.V2Code, eng)
	info := host.Classify(r)
	switch info.Class {
	case "ok":
	case "user":
		why := "other"
		switch {
		case info.HasType("ContractUpdateError"):
			why = "validator"
		case info.HasType("CheckerError"), info.HasType("parser.Error"):
			why = "ill-typed-v2"
		}
		return "rejected:" + why, "", nil
	default:
		return "", "update ended with an internal error / panic: " + outcome(r), nil
	}
	if len(p.Lost) > 0 {
		return "accepted", "update accepted although stored data lost its declaration: " + strings.Join(p.Lost, "; "), nil
	}
	v := h.Script(p.Reader, nil, host.Options{Engine: eng})
	if host.Classify(v).Class != "ok" {
		return "accepted", "reader script failed after the accepted update: " + outcome(v), nil
	}
	lines, err := stringsOf(v.Value)
	if err != nil {
		return "accepted", "reader script: " + err.Error(), nil
	}
	if len(lines) > 0 {
		return "accepted", "stored data is no longer usable after the accepted update: " + strings.Join(lines, "; "), nil
	}
	return "accepted", "", nil
}

// fk3Repro: removing the inherited interface from an interface declaration is
// accepted although a stored value then stops conforming to the inherited interface.
func fk3Repro() bool {
	v1 := `access(all) contract C {
    access(all) struct interface I1 {}
    access(all) struct interface I2: I1 {}
    access(all) struct S: I2 { init() {} }
    access(all) struct S1: I1 { init() {} }
    access(all) let x: {I1}
    init() { self.x = S() }
}`
	v2 := `access(all) contract C {
    access(all) struct interface I1 {}
    access(all) struct interface I2 {}
    access(all) struct S: I2 { init() {} }
    access(all) struct S1: I1 { init() {} }
    access(all) let x: {I1}
    access(all) fun ok(): Bool { return self.x.isInstance(Type<{I1}>()) }
    init() { self.x = S1() }
}`
	h := host.New()
	if r := h.Deploy(host.Addr(1), "C", v1, host.Interp); r.Err != nil {
		return false
	}
	if r := h.Update(host.Addr(1), "C", v2, host.Interp); r.Err != nil {
		return false // rejected: fixed
	}
	r := h.Script("import C from 0x1\naccess(all) fun main(): Bool { return C.ok() }", nil, host.Options{Engine: host.Interp})
	return r.Err != nil || r.Panic != nil || r.Value.String() != "true"
}

func TestC27(t *testing.T) {
	rec := evid.Start(t, "C27", ruleC27)
	fk3 := rec.Known("FK3")
	if fk3 {
		rec.ReportKnown("FK3", fk3Repro())
	}
	rapid.Check(t, func(rt *rapid.T) {
		p := capgen.GenUpdatePair(rapidChooser{rt})
		if fk3 && p.IfaceInheritanceLost {
			rec.Excluded("FK3")
			return
		}
		verdicts := map[host.Engine]string{}
		for _, eng := range host.Engines {
			verdict, problem, err := runUpdatePair(p, eng)
			if err != nil {
				// the generator produced an invalid v1: a health problem, not a violation
				rec.Class("health:invalid-v1")
				rt.Fatalf("C27 generator health: %v\n--- v1:\n%s", err, p.V1Code)
			}
			if problem != "" {
				rt.Fatalf("C27 violated on %v (mutations %v): %s\n--- v1:\n%s\n--- v2:\n%s\n--- reader:\n%s", eng, p.Mutations, problem, p.V1Code, p.V2Code, p.Reader)
			}
			verdicts[eng] = verdict
		}
		if verdicts[host.Interp] != verdicts[host.VM] {
			rt.Fatalf("C27: engines disagree on the update (mutations %v): interpreter %s, vm %s\n--- v1:\n%s\n--- v2:\n%s",
				p.Mutations, verdicts[host.Interp], verdicts[host.VM], p.V1Code, p.V2Code)
		}
		verdict := verdicts[host.Interp]
		rec.Class("update:" + verdict)
		for _, m := range p.Mutations {
			rec.Class("mut:" + m + ":" + verdict)
		}
		if len(p.Mutations) == 0 {
			rec.Class("mut:none:" + verdict)
		}
		nt := verdict == "accepted" && len(p.Mutations) > 0 && p.Touched
		rec.Case(nt, p.V2Code)
		label := verdict
		if nt {
			label = "accepted-touched"
		}
		if rec.WantSample(label) {
			rec.Sample(label, map[string]any{"mutations": p.Mutations, "v1": p.V1Code, "v2": p.V2Code, "verdict": verdict})
		}
	})
}
