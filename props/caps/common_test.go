// Package caps holds the checks of C25 (capability controller model), C26
// (contract lifecycle model) and C27 (accepted contract updates keep stored data
// usable). The generators and the Go reference models live in lib/capgen.
package caps

import (
	"encoding/hex"
	"fmt"
	"math/bits"
	"strconv"
	"strings"

	"github.com/onflow/cadence"
	"pgregory.net/rapid"

	"verif/lib/host"
)

// rapidChooser draws every generator decision from rapid, so that failing
// histories shrink and replay from the .fail file.
type rapidChooser struct{ t *rapid.T }

// Intn is built from fair coin flips: rapid's integer generators are biased
// towards small values (about half of the draws of a 7-bit range fall below 32),
// which would starve the later alternatives of every weighted choice. Bits still
// shrink towards 0.
func (r rapidChooser) Intn(label string, n int) int {
	if n <= 1 {
		return 0
	}
	k := bits.Len(uint(n-1)) + 3
	v := 0
	for _, b := range rapid.SliceOfN(rapid.Bool(), k, k).Draw(r.t, label) {
		v <<= 1
		if b {
			v |= 1
		}
	}
	return v % n
}

// stringsOf converts a [String] result to Go strings.
func stringsOf(v cadence.Value) ([]string, error) {
	arr, ok := v.(cadence.Array)
	if !ok {
		return nil, fmt.Errorf("result is %T, not an array", v)
	}
	out := make([]string, len(arr.Values))
	for i, e := range arr.Values {
		s, ok := e.(cadence.String)
		if !ok {
			return nil, fmt.Errorf("element %d is %T, not a String", i, e)
		}
		out[i] = string(s)
	}
	return out, nil
}

// unquoteLogs undoes the quoting `log` applies to String arguments.
func unquoteLogs(logs []string) []string {
	out := make([]string, len(logs))
	for i, l := range logs {
		if u, err := strconv.Unquote(l); err == nil {
			out[i] = u
		} else {
			out[i] = l
		}
	}
	return out
}

// diffLines reports the first difference between two line lists ("" if equal).
func diffLines(got, want []string) string {
	for i := 0; i < len(got) || i < len(want); i++ {
		g, w := "<missing>", "<missing>"
		if i < len(got) {
			g = got[i]
		}
		if i < len(want) {
			w = want[i]
		}
		if g != w {
			return fmt.Sprintf("line %d: got %q, want %q", i, clip(g), clip(w))
		}
	}
	return ""
}

func clip(s string) string {
	if len(s) > 300 {
		return s[:300] + "…"
	}
	return s
}

// outcome is a short rendering of an execution result for messages.
func outcome(r host.Result) string {
	info := host.Classify(r)
	if info.Class == "ok" {
		return "ok"
	}
	msg := ""
	if r.Err != nil {
		msg = r.Err.Error()
	} else {
		msg = fmt.Sprint(r.Panic)
	}
	if i := strings.Index(msg, "goroutine "); i > 0 {
		msg = msg[:i]
	}
	return info.Class + ": " + clip(msg)
}

// byteArrayHex renders a [UInt8] / [UInt8; n] event field as hex.
func byteArrayHex(v cadence.Value) string {
	arr, ok := v.(cadence.Array)
	if !ok {
		return fmt.Sprintf("<%T>", v)
	}
	b := make([]byte, len(arr.Values))
	for i, e := range arr.Values {
		u, _ := e.(cadence.UInt8)
		b[i] = byte(u)
	}
	return hex.EncodeToString(b)
}

// errMatches tests a failure against the model's token: "" matches anything,
// "type:X" needs a Go error type containing X in the error tree, anything else
// is a substring of the message.
func errMatches(r host.Result, token string) bool {
	if token == "" {
		return true
	}
	if t, ok := strings.CutPrefix(token, "type:"); ok {
		return host.Classify(r).HasType(t)
	}
	return r.Err != nil && strings.Contains(r.Err.Error(), token)
}
