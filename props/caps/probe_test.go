package caps

import (
	"fmt"
	"testing"

	"github.com/onflow/cadence/common"

	"verif/lib/capgen"
	"verif/lib/host"
)

func TestProbe(t *testing.T) {
	p := capgen.Pool("B")
	h := host.New()
	a := []common.Address{host.Addr(1)}
	r := h.Deploy(a[0], "B", p[capgen.SCompatNested].Code, host.Interp)
	fmt.Println(r.Err)
	r = h.Update(a[0], "B", p[capgen.SCompatFn].Code, host.Interp)
	fmt.Println(r.Err)
	fmt.Println(host.Classify(r))
}
