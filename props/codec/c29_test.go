package codec

import (
	"errors"
	"fmt"
	"strings"
	"sync"
	"testing"

	"github.com/onflow/cadence"
	"github.com/onflow/cadence/common"
	"github.com/onflow/cadence/encoding/ccf"
	jsoncdc "github.com/onflow/cadence/encoding/json"
	"github.com/onflow/cadence/runtime"
	"pgregory.net/rapid"

	"verif/lib/evid"
	"verif/lib/host"
	"verif/lib/vgen"
)

// argHost is lib/host's Host with an argument decoder that also understands CCF
// (a host is free to choose the argument format; flow-go style JSON-CDC is the
// default, CCF is recognised by its message prefix).
type argHost struct {
	*host.Host
}

func (h argHost) DecodeArgument(argument []byte, t cadence.Type) (cadence.Value, error) {
	if ccf.HasMsgPrefix(argument) {
		return ccf.Decode(nil, argument)
	}
	return jsoncdc.Decode(nil, argument)
}

type c29Result struct {
	value cadence.Value
	logs  []string
	err   error
	panic any
}

func runEntryPoint(base *host.Host, script bool, src string, arg []byte, eng host.Engine) c29Result {
	return runEntryPointOpt(base, script, src, arg, eng, false)
}

// runEntryPointOpt: atreeValidation switches the runtime's debug re-validation of
// every atree container (AtreeValidationEnabled; production hosts run without it).
func runEntryPointOpt(base *host.Host, script bool, src string, arg []byte, eng host.Engine, atreeValidation bool) (res c29Result) {
	h := base.Fork()
	var signers []common.Address
	if !script {
		signers = []common.Address{host.Addr(1)}
	}
	h.BeginExecution(signers)
	rt := runtime.NewRuntime(runtime.Config{AtreeValidationEnabled: atreeValidation})
	ctx := runtime.Context{Interface: argHost{h}, UseVM: eng != host.Interp}
	if script {
		ctx.Location = common.ScriptLocation{0x53}
	} else {
		ctx.Location = common.TransactionLocation{0x54}
	}
	func() {
		defer func() {
			if r := recover(); r != nil {
				res.panic = r
			}
		}()
		s := runtime.Script{Source: []byte(src), Arguments: [][]byte{arg}}
		if script {
			res.value, res.err = rt.ExecuteScript(s, ctx)
		} else {
			res.err = rt.ExecuteTransaction(s, ctx)
		}
	}()
	res.logs = h.Logs
	return
}

var (
	c29BaseOnce sync.Once
	c29Base     *host.Host
)

func c29Host(t testing.TB) *host.Host {
	c29BaseOnce.Do(func() {
		h := host.New()
		if r := h.Deploy(host.Addr(1), "C", vgen.DeclContract, host.Interp); r.Err != nil || r.Panic != nil {
			t.Fatalf("deploying the C29 universe failed: %v %v", r.Err, r.Panic)
		}
		c29Base = h
	})
	return c29Base
}

func scriptFor(t *vgen.PType) string {
	return fmt.Sprintf(`import C from 0x1
access(all) fun main(x: %s): [AnyStruct] {
    let y: AnyStruct = x
    return [y, y.isInstance(Type<%s>()), y.getType().identifier]
}`, t.Syntax(), t.Syntax())
}

func txFor(t *vgen.PType) string {
	return fmt.Sprintf(`import C from 0x1
transaction(x: %s) {
    prepare(a: &Account) {
        let y: AnyStruct = x
        log(y.isInstance(Type<%s>()))
        log(y.getType().identifier)
    }
}`, t.Syntax(), t.Syntax())
}

// argumentRejected: the run failed with the entry-point argument errors (user errors raised before execution).
func argumentRejected(err error) (bool, string) {
	if err == nil {
		return false, ""
	}
	var e1 *runtime.InvalidEntryPointArgumentError
	if errors.As(err, &e1) {
		return true, "InvalidEntryPointArgumentError"
	}
	var e2 *runtime.ArgumentNotImportableError
	if errors.As(err, &e2) {
		return true, "ArgumentNotImportableError"
	}
	var e3 runtime.InvalidEntryPointParameterCountError
	if errors.As(err, &e3) {
		return true, "InvalidEntryPointParameterCountError"
	}
	return false, ""
}

const fc11Text = "cannot import array: elements do not belong to the same type"
const fc12Text = "can't copy container"
const fc14Text = "exceeded max nested level"
const fc13Text = "(*CompositeValue).HashInput" // frame in the internal error's stack

type c29Case struct {
	Type     string `json:"type"`
	Class    string `json:"class"`
	Encoding string `json:"encoding"`
	Arg      string `json:"argument"`
	Value    string `json:"value"`
}

func TestC29(t *testing.T) {
	rec := evid.Start(t, "C29", "rapid: parameter type T over a deployed contract universe (primitives, abstract number/path/AnyStruct/HashableStruct types, optionals, arrays, "+
		"constant arrays, dictionaries, structs with nested struct/array/optional/dictionary/enum/AnyStruct/{SI}/Integer fields, enums, intersections, capabilities, ranges; depth <= 3); argument = "+
		"conforming | subtype-conforming | wrong top-level type | near miss (18 kinds: nested element of wrong type, missing/extra/renamed field, wrong field type, other/unknown type ID, wrong "+
		"location, enum raw value out of range / of wrong type, resource or function inside, duplicate key, constant-array length, path domain, capability borrow type, mixed range members, "+
		"reordered fields) | JSON-text mutant; encoded as JSON-CDC or CCF; run as script and as transaction on both engines. Oracle: InvalidEntryPointArgumentError / ArgumentNotImportableError, "+
		"or the run succeeds and isInstance(Type<T>()) is true and an own conformance walk of the exported value against T holds; verdicts of script/transaction and of both engines agree; "+
		"every returned value round-trips through JSON-CDC and CCF. Non-trivial: near-miss/mutant or argument depth >= 2. Distinct by (T, encoded argument).")
	base := c29Host(t)
	fc11 := rec.Known("FC11")
	if fc11 {
		res := runEntryPoint(base, true, `access(all) fun main(x: PrivatePath) {}`, []byte(`{"type":"Array","value":[]}`), host.Interp)
		rec.ReportKnown("FC11", res.err != nil && host.ClassifyErr(res.err).Class == "internal")
	}
	fc13 := rec.Known("FC13")
	if fc13 {
		arg := `{"type":"Dictionary","value":[{"key":{"type":"Enum","value":{"fields":[{"name":"x","value":{"type":"UInt8","value":"1"}}],"id":"A.0000000000000001.C.Color"}},"value":{"type":"Bool","value":false}}]}`
		res := runEntryPoint(base, true, "import C from 0x1\naccess(all) fun main(x: {C.Color: Bool}) {}", []byte(arg), host.Interp)
		rec.ReportKnown("FC13", res.err != nil && host.ClassifyErr(res.err).Class == "internal")
	}
	// FC14 (argument nested deeper than 32 arrays -> "cbor: exceeded max nested level 32") turned out
	// to come from AtreeValidationEnabled only: the debug verification re-decodes every container with
	// a CBOR nesting limit of 32. Entry points are therefore executed WITHOUT atree validation (the
	// production configuration); failures of that debug pass are out of this property's scope.
	fc14 := false
	fc17 := rec.Known("FC17")
	if fc17 {
		rec.ReportKnown("FC17", fc17StillFails())
	}
	fc18 := rec.Known("FC18")
	if fc18 {
		res := runEntryPoint(base, true, `access(all) fun main(x: [AnyStruct?]): AnyStruct { return x }`, []byte(`{"type":"Array","value":[{"type":"Bool","value":false}]}`), host.Interp)
		still := false
		if arr, ok := res.value.(cadence.Array); ok && len(arr.Values) == 1 {
			_, boxed := arr.Values[0].(cadence.Optional)
			still = !boxed
		}
		rec.ReportKnown("FC18", still)
	}
	fc15 := rec.Known("FC15")
	if fc15 {
		s := `{"value":{"id":"A.0000000000000001.C.S","fields":[{"value":{"value":"1","type":"Int"},"name":"n"},{"value":{"value":"x","type":"String"},"name":"s"}]},"type":"Struct"}`
		res := runEntryPoint(base, true, "import C from 0x1\naccess(all) fun main(x: [[Address]]) {}",
			[]byte(`{"type":"Array","value":[{"type":"Array","value":[`+s+`]}]}`), host.Interp)
		rec.ReportKnown("FC15", res.err != nil && host.ClassifyErr(res.err).Class == "external")
	}
	fc12 := rec.Known("FC12")
	if fc12 {
		r := `{"value":{"id":"A.0000000000000001.C.R","fields":[{"value":{"value":"1","type":"UInt64"},"name":"id"}]},"type":"Resource"}`
		res := runEntryPoint(base, true, "import C from 0x1\naccess(all) fun main(x: [[Address]]) {}",
			[]byte(`{"type":"Array","value":[{"type":"Array","value":[`+r+`]}]}`), host.Interp)
		rec.ReportKnown("FC12", res.err != nil && host.ClassifyErr(res.err).Class == "external")
	}
	// The round-trip clause skips returned values that match a codec finding's predicate
	// (those are judged, and listed, under C41/C42).
	c41known := c41Known{fc1: true, fc2: true, fc3: true, fc4: true, fc5: true, fc6: true, fc7: true}
	rapid.Check(t, func(rt *rapid.T) {
		g := &vgen.G{S: vgen.FromRapid(rt), Cfg: vgen.Config{MaxDepth: 3}}
		pt := g.ParamType(2)
		// the argument
		var arg cadence.Value
		class := "conforming"
		conf := g.ArgValue(pt, 3)
		switch g.S.Intn(10) {
		case 0, 1, 2:
			arg = conf
		case 3:
			arg, class = g.WrongTypeValue(pt), "wrong-type"
		default:
			v, label, ok := g.NearMiss(conf)
			if ok {
				arg, class = v, "near-miss/"+label
			} else {
				arg = conf
			}
		}
		expectConforms := vgen.Conforms(arg, pt) == ""
		// encoding
		encName := "json"
		var enc []byte
		if g.S.Intn(3) == 0 {
			e := ccfEncodeWith(ccfDefaultEnc, arg)
			if e.err == nil && e.panic == nil {
				enc, encName = e.bytes, "ccf"
			}
		}
		if enc == nil {
			e := jsonEncode(arg)
			if e.err != nil || e.panic != nil {
				rec.Class("skipped/argument-not-encodable")
				return
			}
			enc = e.bytes
			if g.S.Intn(8) == 0 {
				// (mutants nested thousands of levels deep are C41's business; importing them takes
				// seconds per run and would dominate this check)
				if m, _ := mutateJSON(g, enc); len(m) <= 16<<10 {
					enc = m
					class, expectConforms = "json-mutant", false
				} else {
					rec.Class("skipped/huge-json-mutant")
				}
			}
		}
		in := vgen.Inspect(arg)
		if in.Kinds["Capability"] && class == "conforming" {
			// capability values are not importable: a "non-importable" argument by construction
			class, expectConforms = "non-importable/capability", false
		}
		nontrivial := class != "conforming" || in.Depth >= 2
		rec.CaseH(nontrivial, evid.Hash(pt.Syntax(), string(enc)))
		rec.Class("arg/" + class)
		rec.Class("enc/" + encName)
		rec.Class("type/" + pt.K)
		cs := c29Case{Type: pt.Syntax(), Class: class, Encoding: encName, Arg: fmt.Sprintf("%q", enc), Value: vgen.Show(arg)}
		if encName == "json" {
			cs.Arg = string(enc)
		}
		if rec.WantSample(class) {
			rec.Sample(class, cs)
		}

		verdicts := map[string]string{}
		for _, script := range []bool{true, false} {
			src := txFor(pt)
			kind := "tx"
			if script {
				src, kind = scriptFor(pt), "script"
			}
			for _, eng := range host.Engines {
				res := runEntryPoint(base, script, src, enc, eng)
				who := kind + "/" + eng.String()
				if res.panic != nil {
					rt.Fatalf("C29 %s: Go panic escaped the runtime: %v\ncase: %+v", who, res.panic, cs)
				}
				if res.err != nil {
					rejected, name := argumentRejected(res.err)
					info := host.ClassifyErr(res.err)
					if fc13 && info.Class == "internal" && strings.Contains(res.err.Error(), fc13Text) {
						rec.Excluded("FC13")
						verdicts[who] = "rejected"
						continue
					}
					if fc15 && info.Class == "external" && strings.Contains(res.err.Error(), fc12Text) {
						rec.Excluded("FC15")
						verdicts[who] = "rejected"
						continue
					}
					if fc14 && info.Class == "external" && strings.Contains(res.err.Error(), fc14Text) {
						rec.Excluded("FC14")
						verdicts[who] = "rejected"
						continue
					}
					if fc12 && info.Class == "external" && strings.Contains(res.err.Error(), fc12Text) {
						rec.Excluded("FC12")
						verdicts[who] = "rejected"
						continue
					}
					if !rejected {
						if info.Class == "user" && class == "json-mutant" {
							name = "other-user-error"
						} else {
							rt.Fatalf("C29 %s: the run failed, but not with an invalid-argument error: class=%s root=%s\n%v\ncase: %+v", who, info.Class, info.Root, res.err, cs)
						}
					}
					if info.Class == "internal" && fc11 && strings.Contains(res.err.Error(), fc11Text) {
						rec.Excluded("FC11")
						verdicts[who] = "rejected"
						continue
					}
					if info.Class != "user" {
						rt.Fatalf("C29 %s: the argument was rejected with a non-user error (%s, root %s): %v\ncase: %+v", who, info.Class, info.Root, res.err, cs)
					}
					verdicts[who] = "rejected"
					rec.Class("outcome/rejected:" + name)
					continue
				}
				verdicts[who] = "accepted"
				// accepted: the program saw the value
				var flag, ident string
				var seen cadence.Value
				if script {
					arr, ok := res.value.(cadence.Array)
					if !ok || len(arr.Values) != 3 {
						rt.Fatalf("C29 %s: unexpected script result %s", who, vgen.Show(res.value))
					}
					seen = arr.Values[0]
					flag, ident = arr.Values[1].String(), arr.Values[2].String()
				} else {
					if len(res.logs) != 2 {
						rt.Fatalf("C29 %s: unexpected logs %v", who, res.logs)
					}
					flag, ident = res.logs[0], res.logs[1]
				}
				if flag != "true" {
					rt.Fatalf("C29 %s: the argument was accepted but x.isInstance(Type<%s>()) is %s (run-time type %s)\ncase: %+v", who, pt.Syntax(), flag, ident, cs)
				}
				if script {
					s := vgen.Conforms(seen, pt)
					if strings.Contains(s, "has no case") {
						// An enum value whose raw value matches no case is imported as is. Its run-time type
						// is the enum type, so the statement (subtype of the parameter type) is met; the walk
						// is stricter here. Recorded as an observation, not judged.
						rec.Class("observation/enum-raw-value-without-case-accepted")
						s = ""
					}
					if fc18 && strings.HasSuffix(s, "is not an optional") && (strings.HasPrefix(s, "[") || strings.HasPrefix(s, "value of") || strings.HasPrefix(s, ".")) {
						// FC18: a container element that should be boxed in an optional is not (the export,
						// and with it the CCF round trip of the returned value, is affected)
						rec.Excluded("FC18")
						rec.Class("outcome/accepted")
						continue
					}
					if s != "" {
						rt.Fatalf("C29 %s: the argument was accepted but the value the script received does not conform to %s: %s\nreceived: %s\ncase: %+v",
							who, pt.Syntax(), s, vgen.Show(seen), cs)
					}
					// returned values round-trip through both codecs (modulo the listed codec findings)
					rin := vgen.Inspect(res.value)
					if c41known.excluded(res.value, rin) == "" {
						if _, msg := c41RoundTrip(res.value, rin, c41known); msg != "" {
							rt.Fatalf("C29 %s: the returned value does not round-trip through JSON-CDC: %s", who, msg)
						}
					}
					if fc17 && ccfCovariantContainer(res.value, res.value.Type()) {
						rec.Excluded("FC17")
					} else if !rin.Kinds["Function"] && !rin.InlineFunctionType && !hasDuplicateParameterLabels(res.value) && !ccfOptionalAmbiguity(res.value, res.value.Type()) {
						if _, msg := ccfRoundTrip("default", ccfDefaultEnc, ccfDefaultDec, res.value, vgen.CCFErasure{}); msg != "" {
							rt.Fatalf("C29 %s: the returned value does not round-trip through CCF: %s", who, msg)
						}
					}
					rec.Class("returned-value-roundtrips")
				}
				rec.Class("outcome/accepted")
			}
		}
		// all four runs agree
		first := ""
		for _, who := range []string{"script/interpreter", "script/vm", "tx/interpreter", "tx/vm"} {
			if first == "" {
				first = verdicts[who]
			} else if verdicts[who] != first {
				rt.Fatalf("C29: verdicts differ between entry points / engines: %v\ncase: %+v", verdicts, cs)
			}
		}
		rec.Class("table/" + strings.SplitN(class, "/", 2)[0] + "->" + first)
		if strings.HasPrefix(class, "near-miss/") {
			rec.Class("table/" + class + "->" + first)
		}
		if first == "accepted" && !expectConforms {
			// accepted although the harness-built argument does not conform: the value the
			// script saw conformed (checked above), so the runtime repaired or ignored the
			// defect; recorded, and fatal only for defects that cannot be benign
			rec.Class("accepted-nonconforming/" + class)
		}
		if first == "rejected" && expectConforms && class == "conforming" {
			rec.Class("conforming-rejected")
			if rec.WantSample("conforming-rejected") {
				rec.Sample("conforming-rejected", cs)
			}
		}
	})
	if !replaying() {
		rec.RequireClasses(t, "arg/conforming", "arg/wrong-type", "outcome/accepted", "outcome/rejected:InvalidEntryPointArgumentError", "enc/json", "enc/ccf",
			"table/near-miss->rejected", "table/conforming->accepted")
		acc, rej := rec.ClassCount("table/conforming->accepted"), rec.ClassCount("conforming-rejected")
		rec.Extra("conforming_accept_rate", float64(acc)/float64(acc+rej+1))
		if rej*20 > acc {
			rec.Inconclusive(t, "%d of %d conforming arguments were rejected: the generator's notion of conformance is off", rej, acc+rej)
		}
	}
}
