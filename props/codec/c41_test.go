package codec

import (
	"bytes"
	"encoding/json"
	"fmt"
	"strings"
	"testing"
	"unicode/utf8"

	"github.com/onflow/cadence"
	"pgregory.net/rapid"

	"verif/lib/evid"
	"verif/lib/vgen"
)

const fc1PanicText = "Restriction kind is not supported"

// c41Known are the listed known findings of C41 with their narrow predicates.
type c41Known struct {
	fc1, fc2, fc3, fc4, fc5, fc6, fc7 bool
}

// c41Excluded returns the finding id whose predicate the generated value
// matches (the whole case is skipped), or "".
func (k c41Known) excluded(v cadence.Value, in *vgen.Info) string {
	switch {
	case k.fc6 && fc6Matches(v):
		return "FC6"
	case k.fc4 && in.HasAttachmentValue:
		return "FC4"
	case k.fc3 && in.UnboundedTypeParam:
		return "FC3"
	case k.fc5 && in.BigConstSize:
		return "FC5"
	}
	return ""
}

func reportC41Known(rec *evid.Rec) c41Known {
	var k c41Known
	if rec.Known("FC1") {
		k.fc1 = true
		o := jsonDecode([]byte(`{"type":"Type","value":{"staticType":{"kind":"Restriction"}}}`))
		rec.ReportKnown("FC1", o.panic != nil)
	}
	if rec.Known("FC2") {
		k.fc2 = true
		mk := func() cadence.Type {
			return cadence.NewIntersectionType([]cadence.Type{cadence.NewStructInterfaceType(nil, "I", nil, nil)})
		}
		rec.ReportKnown("FC2", !mk().Equal(mk()))
	}
	if rec.Known("FC3") {
		k.fc3 = true
		ft := cadence.NewFunctionType(cadence.FunctionPurityImpure, []cadence.TypeParameter{{Name: "T"}}, nil, cadence.VoidType)
		e := jsonEncode(cadence.NewFunction(ft))
		rec.ReportKnown("FC3", e.err == nil && jsonDecode(e.bytes).err != nil)
	}
	if rec.Known("FC4") {
		k.fc4 = true
		at := cadence.NewAttachmentType(nil, "PublicKey", cadence.AnyStructType, nil, nil)
		e := jsonEncode(cadence.NewAttachment(nil).WithType(at))
		rec.ReportKnown("FC4", e.err == nil && jsonDecode(e.bytes).err != nil)
	}
	if rec.Known("FC5") {
		k.fc5 = true
		ty := cadence.NewConstantSizedArrayType(1<<53+1, cadence.IntType)
		e := jsonEncode(cadence.NewTypeValue(ty))
		d := jsonDecode(e.bytes)
		still := d.err != nil || d.value == nil
		if !still {
			still = vgen.Diff(cadence.NewTypeValue(ty), d.value, vgen.Eq{}) != ""
		}
		rec.ReportKnown("FC5", still)
	}
	if rec.Known("FC6") {
		k.fc6 = true
		inner := cadence.NewStructType(nil, "PublicKey", nil, nil)
		outer := cadence.NewStructType(nil, "AccountKey", []cadence.Field{{Identifier: "k", Type: inner}},
			[][]cadence.Parameter{{{Identifier: "k", Type: inner}}})
		e := jsonEncode(cadence.NewTypeValue(outer))
		rec.ReportKnown("FC6", e.err == nil && jsonDecode(e.bytes).err != nil)
	}
	if rec.Known("FC7") {
		k.fc7 = true
		d := jsonDecode([]byte(`{"type":"Address","value":"0x0000000000000000000001"}`))
		rec.ReportKnown("FC7", d.panic != nil || wrapsGoRuntimeError(d.err))
	}
	return k
}

// c41RoundTrip checks one value; it returns the encoding, or a violation message.
func c41RoundTrip(v cadence.Value, in *vgen.Info, known c41Known) (enc []byte, msg string) {
	e1 := jsonEncode(v)
	if e1.panic != nil || e1.err != nil {
		return nil, fmt.Sprintf("Encode failed: %s", e1)
	}
	if !utf8.Valid(e1.bytes) || !json.Valid(e1.bytes) {
		return nil, "Encode produced invalid JSON"
	}
	d := jsonDecode(e1.bytes)
	if d.panic != nil || d.err != nil {
		return e1.bytes, fmt.Sprintf("Decode of the encoder's own output failed: %s\nencoding: %s", d, e1.bytes)
	}
	e2 := jsonEncode(d.value)
	if e2.panic != nil || e2.err != nil {
		return e1.bytes, fmt.Sprintf("re-encoding the decoded value failed: %s", e2)
	}
	if !bytes.Equal(e1.bytes, e2.bytes) {
		return e1.bytes, fmt.Sprintf("re-encoding differs:\n first: %s\nsecond: %s", e1.bytes, e2.bytes)
	}
	want := vgen.EraseJSON(v)
	if s := vgen.Diff(want, d.value, vgen.Eq{}); s != "" {
		return e1.bytes, fmt.Sprintf("decoded value differs from the original with JSON-erasable type information removed: %s\nencoding: %s", s, e1.bytes)
	}
	// every embedded type decodes to an equal type (cadence's own Equal and ID)
	var ta, tb []cadence.Type
	embeddedTypes(v, &ta)
	embeddedTypes(d.value, &tb)
	if len(ta) != len(tb) {
		return e1.bytes, "number of embedded types differs"
	}
	for i := range ta {
		if s := vgen.DiffTypes(ta[i], tb[i], vgen.Eq{}); s != "" {
			return e1.bytes, "embedded type differs: " + s
		}
		if ta[i] == nil || tb[i] == nil {
			continue
		}
		if ta[i].ID() != tb[i].ID() {
			return e1.bytes, fmt.Sprintf("embedded type IDs differ: %s vs %s", ta[i].ID(), tb[i].ID())
		}
		if known.fc2 && in.HasIntersection {
			continue // FC2: Equal is pointer-based for intersection members
		}
		if s := typeAPIEqual(ta[i], tb[i]); s != "" {
			return e1.bytes, s
		}
	}
	return e1.bytes, ""
}

// c41Mutant decodes a malformed input; it returns a violation message or "".
func c41Mutant(rec *evid.Rec, known c41Known, mut []byte, label string) string {
	d := jsonDecode(mut)
	switch {
	case d.panic != nil:
		if s, ok := d.panic.(string); ok && s == fc1PanicText && known.fc1 {
			rec.Excluded("FC1")
			return ""
		}
		return fmt.Sprintf("Decode panicked on malformed input (%s): %v\ninput: %s", label, d.panic, clip(mut))
	case d.err != nil:
		rec.Class("mutant/rejected")
		if wrapsGoRuntimeError(d.err) {
			if known.fc7 && strings.Contains(d.err.Error(), "slice bounds out of range [-") {
				rec.Excluded("FC7")
				return ""
			}
			return fmt.Sprintf("Decode crashed internally on malformed input (%s) and reported the recovered Go runtime error as a decoding error: %v\ninput: %s", label, d.err, clip(mut))
		}
	case d.value == nil:
		return fmt.Sprintf("Decode returned neither a value nor an error (%s)\ninput: %s", label, clip(mut))
	default:
		rec.Class("mutant/accepted")
		// Not part of the statement, recorded only: does the accepted value re-encode?
		e := jsonEncode(d.value)
		if e.panic != nil {
			rec.Class("mutant/accepted-but-reencode-panics")
		} else if e.err != nil {
			rec.Class("mutant/accepted-but-reencode-fails")
		}
	}
	return ""
}

func clip(b []byte) string {
	if len(b) > 1500 {
		return fmt.Sprintf("%q… (%d bytes)", b[:1500], len(b))
	}
	return fmt.Sprintf("%q", b)
}

func TestC41(t *testing.T) {
	rec := evid.Start(t, "C41", "rapid: a random type universe (2-9 nominal types at address/string/identifier/transaction/script locations, recursive composite types, "+
		"entitlements) and a typed value of depth <= 5 over every cadence.Value kind; Encode/Decode/Encode byte-equality, own structural equality against the "+
		"original with JSON-erasable type information removed (vgen.EraseJSON), embedded types compared structurally and with Type.Equal/ID; then 3 mutants of each encoding "+
		"(2 JSON-structure mutations that stay valid JSON: drop/rename/add keys, wrong JSON types, wrong type/kind tags, out-of-range numbers, deep nesting, non-object roots; 1 byte-level mutation) "+
		"decoded under recover. Non-trivial: value depth >= 3, or contains a type value/capability/function value/recursive type; mutants count when they are still valid JSON. "+
		"Distinct by encoding / mutant bytes.")
	known := reportC41Known(rec)
	rapid.Check(t, func(rt *rapid.T) {
		g := vgen.New(vgen.FromRapid(rt), vgen.Config{MaxDepth: 4})
		v, _ := g.AnyValue()
		in := vgen.Inspect(v)
		if id := known.excluded(v, in); id != "" {
			rec.Excluded(id)
			return
		}
		nontrivial := in.Depth >= 3 || in.Kinds["Type"] || in.Kinds["Capability"] || in.Kinds["Function"] || in.RecursiveType
		enc, msg := c41RoundTrip(v, in, known)
		rec.CaseH(nontrivial, evid.Hash("rt", string(enc)))
		classes(rec, "", in)
		if nontrivial && rec.WantSample("roundtrip") {
			rec.Sample("roundtrip", map[string]any{"value": vgen.Show(v), "json": string(enc)})
		}
		if msg != "" {
			rt.Fatalf("C41 round trip: %s\nvalue: %s", msg, vgen.Show(v))
		}
		for i := 0; i < 3; i++ {
			var mut []byte
			var label string
			if i < 2 {
				mut, label = mutateJSON(g, enc)
			} else {
				mut, label = mutateBytes(g, enc)
			}
			valid := json.Valid(mut)
			rec.CaseH(valid && !bytes.Equal(mut, enc), evid.Hash("mut", string(mut)))
			if valid {
				rec.Class("mutant/valid-json")
			} else {
				rec.Class("mutant/invalid-json")
			}
			if rec.WantSample("mutant:"+label) && len(mut) < 400 {
				rec.Sample("mutant:"+label, map[string]any{"mutation": label, "input": string(mut)})
			}
			if msg := c41Mutant(rec, known, mut, label); msg != "" {
				rt.Fatalf("C41 robustness: %s", msg)
			}
		}
	})
	if !replaying() {
		rec.RequireClasses(t, "value/Type", "value/Capability", "value/Dictionary", "value/Struct", "value/Enum", "value/InclusiveRange",
			"value/Path", "value/Function", "type/recursive", "type/Intersection", "type/Function", "type/Reference", "mutant/accepted", "mutant/rejected")
	}
}
