package codec

import (
	"bytes"
	"fmt"
	goRuntime "runtime"
	"testing"

	"github.com/onflow/cadence"
	"github.com/onflow/cadence/encoding/ccf"
	"pgregory.net/rapid"

	"verif/lib/evid"
	"verif/lib/vgen"
)

var (
	ccfDetEnc = func() ccf.EncMode {
		m, err := ccf.EncOptions{
			SortCompositeFields:   ccf.SortBytewiseLexical,
			SortIntersectionTypes: ccf.SortBytewiseLexical,
			SortEntitlementTypes:  ccf.SortBytewiseLexical,
		}.EncMode()
		if err != nil {
			panic(err)
		}
		return m
	}()
	ccfDefaultEnc = func() ccf.EncMode {
		m, err := ccf.EncOptions{}.EncMode()
		if err != nil {
			panic(err)
		}
		return m
	}()
	ccfStrictDec = func() ccf.DecMode {
		m, err := ccf.DecOptions{
			EnforceSortCompositeFields:   ccf.EnforceSortBytewiseLexical,
			EnforceSortIntersectionTypes: ccf.EnforceSortBytewiseLexical,
			EnforceSortEntitlementTypes:  ccf.EnforceSortBytewiseLexical,
		}.DecMode()
		if err != nil {
			panic(err)
		}
		return m
	}()
	ccfDefaultDec = func() ccf.DecMode {
		m, err := ccf.DecOptions{}.DecMode()
		if err != nil {
			panic(err)
		}
		return m
	}()
	sortedErasure = vgen.CCFErasure{SortFields: true, SortIntersections: true, SortEntitlements: true}
)

// ccfEq: dictionaries are compared as sets of pairs (the format stores them in
// the order of their encoded keys); everything else positionally.
var ccfEq = vgen.Eq{UnorderedDicts: true}

// ccfRoundTrip encodes and decodes v with the given modes and compares with the
// expected erasure. It returns the bytes and a violation message.
func ccfRoundTrip(name string, em ccf.EncMode, dm ccf.DecMode, v cadence.Value, er vgen.CCFErasure) ([]byte, string) {
	e := ccfEncodeWith(em, v)
	if e.panic != nil || e.err != nil {
		return nil, fmt.Sprintf("%s: Encode failed: %s", name, e)
	}
	d := ccfDecodeWith(dm, e.bytes)
	if d.panic != nil || d.err != nil {
		return e.bytes, fmt.Sprintf("%s: Decode of the encoder's own output failed: %s\nencoding: %x", name, d, e.bytes)
	}
	want := vgen.EraseCCF(v, er)
	if s := vgen.Diff(want, d.value, ccfEq); s != "" {
		return e.bytes, fmt.Sprintf("%s: decoded value differs: %s\nencoding: %x\ndecoded: %s", name, s, e.bytes, vgen.Show(d.value))
	}
	return e.bytes, ""
}

// allocDelta runs f and returns the bytes allocated meanwhile (single-threaded tests).
func allocDelta(f func()) uint64 {
	var a, b goRuntime.MemStats
	goRuntime.ReadMemStats(&a)
	f()
	goRuntime.ReadMemStats(&b)
	return b.TotalAlloc - a.TotalAlloc
}

// c42Known: listed known findings of C42 with their narrow predicates.
type c42Known struct {
	fc8, fc9, fc10, fc16, fc17 bool
}

func (k c42Known) excluded(v cadence.Value, static cadence.Type, in *vgen.Info) string {
	switch {
	case k.fc8 && (in.Kinds["Function"] || in.InlineFunctionType):
		return "FC8"
	case k.fc9 && hasDuplicateParameterLabels(v):
		return "FC9"
	case k.fc10 && ccfOptionalAmbiguity(v, static):
		return "FC10"
	case k.fc16 && attachmentBaseCycle(v):
		return "FC16"
	case k.fc17 && ccfCovariantContainer(v, static):
		return "FC17"
	}
	return ""
}

// ccfOptionalAmbiguity is the predicate of FC10: somewhere in v an optional wraps
// something that itself encodes as CBOR nil, so that the encoding cannot tell the
// levels apart: Some(Void), or a nil that sits above the innermost level of a
// nested optional static type (nil : T?? is read back as Some(nil)).
func ccfOptionalAmbiguity(v cadence.Value, static cadence.Type) bool {
	if hasSomeVoid(v) {
		return true
	}
	return nilAboveInnermost(v, static)
}

func nilAboveInnermost(v cadence.Value, static cadence.Type) bool {
	if r, ok := static.(*cadence.ReferenceType); ok {
		static = r.Type
	}
	switch x := v.(type) {
	case cadence.Optional:
		// m = optional layers of the value, k = optional layers of the static type
		m, k := 0, 0
		var inner cadence.Value = x
		for {
			o, ok := inner.(cadence.Optional)
			if !ok {
				break
			}
			m++
			inner = o.Value
			if inner == nil {
				break
			}
		}
		peeled := static
		for {
			o, ok := peeled.(*cadence.OptionalType)
			if !ok {
				break
			}
			k++
			peeled = o.Type
		}
		if inner == nil {
			// an all-nil chain is written as a single CBOR nil whenever the static type is
			// optional, and read back with exactly k layers; below an abstract static type
			// the runtime type (Never?...) is written inline and mirrors the value
			return k >= 1 && m != k
		}
		if m <= k {
			st := static
			for i := 0; i < m; i++ {
				st = st.(*cadence.OptionalType).Type
			}
			return nilAboveInnermost(inner, st)
		}
		return nilAboveInnermost(inner, inner.Type())
	case cadence.Array:
		var et cadence.Type
		if x.ArrayType != nil {
			et = x.ArrayType.Element()
		}
		for _, e := range x.Values {
			if nilAboveInnermost(e, et) {
				return true
			}
		}
	case cadence.Dictionary:
		var kt, et cadence.Type
		if x.DictionaryType != nil {
			kt, et = x.DictionaryType.KeyType, x.DictionaryType.ElementType
		}
		for _, p := range x.Pairs {
			if nilAboveInnermost(p.Key, kt) || nilAboveInnermost(p.Value, et) {
				return true
			}
		}
	case cadence.Composite:
		t := vgen.CompositeTypeOf(x)
		fs := vgen.TypeFields(t)
		for i, f := range vgen.FieldValues(x) {
			var ft cadence.Type
			if i < len(fs) {
				ft = fs[i].Type
			}
			if nilAboveInnermost(f, ft) {
				return true
			}
		}
	}
	return false
}

// hasSomeVoid: an Optional whose (possibly nested optional) content is Void.
func hasSomeVoid(v cadence.Value) bool {
	switch x := v.(type) {
	case cadence.Optional:
		inner := x.Value
		for {
			o, ok := inner.(cadence.Optional)
			if !ok {
				break
			}
			inner = o.Value
		}
		if _, isVoid := inner.(cadence.Void); isVoid {
			return true
		}
		// a type value without static type is written as CBOR nil as well
		if tv, isType := inner.(cadence.TypeValue); isType && tv.StaticType == nil {
			return true
		}
		return inner != nil && hasSomeVoid(inner)
	case cadence.Array:
		for _, e := range x.Values {
			if hasSomeVoid(e) {
				return true
			}
		}
	case cadence.Dictionary:
		for _, p := range x.Pairs {
			if hasSomeVoid(p.Key) || hasSomeVoid(p.Value) {
				return true
			}
		}
	case cadence.Composite:
		for _, f := range vgen.FieldValues(x) {
			if hasSomeVoid(f) {
				return true
			}
		}
	}
	return false
}

// hasDuplicateParameterLabels: some parameter list inside a type value has two
// parameters with the same label (predicate of FC9).
func hasDuplicateParameterLabels(v cadence.Value) bool {
	var ts []cadence.Type
	typeValueTypes(v, &ts)
	found := false
	for _, t := range ts {
		vgen.WalkTypes(t, func(x cadence.Type) {
			for _, ps := range vgen.ParameterLists(x) {
				seen := map[string]bool{}
				for _, p := range ps {
					if seen[p.Label] {
						found = true
					}
					seen[p.Label] = true
				}
			}
		})
	}
	return found
}

// fc17StillFails re-runs FC17's repro: [[1] : [Int]] : [[AnyStruct]].
func fc17StillFails() bool {
	inner := cadence.NewArray([]cadence.Value{cadence.NewInt(1)}).WithType(cadence.NewVariableSizedArrayType(cadence.IntType))
	outer := cadence.NewArray([]cadence.Value{inner}).WithType(cadence.NewVariableSizedArrayType(cadence.NewVariableSizedArrayType(cadence.AnyStructType)))
	e := ccfEncodeWith(ccfDefaultEnc, outer)
	return e.err == nil && ccfDecodeWith(ccfDefaultDec, e.bytes).err != nil
}

// ccfCovariantContainer is the predicate of FC17: somewhere below another
// container/composite an array or dictionary value sits in a position whose
// static type is a concrete array/dictionary type (possibly optional / behind a
// reference) that is not Equal to the value's own container type.
func ccfCovariantContainer(v cadence.Value, static cadence.Type) bool {
	peel := func(t cadence.Type) cadence.Type {
		for {
			switch x := t.(type) {
			case *cadence.OptionalType:
				t = x.Type
			case *cadence.ReferenceType:
				t = x.Type
			default:
				return t
			}
		}
	}
	mismatch := func(own cadence.Type) bool {
		if own == nil || static == nil {
			return false
		}
		switch s := peel(static).(type) {
		case cadence.ArrayType:
			return !s.Equal(own)
		case *cadence.DictionaryType:
			return !s.Equal(own)
		}
		return false
	}
	switch x := v.(type) {
	case cadence.Optional:
		if x.Value == nil {
			return false
		}
		st := static
		if o, ok := static.(*cadence.OptionalType); ok {
			st = o.Type
		}
		return ccfCovariantContainer(x.Value, st)
	case cadence.Array:
		if x.ArrayType == nil {
			return false
		}
		if mismatch(x.ArrayType) {
			return true
		}
		for _, e := range x.Values {
			if ccfCovariantContainer(e, x.ArrayType.Element()) {
				return true
			}
		}
	case cadence.Dictionary:
		if x.DictionaryType == nil {
			return false
		}
		if mismatch(x.DictionaryType) {
			return true
		}
		for _, p := range x.Pairs {
			if ccfCovariantContainer(p.Key, x.DictionaryType.KeyType) || ccfCovariantContainer(p.Value, x.DictionaryType.ElementType) {
				return true
			}
		}
	case cadence.Composite:
		fs := vgen.TypeFields(vgen.CompositeTypeOf(x))
		for i, f := range vgen.FieldValues(x) {
			var ft cadence.Type
			if i < len(fs) {
				ft = fs[i].Type
			}
			if ccfCovariantContainer(f, ft) {
				return true
			}
		}
	}
	return false
}

// attachmentBaseCycle: some type value contains an attachment type whose base
// type (transitively) mentions that attachment again (predicate of FC16).
func attachmentBaseCycle(v cadence.Value) bool {
	var ts []cadence.Type
	typeValueTypes(v, &ts)
	found := false
	for _, t := range ts {
		vgen.WalkTypes(t, func(x cadence.Type) {
			at, ok := x.(*cadence.AttachmentType)
			if !ok || at.BaseType == nil {
				return
			}
			vgen.WalkTypes(at.BaseType, func(y cadence.Type) {
				if y == cadence.Type(at) {
					found = true
				}
			})
		})
	}
	return found
}

// typeValueTypes lists the types in type-value positions (type values and
// function values) anywhere in v.
func typeValueTypes(v cadence.Value, out *[]cadence.Type) {
	var all []cadence.Type
	var walk func(v cadence.Value)
	walk = func(v cadence.Value) {
		switch x := v.(type) {
		case cadence.Optional:
			if x.Value != nil {
				walk(x.Value)
			}
		case cadence.Array:
			for _, e := range x.Values {
				walk(e)
			}
		case cadence.Dictionary:
			for _, p := range x.Pairs {
				walk(p.Key)
				walk(p.Value)
			}
		case cadence.Composite:
			for _, f := range vgen.FieldValues(x) {
				walk(f)
			}
		case cadence.TypeValue:
			all = append(all, x.StaticType)
		case cadence.Function:
			if x.FunctionType != nil {
				all = append(all, x.FunctionType)
			}
		}
	}
	walk(v)
	*out = append(*out, all...)
}

func reportC42Known(rec *evid.Rec) c42Known {
	var k c42Known
	if rec.Known("FC8") {
		k.fc8 = true
		e := ccfEncodeWith(ccfDefaultEnc, cadence.NewFunction(cadence.NewFunctionType(cadence.FunctionPurityImpure, nil, nil, cadence.VoidType)))
		rec.ReportKnown("FC8", e.err == nil && ccfDecodeWith(ccfDefaultDec, e.bytes).err != nil)
	}
	if rec.Known("FC9") {
		k.fc9 = true
		ft := cadence.NewFunctionType(cadence.FunctionPurityImpure, nil,
			[]cadence.Parameter{{Identifier: "a", Type: cadence.IntType}, {Identifier: "b", Type: cadence.IntType}}, cadence.VoidType)
		e := ccfEncodeWith(ccfDefaultEnc, cadence.NewTypeValue(ft))
		rec.ReportKnown("FC9", e.err == nil && ccfDecodeWith(ccfDefaultDec, e.bytes).err != nil)
	}
	if rec.Known("FC17") {
		k.fc17 = true
		rec.ReportKnown("FC17", fc17StillFails())
	}
	if rec.Known("FC16") {
		k.fc16 = true
		a := cadence.NewAttachmentType(nil, "PublicKey", nil, nil, nil)
		a.BaseType = cadence.NewStructType(nil, "AccountKey", []cadence.Field{{Identifier: "a", Type: cadence.NewOptionalType(a)}}, nil)
		e := ccfEncodeWith(ccfDefaultEnc, cadence.NewTypeValue(a))
		rec.ReportKnown("FC16", e.err == nil && ccfDecodeWith(ccfDefaultDec, e.bytes).err != nil)
	}
	if rec.Known("FC10") {
		k.fc10 = true
		e := ccfEncodeWith(ccfDefaultEnc, cadence.NewOptional(cadence.NewVoid()))
		d := ccfDecodeWith(ccfDefaultDec, e.bytes)
		rec.ReportKnown("FC10", d.err != nil || vgen.Diff(cadence.NewOptional(cadence.NewVoid()), d.value, ccfEq) != "")
	}
	return k
}

func TestC42(t *testing.T) {
	rec := evid.Start(t, "C42", "rapid: random type universe + fully typed value (depth <= 5, every value kind); (1) round trip with the default, events and deterministic "+
		"encoders against own deep equality incl. static types after explicit CCF erasure (vgen.EraseCCF), dictionaries as sets; (2) deterministic encoder: a random permutation "+
		"(dictionary entries, intersection members, entitlements, declared field order with values following) gives identical bytes and the strict decoder accepts; "+
		"(3) strict decoder rejects the non-sorting encoder's output whenever an own walk finds fields/intersection members/entitlements out of bytewise order, and accepts otherwise; "+
		"CBOR item-tree swaps of two dictionary pairs / typedefs / intersection members / entitlements / typedef fields of the deterministic encoding are rejected by the strict decoder "+
		"(pairs and typedefs by every decoder); (4) byte mutants, CBOR-head mutants (tag numbers, lengths, huge declared lengths) and random bytes decoded under recover with allocation measured. "+
		"Non-trivial: value has a dictionary with >= 2 entries or a type with >= 2 set members / declared fields. Distinct by deterministic encoding / mutant bytes.")
	var maxAlloc uint64
	known := reportC42Known(rec)
	rapid.Check(t, func(rt *rapid.T) {
		g := vgen.New(vgen.FromRapid(rt), vgen.Config{MaxDepth: 4})
		v, _ := g.AnyValue()
		in := vgen.Inspect(v)
		// the top-level static type is the value's own type (that is what the encoder writes)
		if id := known.excluded(v, v.Type(), in); id != "" {
			rec.Excluded(id)
			return
		}
		nontrivial := in.MaxDictEntries >= 2 || in.MaxSetMembers >= 2 || in.MaxFields >= 2
		if in.HasExtraFieldValue {
			// Documented limit of the format (AttachmentFieldNotSupportedEncodingError): composites
			// carrying attachments as extra field values are refused with a user error.
			e := ccfEncodeWith(ccfDefaultEnc, v)
			rec.Case(false, "attachment-field", vgen.Show(v))
			rec.Class("outside-domain/attachment-field-refused-by-encoder")
			if e.panic != nil || e.err == nil {
				rt.Fatalf("C42: a composite with attachment field values must be refused with an error, got %s\nvalue: %s", e, vgen.Show(v))
			}
			return
		}

		// (1) round trips
		_, msg := ccfRoundTrip("default", ccfDefaultEnc, ccfDefaultDec, v, vgen.CCFErasure{})
		if msg == "" {
			_, msg = ccfRoundTrip("events", ccf.EventsEncMode, ccf.EventsDecMode, v, vgen.CCFErasure{})
		}
		var det []byte
		if msg == "" {
			det, msg = ccfRoundTrip("deterministic/strict", ccfDetEnc, ccfStrictDec, v, sortedErasure)
		}
		rec.CaseH(nontrivial, evid.Hash("rt", string(det)))
		classes(rec, "", in)
		if nontrivial && rec.WantSample("roundtrip") {
			rec.Sample("roundtrip", map[string]any{"value": vgen.Show(v), "ccf_deterministic_hex": fmt.Sprintf("%x", det)})
		}
		if msg != "" {
			rt.Fatalf("C42 round trip: %s\nvalue: %s", msg, vgen.Show(v))
		}

		// (2) canonical bytes under permutation
		pv := g.Permute(v)
		if s := vgen.Diff(v, pv, vgen.Eq{UnorderedDicts: true, UnorderedSets: true, UnorderedFields: true}); s != "" {
			rt.Fatalf("harness error: permutation changed the value: %s", s)
		}
		pe := ccfEncodeWith(ccfDetEnc, pv)
		if pe.panic != nil || pe.err != nil {
			rt.Fatalf("C42 canonical: deterministic Encode of the permuted value failed: %s\nvalue: %s", pe, vgen.Show(pv))
		}
		if !bytes.Equal(det, pe.bytes) {
			rt.Fatalf("C42 canonical: deterministic encodings of two permutations of the same value differ:\n%x\n%x\nvalue: %s\npermuted: %s", det, pe.bytes, vgen.Show(v), vgen.Show(pv))
		}
		rec.Class("canonical/permutation-checked")

		// (3a) the non-sorting encoder's output under the strict decoder
		ne := ccfEncodeWith(ccfDefaultEnc, pv)
		if ne.panic != nil || ne.err != nil {
			rt.Fatalf("C42 strict: default Encode of the permuted value failed: %s", ne)
		}
		issues := vgen.OrderIssues(pv)
		sd := ccfDecodeWith(ccfStrictDec, ne.bytes)
		if sd.panic != nil {
			rt.Fatalf("C42 strict: strict Decode panicked: %v", sd.panic)
		}
		if len(issues) > 0 {
			rec.Class("strict/unsorted-input")
			for k := range issues {
				rec.Class("strict/unsorted-" + k)
			}
			if sd.err == nil {
				rt.Fatalf("C42 strict: the strict decoder accepted an encoding with unsorted %v\nencoding: %x\nvalue: %s", keysOf(issues), ne.bytes, vgen.Show(pv))
			}
		} else {
			rec.Class("strict/sorted-input")
			if sd.err != nil {
				rt.Fatalf("C42 strict: the strict decoder rejected an encoding in which every field list / intersection / entitlement set is sorted: %v\nencoding: %x\nvalue: %s", sd.err, ne.bytes, vgen.Show(pv))
			}
			if !bytes.Equal(ne.bytes, det) {
				rt.Fatalf("C42 canonical: the non-sorting encoder and the deterministic encoder differ on an already sorted value:\n%x\n%x", ne.bytes, det)
			}
		}

		// (3b) CBOR-level swaps of the deterministic encoding
		if msg := c42Swaps(rec, g, v, det); msg != "" {
			rt.Fatalf("C42 strict: %s\nvalue: %s", msg, vgen.Show(v))
		}

		// (4) malformed input
		for i := 0; i < 3; i++ {
			var mut []byte
			var label string
			switch i {
			case 0:
				mut, label = mutateBytes(g, det)
			case 1:
				mut, label = mutateCBOR(g, det)
			default:
				if g.S.Intn(4) == 0 {
					n := g.S.Intn(40)
					mut = make([]byte, n)
					for k := range mut {
						mut[k] = byte(g.S.Uint64())
					}
					if n >= 3 && g.S.Intn(2) == 0 {
						mut[0], mut[1], mut[2] = 0xd8, byte(129+g.S.Intn(2)), 0x82
					}
					label = "random"
				} else {
					mut, label = mutateBytes(g, ne.bytes)
				}
			}
			rec.CaseH(!bytes.Equal(mut, det), evid.Hash("mut", string(mut)))
			if rec.WantSample("mutant:"+label) && len(mut) < 200 {
				rec.Sample("mutant:"+label, map[string]any{"mutation": label, "input_hex": fmt.Sprintf("%x", mut)})
			}
			for _, dm := range []struct {
				name string
				m    ccf.DecMode
			}{{"default", ccfDefaultDec}, {"strict", ccfStrictDec}} {
				var o outcome
				a := allocDelta(func() { o = ccfDecodeWith(dm.m, mut) })
				if a > maxAlloc {
					maxAlloc = a
				}
				switch {
				case o.panic != nil:
					rt.Fatalf("C42 robustness: %s Decode panicked on malformed input (%s): %v\ninput: %x", dm.name, label, o.panic, mut)
				case o.err != nil:
					rec.Class("mutant/rejected")
					if wrapsGoRuntimeError(o.err) {
						rt.Fatalf("C42 robustness: %s Decode returned a recovered Go runtime error (%s): %v\ninput: %x", dm.name, label, o.err, mut)
					}
				case o.value == nil:
					// (nil, nil): e.g. d88282d8891830f6 = [AnyStruct-like simple type, nil]. Not a crash,
					// so not judged by C42's statement; recorded and reported as an observation.
					rec.Class("mutant/nil-value-without-error")
					if rec.WantSample("nil-value-without-error") {
						rec.Sample("nil-value-without-error", map[string]any{"input_hex": fmt.Sprintf("%x", mut), "decoder": dm.name})
					}
				default:
					rec.Class("mutant/accepted")
				}
				if a > 1<<30 {
					rt.Fatalf("C42 robustness: %s Decode allocated %d MiB for a %d byte input (%s)\ninput: %x", dm.name, a>>20, len(mut), label, clipHex(mut))
				}
				if a > 64<<20 {
					rec.Class("mutant/alloc>64MiB")
				}
			}
		}
	})
	rec.Extra("max_alloc_bytes_single_decode", maxAlloc)
	if !replaying() {
		rec.RequireClasses(t, "value/Type", "value/Capability", "value/Dictionary", "value/Struct", "value/Enum", "type/Intersection",
			"strict/unsorted-fields", "strict/unsorted-intersection", "strict/unsorted-entitlements", "strict/sorted-input",
			"swap/dict-pairs", "swap/typedefs", "swap/intersection", "swap/entitlements", "swap/fields", "mutant/accepted", "mutant/rejected")
	}
}

func clipHex(b []byte) []byte {
	if len(b) > 600 {
		return b[:600]
	}
	return b
}

func keysOf(m map[string]bool) []string {
	var out []string
	for _, k := range []string{"fields", "intersection", "entitlements"} {
		if m[k] {
			out = append(out, k)
		}
	}
	return out
}
