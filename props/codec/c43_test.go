package codec

import (
	"fmt"
	"testing"

	"github.com/onflow/cadence"
	"pgregory.net/rapid"

	"verif/lib/evid"
	"verif/lib/vgen"
)

// safeTypeID returns v.Type().ID(), or "" when the value carries no complete
// type (JSON-decoded containers) — computing the ID of such a type dereferences nil.
func safeTypeID(v cadence.Value) (id string) {
	defer func() {
		if recover() != nil {
			id = ""
		}
	}()
	if v == nil {
		return ""
	}
	t := v.Type()
	if t == nil {
		return ""
	}
	return t.ID()
}

// sameTypeIDs walks a (JSON side) and b (CCF side) in parallel; wherever the
// JSON side carries a complete type, the IDs must agree.
func sameTypeIDs(path string, a, b cadence.Value) string {
	if a == nil || b == nil {
		return ""
	}
	if ia := safeTypeID(a); ia != "" {
		if ib := safeTypeID(b); ia != ib {
			return fmt.Sprintf("%s: type IDs differ: JSON side %q, CCF side %q", path, ia, ib)
		}
	}
	switch x := a.(type) {
	case cadence.Optional:
		if y, ok := b.(cadence.Optional); ok {
			return sameTypeIDs(path+"?", x.Value, y.Value)
		}
	case cadence.Array:
		if y, ok := b.(cadence.Array); ok && len(x.Values) == len(y.Values) {
			for i := range x.Values {
				if s := sameTypeIDs(fmt.Sprintf("%s[%d]", path, i), x.Values[i], y.Values[i]); s != "" {
					return s
				}
			}
		}
	case cadence.Composite:
		if y, ok := b.(cadence.Composite); ok {
			fa, fb := vgen.FieldValues(x), vgen.FieldValues(y)
			for i := range fa {
				if i < len(fb) {
					if s := sameTypeIDs(fmt.Sprintf("%s.#%d", path, i), fa[i], fb[i]); s != "" {
						return s
					}
				}
			}
		}
	case cadence.Dictionary:
		// entries are matched by the structural comparison; IDs of keys/values are
		// compared there through the erased composite types
	}
	return ""
}

type c43Known struct{ fc5, fc6, fc8, fc10 bool }

func TestC43(t *testing.T) {
	rec := evid.Start(t, "C43", "rapid: fully typed random value (as C41/C42); a = jsonDecode(jsonEncode(v)), b = ccfDecode(ccfEncode(v)) with the default modes; "+
		"EraseJSON(a) and EraseJSON(b) must be structurally equal (dictionaries as sets, since CCF stores them sorted), field order positional, and wherever the JSON side "+
		"carries a complete type the type IDs must agree, recursively. If exactly one codec cannot encode+decode a value the other one round-trips, that is a disagreement "+
		"(violation) unless the value matches the narrow predicate of a listed known finding (FC6, FC8, FC10: excluded and counted); composites with attachment field values are the CCF "+
		"encoder's documented refusal. Dictionary keys are drawn half of the time from pools mixing signs, encoded lengths and path domains (dict/* classes). "+
		"Non-trivial: depth >= 3, a type value/capability/recursive type/composite, or a dictionary with >= 2 entries. Distinct by JSON encoding.")
	var known c43Known
	if rec.Known("FC5") {
		known.fc5 = true
		ty := cadence.NewTypeValue(cadence.NewConstantSizedArrayType(1<<53+1, cadence.IntType))
		a := jsonDecode(jsonEncode(ty).bytes)
		b := ccfDecodeWith(ccfDefaultDec, ccfEncodeWith(ccfDefaultEnc, ty).bytes)
		rec.ReportKnown("FC5", a.err == nil && b.err == nil && vgen.Diff(a.value, b.value, vgen.Eq{}) != "")
	}
	if rec.Known("FC10") {
		known.fc10 = true
		v := cadence.NewOptional(cadence.NewVoid())
		a := jsonDecode(jsonEncode(v).bytes)
		b := ccfDecodeWith(ccfDefaultDec, ccfEncodeWith(ccfDefaultEnc, v).bytes)
		rec.ReportKnown("FC10", a.err == nil && b.err == nil && vgen.Diff(a.value, b.value, vgen.Eq{}) != "")
	}
	known.fc6 = rec.Known("FC6")
	if known.fc6 {
		inner := cadence.NewStructType(nil, "PublicKey", nil, nil)
		outer := cadence.NewStructType(nil, "AccountKey", []cadence.Field{{Identifier: "k", Type: inner}}, [][]cadence.Parameter{{{Identifier: "k", Type: inner}}})
		e := jsonEncode(cadence.NewTypeValue(outer))
		rec.ReportKnown("FC6", e.err == nil && jsonDecode(e.bytes).err != nil)
	}
	known.fc8 = rec.Known("FC8")
	if known.fc8 {
		e := ccfEncodeWith(ccfDefaultEnc, cadence.NewFunction(cadence.NewFunctionType(cadence.FunctionPurityImpure, nil, nil, cadence.VoidType)))
		rec.ReportKnown("FC8", e.err == nil && ccfDecodeWith(ccfDefaultDec, e.bytes).err != nil)
	}
	fc17 := rec.Known("FC17")
	if fc17 {
		rec.ReportKnown("FC17", fc17StillFails())
	}
	eq := vgen.Eq{UnorderedDicts: true}
	rapid.Check(t, func(rt *rapid.T) {
		g := vgen.New(vgen.FromRapid(rt), vgen.Config{MaxDepth: 4})
		v, _ := g.AnyValue()
		in := vgen.Inspect(v)
		if known.fc5 && in.BigConstSize {
			rec.Excluded("FC5")
			return
		}
		if known.fc10 && ccfOptionalAmbiguity(v, v.Type()) {
			rec.Excluded("FC10")
			return
		}
		if known.fc6 && fc6Matches(v) {
			rec.Excluded("FC6")
			return
		}
		if fc17 && ccfCovariantContainer(v, v.Type()) {
			rec.Excluded("FC17")
			return
		}
		if known.fc8 && (in.Kinds["Function"] || in.InlineFunctionType) {
			rec.Excluded("FC8")
			return
		}
		if in.HasExtraFieldValue {
			// composites carrying attachments as extra field values: documented refusal of the CCF encoder
			rec.Case(false, "attachment-field", vgen.Show(v))
			rec.Class("outside-domain/attachment-field-refused-by-ccf-encoder")
			return
		}
		nontrivial := in.Depth >= 3 || in.Kinds["Type"] || in.Kinds["Capability"] || in.RecursiveType || in.MaxFields > 0 || in.MaxDictEntries >= 2
		je := jsonEncode(v)
		ce := ccfEncodeWith(ccfDefaultEnc, v)
		rec.CaseH(nontrivial, evid.Hash(string(je.bytes)))
		classes(rec, "", in)
		// Each codec must get through encode + decode of its own output. If exactly one of them
		// cannot, the two codecs do not "decode to the same value": a disagreement (the listed
		// known findings were excluded above by their predicates). If both fail, nothing can be
		// compared here; that is C41's / C42's violation.
		var a, b outcome
		jsonOK := je.err == nil && je.panic == nil
		if jsonOK {
			a = jsonDecode(je.bytes)
			jsonOK = a.err == nil && a.panic == nil && a.value != nil
		}
		ccfOK := ce.err == nil && ce.panic == nil
		if ccfOK {
			b = ccfDecodeWith(ccfDefaultDec, ce.bytes)
			ccfOK = b.err == nil && b.panic == nil && b.value != nil
		}
		describe := func(e, d outcome) string {
			if e.err != nil || e.panic != nil {
				return "Encode: " + e.String()
			}
			return "Decode of its own encoding: " + d.String()
		}
		switch {
		case !jsonOK && !ccfOK:
			rec.Class("both-codecs-failed")
			return
		case !jsonOK:
			rt.Fatalf("C43: CCF round-trips the value but JSON-CDC fails (%s)\nvalue: %s\njson: %s\nccf: %x", describe(je, a), vgen.Show(v), je.bytes, ce.bytes)
		case !ccfOK:
			rt.Fatalf("C43: JSON-CDC round-trips the value but CCF fails (%s)\nvalue: %s\njson: %s\nccf: %x", describe(ce, b), vgen.Show(v), je.bytes, ce.bytes)
		}
		rec.Class("compared")
		if nontrivial && rec.WantSample("compared") {
			rec.Sample("compared", map[string]any{"value": vgen.Show(v), "json": string(je.bytes), "ccf_hex": fmt.Sprintf("%x", ce.bytes)})
		}
		// Both formats' documented erasures are applied to both sides: CCF does not carry
		// initializers / interface members / enum raw types in value-position types
		// (e.g. a capability's borrow type) although JSON-CDC does.
		ea := vgen.EraseJSON(vgen.EraseCCF(a.value, vgen.CCFErasure{}))
		eb := vgen.EraseJSON(vgen.EraseCCF(b.value, vgen.CCFErasure{}))
		if s := vgen.Diff(ea, eb, eq); s != "" {
			rt.Fatalf("C43: JSON-CDC and CCF decode to different values: %s\nvalue: %s\njson: %s\nccf: %x\njson-decoded: %s\nccf-decoded: %s",
				s, vgen.Show(v), je.bytes, ce.bytes, vgen.Show(a.value), vgen.Show(b.value))
		}
		if s := sameTypeIDs("", a.value, b.value); s != "" {
			rt.Fatalf("C43: %s\nvalue: %s\njson: %s\nccf: %x", s, vgen.Show(v), je.bytes, ce.bytes)
		}
	})
	if !replaying() {
		rec.RequireClasses(t, "compared", "value/Type", "value/Capability", "value/Dictionary", "value/Struct", "value/Enum", "value/InclusiveRange",
			"dict/keys-mixed-sign", "dict/keys-mixed-encoded-length", "dict/path-keys-mixed-domain")
		cmp, both := rec.ClassCount("compared"), rec.ClassCount("both-codecs-failed")
		rec.Extra("compared_fraction", float64(cmp)/float64(cmp+both+1))
		if cmp < 10*both {
			rec.Inconclusive(t, "only %d of %d generated cases could be compared", cmp, cmp+both)
		}
	}
}
