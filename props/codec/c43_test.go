package codec

import (
	"fmt"
	"testing"

	"github.com/onflow/cadence"
	"pgregory.net/rapid"

	"verif/lib/evid"
	"verif/lib/vgen"
)

// safeTypeID returns v.Type().ID(), or "" when the value carries no complete
// type (JSON-decoded containers) — computing the ID of such a type dereferences nil.
func safeTypeID(v cadence.Value) (id string) {
	defer func() {
		if recover() != nil {
			id = ""
		}
	}()
	if v == nil {
		return ""
	}
	t := v.Type()
	if t == nil {
		return ""
	}
	return t.ID()
}

// sameTypeIDs walks a (JSON side) and b (CCF side) in parallel; wherever the
// JSON side carries a complete type, the IDs must agree.
func sameTypeIDs(path string, a, b cadence.Value) string {
	if a == nil || b == nil {
		return ""
	}
	if ia := safeTypeID(a); ia != "" {
		if ib := safeTypeID(b); ia != ib {
			return fmt.Sprintf("%s: type IDs differ: JSON side %q, CCF side %q", path, ia, ib)
		}
	}
	switch x := a.(type) {
	case cadence.Optional:
		if y, ok := b.(cadence.Optional); ok {
			return sameTypeIDs(path+"?", x.Value, y.Value)
		}
	case cadence.Array:
		if y, ok := b.(cadence.Array); ok && len(x.Values) == len(y.Values) {
			for i := range x.Values {
				if s := sameTypeIDs(fmt.Sprintf("%s[%d]", path, i), x.Values[i], y.Values[i]); s != "" {
					return s
				}
			}
		}
	case cadence.Composite:
		if y, ok := b.(cadence.Composite); ok {
			fa, fb := vgen.FieldValues(x), vgen.FieldValues(y)
			for i := range fa {
				if i < len(fb) {
					if s := sameTypeIDs(fmt.Sprintf("%s.#%d", path, i), fa[i], fb[i]); s != "" {
						return s
					}
				}
			}
		}
	case cadence.Dictionary:
		// entries are matched by the structural comparison; IDs of keys/values are
		// compared there through the erased composite types
	}
	return ""
}

type c43Known struct{ fc5, fc10 bool }

func TestC43(t *testing.T) {
	rec := evid.Start(t, "C43", "rapid: fully typed random value (as C41/C42); a = jsonDecode(jsonEncode(v)), b = ccfDecode(ccfEncode(v)) with the default modes; "+
		"EraseJSON(a) and EraseJSON(b) must be structurally equal (dictionaries as sets, since CCF stores them sorted), field order positional, and wherever the JSON side "+
		"carries a complete type the type IDs must agree, recursively. Cases in which one codec cannot decode its own output are not judged here (they are C41/C42 violations) "+
		"and are counted in the skipped/* classes. Non-trivial: depth >= 3 or a type value/capability/recursive type/composite. Distinct by JSON encoding.")
	var known c43Known
	if rec.Known("FC5") {
		known.fc5 = true
		ty := cadence.NewTypeValue(cadence.NewConstantSizedArrayType(1<<53+1, cadence.IntType))
		a := jsonDecode(jsonEncode(ty).bytes)
		b := ccfDecodeWith(ccfDefaultDec, ccfEncodeWith(ccfDefaultEnc, ty).bytes)
		rec.ReportKnown("FC5", a.err == nil && b.err == nil && vgen.Diff(a.value, b.value, vgen.Eq{}) != "")
	}
	if rec.Known("FC10") {
		known.fc10 = true
		v := cadence.NewOptional(cadence.NewVoid())
		a := jsonDecode(jsonEncode(v).bytes)
		b := ccfDecodeWith(ccfDefaultDec, ccfEncodeWith(ccfDefaultEnc, v).bytes)
		rec.ReportKnown("FC10", a.err == nil && b.err == nil && vgen.Diff(a.value, b.value, vgen.Eq{}) != "")
	}
	eq := vgen.Eq{UnorderedDicts: true}
	rapid.Check(t, func(rt *rapid.T) {
		g := vgen.New(vgen.FromRapid(rt), vgen.Config{MaxDepth: 4})
		v, _ := g.AnyValue()
		in := vgen.Inspect(v)
		if known.fc5 && in.BigConstSize {
			rec.Excluded("FC5")
			return
		}
		if known.fc10 && ccfOptionalAmbiguity(v, v.Type()) {
			rec.Excluded("FC10")
			return
		}
		nontrivial := in.Depth >= 3 || in.Kinds["Type"] || in.Kinds["Capability"] || in.RecursiveType || in.MaxFields > 0
		je := jsonEncode(v)
		ce := ccfEncodeWith(ccfDefaultEnc, v)
		rec.CaseH(nontrivial, evid.Hash(string(je.bytes)))
		if je.err != nil || je.panic != nil {
			rec.Class("skipped/json-encode-failed")
			return
		}
		if ce.err != nil || ce.panic != nil {
			rec.Class("skipped/ccf-encode-failed")
			return
		}
		a := jsonDecode(je.bytes)
		b := ccfDecodeWith(ccfDefaultDec, ce.bytes)
		if a.err != nil || a.panic != nil {
			rec.Class("skipped/json-decode-failed")
			return
		}
		if b.err != nil || b.panic != nil {
			rec.Class("skipped/ccf-decode-failed")
			return
		}
		rec.Class("compared")
		classes(rec, "", in)
		if nontrivial && rec.WantSample("compared") {
			rec.Sample("compared", map[string]any{"value": vgen.Show(v), "json": string(je.bytes), "ccf_hex": fmt.Sprintf("%x", ce.bytes)})
		}
		// Both formats' documented erasures are applied to both sides: CCF does not carry
		// initializers / interface members / enum raw types in value-position types
		// (e.g. a capability's borrow type) although JSON-CDC does.
		ea := vgen.EraseJSON(vgen.EraseCCF(a.value, vgen.CCFErasure{}))
		eb := vgen.EraseJSON(vgen.EraseCCF(b.value, vgen.CCFErasure{}))
		if s := vgen.Diff(ea, eb, eq); s != "" {
			rt.Fatalf("C43: JSON-CDC and CCF decode to different values: %s\nvalue: %s\njson: %s\nccf: %x\njson-decoded: %s\nccf-decoded: %s",
				s, vgen.Show(v), je.bytes, ce.bytes, vgen.Show(a.value), vgen.Show(b.value))
		}
		if s := sameTypeIDs("", a.value, b.value); s != "" {
			rt.Fatalf("C43: %s\nvalue: %s\njson: %s\nccf: %x", s, vgen.Show(v), je.bytes, ce.bytes)
		}
	})
	if evid.ReplayFile() == "" {
		rec.RequireClasses(t, "compared", "value/Type", "value/Capability", "value/Dictionary", "value/Struct", "value/Enum", "value/InclusiveRange")
		cmp := rec.ClassCount("compared")
		var skipped int64
		for _, c := range []string{"skipped/json-encode-failed", "skipped/ccf-encode-failed", "skipped/json-decode-failed", "skipped/ccf-decode-failed"} {
			skipped += rec.ClassCount(c)
		}
		rec.Extra("compared_fraction", float64(cmp)/float64(cmp+skipped+1))
		if cmp < 2*skipped {
			rec.Inconclusive(t, "only %d of %d generated cases could be compared", cmp, cmp+skipped)
		}
	}
}
