package codec

import (
	"fmt"
	"math/big"
	"strings"
	"testing"

	"golang.org/x/text/unicode/norm"

	"github.com/onflow/cadence"
	"github.com/onflow/cadence/common"

	"verif/lib/evid"
	"verif/lib/host"
	"verif/lib/vgen"
)

func bigFromString(s string) (*big.Int, bool) { return new(big.Int).SetString(s, 10) }

// nfcValue returns v with every string and character in NFC (the form Cadence
// stores); dictionary entries whose keys coincide after normalisation are merged
// (the later entry wins, as on import).
func nfcValue(v cadence.Value) cadence.Value {
	switch x := v.(type) {
	case cadence.String:
		return cadence.String(norm.NFC.String(string(x)))
	case cadence.Character:
		return cadence.Character(norm.NFC.String(string(x)))
	case cadence.Optional:
		if x.Value == nil {
			return x
		}
		// Cadence has no Some(nil): importing it yields nil
		inner := nfcValue(x.Value)
		if o, ok := inner.(cadence.Optional); ok && o.Value == nil {
			return o
		}
		return cadence.NewOptional(inner)
	case cadence.Array:
		vs := make([]cadence.Value, len(x.Values))
		for i, e := range x.Values {
			vs[i] = nfcValue(e)
		}
		return cadence.Array{ArrayType: x.ArrayType, Values: vs}
	case cadence.Dictionary:
		var ps []cadence.KeyValuePair
		idx := map[string]int{}
		for _, p := range x.Pairs {
			k := nfcValue(p.Key)
			ks := vgen.KeyString(k)
			if i, dup := idx[ks]; dup {
				ps[i].Value = nfcValue(p.Value)
				continue
			}
			idx[ks] = len(ps)
			ps = append(ps, cadence.KeyValuePair{Key: k, Value: nfcValue(p.Value)})
		}
		return cadence.Dictionary{DictionaryType: x.DictionaryType, Pairs: ps}
	case cadence.Struct:
		fs := vgen.FieldValues(x)
		vs := make([]cadence.Value, len(fs))
		for i, f := range fs {
			vs[i] = nfcValue(f)
		}
		return cadence.NewStruct(vs).WithType(x.StructType)
	}
	return v
}

func cadenceAddress(a common.Address) cadence.Address { return cadence.Address(a) }

const c44Contract = `
access(all) contract C {
    access(all) entitlement E
    access(all) entitlement F
    access(all) entitlement mapping M { E -> F }

    access(all) struct interface SI { access(all) let n: Int }

    access(all) struct S: SI {
        access(all) let n: Int
        access(all) let s: String
        access(all) let o: Int?
        init(n: Int, s: String, o: Int?) { self.n = n; self.s = s; self.o = o }
    }

    access(all) struct Nested {
        access(all) let inner: S
        access(all) let list: [S]
        access(all) let byName: {String: S}
        access(all) let any: AnyStruct
        access(all) let color: Color
        init(inner: S, list: [S], byName: {String: S}, any: AnyStruct, color: Color) {
            self.inner = inner; self.list = list; self.byName = byName; self.any = any; self.color = color
        }
    }

    access(all) enum Color: UInt8 {
        access(all) case red
        access(all) case green
        access(all) case blue
    }

    access(all) resource interface RI { access(all) let id: UInt64 }

    access(all) resource R: RI {
        access(all) let id: UInt64
        access(all) var kids: @[R]
        access(all) var byName: @{String: R}
        access(all) var note: String?
        init(id: UInt64) { self.id = id; self.kids <- []; self.byName <- {}; self.note = nil }
        access(all) fun add(_ r: @R) { self.kids.append(<- r) }
        access(all) fun put(_ k: String, _ r: @R) { let old <- self.byName[k] <- r; destroy old }
        access(all) fun setNote(_ s: String) { self.note = s }
    }

    access(all) attachment A for R {
        access(all) let tag: String
        access(all) let weights: [UFix64]
        init(tag: String) { self.tag = tag; self.weights = [1.0, 0.00000001] }
    }

    access(all) fun createR(_ id: UInt64): @R { return <- create R(id: id) }

    init() {}
}`

var c44Transactions = []string{
	// numbers of every family at interesting values, text, addresses, paths, types
	`import C from 0x1
transaction {
    prepare(a: auth(Storage) &Account) {
        a.storage.save(42, to: /storage/int)
        a.storage.save(-170141183460469231731687303715884105728 as Int128, to: /storage/int128min)
        a.storage.save(115792089237316195423570985008687907853269984665640564039457584007913129639935 as UInt256, to: /storage/uint256max)
        a.storage.save(123456789012345678901234567890123456789012345678901234567890 as Int, to: /storage/bigint)
        a.storage.save(255 as UInt8, to: /storage/uint8)
        a.storage.save(-128 as Int8, to: /storage/int8)
        a.storage.save(65535 as Word16, to: /storage/word16)
        a.storage.save(18446744073709551615 as Word64, to: /storage/word64)
        a.storage.save(340282366920938463463374607431768211455 as Word128, to: /storage/word128)
        a.storage.save(-92233720368.54775808 as Fix64, to: /storage/fix64min)
        a.storage.save(184467440737.09551615 as UFix64, to: /storage/ufix64max)
        a.storage.save(1.5 as Fix128, to: /storage/fix128)
        a.storage.save(0.000000000000000000000001 as UFix128, to: /storage/ufix128)
        a.storage.save("h\u{e9}llo \u{1F46A}", to: /storage/str)
        a.storage.save("", to: /storage/emptystr)
        var long = ""
        var i = 0
        while i < 200 { long = long.concat("0123456789"); i = i + 1 }
        a.storage.save(long, to: /storage/longstr)
        a.storage.save("\u{e9}" as Character, to: /storage/char)
        a.storage.save(true, to: /storage/bool)
        a.storage.save(0x0102030405060708 as Address, to: /storage/address)
        a.storage.save(/public/foo, to: /storage/publicPath)
        a.storage.save(/storage/bar, to: /storage/storagePath)
        a.storage.save(Type<auth(C.E, C.F) &C.R>(), to: /storage/typeAuthRef)
        a.storage.save(Type<auth(C.E | C.F) &{C.RI}>(), to: /storage/typeDisjRef)
        a.storage.save(Type<Capability<&{C.SI}>>(), to: /storage/typeCap)
        a.storage.save(Type<{String: [C.S?]}>(), to: /storage/typeDict)
        a.storage.save(Type<[Int; 3]>(), to: /storage/typeConst)
        a.storage.save(Type<InclusiveRange<UInt8>>(), to: /storage/typeRange)
        a.storage.save(Type<C.Color>(), to: /storage/typeEnum)
        a.storage.save(Type<@C.R>(), to: /storage/typeRes)
    }
}`,
	// containers and composites
	`import C from 0x1
transaction {
    prepare(a: auth(Storage) &Account) {
        a.storage.save([1, 2, 3], to: /storage/arr)
        a.storage.save([[1], [2, 3], []] as [[Int]], to: /storage/arr2)
        a.storage.save([1, 2] as [UInt8; 2], to: /storage/constArr)
        a.storage.save([] as [String], to: /storage/emptyArr)
        a.storage.save({"a": 1, "b": 2, "c": 3}, to: /storage/dict)
        a.storage.save({1: ["x", "y"], 2: []} as {Int: [String]}, to: /storage/dictOfArr)
        a.storage.save({} as {Address: Bool}, to: /storage/emptyDict)
        var big: {Int: String} = {}
        var i = 0
        while i < 300 { big[i * 7] = i.toString(); i = i + 1 }
        a.storage.save(big, to: /storage/bigDict)
        var bigArr: [UInt64] = []
        i = 0
        while i < 500 { bigArr.append(UInt64(i) * 1000003); i = i + 1 }
        a.storage.save(bigArr, to: /storage/bigArr)
        let s = C.S(n: 1, s: "one", o: nil)
        a.storage.save(s, to: /storage/s)
        a.storage.save(C.S(n: -5, s: "", o: 7), to: /storage/s2)
        a.storage.save(C.Nested(inner: s, list: [s, C.S(n: 2, s: "two", o: 2)], byName: {"k": s}, any: [1, "mixed", true, nil] as [AnyStruct?], color: C.Color.green), to: /storage/nested)
        a.storage.save(C.Color.blue, to: /storage/color)
        a.storage.save([C.Color.red, C.Color.blue], to: /storage/colors)
        a.storage.save({C.Color.red: "r", C.Color.green: "g"}, to: /storage/byColor)
        a.storage.save(5 as Int?, to: /storage/someInt)
        a.storage.save([1, nil, 3] as [Int?], to: /storage/optArr)
        a.storage.save({"x": nil, "y": 1} as {String: Int?}, to: /storage/optDict)
        a.storage.save([1 as Int8, "s", 1.0, 0x1 as Address, /public/p, Type<Int>()] as [AnyStruct], to: /storage/anyArr)
    }
}`,
	// resources, nested resources, attachments
	`import C from 0x1
transaction {
    prepare(a: auth(Storage) &Account) {
        let r <- C.createR(1)
        r.add(<- C.createR(2))
        r.add(<- C.createR(3))
        r.put("four", <- C.createR(4))
        r.setNote("top")
        a.storage.save(<- r, to: /storage/r)
        let withA <- attach C.A(tag: "tagged") to <- C.createR(9)
        a.storage.save(<- withA, to: /storage/attached)
        let rs: @[C.R] <- [<- C.createR(10), <- C.createR(11)]
        a.storage.save(<- rs, to: /storage/resArr)
        let rd: @{String: C.R} <- {"a": <- C.createR(12)}
        a.storage.save(<- rd, to: /storage/resDict)
        let opt: @C.R? <- C.createR(13)
        a.storage.save(<- opt, to: /storage/optRes)
    }
}`,
	// capabilities, controllers, inbox
	`import C from 0x1
transaction {
    prepare(a: auth(Storage, Capabilities, Inbox) &Account) {
        let cap = a.capabilities.storage.issue<&C.R>(/storage/r)
        a.capabilities.publish(cap, at: /public/r)
        let authCap = a.capabilities.storage.issue<auth(C.E) &C.R>(/storage/r)
        a.storage.save(authCap, to: /storage/authCap)
        let siCap = a.capabilities.storage.issue<&{C.SI}>(/storage/s)
        a.capabilities.publish(siCap, at: /public/s)
        a.storage.save([cap, cap], to: /storage/capArr)
        let acctCap = a.capabilities.account.issue<auth(Storage) &Account>()
        a.storage.save(acctCap, to: /storage/acctCap)
        let gift = a.capabilities.storage.issue<&C.R>(/storage/attached)
        a.inbox.publish(gift, name: "gift", recipient: 0x2)
        let ctrl = a.capabilities.storage.getController(byCapabilityID: cap.id)!
        ctrl.setTag("tagged-controller")
    }
}`,
}

// buildSnapshotLedger runs the snapshot history on a fresh host.
func buildSnapshotLedger(t *testing.T) *host.Host {
	h := host.New()
	if r := h.Deploy(host.Addr(1), "C", c44Contract, host.Interp); r.Err != nil || r.Panic != nil {
		t.Fatalf("deploy failed: %v %v", r.Err, r.Panic)
	}
	for i, tx := range c44Transactions {
		// account 1 holds everything; account 3 gets a copy of the plain-value transactions
		signers := []common.Address{host.Addr(1)}
		if r := h.Tx(tx, nil, signers, host.Options{Engine: host.Interp}); r.Err != nil || r.Panic != nil {
			t.Fatalf("snapshot transaction %d failed: %v %v", i, r.Err, r.Panic)
		}
	}
	if r := h.Tx(c44Transactions[1], nil, []common.Address{host.Addr(3)}, host.Options{Engine: host.VM}); r.Err != nil || r.Panic != nil {
		t.Fatalf("snapshot transaction on account 3 (VM) failed: %v %v", r.Err, r.Panic)
	}
	return h
}

// c44LedgerRoundTrip stores a generated container/composite value through a
// transaction (one engine), commits, checks the ledger's health, reads the value
// back in a separate execution (other engine: a fresh runtime.Storage decodes the
// registers) and compares it with what was stored.
func c44LedgerRoundTrip(rec *evid.Rec, base *host.Host, g *vgen.G) string {
	var pt *vgen.PType
	for {
		pt = g.ParamType(2)
		// (capabilities are not importable as arguments, ranges are not storable)
		if !strings.Contains(pt.Syntax(), "Capability") && !strings.Contains(pt.Syntax(), "InclusiveRange") {
			break
		}
	}
	v := g.ArgValue(pt, 3)
	if s := vgen.Conforms(v, pt); s != "" {
		return "harness error: generated value does not conform: " + s
	}
	writer, reader := host.Interp, host.VM
	if g.S.Intn(2) == 0 {
		writer, reader = host.VM, host.Interp
	}
	h := base.Fork()
	tx := fmt.Sprintf(`import C from 0x1
transaction(x: %s) { prepare(a: auth(Storage) &Account) { a.storage.save([x], to: /storage/v) } }`, pt.Syntax())
	res := h.Tx(tx, host.Args(v), []common.Address{host.Addr(1)}, host.Options{Engine: writer})
	in := vgen.Inspect(v)
	rec.Case(in.Depth >= 2, "ledger", pt.Syntax(), vgen.Show(v))
	rec.Class("ledger/" + pt.K)
	if res.Err != nil || res.Panic != nil {
		if ok, _ := argumentRejected(res.Err); ok {
			rec.Class("ledger/argument-rejected")
			return ""
		}
		if res.Err != nil && in.Kinds["InclusiveRange"] && strings.Contains(res.Err.Error(), "non-storable") {
			rec.Class("ledger/non-storable-range-below-AnyStruct")
			return ""
		}
		return fmt.Sprintf("saving %s failed: %v %v", vgen.Show(v), res.Err, res.Panic)
	}
	if _, err := host.Health(h.Ledger, false); err != nil {
		return fmt.Sprintf("ledger unhealthy after saving %s: %v", vgen.Show(v), err)
	}
	script := fmt.Sprintf(`import C from 0x1
access(all) fun main(): AnyStruct {
    return getAuthAccount<auth(Storage) &Account>(0x1).storage.copy<[%s]>(from: /storage/v)
}`, pt.Syntax())
	out := h.Script(script, nil, host.Options{Engine: reader})
	if out.Err != nil || out.Panic != nil {
		return fmt.Sprintf("loading %s back failed: %v %v", vgen.Show(v), out.Err, out.Panic)
	}
	// the value travels inside a one-element array (a top-level nil would not be stored at all)
	var got cadence.Optional
	if o, ok := out.Value.(cadence.Optional); ok {
		if arr, ok := o.Value.(cadence.Array); ok && len(arr.Values) == 1 {
			got = cadence.NewOptional(arr.Values[0])
		}
	}
	if got.Value == nil {
		return fmt.Sprintf("stored value of type %s not found: %s", pt.Syntax(), vgen.Show(out.Value))
	}
	v = nfcValue(v) // strings are stored in NFC
	if s := vgen.Conforms(got.Value, pt); s != "" && !strings.Contains(s, "has no case") {
		return fmt.Sprintf("value read back does not conform to %s: %s", pt.Syntax(), s)
	}
	if s := vgen.Diff(v, nfcValue(got.Value), vgen.Eq{UnorderedDicts: true, IgnoreValueTypes: true}); s != "" {
		return fmt.Sprintf("value read back differs from the stored one: %s\nstored: %s\n  read: %s", s, vgen.Show(v), vgen.Show(got.Value))
	}
	rec.Class("ledger/compared")
	return ""
}
