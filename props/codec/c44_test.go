package codec

import (
	"bufio"
	"bytes"
	"encoding/hex"
	"encoding/json"
	"fmt"
	"math"
	"os"
	"path/filepath"
	"sort"
	"strings"
	"testing"

	"github.com/onflow/atree"
	"pgregory.net/rapid"

	"github.com/onflow/cadence/common"
	"github.com/onflow/cadence/interpreter"
	"github.com/onflow/cadence/runtime"

	"verif/lib/evid"
	"verif/lib/host"
	"verif/lib/oracle"
	"verif/lib/vgen"
)

// ---- storable encode / decode (the level cadence's own storage layer uses) ---------------------

var c44Owner = atree.Address{0, 0, 0, 0, 0, 0, 0, 0x42}

type storableOutcome struct {
	bytes []byte
	value interpreter.Value
	err   error
	panic any
}

func encodeStorableValue(v interpreter.Value) (o storableOutcome) {
	defer func() {
		if r := recover(); r != nil {
			o.panic = r
		}
	}()
	storage := interpreter.NewInMemoryStorage(nil, nil)
	st, err := v.Storable(storage, c44Owner, math.MaxUint32)
	if err != nil {
		o.err = err
		return
	}
	var buf bytes.Buffer
	enc := atree.NewEncoder(&buf, interpreter.CBOREncMode)
	if err := st.Encode(enc); err != nil {
		o.err = err
		return
	}
	if err := enc.CBOR.Flush(); err != nil {
		o.err = err
		return
	}
	o.bytes = buf.Bytes()
	return
}

func decodeStorableBytes(b []byte) (o storableOutcome) {
	defer func() {
		if r := recover(); r != nil {
			o.panic = r
		}
	}()
	dec := interpreter.CBORDecMode.NewByteStreamDecoder(b)
	st, err := interpreter.DecodeStorable(dec, atree.SlabID{}, nil, nil)
	if err != nil {
		o.err = err
		return
	}
	if n := dec.NumBytesDecoded(); n != len(b) {
		o.err = fmt.Errorf("decoded %d of %d bytes", n, len(b))
		return
	}
	storage := interpreter.NewInMemoryStorage(nil, nil)
	sv, err := st.StoredValue(storage)
	if err != nil {
		o.err = err
		return
	}
	v, err := interpreter.ConvertStoredValue(nil, sv)
	if err != nil {
		o.err = err
		return
	}
	o.value = v
	return
}

type typeOutcome struct {
	bytes []byte
	typ   interpreter.StaticType
	err   error
	panic any
}

func encodeStaticType(t interpreter.StaticType) (o typeOutcome) {
	defer func() {
		if r := recover(); r != nil {
			o.panic = r
		}
	}()
	b, err := interpreter.StaticTypeToBytes(t)
	o.bytes, o.err = []byte(b), err
	return
}

func decodeStaticType(b []byte) (o typeOutcome) {
	defer func() {
		if r := recover(); r != nil {
			o.panic = r
		}
	}()
	o.typ, o.err = interpreter.StaticTypeFromBytes(b)
	return
}

// checkValueRecipe: build, encode, decode, compare through recipes, re-encode.
// golden is the committed encoding (nil for fresh recipes).
func checkValueRecipe(r *vgen.ValRecipe, golden []byte) (enc []byte, msg string) {
	v := vgen.BuildValue(r)
	e := encodeStorableValue(v)
	if e.panic != nil || e.err != nil {
		return nil, fmt.Sprintf("encoding failed: err=%v panic=%v", e.err, e.panic)
	}
	want := vgen.Canon(vgen.NormalizeRecipe(r))
	if golden != nil && !bytes.Equal(e.bytes, golden) {
		return e.bytes, fmt.Sprintf("encoding changed: the pinned version wrote %x, the current tree writes %x", golden, e.bytes)
	}
	for _, src := range [][]byte{e.bytes, golden} {
		if src == nil {
			continue
		}
		d := decodeStorableBytes(src)
		if d.panic != nil || d.err != nil {
			return e.bytes, fmt.Sprintf("decoding %x failed: err=%v panic=%v", src, d.err, d.panic)
		}
		if got := vgen.Canon(vgen.ExtractValue(d.value)); got != want {
			return e.bytes, fmt.Sprintf("decoded value differs:\n got %s\nwant %s\nbytes %x", got, want, src)
		}
		re := encodeStorableValue(d.value)
		if re.panic != nil || re.err != nil || !bytes.Equal(re.bytes, src) {
			return e.bytes, fmt.Sprintf("re-encoding the decoded value gives %x (err=%v panic=%v), want %x", re.bytes, re.err, re.panic, src)
		}
		// cadence's own equality, where the value is equatable
		// (a type value without a type is deliberately never Equal to anything)
		if eq, ok := v.(interpreter.EquatableValue); ok && !strings.Contains(want, `{"k":"type"}`) {
			func() {
				defer func() {
					if p := recover(); p != nil {
						msg = fmt.Sprintf("Equal panicked: %v", p)
					}
				}()
				inter, err := interpreter.NewInterpreter(nil, common.StringLocation("verif"), &interpreter.Config{Storage: interpreter.NewInMemoryStorage(nil, nil)})
				if err != nil {
					panic(err)
				}
				if !eq.Equal(inter, d.value) {
					msg = fmt.Sprintf("the decoded value is not Equal to the original: %s vs %s", d.value, v)
				}
			}()
			if msg != "" {
				return e.bytes, msg
			}
		}
	}
	return e.bytes, ""
}

func checkTypeRecipe(r *vgen.TypeRecipe, golden []byte) (enc []byte, msg string) {
	t := vgen.BuildType(r)
	e := encodeStaticType(t)
	if e.panic != nil || e.err != nil {
		return nil, fmt.Sprintf("StaticTypeToBytes failed: err=%v panic=%v", e.err, e.panic)
	}
	want := vgen.Canon(r)
	if golden != nil && !bytes.Equal(e.bytes, golden) {
		return e.bytes, fmt.Sprintf("type encoding changed: the pinned version wrote %x, the current tree writes %x", golden, e.bytes)
	}
	for _, src := range [][]byte{e.bytes, golden} {
		if src == nil {
			continue
		}
		d := decodeStaticType(src)
		if d.panic != nil || d.err != nil {
			return e.bytes, fmt.Sprintf("StaticTypeFromBytes(%x) failed: err=%v panic=%v", src, d.err, d.panic)
		}
		if got := vgen.Canon(vgen.ExtractType(d.typ)); got != want {
			return e.bytes, fmt.Sprintf("decoded type differs:\n got %s\nwant %s\nbytes %x", got, want, src)
		}
		// cadence's own Equal / ID (ID() is undefined for the internal "inaccessible" authorization)
		if !strings.Contains(want, `"inaccessible"`) && (!d.typ.Equal(t) || d.typ.ID() != t.ID()) {
			return e.bytes, fmt.Sprintf("decoded type %s is not Equal / has another ID than %s", d.typ.ID(), t.ID())
		}
		re := encodeStaticType(d.typ)
		if re.err != nil || re.panic != nil || !bytes.Equal(re.bytes, src) {
			return e.bytes, fmt.Sprintf("re-encoding the decoded type gives %x, want %x", re.bytes, src)
		}
	}
	return e.bytes, ""
}

// ---- golden corpus ---------------------------------------------------------------------------------

func corpusDir() string { return filepath.Join(evid.Root(), "corpus", "c44") }

type corpusValue struct {
	Recipe *vgen.ValRecipe `json:"recipe"`
	Hex    string          `json:"hex"`
}

type corpusType struct {
	Recipe *vgen.TypeRecipe `json:"recipe"`
	Hex    string           `json:"hex"`
}

// systematicRecipes: the enumerated part of the corpus (every numeric type at its
// bounds, every primitive static type, every location / authorization / path
// domain / value kind).
func systematicRecipes() (vals []*vgen.ValRecipe, types []*vgen.TypeRecipe) {
	for _, t := range oracle.Types {
		seen := map[string]bool{}
		cands := t.Pool()
		sort.Slice(cands, func(i, j int) bool { return cands[i].Cmp(cands[j]) < 0 })
		pick := []int{0, 1, len(cands) / 2, len(cands) - 2, len(cands) - 1}
		for _, i := range pick {
			if i < 0 || i >= len(cands) {
				continue
			}
			s := cands[i].String()
			if !seen[s] {
				seen[s] = true
				vals = append(vals, &vgen.ValRecipe{K: "num", T: t.Name, V: s})
			}
		}
		for _, s := range []string{"0", "1", "-1", "255", "256", "65535", "65536", "4294967296", "-129"} {
			if v, ok := bigFromString(s); ok && t.Fits(v) && !seen[s] {
				seen[s] = true
				vals = append(vals, &vgen.ValRecipe{K: "num", T: t.Name, V: s})
			}
		}
	}
	for _, name := range vgen.PrimitiveNames() {
		types = append(types, &vgen.TypeRecipe{K: "prim", Name: name})
	}
	addr := "0000000000000001"
	locs := []*vgen.LocRecipe{
		{K: "addr", Addr: addr, Name: "C"}, {K: "addr", Addr: "ffffffffffffffff", Name: "Token"}, {K: "addr", Addr: "0000000000000000", Name: "C"},
		{K: "str", Name: "test"}, {K: "id", Name: "lib"}, {K: "tx", Hex: strings.Repeat("ab", 32)}, {K: "script", Hex: strings.Repeat("01", 32)}, nil, // (REPL locations are not storable: EncodeLocation refuses them)
	}
	for _, l := range locs {
		qid := "S"
		if l != nil && l.K == "addr" {
			qid = l.Name + ".S"
		}
		types = append(types, &vgen.TypeRecipe{K: "comp", Loc: l, QID: qid}, &vgen.TypeRecipe{K: "iface", Loc: l, QID: qid + "I"},
			&vgen.TypeRecipe{K: "comp", Loc: l, QID: qid + ".Inner.Deep"})
	}
	intT := &vgen.TypeRecipe{K: "prim", Name: "Int"}
	strT := &vgen.TypeRecipe{K: "prim", Name: "String"}
	s := &vgen.TypeRecipe{K: "comp", Loc: locs[0], QID: "C.S"}
	i1 := &vgen.TypeRecipe{K: "iface", Loc: locs[0], QID: "C.I"}
	i2 := &vgen.TypeRecipe{K: "iface", Loc: locs[1], QID: "Token.Receiver"}
	auths := []*vgen.AuthRecipe{
		{K: "unauth"}, {K: "inaccessible"}, {K: "map", ID: "A.0000000000000001.C.M"}, {K: "map", ID: "Identity"},
		{K: "conj", Ents: []string{"A.0000000000000001.C.E"}}, {K: "conj", Ents: []string{"A.0000000000000001.C.E", "A.0000000000000001.C.F"}},
		{K: "conj", Ents: []string{"A.0000000000000001.C.F", "A.0000000000000001.C.E"}},
		{K: "disj", Ents: []string{"A.0000000000000001.C.E", "A.0000000000000001.C.F"}}, {K: "disj", Ents: []string{"Mutate", "Insert", "Remove"}},
		{K: "conj", Ents: []string{"Storage"}},
	}
	types = append(types,
		&vgen.TypeRecipe{K: "opt", Elem: intT}, &vgen.TypeRecipe{K: "opt", Elem: &vgen.TypeRecipe{K: "opt", Elem: s}},
		&vgen.TypeRecipe{K: "varr", Elem: strT}, &vgen.TypeRecipe{K: "varr", Elem: &vgen.TypeRecipe{K: "varr", Elem: s}},
		&vgen.TypeRecipe{K: "dict", Key: strT, Elem: intT}, &vgen.TypeRecipe{K: "dict", Key: intT, Elem: &vgen.TypeRecipe{K: "varr", Elem: s}},
		&vgen.TypeRecipe{K: "range", Elem: intT}, &vgen.TypeRecipe{K: "range", Elem: &vgen.TypeRecipe{K: "prim", Name: "UInt8"}},
		&vgen.TypeRecipe{K: "inter", Types: []*vgen.TypeRecipe{i1}}, &vgen.TypeRecipe{K: "inter", Types: []*vgen.TypeRecipe{i1, i2}},
		&vgen.TypeRecipe{K: "inter", Types: []*vgen.TypeRecipe{i2, i1}},
		&vgen.TypeRecipe{K: "cap"}, &vgen.TypeRecipe{K: "cap", Elem: &vgen.TypeRecipe{K: "ref", Auth: auths[0], Elem: s}},
	)
	for _, n := range []int64{0, 1, 23, 24, 255, 256, 65535, 65536, 1 << 32, math.MaxInt64} {
		types = append(types, &vgen.TypeRecipe{K: "carr", Elem: intT, Size: n})
	}
	for _, a := range auths {
		types = append(types, &vgen.TypeRecipe{K: "ref", Auth: a, Elem: s},
			&vgen.TypeRecipe{K: "ref", Auth: a, Elem: &vgen.TypeRecipe{K: "inter", Types: []*vgen.TypeRecipe{i1, i2}}})
	}
	// values
	for _, b := range []string{"true", "false"} {
		vals = append(vals, &vgen.ValRecipe{K: "bool", V: b})
	}
	for _, str := range []string{"", "a", "hello", "é", "é", "👪", "\x00", strings.Repeat("x", 23), strings.Repeat("x", 24), strings.Repeat("y", 255), strings.Repeat("z", 256), strings.Repeat("long ", 400)} {
		vals = append(vals, &vgen.ValRecipe{K: "string", V: str})
	}
	for _, c := range []string{"a", "é", "é", "👨‍👩‍👧‍👦", "\r\n", "\x00"} {
		vals = append(vals, &vgen.ValRecipe{K: "char", V: c})
	}
	for _, a := range []string{"0000000000000000", "0000000000000001", "ffffffffffffffff", "0102030405060708", "0000000000000100"} {
		vals = append(vals, &vgen.ValRecipe{K: "address", Addr: a})
	}
	for _, d := range []string{"storage", "public", "private"} {
		for _, id := range []string{"a", "flowTokenVault", "", "é"} {
			vals = append(vals, &vgen.ValRecipe{K: "path", T: d, V: id})
		}
	}
	vals = append(vals, &vgen.ValRecipe{K: "nil"}, &vgen.ValRecipe{K: "void"}, &vgen.ValRecipe{K: "type"})
	for _, t := range types {
		vals = append(vals, &vgen.ValRecipe{K: "type", Type: t})
	}
	ref := func(a *vgen.AuthRecipe) *vgen.TypeRecipe { return &vgen.TypeRecipe{K: "ref", Auth: a, Elem: s} }
	path := &vgen.ValRecipe{K: "path", T: "storage", V: "vault"}
	for k, a := range auths {
		if a.K == "inaccessible" {
			continue
		}
		id := []uint64{0, 1, 23, 24, 255, 256, 65536, 1 << 32, math.MaxUint64, 7}[k%10]
		vals = append(vals,
			&vgen.ValRecipe{K: "cap", ID: id, Addr: addr, Type: ref(a)},
			&vgen.ValRecipe{K: "scc", ID: id, Type: ref(a), Path: path},
			&vgen.ValRecipe{K: "acc", ID: id, Type: ref(a)},
			&vgen.ValRecipe{K: "published", Addr: "0000000000000002", Inner: &vgen.ValRecipe{K: "cap", ID: id, Addr: addr, Type: ref(a)}},
		)
	}
	// (ID capabilities always carry a borrow type; it need not be a reference type)
	vals = append(vals, &vgen.ValRecipe{K: "cap", ID: 4, Addr: addr, Type: intT})
	inner := []*vgen.ValRecipe{{K: "num", T: "Int", V: "1"}, {K: "string", V: "s"}, {K: "nil"}, path, {K: "type", Type: s}, {K: "cap", ID: 1, Addr: addr, Type: ref(auths[5])}, {K: "bool", V: "true"}, {K: "address", Addr: addr}, {K: "num", T: "UFix64", V: "100000000"}}
	for _, in := range inner {
		v := in
		for level := 1; level <= 3; level++ {
			v = &vgen.ValRecipe{K: "some", Inner: v}
			vals = append(vals, v)
		}
	}
	return
}

func readJSONL[T any](path string) ([]T, error) {
	f, err := os.Open(path)
	if err != nil {
		return nil, err
	}
	defer f.Close()
	var out []T
	sc := bufio.NewScanner(f)
	sc.Buffer(make([]byte, 1<<20), 1<<24)
	for sc.Scan() {
		if len(bytes.TrimSpace(sc.Bytes())) == 0 {
			continue
		}
		var x T
		if err := json.Unmarshal(sc.Bytes(), &x); err != nil {
			return nil, err
		}
		out = append(out, x)
	}
	return out, sc.Err()
}

// ---- ledger snapshot -----------------------------------------------------------------------------------

type ledgerSnapshot struct {
	Registers [][3]string       `json:"registers"` // owner hex, key hex, value hex
	Indices   map[string]uint64 `json:"indices"`   // owner hex -> last slab index
	Code      map[string]string `json:"code"`      // "address.name" -> source
	UUID      uint64            `json:"uuid"`
}

func snapshotOf(h *host.Host) ledgerSnapshot {
	s := ledgerSnapshot{Indices: map[string]uint64{}, Code: map[string]string{}, UUID: h.UUID}
	for _, k := range h.Ledger.SortedKeys() {
		ow, key := host.SplitRegKey(k)
		s.Registers = append(s.Registers, [3]string{hex.EncodeToString([]byte(ow)), hex.EncodeToString([]byte(key)), hex.EncodeToString(h.Ledger.Values[k])})
	}
	for o, i := range h.Ledger.Indices {
		s.Indices[hex.EncodeToString([]byte(o))] = i
	}
	for k, c := range h.Code {
		s.Code[k] = string(c)
	}
	return s
}

func (s ledgerSnapshot) host() *host.Host {
	h := host.New()
	for _, r := range s.Registers {
		ow, _ := hex.DecodeString(r[0])
		key, _ := hex.DecodeString(r[1])
		val, _ := hex.DecodeString(r[2])
		h.Ledger.Values[host.RegKey(ow, key)] = val
	}
	for o, i := range s.Indices {
		ob, _ := hex.DecodeString(o)
		h.Ledger.Indices[string(ob)] = i
	}
	for k, c := range s.Code {
		h.Code[k] = []byte(c)
	}
	h.UUID = s.UUID
	return h
}

const c44ExportScript = `
access(all) fun main(addr: Address): [AnyStruct] {
    let acct = getAuthAccount<auth(Storage) &Account>(addr)
    var out: [AnyStruct] = []
    acct.storage.forEachStored(fun (path: StoragePath, type: Type): Bool {
        out.append(path)
        out.append(type)
        if type.isSubtype(of: Type<AnyStruct>()) {
            out.append(acct.storage.copy<AnyStruct>(from: path))
        } else {
            out.append(acct.storage.borrow<&AnyResource>(from: path))
        }
        return true
    })
    return out
}`

// exportSnapshot renders every stored value of the ledger: the storage domain
// through a script (path, type, JSON-CDC export of the value), every domain
// through a direct walk of the domain storage maps (recipes for the storable
// kinds, a marker for containers/composites which the script part covers).
func exportSnapshot(h *host.Host, eng host.Engine) ([]string, error) {
	var lines []string
	var owners []common.Address
	for _, k := range h.Ledger.SortedKeys() {
		ow, key := host.SplitRegKey(k)
		if key == runtime.AccountStorageKey {
			var a common.Address
			copy(a[:], ow)
			owners = append(owners, a)
		}
	}
	ro := host.NewROLedger(h.Ledger)
	storage := runtime.NewStorage(ro, nil, nil, runtime.StorageConfig{})
	inter, err := interpreter.NewInterpreter(nil, common.StringLocation("verif-c44"), &interpreter.Config{Storage: storage})
	if err != nil {
		return nil, err
	}
	for _, a := range owners {
		for _, d := range common.AllStorageDomains {
			m := storage.GetDomainStorageMap(inter, a, d, false)
			if m == nil {
				continue
			}
			it := m.Iterator()
			var dl []string
			for {
				k, v := it.Next(nil)
				if k == nil {
					break
				}
				r := vgen.ExtractValue(v)
				s := vgen.Canon(r)
				if strings.HasPrefix(r.K, "unknown:") {
					s = fmt.Sprintf("<%T>", v)
				}
				dl = append(dl, fmt.Sprintf("walk %s/%s/%v = %s", a.Hex(), d.Identifier(), k, s))
			}
			sort.Strings(dl)
			lines = append(lines, dl...)
		}
		f := h.Fork()
		res := f.Script(c44ExportScript, host.Args(cadenceAddress(a)), host.Options{Engine: eng})
		if res.Err != nil || res.Panic != nil {
			return lines, fmt.Errorf("export script failed for %s: err=%v panic=%v", a.Hex(), res.Err, res.Panic)
		}
		lines = append(lines, fmt.Sprintf("script %s = %s", a.Hex(), strings.TrimSpace(host.ExportJSON(res.Value))))
	}
	if ro.Writes != 0 || ro.Allocs != 0 {
		return lines, fmt.Errorf("loading the snapshot wrote to the ledger (%d writes, %d allocations)", ro.Writes, ro.Allocs)
	}
	return lines, nil
}

// ---- the property ------------------------------------------------------------------------------------------

func TestC44(t *testing.T) {
	rec := evid.Start(t, "C44", "(i) rapid: storable value recipes (all 27 numeric kinds at boundary pools, strings/characters incl. long ones, addresses, paths, ID capabilities, "+
		"storage/account capability controllers, published values, some-values nested 1-3, type values over every static-type kind with every authorization form and location kind) and "+
		"static type recipes: build -> storable Encode -> DecodeStorable -> StoredValue, compared through an independent recipe extraction, re-encoding byte-equal, cadence Equal; "+
		"StaticTypeToBytes/FromBytes likewise. (ii) golden corpus /verif/corpus/c44 written once by the pinned tree: for every (recipe, hex) pair encode(build(recipe)) == hex and "+
		"decode(hex) extracts to the recipe; the committed ledger snapshot (registers + contract code) is loaded with the current tree: whole-ledger health check, every stored value "+
		"walked/exported (JSON-CDC through a script on both engines, recipes for the non-path domains) and compared with the committed text; (iii) small save/load histories through the ledger. "+
		"Non-trivial: recipe nests >= 2 kinds or uses a static type with authorization/intersection/location. Distinct by recipe.")

	// (ii) golden corpus first: it is the part that detects silent format changes
	vals, err := readJSONL[corpusValue](filepath.Join(corpusDir(), "storables.jsonl"))
	if err != nil {
		rec.Inconclusive(t, "golden corpus missing: %v", err)
	}
	types, err := readJSONL[corpusType](filepath.Join(corpusDir(), "types.jsonl"))
	if err != nil {
		rec.Inconclusive(t, "golden corpus missing: %v", err)
	}
	if len(vals) < 300 || len(types) < 150 {
		rec.Inconclusive(t, "golden corpus too small: %d values, %d types", len(vals), len(types))
	}
	for _, c := range vals {
		golden, _ := hex.DecodeString(c.Hex)
		feats := map[string]bool{}
		vgen.ValRecipeFeatures(c.Recipe, feats)
		rec.Case(len(feats) >= 2, "corpus", vgen.Canon(c.Recipe))
		rec.Class("corpus/value/" + c.Recipe.K)
		if _, msg := checkValueRecipe(c.Recipe, golden); msg != "" {
			rec.Violation(t, map[string]any{"recipe": c.Recipe, "hex": c.Hex}, "golden corpus value %s: %s", vgen.Canon(c.Recipe), msg)
		}
	}
	for _, c := range types {
		golden, _ := hex.DecodeString(c.Hex)
		rec.Case(c.Recipe.K != "prim", "corpus-type", vgen.Canon(c.Recipe))
		rec.Class("corpus/type/" + c.Recipe.K)
		if _, msg := checkTypeRecipe(c.Recipe, golden); msg != "" {
			rec.Violation(t, map[string]any{"type_recipe": c.Recipe, "hex": c.Hex}, "golden corpus type %s: %s", vgen.Canon(c.Recipe), msg)
		}
	}
	rec.Extra("corpus_values", len(vals))
	rec.Extra("corpus_types", len(types))

	// ledger snapshot
	snapBytes, err := os.ReadFile(filepath.Join(corpusDir(), "ledger.json"))
	if err != nil {
		rec.Inconclusive(t, "ledger snapshot missing: %v", err)
	}
	var snap ledgerSnapshot
	if err := json.Unmarshal(snapBytes, &snap); err != nil {
		rec.Inconclusive(t, "ledger snapshot unreadable: %v", err)
	}
	wantBytes, err := os.ReadFile(filepath.Join(corpusDir(), "ledger_export.txt"))
	if err != nil {
		rec.Inconclusive(t, "ledger export missing: %v", err)
	}
	want := strings.Split(strings.TrimRight(string(wantBytes), "\n"), "\n")
	for _, eng := range host.Engines {
		h := snap.host()
		rep, herr := host.Health(h.Ledger, false)
		if herr != nil {
			rec.Violation(t, map[string]any{"snapshot": "ledger.json"}, "the committed ledger snapshot fails the storage health check with the current tree: %v", herr)
		}
		got, xerr := exportSnapshot(h, eng)
		if xerr != nil {
			rec.Violation(t, map[string]any{"snapshot": "ledger.json", "engine": eng.String()}, "the committed ledger snapshot cannot be exported with the current tree: %v", xerr)
		}
		rec.Case(true, "snapshot", eng.String())
		rec.Class("snapshot/" + eng.String())
		rec.Extra("snapshot_stored_values", rep.StoredValues)
		rec.Extra("snapshot_slab_registers", rep.SlabRegisters)
		if len(got) != len(want) {
			rec.Violation(t, map[string]any{"engine": eng.String(), "got": got}, "snapshot export has %d lines, the committed export has %d", len(got), len(want))
		}
		for i := range got {
			if got[i] != want[i] {
				rec.Violation(t, map[string]any{"engine": eng.String(), "line": i, "got": got[i], "want": want[i]},
					"bytes written by the pinned version now decode to a different value (%s):\n got %s\nwant %s", eng, got[i], want[i])
			}
		}
	}

	// (i) fresh random recipes, (iii) containers/composites through the ledger
	base := c29Host(t)
	rapid.Check(t, func(rt *rapid.T) {
		g := &vgen.G{S: vgen.FromRapid(rt), Cfg: vgen.Config{MaxDepth: 3}}
		if g.S.Intn(5) == 0 {
			if msg := c44LedgerRoundTrip(rec, base, g); msg != "" {
				rt.Fatalf("C44 ledger round trip: %s", msg)
			}
			return
		}
		if g.S.Intn(3) == 0 {
			r := g.TypeRecipe(3)
			feats := map[string]bool{}
			vgen.TypeRecipeFeatures(r, feats)
			for _, f := range vgen.SortedKeys(feats) {
				rec.Class("random/" + f)
			}
			enc, msg := checkTypeRecipe(r, nil)
			rec.Case(r.K != "prim", "type", vgen.Canon(r))
			if rec.WantSample("type:" + r.K) {
				rec.Sample("type:"+r.K, map[string]any{"type_recipe": r, "hex": hex.EncodeToString(enc)})
			}
			if msg != "" {
				rt.Fatalf("C44 static type %s: %s", vgen.Canon(r), msg)
			}
			return
		}
		r := g.ValRecipe(3)
		feats := map[string]bool{}
		vgen.ValRecipeFeatures(r, feats)
		for _, f := range vgen.SortedKeys(feats) {
			rec.Class("random/" + f)
		}
		enc, msg := checkValueRecipe(r, nil)
		rec.Case(len(feats) >= 2, "value", vgen.Canon(r))
		if rec.WantSample("value:"+r.K) && len(enc) < 300 {
			rec.Sample("value:"+r.K, map[string]any{"recipe": r, "hex": hex.EncodeToString(enc)})
		}
		if msg != "" {
			rt.Fatalf("C44 storable %s: %s", vgen.Canon(r), msg)
		}
	})
}

// TestC44Regen writes the golden corpus from the current tree. It is run once,
// on the pinned tree (VERIF_REGEN=1); the files are committed.
func TestC44Regen(t *testing.T) {
	if os.Getenv("VERIF_REGEN") != "1" {
		t.Skip("set VERIF_REGEN=1 to rewrite /verif/corpus/c44 (only on the pinned tree)")
	}
	if err := os.MkdirAll(corpusDir(), 0o755); err != nil {
		t.Fatal(err)
	}
	vals, types := systematicRecipes()
	g := &vgen.G{S: vgen.FromRand(evid.Rand(4444)), Cfg: vgen.Config{MaxDepth: 3}}
	for i := 0; i < 220; i++ {
		vals = append(vals, g.ValRecipe(3))
	}
	for i := 0; i < 120; i++ {
		types = append(types, g.TypeRecipe(3))
	}
	var vb, tb bytes.Buffer
	seen := map[string]bool{}
	for _, r := range vals {
		k := vgen.Canon(r)
		if seen[k] {
			continue
		}
		seen[k] = true
		enc, msg := checkValueRecipe(r, nil)
		if msg != "" {
			t.Fatalf("recipe %s does not round-trip on this tree: %s", k, msg)
		}
		line, _ := json.Marshal(corpusValue{Recipe: r, Hex: hex.EncodeToString(enc)})
		vb.Write(line)
		vb.WriteByte('\n')
	}
	for _, r := range types {
		k := "t" + vgen.Canon(r)
		if seen[k] {
			continue
		}
		seen[k] = true
		enc, msg := checkTypeRecipe(r, nil)
		if msg != "" {
			t.Fatalf("type recipe %s does not round-trip on this tree: %s", k, msg)
		}
		line, _ := json.Marshal(corpusType{Recipe: r, Hex: hex.EncodeToString(enc)})
		tb.Write(line)
		tb.WriteByte('\n')
	}
	must := func(err error) {
		if err != nil {
			t.Fatal(err)
		}
	}
	must(os.WriteFile(filepath.Join(corpusDir(), "storables.jsonl"), vb.Bytes(), 0o644))
	must(os.WriteFile(filepath.Join(corpusDir(), "types.jsonl"), tb.Bytes(), 0o644))

	h := buildSnapshotLedger(t)
	if _, err := host.Health(h.Ledger, false); err != nil {
		t.Fatalf("snapshot ledger unhealthy: %v", err)
	}
	snap := snapshotOf(h)
	sb, _ := json.MarshalIndent(snap, "", " ")
	must(os.WriteFile(filepath.Join(corpusDir(), "ledger.json"), sb, 0o644))
	lines, err := exportSnapshot(snap.host(), host.Interp)
	must(err)
	vm, err := exportSnapshot(snap.host(), host.VM)
	must(err)
	if strings.Join(lines, "\n") != strings.Join(vm, "\n") {
		t.Fatalf("interpreter and VM export the snapshot differently")
	}
	must(os.WriteFile(filepath.Join(corpusDir(), "ledger_export.txt"), []byte(strings.Join(lines, "\n")+"\n"), 0o644))
	t.Logf("wrote %d values, %d types, %d registers, %d export lines", len(vals), len(types), len(snap.Registers), len(lines))
}
