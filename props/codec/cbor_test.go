package codec

import (
	"encoding/binary"
	"errors"
)

// A minimal well-formed-CBOR item tree (definite lengths only, which is all the
// CCF encoder emits). Heads are kept as raw bytes so that serialising an
// unmodified tree reproduces the input exactly; the harness needs it to swap
// items of an encoding without going through cadence's or the cbor library's
// encoder.

type cnode struct {
	major   byte
	arg     uint64
	head    []byte   // initial byte + argument bytes
	payload []byte   // byte/text string content
	kids    []*cnode // array items, map keys/values (alternating), tag content
}

var errCBOR = errors.New("cbor: malformed or unsupported (indefinite length) item")

func parseCBOR(b []byte, depth int) (*cnode, []byte, error) {
	if len(b) == 0 || depth > 400 {
		return nil, nil, errCBOR
	}
	ib := b[0]
	major, ai := ib>>5, ib&0x1f
	n := &cnode{major: major}
	hl := 1
	switch {
	case ai < 24:
		n.arg = uint64(ai)
	case ai == 24:
		hl = 2
	case ai == 25:
		hl = 3
	case ai == 26:
		hl = 5
	case ai == 27:
		hl = 9
	default:
		return nil, nil, errCBOR // 28-30 reserved, 31 indefinite/break
	}
	if len(b) < hl {
		return nil, nil, errCBOR
	}
	switch hl {
	case 2:
		n.arg = uint64(b[1])
	case 3:
		n.arg = uint64(binary.BigEndian.Uint16(b[1:]))
	case 5:
		n.arg = uint64(binary.BigEndian.Uint32(b[1:]))
	case 9:
		n.arg = binary.BigEndian.Uint64(b[1:])
	}
	n.head = append([]byte(nil), b[:hl]...)
	rest := b[hl:]
	switch major {
	case 0, 1, 7:
		return n, rest, nil
	case 2, 3:
		if n.arg > uint64(len(rest)) {
			return nil, nil, errCBOR
		}
		n.payload = append([]byte(nil), rest[:n.arg]...)
		return n, rest[n.arg:], nil
	case 4, 5, 6:
		count := n.arg
		if major == 5 {
			count *= 2
		}
		if major == 6 {
			count = 1
		}
		if count > uint64(len(rest)) {
			return nil, nil, errCBOR
		}
		for i := uint64(0); i < count; i++ {
			k, r, err := parseCBOR(rest, depth+1)
			if err != nil {
				return nil, nil, err
			}
			n.kids = append(n.kids, k)
			rest = r
		}
		return n, rest, nil
	}
	return nil, nil, errCBOR
}

func parseCBORWhole(b []byte) (*cnode, error) {
	n, rest, err := parseCBOR(b, 0)
	if err != nil {
		return nil, err
	}
	if len(rest) != 0 {
		return nil, errCBOR
	}
	return n, nil
}

func (n *cnode) appendTo(out []byte) []byte {
	out = append(out, n.head...)
	out = append(out, n.payload...)
	for _, k := range n.kids {
		out = k.appendTo(out)
	}
	return out
}

func (n *cnode) bytes() []byte { return n.appendTo(nil) }

// cborHead builds the shortest head.
func cborHead(major byte, arg uint64) []byte {
	m := major << 5
	switch {
	case arg < 24:
		return []byte{m | byte(arg)}
	case arg <= 0xff:
		return []byte{m | 24, byte(arg)}
	case arg <= 0xffff:
		b := []byte{m | 25, 0, 0}
		binary.BigEndian.PutUint16(b[1:], uint16(arg))
		return b
	case arg <= 0xffffffff:
		b := []byte{m | 26, 0, 0, 0, 0}
		binary.BigEndian.PutUint32(b[1:], uint32(arg))
		return b
	}
	b := []byte{m | 27, 0, 0, 0, 0, 0, 0, 0, 0}
	binary.BigEndian.PutUint64(b[1:], arg)
	return b
}

func (n *cnode) isTag(num uint64) bool { return n.major == 6 && n.arg == num }

func (n *cnode) walk(f func(*cnode)) {
	f(n)
	for _, k := range n.kids {
		k.walk(f)
	}
}

func (n *cnode) equalBytes(o *cnode) bool { return string(n.bytes()) == string(o.bytes()) }
