package codec

import (
	"bytes"
	"fmt"
	"strings"

	"github.com/onflow/cadence"
	"github.com/onflow/cadence/encoding/ccf"

	"verif/lib/evid"
	"verif/lib/vgen"
)

// CCF tag numbers used by the swaps (from the CCF specification's CDDL).
const (
	tagTypeDefAndValue  = 129
	tagTypeAndValue     = 130
	tagTypeRef          = 136
	tagIntersection     = 143
	tagEntitlementSet   = 146
	tagIntersectionTV   = 191
	tagEntitlementSetTV = 195
	tagFirstComposite   = 160 // struct, resource, event, contract, enum, attachment
	tagLastComposite    = 165
)

var allCCFDecoders = []struct {
	name string
	m    ccf.DecMode
}{{"default", ccfDefaultDec}, {"strict", ccfStrictDec}, {"events", ccf.EventsDecMode}}

// pickTwo returns indices i<j of two items with different bytes, or ok=false.
func pickTwo(g *vgen.G, items []*cnode, stride int) (int, int, bool) {
	n := len(items) / stride
	if n < 2 {
		return 0, 0, false
	}
	for try := 0; try < 6; try++ {
		i, j := g.S.Intn(n), g.S.Intn(n)
		if i == j {
			continue
		}
		if i > j {
			i, j = j, i
		}
		if !items[i*stride].equalBytes(items[j*stride]) {
			return i, j, true
		}
	}
	return 0, 0, false
}

func swapKids(n *cnode, i, j, stride int) {
	for k := 0; k < stride; k++ {
		n.kids[i*stride+k], n.kids[j*stride+k] = n.kids[j*stride+k], n.kids[i*stride+k]
	}
}

// mustReject decodes b with the given decoders; every one must return an error.
func mustReject(what string, b []byte, decs ...int) string {
	for _, k := range decs {
		d := allCCFDecoders[k]
		o := ccfDecodeWith(d.m, b)
		if o.panic != nil {
			return fmt.Sprintf("%s: %s decoder panicked: %v\nencoding: %x", what, d.name, o.panic, b)
		}
		if o.err == nil {
			return fmt.Sprintf("%s: the %s decoder accepted the out-of-order encoding\nencoding: %x\ndecoded: %s", what, d.name, b, vgen.Show(o.value))
		}
	}
	return ""
}

// c42Swaps builds out-of-order variants of the deterministic encoding det of v
// on the CBOR item tree and checks who must reject them.
func c42Swaps(rec *evid.Rec, g *vgen.G, v cadence.Value, det []byte) string {
	root, err := parseCBORWhole(det)
	if err != nil {
		return fmt.Sprintf("the deterministic encoding is not well-formed definite-length CBOR: %x", det)
	}
	if !bytes.Equal(root.bytes(), det) {
		return "harness error: CBOR tree does not reserialise to the input"
	}
	if len(root.kids) != 1 || len(root.kids[0].kids) != 2 {
		return fmt.Sprintf("unexpected top-level CCF message shape: %x", det)
	}
	reparse := func() *cnode { r, _ := parseCBORWhole(det); return r }

	// (a) dictionary pairs (top-level dictionary value)
	if dv, ok := v.(cadence.Dictionary); ok && len(dv.Pairs) >= 2 {
		r := reparse()
		msg := r.kids[0]
		if r.isTag(tagTypeDefAndValue) {
			msg = msg.kids[1]
		}
		val := msg.kids[1]
		if val.major == 4 && len(val.kids) == 2*len(dv.Pairs) {
			if i, j, ok := pickTwo(g, val.kids, 2); ok {
				swapKids(val, i, j, 2)
				rec.Class("swap/dict-pairs")
				rec.Evals(1)
				if s := mustReject("two dictionary entries swapped", r.bytes(), 0, 1, 2); s != "" {
					return s
				}
			}
		}
	}

	// (b) type definitions (ids kept equal to the index, references renamed)
	if root.isTag(tagTypeDefAndValue) {
		r := reparse()
		defs := r.kids[0].kids[0]
		if defs.major == 4 && len(defs.kids) >= 2 {
			if i, j, ok := pickTwo(g, defs.kids, 1); ok {
				di, dj := defs.kids[i], defs.kids[j]
				if len(di.kids) == 1 && len(dj.kids) == 1 && len(di.kids[0].kids) >= 2 && len(dj.kids[0].kids) >= 2 {
					idI, idJ := di.kids[0].kids[0], dj.kids[0].kids[0]
					pi, pj := string(idI.payload), string(idJ.payload)
					// rename references first (the id fields themselves are bstr without tag 136)
					r.walk(func(n *cnode) {
						if n.isTag(tagTypeRef) && len(n.kids) == 1 && n.kids[0].major == 2 {
							switch string(n.kids[0].payload) {
							case pi:
								n.kids[0] = &cnode{major: 2, arg: uint64(len(pj)), head: cborHead(2, uint64(len(pj))), payload: []byte(pj)}
							case pj:
								n.kids[0] = &cnode{major: 2, arg: uint64(len(pi)), head: cborHead(2, uint64(len(pi))), payload: []byte(pi)}
							}
						}
					})
					di.kids[0].kids[0], dj.kids[0].kids[0] = idJ, idI
					defs.kids[i], defs.kids[j] = dj, di
					rec.Class("swap/typedefs")
					rec.Evals(1)
					if s := mustReject("two type definitions swapped (ids and references renamed consistently)", r.bytes(), 0, 1, 2); s != "" {
						return s
					}
				}
			}
		}
	}

	// (c) intersection members, (d) entitlements, (e) typedef fields: one random site each
	type site struct {
		list   *cnode
		stride int
	}
	collect := func(r *cnode, match func(n *cnode) *cnode) []site {
		var out []site
		r.walk(func(n *cnode) {
			if l := match(n); l != nil && l.major == 4 && len(l.kids) >= 2 {
				out = append(out, site{l, 1})
			}
		})
		return out
	}
	setEq := vgen.Eq{UnorderedDicts: true, UnorderedSets: true}
	for _, kind := range []string{"intersection", "entitlements", "fields"} {
		r := reparse()
		var sites []site
		switch kind {
		case "intersection":
			sites = collect(r, func(n *cnode) *cnode {
				// the implementation writes #6.143([+ inline-type]) (one array)
				if (n.isTag(tagIntersection) || n.isTag(tagIntersectionTV)) && len(n.kids) == 1 {
					return n.kids[0]
				}
				return nil
			})
		case "entitlements":
			sites = collect(r, func(n *cnode) *cnode {
				if (n.isTag(tagEntitlementSet) || n.isTag(tagEntitlementSetTV)) && len(n.kids) == 1 && len(n.kids[0].kids) == 2 {
					return n.kids[0].kids[1]
				}
				return nil
			})
		case "fields":
			if !r.isTag(tagTypeDefAndValue) {
				continue
			}
			for _, def := range r.kids[0].kids[0].kids {
				if def.major == 6 && def.arg >= tagFirstComposite && def.arg <= tagLastComposite && len(def.kids) == 1 && len(def.kids[0].kids) == 3 {
					if l := def.kids[0].kids[2]; l.major == 4 && len(l.kids) >= 2 {
						sites = append(sites, site{l, 1})
					}
				}
			}
		}
		if len(sites) == 0 {
			continue
		}
		s := sites[g.S.Intn(len(sites))]
		i, j, ok := pickTwo(g, s.list.kids, 1)
		if !ok {
			continue
		}
		if kind == "intersection" && !swapTypeValueIDs(r, s.list.kids[i], s.list.kids[j]) {
			continue
		}
		swapKids(s.list, i, j, 1)
		b := r.bytes()
		rec.Class("swap/" + kind)
		rec.Evals(1)
		if msg := mustReject("two "+kind+" swapped", b, 1); msg != "" {
			return msg
		}
		if kind != "fields" {
			// the lenient decoder must accept the same bytes and see the same value
			o := ccfDecodeWith(ccfDefaultDec, b)
			if o.panic != nil || o.err != nil {
				return fmt.Sprintf("two %s swapped: the default (non-enforcing) decoder failed: %s\nencoding: %x", kind, o, b)
			}
			if d := vgen.Diff(vgen.EraseCCF(v, sortedErasure), o.value, setEq); d != "" {
				return fmt.Sprintf("two %s swapped: the default decoder sees a different value: %s\nencoding: %x", kind, d, b)
			}
		}
	}
	return ""
}

const (
	tagTypeValueRef    = 184
	tagFirstNominalTV  = 208 // composite type values 208-213
	tagLastNominalTV   = 213
	tagFirstInterfaceT = 224 // interface type values 224-226
	tagLastInterfaceT  = 226
)

func isNominalTypeValue(n *cnode) bool {
	return n.major == 6 && (n.arg >= tagFirstNominalTV && n.arg <= tagLastNominalTV || n.arg >= tagFirstInterfaceT && n.arg <= tagLastInterfaceT)
}

// swapTypeValueIDs prepares the swap of two intersection members a, b. Members
// of an inline intersection are references to type definitions and can be
// swapped freely. Inside a type value, nominal types carry ids that must equal
// their traversal position, so the ids of the two members are exchanged as
// well; that is only done in the simple case (each member is one nominal type
// without nested nominal types, nothing refers to their ids). false = skip site.
func swapTypeValueIDs(root, a, b *cnode) bool {
	na, nb := isNominalTypeValue(a), isNominalTypeValue(b)
	if !na && !nb {
		return !(a.isTag(tagTypeValueRef) || b.isTag(tagTypeValueRef)) || (a.isTag(tagTypeValueRef) && b.isTag(tagTypeValueRef))
	}
	if !na || !nb {
		return false
	}
	count := func(n *cnode) int {
		c := 0
		n.walk(func(x *cnode) {
			if isNominalTypeValue(x) {
				c++
			}
		})
		return c
	}
	if count(a) != 1 || count(b) != 1 || len(a.kids) != 1 || len(b.kids) != 1 || len(a.kids[0].kids) < 2 || len(b.kids[0].kids) < 2 {
		return false
	}
	ia, ib := a.kids[0].kids[0], b.kids[0].kids[0]
	if ia.major != 2 || ib.major != 2 {
		return false
	}
	referenced := false
	root.walk(func(x *cnode) {
		if x.isTag(tagTypeValueRef) && len(x.kids) == 1 && (string(x.kids[0].payload) == string(ia.payload) || string(x.kids[0].payload) == string(ib.payload)) {
			referenced = true
		}
	})
	if referenced {
		return false
	}
	a.kids[0].kids[0], b.kids[0].kids[0] = ib, ia
	return true
}

// mutateCBOR changes heads / structure of the item tree.
func mutateCBOR(g *vgen.G, enc []byte) ([]byte, string) {
	root, err := parseCBORWhole(enc)
	if err != nil {
		return mutateBytes(g, enc)
	}
	var nodes []*cnode
	root.walk(func(n *cnode) { nodes = append(nodes, n) })
	var labels []string
	for k := 0; k < 1+g.S.Intn(2); k++ {
		n := nodes[g.S.Intn(len(nodes))]
		huge := []uint64{1 << 16, 1<<24 + 1, 1<<32 - 1, 1 << 32, 1 << 40, 1<<63 - 1, 1 << 63, ^uint64(0), 19_999_999, 20_000_000, 20_000_001}
		switch g.S.Intn(9) {
		case 0: // tag number
			if n.major == 6 {
				n.head = cborHead(6, uint64(120+g.S.Intn(120)))
				labels = append(labels, "tag-number")
			}
		case 1: // declared length off by a little
			if n.major >= 2 && n.major <= 5 {
				d := uint64(1 + g.S.Intn(3))
				if g.S.Intn(2) == 0 && n.arg >= d {
					n.head = cborHead(n.major, n.arg-d)
				} else {
					n.head = cborHead(n.major, n.arg+d)
				}
				labels = append(labels, "length±")
			}
		case 2: // huge declared length
			if n.major >= 2 && n.major <= 5 {
				n.head = cborHead(n.major, huge[g.S.Intn(len(huge))])
				labels = append(labels, "length-huge")
			}
		case 3: // change the major type, keep the argument
			n.head = cborHead(byte(g.S.Intn(8)), n.arg)
			labels = append(labels, "major")
		case 4: // integer / simple argument
			if n.major <= 1 || n.major == 7 {
				n.head = cborHead(n.major, huge[g.S.Intn(len(huge))])
				labels = append(labels, "argument")
			}
		case 5: // swap two children
			if len(n.kids) >= 2 {
				i, j := g.S.Intn(len(n.kids)), g.S.Intn(len(n.kids))
				n.kids[i], n.kids[j] = n.kids[j], n.kids[i]
				labels = append(labels, "swap-children")
			}
		case 6: // drop a child, head unchanged
			if len(n.kids) >= 1 {
				i := g.S.Intn(len(n.kids))
				n.kids = append(n.kids[:i:i], n.kids[i+1:]...)
				labels = append(labels, "drop-child")
			}
		case 7: // replace a child by another node of the tree
			if len(n.kids) >= 1 {
				n.kids[g.S.Intn(len(n.kids))] = nodes[g.S.Intn(len(nodes))]
				labels = append(labels, "graft")
			}
		default: // non-canonical (longer) head
			if n.arg < 24 {
				n.head = []byte{n.major<<5 | 24, byte(n.arg)}
				labels = append(labels, "non-canonical-head")
			}
		}
	}
	if len(labels) == 0 {
		return mutateBytes(g, enc)
	}
	out := safeBytes(root)
	if len(out) > 1<<20 {
		out = out[:1<<20]
	}
	return out, "cbor:" + strings.Join(labels, ",")
}

// safeBytes serialises a tree that may have become cyclic/huge through grafting.
func safeBytes(n *cnode) []byte {
	var out []byte
	var rec func(n *cnode, depth int)
	rec = func(n *cnode, depth int) {
		if depth > 64 || len(out) > 1<<20 {
			return
		}
		out = append(out, n.head...)
		out = append(out, n.payload...)
		for _, k := range n.kids {
			rec(k, depth+1)
		}
	}
	rec(n, 0)
	return out
}
