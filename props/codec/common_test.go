package codec

import (
	"errors"
	"fmt"
	goRuntime "runtime"
	"sort"
	"strings"

	"github.com/onflow/cadence"
	"github.com/onflow/cadence/encoding/ccf"
	jsoncdc "github.com/onflow/cadence/encoding/json"

	"verif/lib/evid"
	"verif/lib/vgen"
)

// outcome of one guarded codec call.
type outcome struct {
	value cadence.Value
	bytes []byte
	err   error
	panic any // escaped Go panic (nil = none)
}

func (o outcome) String() string {
	switch {
	case o.panic != nil:
		return fmt.Sprintf("PANIC %T: %v", o.panic, o.panic)
	case o.err != nil:
		return "error: " + o.err.Error()
	case o.value != nil:
		return "value " + vgen.Show(o.value)
	default:
		return fmt.Sprintf("%d bytes", len(o.bytes))
	}
}

func guard(f func() (cadence.Value, []byte, error)) (o outcome) {
	defer func() {
		if r := recover(); r != nil {
			o.panic = r
		}
	}()
	o.value, o.bytes, o.err = f()
	return
}

func jsonEncode(v cadence.Value) outcome {
	return guard(func() (cadence.Value, []byte, error) { b, err := jsoncdc.Encode(v); return nil, b, err })
}

func jsonDecode(b []byte) outcome {
	return guard(func() (cadence.Value, []byte, error) { v, err := jsoncdc.Decode(nil, b); return v, nil, err })
}

func ccfEncodeWith(em ccf.EncMode, v cadence.Value) outcome {
	return guard(func() (cadence.Value, []byte, error) { b, err := em.Encode(v); return nil, b, err })
}

func ccfDecodeWith(dm ccf.DecMode, b []byte) outcome {
	return guard(func() (cadence.Value, []byte, error) { v, err := dm.Decode(nil, b); return v, nil, err })
}

// wrapsGoRuntimeError reports whether err carries a recovered Go runtime error
// (nil dereference, index out of range, ...).
func wrapsGoRuntimeError(err error) bool {
	var re goRuntime.Error
	if errors.As(err, &re) {
		return true
	}
	if err == nil {
		return false
	}
	s := err.Error()
	return strings.Contains(s, "runtime error:") || strings.Contains(s, "invalid memory address")
}

// classes records the value/type kinds of a case in the class histogram.
func classes(rec *evid.Rec, prefix string, in *vgen.Info) {
	for _, k := range in.KindList() {
		rec.Class(prefix + "value/" + k)
	}
	tk := make([]string, 0, len(in.TypeKinds))
	for k := range in.TypeKinds {
		tk = append(tk, k)
	}
	sort.Strings(tk)
	for _, k := range tk {
		rec.Class(prefix + "type/" + k)
	}
	if in.RecursiveType {
		rec.Class(prefix + "type/recursive")
	}
	if in.DictMixedSignKeys {
		rec.Class(prefix + "dict/keys-mixed-sign")
	}
	if in.DictMixedLengthKeys {
		rec.Class(prefix + "dict/keys-mixed-encoded-length")
	}
	if in.DictMixedPathDomains {
		rec.Class(prefix + "dict/path-keys-mixed-domain")
	}
	d := in.Depth
	if d > 6 {
		d = 6
	}
	rec.Class(fmt.Sprintf("%sdepth/%d", prefix, d))
}

// typeAPIEqual checks cadence's own Type.Equal / ID on two types that the
// harness' structural comparison already found equal.
func typeAPIEqual(a, b cadence.Type) string {
	an, bn := a == nil, b == nil
	if an || bn {
		return ""
	}
	if a.ID() != b.ID() {
		return fmt.Sprintf("type IDs differ: %s vs %s", a.ID(), b.ID())
	}
	if !a.Equal(b) || !b.Equal(a) {
		return fmt.Sprintf("Type.Equal is false for structurally equal types %s", a.ID())
	}
	return ""
}

// embeddedTypes lists the types carried by type values, capabilities and
// function values anywhere in v, in traversal order.
func embeddedTypes(v cadence.Value, out *[]cadence.Type) {
	switch x := v.(type) {
	case nil:
	case cadence.Optional:
		embeddedTypes(x.Value, out)
	case cadence.Array:
		for _, e := range x.Values {
			embeddedTypes(e, out)
		}
	case cadence.Dictionary:
		for _, p := range x.Pairs {
			embeddedTypes(p.Key, out)
			embeddedTypes(p.Value, out)
		}
	case *cadence.InclusiveRange:
	case cadence.Composite:
		for _, f := range vgen.FieldValues(x) {
			embeddedTypes(f, out)
		}
	case cadence.TypeValue:
		*out = append(*out, x.StaticType)
	case cadence.Capability:
		*out = append(*out, x.BorrowType)
	case cadence.Function:
		if x.FunctionType != nil {
			*out = append(*out, x.FunctionType)
		} else {
			*out = append(*out, nil)
		}
	}
}
