package codec

import (
	"github.com/onflow/cadence"

	"verif/lib/vgen"
)

// Predicate of known finding FC6 (JSON type encoding): the encoder replaces the
// second and later occurrences of a nominal type (by pointer) with its type-ID
// string, visiting a nominal type's fields before its initializers; the decoder
// reads the initializers first and registers the type only afterwards. An
// ID-string reference inside initializers (or an enum raw type / attachment base
// type) to a type that is registered later is therefore undecodable.
//
// The predicate models exactly that: it lays out what the encoder emits
// (full / reference nodes, in encoder order) and replays it in decoder order.

type tnode struct {
	full     cadence.Type // nominal type emitted in full (nil otherwise)
	ref      cadence.Type // nominal type emitted as an ID string
	fields   []*tnode
	inits    []*tnode
	extra    *tnode   // enum raw type / attachment base type
	children []*tnode // everything else, in order
}

func fc6Layout(t cadence.Type, seen map[cadence.Type]bool) *tnode {
	if t == nil {
		return &tnode{}
	}
	switch t.(type) {
	case cadence.CompositeType, cadence.InterfaceType:
		if seen[t] {
			return &tnode{ref: t}
		}
		seen[t] = true
	}
	n := &tnode{}
	sub := func(x cadence.Type) *tnode { return fc6Layout(x, seen) }
	params := func(ps []cadence.Parameter) []*tnode {
		var out []*tnode
		for _, p := range ps {
			out = append(out, sub(p.Type))
		}
		return out
	}
	switch x := t.(type) {
	case *cadence.OptionalType:
		n.children = []*tnode{sub(x.Type)}
	case *cadence.VariableSizedArrayType:
		n.children = []*tnode{sub(x.ElementType)}
	case *cadence.ConstantSizedArrayType:
		n.children = []*tnode{sub(x.ElementType)}
	case *cadence.DictionaryType:
		n.children = []*tnode{sub(x.KeyType), sub(x.ElementType)}
	case *cadence.InclusiveRangeType:
		n.children = []*tnode{sub(x.ElementType)}
	case *cadence.CapabilityType:
		n.children = []*tnode{sub(x.BorrowType)}
	case *cadence.ReferenceType:
		n.children = []*tnode{sub(x.Type)}
	case *cadence.IntersectionType:
		for _, m := range x.Types {
			n.children = append(n.children, sub(m))
		}
	case *cadence.FunctionType:
		for _, tp := range x.TypeParameters {
			if tp.TypeBound != nil {
				n.children = append(n.children, sub(tp.TypeBound))
			}
		}
		n.children = append(n.children, params(x.Parameters)...)
		n.children = append(n.children, sub(x.ReturnType))
	case cadence.CompositeType:
		n.full = t
		for _, f := range vgen.TypeFields(x) {
			n.fields = append(n.fields, sub(f.Type))
		}
		if ev, ok := t.(*cadence.EventType); ok {
			n.inits = params(ev.Initializer)
		} else {
			for _, ps := range x.CompositeInitializers() {
				n.inits = append(n.inits, params(ps)...)
			}
		}
		switch y := t.(type) {
		case *cadence.EnumType:
			n.extra = sub(y.RawType)
		case *cadence.AttachmentType:
			n.extra = sub(y.BaseType)
		}
	case cadence.InterfaceType:
		n.full = t
		for _, f := range vgen.InterfaceFields(x) {
			n.fields = append(n.fields, sub(f.Type))
		}
		for _, ps := range x.InterfaceInitializers() {
			n.inits = append(n.inits, params(ps)...)
		}
	}
	return n
}

// fc6Replay walks the layout in decoder order; false = an unresolved reference.
func fc6Replay(n *tnode, registered map[string]bool) bool {
	if n == nil {
		return true
	}
	if n.ref != nil {
		return registered[n.ref.ID()]
	}
	if n.full != nil {
		for _, c := range n.inits {
			if !fc6Replay(c, registered) {
				return false
			}
		}
		if n.extra != nil && !fc6Replay(n.extra, registered) {
			return false
		}
		registered[n.full.ID()] = true
		for _, c := range n.fields {
			if !fc6Replay(c, registered) {
				return false
			}
		}
		return true
	}
	for _, c := range n.children {
		if !fc6Replay(c, registered) {
			return false
		}
	}
	return true
}

// fc6Matches reports whether some type embedded in v hits the FC6 root cause.
func fc6Matches(v cadence.Value) bool {
	var ts []cadence.Type
	embeddedTypes(v, &ts)
	for _, t := range ts {
		if t == nil {
			continue
		}
		if !fc6Replay(fc6Layout(t, map[cadence.Type]bool{}), map[string]bool{}) {
			return true
		}
	}
	return false
}
