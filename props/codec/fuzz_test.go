package codec

import (
	"errors"
	"flag"
	goRuntime "runtime"
	"testing"

	"verif/lib/evid"
	"verif/lib/vgen"
)

// Native fuzz targets (thorough tier only): decoders never panic. The seed
// corpus is generator output (valid encodings) plus a few malformed inputs.

func seedValues(n int, f func(v []byte)) {
	for i := 0; i < n; i++ {
		g := vgen.New(vgen.FromRand(evid.Rand(int64(9000+i))), vgen.Config{MaxDepth: 3})
		v, _ := g.AnyValue()
		if e := jsonEncode(v); e.err == nil && e.panic == nil {
			f(append([]byte{'j'}, e.bytes...))
		}
		if e := ccfEncodeWith(ccfDetEnc, v); e.err == nil && e.panic == nil {
			f(append([]byte{'c'}, e.bytes...))
		}
	}
}

func FuzzC41(f *testing.F) {
	seedValues(40, func(b []byte) {
		if b[0] == 'j' {
			f.Add(b[1:])
		}
	})
	f.Add([]byte(`{"type":"Address","value":"0x1"}`))
	f.Add([]byte(`[]`))
	f.Fuzz(func(t *testing.T, b []byte) {
		o := jsonDecode(b)
		if o.panic != nil {
			if s, ok := o.panic.(string); ok && s == fc1PanicText {
				return // known finding FC1
			}
			t.Fatalf("jsoncdc.Decode panicked: %v\ninput: %q", o.panic, b)
		}
		if o.err == nil && o.value == nil {
			t.Fatalf("jsoncdc.Decode returned neither value nor error\ninput: %q", b)
		}
	})
}

func FuzzC42(f *testing.F) {
	seedValues(40, func(b []byte) {
		if b[0] == 'c' {
			f.Add(b[1:])
		}
	})
	f.Add([]byte{0xd8, 0x82, 0x82, 0xd8, 0x89, 0x18, 0x30, 0xf6})
	f.Fuzz(func(t *testing.T, b []byte) {
		for _, d := range allCCFDecoders {
			o := ccfDecodeWith(d.m, b)
			if o.panic != nil {
				t.Fatalf("ccf (%s) Decode panicked: %v\ninput: %x", d.name, o.panic, b)
			}
		}
	})
}

func FuzzC44(f *testing.F) {
	vals, _ := systematicRecipes()
	for i, r := range vals {
		if i%7 == 0 {
			if e := encodeStorableValue(vgen.BuildValue(r)); e.err == nil && e.panic == nil {
				f.Add(e.bytes)
			}
		}
	}
	f.Add([]byte{0xd8, 0x82, 0x15}) // some-storable around a bare CBOR uint
	f.Fuzz(func(t *testing.T, b []byte) {
		// Error or value. Inside the interpreter package errors are signalled by panicking with a
		// cadence error value (recovered at the runtime boundary): UnsupportedTagDecodingError for
		// unknown tags, UnexpectedError("cannot convert stored value") for a bare atree value
		// below a some-storable (input d88215), ... Those count as errors; a Go runtime error
		// (nil dereference, index out of range, ...) or a non-error panic value is a crash.
		if o := decodeStorableBytes(b); o.panic != nil && isCrash(o.panic) {
			t.Fatalf("DecodeStorable crashed: %v\ninput: %x", o.panic, b)
		}
		if o := decodeStaticType(b); o.panic != nil && isCrash(o.panic) {
			t.Fatalf("StaticTypeFromBytes crashed: %v\ninput: %x", o.panic, b)
		}
	})
}

// isCrash: the panic value is a Go runtime error or not an error at all (cadence
// signals its own internal/user errors by panicking with error values).
func isCrash(p any) bool {
	err, isErr := p.(error)
	if !isErr {
		return true
	}
	var re goRuntime.Error
	return errors.As(err, &re)
}

// replaying reports whether a single recorded case is being re-run (JSON replay
// file or rapid fail file): generator-health checks do not apply then.
func replaying() bool {
	if evid.ReplayFile() != "" {
		return true
	}
	if f := flag.Lookup("rapid.failfile"); f != nil && f.Value.String() != "" {
		return true
	}
	return false
}
