package codec

import (
	"bytes"
	"encoding/json"
	"fmt"
	"sort"
	"strings"

	"verif/lib/vgen"
)

// ---- JSON-structure mutation ------------------------------------------------------
//
// The encoding is parsed into a generic tree (numbers kept as json.Number), a
// few nodes are mutated, and the tree is marshalled again: the mutant is always
// syntactically valid JSON. Byte-level mutation is done separately.

type jsonNodeRef struct {
	parent any // map[string]any or []any (nil for the root)
	key    string
	index  int
}

func collectJSONNodes(root any) []jsonNodeRef {
	var out []jsonNodeRef
	var walk func(n any)
	walk = func(n any) {
		switch x := n.(type) {
		case map[string]any:
			keys := make([]string, 0, len(x))
			for k := range x {
				keys = append(keys, k)
			}
			sort.Strings(keys)
			for _, k := range keys {
				out = append(out, jsonNodeRef{parent: x, key: k})
				walk(x[k])
			}
		case []any:
			for i := range x {
				out = append(out, jsonNodeRef{parent: x, index: i})
				walk(x[i])
			}
		}
	}
	walk(root)
	return out
}

func (r jsonNodeRef) get() any {
	switch p := r.parent.(type) {
	case map[string]any:
		return p[r.key]
	case []any:
		return p[r.index]
	}
	return nil
}

func (r jsonNodeRef) set(v any) {
	switch p := r.parent.(type) {
	case map[string]any:
		p[r.key] = v
	case []any:
		p[r.index] = v
	}
}

var jsonTypeTags = []string{"Void", "Optional", "Bool", "Character", "String", "Address", "Int", "Int8", "Int256", "UInt", "UInt8", "UInt64",
	"Word8", "Word256", "Fix64", "Fix128", "UFix64", "UFix128", "Array", "Dictionary", "Struct", "Resource", "Attachment", "Event", "Contract",
	"Path", "Type", "Capability", "Enum", "Function", "InclusiveRange", "", "type", "Never", "AnyStruct"}

var jsonKindTags = []string{"Function", "Intersection", "Optional", "Restriction", "VariableSizedArray", "Capability", "Dictionary", "InclusiveRange",
	"ConstantSizedArray", "Reference", "Struct", "Resource", "Event", "Contract", "StructInterface", "ResourceInterface", "ContractInterface",
	"Enum", "Attachment", "Int", "AnyStruct", "Never", "Account", "", "Unauthorized", "EntitlementMapAuthorization",
	"EntitlementConjunctionSet", "EntitlementDisjunctionSet", "Entitlement", "EntitlementMap", "Bytes", "Capability<Int>"}

var jsonKeys = []string{"type", "kind", "value", "key", "name", "fields", "initializers", "id", "targetPath", "borrowType", "domain",
	"identifier", "staticType", "address", "path", "authorization", "authorized", "entitlements", "size", "typeID", "restrictions",
	"types", "label", "parameters", "typeParameters", "return", "typeBound", "purity", "functionType", "element", "start", "end", "step"}

var jsonBadStrings = []string{"", "0", "-1", "-0", "+1", "256", "65536", "4294967296", "18446744073709551616", "-129", "1e3", "1.5", " 1", "1 ",
	"0x10", "١٢", "99999999999999999999999999999999999999999999999999999999999999999999999999999999999999",
	"-99999999999999999999999999999999999999999999999999999999999999999999999999999999999999",
	"0.1", "1.000000001", "-92233720368.54775809", "184467440737.09551616", "1.", ".5", "1.0.0", "NaN", "Infinity",
	"0x", "0x1", "0xzz", "0x0000000000000000000001", "x", "storage", "public", "private", "unknown", "A.", "A.01", "A.0000000000000001", "A.0000000000000001.",
	"A.g.C.S", "S..", "s.01.x", "t.", "I.", ".", "..", "PublicKey", "Type", "\u0000", "á́", "aa", "ab", "view", "impure",
	"{A.0000000000000001.C.I}", "�", "\U0001F468‍\U0001F469"}

// mutateJSON applies 1..3 structural mutations; it returns the marshalled mutant
// and a short label of the operations.
func mutateJSON(g *vgen.G, enc []byte) ([]byte, string) {
	if g.S.Intn(40) == 0 {
		roots := []string{`[]`, `"x"`, `1`, `null`, `true`, `{}`, `[{"type":"Int","value":"1"}]`, `{"type":null}`, `{"type":1,"value":1}`,
			`{"value":"1"}`, `{"type":"Int"}`, `{"type":"Void","value":null}`, `{"type":"Optional"}`, `{"type":"Int","value":"1","x":1}`}
		return []byte(roots[g.S.Intn(len(roots))]), "root"
	}
	dec := json.NewDecoder(bytes.NewReader(enc))
	dec.UseNumber()
	var root any
	if err := dec.Decode(&root); err != nil {
		return enc, "unparsed"
	}
	holder := []any{root}
	var labels []string
	nestText := ""
	n := 1 + g.S.Intn(3)
	for i := 0; i < n; i++ {
		nodes := collectJSONNodes(holder)
		if len(nodes) == 0 {
			break
		}
		ref := nodes[g.S.Intn(len(nodes))]
		op := g.S.Intn(13)
		m, isMapParent := ref.parent.(map[string]any)
		switch op {
		case 0: // drop key / element
			if isMapParent {
				delete(m, ref.key)
				labels = append(labels, "drop:"+ref.key)
			} else {
				ref.set(nil)
				labels = append(labels, "null-element")
			}
		case 1: // rename key
			if isMapParent {
				v := m[ref.key]
				delete(m, ref.key)
				nk := jsonKeys[g.S.Intn(len(jsonKeys))]
				m[nk] = v
				labels = append(labels, "rename:"+ref.key+"->"+nk)
			}
		case 2: // wrong JSON type
			repl := []any{nil, json.Number("1"), json.Number("-1"), json.Number("1.5"), json.Number("1e400"), json.Number("18446744073709551616"),
				"x", true, false, []any{}, map[string]any{}, []any{nil}, map[string]any{"type": "Int", "value": "1"}}
			ref.set(repl[g.S.Intn(len(repl))])
			labels = append(labels, "wrong-json-type")
		case 3: // wrong type tag
			if isMapParent {
				if _, ok := m["type"].(string); ok {
					m["type"] = jsonTypeTags[g.S.Intn(len(jsonTypeTags))]
					labels = append(labels, "type-tag")
				}
			}
		case 4: // wrong kind tag
			if isMapParent {
				if _, ok := m["kind"]; ok {
					m["kind"] = jsonKindTags[g.S.Intn(len(jsonKindTags))]
					labels = append(labels, "kind-tag")
				}
			}
		case 5: // bad string content (numbers out of range, bad addresses, bad ids...)
			if _, ok := ref.get().(string); ok {
				ref.set(jsonBadStrings[g.S.Intn(len(jsonBadStrings))])
				labels = append(labels, "bad-string")
			}
		case 6: // duplicate a sibling into another key
			if isMapParent {
				nk := jsonKeys[g.S.Intn(len(jsonKeys))]
				m[nk] = deepCopyJSON(m[ref.key])
				labels = append(labels, "add-key:"+nk)
			}
		case 7: // swap with another node's content
			other := nodes[g.S.Intn(len(nodes))]
			a, b := deepCopyJSON(ref.get()), deepCopyJSON(other.get())
			ref.set(b)
			other.set(a)
			labels = append(labels, "swap-nodes")
		case 8: // array surgery
			if arr, ok := ref.get().([]any); ok {
				switch g.S.Intn(3) {
				case 0:
					arr = append(arr, deepCopyJSON(arr).([]any)...)
				case 1:
					if len(arr) > 0 {
						arr = arr[:len(arr)-1]
					}
				default:
					arr = append(arr, nil)
				}
				ref.set(arr)
				labels = append(labels, "array-surgery")
			}
		case 9: // number out of range for "size"
			if isMapParent {
				if _, ok := m["size"]; ok {
					sizes := []any{json.Number("-1"), json.Number("1.5"), json.Number("1e30"), json.Number("18446744073709551616"), "3", nil, json.Number("1e-5")}
					m["size"] = sizes[g.S.Intn(len(sizes))]
					labels = append(labels, "size")
				}
			}
		case 10: // deep nesting
			depth := []int{20, 200}[g.S.Intn(2)]
			if g.S.Intn(25) == 0 {
				depth = []int{3000, 11000}[g.S.Intn(2)] // beyond encoding/json's own nesting limit of 10000
			}
			i = n // last operation: the tree is not walked again
			// the wrapping is done textually around a placeholder (marshalling a
			// 10000-deep tree with encoding/json is slow)
			inner, err := json.Marshal(ref.get())
			if err != nil {
				break
			}
			open, close := `{"type":"Optional","value":`, `}`
			switch g.S.Intn(3) {
			case 1:
				open, close = `{"type":"Array","value":[`, `]}`
			case 2:
				open, close = `{"kind":"Optional","type":`, `}`
			}
			nestText = strings.Repeat(open, depth) + string(inner) + strings.Repeat(close, depth)
			ref.set(nestPlaceholder)
			labels = append(labels, fmt.Sprintf("nest:%d", depth))
		case 11: // replace a type by a bare type-ID string (old format / reference form)
			if isMapParent {
				if _, ok := m["kind"]; ok {
					ids := []string{"", "Int", "A.0000000000000001.C.S", "S.test.Foo", "&Int", "x"}
					ref2 := nodes[g.S.Intn(len(nodes))]
					ref2.set(ids[g.S.Intn(len(ids))])
					labels = append(labels, "type-id-string")
				}
			}
		default: // null out
			ref.set(nil)
			labels = append(labels, "null")
		}
	}
	out, err := json.Marshal(holder[0])
	if err != nil {
		return enc, "unmarshalable"
	}
	if nestText != "" {
		out = bytes.Replace(out, []byte(`"`+nestPlaceholder+`"`), []byte(nestText), 1)
	}
	if len(labels) == 0 {
		labels = []string{"noop"}
	}
	return out, strings.Join(labels, ",")
}

const nestPlaceholder = "@@verif-nest-placeholder@@"

func deepCopyJSON(v any) any {
	switch x := v.(type) {
	case map[string]any:
		m := make(map[string]any, len(x))
		for k, e := range x {
			m[k] = deepCopyJSON(e)
		}
		return m
	case []any:
		a := make([]any, len(x))
		for i, e := range x {
			a[i] = deepCopyJSON(e)
		}
		return a
	}
	return v
}

// mutateBytes applies 1..4 byte-level mutations (may produce invalid JSON / UTF-8 / CBOR).
func mutateBytes(g *vgen.G, enc []byte) ([]byte, string) {
	b := append([]byte(nil), enc...)
	n := 1 + g.S.Intn(4)
	interesting := []byte{0x00, 0xff, 0x80, 0xc0, 0xf8, '"', '\\', '{', '}', '[', ']', ',', ':', '0', '-', 'e', 0x7f, 0xd8, 0x82, 0x9f, 0xbf, 0x5b, 0x7b, 0xf6, 0x1b, 0x3b, 0xc2, 0xc3, 0xfb}
	for i := 0; i < n; i++ {
		if len(b) == 0 {
			b = append(b, byte(g.S.Uint64()))
			continue
		}
		pos := g.S.Intn(len(b))
		switch g.S.Intn(8) {
		case 0:
			b[pos] ^= 1 << uint(g.S.Intn(8))
		case 1:
			b[pos] = interesting[g.S.Intn(len(interesting))]
		case 2:
			b = append(b[:pos], b[pos+1:]...)
		case 3:
			b = append(b[:pos], append([]byte{interesting[g.S.Intn(len(interesting))]}, b[pos:]...)...)
		case 4:
			b = b[:pos] // truncate
		case 5:
			// duplicate a chunk
			end := pos + 1 + g.S.Intn(16)
			if end > len(b) {
				end = len(b)
			}
			chunk := append([]byte(nil), b[pos:end]...)
			b = append(b[:end], append(chunk, b[end:]...)...)
		case 6:
			b[pos] = byte(g.S.Uint64())
		default:
			// increment / decrement (length heads, tag numbers)
			if g.S.Intn(2) == 0 {
				b[pos]++
			} else {
				b[pos]--
			}
		}
	}
	return b, "bytes"
}
