package codec

import (
	"fmt"
	"testing"

	"verif/lib/host"
)

func TestProbe(t *testing.T) {
	base := c29Host(t)
	e := `{"value":{"id":"A.0000000000000001.C.Color","fields":[{"value":{"value":"0","type":"UInt8"},"name":"rawValue"}]},"type":"Enum"}`
	s := `{"value":{"id":"A.0000000000000001.C.S","fields":[{"value":{"value":"1","type":"Int"},"name":"n"},{"value":{"value":"x","type":"String"},"name":"s"}]},"type":"Struct"}`
	r := `{"value":{"id":"A.0000000000000001.C.R","fields":[{"value":{"value":"1","type":"UInt64"},"name":"id"}]},"type":"Resource"}`
	for _, c := range [][2]string{
		{"[[Address]]", `{"type":"Array","value":[{"type":"Array","value":[` + e + `]}]}`},
		{"[[Address]]", `{"type":"Array","value":[{"type":"Array","value":[` + s + `]}]}`},
		{"[[Address]]", `{"type":"Array","value":[{"type":"Array","value":[` + r + `]}]}`},
		{"[[UInt8]]", `{"type":"Array","value":[{"type":"Array","value":[` + s + `]}]}`},
		{"[[Int]]", `{"type":"Array","value":[{"type":"Array","value":[` + s + `]}]}`},
		{"[Address]", `{"type":"Array","value":[` + s + `]}`},
		{"{String: [Address]}", `{"type":"Dictionary","value":[{"key":{"type":"String","value":"a"},"value":{"type":"Array","value":[` + s + `]}}]}`},
		{"[Address]?", `{"type":"Optional","value":{"type":"Array","value":[` + s + `]}}`},
	} {
		for _, av := range []bool{true, false} {
			res := runEntryPointOpt(base, true, "import C from 0x1\naccess(all) fun main(x: "+c[0]+") {}", []byte(c[1]), host.Interp, av)
			info := host.ClassifyErr(res.err)
			msg := ""
			if res.err != nil {
				msg = res.err.Error()
				if len(msg) > 110 {
					msg = msg[:110]
				}
			}
			fmt.Printf("%-20s atreeValidation=%-5v class=%-9s root=%s | %q\n", c[0], av, info.Class, info.Root, msg)
		}
	}
}
