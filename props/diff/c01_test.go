package diff

import (
	"fmt"
	"os"
	"sort"
	"strings"
	"testing"
	"time"

	"verif/lib/evid"
	"verif/lib/host"
	"verif/lib/prog"
	"verif/lib/splicegen"
)

// c01Case is the replay format of C01.
type c01Case struct {
	History prog.History `json:"history"`
	Engine  string       `json:"engine,omitempty"`
	Step    int          `json:"step"`
	Obs     *Obs         `json:"observed,omitempty"`
}

// c01Finding is a known root cause of an internal error on an accepted program.
type c01Finding struct {
	ID    string
	Match func(h prog.History, engine string, o Obs, src string) bool
	Repro prog.History
}

type c01Result struct {
	Case       c01Case
	Nontrivial bool
	Outcomes   []string
	Msg        string
}

// evalC01 runs hist on both engines; any step ending in an internal error or an
// escaped Go panic is a violation (user and external errors are fine).
func evalC01(hist prog.History) (res c01Result) {
	res.Case = c01Case{History: hist, Step: -1}
	stmts := 0
	// both engines, plus the interpreter with atree/storage validation switched on (small programs only: the
	// validating run has a tight computation limit, steps that hit it are simply external errors)
	traces := []Trace{observe(hist, host.Interp, true), observe(hist, host.VM, false), observeValidating(hist, host.Interp)}
	for ti, tr := range traces {
		for i, s := range tr.Steps {
			if ti == 0 {
				stmts += s.Stmts
			}
			res.Outcomes = append(res.Outcomes, tr.Engine+":"+s.Class)
			if (s.Class == "internal" || s.Class == "panic") && res.Msg == "" {
				o := s
				res.Case.Engine, res.Case.Step, res.Case.Obs = strings.TrimSuffix(tr.Engine, "+validation"), i, &o
				res.Msg = fmt.Sprintf("%s: step %d of a checker-accepted program ended with class=%s root=%s: %s",
					tr.Engine, i, s.Class, s.Root, firstLine(s.Err, 500))
			}
		}
	}
	res.Nontrivial = stmts >= 5 && splicegen.CoreCount(hist.Features) >= 2
	return res
}

func runC01(rec *evid.Rec, hist prog.History, findings []c01Finding) (string, c01Case) {
	res := evalC01(hist)
	rec.Case(res.Nontrivial, hist.Key())
	for _, f := range hist.Features {
		rec.Class("feature:" + f)
	}
	for _, o := range res.Outcomes {
		rec.Class("outcome:" + o)
	}
	if res.Msg == "" {
		return "", res.Case
	}
	for _, f := range findings {
		if rec.Known(f.ID) && f.Match(hist, res.Case.Engine, *res.Case.Obs, stepSource(hist, res.Case.Step)) {
			rec.Excluded(f.ID)
			return "", res.Case
		}
	}
	return res.Msg, res.Case
}

func TestC01(t *testing.T) {
	rec := evid.Start(t, "C01",
		"checker-accepted histories from the registered sources (harvested+mutated cadence test snippets with generated entry points and arguments, "+
			"grammar programs, other generator libraries) run on interpreter and VM (and once more on the interpreter with atree/storage validation on); violation = outcome class internal (errors.InternalError in the chain) or an "+
			"escaped Go panic; user/external errors are fine. Non-trivial: interpreter executed >= 5 statements and >= 2 core feature classes "+
			"(resource move, reference, closure, cast, optional chain, interface, condition, attachment, storage, capability); distinct by history text.")
	findings := c01Findings()
	if p := evid.ReplayFile(); p != "" {
		var cs c01Case
		if err := evid.LoadReplay(p, &cs); err != nil {
			t.Fatalf("cannot load replay: %v", err)
		}
		if msg, full := runC01(rec, cs.History, nil); msg != "" {
			rec.Violation(t, full, "%s", msg)
		}
		return
	}
	for _, f := range findings {
		if rec.Known(f.ID) && len(f.Repro.Steps) > 0 {
			rec.ReportKnown(f.ID, evalC01(f.Repro).Msg != "")
		}
	}
	collect := os.Getenv("DIFF_COLLECT") != ""
	spent, count := map[string]float64{}, map[string]int{}
	type group struct {
		n       int
		example c01Case
		origins map[string]bool
	}
	groups := map[string]*group{}
	r := evid.Rand(1)
	n := evid.N(400, 2000)
	for i := 0; i < n; i++ {
		src := drawSource(r)
		hist, ok := src.Next(r)
		if !ok {
			rec.Class("source-miss:" + src.Name)
			continue
		}
		rec.Class("source:" + src.Name)
		t0 := time.Now()
		msg, cs := runC01(rec, hist, findings)
		spent[src.Name] += time.Since(t0).Seconds()
		count[src.Name]++
		if rec.WantSample(src.Name) && len(hist.Steps) > 0 {
			rec.Sample(src.Name, map[string]any{"origin": hist.Origin, "features": hist.Features, "last_step": stepSource(hist, -1)})
		}
		if msg == "" {
			continue
		}
		if !collect {
			rec.Violation(t, cs, "%s\n%s", msg, hist.String())
		}
		key := cs.Engine + " " + cs.Obs.Class + " " + cs.Obs.Root
		g := groups[key]
		if g == nil {
			g = &group{example: cs, origins: map[string]bool{}}
			groups[key] = g
		}
		g.n++
		g.origins[hist.Origin] = true
	}
	perSrc := map[string]string{}
	for k, v := range spent {
		perSrc[k] = fmt.Sprintf("%d histories, %.1f s", count[k], v)
	}
	rec.Extra("time_per_source", perSrc)
	for _, s := range Sources {
		if s.Stats != nil {
			rec.Extra("source_"+s.Name, s.Stats())
		}
	}
	if collect && len(groups) > 0 {
		var keys []string
		for k := range groups {
			keys = append(keys, k)
		}
		sort.Strings(keys)
		for _, k := range keys {
			g := groups[k]
			fmt.Printf("\n######## %d x %s\n", g.n, k)
			var os []string
			for o := range g.origins {
				os = append(os, o)
			}
			sort.Strings(os)
			if len(os) > 8 {
				os = os[:8]
			}
			fmt.Println("origins:", strings.Join(os, "; "))
			fmt.Println("features:", g.example.History.Features, "step", g.example.Step)
			fmt.Println(g.example.Obs.Err)
			fmt.Println(g.example.History.String())
		}
		t.Fatalf("collected %d internal-error groups", len(groups))
	}
}
