package diff

import (
	"fmt"
	"os"
	"sort"
	"strings"
	"testing"
	"time"

	"verif/lib/evid"
	"verif/lib/host"
	"verif/lib/prog"
	"verif/lib/splicegen"
)

// c34Case is the replay format of C34 (and C01).
type c34Case struct {
	History    prog.History `json:"history"`
	Pair       string       `json:"pair,omitempty"`
	Divergence *Divergence  `json:"divergence,omitempty"`
	A          *Obs         `json:"a,omitempty"`
	B          *Obs         `json:"b,omitempty"`
}

// c34Finding is a known root cause of engine divergence with its narrow predicate.
type c34Finding struct {
	ID    string
	Match func(h prog.History, pair string, d *Divergence, src string) bool
	Repro prog.History
}

type collected struct {
	n       int
	example c34Case
	sources map[string]int
}

// c34Result is the evaluation of one history on the three engines.
type c34Result struct {
	Case       c34Case
	Nontrivial bool
	Outcomes   []string // interpreter outcome class per step
	Limited    []string // pairs whose comparison stopped at a limit
	Agree      []string // pairs that agree
	Msg        string   // "" = no divergence
}

// evalC34 runs hist on interpreter, VM and VM+peephole and compares.
func evalC34(hist prog.History) (res c34Result) {
	ti := observe(hist, host.Interp, true)
	tv := observe(hist, host.VM, false)
	tp := observe(hist, host.VMPeephole, false)

	stmts, allEmpty := 0, true
	for _, tr := range []Trace{ti, tv, tp} {
		for _, s := range tr.Steps {
			if s.Value != "" || len(s.Logs) > 0 || len(s.Events) > 0 || s.Class != "ok" {
				allEmpty = false
			}
		}
	}
	for _, s := range ti.Steps {
		stmts += s.Stmts
		res.Outcomes = append(res.Outcomes, s.Class)
	}
	if ti.Ledger != emptyLedgerDigest {
		allEmpty = false
	}
	res.Nontrivial = stmts >= 5 && splicegen.CoreCount(hist.Features) >= 2 && !allEmpty
	res.Case = c34Case{History: hist}
	pairs := []struct {
		name string
		a, b Trace
	}{{"interpreter~vm", ti, tv}, {"vm~vm+peephole", tv, tp}}
	for _, p := range pairs {
		d, limited := compare(p.a, p.b)
		if limited {
			res.Limited = append(res.Limited, p.name)
		}
		if d == nil {
			res.Agree = append(res.Agree, p.name)
			continue
		}
		res.Case.Pair, res.Case.Divergence = p.name, d
		if d.Step >= 0 {
			a, b := p.a.Steps[d.Step], p.b.Steps[d.Step]
			res.Case.A, res.Case.B = &a, &b
		}
		res.Msg = fmt.Sprintf("%s diverge at step %d (%s): %s\n   A: %s\n   B: %s", p.name, d.Step, d.What, d.Sig,
			firstLine(d.A, 400), firstLine(d.B, 400))
		return res
	}
	return res
}

var emptyLedgerDigest = host.New().Ledger.Digest()

// runC34 evaluates one history and records it; it returns "" (agreement or a
// listed known finding) or the violation message.
func runC34(rec *evid.Rec, hist prog.History, findings []c34Finding) (string, c34Case) {
	res := evalC34(hist)
	rec.Case(res.Nontrivial, hist.Key())
	for _, f := range hist.Features {
		rec.Class("feature:" + f)
	}
	for _, o := range res.Outcomes {
		rec.Class("outcome:" + o)
	}
	for _, p := range res.Limited {
		rec.Class("stopped-at-limit:" + p)
	}
	for _, p := range res.Agree {
		rec.Class("agree:" + p)
	}
	verdict := "agree:"
	if res.Msg != "" {
		verdict = "diverge:"
	}
	for _, f := range hist.Features {
		rec.Class(verdict + f)
	}
	if res.Msg == "" {
		return "", res.Case
	}
	d := res.Case.Divergence
	for _, f := range findings {
		if rec.Known(f.ID) && f.Match(hist, res.Case.Pair, d, stepSource(hist, d.Step)) {
			rec.Excluded(f.ID)
			return "", res.Case
		}
	}
	return res.Msg, res.Case
}

func TestC34(t *testing.T) {
	rec := evid.Start(t, "C34",
		"histories from the registered sources (harvested+mutated cadence test snippets, grammar programs, other generator libraries), each run "+
			"from identical fresh hosts on interpreter, VM and VM+peephole; compared per step: JSON-CDC result, outcome class + root error Go type, "+
			"ordered logs, ordered events (successful steps), and the final ledger digest. Non-trivial: interpreter executed >= 5 statements, >= 2 core feature "+
			"classes (resource move, reference, closure, cast, optional chain, interface, condition, attachment, storage, capability) and the traces are not all empty; "+
			"distinct by history text.")
	if !host.HasPeephole() {
		rec.Inconclusive(t, "built without -tags verif: VM+peephole engine unavailable")
	}
	findings := c34Findings()
	if p := evid.ReplayFile(); p != "" {
		var cs c34Case
		if err := evid.LoadReplay(p, &cs); err != nil {
			t.Fatalf("cannot load replay: %v", err)
		}
		if msg, full := runC34(rec, cs.History, nil); msg != "" {
			rec.Violation(t, full, "%s", msg)
		}
		return
	}
	for _, f := range findings {
		if rec.Known(f.ID) && len(f.Repro.Steps) > 0 {
			rec.ReportKnown(f.ID, evalC34(f.Repro).Msg != "")
		}
	}
	collect := os.Getenv("DIFF_COLLECT") != ""
	spent, count := map[string]float64{}, map[string]int{}
	groups := map[string]*collected{}
	r := evid.Rand(34)
	n := evid.N(350, 2000)
	perSource := map[string]int{}
	for i := 0; i < n; i++ {
		src := drawSource(r)
		hist, ok := src.Next(r)
		if !ok {
			rec.Class("source-miss:" + src.Name)
			continue
		}
		perSource[src.Name]++
		rec.Class("source:" + src.Name)
		t0 := time.Now()
		msg, cs := runC34(rec, hist, findings)
		spent[src.Name] += time.Since(t0).Seconds()
		count[src.Name]++
		if rec.WantSample(src.Name) && len(hist.Steps) > 0 {
			rec.Sample(src.Name, map[string]any{"origin": hist.Origin, "features": hist.Features, "last_step": stepSource(hist, -1)})
		}
		if msg == "" {
			continue
		}
		if !collect {
			rec.Violation(t, cs, "%s\n%s", msg, hist.String())
		}
		key := cs.Pair + " " + cs.Divergence.Sig
		g := groups[key]
		if g == nil {
			g = &collected{example: cs, sources: map[string]int{}}
			groups[key] = g
		}
		g.n++
		g.sources[hist.Origin]++
	}
	perSrc := map[string]string{}
	for k, v := range spent {
		perSrc[k] = fmt.Sprintf("%d histories, %.1f s", count[k], v)
	}
	rec.Extra("time_per_source", perSrc)
	for _, s := range Sources {
		if s.Stats != nil {
			rec.Extra("source_"+s.Name, s.Stats())
		}
	}
	if collect && len(groups) > 0 {
		var keys []string
		for k := range groups {
			keys = append(keys, k)
		}
		sort.Strings(keys)
		for _, k := range keys {
			g := groups[k]
			fmt.Printf("\n######## %d x %s\n", g.n, k)
			var os []string
			for o := range g.sources {
				os = append(os, o)
			}
			sort.Strings(os)
			if len(os) > 6 {
				os = os[:6]
			}
			fmt.Println("origins:", strings.Join(os, "; "))
			fmt.Println("features:", g.example.History.Features)
			fmt.Printf("A: %s\nB: %s\n", firstLine(g.example.Divergence.A, 500), firstLine(g.example.Divergence.B, 500))
			fmt.Println(g.example.History.String())
		}
		t.Fatalf("collected %d divergence groups", len(groups))
	}
}
