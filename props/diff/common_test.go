package diff

import (
	"encoding/json"
	"fmt"
	"math/rand"
	"os"
	"path/filepath"
	"sort"
	"strings"

	"github.com/onflow/cadence/common"
	jsoncdc "github.com/onflow/cadence/encoding/json"

	"verif/lib/evid"
	"verif/lib/host"
	"verif/lib/prog"
	"verif/lib/splicegen"
)

// Source is a pluggable producer of executable histories. Next returns false
// when the source could not produce a history for this draw (counted, not fatal).
type Source struct {
	Name   string
	Weight int
	Next   func(r *rand.Rand) (prog.History, bool)
	// Stats, when set, is attached to the evidence (accept rates etc.).
	Stats func() map[string]any
}

// Sources is the registry consumed by C01 and C34: plugging in another history
// generator is one line in sources_test.go.
var Sources []Source

func register(s Source) { Sources = append(Sources, s) }

// anyKnown reports whether finding id is listed with status "known" for any property
// (used to switch off the trigger of another group's finding in its generator).
func anyKnown(id string) bool {
	b, err := os.ReadFile(filepath.Join(evid.Root(), "known_findings.json"))
	if err != nil {
		return false
	}
	var f struct {
		Findings []evid.Finding `json:"findings"`
	}
	if json.Unmarshal(b, &f) != nil {
		return false
	}
	for _, x := range f.Findings {
		if x.ID == id && x.Status == "known" {
			return true
		}
	}
	return false
}

// drawSource picks a source by weight, restricted by DIFF_SOURCE when set.
func drawSource(r *rand.Rand) *Source {
	only := os.Getenv("DIFF_SOURCE")
	total := 0
	for i := range Sources {
		if only != "" && Sources[i].Name != only {
			continue
		}
		total += Sources[i].Weight
	}
	if total == 0 {
		panic("no history source matches DIFF_SOURCE=" + only)
	}
	k := r.Intn(total)
	for i := range Sources {
		if only != "" && Sources[i].Name != only {
			continue
		}
		if k < Sources[i].Weight {
			return &Sources[i]
		}
		k -= Sources[i].Weight
	}
	return &Sources[0]
}

// Obs is what one engine showed for one step.
type Obs struct {
	Class   string   `json:"class"`
	Root    string   `json:"root,omitempty"`
	Value   string   `json:"value,omitempty"`
	Events  []string `json:"events,omitempty"`
	Logs    []string `json:"logs,omitempty"`
	Limited bool     `json:"limited,omitempty"`
	Err     string   `json:"err,omitempty"`
	Stmts   int      `json:"-"`
}

// Trace is one engine's observation of a whole history.
type Trace struct {
	Engine string `json:"engine"`
	Steps  []Obs  `json:"steps"`
	Ledger string `json:"ledger"`
}

func firstLine(s string, n int) string {
	s = strings.TrimSpace(s)
	if len(s) > n {
		s = s[:n] + "…"
	}
	return s
}

// safeErrString renders an error; rendering itself must not take the test process down.
func safeErrString(err error) (s string) {
	defer func() {
		if r := recover(); r != nil {
			s = fmt.Sprintf("<%T: Error() panicked: %v>", err, r)
		}
	}()
	return err.Error()
}

func observe(hist prog.History, e host.Engine, record bool) Trace {
	rs, lim, gauges, final := splicegen.Run(nil, hist, e, record)
	return traceOf(e.String(), rs, lim, gauges, final, record)
}

// observeValidating runs hist with atree/storage validation on (small computation limit).
func observeValidating(hist prog.History, e host.Engine) Trace {
	rs, lim, gauges, final := splicegen.RunValidating(nil, hist, e)
	return traceOf(e.String()+"+validation", rs, lim, gauges, final, false)
}

func traceOf(name string, rs []host.Result, lim []bool, gauges []*host.Gauge, final *host.Host, record bool) Trace {
	tr := Trace{Engine: name}
	for i, r := range rs {
		ci := host.Classify(r)
		o := Obs{Class: ci.Class, Root: ci.Root, Logs: r.Logs, Limited: lim[i]}
		if r.Err != nil {
			o.Err = firstLine(safeErrString(r.Err), 600)
		}
		if r.Panic != nil {
			o.Err = firstLine(fmt.Sprintf("GO PANIC: %v", r.Panic), 600)
		}
		if ci.Class == "ok" {
			o.Value = host.ExportJSON(r.Value)
			for _, ev := range r.Events {
				b, err := jsoncdc.Encode(ev)
				if err != nil {
					o.Events = append(o.Events, "<encode error: "+err.Error()+">")
				} else {
					o.Events = append(o.Events, strings.TrimSpace(string(b)))
				}
			}
		}
		if strings.Contains(ci.Root, "CallStackLimitExceeded") || strings.Contains(o.Err, "call stack limit exceeded") ||
			ci.HasType("MemoryLimitError") || ci.HasType("ComputationLimitError") {
			o.Limited = true
		}
		if record {
			for _, c := range gauges[i].Comp {
				if c.Kind == common.ComputationKindStatement {
					o.Stmts += int(c.Intensity)
				}
			}
		}
		tr.Steps = append(tr.Steps, o)
	}
	tr.Ledger = final.Ledger.Digest()
	return tr
}

// Divergence describes the first observable difference between two traces.
type Divergence struct {
	Step int    `json:"step"` // -1: final ledger
	What string `json:"what"` // class | root | value | events | logs | ledger
	A, B string `json:"-"`
	Sig  string `json:"signature"`
}

func eqStrings(a, b []string) bool {
	if len(a) != len(b) {
		return false
	}
	for i := range a {
		if a[i] != b[i] {
			return false
		}
	}
	return true
}

// compare returns the first divergence of b from a, or nil. limited is set when
// the comparison stopped at a step where an engine hit a metering/stack limit.
func compare(a, b Trace) (d *Divergence, limited bool) {
	for i := range a.Steps {
		x, y := a.Steps[i], b.Steps[i]
		if x.Limited || y.Limited {
			return nil, true
		}
		mk := func(what, av, bv string) *Divergence {
			return &Divergence{Step: i, What: what, A: av, B: bv,
				Sig: fmt.Sprintf("%s %s/%s vs %s/%s", what, x.Class, x.Root, y.Class, y.Root)}
		}
		switch {
		case x.Class != y.Class:
			return mk("class", x.Class+" "+x.Err, y.Class+" "+y.Err), false
		case x.Root != y.Root:
			return mk("root", x.Root+" "+x.Err, y.Root+" "+y.Err), false
		case x.Value != y.Value:
			return mk("value", x.Value, y.Value), false
		case !eqStrings(x.Logs, y.Logs):
			return mk("logs", strings.Join(x.Logs, " | "), strings.Join(y.Logs, " | ")), false
		case !eqStrings(x.Events, y.Events):
			return mk("events", strings.Join(x.Events, " | "), strings.Join(y.Events, " | ")), false
		}
	}
	if a.Ledger != b.Ledger {
		return &Divergence{Step: -1, What: "ledger", A: a.Ledger, B: b.Ledger, Sig: "ledger"}, false
	}
	return nil, false
}

func hasFeature(h prog.History, f string) bool {
	for _, x := range h.Features {
		if x == f {
			return true
		}
	}
	return false
}

func sortedKeys(m map[string]int) []string {
	ks := make([]string, 0, len(m))
	for k := range m {
		ks = append(ks, k)
	}
	sort.Strings(ks)
	return ks
}

// stepSource returns the source of step i (or of the last step).
func stepSource(h prog.History, i int) string {
	if i < 0 || i >= len(h.Steps) {
		i = len(h.Steps) - 1
	}
	return h.Steps[i].Source
}
