package cv

import (
	"fmt"
	"math/rand"
	"sort"
	"strings"
	"testing"

	"verif/lib/evid"
	"verif/lib/host"
	"verif/lib/prog"
	"verif/lib/splicegen"
)

// ---- candidate grammar -----------------------------------------------------------------

// c07Tpl is one body construct. `#` is replaced by a unique number, `G` by the
// way the contract's own fields are reached from the candidate's position
// (`self` at contract level, `W` inside nested types), `EV` by the event name.
type c07Tpl struct {
	Label string
	Code  string
	// Mutating marks constructs from the impure pool (syntactically a write, a
	// mutating call, an emit, a storage/capability write, create/destroy): when the
	// checker accepts a body containing one, the case is non-trivial.
	Mutating bool
	// Forms restricts the construct to candidate forms ("" = all).
	Forms string
}

var c07Pool = []c07Tpl{
	// ---- reads, pure computations
	{"local-var", "var l# = 1\n l# = l# + a.length", false, ""},
	{"read-contract-state", "let g# = G.gArr.length + G.counter + G.gS.n", false, ""},
	{"call-view-functions", "let v# = s.sum() + rs.sum() + G.pure() + vf()", false, ""},
	{"read-through-references", "let v# = rr.n + st.n + ms.get() + sa.length + ra[0]", false, ""},
	{"string-ops", "let t# = a.length.toString().concat(\"x\").length", false, ""},
	{"string-template", "let t# = \"n=\\(a.length)\"", false, ""},
	{"view-closure", "let h# = view fun (): Int { return a.length + ra.length }\n let y# = h#()", false, ""},
	{"cast-read", "let k# = (rs as &AnyStruct) as! &Outer\n let z# = k#.n", false, ""},
	{"optional-chain-read", "let o# = s.opt?.get() ?? rs.opt?.get()", false, ""},
	{"array-view-builtins", "let c# = a.contains(1)\n let i# = a.firstIndex(of: 2)\n let sl# = a.slice(from: 0, upTo: 1)\n let cc# = ra.concat([1])\n let rv# = a.reverse()", false, ""},
	{"array-map-filter", "let m# = a.map(view fun (x: Int): Int { return x + 1 })\n let f# = ra.filter(view fun (x: Int): Bool { return x > 1 })", false, ""},
	{"dict-view-builtins", "let ks# = d.keys\n let vs# = rd.values\n let ck# = d.containsKey(\"x\")\n let dl# = rd.length", false, ""},
	{"deref-copy", "let cp# = *ra\n let n# = cp#.length", false, ""},
	{"storage-read", "let sr# = acct.storage.borrow<&[Int]>(from: /storage/arr)\n let sc# = acct.storage.copy<[Int]>(from: /storage/arr)\n let ty# = acct.storage.type(at: /storage/arr)\n let ck# = acct.storage.check<[Int]>(from: /storage/arr)", false, ""},
	{"capability-read", "let cp# = acct.capabilities.get<&[Int]>(/public/arr)\n let ok# = cp#.check()\n let br# = cp#.borrow()", false, ""},
	{"create-view-struct", "let ns# = VInner(n: 5)\n let q# = ns#.n", false, ""},
	{"type-tests", "let gt# = s.getType()\n let ii# = s.isInstance(Type<Outer>())\n let cs# = (s as AnyStruct) as? Outer", false, ""},
	{"loop-local", "var i# = 0\n while i# < 3 { i# = i# + 1 }\n for x in ra { i# = i# + x }", false, ""},
	{"conditional", "let w# = a.length > 1 ? a[1] : (ra.length > 0 ? ra[0] : 0)", false, ""},
	// ---- impure-looking constructs the checker may legitimately allow (local copies, parameters)
	{"param-array-index-assign", "a[0] = 42", true, ""},
	{"param-struct-copy-mutate-nested", "var c# = s\n c#.arr[0] = 1\n c#.dict[\"x\"] = 9", true, ""},
	{"local-array-copy-index-assign", "var b# = a\n b#[0] = 42", true, ""},
	{"local-copy-of-ref-target", "var cp# = *ra\n cp#[0] = 77", true, ""},
	{"local-dict-index-assign", "var e# = d\n e#[\"q\"] = 5\n d[\"x\"] = 2", true, ""},
	{"local-swap", "var p# = 1\n var q# = 2\n p# <-> q#", true, ""},
	{"local-array-swap", "var b# = a\n b#[0] <-> b#[1]", true, ""},
	{"param-array-swap", "a[0] <-> a[1]", true, ""},
	{"local-global-copy-mutate", "var gc# = G.gArr\n gc#[0] = 5\n var gs# = G.gS\n gs#.arr[0] = 6", true, ""},
	{"local-storage-copy-mutate", "var sc# = acct.storage.copy<[Int]>(from: /storage/arr)!\n sc#[0] = 13", true, ""},
	{"ref-to-local-index-assign", "var b# = a\n let rb# = &b# as auth(Mutate) &[Int]\n rb#[0] = 5", true, ""},
	{"local-array-append", "var b# = a\n b#.append(1)", true, ""},
	{"param-array-append", "a.append(1)", true, ""},
	// ---- impure: writes through references, to captured/contract/self state
	{"ref-index-assign", "ra[0] = 42", true, ""},
	{"ref-append", "ra.append(1)", true, ""},
	{"ref-remove", "let x# = ra.removeFirst()", true, ""},
	{"ref-insert", "ra.insert(at: 0, 9)", true, ""},
	{"ref-dict-assign", "rd[\"k\"] = 1", true, ""},
	{"ref-dict-insert", "let o# = rd.insert(key: \"z\", 1)", true, ""},
	{"ref-dict-remove", "let o# = rd.remove(key: \"k\")", true, ""},
	{"ref-swap", "ra[0] <-> ra[1]", true, ""},
	{"storage-ref-index-assign", "sa[0] = 42", true, ""},
	{"storage-ref-append", "sa.append(1)", true, ""},
	{"optional-chain-mutate", "let oa#: auth(Mutate) &[Int]? = ra\n oa#?.append(1)", true, ""},
	{"optional-chain-index-assign", "let oa#: auth(Mutate) &[Int]? = ra\n oa#![0] = 3", true, ""},
	{"array-of-refs-assign", "let rs# = [ra]\n rs#[0][0] = 3", true, ""},
	{"ref-from-ref-assign", "let r# = ra as auth(Mutate) &[Int]\n r#[1] = 9", true, ""},
	{"conditional-ref-assign", "(a.length > 0 ? ra : sa)[0] = 8", true, ""},
	{"ref-field-index-assign", "h.arrRef[0] = 42", true, ""},
	{"ref-field-append", "h.arrRef.append(1)", true, ""},
	{"ref-field-swap", "h.arrRef[0] <-> h.arrRef[1]", true, ""},
	{"ref-field-copy-index-assign", "var hc# = h\n hc#.arrRef[1] = 7", true, ""},
	{"ref-field-struct-read", "let q# = h.sRef.n + h.arrRef.length", false, ""},
	{"init-self-ref-index-assign", "self.ref[0] = 5", true, "view-init"},
	{"init-self-ref-append", "self.ref.append(1)", true, "view-init"},
	{"init-self-ref-swap", "self.ref[0] <-> self.ref[1]", true, "view-init"},
	{"array-map-impure-closure", "let m# = a.map(fun (x: Int): Int { G.counter = G.counter + x\n return x })", true, "global"},
	{"ref-array-map-impure-closure", "let m# = ra.map(fun (x: Int): Int { ra[0] = x\n return x })", true, ""},
	{"attach-to-struct-copy", "let at# = attach SAtt() to s\n let k# = at#[SAtt]?.k()", true, ""},
	{"contract-field-assign", "G.counter = 5", true, ""},
	{"contract-array-index-assign", "G.gArr[0] = 1", true, ""},
	{"contract-array-append", "G.gArr.append(1)", true, ""},
	{"contract-struct-nested-mutate", "G.gS.arr.append(1)", true, ""},
	{"contract-dict-nested-assign", "G.gDict[\"a\"]![0] = 1", true, ""},
	{"ref-from-contract-field-assign", "let r# = &G.gArr as auth(Mutate) &[Int]\n r#[0] = 9", true, ""},
	{"self-field-assign", "self.n = 5", true, "method"},
	{"self-array-index-assign", "self.arr[0] = 1", true, "struct-method"},
	{"self-array-append", "self.arr.append(1)", true, "struct-method"},
	{"self-nested-call", "self.inner.bump()", true, "struct-method"},
	{"self-impure-method", "self.touch()", true, "method"},
	{"self-items-assign", "self.items[0] = 4", true, "resource-method"},
	{"self-ref-assign", "let sr# = &self.s as auth(Mutate) &Outer\n let ar# = &self.items as auth(Mutate) &[Int]\n ar#[0] = 2", true, "resource-method"},
	{"captured-local-index-assign", "loc[0] = 1", true, "closure"},
	{"captured-local-append", "loc.append(1)", true, "closure"},
	{"captured-local-assign", "cnt = cnt + 1", true, "closure"},
	{"captured-struct-impure-call", "locS.touch()", true, "closure"},
	{"captured-local-read", "let z# = loc.length + locS.sum() + cnt", false, "closure"},
	// ---- impure: calls, events, storage, capabilities, resources
	{"call-impure-contract-fn", "let i# = G.impure()", true, ""},
	{"call-impure-on-param-copy", "s.touch()", true, ""},
	{"call-impure-fn-param", "let i# = f()", true, ""},
	{"call-impure-through-ref", "rr.touch()", true, ""},
	{"call-impure-through-storage-ref", "st.touch()", true, ""},
	{"call-entitled-setter", "ms.setN(3)", true, ""},
	{"impure-closure-call", "let h# = fun (): Int { return 1 }\n let y# = h#()", true, ""},
	{"view-closure-writes-capture", "var lc# = 1\n let h# = view fun (): Int { lc# = 2\n return lc# }\n let y# = h#()", true, ""},
	{"emit", "emit EV(x: 1)", true, ""},
	{"storage-save", "acct.storage.save(1, to: /storage/new#)", true, ""},
	{"storage-load", "let l# = acct.storage.load<[Int]>(from: /storage/arr)", true, ""},
	{"capability-issue", "let c# = acct.capabilities.storage.issue<&[Int]>(/storage/arr)", true, ""},
	{"capability-unpublish", "let c# = acct.capabilities.unpublish(/public/arr)", true, ""},
	{"create-destroy", "let nr# <- create Res()\n destroy nr#", true, ""},
	{"construct-impure-init", "let ns# = Inner(n: 5)", true, ""},
	{"cast-to-auth-then-mutate", "let m# = rs.arr as! auth(Mutate) &[Int]\n m#[0] = 1", true, ""},
}

// bool expressions for pre/post conditions (form "condition")
var c07Conds = []c07Tpl{
	{"cond-read", "a.length >= 0 && ra.length >= 0", false, ""},
	{"cond-view-call", "vf() >= 0 && s.sum() >= 0 && G.pure() >= 0", false, ""},
	{"cond-view-closure", "(view fun (): Bool { return true })()", false, ""},
	{"cond-contains", "a.contains(1) || true", false, ""},
	{"cond-storage-read", "acct.storage.check<[Int]>(from: /storage/arr)", false, ""},
	{"cond-impure-fn-param", "f() >= 0", true, ""},
	{"cond-impure-contract-fn", "G.impure() > 0", true, ""},
	{"cond-ref-remove", "ra.removeFirst() >= 0", true, ""},
	{"cond-dict-remove", "rd.remove(key: \"k\") == nil || true", true, ""},
	{"cond-impure-closure", "(fun (): Bool { return true })()", true, ""},
	{"cond-touch", "rr.touch() == nil || true", true, ""},
	{"cond-storage-load", "acct.storage.load<[Int]>(from: /storage/arr) != nil", true, ""},
}

const c07Params = "a: [Int], d: {String: Int}, s: Outer, ra: auth(Mutate) &[Int], rd: auth(Mutate) &{String: Int}, rs: &Outer, ms: auth(M) &Inner, " +
	"rr: &Res, st: &Res, sa: auth(Mutate) &[Int], acct: auth(Storage, Capabilities) &Account, f: fun(): Int, vf: view fun(): Int, h: Holder"

const c07Args = "a: a, d: d, s: s, ra: &arrT as auth(Mutate) &[Int], rd: &dictT as auth(Mutate) &{String: Int}, rs: &sT as &W.Outer, " +
	"ms: &inT as auth(W.M) &W.Inner, rr: &res as &W.Res, st: st, sa: sa, acct: acct, f: f, vf: vf, h: W.Holder(&arrT as auth(Mutate) &[Int], &sT as &W.Outer)"

// c07Customs are fixed candidates that do not fit the common parameter list. Each is decided by the checker on every
// run; accepted ones are executed under the same oracle. They keep constructs in the pool whose acceptance would be a
// regression (second-value transfer, map with an impure closure) and judge `attach` in a view function.
var c07Customs = []c07Case{
	{Form: "custom", Labels: []string{"custom:attach-to-resource-argument"},
		Decl:     "access(all) view fun cand(r: @Res): @Res { return <- attach Att() to <- r }",
		Call:     "let res2 <- W.cand(r: <- res)",
		ResAfter: "res2"},
	{Form: "custom", Labels: []string{"custom:attach-to-struct-argument"},
		Decl: "access(all) view fun cand(_ o: Outer): Bool { let o2 = attach SAtt() to o\n return o2[SAtt] != nil }",
		Call: "let out = W.cand(sT)"},
	{Form: "custom", Labels: []string{"custom:second-value-transfer"},
		Decl:     "access(all) view fun cand(r: @Res, repl: @Res?): @[Res?] { let old <- r.kid <- repl\n return <- [<- r, <- old] }",
		Call:     "let parts <- W.cand(r: <- res, repl: <- W.mkRes())\n        let res2 <- parts.remove(at: 0)!\n        destroy parts",
		ResAfter: "res2"},
	// second-value transfer onto a nested resource field / dictionary-of-resources field of `self` (the shapes of seeded/C07-a),
	// called on a local and on a stored resource; the replacement is passed in or created in the body
	{Form: "custom", Labels: []string{"custom:second-value-transfer-self-field-local"},
		ResDecl: "access(all) view fun cand(_ replacement: @Res?): @Res? { let old <- self.kid <- replacement\n return <- old }",
		Call:    "let out <- res.cand(<- W.mkRes())\n        destroy out"},
	{Form: "custom", Labels: []string{"custom:second-value-transfer-self-field-stored"},
		ResDecl: "access(all) view fun cand(_ replacement: @Res?): @Res? { let old <- self.kid <- replacement\n return <- old }",
		Call:    "let out <- st.cand(<- W.mkRes())\n        destroy out"},
	{Form: "custom", Labels: []string{"custom:second-value-transfer-self-dictionary-local"},
		ResDecl: "access(all) view fun cand(_ replacement: @Res): @Res? { let old <- self.kidsByName[\"a\"] <- replacement\n return <- old }",
		Call:    "let out <- res.cand(<- W.mkRes())\n        destroy out"},
	{Form: "custom", Labels: []string{"custom:second-value-transfer-self-dictionary-stored"},
		ResDecl: "access(all) view fun cand(_ replacement: @Res): @Res? { let old <- self.kidsByName[\"a\"] <- replacement\n return <- old }",
		Call:    "let out <- st.cand(<- W.mkRes())\n        destroy out"},
	{Form: "custom", Labels: []string{"custom:second-value-transfer-self-field-created-in-body"},
		ResDecl: "access(all) view fun cand(): @Res? { let old <- self.kid <- create Res()\n return <- old }",
		Call:    "let out <- res.cand()\n        destroy out"},
	{Form: "custom", Labels: []string{"custom:map-impure-closure"},
		Decl: "access(all) view fun cand(_ a: [Int]): Int { let m = a.map(fun (x: Int): Int { self.counter = self.counter + x\n return x })\n return m.length }",
		Call: "let out = W.cand(a)"},
	{Form: "custom", Labels: []string{"custom:view-init-assigns-through-self-ref-field"},
		Decl: "access(all) struct SX { access(all) var x: Int\n init() { self.x = 1 }\n access(all) fun setX(_ v: Int) { self.x = v } }\n" +
			"    access(all) struct RI2 { access(all) let ref: auth(Mutate) &[Int]\n view init(_ r: auth(Mutate) &[Int]) { self.ref = r\n self.ref[0] = 5 } }\n" +
			"    access(all) fun cand(_ r: auth(Mutate) &[Int]): Int { let v = RI2(r)\n return 0 }",
		Call: "let out = W.cand(&arrT as auth(Mutate) &[Int])"},
	{Form: "custom", Labels: []string{"custom:remove-attachment-from-resource-argument"},
		Decl:     "access(all) view fun cand(r: @Res): @Res { remove Att from r\n return <- r }",
		Call:     "let res2 <- W.cand(r: <- res)",
		ResAfter: "res2"},
}

// c07FindingFor maps an oracle failure to the known finding whose narrow predicate (a specific construct in the
// accepted body) it matches.
func c07FindingFor(c c07Case) string {
	for _, l := range c.Labels {
		switch l {
		case "ref-field-index-assign", "ref-field-swap", "ref-field-copy-index-assign":
			return "FF12" // index assignment / swap through a reference-typed FIELD
		case "init-self-ref-index-assign", "init-self-ref-swap", "custom:view-init-assigns-through-self-ref-field":
			return "FF13" // view initializer writes through a reference stored in a field of self
		case "custom:attach-to-resource-argument":
			return "FF14" // attach in a view function mutates the resource argument
		}
	}
	return ""
}

// c07Forms are the positions a candidate can take.
var c07Forms = []string{"global", "struct-method", "struct-method-via-ref", "resource-method", "stored-resource-method", "closure", "view-init", "condition"}

// c07Case is one candidate — also the replay format.
type c07Case struct {
	// Custom candidates (fixed list c07Customs) carry their own declaration and call.
	Decl     string `json:"decl,omitempty"`      // contract-level declarations incl. the candidate
	ResDecl  string `json:"res_decl,omitempty"`  // candidate declared as a method of resource Res
	Call     string `json:"call,omitempty"`      // statements that call it (replace `let out = ...`)
	ResAfter string `json:"res_after,omitempty"` // variable holding the local resource after the call (default res)

	Form   string   `json:"form"`
	Labels []string `json:"constructs"`
	Body   string   `json:"body"`           // statements (forms other than condition)
	Pre    string   `json:"pre,omitempty"`  // condition form
	Post   string   `json:"post,omitempty"` // condition form
	Emit   bool     `json:"emit_condition,omitempty"`
}

func formClass(form string) string {
	switch form {
	case "struct-method", "struct-method-via-ref":
		return "struct-method"
	case "resource-method", "stored-resource-method":
		return "resource-method"
	}
	return form
}

func tplFits(t c07Tpl, form string) bool {
	switch t.Forms {
	case "":
		return true
	case "method":
		return strings.Contains(form, "method")
	default:
		return t.Forms == formClass(form)
	}
}

func c07Generate(r *rand.Rand) c07Case {
	form := c07Forms[r.Intn(len(c07Forms))]
	c := c07Case{Form: form}
	g := "W"
	if form == "global" || form == "closure" || form == "condition" {
		g = "self"
	}
	subst := func(code string, n int) string {
		code = strings.ReplaceAll(code, "#", fmt.Sprint(n))
		code = strings.ReplaceAll(code, "G.", g+".")
		return strings.ReplaceAll(code, "EV", "Ev")
	}
	if form == "condition" {
		p := c07Conds[r.Intn(len(c07Conds))]
		q := c07Conds[r.Intn(len(c07Conds))]
		c.Pre, c.Post = subst(p.Code, 1), subst(q.Code, 2)
		c.Labels = []string{p.Label, q.Label}
		if r.Intn(4) == 0 {
			c.Post = "before(a.length) == a.length && " + c.Post
		}
		c.Emit = r.Intn(5) == 0
		return c
	}
	var fit []c07Tpl
	for _, t := range c07Pool {
		if tplFits(t, form) {
			fit = append(fit, t)
		}
	}
	n := []int{1, 1, 2, 2, 3, 4}[r.Intn(6)]
	var lines []string
	for i := 0; i < n; i++ {
		// bias: half of the draws come from the impure pool (which is the larger one)
		var t c07Tpl
		for {
			t = fit[r.Intn(len(fit))]
			if t.Mutating == (r.Intn(2) != 0) {
				break
			}
		}
		// form-specific constructs are preferred when available
		if r.Intn(5) == 0 {
			for try := 0; try < 6; try++ {
				if x := fit[r.Intn(len(fit))]; x.Forms != "" {
					t = x
					break
				}
			}
		}
		c.Labels = append(c.Labels, t.Label)
		lines = append(lines, subst(t.Code, i+1))
	}
	c.Body = strings.Join(lines, "\n ")
	return c
}

func tplByLabel(l string) (c07Tpl, bool) {
	for _, t := range c07Pool {
		if t.Label == l {
			return t, true
		}
	}
	for _, t := range c07Conds {
		if t.Label == l {
			return t, true
		}
	}
	return c07Tpl{}, false
}

// contract renders world contract W with the candidate placed at its form's position.
func (c c07Case) contract() string {
	ind := func(body string) string { return strings.ReplaceAll(body, "\n", "\n            ") }
	structCand, resCand, globalCand := "", "", ""
	switch c.Form {
	case "custom":
		globalCand, resCand = c.Decl, c.ResDecl
	case "global":
		globalCand = "access(all) view fun cand(" + c07Params + "): Int {\n            " + ind(c.Body) + "\n            return 0\n        }"
	case "struct-method", "struct-method-via-ref":
		structCand = "access(all) view fun cand(" + c07Params + "): Int {\n            " + ind(c.Body) + "\n            return 0\n        }"
	case "resource-method", "stored-resource-method":
		resCand = "access(all) view fun cand(" + c07Params + "): Int {\n            " + ind(c.Body) + "\n            return 0\n        }"
	case "closure":
		globalCand = "access(all) fun cand(" + c07Params + "): Int {\n" +
			"            var loc = [7, 8, 9]\n            var locS = Outer()\n            var cnt = 0\n" +
			"            log(loc)\n            log(locS)\n            log(cnt)\n" +
			"            let c = view fun (): Int {\n            " + ind(c.Body) + "\n            return 0\n            }\n" +
			"            let out = c()\n" +
			"            log(loc)\n            log(locS)\n            log(cnt)\n            return out\n        }"
	case "view-init":
		globalCand = "access(all) struct VI {\n            access(all) var k: Int\n            access(all) let ref: auth(Mutate) &[Int]\n            view init(" + c07Params + ") {\n            self.k = 0\n            self.ref = ra\n            " +
			ind(c.Body) + "\n            }\n        }\n" +
			"        access(all) fun cand(" + c07Params + "): Int {\n            let vi = VI(" + strings.ReplaceAll(c07CallThrough, "W.", "") + ")\n            return vi.k\n        }"
	case "condition":
		pre := "pre { " + c.Pre + " }"
		post := "post { " + c.Post + " }"
		if c.Emit {
			post = "post { " + c.Post + "\n emit Ev(x: 7) }"
		}
		globalCand = "access(all) fun cand(" + c07Params + "): Int {\n            " + pre + "\n            " + post + "\n            return 0\n        }"
	}
	return `access(all) contract W {
    access(all) entitlement M
    access(all) event Ev(x: Int)

    access(all) struct VInner {
        access(all) var n: Int
        view init(n: Int) { self.n = n }
    }
    access(all) struct Inner {
        access(all) var n: Int
        access(all) var xs: [Int]
        init(n: Int) { self.n = n; self.xs = [n, n + 1] }
        access(all) fun bump() { self.n = self.n + 1 }
        access(all) view fun get(): Int { return self.n }
        access(M) fun setN(_ v: Int) { self.n = v }
    }
    access(all) struct Holder {
        access(all) let arrRef: auth(Mutate) &[Int]
        access(all) let sRef: &Outer
        init(_ r: auth(Mutate) &[Int], _ s: &Outer) { self.arrRef = r; self.sRef = s }
    }
    access(all) attachment SAtt for Outer {
        access(all) view fun k(): Int { return 1 }
    }
    access(all) attachment Att for Res {
        access(all) view fun k(): Int { return 1 }
    }
    access(all) struct Outer {
        access(all) var inner: Inner
        access(all) var arr: [Int]
        access(all) var dict: {String: Int}
        access(all) var opt: Inner?
        access(all) var n: Int
        init() {
            self.inner = Inner(n: 1)
            self.arr = [10, 20, 30]
            self.dict = {"x": 1, "y": 2}
            self.opt = Inner(n: 2)
            self.n = 3
        }
        access(all) fun touch() { self.n = self.n + 1; self.arr.append(self.n) }
        access(all) view fun sum(): Int { return self.n + self.inner.get() + self.arr.length }
        ` + structCand + `
    }
    access(all) resource Res {
        access(all) var n: Int
        access(all) var items: [Int]
        access(all) var s: Outer
        access(all) var kid: @Res?
        access(all) var kidsByName: @{String: Res}
        init() { self.n = 5; self.items = [1, 2]; self.s = Outer(); self.kid <- nil; self.kidsByName <- {} }
        access(all) fun touch() { self.n = self.n + 1; self.items.append(self.n) }
        ` + resCand + `
    }
    access(all) var gArr: [Int]
    access(all) var gS: Outer
    access(all) var gDict: {String: [Int]}
    access(all) var counter: Int
    access(all) fun impure(): Int { self.counter = self.counter + 1; return self.counter }
    access(all) view fun pure(): Int { return self.counter }
    access(all) fun mkRes(): @Res { return <- create Res() }
    ` + globalCand + `
    init() {
        self.gArr = [1, 2, 3]
        self.gS = Outer()
        self.gDict = {"a": [1, 2], "b": []}
        self.counter = 0
    }
}
`
}

const c07CallThrough = "a: a, d: d, s: s, ra: ra, rd: rd, rs: rs, ms: ms, rr: rr, st: st, sa: sa, acct: acct, f: f, vf: vf, h: h"

const c07SetupTx = `import W from 0x1
transaction {
    prepare(acct: auth(Storage, Capabilities) &Account) {
        acct.storage.save(<- W.mkRes(), to: /storage/res)
        acct.storage.save([4, 5, 6], to: /storage/arr)
        acct.storage.save(W.Outer(), to: /storage/outer)
        let cap = acct.capabilities.storage.issue<&[Int]>(/storage/arr)
        acct.capabilities.publish(cap, at: /public/arr)
    }
}`

// c07Snapshot is the generated serializer: it logs every value that exists
// before the call and is reachable from the arguments, the captured variables,
// the receiver, the contract and the account storage.
const c07Snapshot = `
        log(a); log(d); log(s); log(arrT); log(dictT); log(sT); log(inT); log(recv); log(recvT)
        log(&res as &W.Res); log(res[W.Att] == nil); log(res.kid == nil); log(res.kid?.uuid); log(res.kidsByName.keys); log(res.kidsByName["a"]?.uuid)
        log(st); log(st.kid?.uuid); log(st.kidsByName["a"]?.uuid); log(sa)
        log(W.gArr); log(W.gS); log(W.gDict); log(W.counter)
        log(acct.storage.copy<[Int]>(from: /storage/arr)); log(acct.storage.copy<W.Outer>(from: /storage/outer))
        log(acct.storage.borrow<&W.Res>(from: /storage/res)); log(acct.storage.storagePaths); log(acct.storage.publicPaths)
        log(acct.capabilities.storage.getControllers(forPath: /storage/arr).length)
        log(acct.capabilities.get<&[Int]>(/public/arr).check())
`

// testTx renders the transaction that takes the snapshot, calls the candidate
// (unless control), and takes the snapshot again.
func (c c07Case) testTx(control bool) string {
	call := ""
	switch c.Form {
	case "global", "closure", "view-init", "condition":
		call = "W.cand(" + c07Args + ")"
	case "struct-method":
		call = "recv.cand(" + c07Args + ")"
	case "struct-method-via-ref":
		call = "(&recvT as &W.Outer).cand(" + c07Args + ")"
	case "resource-method":
		call = "res.cand(" + c07Args + ")"
	case "stored-resource-method":
		call = "st.cand(" + c07Args + ")"
	}
	stmt := "let out = " + call
	if c.Form == "custom" {
		stmt = c.Call
	}
	if control {
		stmt = "let out = 0"
	}
	after := c07Snapshot
	destroyName := "res"
	if c.ResAfter != "" && !control {
		after = strings.ReplaceAll(strings.ReplaceAll(strings.ReplaceAll(c07Snapshot, "&res as", "&"+c.ResAfter+" as"), "res[W.Att]", c.ResAfter+"[W.Att]"), "(res.kid", "("+c.ResAfter+".kid")
		destroyName = c.ResAfter
	}
	return `import W from 0x1
transaction {
    prepare(acct: auth(Storage, Capabilities) &Account) {
        var a = [1, 2, 3]
        var d = {"x": 1, "k": 2}
        var s = W.Outer()
        var arrT = [4, 5, 6]
        var dictT = {"k": 7, "m": 8}
        var sT = W.Outer()
        var inT = W.Inner(n: 3)
        var recv = W.Outer()
        var recvT = W.Outer()
        let res <- W.mkRes()
        let st = acct.storage.borrow<&W.Res>(from: /storage/res)!
        let sa = acct.storage.borrow<auth(Mutate) &[Int]>(from: /storage/arr)!
        let f = fun (): Int { arrT.append(99); return 1 }
        let vf = view fun (): Int { return arrT.length }
` + c07Snapshot + `
        log("CALL")
        ` + stmt + `
        log("DONE")
` + after + `
        destroy ` + destroyName + `
    }
}`
}

func (c c07Case) history(control bool) prog.History {
	return prog.History{Steps: []prog.Step{
		{Kind: prog.Deploy, Name: "W", Source: c.contract(), Signers: []uint64{1}},
		{Kind: prog.Tx, Source: c07SetupTx, Signers: []uint64{1}},
		{Kind: prog.Tx, Source: c.testTx(control), Signers: []uint64{1}, MayFail: true},
	}}
}

// c07Accepted: the checker accepts the candidate as view (contract and caller check).
func c07Accepted(c c07Case) bool {
	ck := splicegen.Check(nil, splicegen.KContract, c.contract())
	return ck.OK()
}

type c07Verdict struct {
	Msg      string
	Finding  string // known finding whose narrow predicate the failure matches
	Class    string // outcome of the candidate call
	Executed bool
}

func splitAt(logs []string, marker string) int {
	for i, l := range logs {
		if l == marker {
			return i
		}
	}
	return -1
}

func c07Evaluate(c c07Case, e host.Engine) c07Verdict {
	h := host.New()
	hist := c.history(false)
	r0 := splicegen.RunStep(h, hist.Steps[0], splicegen.Options(e, false))
	if r0.Err != nil || r0.Panic != nil {
		return c07Verdict{Msg: fmt.Sprintf("accepted world contract failed to deploy: %v %v", r0.Err, r0.Panic)}
	}
	r1 := splicegen.RunStep(h, hist.Steps[1], splicegen.Options(e, false))
	if r1.Err != nil || r1.Panic != nil {
		return c07Verdict{Msg: fmt.Sprintf("setup transaction failed: %v %v", r1.Err, r1.Panic)}
	}
	before := h.Ledger.Digest()
	uuidBefore := h.UUID
	r2 := splicegen.RunStep(h, hist.Steps[2], splicegen.Options(e, false))
	ci := host.Classify(r2)
	v := c07Verdict{Class: ci.Class}
	if ci.Class == "internal" || ci.Class == "panic" {
		v.Msg = fmt.Sprintf("view call ended with class %s root %s: %v %v", ci.Class, ci.Root, r2.Err, r2.Panic)
		return v
	}
	logs := r2.Logs
	iCall, iDone := splitAt(logs, `"CALL"`), splitAt(logs, `"DONE"`)
	if iCall < 0 {
		v.Msg = fmt.Sprintf("harness: snapshot before the call not taken (%s %s): %v", ci.Class, ci.Root, r2.Err)
		return v
	}
	// no register write and no event while the candidate ran (the harness itself writes nothing in this transaction)
	wantEvents := 0
	if c.Emit && iDone >= 0 {
		wantEvents = 1
	}
	if ci.Class == "ok" {
		if len(r2.Writes) != 0 || h.Ledger.Digest() != before {
			v.Msg = fmt.Sprintf("%d host SetValue calls / ledger changed during a transaction that only calls the view candidate", len(r2.Writes))
			return v
		}
	}
	if len(r2.Events) != wantEvents {
		v.Msg = fmt.Sprintf("%d events emitted around the view call, want %d", len(r2.Events), wantEvents)
		// FF6: the body of the view candidate itself contains an `emit` statement (the checker does not treat it as impure)
		nEmit := 0
		for _, l := range c.Labels {
			if l == "emit" {
				nEmit++
			}
		}
		if nEmit > 0 && len(r2.Events) <= wantEvents+nEmit {
			v.Finding = "FF6"
		}
		return v
	}
	if iDone < 0 {
		// the candidate aborted (user error such as index out of bounds): nothing is committed, nothing to compare
		if h.Ledger.Digest() != before {
			v.Msg = "ledger changed by a failed transaction"
		}
		_ = uuidBefore
		return v
	}
	v.Executed = true
	pre, post := logs[:iCall], logs[iDone+1:]
	if c.Form == "closure" {
		// the host function logs the captured locals before and after the closure call
		mid := logs[iCall+1 : iDone]
		if len(mid) != 6 {
			v.Msg = fmt.Sprintf("harness: expected 6 capture snapshots, got %q", mid)
			return v
		}
		pre = append(append([]string(nil), pre...), mid[:3]...)
		post = append(append([]string(nil), post...), mid[3:]...)
	}
	if len(pre) != len(post) {
		v.Msg = fmt.Sprintf("harness: snapshot sizes differ (%d vs %d)", len(pre), len(post))
		return v
	}
	for i := range pre {
		if pre[i] != post[i] {
			v.Msg = fmt.Sprintf("pre-existing value #%d changed across the view call:\n   before: %s\n   after:  %s", i, pre[i], post[i])
			v.Finding = c07FindingFor(c)
			return v
		}
	}
	return v
}

func TestC07(t *testing.T) {
	rec := evid.Start(t, "C07",
		"candidate `view` functions (contract function, struct method direct/through reference, resource method local/stored, view closure with captures, view initializer, "+
			"pre/post conditions incl. emit conditions) with bodies of 1-4 constructs drawn 1:1 from an impure pool (assignments, index writes, swaps, mutating built-ins through "+
			"references/optional chains/derefs/captures/self/contract fields, impure calls, emit, storage/capability writes, create/destroy, casts) and a pure pool; only candidates the checker "+
			"accepts are executed, in a transaction on both engines: no host SetValue, ledger digest unchanged, no events (except the declared emit condition), and the log()-serialisation of every "+
			"pre-existing value reachable from arguments, captures, receiver, contract fields and account storage is identical before and after the call. "+
			"Non-trivial: accepted and executed, and the body contains a construct of the impure pool or >= 2 constructs; distinct by (form, body).")
	replaying := evid.ReplayFile() != ""
	if rec.Known("FF6") {
		v := c07Evaluate(c07Case{Form: "global", Labels: []string{"emit"}, Body: "emit Ev(x: 1)"}, host.Interp)
		rec.ReportKnown("FF6", v.Msg != "")
	}
	for id, repro := range map[string]c07Case{
		"FF12": {Form: "global", Labels: []string{"ref-field-index-assign"}, Body: "h.arrRef[0] = 42"},
		"FF13": {Form: "view-init", Labels: []string{"init-self-ref-index-assign"}, Body: "self.ref[0] = 5"},
		"FF14": c07Customs[0],
	} {
		if rec.Known(id) {
			still := false
			if c07Accepted(repro) {
				for _, e := range host.Engines {
					if v := c07Evaluate(repro, e); v.Msg != "" {
						still = true
					}
				}
			}
			rec.ReportKnown(id, still)
		}
	}
	eval := func(c c07Case) string {
		nontrivial := false
		for _, e := range host.Engines {
			v := c07Evaluate(c, e)
			if v.Msg != "" && v.Finding != "" && !replaying && rec.Known(v.Finding) {
				rec.Excluded(v.Finding)
				return ""
			}
			if v.Msg != "" {
				return e.String() + ": " + v.Msg
			}
			rec.Class("call-outcome:" + v.Class)
			if v.Executed {
				nontrivial = true
			}
		}
		mut := false
		for _, l := range c.Labels {
			if tp, ok := tplByLabel(l); ok && tp.Mutating {
				mut = true
			}
		}
		rec.Case(nontrivial && (mut || len(c.Labels) >= 2), c.Form, c.Body, c.Pre, c.Post, c.Emit)
		if mut {
			rec.Class("accepted-with-impure-pool-construct")
		}
		return ""
	}
	if p := evid.ReplayFile(); p != "" {
		var c c07Case
		if err := evid.LoadReplay(p, &c); err != nil {
			t.Fatalf("cannot load replay: %v", err)
		}
		if !c07Accepted(c) {
			t.Logf("candidate is no longer accepted as view by the checker")
			return
		}
		if msg := eval(c); msg != "" {
			rec.Violation(t, c, "%s\n%s", msg, c.contract())
		}
		return
	}
	// harness self-check: the control transaction (no call) writes nothing and its snapshots agree
	{
		ctl := c07Case{Form: "global", Body: "let z = 1"}
		for _, e := range host.Engines {
			if v := c07Evaluate(ctl, e); v.Msg != "" || !v.Executed {
				rec.Inconclusive(t, "harness self-check failed on %s: %s", e, v.Msg)
			}
		}
	}
	r := evid.Rand(7)
	n := evid.N(1000, 10000)
	tried, accepted := map[string]int{}, map[string]int{}
	total, acc := 0, 0
	for i := 0; i < n; i++ {
		c := c07Generate(r)
		total++
		ok := c07Accepted(c)
		for _, l := range c.Labels {
			tried[l]++
			if ok {
				accepted[l]++
			}
		}
		rec.Class("form:" + c.Form)
		if !ok {
			rec.Class("checker-rejected-as-view")
			continue
		}
		acc++
		rec.Class("accepted-form:" + c.Form)
		if rec.WantSample(c.Form) {
			rec.Sample(c.Form, c)
		}
		if msg := eval(c); msg != "" {
			rec.Violation(t, c, "%s\n%s", msg, c.contract())
		}
	}
	// every construct alone (single-construct bodies), so that each impure construct is decided by the checker at least once
	for _, tp := range c07Pool {
		for _, form := range c07Forms {
			if form == "condition" || !tplFits(tp, form) {
				continue
			}
			g := "W"
			if form == "global" || form == "closure" {
				g = "self"
			}
			code := strings.ReplaceAll(strings.ReplaceAll(strings.ReplaceAll(tp.Code, "#", "1"), "G.", g+"."), "EV", "Ev")
			c := c07Case{Form: form, Labels: []string{tp.Label}, Body: code}
			ok := c07Accepted(c)
			tried[tp.Label]++
			if !ok {
				rec.Class("single:rejected")
				continue
			}
			accepted[tp.Label]++
			rec.Class("single:accepted")
			if msg := eval(c); msg != "" {
				rec.Violation(t, c, "%s\n%s", msg, c.contract())
			}
			if form != "global" && tp.Forms == "" {
				break // one generic position plus the global one is enough for generic constructs
			}
		}
	}
	for _, c := range c07Customs {
		ok := c07Accepted(c)
		tried[c.Labels[0]]++
		if !ok {
			rec.Class(c.Labels[0] + ":rejected")
			continue
		}
		accepted[c.Labels[0]]++
		rec.Class(c.Labels[0] + ":accepted")
		if msg := eval(c); msg != "" {
			rec.Violation(t, c, "%s\n%s", msg, c.contract())
		}
	}
	table := map[string]string{}
	var labels []string
	for l := range tried {
		labels = append(labels, l)
	}
	sort.Strings(labels)
	for _, l := range labels {
		table[l] = fmt.Sprintf("%d/%d", accepted[l], tried[l])
	}
	rec.Extra("accepted_per_construct", table)
	rate := float64(acc) / float64(total)
	rec.Extra("view_accept_rate", rate)
	if rate < 0.10 {
		rec.Inconclusive(t, "only %.1f%% of the candidates are accepted as view", rate*100)
	}
	rec.RequireClasses(t, "accepted-form:global", "accepted-form:struct-method", "accepted-form:resource-method", "accepted-form:closure",
		"accepted-form:view-init", "accepted-form:condition", "accepted-with-impure-pool-construct", "call-outcome:ok")
}
