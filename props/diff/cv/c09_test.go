package cv

import (
	"fmt"
	"math/rand"
	"regexp"
	"strings"
	"testing"

	"verif/lib/evid"
	"verif/lib/host"
	"verif/lib/prog"
	"verif/lib/splicegen"
)

// ---- universe ---------------------------------------------------------------------

const c09Prelude = `
access(all) entitlement E
access(all) entitlement F
access(all) entitlement G
access(all) struct interface SI {}
access(all) struct interface SJ: SI {}
access(all) struct S: SJ { access(all) let x: Int; init(x: Int) { self.x = x } }
access(all) struct S2: SI { access(all) var a: [Int]; init() { self.a = [1] } }
access(all) enum Col: UInt8 { access(all) case red; access(all) case green }
access(all) resource interface RI {}
access(all) resource interface RJ {}
access(all) resource R: RI { access(all) let n: Int; init() { self.n = 7 } }
access(all) resource Q: RI, RJ {}
`

// c09Value is a value expression with its declared static type.
type c09Value struct {
	Setup  []string `json:"setup,omitempty"` // statements run before (declare helper variables)
	Expr   string   `json:"expr"`
	T0     string   `json:"type"`
	Depth  int      `json:"depth"`
	Kind   string   `json:"kind"` // class label of the root
	HasRef bool     `json:"has_ref,omitempty"`
	Acct   bool     `json:"acct,omitempty"`
}

// c09Case is one evaluated (value, target) pair — also the replay format.
type c09Case struct {
	Value    c09Value `json:"value"`
	Opt      int      `json:"optional_depth"` // 0: v is not optional; k>0: inner wrapped k times in Some
	Nil      bool     `json:"nil,omitempty"`  // v is nil (typed T0?)
	Target   string   `json:"target"`
	Resource bool     `json:"resource,omitempty"` // resource-kinded variant (v: @AnyResource)
}

// entitlement-set authorizations: single, conjunctions and disjunctions over E, F, G ("" = unauthorized)
var c09Auths = []string{"", "auth(E) ", "auth(F) ", "auth(G) ", "auth(E, F) ", "auth(E, G) ", "auth(F, G) ", "auth(E | F) ", "auth(E | G) ", "auth(F | G) ", "auth(E, F, G) "}

var c09AuthRe = regexp.MustCompile(`auth\([^)]*\) `)

type c09Gen struct {
	r    *rand.Rand
	nvar int
}

func (g *c09Gen) fresh() string { g.nvar++; return fmt.Sprintf("h%d", g.nvar) }

type leaf struct{ expr, typ, kind string }

var c09Leaves = []leaf{
	{"(1 as Int)", "Int", "number"}, {"(-5 as Int8)", "Int8", "number"}, {"(200 as UInt8)", "UInt8", "number"},
	{"(7 as UInt64)", "UInt64", "number"}, {"(1 as Int256)", "Int256", "number"}, {"(3 as Word64)", "Word64", "number"},
	{"(1.5 as UFix64)", "UFix64", "number"}, {"(-2.25 as Fix64)", "Fix64", "number"}, {"(1 as UInt)", "UInt", "number"},
	{"\"abc\"", "String", "string"}, {"\"\"", "String", "string"}, {"(\"a\" as Character)", "Character", "string"},
	{"true", "Bool", "bool"}, {"(0x1 as Address)", "Address", "address"},
	{"/storage/a", "StoragePath", "path"}, {"/public/b", "PublicPath", "path"},
	{"Type<Int>()", "Type", "type"}, {"Type<&S>()", "Type", "type"},
	{"S(x: 1)", "S", "composite"}, {"S2()", "S2", "composite"}, {"Col.red", "Col", "enum"},
	{"(fun (x: Int): Int { return x })", "fun(Int): Int", "function"},
	{"(view fun (x: Int): Int { return x })", "view fun(Int): Int", "function"},
	{"InclusiveRange(1, 3)", "InclusiveRange<Int>", "range"},
	{"InclusiveRange(1 as Int8, 3 as Int8)", "InclusiveRange<Int8>", "range"},
}

// supertypes usable as declared element types of containers holding a T0 value.
func (g *c09Gen) declaredFor(t0 string) string {
	opts := []string{t0, t0, t0, "AnyStruct", t0 + "?"}
	switch t0 {
	case "S":
		opts = append(opts, "{SI}", "{SJ}", "{SI}")
	case "S2":
		opts = append(opts, "{SI}")
	case "Int", "Int8", "UInt8", "UInt64", "Int256", "UInt":
		opts = append(opts, "Integer", "Number")
	case "UFix64", "Fix64":
		opts = append(opts, "FixedPoint", "Number")
	case "String", "Bool", "Address", "Character":
		opts = append(opts, "HashableStruct")
	}
	if strings.HasPrefix(t0, "fun") || strings.HasPrefix(t0, "view fun") || strings.HasPrefix(t0, "auth") || strings.HasPrefix(t0, "&") {
		return "(" + t0 + ")"
	}
	return opts[g.r.Intn(len(opts))]
}

func parenT(t string) string {
	if strings.HasPrefix(t, "fun") || strings.HasPrefix(t, "view fun") || strings.HasPrefix(t, "auth") || strings.HasPrefix(t, "&") {
		return "(" + t + ")"
	}
	return t
}

var hashableLeaves = []leaf{{"\"k\"", "String", ""}, {"(1 as Int)", "Int", ""}, {"true", "Bool", ""}, {"(0x2 as Address)", "Address", ""}, {"Col.green", "Col", ""}}

// authRef is a reference to a struct with an entitlement-set authorization (1-3 entitlements, conjunction or disjunction).
func (g *c09Gen) authRef() c09Value {
	h := g.fresh()
	borrow := []string{"S", "S", "{SI}", "AnyStruct"}[g.r.Intn(4)]
	t := c09Auths[1+g.r.Intn(len(c09Auths)-1)] + "&" + borrow
	return c09Value{Setup: []string{fmt.Sprintf("let %s: S = S(x: 3)", h)}, Expr: "(&" + h + " as " + t + ")", T0: t, Kind: "reference", Depth: 1, HasRef: true}
}

func (g *c09Gen) value(depth int) c09Value {
	r := g.r
	k := r.Intn(100)
	if depth >= 2 || k < 38 {
		l := c09Leaves[r.Intn(len(c09Leaves))]
		return c09Value{Expr: l.expr, T0: l.typ, Kind: l.kind, Depth: 0}
	}
	switch {
	case k < 52: // variable-sized / constant-sized array
		n := r.Intn(3)
		el := g.value(depth + 1)
		if r.Intn(3) == 0 {
			el = g.authRef()
			n = 1 + r.Intn(2)
		}
		decl := g.declaredFor(el.T0)
		parts := make([]string, n)
		for i := range parts {
			parts[i] = el.Expr
		}
		t := "[" + decl + "]"
		if r.Intn(4) == 0 {
			t = fmt.Sprintf("[%s; %d]", decl, n)
		}
		return c09Value{Setup: el.Setup, Expr: "([" + strings.Join(parts, ", ") + "] as " + t + ")", T0: t, Kind: "array",
			Depth: el.Depth + 1, HasRef: el.HasRef, Acct: el.Acct}
	case k < 62: // dictionary
		kl := hashableLeaves[r.Intn(len(hashableLeaves))]
		el := g.value(depth + 1)
		if r.Intn(3) == 0 {
			el = g.authRef()
		}
		decl := g.declaredFor(el.T0)
		kd := kl.typ
		if r.Intn(4) == 0 {
			kd = "HashableStruct"
		}
		t := "{" + kd + ": " + decl + "}"
		body := kl.expr + ": " + el.Expr
		if r.Intn(5) == 0 {
			body = ":"
			return c09Value{Setup: el.Setup, Expr: "({} as " + t + ")", T0: t, Kind: "dictionary", Depth: el.Depth + 1, HasRef: el.HasRef, Acct: el.Acct}
		}
		return c09Value{Setup: el.Setup, Expr: "({" + body + "} as " + t + ")", T0: t, Kind: "dictionary", Depth: el.Depth + 1, HasRef: el.HasRef, Acct: el.Acct}
	case k < 84: // ephemeral reference (to a helper variable), with authorization
		in := g.value(depth + 1)
		if in.Kind == "function" || in.HasRef && r.Intn(2) == 0 {
			in = c09Value{Expr: "S(x: 2)", T0: "S", Kind: "composite"}
		}
		h := g.fresh()
		setup := append(append([]string(nil), in.Setup...), fmt.Sprintf("let %s: %s = %s", h, in.T0, in.Expr))
		borrow := in.T0
		switch in.T0 {
		case "S":
			borrow = []string{"S", "S", "{SI}", "{SJ}", "AnyStruct"}[r.Intn(5)]
		case "S2":
			borrow = []string{"S2", "{SI}", "AnyStruct"}[r.Intn(3)]
		default:
			if r.Intn(5) == 0 {
				borrow = "AnyStruct"
			}
		}
		auth := ""
		switch a := r.Intn(10); {
		case a < 3:
		case a < 4:
			auth = c09Auths[r.Intn(len(c09Auths))]
		case a < 6:
			auth = "auth(E) "
		case a < 7:
			auth = "auth(E, F) "
		case a < 8:
			auth = "auth(E | F) "
		case a < 9 && (in.Kind == "array" || in.Kind == "dictionary"):
			auth = "auth(Mutate) "
		case in.Kind == "array" || in.Kind == "dictionary":
			auth = "auth(Insert, Remove) "
		default:
			auth = "auth(F) "
		}
		t := auth + "&" + parenT(borrow)
		return c09Value{Setup: setup, Expr: "(&" + h + " as " + t + ")", T0: t, Kind: "reference", Depth: in.Depth + 1, HasRef: true, Acct: in.Acct}
	case k < 90: // reference to a resource
		h := g.fresh()
		res := []string{"R", "Q"}[r.Intn(2)]
		borrow := map[string][]string{"R": {"R", "{RI}", "AnyResource"}, "Q": {"Q", "{RI}", "{RJ}", "{RI, RJ}", "AnyResource"}}[res]
		b := borrow[r.Intn(len(borrow))]
		auth := []string{"", "", "auth(E) ", "auth(E, F) "}[r.Intn(4)]
		t := auth + "&" + b
		return c09Value{Setup: []string{fmt.Sprintf("let %s <- create %s()", h, res), "defer_destroy " + h},
			Expr: "(&" + h + " as " + t + ")", T0: t, Kind: "reference", Depth: 1, HasRef: true}
	default: // capability
		bt := []string{"&S", "&Int", "&{SI}", "auth(E) &S", "&[Int]", "&AnyStruct"}[r.Intn(6)]
		h := g.fresh()
		return c09Value{Setup: []string{fmt.Sprintf("let %s = acct.capabilities.storage.issue<%s>(/storage/c09)", h, bt)},
			Expr: h, T0: "Capability<" + bt + ">", Kind: "capability", Depth: 1, HasRef: true, Acct: true}
	}
}

var c09Targets = []string{
	"Int", "Int8", "UInt8", "UInt64", "UFix64", "Number", "SignedInteger", "Integer", "FixedPoint", "SignedNumber", "FixedSizeUnsignedInteger",
	"String", "Character", "Bool", "Address", "Path", "StoragePath", "PublicPath", "CapabilityPath", "Type",
	"AnyStruct", "AnyStruct?", "AnyStruct??", "HashableStruct", "Int?", "Int??", "String?", "S?", "{SI}?",
	"[Int]", "[Int; 2]", "[Int; 1]", "[AnyStruct]", "[Int?]", "[[Int]]", "[S]", "[{SI}]", "[Integer]", "[AnyStruct; 1]", "[&S]", "[&AnyStruct]",
	"{String: Int}", "{String: AnyStruct}", "{Int: AnyStruct}", "{String: S}", "{HashableStruct: AnyStruct}", "{String: {SI}}", "{Bool: Int}",
	"S", "S2", "{SI}", "{SJ}", "{SI, SJ}", "Col",
	"&Int", "&AnyStruct", "&[Int]", "&S", "&{SI}", "&{SJ}", "auth(E) &S", "auth(E, F) &S", "auth(E | F) &S", "auth(F) &S", "auth(E) &{SI}", "auth(E) &AnyStruct",
	"&[AnyStruct]", "auth(Mutate) &[Int]", "auth(Insert) &[Int]", "auth(Insert, Remove) &[Int]", "&{String: Int}", "&S2", "&Int?", "(&S)?", "&[S]", "&[{SI}]",
	"&R", "&{RI}", "&{RJ}", "&{RI, RJ}", "&AnyResource", "auth(E) &R", "auth(E) &{RI}", "&Q", "[auth(E) &S]", "[auth(F) &S]", "[auth(E, F) &S]", "[auth(E | F) &S]", "{String: auth(E) &S}", "{String: auth(G) &S}", "[auth(E, G) &{SI}]",
	"Capability", "Capability<&S>", "Capability<&Int>", "Capability<&{SI}>", "Capability<auth(E) &S>", "Capability<&AnyStruct>",
	"fun(Int): Int", "fun(Int): AnyStruct", "view fun(Int): Int", "fun(Int8): Int", "fun(Int): Int?",
	"InclusiveRange<Int>", "InclusiveRange<Int8>", "InclusiveRange<Integer>", "Never",
}

// target picks a target type biased towards types related to the value's type.
func (g *c09Gen) target(v c09Value) string {
	r := g.r
	t0 := v.T0
	k := r.Intn(10)
	if v.Kind != "reference" && c09AuthRe.MatchString(t0) && r.Intn(2) == 0 {
		k = 3 // containers of authorized references: vary the entitlement sets
	}
	switch {
	case k < 2:
		return t0
	case k < 3:
		return parenT(t0) + "?"
	case k < 4:
		// change every entitlement set in the type (also inside containers) to another one: same size with different
		// names, a subset, a superset, the other set kind, or none
		if c09AuthRe.MatchString(t0) {
			return c09AuthRe.ReplaceAllStringFunc(t0, func(string) string { return c09Auths[r.Intn(len(c09Auths))] })
		}
		if i := strings.Index(t0, "&"); i >= 0 {
			return t0[:i] + c09Auths[r.Intn(len(c09Auths))] + t0[i:]
		}
		return c09Targets[r.Intn(len(c09Targets))]
	case k < 5:
		// weaken the element type of a container
		if strings.HasPrefix(t0, "[") && !strings.Contains(t0, ";") {
			return []string{"[AnyStruct]", "[AnyStruct?]", "[HashableStruct]", t0 + "?"}[r.Intn(4)]
		}
		if strings.HasPrefix(t0, "{") {
			return []string{"{String: AnyStruct}", "{HashableStruct: AnyStruct}", "{Int: AnyStruct}"}[r.Intn(3)]
		}
		return "AnyStruct"
	default:
		t := c09Targets[r.Intn(len(c09Targets))]
		if r.Intn(8) == 0 {
			t = parenT(t) + "?"
		}
		return t
	}
}

func (g *c09Gen) next() c09Case {
	g.nvar = 0
	if g.r.Intn(12) == 0 {
		res := []string{"R", "Q"}[g.r.Intn(2)]
		ts := []string{"@R", "@Q", "@{RI}", "@{RJ}", "@{RI, RJ}", "@AnyResource", "@AnyResource", "@R", "@{RI}", "@[R]", "@{String: R}"}
		t := ts[g.r.Intn(len(ts))] + strings.Repeat("?", []int{0, 0, 1, 1, 2, 3}[g.r.Intn(6)])
		c := c09Case{Value: c09Value{Expr: "create " + res + "()", T0: res, Kind: "resource", Depth: 0}, Target: t, Resource: true}
		c.Opt = []int{0, 0, 1, 1, 2, 2, 3}[g.r.Intn(7)]
		return c
	}
	v := g.value(0)
	c := c09Case{Value: v, Target: g.target(v)}
	switch k := g.r.Intn(12); {
	case k < 6:
	case k < 8:
		c.Opt = 1
	case k < 10:
		c.Opt = 2
	case k < 11:
		c.Opt = 3
	default:
		c.Nil = true
		c.Opt = 1
	}
	// optional values are paired more often with optional targets of AnyStruct / of the value's own type (depth 0..3)
	if c.Opt > 0 && !c.Nil && g.r.Intn(2) == 0 {
		base := []string{"AnyStruct", "AnyStruct", parenT(v.T0), "HashableStruct"}[g.r.Intn(4)]
		c.Target = base + strings.Repeat("?", g.r.Intn(4))
	}
	return c
}

// script renders the evaluation script of a case.
func (c c09Case) script() string {
	var sb strings.Builder
	sb.WriteString(c09Prelude)
	sb.WriteString("access(all) fun main() {\n")
	if c.Resource {
		T := c.Target
		mk := func() string {
			return "let v: @AnyResource" + strings.Repeat("?", c.Opt) + " <- " + c.Value.Expr + "\n"
		}
		sb.WriteString("  " + mk())
		fmt.Fprintf(&sb, "  log(v.isInstance(Type<%s>()))\n  log(v.getType().isSubtype(of: Type<%s>()))\n  log(v.getType())\n", T, T)
		if c.Opt > 0 {
			sb.WriteString("  let inner <- " + c.Value.Expr + "\n")
			fmt.Fprintf(&sb, "  log(inner.getType().isSubtype(of: Type<%s>()))\n  log(inner.getType())\n  destroy inner\n", T)
		}
		fmt.Fprintf(&sb, "  if let x <- v as? %s { log(true); log(x.getType()); destroy x } else { log(false); destroy v }\n", T)
		sb.WriteString("  " + strings.Replace(mk(), "let v", "let w", 1))
		fmt.Fprintf(&sb, "  let y <- w as! %s\n  log(y.getType())\n  log(\"forced\")\n  destroy y\n}\n", T)
		return sb.String()
	}
	if c.Value.Acct {
		sb.WriteString("  let acct = getAuthAccount<auth(Storage, Capabilities) &Account>(0x1)\n")
	}
	var destroys []string
	for _, s := range c.Value.Setup {
		if strings.HasPrefix(s, "defer_destroy ") {
			destroys = append(destroys, strings.TrimPrefix(s, "defer_destroy "))
			continue
		}
		sb.WriteString("  " + s + "\n")
	}
	T := c.Target
	T0 := parenT(c.Value.T0)
	switch {
	case c.Nil:
		fmt.Fprintf(&sb, "  let v: AnyStruct = (nil as %s?)\n", T0)
	case c.Opt == 1:
		fmt.Fprintf(&sb, "  let v: AnyStruct = (%s as %s?)\n", c.Value.Expr, T0)
	case c.Opt == 2:
		fmt.Fprintf(&sb, "  let v: AnyStruct = ((%s as %s?) as %s??)\n", c.Value.Expr, T0, T0)
	case c.Opt == 3:
		fmt.Fprintf(&sb, "  let v: AnyStruct = (((%s as %s?) as %s??) as %s???)\n", c.Value.Expr, T0, T0, T0)
	default:
		fmt.Fprintf(&sb, "  let v: AnyStruct = %s\n", c.Value.Expr)
	}
	fmt.Fprintf(&sb, "  let c = (v as? %s) != nil\n  log(c)\n", T)
	fmt.Fprintf(&sb, "  log(v.isInstance(Type<%s>()))\n", T)
	fmt.Fprintf(&sb, "  log(v.getType().isSubtype(of: Type<%s>()))\n", T)
	if c.Opt > 0 && !c.Nil {
		fmt.Fprintf(&sb, "  let inner: AnyStruct = %s\n  log(inner.getType().isSubtype(of: Type<%s>()))\n", c.Value.Expr, T)
	}
	fmt.Fprintf(&sb, "  if c {\n    log(v)\n    log((v as? %s)!)\n    log(v.getType())\n    log(((v as? %s)!).getType())\n", T, T)
	if c.Opt > 0 && !c.Nil {
		sb.WriteString("    log(inner.getType())\n")
	}
	sb.WriteString("  }\n")
	for _, d := range destroys {
		// resources are destroyed before the force cast may abort; references to them are not used afterwards
		_ = d
	}
	fmt.Fprintf(&sb, "  let forced = v as! %s\n  log(forced.getType())\n  log(\"forced\")\n", T)
	for _, d := range destroys {
		sb.WriteString("  destroy " + d + "\n")
	}
	sb.WriteString("}\n")
	return sb.String()
}

// c09Obs is what one engine reports for a case.
type c09Obs struct {
	C, I, S string
	SInner  string
	Same    string // "" (not evaluated) | "true" | "false": log(v) == log(casted)
	// run-time types (as logged) of v, of the cast result and of the unwrapped inner value
	VType, BackType, InnerType string
	ForcedType                 string // run-time type of the `as!` result
	Forced                     bool   // the force cast did not abort
	AbortRoot                  string
	Raw                        []string
	Class                      string
	Err                        string
}

func c09Observe(c c09Case, e host.Engine) c09Obs {
	h := host.New()
	res := h.Script(c.script(), nil, splicegen.Options(e, false))
	ci := host.Classify(res)
	o := c09Obs{Raw: res.Logs, Class: ci.Class, AbortRoot: ci.Root}
	if res.Err != nil {
		o.Err = firstLine(safeErrString(res.Err), 500)
	}
	logs := res.Logs
	take := func() string {
		if len(logs) == 0 {
			return "?"
		}
		x := logs[0]
		logs = logs[1:]
		return x
	}
	if c.Resource {
		o.I, o.S, o.VType = take(), take(), stripAuth(take())
		if c.Opt > 0 {
			o.SInner, o.InnerType = take(), stripAuth(take())
		}
		o.C = take()
		if o.C == "true" {
			o.BackType = stripAuth(take())
		}
	} else {
		o.C, o.I, o.S = take(), take(), take()
		if c.Opt > 0 && !c.Nil {
			o.SInner = take()
		}
		if o.C == "true" {
			// A cast converts the authorization of references and capabilities to the target's (entitlements are never
			// kept beyond the static type: deliberate, see C06), so authorizations are not part of "the original value" here.
			a, b := stripAuth(take()), stripAuth(take())
			o.Same = fmt.Sprint(a == b)
			o.VType, o.BackType = stripAuth(take()), stripAuth(take())
			if c.Opt > 0 && !c.Nil {
				o.InnerType = stripAuth(take())
			}
		}
	}
	o.Forced = len(logs) > 0 && logs[len(logs)-1] == `"forced"`
	if o.Forced && len(logs) >= 2 {
		o.ForcedType = stripAuth(logs[len(logs)-2])
	}
	return o
}

var authRe = regexp.MustCompile(`auth\([^)]*\) `)

func stripAuth(s string) string { return authRe.ReplaceAllString(s, "") }

// typeDepth splits a logged run-time type `Type<X??>()` into its base and its optional depth.
func typeDepth(logged string) (base string, depth int) {
	t := strings.TrimSuffix(strings.TrimPrefix(logged, "Type<"), ">()")
	for strings.HasSuffix(t, "?") {
		t = strings.TrimSuffix(t, "?")
		depth++
	}
	return strings.TrimSuffix(strings.TrimPrefix(t, "("), ")"), depth
}

// targetDepth is the optional depth of a target type annotation, or -1 when the annotation's optionality is ambiguous
// to this harness (unparenthesised reference and function types: `&Int?`, `fun(Int): Int?`).
func targetDepth(target string) int {
	t := strings.TrimPrefix(target, "@")
	d := 0
	for strings.HasSuffix(t, "?") {
		t = strings.TrimSuffix(t, "?")
		d++
	}
	if d > 0 && (strings.HasPrefix(t, "&") || strings.HasPrefix(t, "auth(") || strings.HasPrefix(t, "fun") || strings.HasPrefix(t, "view fun")) {
		return -1
	}
	return d
}

// expectedResultType is the statement's clause "a successful cast yields the original value", with the two documented
// adjustments: optionals are unwrapped first unless the target is (an optional of) AnyStruct/AnyResource, and the result is
// boxed up to the optional depth of the target type. ok=false: no expectation (ambiguous target).
func expectedResultType(c c09Case, o c09Obs) (base string, depth int, ok bool) {
	m := targetDepth(c.Target)
	// reference-rooted values: getType() looks through the reference (finding FF5), so the logged types are not comparable
	if m < 0 || c.Nil || c.Value.Kind == "reference" {
		return "", 0, false
	}
	vb, vd := typeDepth(o.VType)
	if c.Opt == 0 || targetKeepsOptionals(c.Target) {
		if vd < m {
			vd = m
		}
		return vb, vd, true
	}
	ib, id := typeDepth(o.InnerType)
	if id < m {
		id = m
	}
	return ib, id, true
}

// resultTypeMsg compares the run-time types of the `as?` and `as!` results with the expectation.
func resultTypeMsg(c c09Case, o c09Obs) string {
	if o.C != "true" {
		return ""
	}
	eb, ed, ok := expectedResultType(c, o)
	if !ok {
		return ""
	}
	for _, r := range []struct{ op, t string }{{"as?", o.BackType}, {"as!", o.ForcedType}} {
		if r.t == "" {
			continue
		}
		b, d := typeDepth(r.t)
		if b != eb || d != ed {
			return fmt.Sprintf("`%s %s` of a value with run-time type %s (optional depth %d) yields run-time type %s, want %s with optional depth %d",
				r.op, c.Target, o.VType, c.Opt, r.t, eb, ed)
		}
	}
	return ""
}

func targetKeepsOptionals(t string) bool {
	u := strings.TrimRight(strings.TrimPrefix(t, "@"), "?")
	return u == "AnyStruct" || u == "AnyResource"
}

// c09Judge applies the agreement rules; "" means the case satisfies C09. The
// second result names the known finding whose narrow predicate the failure
// matches ("" if none): FF5 = the value is (an optional of) an ephemeral
// reference and the only disagreement is between the cast (which looks at the
// reference) and isInstance/getType (which look through it at the referenced value).
func c09Judge(c c09Case, o c09Obs) (string, string) {
	for _, x := range []string{o.C, o.I, o.S} {
		if x != "true" && x != "false" {
			return fmt.Sprintf("the script did not reach the type tests (class=%s root=%s logs=%q): %s", o.Class, o.AbortRoot, o.Raw, o.Err), ""
		}
	}
	if c.Nil {
		// A nil value cast to a type it belongs to yields nil again (nested optionals are flattened at run time), so
		// "as? yields nil" cannot tell success from failure here. What remains checkable: `as!` completes exactly
		// when nil's run-time type is a subtype of the target (no unwrapping is possible for nil).
		if o.Forced != (o.S == "true") {
			return fmt.Sprintf("nil value: `as!` completed=%v but run-time subtype=%s (class=%s root=%s)", o.Forced, o.S, o.Class, o.AbortRoot), ""
		}
		if !o.Forced && o.AbortRoot != "*interpreter.ForceCastTypeMismatchError" {
			return fmt.Sprintf("`as!` aborted with %s (%s), want ForceCastTypeMismatchError", o.AbortRoot, o.Class), ""
		}
		return "", ""
	}
	// the force cast fails exactly when the failable cast yields nil (all values)
	if o.Forced != (o.C == "true") {
		return fmt.Sprintf("`as?` succeeded=%s but `as!` completed=%v (class=%s root=%s)", o.C, o.Forced, o.Class, o.AbortRoot), ""
	}
	if !o.Forced && o.AbortRoot != "*interpreter.ForceCastTypeMismatchError" {
		return fmt.Sprintf("`as!` aborted with %s (%s), want ForceCastTypeMismatchError", o.AbortRoot, o.Class), ""
	}
	refRoot := ""
	if c.Value.Kind == "reference" && !c.Nil {
		refRoot = "FF5"
	}
	if c.Opt == 0 {
		// neither optional nor storage reference: as? == isInstance == run-time subtype; value preserved
		if o.I != o.S {
			return fmt.Sprintf("non-optional value: isInstance=%s but getType().isSubtype=%s", o.I, o.S), ""
		}
		if o.C != o.I {
			return fmt.Sprintf("non-optional value: as?=%s but isInstance=%s isSubtype=%s", o.C, o.I, o.S), refRoot
		}
		if o.Same == "false" {
			return fmt.Sprintf("successful cast changed the value: %q", o.Raw), ""
		}
		if m := resultTypeMsg(c, o); m != "" {
			return m, ""
		}
		return "", ""
	}
	// optional values: casts unwrap first unless the target is AnyStruct/AnyResource (or an optional of them)
	switch {
	case targetKeepsOptionals(c.Target):
		if o.C != o.S {
			return fmt.Sprintf("optional value, target %s keeps optionals: as?=%s but run-time subtype=%s", c.Target, o.C, o.S), ""
		}
	default:
		if o.C != o.SInner {
			return fmt.Sprintf("optional value is unwrapped before the cast: as?=%s but unwrapped value's run-time subtype=%s", o.C, o.SInner), refRoot
		}
	}
	if m := resultTypeMsg(c, o); m != "" {
		return m, ""
	}
	return "", ""
}

func btoi(b bool) int {
	if b {
		return 1
	}
	return 0
}

func c09Accepted(c c09Case) bool {
	return splicegen.Check(nil, splicegen.KScript, c.script()).OK()
}

func TestC09(t *testing.T) {
	rec := evid.Start(t, "C09",
		"one script per (value, target): value expressions (numbers, strings, paths, types, enums, structs with conformances, functions, ranges, arrays/dictionaries "+
			"with weakened element types, ephemeral references with authorizations incl. to resources, capabilities; wrapped in 0-3 optionals or nil; plus resource values in 0-3 optionals) "+
			"held in an AnyStruct/AnyResource variable x target types (related-biased pool + optional wrappers); only checker-accepted scripts run; per engine: "+
			"c=(v as? T)!=nil, i=v.isInstance, s=getType().isSubtype, f=as! aborts, e=log(v)==log(cast), run-time types of v / unwrapped v / as? result / as! result; rules: result type = original (unwrapped unless target is AnyStruct/AnyResource(?)*) boxed to the target's optional depth; f=!c always; non-optional: c=i=s and e; optional: c=s(unwrapped) unless "+
			"target is AnyStruct/AnyResource(?)* or v is nil (then c=s); both engines must report identical tuples. Non-trivial: value or target depth>=2 or involves a reference/intersection; "+
			"distinct by (value type, optional depth, target).")
	replaying := evid.ReplayFile() != ""
	if rec.Known("FF5") {
		repro := c09Case{Value: c09Value{Setup: []string{"let h1: Int = 1"}, Expr: "(&h1 as &Int)", T0: "&Int", Kind: "reference", Depth: 1, HasRef: true}, Target: "&Int"}
		m, _ := c09Judge(repro, c09Observe(repro, host.Interp))
		rec.ReportKnown("FF5", m != "")
	}
	run := func(c c09Case) (string, bool) {
		oi := c09Observe(c, host.Interp)
		ov := c09Observe(c, host.VM)
		nontrivial := c.Value.Depth >= 2 || c.Value.HasRef || strings.Contains(c.Target, "&") || strings.Contains(c.Target, "{S") || strings.Contains(c.Target, "{R") ||
			strings.Count(c.Target, "[")+strings.Count(c.Target, "{")+strings.Count(c.Target, "?") >= 2
		rec.Case(nontrivial, c.Value.T0, c.Opt, c.Nil, c.Target)
		rec.Class("value:" + c.Value.Kind)
		rec.Class(fmt.Sprintf("optional-depth:%d", c.Opt))
		rec.Class("cast-succeeds:" + oi.C)
		mi, fi := c09Judge(c, oi)
		mv, fv := c09Judge(c, ov)
		known := func(f string) bool { return f != "" && !replaying && rec.Known(f) }
		if mi != "" && !known(fi) {
			return "interpreter: " + mi, nontrivial
		}
		if mv != "" && !known(fv) {
			return "vm: " + mv, nontrivial
		}
		if mi != "" || mv != "" {
			rec.Excluded(fi + fv[len(fv)*btoi(fi != ""):])
		}
		if oi.C != ov.C || oi.I != ov.I || oi.S != ov.S || oi.SInner != ov.SInner || oi.Forced != ov.Forced || oi.Same != ov.Same || oi.BackType != ov.BackType || oi.ForcedType != ov.ForcedType {
			return fmt.Sprintf("engines disagree: interpreter %+v vs vm %+v", oi, ov), nontrivial
		}
		return "", nontrivial
	}
	if p := evid.ReplayFile(); p != "" {
		var c c09Case
		if err := evid.LoadReplay(p, &c); err != nil {
			t.Fatalf("cannot load replay: %v", err)
		}
		if msg, _ := run(c); msg != "" {
			rec.Violation(t, c, "%s\n%s", msg, c.script())
		}
		return
	}
	g := &c09Gen{r: evid.Rand(9)}
	n := evid.N(2500, 20000)
	generated, rejected := 0, 0
	for done := 0; done < n; {
		c := g.next()
		generated++
		if !c09Accepted(c) {
			rejected++
			rec.Class("checker-rejected")
			if generated > 20*n {
				break
			}
			continue
		}
		done++
		if rec.WantSample(c.Value.Kind) {
			rec.Sample(c.Value.Kind, c)
		}
		if msg, _ := run(c); msg != "" {
			rec.Violation(t, c, "%s\n%s", msg, c.script())
		}
	}
	rate := float64(generated-rejected) / float64(generated)
	rec.Extra("checker_accept_rate", rate)
	if rate < 0.4 {
		rec.Inconclusive(t, "checker accepts only %.0f%% of the generated cast scripts", rate*100)
	}
	rec.RequireClasses(t, "value:reference", "value:array", "value:dictionary", "value:capability", "value:resource", "value:composite",
		"optional-depth:1", "optional-depth:2", "optional-depth:3", "cast-succeeds:true", "cast-succeeds:false")
	_ = prog.Script
}
