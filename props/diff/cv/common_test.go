// Package cv holds the checks of group diff that do not consume the pluggable
// history sources (C09 casts, C07 view functions); they are kept apart from
// props/diff so that a build problem in another group's generator library
// cannot make them inconclusive.
package cv

import (
	"fmt"
	"strings"
)

func firstLine(s string, n int) string {
	s = strings.TrimSpace(s)
	if len(s) > n {
		s = s[:n] + "…"
	}
	return s
}

// safeErrString renders an error; rendering itself must not take the test process down.
func safeErrString(err error) (s string) {
	defer func() {
		if r := recover(); r != nil {
			s = fmt.Sprintf("<%T: Error() panicked: %v>", err, r)
		}
	}()
	return err.Error()
}
