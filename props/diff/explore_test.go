package diff

import (
	"encoding/json"
	"fmt"
	"math/rand"
	"os"
	"testing"
	"time"

	"verif/lib/host"
	"verif/lib/prog"
	"verif/lib/splicegen"
)

func TestExplore(t *testing.T) {
	if os.Getenv("DIFF_EXPLORE") == "" {
		t.Skip("exploration helper")
	}
	t0 := time.Now()
	c := splicegen.Load()
	fmt.Println("load", time.Since(t0))
	r := rand.New(rand.NewSource(1))
	t0 = time.Now()
	classes := map[string]int{}
	for i := 0; i < 300; i++ {
		h, info := c.Next(r)
		_ = info
		for _, e := range []host.Engine{host.Interp, host.VM} {
			g := host.NewGauge(false)
			g.CompLimit = 200000
			g.MemLimit = 1 << 28
			rs, _ := prog.Run(nil, h, host.Options{Engine: e, Gauge: g})
			for _, x := range rs {
				ci := host.Classify(x)
				classes[e.String()+":"+ci.Class+":"+ci.Root]++
				if (ci.Class == "internal" || ci.Class == "panic") && classes["shown:"+ci.Root+e.String()] < 1 {
					classes["shown:"+ci.Root+e.String()]++
					fmt.Println("=====", e, ci.Class, ci.Root, h.Origin)
					fmt.Println(h.String())
					fmt.Println(x.Err, x.Panic)
				}
			}
		}
	}
	fmt.Println("run", time.Since(t0))
	b, _ := json.MarshalIndent(c.Stats(), "", " ")
	fmt.Println(string(b))
	b, _ = json.MarshalIndent(classes, "", " ")
	fmt.Println(string(b))
}
