package diff

import (
	"fmt"
	"math/rand"
	"os"
	"strings"
	"testing"
	"verif/lib/splicegen"

	"verif/lib/host"
	"verif/lib/prog"
)

// TestProbe runs the Cadence program in file $DIFF_PROBE (script, or transaction when it
// contains "transaction") on the three engines and prints what each shows. Steps can be
// separated by lines "-----"; a step starting with "contract NAME" on the first line is a deployment to 0x1.
func TestProbe(t *testing.T) {
	p := os.Getenv("DIFF_PROBE")
	if p == "" {
		t.Skip("helper")
	}
	b, err := os.ReadFile(p)
	if err != nil {
		t.Fatal(err)
	}
	var hist prog.History
	for _, part := range strings.Split(string(b), "\n-----\n") {
		part = strings.TrimSpace(part)
		var args []string
		if strings.HasPrefix(part, "//args ") {
			nl := strings.Index(part, "\n")
			args = strings.Split(strings.TrimSpace(part[7:nl]), ";;")
			part = part[nl+1:]
		}
		switch {
		case strings.HasPrefix(part, "//deploy "):
			nl := strings.Index(part, "\n")
			name, addr := strings.TrimSpace(part[9:nl]), uint64(1)
			if i := strings.Index(name, "@"); i >= 0 {
				fmt.Sscanf(name[i+1:], "%d", &addr)
				name = name[:i]
			}
			hist.Steps = append(hist.Steps, prog.Step{Kind: prog.Deploy, Name: name, Source: part[nl+1:], Signers: []uint64{addr}})
		case strings.Contains(part, "transaction"):
			hist.Steps = append(hist.Steps, prog.Step{Kind: prog.Tx, Source: part, Signers: []uint64{1}, Args: args})
		default:
			hist.Steps = append(hist.Steps, prog.Step{Kind: prog.Script, Source: part, Args: args})
		}
	}
	engines := []host.Engine{host.Interp, host.VM}
	if host.HasPeephole() {
		engines = append(engines, host.VMPeephole)
	}
	var finals []*host.Host
	for _, e := range engines {
		_, _, _, fin := splicegen.Run(nil, hist, e, false)
		finals = append(finals, fin)
	}
	for i := 1; i < len(finals); i++ {
		for _, k := range finals[0].Ledger.Diff(finals[i].Ledger) {
			fmt.Printf("LEDGER DIFF %s vs %s: %s\n", engines[0], engines[i], k)
		}
		for _, k := range finals[0].Ledger.SortedKeys() {
			a, b := finals[0].Ledger.Values[k], finals[i].Ledger.Values[k]
			if string(a) != string(b) {
				fmt.Printf("   %q:\n     %x\n     %x\n", k, a, b)
			}
		}
	}
	for _, e := range engines {
		tr := observe(hist, e, false)
		for i, s := range tr.Steps {
			fmt.Printf("[%s] step %d: class=%s root=%s value=%s logs=%q events=%q limited=%v\n    err=%s\n", e, i, s.Class, s.Root, strings.TrimSpace(s.Value), s.Logs, s.Events, s.Limited, firstLine(s.Err, 700))
		}
		fmt.Printf("[%s] ledger %s\n", e, tr.Ledger[:12])
	}
}

func TestGrammarExplore(t *testing.T) {
	if os.Getenv("DIFF_EXPLORE") == "" {
		t.Skip()
	}
	r := rand.New(rand.NewSource(3))
	shown := 0
	kinds := map[string]int{}
	splicegen.GrammarDebug = func(form, src string, errs []error, err error) {
		for _, e := range errs {
			kinds[fmt.Sprintf("%s %T %v", form, e, e)]++
		}
		if len(errs) == 0 {
			kinds[form+" "+firstLine(fmt.Sprint(err), 300)]++
		}
		if shown < 2 {
			shown++
			fmt.Println("=== REJECT", form, "\n", src)
			fmt.Println(err)
		}
	}
	defer func() {
		for k, v := range kinds {
			fmt.Println(v, k)
		}
	}()
	for i := 0; i < 300; i++ {
		h, ok := splicegen.Grammar(r)
		if !ok && shown < 4 {
			shown++
			// re-check to show errors
			for _, s := range h.Steps {
				_ = s
			}
		}
	}
	fmt.Println(splicegen.GrammarStats())
}
