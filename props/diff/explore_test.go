package diff

import (
	"fmt"
	"os"
	"strings"
	"testing"

	"verif/lib/host"
	"verif/lib/prog"
)

// TestProbe runs the Cadence program in file $DIFF_PROBE (script, or transaction when it
// contains "transaction") on the three engines and prints what each shows. Steps can be
// separated by lines "-----"; a step starting with "contract NAME" on the first line is a deployment to 0x1.
func TestProbe(t *testing.T) {
	p := os.Getenv("DIFF_PROBE")
	if p == "" {
		t.Skip("helper")
	}
	b, err := os.ReadFile(p)
	if err != nil {
		t.Fatal(err)
	}
	var hist prog.History
	for _, part := range strings.Split(string(b), "\n-----\n") {
		part = strings.TrimSpace(part)
		switch {
		case strings.HasPrefix(part, "//deploy "):
			nl := strings.Index(part, "\n")
			hist.Steps = append(hist.Steps, prog.Step{Kind: prog.Deploy, Name: strings.TrimSpace(part[9:nl]), Source: part[nl+1:], Signers: []uint64{1}})
		case strings.Contains(part, "transaction"):
			hist.Steps = append(hist.Steps, prog.Step{Kind: prog.Tx, Source: part, Signers: []uint64{1}})
		default:
			hist.Steps = append(hist.Steps, prog.Step{Kind: prog.Script, Source: part})
		}
	}
	engines := []host.Engine{host.Interp, host.VM}
	if host.HasPeephole() {
		engines = append(engines, host.VMPeephole)
	}
	for _, e := range engines {
		tr := observe(hist, e, false)
		for i, s := range tr.Steps {
			fmt.Printf("[%s] step %d: class=%s root=%s value=%s logs=%q events=%q limited=%v\n    err=%s\n", e, i, s.Class, s.Root, strings.TrimSpace(s.Value), s.Logs, s.Events, s.Limited, firstLine(s.Err, 700))
		}
		fmt.Printf("[%s] ledger %s\n", e, tr.Ledger[:12])
	}
}
