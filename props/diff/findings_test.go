package diff

import (
	"encoding/json"
	"regexp"
	"strings"

	"github.com/onflow/cadence/ast"
	"github.com/onflow/cadence/common"
	"github.com/onflow/cadence/parser"

	"verif/lib/prog"
)

// ---- narrow predicates over program text (AST) -----------------------------------

func parse(src string) *ast.Program {
	p, err := parser.ParseProgram(nil, []byte(src), parser.Config{})
	if err != nil {
		return nil
	}
	return p
}

// postConditionUsesResourceParam: some function has a post-condition that
// mentions one of its own resource-typed parameters (the body may have moved or
// destroyed it by then; the checker does not track that for conditions).
func postConditionUsesResourceParam(src string) bool {
	p := parse(src)
	if p == nil {
		return false
	}
	found := false
	ast.Inspect(p, func(e ast.Element) bool {
		var fd *ast.FunctionDeclaration
		switch x := e.(type) {
		case *ast.FunctionDeclaration:
			fd = x
		case *ast.SpecialFunctionDeclaration:
			fd = x.FunctionDeclaration
		}
		if fd == nil || fd.FunctionBlock == nil || fd.FunctionBlock.PostConditions.IsEmpty() || fd.ParameterList == nil {
			return true
		}
		res := map[string]bool{}
		for _, prm := range fd.ParameterList.Parameters {
			if prm.TypeAnnotation != nil && prm.TypeAnnotation.IsResource {
				res[prm.Identifier.Identifier] = true
			}
		}
		if len(res) == 0 {
			return true
		}
		for _, c := range fd.FunctionBlock.PostConditions.Conditions {
			ast.Inspect(c.CodeElement(), func(ce ast.Element) bool {
				if id, ok := ce.(*ast.IdentifierExpression); ok && res[id.Identifier.Identifier] {
					found = true
				}
				return true
			})
		}
		return true
	})
	return found
}

// hasSelfSwap: a swap statement whose two sides are the same expression.
func hasSelfSwap(src string) bool {
	p := parse(src)
	if p == nil {
		return false
	}
	found := false
	ast.Inspect(p, func(e ast.Element) bool {
		if s, ok := e.(*ast.SwapStatement); ok && s.Left.String() == s.Right.String() {
			found = true
		}
		return true
	})
	return found
}

// declaresContractOutsideAccount: a script or transaction that itself declares a contract.
func declaresContractOutsideAccount(src string) bool {
	p := parse(src)
	if p == nil {
		return false
	}
	for _, d := range p.CompositeDeclarations() {
		if d.CompositeKind == common.CompositeKindContract {
			return true
		}
	}
	for _, d := range p.InterfaceDeclarations() {
		if d.CompositeKind == common.CompositeKindContract {
			return true
		}
	}
	return false
}

const (
	rootInvalidatedResource = "*interpreter.InvalidatedResourceError"
	rootValueTransfer       = "*interpreter.ValueTransferTypeError"
	rootUnexpected          = "errors.UnexpectedError"
	msgGenericFnTransfer    = "invalid transfer of value: expected `fun<"
	msgContractNonAddress   = "cannot get contract value for non-address location"
)

func script(src string) prog.History {
	return prog.History{Steps: []prog.Step{{Kind: prog.Script, Source: src}}}
}

var (
	reproFF1 = script(`
access(all) resource S {}
access(all) struct interface A {
    access(all) fun deposit(from: @S) { post { from != nil: "" } }
}
access(all) struct Vault: A {
    access(all) fun deposit(from: @S) { destroy from }
}
access(all) fun main() { Vault().deposit(from: <-create S()) }`)
	reproFF2 = script(`
access(all) resource R {}
access(all) fun main() {
    var v: @R <- create R()
    v <-> v
    destroy v
}`)
	reproFF3 = script(`
access(all) fun main(): [Int8] {
    let a: [Int8] = [5]
    var map = a.map
    return map(fun (_ x: Int8): Int8 { return x - 1 })
}`)
	reproFF4 = script(`
access(all) contract C { access(all) fun f(): Int { return 1 } }
access(all) fun main(): Int { return C.f() }`)
)

// c01Findings lists the known root causes of internal errors on accepted programs.
func c01Findings() []c01Finding {
	return []c01Finding{
		{ID: "FF1", Repro: reproFF1, Match: func(h prog.History, engine string, o Obs, src string) bool {
			return o.Root == rootInvalidatedResource && postConditionUsesResourceParam(src)
		}},
		{ID: "FF2", Repro: reproFF2, Match: func(h prog.History, engine string, o Obs, src string) bool {
			return o.Root == rootInvalidatedResource && hasSelfSwap(src)
		}},
		{ID: "FF3", Repro: reproFF3, Match: func(h prog.History, engine string, o Obs, src string) bool {
			return engine == "interpreter" && o.Root == rootValueTransfer && strings.Contains(o.Err, msgGenericFnTransfer)
		}},
		{ID: "FR1", Repro: reproFR1, Match: func(h prog.History, engine string, o Obs, src string) bool {
			return engine == "interpreter" && o.Root == rootInvalidatedResource && (hasMemberIndexSwap(src) || memberIndexSwapUpTo(h, -1))
		}},
		{ID: "FF9", Repro: reproFF9, Match: func(h prog.History, engine string, o Obs, src string) bool {
			return o.Root == rootUnexpected && strings.Contains(o.Err, "cannot import array: elements do not belong to the same type")
		}},
		{ID: "FK4", Repro: prog.History{}, Match: func(h prog.History, engine string, o Obs, src string) bool {
			return engine == "vm" && o.Root == rootUnexpected && strings.Contains(o.Err, "cannot find global declaration") && strings.Contains(src, " as ")
		}},
		{ID: "FF15", Repro: reproFF15, Match: func(h prog.History, engine string, o Obs, src string) bool {
			return o.Root == "runtime.errorString" && strings.Contains(o.Err, "nil pointer dereference") && strings.Contains(src, ".map(") && strings.Contains(src, "&AnyResource")
		}},
		{ID: "FF16", Repro: reproFF16, Match: func(h prog.History, engine string, o Obs, src string) bool {
			return o.Root == rootUnexpected && strings.Contains(o.Err, "unsupported location: stdlib.FlowLocation")
		}},
		{ID: "FG1", Repro: prog.History{}, Match: func(h prog.History, engine string, o Obs, src string) bool {
			// group storage/caps (FG1 = FK2): contract added and removed in one transaction orphans its slabs
			return o.Root == "runtime.UnreferencedRootSlabsError" && strings.Contains(src, ".contracts.add(") && strings.Contains(src, ".contracts.remove(")
		}},
		{ID: "FF4", Repro: reproFF4, Match: func(h prog.History, engine string, o Obs, src string) bool {
			return engine == "vm" && o.Root == rootUnexpected && strings.Contains(o.Err, msgContractNonAddress) &&
				declaresContractOutsideAccount(src)
		}},
	}
}

// hasMemberIndexSwap: a swap statement with an operand `x.f[i]` (index into a member) — the trigger of finding FR1 of group res.
func hasMemberIndexSwap(src string) bool {
	p := parse(src)
	if p == nil {
		return false
	}
	found := false
	ast.Inspect(p, func(e ast.Element) bool {
		if s, ok := e.(*ast.SwapStatement); ok {
			for _, side := range []ast.Expression{s.Left, s.Right} {
				if ix, ok := side.(*ast.IndexExpression); ok {
					if _, ok := ix.TargetExpression.(*ast.MemberExpression); ok {
						found = true
					}
				}
			}
		}
		return true
	})
	return found
}

// memberIndexSwapUpTo: the step where the engines diverge, or a contract deployed before it, contains such a swap.
func memberIndexSwapUpTo(h prog.History, step int) bool {
	if step < 0 || step >= len(h.Steps) {
		step = len(h.Steps) - 1
	}
	for i := 0; i <= step; i++ {
		if (i == step || h.Steps[i].Kind == prog.Deploy || h.Steps[i].Kind == prog.Update) && hasMemberIndexSwap(h.Steps[i].Source) {
			return true
		}
	}
	return false
}

func stripSomeWrappers(v any) any {
	switch x := v.(type) {
	case map[string]any:
		if x["type"] == "Optional" && x["value"] != nil && len(x) == 2 {
			return stripSomeWrappers(x["value"])
		}
		out := map[string]any{}
		for k, e := range x {
			out[k] = stripSomeWrappers(e)
		}
		return out
	case []any:
		out := make([]any, len(x))
		for i, e := range x {
			out[i] = stripSomeWrappers(e)
		}
		return out
	}
	return v
}

// onlyDestroyEventOptionalBoxingDiffers: the two event lists (joined JSON-CDC) contain a ResourceDestroyed event and are
// equal once non-nil Optional wrappers are removed — finding FR3 of group res (interpreter does not box default arguments).
func onlyDestroyEventOptionalBoxingDiffers(a, b string) bool {
	if !strings.Contains(a, ".ResourceDestroyed\"") || a == b {
		return false
	}
	as, bs := strings.Split(a, " | "), strings.Split(b, " | ")
	if len(as) != len(bs) {
		return false
	}
	for i := range as {
		var x, y any
		if json.Unmarshal([]byte(as[i]), &x) != nil || json.Unmarshal([]byte(bs[i]), &y) != nil {
			return false
		}
		xb, _ := json.Marshal(stripSomeWrappers(x))
		yb, _ := json.Marshal(stripSomeWrappers(y))
		if string(xb) != string(yb) {
			return false
		}
	}
	return true
}

var (
	reproFR1 = prog.History{Steps: []prog.Step{
		{Kind: prog.Deploy, Name: "C", Signers: []uint64{1}, Source: `access(all) contract C {
    access(all) resource R {
        access(all) event ResourceDestroyed(id: UInt64 = self.uuid, tag: String? = "t")
        access(all) var arr: @[R]
        init() { self.arr <- [] }
    }
    access(all) fun mk(): @R { return <- create R() }
}`},
		{Kind: prog.Tx, Signers: []uint64{1}, Source: `import C from 0x1
transaction { prepare(a: &Account) {
    var r <- C.mk()
    r.arr.append(<- C.mk())
    var o <- C.mk()
    r.arr[0] <-> o
    destroy o
    destroy r
} }`}}}
	reproFR3 = prog.History{Steps: []prog.Step{reproFR1.Steps[0],
		{Kind: prog.Tx, Signers: []uint64{1}, Source: `import C from 0x1
transaction { prepare(a: &Account) { destroy C.mk() } }`}}}
)

// contractUsedAsValue: some step up to `step` uses a contract (declared in a deployed step or imported) as a first-class
// value, i.e. its identifier occurs other than as the base of a member access (e.g. `{0: C}[0]!`, `[C][0]`, `let c = C`).
func contractUsedAsValue(h prog.History, step int) bool {
	if step < 0 || step >= len(h.Steps) {
		step = len(h.Steps) - 1
	}
	names := map[string]bool{}
	for i := 0; i <= step; i++ {
		p := parse(h.Steps[i].Source)
		if p == nil {
			continue
		}
		for _, d := range p.CompositeDeclarations() {
			if d.CompositeKind == common.CompositeKindContract {
				names[d.Identifier.Identifier] = true
			}
		}
		for _, imp := range p.ImportDeclarations() {
			for _, im := range imp.Imports {
				names[im.Identifier.Identifier] = true
				if im.Alias.Identifier != "" {
					names[im.Alias.Identifier] = true
				}
			}
		}
	}
	found := false
	for i := 0; i <= step && !found; i++ {
		p := parse(h.Steps[i].Source)
		if p == nil {
			continue
		}
		bases := map[ast.Expression]bool{}
		ast.Inspect(p, func(e ast.Element) bool {
			switch x := e.(type) {
			case *ast.MemberExpression:
				bases[x.Expression] = true
			case *ast.IdentifierExpression:
				if names[x.Identifier.Identifier] && !bases[x] {
					found = true
				}
			}
			return true
		})
	}
	return found
}

var reproFF10 = prog.History{Steps: []prog.Step{
	{Kind: prog.Deploy, Name: "C", Signers: []uint64{1}, Source: `access(all) contract C {
  access(all) struct S {
    access(all) let a: Int
    access(all) var b: Int
    init() { self.a = 123; self.b = 456 }
  }
}`},
	{Kind: prog.Tx, Signers: []uint64{1}, Source: `import C from 0x1
transaction { prepare(acct: auth(Storage) &Account) {
    let s = ({0: C}[0]!).S()
    acct.storage.save(C.S(), to: /storage/s)
} }`}}}

var paramNameRe = regexp.MustCompile(`"label":"[^"]*","id":"[^"]*"`)

// onlyFunctionParamNamesDiffer: both results are exported function values whose JSON-CDC
// forms are identical except for the parameter label/id strings of the function type.
func onlyFunctionParamNamesDiffer(a, b string) bool {
	if !strings.Contains(a, `"kind":"Function"`) || !strings.Contains(b, `"kind":"Function"`) || a == b {
		return false
	}
	return paramNameRe.ReplaceAllString(a, "") == paramNameRe.ReplaceAllString(b, "")
}

var reproFF7 = script(`
access(all) fun test() { getFunction()(3) }
access(all) fun getFunction(): (fun(Int)) {
    return fun(_ n: Int) { log("function implementation") }
}
access(all) fun main(): fun(Int): Void { return getFunction() }`)

var reproFF9 = prog.History{Steps: []prog.Step{{Kind: prog.Script, Args: []string{`{"type":"Array","value":[]}`},
	Source: `access(all) fun main(value: AnyStruct) { log(value) }`}}}

var reproFF11 = script(`
access(all) contract A { access(all) struct S {} }
access(all) fun main() { log(A.S()) }`)

var reproFF15 = script(`
access(all) resource R {}
access(all) fun main() {
    var refArray: [&AnyResource] = []
    var arr: @[AnyResource] <- []
    var opt1: @R? <- create R()
    var disguised: @AnyResource <- opt1
    refArray.append(&disguised as &AnyResource)
    arr.append(<- disguised)
    let m = refArray.map(fun (x: &AnyResource): Int { return 1 })
    destroy arr
}`)

var reproFF16 = script(`access(all) fun main(): Int { let a = [CompositeType("flow.AccountContractAdded")!]; return a.length }`)

var reproFF8 = script(`access(all) fun main(): Type? { return CompositeType("Foo") }`)

// c34Findings lists the known root causes of engine divergence (narrow predicates:
// feature/shape of the program + the pair of outcome classes and root error types).
func c34Findings() []c34Finding {
	return []c34Finding{
		{ID: "FF7", Repro: reproFF7, Match: func(h prog.History, pair string, d *Divergence, src string) bool {
			return pair == "interpreter~vm" && d.What == "value" && onlyFunctionParamNamesDiffer(d.A, d.B)
		}},
		{ID: "FR1", Repro: reproFR1, Match: func(h prog.History, pair string, d *Divergence, src string) bool {
			return pair == "interpreter~vm" && strings.HasPrefix(d.Sig, "class internal/"+rootInvalidatedResource+" vs ") && memberIndexSwapUpTo(h, d.Step)
		}},
		{ID: "FF10", Repro: reproFF10, Match: func(h prog.History, pair string, d *Divergence, src string) bool {
			return pair == "interpreter~vm" && (d.What == "ledger" || d.What == "logs" || d.What == "value") && contractUsedAsValue(h, d.Step)
		}},
		{ID: "FF11", Repro: reproFF11, Match: func(h prog.History, pair string, d *Divergence, src string) bool {
			return pair == "interpreter~vm" && strings.HasPrefix(d.Sig, "class user/errors.DefaultUserError vs ") &&
				strings.Contains(d.A, "failed to load contract") && declaresContractOutsideAccount(src)
		}},
		{ID: "FK4", Repro: prog.History{}, Match: func(h prog.History, pair string, d *Divergence, src string) bool {
			// group caps: VM fails to compile an aliased import that follows the import of a contract importing the same contract
			return pair == "interpreter~vm" && strings.HasSuffix(d.Sig, " vs internal/"+rootUnexpected) && strings.Contains(d.B, "cannot find global declaration")
		}},
		{ID: "FR2", Repro: prog.History{}, Match: func(h prog.History, pair string, d *Divergence, src string) bool {
			// interpreter-only atree validation failure (stale parent slab size); no small repro here, see findings_inbox/res.md
			return pair == "interpreter~vm" && strings.HasPrefix(d.Sig, "class external/*atree.FatalError vs ") &&
				strings.Contains(d.A, "header size") && strings.Contains(d.A, "is wrong")
		}},
		{ID: "FF8", Repro: reproFF8, Match: func(h prog.History, pair string, d *Divergence, src string) bool {
			// whatever the interpreter does with the nil result (ok, force-nil, ...), the VM aborts with "missing location"
			return pair == "interpreter~vm" && strings.HasSuffix(d.Sig, " vs user/errors.DefaultUserError") && strings.Contains(d.B, "missing location") &&
				(strings.Contains(src, "CompositeType(") || strings.Contains(src, "IntersectionType("))
		}},
		{ID: "FR3", Repro: reproFR3, Match: func(h prog.History, pair string, d *Divergence, src string) bool {
			return pair == "interpreter~vm" && d.What == "events" && onlyDestroyEventOptionalBoxingDiffers(d.A, d.B)
		}},
		{ID: "FF3", Repro: reproFF3, Match: func(h prog.History, pair string, d *Divergence, src string) bool {
			return pair == "interpreter~vm" && d.What == "class" &&
				strings.HasPrefix(d.Sig, "class internal/"+rootValueTransfer+" vs ") && strings.Contains(d.A, msgGenericFnTransfer)
		}},
		{ID: "FF4", Repro: reproFF4, Match: func(h prog.History, pair string, d *Divergence, src string) bool {
			return pair == "interpreter~vm" && d.What == "class" &&
				strings.HasSuffix(d.Sig, " vs internal/"+rootUnexpected) && strings.Contains(d.B, msgContractNonAddress) &&
				declaresContractOutsideAccount(src)
		}},
	}
}
