package diff

import (
	"fmt"
	"testing"
	"time"
	"os"

	"verif/lib/splicegen"
)

func TestLoadOnly(t *testing.T) {
	if os.Getenv("DIFF_EXPLORE") == "" {
		t.Skip()
	}
	t0 := time.Now()
	c := splicegen.Load()
	fmt.Println("load", time.Since(t0), len(c.Bases))
}
