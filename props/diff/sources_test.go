package diff

import (
	"math/rand"

	"verif/lib/prog"
	"verif/lib/splicegen"
)

// One line per history source. Each Next must be a pure function of r.
func init() {
	register(Source{Name: "splice", Weight: 6,
		Next:  func(r *rand.Rand) (prog.History, bool) { h, _ := splicegen.Load().Next(r); return h, true },
		Stats: func() map[string]any { return splicegen.Load().Stats() }})
}
