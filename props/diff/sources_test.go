package diff

import (
	"math/rand"

	"pgregory.net/rapid"

	"verif/lib/capgen"
	"verif/lib/execgen"
	"verif/lib/prog"
	"verif/lib/resgen"
	"verif/lib/splicegen"
	"verif/lib/storgen"
	"verif/lib/vir/virhost"
)

// One line per history source. Each Next must be a pure function of r.
func init() {
	register(Source{Name: "splice", Weight: 10,
		Next:  func(r *rand.Rand) (prog.History, bool) { h, _ := splicegen.Load().Next(r); return h, true },
		Stats: func() map[string]any { return splicegen.Load().Stats() }})
	register(Source{Name: "grammar", Weight: 10, Next: splicegen.Grammar, Stats: splicegen.GrammarStats})
	// generators of the other groups (histories with their own reference models; here only executed and compared)
	register(Source{Name: "storgen-containers", Weight: 1, Next: func(r *rand.Rand) (prog.History, bool) {
		return storgen.GenContHistory(storgen.FromRand(r), storgen.ContGenConfig{MaxExecs: 5}).History(), true
	}})
	register(Source{Name: "storgen-map", Weight: 1, Next: func(r *rand.Rand) (prog.History, bool) {
		return storgen.GenMapHistory(storgen.FromRand(r), storgen.MapGenConfig{MaxExecs: 8}).History(), true
	}})
	register(Source{Name: "storgen-nested", Weight: 1, Next: func(r *rand.Rand) (prog.History, bool) {
		return storgen.GenNestHistory(storgen.FromRand(r), storgen.NestGenConfig{MaxExecs: 5}).History(), true
	}})
	register(Source{Name: "capgen-capabilities", Weight: 1, Next: func(r *rand.Rand) (prog.History, bool) {
		return capgen.GenCapHistory(capgen.Rand{R: r}, capgen.CapGenOptions{MaxActions: 12}).Prog(), true
	}})
	register(Source{Name: "capgen-contracts", Weight: 1, Next: func(r *rand.Rand) (prog.History, bool) {
		// FK1/FK2/FK4 (group caps, C26): their triggers are not generated while the findings are listed as known
		avoid := map[string]bool{"FK1": anyKnown("FK1"), "FK2": anyKnown("FK2"), "FK4": anyKnown("FK4")}
		return capgen.GenContractHistory(capgen.Rand{R: r}, capgen.ContractGenOptions{MaxActions: 10, Avoid: avoid}).Prog(), true
	}})
	register(Source{Name: "resgen", Weight: 1, Next: func(r *rand.Rand) (prog.History, bool) {
		return resgen.Generate(resgen.FromRand(r), resgen.DefaultOptions()).Prog, true
	}})
	register(Source{Name: "execgen-templates", Weight: 1, Next: func(r *rand.Rand) (prog.History, bool) {
		hs := execgen.Templates(r, 1+r.Intn(9))
		return hs[len(hs)-1], true
	}})
	register(Source{Name: "vir", Weight: 2, Next: func(r *rand.Rand) (prog.History, bool) {
		return rapid.Custom(virhost.GenHistory).Example(int(r.Int31())), true
	}})
}
