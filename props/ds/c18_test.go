package ds

import (
	"bytes"
	"encoding/hex"
	"fmt"
	"math/big"
	"math/rand"
	"sort"
	"strings"
	"testing"

	"golang.org/x/text/unicode/norm"

	"github.com/onflow/cadence"
	"github.com/onflow/cadence/common"
	"github.com/onflow/cadence/interpreter"
	"github.com/onflow/cadence/sema"

	"verif/lib/evid"
	"verif/lib/host"
	"verif/lib/numv"
	"verif/lib/oracle"
)

// C18 — equality, ordering and hashing laws.
//
// Every generated value carries an abstract identity (`key`: NFC text, exact
// integer, canonical type description with sorted sets…) and, for comparable
// universes, an abstract order. Values are built along different paths so that
// equal values are not byte-identical in construction.

type c18Val struct {
	v        interpreter.Value
	universe string             // values of one universe have the same Cadence type
	key      string             // abstract identity within the universe
	ord      func(o c18Val) int // abstract order (nil when not comparable)
	built    string             // how it was constructed (for reports)
	static   interpreter.StaticType
}

func (x c18Val) String() string { return fmt.Sprintf("%s[%s via %s]", x.universe, x.key, x.built) }

type c18Gen struct {
	r     *rand.Rand
	inter *interpreter.Interpreter
}

// ---- strings / characters

func c18Spellings(r *rand.Rand, text string) (string, string) {
	switch r.Intn(4) {
	case 0:
		return norm.NFC.String(text), "NFC"
	case 1:
		return norm.NFD.String(text), "NFD"
	case 2:
		// mixed: every other cluster decomposed
		var sb strings.Builder
		for i, cl := range clustersOf(norm.NFC.String(text)) {
			if i%2 == 0 {
				sb.WriteString(norm.NFD.String(cl))
			} else {
				sb.WriteString(cl)
			}
		}
		return sb.String(), "mixed"
	}
	return text, "raw"
}

var c18Texts = []string{"", "a", "b", "ab", "\u00e9", "e\u0301", "e", "\u00e9a", "o\u0302\u0323", "\u1ed9", "o\u0323\u0302", "\u212b", "\u00c5", "A\u030a",
	"\uac00", "\u1100\u1161", "\uac01", "\u1100\u1161\u11a8", "\uac00\u11a8",
	"\U0001F1E6\U0001F1E7", "\U0001F44D\U0001F3FD", "\r\n", "z", "\u03a3", "\u2126", "\u03a9", "a\u0301\u0308", "\u00e1\u0308", "abc", "ab\u0301"}

func textOrder(key string) func(c18Val) int {
	return func(o c18Val) int { return strings.Compare(key, o.key) }
}

func (g *c18Gen) stringVal(text string) c18Val {
	sp, how := c18Spellings(g.r, text)
	nfc := norm.NFC.String(text)
	var v *interpreter.StringValue
	switch g.r.Intn(4) {
	case 0:
		// via concat of two halves (split at a rune boundary of the spelling)
		rs := []rune(sp)
		k := g.r.Intn(len(rs) + 1)
		v = interpreter.NewUnmeteredStringValue(string(rs[:k])).Concat(g.inter, interpreter.NewUnmeteredStringValue(string(rs[k:]))).(*interpreter.StringValue)
		how += "+concat"
	case 1:
		// via slice out of a longer string
		long := interpreter.NewUnmeteredStringValue("x" + sp + "y")
		n := long.Length(g.inter)
		if s, ok := long.Slice(g.inter, interpreter.NewUnmeteredIntValueFromInt64(1), interpreter.NewUnmeteredIntValueFromInt64(int64(n-1))).(*interpreter.StringValue); ok && s.Str == nfc {
			v = s
			how += "+slice"
		}
	}
	if v == nil {
		v = interpreter.NewUnmeteredStringValue(sp)
	}
	return c18Val{v: v, universe: "String", key: nfc, ord: textOrder(nfc), built: how, static: interpreter.PrimitiveStaticTypeString}
}

func (g *c18Gen) charVal(text string) c18Val {
	cls := clustersOf(norm.NFC.String(text))
	if len(cls) == 0 {
		cls = []string{"a"}
	}
	cl := cls[g.r.Intn(len(cls))]
	sp, how := c18Spellings(g.r, cl)
	nfc := norm.NFC.String(cl)
	return c18Val{v: interpreter.NewUnmeteredCharacterValue(sp), universe: "Character", key: nfc, ord: textOrder(nfc), built: how, static: interpreter.PrimitiveStaticTypeCharacter}
}

// ---- numbers

func (g *c18Gen) numVal(t oracle.Type, raw *big.Int) c18Val {
	how := "direct"
	var v interpreter.Value = numv.Make(t, raw)
	if g.r.Intn(2) == 0 {
		// via arithmetic: (raw - d) + d, or (raw + d) - d
		d := big.NewInt(int64(g.r.Intn(7)))
		lo, hi := new(big.Int).Sub(raw, d), new(big.Int).Add(raw, d)
		if g.r.Intn(2) == 0 && t.Fits(lo) {
			o := numv.Call(func() interpreter.Value { return numv.Make(t, lo).Plus(g.inter, numv.Make(t, d)) })
			if o.Panic == nil {
				v, how = o.Value, "plus"
			}
		} else if t.Fits(hi) && t.Fits(d) {
			o := numv.Call(func() interpreter.Value { return numv.Make(t, hi).Minus(g.inter, numv.Make(t, d)) })
			if o.Panic == nil {
				v, how = o.Value, "minus"
			}
		}
	}
	r := new(big.Int).Set(raw)
	st := interpreter.ConvertSemaToStaticType(nil, semaNumberType(t.Name))
	return c18Val{v: v, universe: t.Name, key: r.String(), built: how, static: st,
		ord: func(o c18Val) int {
			ob, _ := new(big.Int).SetString(o.key, 10)
			return r.Cmp(ob)
		}}
}

func semaNumberType(name string) sema.Type {
	for _, t := range sema.AllNumberTypes {
		if t.String() == name {
			return t
		}
	}
	panic("no sema type " + name)
}

// ---- bool / address / path

func (g *c18Gen) boolVal() c18Val {
	b := g.r.Intn(2) == 0
	var v interpreter.Value = interpreter.BoolValue(b)
	how := "literal"
	if g.r.Intn(2) == 0 {
		v, how = interpreter.BoolValue(!b).Negate(g.inter), "negate"
	}
	k := map[bool]string{false: "0", true: "1"}[b]
	return c18Val{v: v, universe: "Bool", key: k, built: how, static: interpreter.PrimitiveStaticTypeBool, ord: func(o c18Val) int { return strings.Compare(k, o.key) }}
}

func (g *c18Gen) addressVal() c18Val {
	n := []uint64{0, 1, 2, 255, 256, 1 << 32, 1<<63 - 1, 1 << 63, 1<<64 - 1}[g.r.Intn(9)]
	var full [8]byte
	for i := 7; i >= 0; i-- {
		full[i] = byte(n >> (8 * (7 - i)))
	}
	how := "8 bytes"
	b := full[:]
	if g.r.Intn(2) == 0 {
		// minimal big-endian form (leading zeros dropped)
		for len(b) > 1 && b[0] == 0 {
			b = b[1:]
		}
		how = "short bytes"
	}
	return c18Val{v: interpreter.NewUnmeteredAddressValueFromBytes(b), universe: "Address", key: hex.EncodeToString(full[:]), built: how, static: interpreter.PrimitiveStaticTypeAddress}
}

func (g *c18Gen) pathVal() c18Val {
	dom := []common.PathDomain{common.PathDomainStorage, common.PathDomainPublic, common.PathDomainPrivate}[g.r.Intn(3)]
	id := []string{"a", "b", "foo", "foo1", "fo", "_x"}[g.r.Intn(6)]
	return c18Val{v: interpreter.NewUnmeteredPathValue(dom, id), universe: "Path", key: fmt.Sprintf("%d/%s", dom, id), built: "direct", static: interpreter.PrimitiveStaticTypePath}
}

// ---- type values

var c18Loc = common.AddressLocation{Address: common.Address{0, 0, 0, 0, 0, 0, 0, 1}, Name: "C"}

func (g *c18Gen) staticType(depth int) (interpreter.StaticType, string) {
	r := g.r
	if depth <= 0 || r.Intn(3) == 0 {
		p := []interpreter.PrimitiveStaticType{interpreter.PrimitiveStaticTypeInt, interpreter.PrimitiveStaticTypeString, interpreter.PrimitiveStaticTypeBool, interpreter.PrimitiveStaticTypeAddress,
			interpreter.PrimitiveStaticTypeAnyStruct, interpreter.PrimitiveStaticTypeUInt8, interpreter.PrimitiveStaticTypeAnyResource}[r.Intn(7)]
		return p, p.String()
	}
	switch r.Intn(9) {
	case 0:
		t, k := g.staticType(depth - 1)
		return interpreter.NewOptionalStaticType(nil, t), "(" + k + ")?"
	case 1:
		t, k := g.staticType(depth - 1)
		return interpreter.NewVariableSizedStaticType(nil, t), "[" + k + "]"
	case 2:
		t, k := g.staticType(depth - 1)
		n := int64(r.Intn(3))
		return interpreter.NewConstantSizedStaticType(nil, t, n), fmt.Sprintf("[%s;%d]", k, n)
	case 3:
		t, k := g.staticType(depth - 1)
		return interpreter.NewDictionaryStaticType(nil, interpreter.PrimitiveStaticTypeString, t), "{String:" + k + "}"
	case 4, 5:
		// intersection: subset of interfaces, in random order
		all := []string{"I0", "I1", "I2", "I3"}
		r.Shuffle(len(all), func(i, j int) { all[i], all[j] = all[j], all[i] })
		sub := all[:1+r.Intn(4)]
		var types []*interpreter.InterfaceStaticType
		for _, n := range sub {
			types = append(types, interpreter.NewInterfaceStaticTypeComputeTypeID(nil, c18Loc, "C."+n))
		}
		sorted := append([]string{}, sub...)
		sort.Strings(sorted)
		return interpreter.NewIntersectionStaticType(nil, types), "{" + strings.Join(sorted, ",") + "}"
	case 6, 7:
		// reference with an authorization
		t, k := g.staticType(depth - 1)
		var auth interpreter.Authorization = interpreter.UnauthorizedAccess
		ak := "unauth"
		switch r.Intn(4) {
		case 0, 1:
			all := []string{"E0", "E1", "E2", "E3"}
			r.Shuffle(len(all), func(i, j int) { all[i], all[j] = all[j], all[i] })
			sub := all[:1+r.Intn(4)]
			kind := sema.Conjunction
			if len(sub) >= 2 && r.Intn(2) == 0 {
				kind = sema.Disjunction
			}
			ids := make([]common.TypeID, len(sub))
			for i, n := range sub {
				ids[i] = common.NewTypeIDFromQualifiedName(nil, c18Loc, "C."+n)
			}
			auth = interpreter.NewEntitlementSetAuthorization(nil, func() []common.TypeID { return ids }, len(ids), kind)
			sorted := append([]string{}, sub...)
			sort.Strings(sorted)
			ak = fmt.Sprintf("set%d(%s)", kind, strings.Join(sorted, ","))
		case 2:
			m := []string{"M0", "M1"}[r.Intn(2)]
			auth = interpreter.NewEntitlementMapAuthorization(nil, common.NewTypeIDFromQualifiedName(nil, c18Loc, "C."+m))
			ak = "map(" + m + ")"
		}
		return interpreter.NewReferenceStaticType(nil, auth, t), "&" + ak + " " + k
	default:
		if r.Intn(2) == 0 {
			return interpreter.NewCapabilityStaticType(nil, nil), "Capability"
		}
		t, k := g.staticType(depth - 1)
		return interpreter.NewCapabilityStaticType(nil, interpreter.NewReferenceStaticType(nil, interpreter.UnauthorizedAccess, t)), "Capability<&unauth " + k + ">"
	}
}

func (g *c18Gen) typeVal() c18Val {
	t, k := g.staticType(3)
	// `built` is the type as listed (member order as constructed)
	return c18Val{v: interpreter.NewUnmeteredTypeValue(t), universe: "Type", key: k, built: t.String(), static: interpreter.PrimitiveStaticTypeMetaType}
}

// ---- containers of the above

func (g *c18Gen) base(universe string) c18Val {
	switch universe {
	case "String":
		return g.stringVal(c18Texts[g.r.Intn(len(c18Texts))])
	case "Character":
		return g.charVal(c18Texts[1+g.r.Intn(len(c18Texts)-1)])
	case "Bool":
		return g.boolVal()
	case "Address":
		return g.addressVal()
	case "Path":
		return g.pathVal()
	case "Type":
		return g.typeVal()
	}
	t := oracle.ByName(universe)
	var raw *big.Int
	if g.r.Intn(2) == 0 {
		// a handful of values per type so that collisions are frequent
		p := c18Pool(t)
		raw = p[g.r.Intn(len(p))]
	} else {
		raw = big.NewInt(int64(g.r.Intn(5)))
	}
	return g.numVal(t, raw)
}

var c18Pools = map[string][]*big.Int{}

// c18Pool: a dozen boundary values per type (cached), so that collisions are frequent.
func c18Pool(t oracle.Type) []*big.Int {
	if p, ok := c18Pools[t.Name]; ok {
		return p
	}
	all := t.Pool()
	p := all[:min(len(all), 8)]
	// plus the extremes
	if t.Min != nil {
		p = append(p, t.Min)
	}
	if t.Max != nil {
		p = append(p, t.Max, new(big.Int).Sub(t.Max, big.NewInt(1)))
	}
	c18Pools[t.Name] = p
	return p
}

func (g *c18Gen) optional(x c18Val, isNil bool) c18Val {
	if isNil {
		return c18Val{v: interpreter.Nil, universe: x.universe + "?", key: "nil", built: "nil", static: interpreter.NewOptionalStaticType(nil, x.static)}
	}
	return c18Val{v: interpreter.NewUnmeteredSomeValueNonCopying(x.v), universe: x.universe + "?", key: "some(" + x.key + ")", built: "some(" + x.built + ")", static: interpreter.NewOptionalStaticType(nil, x.static)}
}

func (g *c18Gen) array(universe string) c18Val {
	n := g.r.Intn(3)
	var vals []interpreter.Value
	var keys, built []string
	var st interpreter.StaticType
	for i := 0; i < n; i++ {
		x := g.base(universe)
		vals, keys, built, st = append(vals, x.v), append(keys, x.key), append(built, x.built), x.static
	}
	if st == nil {
		st = g.base(universe).static
	}
	at := interpreter.NewVariableSizedStaticType(nil, st)
	return c18Val{v: interpreter.NewArrayValue(g.inter, at, common.ZeroAddress, vals...), universe: "[" + universe + "]", key: fmt.Sprintf("%d%q", len(keys), keys), built: strings.Join(built, ","), static: at}
}

var c18Universes = func() []string {
	u := []string{"String", "Character", "Bool", "Address", "Path", "Type"}
	for _, t := range oracle.Types {
		u = append(u, t.Name)
	}
	return u
}()

func (g *c18Gen) value(universe string, shape int) c18Val {
	switch shape {
	case 1:
		return g.optional(g.base(universe), g.r.Intn(4) == 0)
	case 2:
		return g.array(universe)
	}
	return g.base(universe)
}

// ---------------------------------------------------------------- Go level laws

type c18Case struct {
	Desc []string `json:"values"`
	Law  string   `json:"law"`
	Seed int64    `json:"seed"`
	Idx  int      `json:"index"`
}

// hashInput calls HashInput the way atree does: with a 32-byte scratch buffer
// (here pre-filled with `fill`, the result must not depend on its old content).
func hashInput(v interpreter.Value, fill byte) []byte {
	h, ok := v.(interpreter.HashableValue)
	if !ok {
		return nil
	}
	var scratch [32]byte
	for i := range scratch {
		scratch[i] = fill
	}
	return append([]byte{}, h.HashInput(nil, scratch[:])...)
}

func TestC18(t *testing.T) {
	rec := evid.Start(t, "C18", "Go level: triples (a,b,c) of interpreter values of one universe — String and Character (NFC/NFD/mixed spellings, built directly, by concat or by slicing), all 27 number types (built directly or through +/-), "+
		"Bool, Address (8-byte / short byte forms), Path, Type values (optionals, arrays, dictionaries, intersections and entitlement sets listed in shuffled order, entitlement-map auths, capabilities), optionals and arrays of these — "+
		"where b and c are with probability 1/2 another construction of the same abstract value; occasionally values of different universes. Each value carries an abstract identity and order computed by the generator. "+
		"Checked: Equal(a,b) == (identity equal), reflexive/symmetric/transitive; Equal ⇒ identical HashInput (32-byte scratch buffer as atree passes it, clean and dirty); for comparable universes exactly one of <,==,> holding and matching the abstract order, "+
		"<=/>= consistent, a<b ⇔ b>a, transitivity; dictionary {a:1} then insert b: existing entry replaced and Count 1 iff a==b, both keys found. "+
		"Script level (both engines): pairs of source expressions denoting equal/unequal keys (NFC/NFD literals, concat/slice/fromUTF8, arithmetic and fromString/fromBigEndianBytes numbers, address and path constructors, "+
		"Type<{A,B}>() vs Type<{B,A}>() vs IntersectionType(...), auth lists in different orders vs ReferenceType(...), enum cases vs rawValue constructors, optionals): a==b, {a:1} insert b, length, lookups, containsKey, remove. "+
		"Non-trivial: the pair is abstractly equal but constructed differently, or adjacent in the abstract order. Distinct by (universe, identities, constructions).")

	if f := evid.ReplayFile(); f != "" {
		var cs c18Case
		if err := evid.LoadReplay(f, &cs); err != nil {
			t.Fatalf("bad replay file: %v", err)
		}
		if cs.Law == "script" {
			c18RunScripts(t, rec, cs.Idx, cs.Idx+1)
			return
		}
		// regenerate the stream of the recorded seed up to and including the failing triple
		c18GoLevel(t, rec, cs.Seed, cs.Idx+1)
		return
	}
	c18GoLevel(t, rec, evid.Seed(), evid.N(120_000, 3_000_000))
	c18RunScripts(t, rec, 0, evid.N(80, 2_500)) // scripts of 8 pairs each
	rec.RequireClasses(t, "equal-differently-built/String", "equal-differently-built/Character", "equal-differently-built/Type", "equal-differently-built/Int", "equal-differently-built/[String]",
		"dict/replaced", "dict/added", "script/vm/equal", "script/interpreter/unequal")
}

func c18GoLevel(t *testing.T, rec *evid.Rec, seed int64, n int) {
	r := rand.New(rand.NewSource(seed*7919 + 18))
	g := &c18Gen{r: r, inter: newBareInterpreter()}
	ctx := g.inter
	for i := 0; i < n; i++ {
		if i%20_000 == 0 {
			g.inter = newBareInterpreter()
			ctx = g.inter
		}
		u := c18Universes[r.Intn(len(c18Universes))]
		shape := []int{0, 0, 0, 1, 2}[r.Intn(5)]
		a := g.value(u, shape)
		regen := func(of c18Val) c18Val {
			if r.Intn(2) == 0 {
				// try to hit the same abstract value through another construction
				for k := 0; k < 12; k++ {
					x := g.value(u, shape)
					if x.key == of.key {
						return x
					}
				}
			}
			if r.Intn(12) == 0 {
				return g.value(c18Universes[r.Intn(len(c18Universes))], []int{0, 1, 2}[r.Intn(3)])
			}
			return g.value(u, shape)
		}
		b := regen(a)
		c := regen(b)
		vals := []c18Val{a, b, c}
		viol := func(law, format string, args ...any) {
			rec.Violation(t, c18Case{Desc: []string{a.String(), b.String(), c.String()}, Law: law, Seed: seed, Idx: i}, "%s: "+format, append([]any{law}, args...)...)
		}
		same := func(x, y c18Val) bool {
			if x.key == "nil" && y.key == "nil" {
				return true // nil is one value, whatever optional type it was generated for
			}
			return x.universe == y.universe && x.key == y.key
		}
		eq := func(x, y c18Val) bool { return x.v.(interpreter.EquatableValue).Equal(ctx, y.v) }

		nt := false
		if same(a, b) && a.built != b.built {
			nt = true
			rec.Class("equal-differently-built/" + a.universe)
		}
		if a.ord != nil && a.universe == b.universe && !same(a, b) {
			nt = nt || c18Adjacent(a, b)
		}
		rec.CaseH(nt, evid.Hash(a.String(), b.String(), c.String()))
		rec.Class("universe/" + a.universe)
		if nt && rec.WantSample(a.universe) && r.Intn(40) == 0 {
			rec.Sample(a.universe, map[string]any{"a": a.String(), "b": b.String(), "c": c.String(), "a==b": same(a, b)})
		}

		// equality: agrees with the abstract identity, reflexive, symmetric, transitive
		for _, x := range vals {
			if !eq(x, x) {
				viol("reflexivity", "%v is not equal to itself", x)
			}
		}
		for _, p := range [][2]c18Val{{a, b}, {b, c}, {a, c}} {
			x, y := p[0], p[1]
			exy, eyx := eq(x, y), eq(y, x)
			if exy != eyx {
				viol("symmetry", "Equal(%v, %v) = %v but Equal(%v, %v) = %v", x, y, exy, y, x, eyx)
			}
			if exy != same(x, y) {
				viol("equality", "Equal(%v, %v) = %v, the values denote %s", x, y, exy, map[bool]string{true: "the same value", false: "different values"}[same(x, y)])
			}
			if exy {
				h1, h2 := hashInput(x.v, 0), hashInput(y.v, 0)
				if (h1 == nil) != (h2 == nil) || !bytes.Equal(h1, h2) {
					viol("hash", "%v == %v but HashInput differs: %x vs %x", x, y, h1, h2)
				}
				if h3 := hashInput(y.v, 0xaa); !bytes.Equal(h1, h3) {
					viol("hash", "%v: HashInput with a dirty scratch buffer %x differs from %x", y, h3, h1)
				}
			}
		}
		if eq(a, b) && eq(b, c) && !eq(a, c) {
			viol("transitivity", "%v == %v == %v but the first and last are not equal", a, b, c)
		}

		// ordering
		if a.ord != nil && a.universe == b.universe && b.universe == c.universe {
			less := func(x, y c18Val) bool {
				return bool(x.v.(interpreter.ComparableValue).Less(ctx, y.v.(interpreter.ComparableValue)))
			}
			for _, p := range [][2]c18Val{{a, b}, {b, c}, {a, c}, {b, a}} {
				x, y := p[0], p[1]
				xc, yc := x.v.(interpreter.ComparableValue), y.v.(interpreter.ComparableValue)
				lt, gt, e := less(x, y), bool(xc.Greater(ctx, yc)), eq(x, y)
				le, ge := bool(xc.LessEqual(ctx, yc)), bool(xc.GreaterEqual(ctx, yc))
				cnt := 0
				for _, f := range []bool{lt, gt, e} {
					if f {
						cnt++
					}
				}
				if cnt != 1 {
					viol("trichotomy", "%v vs %v: < %v, == %v, > %v", x, y, lt, e, gt)
				}
				want := x.ord(y)
				if lt != (want < 0) || gt != (want > 0) {
					viol("order", "%v vs %v: < %v > %v, abstract comparison %d", x, y, lt, gt, want)
				}
				if le != (lt || e) || ge != (gt || e) {
					viol("order-consistency", "%v vs %v: <= %v >= %v with < %v == %v > %v", x, y, le, ge, lt, e, gt)
				}
				if lt != bool(yc.Greater(ctx, xc)) {
					viol("order-duality", "%v < %v is %v but the converse > is %v", x, y, lt, !lt)
				}
			}
			if less(a, b) && less(b, c) && !less(a, c) {
				viol("order-transitivity", "%v < %v < %v but not first < last", a, b, c)
			}
		}

		// dictionary keys (hashable universes only)
		if _, ok := a.v.(interpreter.HashableValue); ok && a.universe == b.universe && shape == 0 {
			func() {
				defer func() {
					if p := recover(); p != nil {
						viol("dictionary", "dictionary operations panicked: %v", p)
					}
				}()
				dt := interpreter.NewDictionaryStaticType(nil, a.static, interpreter.PrimitiveStaticTypeInt)
				one, two := interpreter.NewUnmeteredIntValueFromInt64(1), interpreter.NewUnmeteredIntValueFromInt64(2)
				d := interpreter.NewDictionaryValue(ctx, dt, a.v, one)
				old := d.Insert(ctx, b.v, two)
				_, replaced := old.(*interpreter.SomeValue)
				if replaced != same(a, b) {
					viol("dictionary", "{%v: 1} insert %v: replaced an existing entry = %v", a, b, replaced)
				}
				wantCount := 2
				if same(a, b) {
					wantCount = 1
					rec.Class("dict/replaced")
				} else {
					rec.Class("dict/added")
				}
				if d.Count() != wantCount {
					viol("dictionary", "{%v: 1} insert %v: count %d, want %d", a, b, d.Count(), wantCount)
				}
				va, okA := d.Get(ctx, a.v)
				vb, okB := d.Get(ctx, b.v)
				if !okA || !okB || !bool(d.ContainsKey(ctx, a.v)) || !bool(d.ContainsKey(ctx, b.v)) {
					viol("dictionary", "{%v: 1} insert %v: keys found: %v %v", a, b, okA, okB)
				}
				wa := one
				if same(a, b) {
					wa = two
				}
				if !va.(interpreter.EquatableValue).Equal(ctx, wa) || !vb.(interpreter.EquatableValue).Equal(ctx, two) {
					viol("dictionary", "{%v: 1} insert %v (as 2): d[a]=%v d[b]=%v", a, b, va, vb)
				}
				if c.universe == a.universe {
					if _, foundC := d.Get(ctx, c.v); foundC != (same(c, a) || same(c, b)) {
						viol("dictionary", "{%v, %v}: lookup of %v found = %v", a, b, c, foundC)
					}
				}
			}()
		}
	}
}

// c18Adjacent: b is the abstract successor/predecessor of a (numbers: differ by one raw unit).
func c18Adjacent(a, b c18Val) bool {
	x, ok1 := new(big.Int).SetString(a.key, 10)
	y, ok2 := new(big.Int).SetString(b.key, 10)
	if ok1 && ok2 {
		d := new(big.Int).Sub(x, y)
		return d.CmpAbs(big.NewInt(1)) == 0
	}
	return strings.HasPrefix(a.key, b.key) || strings.HasPrefix(b.key, a.key)
}

// ---------------------------------------------------------------- script level

const c18Contract = `
access(all) contract C {
    access(all) entitlement E0
    access(all) entitlement E1
    access(all) entitlement E2
    access(all) struct interface I0 {}
    access(all) struct interface I1 {}
    access(all) struct interface I2 {}
    access(all) struct S: I0, I1, I2 {}
    access(all) enum En: UInt8 { access(all) case a; access(all) case b; access(all) case c }
    access(all) enum Other: UInt8 { access(all) case a; access(all) case b }
}`

// spelling groups: every expression of one group denotes the same value of the given type;
// different groups of one type denote different values.
type c18Group struct {
	typ   string
	exprs []string
}

var c18Groups = []c18Group{
	{"String", []string{`"\u{e9}"`, `"e\u{301}"`, `"e".concat("\u{301}")`, `String.fromUTF8([0x65, 0xcc, 0x81])!`, `"x\u{e9}y".slice(from: 1, upTo: 2)`, `"\u{c9}".toLower()`, `String.fromCharacters(["e\u{301}"])`}},
	{"String", []string{`"e"`, `"\u{65}"`, `"E".toLower()`, `"\u{e9}".utf8.length == 2 ? "e" : "x"`}},
	{"String", []string{`"\u{1ed9}"`, `"o\u{302}\u{323}"`, `"o\u{323}\u{302}"`, `"\u{f4}\u{323}"`}},
	{"String", []string{`"\u{212b}"`, `"\u{c5}"`, `"A\u{30a}"`}},
	{"String", []string{`""`, `"a".slice(from: 0, upTo: 0)`, `String.join([], separator: ",")`}},
	{"String", []string{`"\u{ac01}"`, `"\u{1100}\u{1161}\u{11a8}"`, `"\u{ac00}\u{11a8}"`}},
	{"Character", []string{`"\u{e9}"`, `"e\u{301}"`, `"\u{e9}x"[0]`}},
	{"Character", []string{`"e"`, `"\u{65}"`}},
	{"Character", []string{`"\u{ac01}"`, `"\u{1100}\u{1161}\u{11a8}"`}},
	{"Int", []string{`5`, `2 + 3`, `0x05`, `10 / 2`, `Int.fromString("5")!`, `Int.fromBigEndianBytes([0, 5])!`, `Int(5 as UInt8)`, `(5 << 100) >> 100`}},
	{"Int", []string{`0`, `5 - 5`, `-0`, `Int.fromString("-0") ?? 0`, `Int.fromBigEndianBytes([])!`, `(1 << 70) - (1 << 70)`}},
	{"Int", []string{`-1`, `0 - 1`, `Int.fromString("-1")!`, `(-1 << 70) >> 70`}},
	{"Int", []string{`1208925819614629174706176`, `1 << 80`, `Int.fromString("1208925819614629174706176")!`}},
	{"Int8", []string{`-128`, `Int8.min`, `-127 - 1`, `Int8.fromString("-128")!`, `Int8.fromBigEndianBytes([0x80])!`}},
	{"Int8", []string{`127`, `Int8.max`, `126 + 1`}},
	{"UInt8", []string{`255`, `UInt8.max`, `0xff`, `UInt8.fromBigEndianBytes([255])!`, `UInt8(255 as Int)`}},
	{"UInt8", []string{`0`, `UInt8.min`, `7 - 7`}},
	{"UInt64", []string{`18446744073709551615`, `UInt64.max`, `UInt64.fromString("18446744073709551615")!`}},
	{"UInt64", []string{`1`, `UInt64.max - 18446744073709551614`, `UInt64(1 as Int8)`}},
	{"Int128", []string{`-170141183460469231731687303715884105728`, `Int128.min`, `Int128.fromString("-170141183460469231731687303715884105728")!`}},
	{"Int128", []string{`128`, `1 << 7`, `127 + 1`, `Int128.fromBigEndianBytes([0, 128])!`}},
	{"UInt256", []string{`256`, `1 << 8`, `UInt256.fromBigEndianBytes([1, 0])!`, `255 + 1`}},
	{"Word8", []string{`0`, `255 + 1`, `Word8.fromBigEndianBytes([0])!`}},
	{"Word64", []string{`18446744073709551615`, `0 - 1`, `Word64.max`}},
	{"Word256", []string{`1`, `Word256.max + 2`, `Word256(1 as UInt8)`}},
	{"Fix64", []string{`1.5`, `1.50000000`, `3.0 / 2.0`, `Fix64.fromString("1.5")!`, `0.75 * 2.0`, `Fix64(1) + 0.5`}},
	{"Fix64", []string{`0.0`, `-0.0`, `1.5 - 1.5`, `0.00000001 / 2.0`}},
	{"Fix64", []string{`-1.5`, `0.0 - 1.5`, `Fix64.fromString("-1.50")!`}},
	{"UFix64", []string{`1.5`, `UFix64.fromString("1.50")!`, `3.0 / 2.0`, `UFix64(1) + 0.5`}},
	{"UFix64", []string{`184467440737.09551615`, `UFix64.max`}},
	{"Bool", []string{`true`, `!false`, `1 == 1`}},
	{"Bool", []string{`false`, `!true`, `1 == 2`}},
	{"Address", []string{`0x1`, `0x0000000000000001`, `Address.fromBytes([1])`, `Address.fromBytes([0, 0, 0, 0, 0, 0, 0, 1])`, `Address.fromString("0x01")!`, `Address(1 as UInt64)`}},
	{"Address", []string{`0x100`, `Address.fromBytes([1, 0])`, `Address.fromString("0x0100")!`}},
	{"StoragePath", []string{`/storage/foo`, `StoragePath(identifier: "foo")!`, `StoragePath(identifier: "fo".concat("o"))!`}},
	{"StoragePath", []string{`/storage/fo`, `StoragePath(identifier: "fo")!`}},
	{"Path", []string{`/storage/foo as Path`, `StoragePath(identifier: "foo")! as Path`}},
	{"Path", []string{`/public/foo as Path`, `PublicPath(identifier: "foo")! as Path`}},
	{"Type", []string{`Type<{C.I0, C.I1}>()`, `Type<{C.I1, C.I0}>()`, `IntersectionType(types: ["A.0000000000000001.C.I1", "A.0000000000000001.C.I0"])!`, `IntersectionType(types: ["A.0000000000000001.C.I0", "A.0000000000000001.C.I1"])!`}},
	{"Type", []string{`Type<{C.I0, C.I1, C.I2}>()`, `Type<{C.I2, C.I0, C.I1}>()`, `IntersectionType(types: ["A.0000000000000001.C.I2", "A.0000000000000001.C.I1", "A.0000000000000001.C.I0"])!`}},
	{"Type", []string{`Type<{C.I0}>()`, `IntersectionType(types: ["A.0000000000000001.C.I0"])!`}},
	{"Type", []string{`Type<auth(C.E0, C.E1) &Int>()`, `Type<auth(C.E1, C.E0) &Int>()`, `ReferenceType(entitlements: ["A.0000000000000001.C.E1", "A.0000000000000001.C.E0"], type: Type<Int>())!`,
		`ReferenceType(entitlements: ["A.0000000000000001.C.E0", "A.0000000000000001.C.E1"], type: Type<Int>())!`}},
	{"Type", []string{`Type<auth(C.E0 | C.E1) &Int>()`, `Type<auth(C.E1 | C.E0) &Int>()`}},
	{"Type", []string{`Type<auth(C.E0) &Int>()`, `ReferenceType(entitlements: ["A.0000000000000001.C.E0"], type: Type<Int>())!`}},
	{"Type", []string{`Type<&Int>()`, `ReferenceType(entitlements: [], type: Type<Int>())!`}},
	{"Type", []string{`Type<Int?>()`, `OptionalType(Type<Int>())`}},
	{"Type", []string{`Type<[Int]>()`, `VariableSizedArrayType(Type<Int>())`, `([] as [Int]).getType()`}},
	{"Type", []string{`Type<{String: Int}>()`, `DictionaryType(key: Type<String>(), value: Type<Int>())!`}},
	{"Type", []string{`Type<C.S>()`, `CompositeType("A.0000000000000001.C.S")!`, `C.S().getType()`}},
	{"Type", []string{`Type<Capability<&{C.I0, C.I1}>>()`, `CapabilityType(Type<&{C.I1, C.I0}>())!`}},
	{"Type", []string{`Type<Int>()`, `(1).getType()`, `Type<[Int]>().isSubtype(of: Type<[Int]>()) ? Type<Int>() : Type<String>()`}},
	{"C.En", []string{`C.En.b`, `C.En(rawValue: 1)!`}},
	{"C.En", []string{`C.En.a`, `C.En(rawValue: 0)!`, `C.En(rawValue: 2 - 2)!`}},
	{"C.En", []string{`C.En.c`, `C.En(rawValue: 2)!`}},
	{"Int?", []string{`5`, `2 + 3`, `Int.fromString("5")`}},
	{"Int?", []string{`nil`, `Int.fromString("x")`}},
	{"String?", []string{`"\u{e9}"`, `"e\u{301}"`, `String.fromUTF8([0x65, 0xcc, 0x81])`}},
	{"String?", []string{`nil`, `String.fromUTF8([0xff])`}},
}

const c18PairTmpl = `
access(all) fun p%[4]d(): [AnyStruct] {
    let a: %[1]s = %[2]s
    let b: %[1]s = %[3]s
    let eq = a == b
    let d: {%[1]s: Int} = {a: 1}
    let old = d.insert(key: b, 2)
    let len = d.length
    let da = d[a] ?? -1
    let db = d[b] ?? -1
    let ca = d.containsKey(a)
    let cb = d.containsKey(b)
    let removed = d.remove(key: a) ?? -1
    let after = d.length
    let lit: {%[1]s: Int} = {b: 7}
    let viaOther = lit[a] ?? -1
    return [eq, old ?? -1, len, da, db, ca, cb, removed, after, viaOther, a != b]
}`

// optionals are equatable but not hashable: equality only
const c18PairTmplNoKey = `
access(all) fun p%[4]d(): [AnyStruct] {
    let a: %[1]s = %[2]s
    let b: %[1]s = %[3]s
    return [a == b, a != b, [a] == [b], b == a]
}`

const c18PairsPerScript = 8

type c18Pair struct {
	Type  string `json:"type"`
	A     string `json:"a"`
	B     string `json:"b"`
	Equal bool   `json:"equal"`
}

func c18RunScripts(t *testing.T, rec *evid.Rec, from, to int) {
	base := host.New()
	if res := base.Deploy(host.Addr(1), "C", c18Contract, host.Interp); res.Err != nil || res.Panic != nil {
		rec.Inconclusive(t, "cannot deploy helper contract: %v %v", res.Err, res.Panic)
	}
	byType := map[string][]int{}
	for i, g := range c18Groups {
		byType[g.typ] = append(byType[g.typ], i)
	}
	r := rand.New(rand.NewSource(evid.Seed()*7919 + 1800))
	for i := 0; i < to; i++ {
		// draw deterministically (also when replaying script i only)
		var pairs []c18Pair
		for k := 0; k < c18PairsPerScript; k++ {
			gi := r.Intn(len(c18Groups))
			g := c18Groups[gi]
			p := c18Pair{Type: g.typ, Equal: r.Intn(2) == 0, A: g.exprs[r.Intn(len(g.exprs))]}
			others := byType[g.typ]
			if p.Equal || len(others) < 2 {
				p.Equal = true
				p.B = g.exprs[r.Intn(len(g.exprs))]
			} else {
				og := c18Groups[others[(indexOfInt(others, gi)+1+r.Intn(len(others)-1))%len(others)]]
				p.B = og.exprs[r.Intn(len(og.exprs))]
			}
			pairs = append(pairs, p)
		}
		if i < from {
			continue
		}
		var sb strings.Builder
		sb.WriteString("import C from 0x1\n")
		for k, p := range pairs {
			tmpl := c18PairTmpl
			if strings.HasSuffix(p.Type, "?") {
				tmpl = c18PairTmplNoKey
			}
			fmt.Fprintf(&sb, tmpl, p.Type, p.A, p.B, k)
			nt := p.Equal && p.A != p.B
			rec.Case(nt, "script", p.Type, p.A, p.B)
			if nt && rec.WantSample("script/"+p.Type) && r.Intn(6) == 0 {
				rec.Sample("script/"+p.Type, map[string]any{"type": p.Type, "a": p.A, "b": p.B, "equal": p.Equal})
			}
		}
		sb.WriteString("\naccess(all) fun main(): [[AnyStruct]] {\n    return [")
		for k := range pairs {
			if k > 0 {
				sb.WriteString(", ")
			}
			fmt.Fprintf(&sb, "p%d()", k)
		}
		sb.WriteString("]\n}\n")
		src := sb.String()
		for _, eng := range host.Engines {
			res := base.Fork().Script(src, nil, host.Options{Engine: eng})
			info := host.Classify(res)
			cs := c18Case{Desc: []string{eng.String(), fmt.Sprintf("%+v", pairs)}, Law: "script", Seed: evid.Seed(), Idx: i}
			if info.Class != "ok" {
				rec.Violation(t, cs, "script %d on %s failed (%s): %v %v\n%s", i, eng, info.Class, res.Err, res.Panic, src)
			}
			outer, ok := res.Value.(cadence.Array)
			if !ok || len(outer.Values) != len(pairs) {
				rec.Violation(t, cs, "unexpected script result %v", res.Value)
			}
			for k, p := range pairs {
				got := fmt.Sprint(outer.Values[k].(cadence.Array).Values)
				var want string
				switch {
				case strings.HasSuffix(p.Type, "?") && p.Equal:
					want = "[true false true true]"
				case strings.HasSuffix(p.Type, "?"):
					want = "[false true false false]"
				case p.Equal:
					// a == b: insert replaces (old value 1), one entry, both lookups give 2, removal by a removes it, literal keyed by b is found through a
					want = "[true 1 1 2 2 true true 2 0 7 false]"
				default:
					want = "[false -1 2 1 2 true true 1 1 -1 true]"
				}
				if p.Equal {
					rec.Class("script/" + eng.String() + "/equal")
				} else {
					rec.Class("script/" + eng.String() + "/unequal")
				}
				if got != want {
					rec.Violation(t, cs, "%s on %s: a = %s, b = %s (denote %s values): [a==b, old, length, d[a], d[b], containsKey(a), containsKey(b), removed, length after, {b:7}[a], a!=b] = %s, want %s",
						p.Type, eng, p.A, p.B, map[bool]string{true: "equal", false: "different"}[p.Equal], got, want)
				}
			}
		}
	}
}

func indexOfInt(s []int, x int) int {
	for i, v := range s {
		if v == x {
			return i
		}
	}
	return 0
}
