package ds

import (
	"fmt"
	"math/rand"
	"os"
	"strings"
	"testing"
	"unicode"
	"unicode/utf8"

	"github.com/rivo/uniseg"
	"golang.org/x/text/unicode/norm"

	"github.com/onflow/cadence"
	"github.com/onflow/cadence/common"
	"github.com/onflow/cadence/interpreter"

	"verif/lib/evid"
	"verif/lib/host"
)

// C19 — strings are sequences of extended grapheme clusters of their NFC form.
//
// Model: []string of the extended grapheme clusters of norm.NFC(text); x/text
// `norm` defines normalisation, uniseg defines segmentation (both trusted as
// definitions); every operation below is computed over that slice with plain
// Go code that never calls into cadence.

// ---------------------------------------------------------------- model

type strModel struct {
	nfc string
	cl  []string
}

func clustersOf(s string) []string {
	var out []string
	state := -1
	for len(s) > 0 {
		var c string
		c, s, _, state = uniseg.FirstGraphemeClusterInString(s, state)
		out = append(out, c)
	}
	return out
}

func mkStrModel(text string) strModel {
	n := norm.NFC.String(text)
	return strModel{nfc: n, cl: clustersOf(n)}
}

// find returns the first (i, j) with i >= from such that cl[i:j] concatenates to needle (needle non-empty).
func (m strModel) find(needle string, from int) (int, int) {
	for i := from; i < len(m.cl); i++ {
		acc := 0
		for j := i; j < len(m.cl); j++ {
			c := m.cl[j]
			if len(needle) < acc+len(c) || needle[acc:acc+len(c)] != c {
				break
			}
			acc += len(c)
			if acc == len(needle) {
				return i, j + 1
			}
		}
	}
	return -1, -1
}

func (m strModel) index(n strModel) int {
	if n.nfc == "" {
		return 0
	}
	i, _ := m.find(n.nfc, 0)
	return i
}

func (m strModel) count(n strModel) int {
	if n.nfc == "" {
		return len(m.cl) + 1
	}
	c := 0
	for from := 0; ; {
		i, j := m.find(n.nfc, from)
		if i < 0 {
			return c
		}
		c++
		from = j
	}
}

func (m strModel) split(n strModel) []string {
	if n.nfc == "" {
		return append([]string{}, m.cl...)
	}
	var parts []string
	start := 0
	for from := 0; ; {
		i, j := m.find(n.nfc, from)
		if i < 0 {
			break
		}
		parts = append(parts, strings.Join(m.cl[start:i], ""))
		start, from = j, j
	}
	return append(parts, strings.Join(m.cl[start:], ""))
}

func (m strModel) replaceAll(n, r strModel) string {
	if n.nfc == "" {
		var sb strings.Builder
		sb.WriteString(r.nfc)
		for _, c := range m.cl {
			sb.WriteString(c)
			sb.WriteString(r.nfc)
		}
		return norm.NFC.String(sb.String())
	}
	return norm.NFC.String(strings.Join(m.split(n), r.nfc))
}

func (m strModel) lower() string {
	var sb strings.Builder
	for _, r := range m.nfc {
		sb.WriteRune(unicode.ToLower(r))
	}
	return norm.NFC.String(sb.String())
}

func hexValid(s string) bool {
	if len(s)%2 != 0 {
		return false
	}
	for i := 0; i < len(s); i++ {
		c := s[i]
		if !(c >= '0' && c <= '9' || c >= 'a' && c <= 'f' || c >= 'A' && c <= 'F') {
			return false
		}
	}
	return true
}

func hexVal(c byte) byte {
	switch {
	case c >= '0' && c <= '9':
		return c - '0'
	case c >= 'a' && c <= 'f':
		return c - 'a' + 10
	}
	return c - 'A' + 10
}

func hexBytes(s string) []byte {
	out := make([]byte, len(s)/2)
	for i := range out {
		out[i] = hexVal(s[2*i])<<4 | hexVal(s[2*i+1])
	}
	return out
}

const hexDigits = "0123456789abcdef"

func hexString(b []byte) string {
	var sb strings.Builder
	for _, x := range b {
		sb.WriteByte(hexDigits[x>>4])
		sb.WriteByte(hexDigits[x&15])
	}
	return sb.String()
}

// ---------------------------------------------------------------- generator

var c19Pool = []string{
	// ASCII
	"a", "b", "ab", "abc", " ", "A", "Z", "x", "-", ",", "e", "o",
	// combining marks: decomposed / precomposed pairs, stacked marks (canonical reordering), lone marks
	"e\u0301", "\u00e9", "a\u0308", "\u00e4", "o\u0302\u0323", "o\u0323\u0302", "\u1ed9", "\u0301", "\u0308", "q\u0307\u0323", "e\u0301\u0301", "E\u0301",
	"\u0323", "a\u0301\u0308",
	// singleton decompositions
	"\u212a", "\u212b", "\u2126", "A\u030a", "\u00c5",
	// Hangul jamo and syllables
	"\u1100\u1161", "\u1100\u1161\u11a8", "\uac00", "\uac01", "\u1100", "\u1161", "\u11a8", "\uac00\u11a8",
	// emoji: ZWJ sequences, skin tones, lone ZWJ / modifier
	"\U0001F469\u200d\U0001F469\u200d\U0001F467", "\U0001F469", "\U0001F467", "\u200d", "\U0001F44D\U0001F3FD", "\U0001F44D", "\U0001F3FD",
	"\U0001F3F3\ufe0f\u200d\U0001F308",
	// regional indicators
	"\U0001F1E6", "\U0001F1E7", "\U0001F1E8\U0001F1E6", "\U0001F1E9\U0001F1EA\U0001F1EB",
	// CR LF, controls
	"\r", "\n", "\r\n", "\t",
	// variation selectors
	"\u270c\ufe0f", "\ufe0f", "\u270c",
	// Indic conjuncts
	"\u0915\u094d\u0937", "\u0915", "\u094d", "\u0937", "\u0915\u093f",
	// case mapping
	"\u0130", "\u03a3", "\u0391\u03a3", "\u01c5", "\u1e9e", "\u00c9",
	// prepend
	"\u0600", "\u06001",
	// hex-like
	"0a", "FF", "1", "g0", "dead", "BEEF",
}

type c19Case struct {
	Hay    string   `json:"hay"`
	Needle string   `json:"needle"`
	Repl   string   `json:"repl"`
	I      int      `json:"i"`
	J      int      `json:"j"`
	Ops    []string `json:"ops"`
	Script bool     `json:"script,omitempty"`
}

var c19Ops = []string{"length", "charAt", "slice", "iterate", "concat", "compare", "index", "contains", "count", "split", "replaceAll", "join", "toLower", "hex", "decodeHex", "fromUtf8", "fromCharacters"}

func genC19Text(r *rand.Rand, maxPieces int) string {
	var sb strings.Builder
	for k, n := 0, r.Intn(maxPieces+1); k < n; k++ {
		sb.WriteString(c19Pool[r.Intn(len(c19Pool))])
	}
	return sb.String()
}

// periodic haystacks: a short multi-code-point unit repeated, with a partial unit in front and behind, and a needle
// that is a window of 1.5..2.5 units — its byte-level occurrences overlap each other at aligned and misaligned offsets.
var c19Units = []string{
	"x\u0301", "q\u0323", "x\u0301\u0308", "x\u0301y", // base + non-composing mark(s)
	"\u1100\u1100\u1161", "\u1100\u1161\u11a8\u11a8", // Hangul L L V / LVT T
	"\U0001F469\u200d", "\U0001F469\u200d\U0001F469", "\U0001F44D\U0001F3FD", // ZWJ pieces, skin tone
	"\r\n", "\n\r", "\u270c\ufe0f", "\u0915\u094d", "\u0915\u093f", "\u0600a",
}

func genC19Periodic(r *rand.Rand) (hay, needle string) {
	var rs []rune
	ulen := 1
	if r.Intn(3) == 0 {
		// regional indicators over a two-letter alphabet: pairing depends on parity
		n := 4 + r.Intn(6)
		for i := 0; i < n; i++ {
			rs = append(rs, rune(0x1F1E6+r.Intn(2)))
		}
		if r.Intn(3) == 0 {
			rs = append([]rune("a"), rs...)
		}
	} else {
		u := []rune(c19Units[r.Intn(len(c19Units))])
		ulen = len(u)
		lead := u[r.Intn(len(u)+1):] // a rune-suffix of the unit (possibly empty or whole)
		tail := u[:r.Intn(len(u)+1)] // a rune-prefix of the unit
		rs = append(rs, lead...)
		for k, n := 0, 2+r.Intn(4); k < n; k++ {
			rs = append(rs, u...)
		}
		rs = append(rs, tail...)
		if r.Intn(4) == 0 {
			rs = append(rs, 'z')
		}
	}
	hay = string(rs)
	nr := []rune(norm.NFC.String(hay))
	lo, hi := max(2, (3*ulen+1)/2), max(3, (5*ulen)/2)
	wl := lo + r.Intn(hi-lo+1)
	if wl > len(nr) {
		wl = len(nr)
	}
	start := r.Intn(len(nr) - wl + 1)
	return hay, string(nr[start : start+wl])
}

// c19OverlapClass reports whether the first cluster-aligned occurrence of the needle is overlapped by an earlier
// (necessarily misaligned) byte-level occurrence: the situation in which a search must resume inside a rejected match.
func c19OverlapClass(m, n strModel) bool {
	if n.nfc == "" {
		return false
	}
	i, _ := m.find(n.nfc, 0)
	if i < 0 {
		return false
	}
	pa := len(strings.Join(m.cl[:i], ""))
	for p := max(0, pa-len(n.nfc)+1); p < pa; p++ {
		if strings.HasPrefix(m.nfc[p:], n.nfc) {
			return true
		}
	}
	return false
}

var c19NeedleOps = []string{"index", "contains", "count", "split", "replaceAll"}

func genC19Case(r *rand.Rand) c19Case {
	if r.Intn(6) == 0 {
		hay, needle := genC19Periodic(r)
		c := c19Case{Hay: hay, Needle: needle, Repl: genC19Text(r, 1)}
		for i, k := 0, 3+r.Intn(4); i < k; i++ {
			if r.Intn(5) == 0 {
				c.Ops = append(c.Ops, c19Ops[r.Intn(len(c19Ops))])
			} else {
				c.Ops = append(c.Ops, c19NeedleOps[r.Intn(len(c19NeedleOps))])
			}
		}
		n := len(mkStrModel(hay).cl)
		c.I, c.J = r.Intn(n+5)-2, r.Intn(n+5)-2
		return c
	}
	hay := genC19Text(r, 8)
	m := mkStrModel(hay)
	var needle string
	switch r.Intn(10) {
	case 0:
		needle = ""
	case 1, 2, 3:
		// cluster-aligned substring of the haystack
		if len(m.cl) > 0 {
			i := r.Intn(len(m.cl))
			j := i + 1 + r.Intn(min(3, len(m.cl)-i))
			needle = strings.Join(m.cl[i:j], "")
		}
	case 4, 5, 6:
		// rune-level substring (often misaligned: a base without its mark, half a flag, a lone ZWJ)
		rs := []rune(m.nfc)
		if len(rs) > 0 {
			i := r.Intn(len(rs))
			j := i + 1 + r.Intn(min(3, len(rs)-i))
			needle = string(rs[i:j])
		}
	case 7:
		// substring of the un-normalised text (decomposed spelling of something in the haystack)
		rs := []rune(hay)
		if len(rs) > 0 {
			i := r.Intn(len(rs))
			j := i + 1 + r.Intn(min(3, len(rs)-i))
			needle = string(rs[i:j])
		}
	default:
		needle = genC19Text(r, 2)
	}
	c := c19Case{Hay: hay, Needle: needle, Repl: genC19Text(r, 2)}
	n := len(m.cl)
	c.I = r.Intn(n+5) - 2
	c.J = r.Intn(n+5) - 2
	if r.Intn(2) == 0 && c.I > c.J {
		c.I, c.J = c.J, c.I
	}
	k := 3 + r.Intn(5)
	for i := 0; i < k; i++ {
		if r.Intn(3) == 0 {
			// the needle operations are the delicate ones
			c.Ops = append(c.Ops, []string{"index", "contains", "count", "split", "replaceAll"}[r.Intn(5)])
			continue
		}
		c.Ops = append(c.Ops, c19Ops[r.Intn(len(c19Ops))])
	}
	return c
}

// ---------------------------------------------------------------- Go level

type c19 struct {
	t     *testing.T
	rec   *evid.Rec
	inter *interpreter.Interpreter
	calls int
}

type c19Result struct {
	val any    // string | int | bool | []string | []byte | nil
	err string // Go type of the error raised ("" when none)
}

func (r c19Result) String() string {
	if r.err != "" {
		return "error " + r.err
	}
	switch r.val.(type) {
	case string, []string:
		return fmt.Sprintf("%q", r.val)
	}
	return fmt.Sprintf("%v", r.val)
}

func sameResult(a, b c19Result, errOneOf []string) string {
	if b.err != "" || len(errOneOf) > 0 {
		// an error is expected
		if a.err == "" {
			return fmt.Sprintf("returned %v, expected a failure (%v)", a, errOneOf)
		}
		for _, e := range errOneOf {
			if strings.Contains(a.err, e) {
				return ""
			}
		}
		return fmt.Sprintf("failed with %s, expected one of %v", a.err, errOneOf)
	}
	if a.err != "" {
		return fmt.Sprintf("failed with %s, expected %v", a.err, b)
	}
	if fmt.Sprintf("%#v", a.val) != fmt.Sprintf("%#v", b.val) {
		return fmt.Sprintf("got %s, expected %s", a, b)
	}
	return ""
}

// expected computes the model's answer for one op.
func c19Expected(op string, m, n, r strModel, raw c19Case) (c19Result, []string) {
	switch op {
	case "length":
		return c19Result{val: len(m.cl)}, nil
	case "charAt":
		if raw.I < 0 || raw.I >= len(m.cl) {
			return c19Result{err: "x"}, []string{"StringIndexOutOfBoundsError"}
		}
		return c19Result{val: m.cl[raw.I]}, nil
	case "slice":
		if raw.I < 0 || raw.I > len(m.cl) || raw.J < 0 || raw.J > len(m.cl) || raw.I > raw.J {
			return c19Result{err: "x"}, []string{"StringSliceIndicesError", "InvalidSliceIndexError"}
		}
		return c19Result{val: strings.Join(m.cl[raw.I:raw.J], "")}, nil
	case "iterate":
		return c19Result{val: append([]string{}, m.cl...)}, nil
	case "concat":
		return c19Result{val: norm.NFC.String(m.nfc + n.nfc)}, nil
	case "compare":
		// [==, <, <=, >, >=] on the normalised bytes
		return c19Result{val: []string{fmt.Sprint(m.nfc == n.nfc), fmt.Sprint(m.nfc < n.nfc), fmt.Sprint(m.nfc <= n.nfc), fmt.Sprint(m.nfc > n.nfc), fmt.Sprint(m.nfc >= n.nfc)}}, nil
	case "index":
		return c19Result{val: m.index(n)}, nil
	case "contains":
		return c19Result{val: m.index(n) >= 0}, nil
	case "count":
		return c19Result{val: m.count(n)}, nil
	case "split":
		return c19Result{val: m.split(n)}, nil
	case "replaceAll":
		return c19Result{val: m.replaceAll(n, r)}, nil
	case "join":
		// String.join([hay, needle, repl, hay], separator: needle) and the 0/1-element forms chosen by I
		parts := c19JoinParts(m, n, r, raw)
		return c19Result{val: norm.NFC.String(strings.Join(parts, n.nfc))}, nil
	case "toLower":
		return c19Result{val: m.lower()}, nil
	case "hex":
		// String.encodeHex(hay.utf8)
		return c19Result{val: hexString([]byte(m.nfc))}, nil
	case "decodeHex":
		if !hexValid(m.nfc) {
			return c19Result{err: "x"}, []string{"InvalidHexByteError", "InvalidHexLengthError"}
		}
		return c19Result{val: hexBytes(m.nfc)}, nil
	case "fromUtf8":
		return c19Result{val: m.nfc}, nil
	case "fromCharacters":
		return c19Result{val: m.nfc}, nil
	}
	panic("unknown op " + op)
}

func c19JoinParts(m, n, r strModel, raw c19Case) []string {
	switch ((raw.I % 4) + 4) % 4 {
	case 0:
		return nil
	case 1:
		return []string{m.nfc}
	case 2:
		return []string{m.nfc, r.nfc}
	}
	return []string{m.nfc, n.nfc, r.nfc, m.nfc}
}

func (c *c19) str(s string) *interpreter.StringValue { return interpreter.NewUnmeteredStringValue(s) }

func (c *c19) stringsOf(arr *interpreter.ArrayValue) []string {
	out := []string{}
	arr.Iterate(c.inter, func(e interpreter.Value) bool {
		switch e := e.(type) {
		case *interpreter.StringValue:
			c.checkStringInvariant(e)
			out = append(out, e.Str)
		case interpreter.CharacterValue:
			out = append(out, e.Str)
		default:
			out = append(out, fmt.Sprintf("<%T>", e))
		}
		return true
	}, false)
	return out
}

// every string value handed out is normalised and reports the model length
func (c *c19) checkStringInvariant(v *interpreter.StringValue) {
	if v.Str != norm.NFC.String(v.Str) {
		panic(fmt.Sprintf("INVARIANT result string %q is not in NFC", v.Str))
	}
	if l := v.Length(c.inter); l != len(clustersOf(v.Str)) {
		panic(fmt.Sprintf("INVARIANT result string %q reports length %d, model %d", v.Str, l, len(clustersOf(v.Str))))
	}
}

// goOp runs one op on the (shared, stateful) string values.
func (c *c19) goOp(op string, h, n, r *interpreter.StringValue, raw c19Case, m, nm, rm strModel) (res c19Result) {
	defer func() {
		if p := recover(); p != nil {
			if s, ok := p.(string); ok && strings.HasPrefix(s, "INVARIANT") {
				res = c19Result{err: s}
				return
			}
			res = c19Result{err: fmt.Sprintf("%T", p)}
			if _, ok := p.(error); !ok {
				res.err = fmt.Sprintf("GO-PANIC %T %v", p, p)
			}
			if re, ok := p.(interface{ Error() string }); ok && strings.Contains(fmt.Sprintf("%T", p), "runtime.") {
				res.err = "GO-PANIC " + re.Error()
			}
		}
	}()
	ctx := c.inter
	strRes := func(v interpreter.Value) c19Result {
		s, ok := v.(*interpreter.StringValue)
		if !ok {
			return c19Result{err: fmt.Sprintf("result is %T", v)}
		}
		c.checkStringInvariant(s)
		return c19Result{val: s.Str}
	}
	switch op {
	case "length":
		return c19Result{val: h.Length(ctx)}
	case "charAt":
		v := h.GetKey(ctx, interpreter.NewUnmeteredIntValueFromInt64(int64(raw.I)))
		return c19Result{val: v.(interpreter.CharacterValue).Str}
	case "slice":
		return strRes(h.Slice(ctx, interpreter.NewUnmeteredIntValueFromInt64(int64(raw.I)), interpreter.NewUnmeteredIntValueFromInt64(int64(raw.J))))
	case "iterate":
		out := []string{}
		it := h.Iterator(ctx)
		for it.HasNext(ctx) {
			out = append(out, it.Next(ctx).(interpreter.CharacterValue).Str)
		}
		if it.Next(ctx) != nil {
			return c19Result{err: "iterator yields a value after HasNext() == false"}
		}
		var viaForEach []string
		h.ForEach(ctx, nil, func(v interpreter.Value) bool {
			viaForEach = append(viaForEach, v.(interpreter.CharacterValue).Str)
			return true
		}, false)
		if strings.Join(viaForEach, "\x00") != strings.Join(out, "\x00") {
			return c19Result{err: fmt.Sprintf("ForEach %q differs from Iterator %q", viaForEach, out)}
		}
		return c19Result{val: out}
	case "concat":
		return strRes(h.Concat(ctx, n))
	case "compare":
		return c19Result{val: []string{fmt.Sprint(h.Equal(ctx, n)), fmt.Sprint(bool(h.Less(ctx, n))), fmt.Sprint(bool(h.LessEqual(ctx, n))), fmt.Sprint(bool(h.Greater(ctx, n))), fmt.Sprint(bool(h.GreaterEqual(ctx, n)))}}
	case "index":
		return c19Result{val: h.IndexOf(ctx, n).ToInt()}
	case "contains":
		return c19Result{val: bool(h.Contains(ctx, n))}
	case "count":
		return c19Result{val: h.Count(ctx, n).ToInt()}
	case "split":
		return c19Result{val: c.stringsOf(h.Split(ctx, n))}
	case "replaceAll":
		return strRes(h.ReplaceAll(ctx, n, r))
	case "join":
		var vals []interpreter.Value
		for _, p := range c19JoinParts(m, nm, rm, raw) {
			vals = append(vals, c.str(p))
		}
		arr := interpreter.NewArrayValue(ctx, interpreter.VarSizedArrayOfStringType, common.ZeroAddress, vals...)
		return strRes(interpreter.StringFunctionJoin(ctx, arr, n))
	case "toLower":
		return strRes(h.ToLower(ctx))
	case "hex":
		return strRes(interpreter.StringFunctionEncodeHex(ctx, interpreter.ByteSliceToByteArrayValue(ctx, []byte(h.Str))))
	case "decodeHex":
		b, err := interpreter.ByteArrayValueToByteSlice(ctx, h.DecodeHex(ctx))
		if err != nil {
			return c19Result{err: err.Error()}
		}
		if b == nil {
			b = []byte{}
		}
		return c19Result{val: b}
	case "fromUtf8":
		v := interpreter.StringFunctionFromUtf8(ctx, interpreter.ByteSliceToByteArrayValue(ctx, []byte(raw.Hay)))
		some, ok := v.(*interpreter.SomeValue)
		if !ok {
			return c19Result{err: fmt.Sprintf("fromUTF8 of valid UTF-8 returned %T", v)}
		}
		return strRes(some.InnerValue())
	case "fromCharacters":
		var vals []interpreter.Value
		for _, cl := range m.cl {
			vals = append(vals, interpreter.NewUnmeteredCharacterValue(cl))
		}
		arr := interpreter.NewArrayValue(ctx, interpreter.NewVariableSizedStaticType(nil, interpreter.PrimitiveStaticTypeCharacter), common.ZeroAddress, vals...)
		return strRes(interpreter.StringFunctionFromCharacters(ctx, arr))
	}
	panic("unknown op " + op)
}

// ---------------------------------------------------------------- script level

const c19Script = `
access(all) fun main(op: String, h: String, n: String, r: String, i: Int, j: Int, raw: [UInt8]): AnyStruct {
    switch op {
    case "length": return h.length
    case "charAt": return h[i].toString()
    case "slice": return h.slice(from: i, upTo: j)
    case "iterate":
        var out: [String] = []
        for c in h { out.append(c.toString()) }
        return out
    case "concat": return h.concat(n)
    case "compare": return [(h == n).toString(), (h < n).toString(), (h <= n).toString(), (h > n).toString(), (h >= n).toString()]
    case "index": return h.index(of: n)
    case "contains": return h.contains(n)
    case "count": return h.count(n)
    case "split": return h.split(separator: n)
    case "replaceAll": return h.replaceAll(of: n, with: r)
    case "join":
        var parts: [String] = []
        let k = ((i % 4) + 4) % 4
        if k == 1 { parts = [h] }
        if k == 2 { parts = [h, r] }
        if k == 3 { parts = [h, n, r, h] }
        return String.join(parts, separator: n)
    case "toLower": return h.toLower()
    case "hex": return String.encodeHex(h.utf8)
    case "decodeHex": return h.decodeHex()
    case "fromUtf8": return String.fromUTF8(raw)!
    case "fromCharacters":
        var cs: [Character] = []
        for c in h { cs.append(c) }
        return String.fromCharacters(cs)
    }
    return nil
}`

func exportedToResult(v cadence.Value) c19Result {
	switch v := v.(type) {
	case cadence.Optional:
		if v.Value == nil {
			return c19Result{val: nil}
		}
		return exportedToResult(v.Value)
	case cadence.String:
		return c19Result{val: string(v)}
	case cadence.Int:
		return c19Result{val: v.Int()}
	case cadence.Bool:
		return c19Result{val: bool(v)}
	case cadence.Array:
		if len(v.Values) > 0 {
			if _, ok := v.Values[0].(cadence.UInt8); ok {
				out := make([]byte, len(v.Values))
				for i, e := range v.Values {
					out[i] = byte(e.(cadence.UInt8))
				}
				return c19Result{val: out}
			}
		}
		out := []string{}
		for _, e := range v.Values {
			s, ok := e.(cadence.String)
			if !ok {
				return c19Result{err: fmt.Sprintf("array element %T", e)}
			}
			out = append(out, string(s))
		}
		return c19Result{val: out}
	}
	return c19Result{err: fmt.Sprintf("exported %T", v)}
}

func (c *c19) scriptOp(op string, raw c19Case, eng host.Engine) c19Result {
	rawBytes := make([]cadence.Value, len(raw.Hay))
	for i := 0; i < len(raw.Hay); i++ {
		rawBytes[i] = cadence.UInt8(raw.Hay[i])
	}
	args := host.Args(cadence.String(op), cadence.String(raw.Hay), cadence.String(raw.Needle), cadence.String(raw.Repl),
		cadence.NewInt(raw.I), cadence.NewInt(raw.J), cadence.NewArray(rawBytes).WithType(cadence.NewVariableSizedArrayType(cadence.UInt8Type)))
	res := host.New().Script(c19Script, args, host.Options{Engine: eng})
	info := host.Classify(res)
	c.rec.Class("script/" + eng.String() + "/" + info.Class)
	switch info.Class {
	case "ok":
		r := exportedToResult(res.Value)
		if op == "decodeHex" {
			// an empty [UInt8] exports as an empty array
			if s, ok := r.val.([]string); ok && len(s) == 0 {
				r.val = []byte{}
			}
		}
		return r
	case "user":
		return c19Result{err: strings.Join(info.Types, ",")}
	}
	return c19Result{err: fmt.Sprintf("GO-PANIC/INTERNAL class=%s err=%v panic=%v", info.Class, res.Err, res.Panic)}
}

// ---------------------------------------------------------------- driver

func (c *c19) run(cs c19Case) {
	m, nm, rm := mkStrModel(cs.Hay), mkStrModel(cs.Needle), mkStrModel(cs.Repl)
	multi := false
	multiRunes := map[rune]bool{}
	for _, cl := range m.cl {
		if utf8.RuneCountInString(cl) >= 2 {
			multi = true
			for _, r := range cl {
				multiRunes[r] = true
			}
		}
	}
	touches := false
	for _, r := range nm.nfc {
		touches = touches || multiRunes[r]
	}
	normalised := m.nfc != cs.Hay
	// the same value objects are used for the whole op sequence: their grapheme iterator and cached length are mutable state
	h, n, r := c.str(cs.Hay), c.str(cs.Needle), c.str(cs.Repl)
	if h.Str != m.nfc {
		c.rec.Violation(c.t, cs, "String value of %q is %q, NFC form is %q", cs.Hay, h.Str, m.nfc)
	}
	overlap := c19OverlapClass(m, nm)
	for _, op := range cs.Ops {
		want, errs := c19Expected(op, m, nm, rm, cs)
		needleOp := op == "index" || op == "contains" || op == "count" || op == "split" || op == "replaceAll"
		nt := multi || normalised
		if needleOp {
			nt = multi && touches
			if overlap {
				c.rec.Class("misaligned-rejected-then-overlapping-aligned")
				c.rec.Class("misaligned-rejected-then-overlapping-aligned/" + op)
			}
		}
		c.rec.Case(nt, op, cs.Hay, cs.Needle, cs.Repl, cs.I, cs.J)
		c.rec.Class("op/" + op)
		if nt {
			c.rec.Class("nontrivial/" + op)
			if c.rec.WantSample(op) && len(cs.Hay) < 60 {
				c.rec.Sample(op, map[string]any{"op": op, "hay": cs.Hay, "needle": cs.Needle, "repl": cs.Repl, "i": cs.I, "j": cs.J, "expected": want.String()})
			}
		}
		one := cs
		one.Ops = []string{op}
		if !cs.Script {
			got := c.goOp(op, h, n, r, cs, m, nm, rm)
			if msg := sameResult(got, want, errs); msg != "" {
				// report with the whole sequence: the value objects are stateful
				c.rec.Violation(c.t, cs, "Go level %s(hay=%q needle=%q repl=%q i=%d j=%d) [sequence %v]: %s", op, cs.Hay, cs.Needle, cs.Repl, cs.I, cs.J, cs.Ops, msg)
			}
			continue
		}
		for _, eng := range host.Engines {
			got := c.scriptOp(op, cs, eng)
			if msg := sameResult(got, want, errs); msg != "" {
				one.Script = true
				c.rec.Violation(c.t, one, "script (%s) %s(hay=%q needle=%q repl=%q i=%d j=%d): %s", eng, op, cs.Hay, cs.Needle, cs.Repl, cs.I, cs.J, msg)
			}
		}
	}
}

func TestC19(t *testing.T) {
	rec := evid.Start(t, "C19", "haystacks assembled from a pool (ASCII, combining marks incl. stacked/reordered and lone marks, precomposed/decomposed pairs, singleton decompositions, Hangul jamo/syllables, "+
		"emoji ZWJ sequences, skin tones, lone ZWJ, regional-indicator runs, CR LF, variation selectors, Indic conjuncts, U+0130/sigma, prepend characters, hex-like text); needles: cluster-aligned substrings, "+
		"rune-level (misaligned) fragments of the NFC and of the raw text, unrelated pool strings, the empty string; 1 case in 6 is a periodic haystack (a short multi-code-point unit — base+mark, Hangul jamo, ZWJ pieces, CR LF, regional-indicator runs over two letters — repeated with partial units around it) with a needle spanning 1.5..2.5 units, so that byte-level occurrences overlap at aligned and misaligned offsets (class misaligned-rejected-then-overlapping-aligned); indices in range ±2. Each case applies a sequence of 3..7 operations to the *same* String values "+
		"(mutable grapheme iterator / cached length) — length, s[i], slice, iteration, concat, ==/</<=/>/>=, index, contains, count, split, replaceAll, String.join, toLower, encodeHex/utf8, decodeHex, fromUTF8, fromCharacters — "+
		"by direct calls on *interpreter.StringValue, and ~8% of the cases through a script on both engines. Oracle: the same operation over the []string of extended grapheme clusters (uniseg) of norm.NFC(text). "+
		"Every returned String must be in NFC and report the model length. Non-trivial: the haystack has a multi-code-point cluster (or normalisation changed it) and, for needle operations, the needle shares a code point with such a cluster. "+
		"Distinct by (op, haystack, needle, replacement, i, j).")
	c := &c19{t: t, rec: rec, inter: newBareInterpreter()}
	if f := evid.ReplayFile(); f != "" {
		var cs c19Case
		if err := evid.LoadReplay(f, &cs); err != nil {
			t.Fatalf("bad replay file: %v", err)
		}
		c.run(cs)
		return
	}
	// regression seeds: an aligned occurrence overlapping an earlier misaligned byte-level match
	// (VERIF_C19_NOSEEDS=1 skips them: used in sensitivity experiments to show that the generator alone finds the defect)
	seeds := [][2]string{
		{"x\u0301x\u0301x", "x\u0301x"},
		{"\U0001F1E7\U0001F1E6\U0001F1E6\U0001F1E6\U0001F1E7", "\U0001F1E6\U0001F1E6"},
		{"\r\n\r\n\r", "\n\r"},
	}
	if os.Getenv("VERIF_C19_NOSEEDS") != "" {
		seeds = nil
	}
	for _, sd := range seeds {
		c.run(c19Case{Hay: sd[0], Needle: sd[1], Repl: "-", Ops: []string{"index", "contains", "count", "split", "replaceAll"}})
		c.run(c19Case{Hay: sd[0], Needle: sd[1], Repl: "-", Ops: []string{"index", "count"}, Script: true})
	}
	r := evid.Rand(19)
	n := evid.N(12_000, 250_000) // cases; each has 3..7 operations
	scriptEvery := 12
	for i := 0; i < n; i++ {
		cs := genC19Case(r)
		if i%scriptEvery == 0 {
			cs.Script = true
			cs.Ops = cs.Ops[:min(len(cs.Ops), 2)]
		}
		if i%2000 == 0 {
			c.inter = newBareInterpreter() // drop accumulated in-memory slabs
		}
		c.run(cs)
	}
	var need []string
	for _, op := range c19Ops {
		need = append(need, "nontrivial/"+op)
	}
	need = append(need, "script/vm/ok", "script/interpreter/ok", "script/vm/user", "misaligned-rejected-then-overlapping-aligned")
	for _, op := range c19NeedleOps {
		need = append(need, "misaligned-rejected-then-overlapping-aligned/"+op)
	}
	rec.RequireClasses(t, need...)
}

// FuzzC19 (thorough): coverage-guided (haystack, needle) pairs of valid UTF-8 at the Go level.
func FuzzC19(f *testing.F) {
	r := rand.New(rand.NewSource(19))
	for i := 0; i < 60; i++ {
		cs := genC19Case(r)
		f.Add(cs.Hay, cs.Needle, cs.Repl, cs.I, cs.J)
	}
	inter := newBareInterpreter()
	f.Fuzz(func(t *testing.T, hay, needle, repl string, i, j int) {
		if !utf8.ValidString(hay) || !utf8.ValidString(needle) || !utf8.ValidString(repl) || len(hay) > 200 || len(needle) > 60 || len(repl) > 60 {
			return
		}
		if i < -3 || i > 300 || j < -3 || j > 300 {
			return
		}
		cs := c19Case{Hay: hay, Needle: needle, Repl: repl, I: i, J: j, Ops: c19Ops}
		c := &c19{inter: inter}
		m, nm, rm := mkStrModel(hay), mkStrModel(needle), mkStrModel(repl)
		h, n, rr := c.str(hay), c.str(needle), c.str(repl)
		for _, op := range cs.Ops {
			want, errs := c19Expected(op, m, nm, rm, cs)
			if msg := sameResult(c.goOp(op, h, n, rr, cs, m, nm, rm), want, errs); msg != "" {
				t.Fatalf("%s(hay=%q needle=%q repl=%q i=%d j=%d): %s", op, hay, needle, repl, i, j, msg)
			}
		}
	})
}
