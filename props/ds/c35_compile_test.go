package ds

import (
	"fmt"
	"os"
	"path/filepath"
	"sort"
	"strings"

	"github.com/onflow/cadence/activations"
	"github.com/onflow/cadence/bbq"
	"github.com/onflow/cadence/bbq/compiler"
	"github.com/onflow/cadence/bbq/opcode"
	"github.com/onflow/cadence/common"
	"github.com/onflow/cadence/interpreter"
	"github.com/onflow/cadence/parser"
	"github.com/onflow/cadence/sema"
	"github.com/onflow/cadence/stdlib"
)

// ---- parse / check / compile of a single self-contained program ------------------

var c35Location = common.StringLocation("verif")

var c35BaseActivation = func() *sema.VariableActivation {
	a := sema.NewVariableActivation(sema.BaseValueActivation)
	a.DeclareValue(stdlib.VMPanicFunction)
	a.DeclareValue(stdlib.VMAssertFunction)
	a.DeclareValue(stdlib.NewVMLogFunction(nil))
	return a
}()

func c35BuiltinGlobals(common.Location) *activations.Activation[compiler.GlobalImport] {
	a := activations.NewActivation(nil, compiler.DefaultBuiltinGlobals())
	for _, n := range []string{stdlib.PanicFunctionName, stdlib.AssertFunctionName, stdlib.LogFunctionName} {
		a.Set(n, compiler.NewGlobalImport(n))
	}
	return a
}

// c35Check parses and checks code; any panic is returned as an error (this is
// the generator's filter, not the property).
func c35Check(code string) (checker *sema.Checker, err error) {
	defer func() {
		if r := recover(); r != nil {
			err = fmt.Errorf("panic: %v", r)
		}
	}()
	program, err := parser.ParseProgram(nil, []byte(code), parser.Config{})
	if err != nil {
		return nil, err
	}
	checker, err = sema.NewChecker(program, c35Location, nil, &sema.Config{
		AccessCheckMode:            sema.AccessCheckModeNotSpecifiedUnrestricted,
		ExtendedElaborationEnabled: true,
		BaseValueActivationHandler: func(common.Location) *sema.VariableActivation { return c35BaseActivation },
	})
	if err != nil {
		return nil, err
	}
	if err = checker.Check(); err != nil {
		return nil, err
	}
	return checker, nil
}

func c35Config(peephole bool) *compiler.Config {
	return &compiler.Config{
		BuiltinGlobalsProvider:       c35BuiltinGlobals,
		PeepholeOptimizationsEnabled: peephole,
	}
}

// c35Compiled is the canonical, address-free rendering of one compilation.
type c35Compiled struct {
	Dump      string                 // own structural dump of the instruction program
	Printed   string                 // cadence's program printer output
	ByteDump  string                 // dump of the bytecode program (function code as hex)
	Functions [][]opcode.Instruction // instruction program code per function (incl. variable getters)
	ByteCode  [][]byte               // bytecode program code per function (same order)
	NFuncs    int
}

func c35CompileChecker(checker *sema.Checker, peephole bool) (out *c35Compiled, err error) {
	defer func() {
		if r := recover(); r != nil {
			err = fmt.Errorf("compiler panic: %v", r)
		}
	}()
	ip := compiler.NewInstructionCompilerWithConfig(interpreter.ProgramFromChecker(checker), checker.Location, c35Config(peephole)).Compile()
	out = &c35Compiled{NFuncs: len(ip.Functions)}
	out.Dump = c35Dump(ip, func(code []opcode.Instruction) string {
		var sb strings.Builder
		for i, ins := range code {
			fmt.Fprintf(&sb, "    %d: %s\n", i, ins.String())
		}
		return sb.String()
	}, func(t bbq.StaticType) string {
		if t == nil {
			return "<nil>"
		}
		return string(t.ID())
	})
	// printed form with unresolved operands (the resolving printer is a debugging aid and
	// crashes on closures inside global-variable getters; it is used when it works)
	out.Printed = bbq.NewInstructionsProgramPrinter(false, false, false).PrintProgram(ip)
	func() {
		defer func() {
			if r := recover(); r != nil {
				out.Printed += "\n<resolving printer panicked>"
			}
		}()
		out.Printed += "\n" + bbq.NewInstructionsProgramPrinter(true, false, false).PrintProgram(ip)
	}()
	for _, v := range ip.Variables {
		if v.Getter != nil {
			out.Functions = append(out.Functions, v.Getter.Code)
		}
	}
	for _, f := range ip.Functions {
		out.Functions = append(out.Functions, f.Code)
	}
	return out, nil
}

// c35CompileBytes compiles with the bytecode back end (needs its own checker:
// compilation extends the elaboration).
func c35CompileBytes(checker *sema.Checker, peephole bool, out *c35Compiled) (err error) {
	defer func() {
		if r := recover(); r != nil {
			err = fmt.Errorf("bytecode compiler panic: %v", r)
		}
	}()
	bp := compiler.NewBytecodeCompiler(interpreter.ProgramFromChecker(checker), checker.Location, c35Config(peephole)).Compile()
	out.ByteDump = c35Dump(bp, func(code []byte) string { return fmt.Sprintf("    %x\n", code) }, func(t []byte) string { return fmt.Sprintf("%x", t) })
	for _, v := range bp.Variables {
		if v.Getter != nil {
			out.ByteCode = append(out.ByteCode, v.Getter.Code)
		}
	}
	for _, f := range bp.Functions {
		out.ByteCode = append(out.ByteCode, f.Code)
	}
	return nil
}

func c35Dump[E, T any](p *bbq.Program[E, T], code func([]E) string, typ func(T) string) string {
	var sb strings.Builder
	loc := func(l common.Location) string {
		if l == nil {
			return "<nil>"
		}
		return string(l.TypeID(nil, ""))
	}
	fn := func(f *bbq.Function[E]) {
		fmt.Fprintf(&sb, "  func name=%q qualified=%q params=%d typeParams=%d locals=%d typeIndex=%d native=%v\n",
			f.Name, f.QualifiedName, f.ParameterCount, f.TypeParameterCount, f.LocalCount, f.TypeIndex, f.Code == nil)
		sb.WriteString(code(f.Code))
		for _, pi := range f.LineNumbers.Positions {
			fmt.Fprintf(&sb, "    line %d -> %v-%v\n", pi.InstructionIndex, pi.Position.StartPos, pi.Position.EndPos)
		}
	}
	sb.WriteString("contracts\n")
	for _, c := range p.Contracts {
		fmt.Fprintf(&sb, "  %s %s\n", c.Name, loc(c.Location))
	}
	sb.WriteString("imports\n")
	for _, im := range p.Imports {
		fmt.Fprintf(&sb, "  %s %s\n", im.Name, loc(im.Location))
	}
	sb.WriteString("constants\n")
	for i, c := range p.Constants {
		fmt.Fprintf(&sb, "  %d %v %T %v\n", i, c.Kind, c.Data, c.Data)
	}
	sb.WriteString("types\n")
	for i, t := range p.Types {
		fmt.Fprintf(&sb, "  %d %s\n", i, typ(t))
	}
	sb.WriteString("variables\n")
	for _, v := range p.Variables {
		fmt.Fprintf(&sb, "  var %q\n", v.Name)
		if v.Getter != nil {
			fn(v.Getter)
		}
	}
	sb.WriteString("functions\n")
	for i := range p.Functions {
		fn(&p.Functions[i])
	}
	sb.WriteString("globals\n")
	for _, g := range p.Globals {
		gi := g.GetGlobalInfo()
		fmt.Fprintf(&sb, "  %T name=%q qualified=%q loc=%s index=%d\n", g, gi.Name, gi.QualifiedName, loc(gi.Location), gi.Index)
	}
	return sb.String()
}

// ---- harvested snippets ------------------------------------------------------------------

// c35Harvest extracts the back-quoted string literals of cadence's own test
// files (read-only) that look like Cadence programs. Deterministic order.
func c35Harvest() []string {
	root := c35RepoRoot()
	var files []string
	for _, dir := range []string{"bbq/compiler", "bbq/vm/test", "interpreter", "sema"} {
		m, _ := filepath.Glob(filepath.Join(root, dir, "*_test.go"))
		sort.Strings(m)
		files = append(files, m...)
	}
	seen := map[string]bool{}
	var out []string
	for _, f := range files {
		b, err := os.ReadFile(f)
		if err != nil {
			continue
		}
		parts := strings.Split(string(b), "`")
		for i := 1; i < len(parts); i += 2 {
			s := parts[i]
			if len(s) < 40 || len(s) > 6000 || strings.Contains(s, "%s") || strings.Contains(s, "%d") || strings.Contains(s, "import ") {
				continue
			}
			if !strings.Contains(s, "fun ") && !strings.Contains(s, "struct ") && !strings.Contains(s, "resource ") {
				continue
			}
			if !seen[s] {
				seen[s] = true
				out = append(out, s)
			}
		}
	}
	return out
}

// c35RepoRoot finds the cadence source tree the harness is built against (the
// replace target of go.mod; /repo unless a mutation run redirected it).
func c35RepoRoot() string {
	if r := os.Getenv("VERIF_REPO"); r != "" {
		return r
	}
	return "/repo"
}
