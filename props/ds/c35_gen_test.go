package ds

import (
	"fmt"
	"math/rand"
	"sort"
	"strings"
)

// Program generator for C35: declaration-heavy programs whose compilation goes
// through the compiler's map-backed tables — interface DAGs with (inherited)
// default functions and inherited conditions, composites conforming to several
// interfaces, nested composites inside a contract, enums, events, attachments,
// entitlements, closures and a spread of statement/expression forms.
// Everything is well-typed by construction; the accept rate is measured.

type c35Prog struct {
	Source   string
	Features []string
}

type c35Iface struct {
	name     string
	parents  []int
	defaults []string // default function names
	reqs     []string // functions with conditions only (must be implemented)
	shared   bool     // declares the shared requirement `shared`
}

func genC35Program(r *rand.Rand) c35Prog {
	feat := map[string]bool{}
	kind := "struct"
	if r.Intn(3) == 0 {
		kind = "resource"
		feat["resource"] = true
	}
	inContract := r.Intn(3) == 0
	var sb strings.Builder
	ind := ""
	if inContract {
		sb.WriteString("access(all) contract C {\n")
		ind = "    "
		feat["contract-nested"] = true
	}
	w := func(format string, args ...any) {
		for _, line := range strings.Split(fmt.Sprintf(format, args...), "\n") {
			if line != "" {
				sb.WriteString(ind + line + "\n")
			}
		}
	}

	if r.Intn(2) == 0 {
		w("access(all) event Ev(x: Int, s: String)")
		feat["event"] = true
	}
	nEnum := 0
	if r.Intn(2) == 0 {
		nEnum = 2 + r.Intn(5)
		var cases []string
		for i := 0; i < nEnum; i++ {
			cases = append(cases, fmt.Sprintf("case c%d", i))
		}
		w("access(all) enum En: UInt8 { %s }", strings.Join(cases, "; "))
		feat["enum"] = true
	}
	nEnt := 0
	if r.Intn(3) == 0 && !inContract {
		nEnt = 2 + r.Intn(3)
		for i := 0; i < nEnt; i++ {
			w("access(all) entitlement E%d", i)
		}
		feat["entitlements"] = true
	}

	// interfaces
	viewDefault := map[string]bool{}
	nI := 1 + r.Intn(6)
	ifaces := make([]*c35Iface, nI)
	for i := 0; i < nI; i++ {
		it := &c35Iface{name: fmt.Sprintf("I%d", i)}
		for j := 0; j < i; j++ {
			if r.Intn(3) == 0 {
				it.parents = append(it.parents, j)
			}
		}
		for k, n := 0, r.Intn(5); k < n; k++ {
			it.defaults = append(it.defaults, fmt.Sprintf("d%d_%d", i, k))
		}
		for k, n := 0, r.Intn(3); k < n; k++ {
			it.reqs = append(it.reqs, fmt.Sprintf("q%d_%d", i, k))
		}
		it.shared = r.Intn(3) == 0
		ifaces[i] = it
		if len(it.parents) > 0 {
			feat["interface-inheritance"] = true
		}
		if len(it.parents) > 1 {
			feat["interface-diamond-or-multi"] = true
		}
		hdr := fmt.Sprintf("access(all) %s interface %s", kind, it.name)
		if len(it.parents) > 0 {
			var ps []string
			for _, p := range it.parents {
				ps = append(ps, ifaces[p].name)
			}
			hdr += ": " + strings.Join(ps, ", ")
		}
		w("%s {", hdr)
		for k, d := range it.defaults {
			switch r.Intn(3) {
			case 0:
				w("    access(all) fun %s(): Int { return %d }", d, i*10+k)
			case 1:
				w("    access(all) view fun %s(): Int { return %d }", d, i*10+k)
				viewDefault[d] = true
			default:
				w("    access(all) fun %s(): Int {\n        pre { %d >= 0: \"p%s\" }\n        return %d\n    }", d, k, d, i*10+k)
				feat["default-function-with-condition"] = true
			}
		}
		for _, q := range it.reqs {
			switch r.Intn(3) {
			case 0:
				w("    access(all) fun %s(_ x: Int): Int {\n        pre { x >= %d: \"pre %s\" }\n    }", q, -i, q)
			case 1:
				w("    access(all) fun %s(_ x: Int): Int {\n        post { result >= x: \"post %s\" }\n    }", q, q)
			default:
				w("    access(all) fun %s(_ x: Int): Int {\n        pre { x >= %d }\n        post { result >= before(x) }\n    }", q, -i)
				feat["before-in-inherited-post"] = true
			}
		}
		if it.shared {
			w("    access(all) fun shared(_ x: Int): Int {\n        pre { x > %d: \"shared %s\" }\n    }", -1-i, it.name)
		}
		w("}")
	}
	if nI >= 2 {
		feat["multiple-interfaces"] = true
	}

	closure := func(i int) (defaults, reqs []string, shared bool) {
		seen := map[int]bool{}
		var visit func(int)
		visit = func(x int) {
			if seen[x] {
				return
			}
			seen[x] = true
			for _, p := range ifaces[x].parents {
				visit(p)
			}
		}
		visit(i)
		var idx []int
		for x := range seen {
			idx = append(idx, x)
		}
		sort.Ints(idx)
		for _, x := range idx {
			defaults = append(defaults, ifaces[x].defaults...)
			reqs = append(reqs, ifaces[x].reqs...)
			shared = shared || ifaces[x].shared
		}
		return
	}

	// composites
	nS := 1 + r.Intn(5)
	type comp struct {
		name     string
		defaults []string
		reqs     []string
	}
	var comps []comp
	for s := 0; s < nS; s++ {
		name := fmt.Sprintf("S%d", s)
		var conf []int
		for i := 0; i < nI; i++ {
			if r.Intn(2) == 0 {
				conf = append(conf, i)
			}
		}
		if r.Intn(4) == 0 {
			// conformances listed in a different order than declared
			r.Shuffle(len(conf), func(a, b int) { conf[a], conf[b] = conf[b], conf[a] })
			feat["conformances-shuffled"] = true
		}
		defSet, reqSet := map[string]bool{}, map[string]bool{}
		shared := false
		var names []string
		for _, i := range conf {
			names = append(names, ifaces[i].name)
			d, q, sh := closure(i)
			for _, x := range d {
				defSet[x] = true
			}
			for _, x := range q {
				reqSet[x] = true
			}
			shared = shared || sh
		}
		c := comp{name: name}
		for x := range defSet {
			c.defaults = append(c.defaults, x)
		}
		for x := range reqSet {
			c.reqs = append(c.reqs, x)
		}
		sort.Strings(c.defaults)
		sort.Strings(c.reqs)
		if len(c.defaults) >= 2 {
			feat["inherited-default-functions>=2"] = true
		}
		if len(c.defaults) >= 6 {
			feat["inherited-default-functions>=6"] = true
		}
		hdr := fmt.Sprintf("access(all) %s %s", kind, name)
		if len(names) > 0 {
			hdr += ": " + strings.Join(names, ", ")
		}
		w("%s {", hdr)
		w("    access(all) var n: Int")
		if nEnum > 0 && kind == "struct" {
			w("    access(all) let e: En")
			w("    init() { self.n = %d; self.e = En.c%d }", s, r.Intn(nEnum))
		} else {
			w("    init() { self.n = %d }", s)
		}
		// implement requirements (in random order)
		impl := append([]string{}, c.reqs...)
		r.Shuffle(len(impl), func(a, b int) { impl[a], impl[b] = impl[b], impl[a] })
		for _, q := range impl {
			w("    access(all) fun %s(_ x: Int): Int { return x + self.n }", q)
		}
		if shared {
			w("    access(all) fun shared(_ x: Int): Int { return x * 2 }")
			feat["inherited-conditions-from-several-interfaces"] = true
		}
		// overriding one inherited default function sometimes
		if len(c.defaults) > 0 && r.Intn(3) == 0 {
			o := c.defaults[r.Intn(len(c.defaults))]
			if viewDefault[o] {
				w("    access(all) view fun %s(): Int { return -1 }", o)
			} else {
				w("    access(all) fun %s(): Int { return -1 }", o)
			}
			feat["default-function-overridden"] = true
		}
		// own function with closures
		if r.Intn(2) == 0 {
			w("    access(all) fun own(): Int {\n        var acc = self.n\n        let add = fun (_ d: Int): Int { acc = acc + d; return acc }\n        let twice = fun (_ f: fun(Int): Int, _ v: Int): Int { return f(f(v)) }\n        return twice(add, 2)\n    }")
			feat["closure"] = true
		}
		w("}")
		comps = append(comps, c)
	}

	if kind == "struct" && r.Intn(3) == 0 {
		w("access(all) attachment At for S0 {\n    access(all) fun plus(_ x: Int): Int { return base.n + x }\n}")
		feat["attachment"] = true
	}

	// top-level / contract-level functions using everything
	mk := func(c comp) string {
		if kind == "resource" {
			return "<- create " + c.name + "()"
		}
		return c.name + "()"
	}
	for s, c := range comps {
		var body []string
		op := "="
		if kind == "resource" {
			op = "<-"
		}
		body = append(body, fmt.Sprintf("let v %s %s", op, strings.TrimPrefix(mk(c), "<- ")))
		if kind == "resource" {
			body[0] = "let v <- create " + c.name + "()"
		}
		body = append(body, "var t = v.n")
		calls := append([]string{}, c.defaults...)
		r.Shuffle(len(calls), func(a, b int) { calls[a], calls[b] = calls[b], calls[a] })
		for _, d := range calls {
			body = append(body, fmt.Sprintf("t = t + v.%s()", d))
		}
		for _, q := range c.reqs {
			body = append(body, fmt.Sprintf("t = t + v.%s(%d)", q, 1+r.Intn(9)))
		}
		switch r.Intn(6) {
		case 0:
			body = append(body, "for i in [1, 2, 3] { if i == 2 { continue }; t = t + i }")
		case 1:
			body = append(body, "var k = 0\nwhile k < 3 { k = k + 1; if k == 2 { break } }\nt = t + k")
		case 2:
			body = append(body, "let o: Int? = t > 3 ? t : nil\nif let u = o { t = t + u } else { t = t - 1 }")
		case 3:
			body = append(body, "let d: {String: Int} = {\"a\": 1, \"b\": t}\nt = t + (d[\"a\"] ?? 0) + d.length")
		case 4:
			body = append(body, "let str = \"t=\\(t)\"\nt = t + str.length")
			feat["string-template"] = true
		case 5:
			body = append(body, "switch t {\ncase 1: t = 10\ncase 2: t = 20\ndefault: t = t + 1\n}")
		}
		if feat["event"] && r.Intn(2) == 0 {
			body = append(body, "emit Ev(x: t, s: \"e\")")
		}
		if nEnum > 0 && r.Intn(2) == 0 {
			body = append(body, fmt.Sprintf("t = t + Int(En.c%d.rawValue)", r.Intn(nEnum)))
		}
		if feat["attachment"] && s == 0 {
			body = append(body, "let w = attach At() to v\nt = t + (w[At]?.plus(1) ?? 0)")
		}
		if r.Intn(3) == 0 {
			body = append(body, "let any: AnyStruct = t\nif let back = any as? Int { t = back } \nlet forced = any as! Int\nt = t + forced")
			feat["casts"] = true
		}
		if r.Intn(3) == 0 {
			body = append(body, "let fs: [fun(Int): Int] = [fun (_ a: Int): Int { return a + t }, fun (_ a: Int): Int { return a * 2 }]\nt = fs[0](1) + fs[1](2)")
			feat["closure"] = true
		}
		if kind == "resource" {
			body = append(body, "destroy v")
		}
		body = append(body, "return t")
		w("access(all) fun use%d(): Int {\n    %s\n}", s, strings.ReplaceAll(strings.Join(body, "\n"), "\n", "\n    "))
	}
	if nEnt > 0 && kind == "struct" {
		w("access(all) struct Holder {\n    access(E0) fun a(): Int { return 1 }\n    access(E1) fun b(): Int { return 2 }\n    access(all) fun c(): Int { return 3 }\n}")
		w("access(all) fun ent(): Int {\n    let h = Holder()\n    let r = &h as auth(E0, E1) &Holder\n    let r2 = r as auth(E0) &Holder\n    return r.a() + r.b() + r2.a() + r2.c()\n}")
	}
	if r.Intn(2) == 0 {
		w("access(all) fun counter(): fun(): Int {\n    var c = 0\n    return fun (): Int { c = c + 1; return c }\n}")
		feat["closure"] = true
	}
	if inContract {
		sb.WriteString("}\n")
	}
	var fs []string
	for f := range feat {
		fs = append(fs, f)
	}
	sort.Strings(fs)
	return c35Prog{Source: sb.String(), Features: fs}
}
