package ds

import (
	"bytes"
	"crypto/sha256"
	"encoding/hex"
	"encoding/json"
	"fmt"
	"math"
	"math/big"
	"math/rand"
	"os"
	"os/exec"
	"path/filepath"
	"reflect"
	"sort"
	"strings"
	"testing"

	"github.com/onflow/cadence/bbq/leb128"
	"github.com/onflow/cadence/bbq/opcode"
	"github.com/onflow/cadence/common"

	"verif/lib/evid"
)

// C35 — compilation is deterministic; instruction and LEB128 encodings round-trip.

type c35Case struct {
	Kind     string   `json:"kind"` // "program" | "instruction" | "leb128"
	Source   string   `json:"source,omitempty"`
	Peephole bool     `json:"peephole,omitempty"`
	Origin   string   `json:"origin,omitempty"`
	Hex      string   `json:"hex,omitempty"`   // instruction bytes / leb128 bytes
	Func     string   `json:"func,omitempty"`  // leb128 function
	Value    string   `json:"value,omitempty"` // leb128 integer
	Features []string `json:"features,omitempty"`
}

func c35Digest(c *c35Compiled) string {
	h := sha256.Sum256([]byte(c.Dump + "\x00" + c.Printed))
	return hex.EncodeToString(h[:])
}

func firstDiff(a, b string) string {
	la, lb := strings.Split(a, "\n"), strings.Split(b, "\n")
	for i := 0; i < len(la) && i < len(lb); i++ {
		if la[i] != lb[i] {
			return fmt.Sprintf("line %d: %q vs %q", i+1, la[i], lb[i])
		}
	}
	return fmt.Sprintf("lengths %d vs %d lines", len(la), len(lb))
}

type c35 struct {
	t   *testing.T
	rec *evid.Rec
}

// program checks one source: repeated compilation (fresh check each time, and
// once more from an already-compiled checker's source) yields the identical
// program for peephole off and on; all instructions of the compiled functions
// round-trip through Encode/DecodeInstructions. Returns the digests for the
// child-process comparison (nil when the source is not an accepted program).
func (c *c35) program(src, origin string, features []string, repeats int) map[bool]string {
	checker, err := c35Check(src)
	if err != nil {
		c.rec.Class("generator/rejected-by-checker/" + origin)
		return nil
	}
	c.rec.Class("generator/accepted/" + origin)
	digests := map[bool]string{}
	var nfuncs int
	for _, peephole := range []bool{false, true} {
		first, err := c35CompileChecker(checker, peephole)
		if err != nil {
			// a compiler crash on a checked program belongs to C01/C34; not judged here
			c.rec.Class("compile-failed-not-judged/" + origin)
			return nil
		}
		nfuncs = first.NFuncs
		viol := func(format string, args ...any) {
			c.rec.Violation(c.t, c35Case{Kind: "program", Source: src, Peephole: peephole, Origin: origin, Features: features}, format, args...)
		}
		for k := 1; k < repeats; k++ {
			ch, err := c35Check(src)
			if err != nil {
				viol("repetition %d: the checker rejects a program it accepted before: %v", k, err)
			}
			next, err := c35CompileChecker(ch, peephole)
			if err != nil {
				viol("repetition %d: compilation fails (%v) although it succeeded before", k, err)
			}
			if next.Dump != first.Dump {
				viol("compilation %d (peephole=%v) differs from the first: %s", k, peephole, firstDiff(first.Dump, next.Dump))
			}
			if next.Printed != first.Printed {
				viol("printed program of compilation %d (peephole=%v) differs: %s", k, peephole, firstDiff(first.Printed, next.Printed))
			}
		}
		digests[peephole] = c35Digest(first)
		// every instruction of the compiled program decodes back to itself
		for fi, code := range first.Functions {
			if msg := c35RoundTrip(code); msg != "" {
				viol("function #%d: %s", fi, msg)
			}
			c.rec.ClassN("instructions-from-compiled-programs", int64(len(code)))
			for _, ins := range code {
				c.rec.Class("opcode-in-programs/" + ins.Opcode().String())
			}
		}
		// a fresh checker for the next configuration: compilation extends the elaboration
		if checker, err = c35Check(src); err != nil {
			viol("the checker rejects a program it accepted before: %v", err)
		}
	}
	nontrivial := nfuncs >= 3
	c.rec.Case(nontrivial, "program", src)
	if nontrivial {
		for _, f := range features {
			c.rec.Class("feature/" + f)
		}
		if c.rec.WantSample("program/" + origin) {
			show := src
			if len(show) > 1500 {
				show = show[:1500] + "…"
			}
			c.rec.Sample("program/"+origin, map[string]any{"kind": "program", "origin": origin, "functions": nfuncs, "features": features, "source": show})
		}
	}
	return digests
}

// c35RoundTrip encodes the instructions and decodes them again.
func c35RoundTrip(code []opcode.Instruction) (msg string) {
	defer func() {
		if r := recover(); r != nil {
			msg = fmt.Sprintf("encode/decode panicked: %v", r)
		}
	}()
	var buf []byte
	var ends []int
	for _, ins := range code {
		ins.Encode(&buf)
		ends = append(ends, len(buf))
	}
	if len(buf) >= math.MaxUint16 {
		return "" // beyond the 16-bit instruction pointer; the compiler never emits such functions
	}
	// one at a time, checking the consumed length
	var ip uint16
	for i, ins := range code {
		got := opcode.DecodeInstruction(&ip, buf)
		if !c35SameInstruction(got, ins) {
			return fmt.Sprintf("instruction %d: %#v decodes as %#v (bytes %x)", i, ins, got, buf[ends[i]-(ends[i]-c35prev(ends, i)):ends[i]])
		}
		if int(ip) != ends[i] {
			return fmt.Sprintf("instruction %d: %#v: decoder consumed up to offset %d, encoder wrote up to %d", i, ins, ip, ends[i])
		}
	}
	all := opcode.DecodeInstructions(buf)
	if len(all) != len(code) {
		return fmt.Sprintf("DecodeInstructions returned %d instructions for %d encoded", len(all), len(code))
	}
	for i := range all {
		if !c35SameInstruction(all[i], code[i]) {
			return fmt.Sprintf("DecodeInstructions[%d] = %#v, want %#v", i, all[i], code[i])
		}
	}
	return ""
}

func c35prev(ends []int, i int) int {
	if i == 0 {
		return 0
	}
	return ends[i-1]
}

// c35SameInstruction: deep equality where a nil and an empty slice operand are the same.
func c35SameInstruction(a, b opcode.Instruction) bool {
	if reflect.TypeOf(a) != reflect.TypeOf(b) {
		return false
	}
	va, vb := reflect.ValueOf(a), reflect.ValueOf(b)
	for i := 0; i < va.NumField(); i++ {
		fa, fb := va.Field(i), vb.Field(i)
		if fa.Kind() == reflect.Slice {
			if fa.Len() != fb.Len() {
				return false
			}
			for k := 0; k < fa.Len(); k++ {
				if !reflect.DeepEqual(fa.Index(k).Interface(), fb.Index(k).Interface()) {
					return false
				}
			}
			continue
		}
		if !reflect.DeepEqual(fa.Interface(), fb.Interface()) {
			return false
		}
	}
	return true
}

// ---- randomly constructed instructions of every opcode -------------------------------------------

// c35InstructionTypes discovers the instruction struct type of every opcode by
// decoding the opcode byte followed by zero bytes.
func c35InstructionTypes() (types []reflect.Type, byOpcode map[byte]reflect.Type) {
	byOpcode = map[byte]reflect.Type{}
	zeros := make([]byte, 64)
	for op := 0; op < 256; op++ {
		func() {
			defer func() { _ = recover() }()
			code := append([]byte{byte(op)}, zeros...)
			var ip uint16
			ins := opcode.DecodeInstruction(&ip, code)
			if ins == nil {
				return
			}
			byOpcode[byte(op)] = reflect.TypeOf(ins)
			types = append(types, reflect.TypeOf(ins))
		}()
	}
	return
}

var c35U16Pool = []uint16{0, 1, 2, 127, 128, 254, 255, 256, 257, 511, 512, 32767, 32768, 65279, 65280, 65534, 65535}

func c35FillInstruction(r *rand.Rand, t reflect.Type) (opcode.Instruction, bool) {
	v := reflect.New(t).Elem()
	big := false
	u16 := func() uint16 {
		if r.Intn(3) == 0 {
			return uint16(r.Intn(65536))
		}
		return c35U16Pool[r.Intn(len(c35U16Pool))]
	}
	for i := 0; i < t.NumField(); i++ {
		f := v.Field(i)
		switch {
		case f.Type() == reflect.TypeOf(common.CompositeKind(0)):
			// encoded in 16 bits: the declared kinds plus arbitrary 16-bit values
			if r.Intn(2) == 0 {
				f.SetUint(uint64(r.Intn(int(common.CompositeKindCount()) + 1)))
			} else {
				f.SetUint(uint64(u16()))
			}
		case f.Type() == reflect.TypeOf(common.PathDomain(0)):
			f.SetUint(uint64(r.Intn(256)))
		case f.Kind() == reflect.Uint16:
			x := u16()
			big = big || x >= 256
			f.SetUint(uint64(x))
		case f.Kind() == reflect.Bool:
			f.SetBool(r.Intn(2) == 0)
		case f.Kind() == reflect.Slice && f.Type().Elem().Kind() == reflect.Uint16:
			n := []int{0, 0, 1, 2, 3, 255, 256, 257, 300}[r.Intn(9)]
			if r.Intn(3) == 0 {
				n = r.Intn(301)
			}
			s := make([]uint16, n)
			for k := range s {
				s[k] = u16()
			}
			big = big || n > 0
			f.Set(reflect.ValueOf(s))
		case f.Kind() == reflect.Slice && f.Type().Elem() == reflect.TypeOf(opcode.Upvalue{}):
			n := []int{0, 1, 2, 3, 255, 256, 300}[r.Intn(7)]
			s := make([]opcode.Upvalue, n)
			for k := range s {
				s[k] = opcode.Upvalue{TargetIndex: u16(), IsLocal: r.Intn(2) == 0}
			}
			big = big || n > 0
			f.Set(reflect.ValueOf(s))
		default:
			panic(fmt.Sprintf("harness: unsupported operand type %s in %s (extend c35FillInstruction)", f.Type(), t))
		}
	}
	return v.Interface().(opcode.Instruction), big
}

func (c *c35) instructions(n int) {
	types, byOp := c35InstructionTypes()
	c.rec.Extra("opcodes_discovered", len(types))
	if len(types) < 50 {
		c.rec.Inconclusive(c.t, "only %d instruction types discovered", len(types))
	}
	r := evid.Rand(3502)
	// every opcode: the discovered type reports that opcode
	var ops []int
	for op := range byOp {
		ops = append(ops, int(op))
	}
	sort.Ints(ops)
	for _, op := range ops {
		ins, _ := c35FillInstruction(r, byOp[byte(op)])
		if byte(ins.Opcode()) != byte(op) {
			c.rec.Violation(c.t, c35Case{Kind: "instruction", Hex: fmt.Sprintf("%02x", op)}, "opcode byte %#x decodes to %T whose Opcode() is %#x", op, ins, byte(ins.Opcode()))
		}
	}
	for done := 0; done < n; {
		// sequences of 1..20 instructions (checks instruction boundaries as well)
		k := 1 + r.Intn(20)
		seq := make([]opcode.Instruction, 0, k)
		nt := false
		size := 0
		for i := 0; i < k; i++ {
			ins, big := c35FillInstruction(r, types[r.Intn(len(types))])
			var b []byte
			ins.Encode(&b)
			if size+len(b) >= 60000 {
				break
			}
			size += len(b)
			if len(b) == 0 || b[0] != byte(ins.Opcode()) {
				c.rec.Violation(c.t, c35Case{Kind: "instruction", Hex: hex.EncodeToString(b)}, "%#v: first encoded byte is not the opcode", ins)
			}
			seq = append(seq, ins)
			nt = nt || big
			c.rec.CaseH(big, evid.Hash("ins", fmt.Sprintf("%#v", ins)))
			c.rec.Class("opcode-constructed/" + ins.Opcode().String())
			if big && c.rec.WantSample("instruction/"+ins.Opcode().String()) && len(b) < 40 && r.Intn(50) == 0 {
				c.rec.Sample("instruction/"+ins.Opcode().String(), map[string]any{"kind": "instruction", "instruction": fmt.Sprintf("%#v", ins), "encoded": hex.EncodeToString(b)})
			}
		}
		done += len(seq)
		if msg := c35RoundTrip(seq); msg != "" {
			var buf []byte
			for _, ins := range seq {
				ins.Encode(&buf)
			}
			c.rec.Violation(c.t, c35Case{Kind: "instruction", Hex: hex.EncodeToString(buf)}, "%s", msg)
		}
	}
}

// ---- LEB128 ------------------------------------------------------------------------------------

// reference encoders (canonical LEB128) on big integers
func refULEB(v *big.Int) []byte {
	x := new(big.Int).Set(v)
	var out []byte
	for {
		b := byte(new(big.Int).And(x, big.NewInt(0x7f)).Int64())
		x.Rsh(x, 7)
		if x.Sign() != 0 {
			out = append(out, b|0x80)
		} else {
			return append(out, b)
		}
	}
}

func refSLEB(v *big.Int) []byte {
	x := new(big.Int).Set(v)
	var out []byte
	for {
		b := byte(new(big.Int).And(x, big.NewInt(0x7f)).Int64()) // two's complement low bits (big.Int And is two's complement)
		x.Rsh(x, 7)                                              // arithmetic shift
		done := (x.Sign() == 0 && b&0x40 == 0) || (x.Cmp(big.NewInt(-1)) == 0 && b&0x40 != 0)
		if done {
			return append(out, b)
		}
		out = append(out, b|0x80)
	}
}

// reference decoders: value of a complete encoding (last byte has no continuation bit)
func refDecodeU(b []byte) *big.Int {
	v := new(big.Int)
	for i, x := range b {
		v.Or(v, new(big.Int).Lsh(big.NewInt(int64(x&0x7f)), uint(7*i)))
	}
	return v
}

func refDecodeS(b []byte) *big.Int {
	v := refDecodeU(b)
	if b[len(b)-1]&0x40 != 0 {
		v.Sub(v, new(big.Int).Lsh(big.NewInt(1), uint(7*len(b))))
	}
	return v
}

type lebFunc struct {
	name    string
	bits    int
	signed  bool
	maxLen  int
	appendV func(v *big.Int) []byte
	read    func(b []byte) (*big.Int, int, error)
}

var lebFuncs = []lebFunc{
	{"Uint32", 32, false, 5,
		func(v *big.Int) []byte { return leb128.AppendUint32(nil, uint32(v.Uint64())) },
		func(b []byte) (*big.Int, int, error) {
			v, n, err := leb128.ReadUint32(b)
			return new(big.Int).SetUint64(uint64(v)), n, err
		}},
	{"Uint64", 64, false, 10,
		func(v *big.Int) []byte { return leb128.AppendUint64(nil, v.Uint64()) },
		func(b []byte) (*big.Int, int, error) {
			v, n, err := leb128.ReadUint64(b)
			return new(big.Int).SetUint64(v), n, err
		}},
	{"Int32", 32, true, 5,
		func(v *big.Int) []byte { return leb128.AppendInt32(nil, int32(v.Int64())) },
		func(b []byte) (*big.Int, int, error) {
			v, n, err := leb128.ReadInt32(b)
			return big.NewInt(int64(v)), n, err
		}},
	{"Int64", 64, true, 10,
		func(v *big.Int) []byte { return leb128.AppendInt64(nil, v.Int64()) },
		func(b []byte) (*big.Int, int, error) {
			v, n, err := leb128.ReadInt64(b)
			return big.NewInt(v), n, err
		}},
}

func (f lebFunc) rangeOf() (lo, hi *big.Int) {
	if f.signed {
		hi = new(big.Int).Lsh(big.NewInt(1), uint(f.bits-1))
		lo = new(big.Int).Neg(hi)
		return lo, hi.Sub(hi, big.NewInt(1))
	}
	hi = new(big.Int).Lsh(big.NewInt(1), uint(f.bits))
	return big.NewInt(0), hi.Sub(hi, big.NewInt(1))
}

func (f lebFunc) boundary() []*big.Int {
	lo, hi := f.rangeOf()
	var out []*big.Int
	add := func(v *big.Int) {
		if v.Cmp(lo) >= 0 && v.Cmp(hi) <= 0 {
			out = append(out, v)
		}
	}
	for _, d := range []int64{0, 1, 2, -1, -2} {
		add(big.NewInt(d))
		add(new(big.Int).Add(lo, big.NewInt(d)))
		add(new(big.Int).Add(hi, big.NewInt(d)))
	}
	for k := 0; k <= f.bits; k++ {
		p := new(big.Int).Lsh(big.NewInt(1), uint(k))
		for _, d := range []int64{-2, -1, 0, 1, 2} {
			add(new(big.Int).Add(p, big.NewInt(d)))
			add(new(big.Int).Add(new(big.Int).Neg(p), big.NewInt(d)))
		}
	}
	return out
}

func (c *c35) leb128(nRandom int) {
	r := evid.Rand(3503)
	safeRead := func(f lebFunc, b []byte) (v *big.Int, n int, err error, p any) {
		defer func() { p = recover() }()
		v, n, err = f.read(b)
		return
	}
	for _, f := range lebFuncs {
		lo, hi := f.rangeOf()
		span := new(big.Int).Add(new(big.Int).Sub(hi, lo), big.NewInt(1))
		one := func(v *big.Int) {
			enc := f.appendV(v)
			var ref []byte
			if f.signed {
				ref = refSLEB(v)
			} else {
				ref = refULEB(v)
			}
			nt := len(enc) >= 2
			c.rec.CaseH(nt, evid.Hash("leb", f.name, v.String()))
			c.rec.Class(fmt.Sprintf("leb128/%s/len%d", f.name, len(enc)))
			cs := c35Case{Kind: "leb128", Func: f.name, Value: v.String(), Hex: hex.EncodeToString(enc)}
			if nt && len(enc) == f.maxLen && c.rec.WantSample("leb128/"+f.name) {
				c.rec.Sample("leb128/"+f.name, map[string]any{"kind": "leb128", "func": "Append" + f.name, "value": v.String(), "encoded": hex.EncodeToString(enc)})
			}
			if !bytes.Equal(enc, ref) {
				c.rec.Violation(c.t, cs, "Append%s(%s) = %x, canonical LEB128 is %x", f.name, v, enc, ref)
			}
			// appending after existing data leaves the prefix intact
			// Read(Append(v)) == (v, len), also with trailing bytes
			for _, trail := range [][]byte{nil, {0x00}, {0x80, 0x01}, {0xff, 0xff, 0xff}} {
				in := append(append([]byte{}, enc...), trail...)
				got, n, err, p := safeRead(f, in)
				if p != nil || err != nil || got.Cmp(v) != 0 || n != len(enc) {
					c.rec.Violation(c.t, cs, "Read%s(Append%s(%s) ++ %x) = (%v, %d, %v, panic %v), want (%s, %d)", f.name, f.name, v, trail, got, n, err, p, v, len(enc))
				}
			}
			// every proper prefix is truncated input: error, no panic
			for k := 0; k < len(enc); k++ {
				c.rec.Evals(1)
				_, _, err, p := safeRead(f, enc[:k])
				if p != nil || err == nil {
					c.rec.Violation(c.t, c35Case{Kind: "leb128", Func: f.name, Hex: hex.EncodeToString(enc[:k])}, "Read%s(%x) (truncated encoding of %s): err=%v panic=%v, want an error", f.name, enc[:k], v, err, p)
				}
			}
			// non-canonical (zero- / sign-extended) encodings up to the maximal length denote the same integer
			for l := len(enc) + 1; l <= f.maxLen; l++ {
				pad := append([]byte{}, enc...)
				fill := byte(0x00)
				if f.signed && v.Sign() < 0 {
					fill = 0x7f
				}
				pad[len(pad)-1] |= 0x80
				for len(pad) < l-1 {
					pad = append(pad, fill|0x80)
				}
				pad = append(pad, fill)
				c.rec.Evals(1)
				c.rec.Class("leb128/" + f.name + "/padded")
				got, n, err, p := safeRead(f, pad)
				want := refDecodeU(pad)
				if f.signed {
					want = refDecodeS(pad)
				}
				if want.Cmp(v) != 0 {
					c.t.Fatalf("harness bug: padded encoding %x of %s decodes to %s in the reference", pad, v, want)
				}
				if p != nil || err != nil || got.Cmp(v) != 0 || n != l {
					c.rec.Violation(c.t, c35Case{Kind: "leb128", Func: f.name, Value: v.String(), Hex: hex.EncodeToString(pad)}, "Read%s(%x) (length-%d encoding of %s) = (%v, %d, %v, panic %v), want (%s, %d)", f.name, pad, l, v, got, n, err, p, v, l)
				}
			}
			// fixed-length variant (unsigned 32 only)
			if f.name == "Uint32" {
				for l := 1; l <= 5; l++ {
					c.rec.Evals(1)
					fits := v.BitLen() <= 7*l
					out, err := leb128.AppendUint32FixedLength([]byte{0xaa}, uint32(v.Uint64()), l)
					if fits != (err == nil) {
						c.rec.Violation(c.t, cs, "AppendUint32FixedLength(%s, %d): err=%v, value fits in %d groups: %v", v, l, err, l, fits)
					}
					if err == nil {
						if len(out) != 1+l || out[0] != 0xaa {
							c.rec.Violation(c.t, cs, "AppendUint32FixedLength(%s, %d) wrote %x", v, l, out)
						}
						got, n, rerr := leb128.ReadUint32(out[1:])
						if rerr != nil || uint64(got) != v.Uint64() || n != l {
							c.rec.Violation(c.t, cs, "ReadUint32(AppendUint32FixedLength(%s, %d)=%x) = (%d, %d, %v)", v, l, out[1:], got, n, rerr)
						}
					}
				}
			}
		}
		for _, v := range f.boundary() {
			one(v)
		}
		for i := 0; i < nRandom; i++ {
			var v *big.Int
			if r.Intn(2) == 0 {
				// uniform in bit length
				bl := r.Intn(f.bits + 1)
				v = new(big.Int).Rand(r, new(big.Int).Lsh(big.NewInt(1), uint(bl)))
				if f.signed && r.Intn(2) == 0 {
					v.Neg(v)
				}
				if v.Cmp(lo) < 0 || v.Cmp(hi) > 0 {
					v = new(big.Int).Set(hi)
				}
			} else {
				v = new(big.Int).Add(lo, new(big.Int).Rand(r, span))
			}
			one(v)
		}
		// malformed: over-long and arbitrary bytes never panic, never claim to have read more than exists
		for i := 0; i < nRandom/4+50; i++ {
			n := r.Intn(14)
			b := make([]byte, n)
			r.Read(b)
			switch r.Intn(3) {
			case 0:
				for k := range b {
					b[k] |= 0x80 // all continuation bits set
				}
			case 1:
				for k := 0; k+1 < len(b); k++ {
					b[k] |= 0x80
				}
				if n > 0 {
					b[n-1] &= 0x7f
				}
			}
			c.rec.Evals(1)
			c.rec.Class("leb128/" + f.name + "/arbitrary-bytes")
			_, cnt, err, p := safeRead(f, b)
			if p != nil {
				c.rec.Violation(c.t, c35Case{Kind: "leb128", Func: f.name, Hex: hex.EncodeToString(b)}, "Read%s(%x) panicked: %v", f.name, b, p)
			}
			if err == nil && (cnt < 1 || cnt > len(b) || cnt > f.maxLen) {
				c.rec.Violation(c.t, c35Case{Kind: "leb128", Func: f.name, Hex: hex.EncodeToString(b)}, "Read%s(%x) reports %d bytes read (input %d bytes, at most %d allowed)", f.name, b, cnt, len(b), f.maxLen)
			}
			// input that ends inside an encoding (all available bytes have the continuation bit, fewer than the maximum): error
			allCont := n > 0
			for _, x := range b {
				allCont = allCont && x&0x80 != 0
			}
			if (n == 0 || allCont && n < f.maxLen) && err == nil {
				c.rec.Violation(c.t, c35Case{Kind: "leb128", Func: f.name, Hex: hex.EncodeToString(b)}, "Read%s(%x): input ends inside an encoding but no error is returned", f.name, b)
			}
		}
	}
}

// ---- child processes ---------------------------------------------------------------------------

type c35Job struct {
	Sources []string `json:"sources"`
}

type c35JobResult struct {
	Digests [][2]string `json:"digests"` // per source: peephole off, on ("" when not compiled)
}

func c35RunJob(job c35Job) c35JobResult {
	var res c35JobResult
	for _, src := range job.Sources {
		var d [2]string
		for i, peephole := range []bool{false, true} {
			ch, err := c35Check(src)
			if err != nil {
				continue
			}
			cmp, err := c35CompileChecker(ch, peephole)
			if err != nil {
				continue
			}
			d[i] = c35Digest(cmp)
		}
		res.Digests = append(res.Digests, d)
	}
	return res
}

// TestC35Child is the child-process entry point (no-op unless VERIF_C35_JOB is set).
func TestC35Child(t *testing.T) {
	jobPath := os.Getenv("VERIF_C35_JOB")
	if jobPath == "" {
		t.Skip("child entry point")
	}
	b, err := os.ReadFile(jobPath)
	if err != nil {
		t.Fatal(err)
	}
	var job c35Job
	if err := json.Unmarshal(b, &job); err != nil {
		t.Fatal(err)
	}
	out, _ := json.Marshal(c35RunJob(job))
	if err := os.WriteFile(os.Getenv("VERIF_C35_OUT"), out, 0o644); err != nil {
		t.Fatal(err)
	}
}

func (c *c35) children(sources []string, want []map[bool]string, nChildren int) {
	dir, err := os.MkdirTemp(os.Getenv("VERIF_WORK"), "c35-child-")
	if err != nil {
		c.rec.Inconclusive(c.t, "cannot create work dir: %v", err)
	}
	defer os.RemoveAll(dir)
	jobPath := filepath.Join(dir, "job.json")
	b, _ := json.Marshal(c35Job{Sources: sources})
	if err := os.WriteFile(jobPath, b, 0o644); err != nil {
		c.rec.Inconclusive(c.t, "cannot write job: %v", err)
	}
	for k := 0; k < nChildren; k++ {
		outPath := filepath.Join(dir, fmt.Sprintf("out%d.json", k))
		cmd := exec.Command(os.Args[0], "-test.run", "^TestC35Child$", "-test.count=1")
		env := []string{"VERIF_C35_JOB=" + jobPath, "VERIF_C35_OUT=" + outPath, fmt.Sprintf("GOMAXPROCS=%d", 1+k)}
		for _, e := range os.Environ() {
			if !strings.HasPrefix(e, "VERIF_STATS_OUT=") && !strings.HasPrefix(e, "VERIF_REPLAY_FILE=") && !strings.HasPrefix(e, "GOMAXPROCS=") {
				env = append(env, e)
			}
		}
		cmd.Env = env
		if out, err := cmd.CombinedOutput(); err != nil {
			c.rec.Inconclusive(c.t, "child process %d failed: %v\n%s", k, err, out)
		}
		rb, err := os.ReadFile(outPath)
		var res c35JobResult
		if err != nil || json.Unmarshal(rb, &res) != nil || len(res.Digests) != len(sources) {
			c.rec.Inconclusive(c.t, "child process %d produced no usable result", k)
		}
		for i, d := range res.Digests {
			for pi, peephole := range []bool{false, true} {
				c.rec.Evals(1)
				c.rec.Class("child-process-compilations")
				if d[pi] != want[i][peephole] {
					c.rec.Violation(c.t, c35Case{Kind: "program", Source: sources[i], Peephole: peephole, Origin: fmt.Sprintf("child-process-%d", k)},
						"fresh process %d (GOMAXPROCS=%d) compiled a different program (peephole=%v): digest %s vs %s in the parent", k, 1+k, peephole, d[pi], want[i][peephole])
				}
			}
		}
	}
}

// ---- the test ----------------------------------------------------------------------------------

func TestC35(t *testing.T) {
	rec := evid.Start(t, "C35", "(i) programs: declaration-heavy generated programs (interface DAGs with inherited default functions and conditions, composites conforming to several interfaces in shuffled order, "+
		"contract-nested composites, enums, events, attachments, entitlements, closures) and Cadence snippets harvested from cadence's own test files that pass the checker; each is checked and compiled with "+
		"compiler.NewInstructionCompilerWithConfig(...).Compile() 5x in-process (fresh parse+check each time) and in 3 fresh child processes, with and without peephole optimisation; a structural dump "+
		"(functions in order with code, locals, type indices, line tables; constants; types; imports; variables; globals; contracts) and the printed program must be identical. "+
		"(ii) every instruction of the compiled programs, and reflection-constructed instructions of every opcode (uint16 operands incl. 0/255/256/65535, bools, kinds, []uint16 and upvalue arrays of length 0..300) in sequences of 1..20: "+
		"DecodeInstruction/DecodeInstructions(Encode(i)) == i with the consumed length equal to the encoded length. (iii) LEB128: Append{Uint,Int}{32,64} equal the canonical reference encoding, Read(Append(v)) == (v, len) also with trailing bytes, "+
		"zero/sign-extended encodings up to 5/10 bytes denote the same value, fixed-length variant, truncated inputs give an error, arbitrary/over-long bytes never panic. "+
		"Non-trivial: program compiling to >= 3 functions; instruction with an operand >= 256 or a non-empty array operand; integer whose encoding has >= 2 bytes. Distinct by source / instruction value / (function, integer).")
	c := &c35{t: t, rec: rec}

	if f := evid.ReplayFile(); f != "" {
		var cs c35Case
		if err := evid.LoadReplay(f, &cs); err != nil {
			t.Fatalf("bad replay file: %v", err)
		}
		switch cs.Kind {
		case "program":
			d := c.program(cs.Source, "replay", cs.Features, 20)
			if d != nil {
				c.children([]string{cs.Source}, []map[bool]string{d}, 3)
			}
		case "instruction":
			b, _ := hex.DecodeString(cs.Hex)
			var msg string
			func() {
				defer func() {
					if r := recover(); r != nil {
						msg = fmt.Sprintf("decode panicked: %v", r)
					}
				}()
				msg = c35RoundTrip(opcode.DecodeInstructions(b))
			}()
			if msg != "" {
				rec.Violation(t, cs, "%s", msg)
			}
		case "leb128":
			c.leb128(0)
		}
		return
	}

	// (i) programs
	r := evid.Rand(3501)
	nGen := evid.N(150, 800)
	nHarvest := evid.N(250, 100000)
	var childSources []string
	var childWant []map[bool]string
	nChild := evid.N(90, 300)
	for i := 0; i < nGen; i++ {
		p := genC35Program(r)
		d := c.program(p.Source, "generated", p.Features, 5)
		if d != nil && len(childSources) < nChild*2/3 {
			childSources, childWant = append(childSources, p.Source), append(childWant, d)
		}
	}
	harvest := c35Harvest()
	rec.Extra("harvested_snippets", len(harvest))
	perm := r.Perm(len(harvest))
	accepted := 0
	for k, idx := range perm {
		if accepted >= nHarvest {
			break
		}
		if evid.Thorough() && k%evid.Shards() != evid.Shard() {
			continue // thorough: the harvested corpus is partitioned over the shards
		}
		d := c.program(harvest[idx], "harvested", []string{"harvested"}, 5)
		if d != nil {
			accepted++
			if len(childSources) < nChild {
				childSources, childWant = append(childSources, harvest[idx]), append(childWant, d)
			}
		}
	}
	if g := rec.ClassCount("generator/accepted/generated"); g*10 < int64(nGen)*8 {
		rec.Inconclusive(t, "only %d of %d generated programs pass the checker", g, nGen)
	}
	if accepted < min(nHarvest, 200/evid.Shards()) {
		rec.Inconclusive(t, "only %d harvested snippets pass the checker", accepted)
	}
	c.children(childSources, childWant, 3)

	// (ii) constructed instructions
	c.instructions(evid.N(120_000, 800_000))

	// (iii) LEB128
	c.leb128(evid.N(8_000, 40_000))

	rec.RequireClasses(t, "feature/inherited-default-functions>=2", "feature/contract-nested", "feature/closure", "feature/conformances-shuffled",
		"child-process-compilations", "leb128/Int64/len10", "leb128/Uint32/len5", "leb128/Int32/padded")
}
