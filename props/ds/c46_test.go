package ds

import (
	"bytes"
	"encoding/binary"
	"encoding/hex"
	"fmt"
	"math/rand"
	"sync"
	"testing"

	"github.com/onflow/cadence"
	"github.com/onflow/cadence/common"
	cdcerrors "github.com/onflow/cadence/errors"
	"github.com/onflow/cadence/interpreter"
	"github.com/onflow/cadence/stdlib"
	"github.com/onflow/cadence/stdlib/rlp"

	"verif/lib/evid"
	"verif/lib/host"
)

// C46 — RLP decoding accepts exactly canonical encodings and never crashes.
//
// Oracle: an own strict reference decoder (Ethereum yellow paper, appendix B,
// canonical form only) written against byte slices with uint64 length
// arithmetic. Nothing below calls into cadence to compute an expectation.

// ---------------------------------------------------------------- reference model

type rlpNode struct {
	IsList bool
	Str    []byte
	Items  []*rlpNode
}

// refHeader reads one item header at the start of b.
// hdr = number of header bytes (0 for a single byte < 0x80 which is its own payload).
func refHeader(b []byte) (isList bool, hdr int, pay uint64, reason string) {
	if len(b) == 0 {
		return false, 0, 0, "empty"
	}
	f := b[0]
	switch {
	case f < 0x80:
		return false, 0, 1, ""
	case f <= 0xb7:
		return false, 1, uint64(f - 0x80), ""
	case f >= 0xc0 && f <= 0xf7:
		return true, 1, uint64(f - 0xc0), ""
	}
	var ll int
	if f <= 0xbf {
		ll = int(f - 0xb7)
	} else {
		ll = int(f - 0xf7)
		isList = true
	}
	if len(b) < 1+ll {
		// not enough length bytes; a leading zero among the available ones is also a defect,
		// either reason is a rejection
		return isList, 0, 0, "truncated-length"
	}
	if b[1] == 0 {
		return isList, 0, 0, "leading-zero-length"
	}
	var l uint64
	for _, x := range b[1 : 1+ll] {
		l = l<<8 | uint64(x)
	}
	if l <= 55 {
		return isList, 0, 0, "long-form-for-short-payload"
	}
	return isList, 1 + ll, l, ""
}

// refStrict parses exactly one strictly canonical item at the start of b
// (recursively) and returns the tree and the number of bytes it occupies.
func refStrict(b []byte, depth int) (n *rlpNode, consumed int, reason string) {
	isList, hdr, pay, reason := refHeader(b)
	if reason != "" {
		return nil, 0, reason
	}
	if pay > uint64(len(b)-hdr) {
		return nil, 0, "payload-beyond-input"
	}
	end := hdr + int(pay)
	if !isList {
		if hdr == 1 && pay == 1 && b[1] < 0x80 {
			return nil, 0, "single-byte-wrapped"
		}
		return &rlpNode{Str: b[hdr:end]}, end, ""
	}
	node := &rlpNode{IsList: true}
	payload := b[hdr:end]
	for pos := 0; pos < len(payload); {
		it, c, r := refStrict(payload[pos:], depth+1)
		if r != "" {
			if r == "payload-beyond-input" || r == "truncated-length" {
				r = "list-size-mismatch"
			}
			return nil, 0, "item:" + r
		}
		node.Items = append(node.Items, it)
		pos += c
	}
	return node, end, ""
}

// refShallowList is what a non-recursive list decoder can decide: the list
// header is canonical, the item headers are canonical and the items tile the
// payload exactly. Returns the raw encoded items.
func refShallowList(b []byte) (items [][]byte, consumed int, reason string) {
	isList, hdr, pay, reason := refHeader(b)
	if reason != "" {
		return nil, 0, reason
	}
	if !isList {
		return nil, 0, "type-mismatch"
	}
	if pay > uint64(len(b)-hdr) {
		return nil, 0, "payload-beyond-input"
	}
	end := hdr + int(pay)
	payload := b[hdr:end]
	items = [][]byte{}
	for pos := 0; pos < len(payload); {
		_, ih, ip, r := refHeader(payload[pos:])
		if r != "" {
			if r == "truncated-length" {
				r = "list-size-mismatch"
			}
			return nil, 0, "item:" + r
		}
		if ip > uint64(len(payload)-pos-ih) {
			return nil, 0, "item:list-size-mismatch"
		}
		items = append(items, payload[pos:pos+ih+int(ip)])
		pos += ih + int(ip)
	}
	return items, end, ""
}

// verdict of the reference for a whole input (no trailing bytes allowed).
type rlpVerdict struct {
	Strict       bool     // the input is one strictly canonical item
	Tree         *rlpNode // when Strict
	Reason       string   // why not strict
	StringOK     bool     // decodeString must succeed
	Payload      []byte
	ListShallow  bool // the input is a list whose top level is canonical (items not inspected beyond their headers)
	ShallowItems [][]byte
	ShallowWhy   string
}

func refVerdict(b []byte) rlpVerdict {
	var v rlpVerdict
	tree, c, reason := refStrict(b, 0)
	switch {
	case reason != "":
		v.Reason = reason
	case c != len(b):
		v.Reason = "trailing-bytes"
	default:
		v.Strict, v.Tree = true, tree
	}
	if v.Strict && !tree.IsList {
		v.StringOK, v.Payload = true, tree.Str
	}
	items, c, why := refShallowList(b)
	switch {
	case why != "":
		v.ShallowWhy = why
	case c != len(b):
		v.ShallowWhy = "trailing-bytes"
	default:
		v.ListShallow, v.ShallowItems = true, items
	}
	return v
}

// ---------------------------------------------------------------- reference encoder (generator side)

func encLen(l uint64) []byte {
	var buf [8]byte
	binary.BigEndian.PutUint64(buf[:], l)
	i := 0
	for i < 7 && buf[i] == 0 {
		i++
	}
	return buf[i:]
}

func encHeader(isList bool, l uint64) []byte {
	short, long := byte(0x80), byte(0xb7)
	if isList {
		short, long = 0xc0, 0xf7
	}
	if l <= 55 {
		return []byte{short + byte(l)}
	}
	lb := encLen(l)
	return append([]byte{long + byte(len(lb))}, lb...)
}

// mutation applied to the header of the node with preorder index Target while encoding.
type rlpMut struct {
	Target int
	Kind   string // "", "longform", "leadingzero", "wrapsingle", "declared", "lenplus", "lenminus", "fliptype"
	Len    uint64 // for "declared"
	Pad    int    // for "declared": number of length bytes (1..8), 0 = minimal
}

func (n *rlpNode) encode(idx *int, m *rlpMut) []byte {
	me := *idx
	*idx++
	var payload []byte
	if n.IsList {
		for _, it := range n.Items {
			payload = append(payload, it.encode(idx, m)...)
		}
	} else {
		payload = n.Str
	}
	hit := m != nil && m.Target == me
	if !n.IsList && len(payload) == 1 && payload[0] < 0x80 {
		if hit && m.Kind == "wrapsingle" {
			return []byte{0x81, payload[0]}
		}
		if !hit || (m.Kind != "longform" && m.Kind != "declared") {
			return payload
		}
	}
	l := uint64(len(payload))
	hdr := encHeader(n.IsList, l)
	if hit {
		long := byte(0xb7)
		if n.IsList {
			long = 0xf7
		}
		switch m.Kind {
		case "longform":
			lb := encLen(l)
			hdr = append([]byte{long + byte(len(lb))}, lb...)
		case "leadingzero":
			lb := append([]byte{0}, encLen(l)...)
			if len(lb) > 8 {
				lb = lb[:8]
			}
			hdr = append([]byte{long + byte(len(lb))}, lb...)
		case "declared":
			lb := encLen(m.Len)
			for len(lb) < m.Pad && len(lb) < 8 {
				lb = append([]byte{0}, lb...)
			}
			hdr = append([]byte{long + byte(len(lb))}, lb...)
		case "lenplus":
			hdr = encHeader(n.IsList, l+1+uint64(m.Pad))
		case "lenminus":
			d := uint64(1 + m.Pad)
			if d > l {
				d = l
			}
			hdr = encHeader(n.IsList, l-d)
		case "fliptype":
			hdr = encHeader(!n.IsList, l)
		}
	}
	return append(append([]byte{}, hdr...), payload...)
}

func (n *rlpNode) count() int {
	c := 1
	for _, it := range n.Items {
		c += it.count()
	}
	return c
}

func (n *rlpNode) depth() int {
	d := 0
	for _, it := range n.Items {
		if x := it.depth(); x > d {
			d = x
		}
	}
	if n.IsList {
		return d + 1
	}
	return d
}

func (n *rlpNode) equal(o *rlpNode) bool {
	if n.IsList != o.IsList || len(n.Items) != len(o.Items) || !bytes.Equal(n.Str, o.Str) {
		return false
	}
	for i := range n.Items {
		if !n.Items[i].equal(o.Items[i]) {
			return false
		}
	}
	return true
}

var rlpStrLens = []int{0, 1, 1, 1, 2, 3, 54, 55, 56, 57, 100, 254, 255, 256, 257, 1000, 65534, 65535, 65536, 65537, 70000}

func genRLPString(r *rand.Rand, maxLen int) *rlpNode {
	var l int
	switch r.Intn(10) {
	case 0, 1, 2:
		l = rlpStrLens[r.Intn(len(rlpStrLens))]
	case 3:
		l = 1
	default:
		l = r.Intn(60)
	}
	if l > maxLen {
		l = r.Intn(maxLen + 1)
	}
	s := make([]byte, l)
	r.Read(s)
	if l == 1 {
		// straddle the 0x7f/0x80 boundary
		s[0] = []byte{0x00, 0x01, 0x7e, 0x7f, 0x80, 0x81, 0xb7, 0xb8, 0xbf, 0xc0, 0xf7, 0xf8, 0xff, s[0]}[r.Intn(14)]
	}
	return &rlpNode{Str: s}
}

func genRLPNode(r *rand.Rand, depth, maxStr int) *rlpNode {
	if depth <= 0 || r.Intn(3) == 0 {
		return genRLPString(r, maxStr)
	}
	n := &rlpNode{IsList: true}
	var k int
	switch r.Intn(8) {
	case 0:
		k = 0
	case 1:
		// payload straddling 55/56 when made of single bytes
		k = 53 + r.Intn(5)
		for i := 0; i < k; i++ {
			n.Items = append(n.Items, &rlpNode{Str: []byte{byte(r.Intn(0x80))}})
		}
		return n
	case 2:
		k = 250 + r.Intn(10)
		for i := 0; i < k; i++ {
			n.Items = append(n.Items, &rlpNode{Str: []byte{byte(r.Intn(0x80))}})
		}
		return n
	default:
		k = 1 + r.Intn(5)
	}
	for i := 0; i < k; i++ {
		n.Items = append(n.Items, genRLPNode(r, depth-1, maxStr/2+1))
	}
	return n
}

var rlpHostileLens = []uint64{1 << 31, 1<<31 - 1, 1 << 32, 1<<32 - 1, 1<<63 - 1, 1 << 63, 1<<63 + 1, 1<<64 - 1, 1<<64 - 2, 1<<64 - 9, 1<<63 - 9, 56, 55, 0, 1, 255, 256, 65535, 65536}

var rlpMutKinds = []string{"longform", "leadingzero", "wrapsingle", "declared", "declared", "lenplus", "lenminus", "fliptype"}

// ---------------------------------------------------------------- the check

type c46Case struct {
	Hex    string `json:"input_hex"`
	Origin string `json:"origin,omitempty"`
}

type c46 struct {
	t            *testing.T
	rec          *evid.Rec
	inter        *interpreter.Interpreter
	wrapperCalls int
}

func callNoPanic(f func()) (p any) {
	defer func() { p = recover() }()
	f()
	return nil
}

// goLevel checks rlp.DecodeString / rlp.DecodeList plus the wrapper's
// "bytesRead == len(input)" rule against the reference. Returns a message on
// disagreement.
func (c *c46) goLevel(b []byte, v rlpVerdict) string {
	var (
		s     []byte
		n     int
		err   error
		items [][]byte
	)
	if p := callNoPanic(func() { s, n, err = rlp.DecodeString(b, 0) }); p != nil {
		return fmt.Sprintf("rlp.DecodeString panicked: %v", p)
	}
	okS := err == nil && n == len(b)
	if okS != v.StringOK {
		return fmt.Sprintf("rlp.DecodeString: accepted=%v (err=%v, bytesRead=%d of %d), reference accepts=%v (%s)", okS, err, n, len(b), v.StringOK, v.Reason)
	}
	if okS && !bytes.Equal(s, v.Payload) {
		return fmt.Sprintf("rlp.DecodeString payload %x, reference %x", s, v.Payload)
	}
	if err == nil && n != len(b) {
		// accepted a proper prefix: that prefix must itself be a canonical string
		if n <= 0 || n > len(b) {
			return fmt.Sprintf("rlp.DecodeString bytesRead=%d out of range for %d input bytes", n, len(b))
		}
		if pv := refVerdict(b[:n]); !pv.StringOK || !bytes.Equal(pv.Payload, s) {
			return fmt.Sprintf("rlp.DecodeString read %d bytes as a string %x, but that prefix is not a canonical string (%s)", n, s, pv.Reason)
		}
	}
	if p := callNoPanic(func() { items, n, err = rlp.DecodeList(b, 0) }); p != nil {
		return fmt.Sprintf("rlp.DecodeList panicked: %v", p)
	}
	okL := err == nil && n == len(b)
	strictList := v.Strict && v.Tree.IsList
	switch {
	case strictList && !okL:
		return fmt.Sprintf("rlp.DecodeList rejected (err=%v, bytesRead=%d of %d) a canonical list encoding", err, n, len(b))
	case !v.ListShallow && okL:
		return fmt.Sprintf("rlp.DecodeList accepted an input the reference rejects at the top level (%s)", v.ShallowWhy)
	}
	if okL {
		if len(items) != len(v.ShallowItems) {
			return fmt.Sprintf("rlp.DecodeList returned %d items, reference %d", len(items), len(v.ShallowItems))
		}
		for i := range items {
			if !bytes.Equal(items[i], v.ShallowItems[i]) {
				return fmt.Sprintf("rlp.DecodeList item %d = %x, reference %x", i, items[i], v.ShallowItems[i])
			}
		}
	}
	// full recursive decoding through the public functions accepts exactly the strictly canonical inputs
	tree, deepOK, deepPanic := deepCadence(b, 0)
	if deepPanic != nil {
		return fmt.Sprintf("recursive decoding panicked: %v", deepPanic)
	}
	if deepOK != v.Strict {
		return fmt.Sprintf("recursive decoding through DecodeString/DecodeList accepted=%v, strict reference accepts=%v (%s)", deepOK, v.Strict, v.Reason)
	}
	if deepOK && !tree.equal(v.Tree) {
		return "recursive decoding produced a different item tree than the reference"
	}
	return ""
}

// deepCadence decodes b completely by using only cadence's two functions the
// way a contract would: look at the first byte, call the matching decoder,
// recurse into list items.
func deepCadence(b []byte, depth int) (n *rlpNode, ok bool, panicked any) {
	if len(b) == 0 || depth > 64 {
		return nil, false, nil
	}
	if b[0] < 0xc0 {
		var s []byte
		var k int
		var err error
		if p := callNoPanic(func() { s, k, err = rlp.DecodeString(b, 0) }); p != nil {
			return nil, false, p
		}
		if err != nil || k != len(b) {
			return nil, false, nil
		}
		return &rlpNode{Str: s}, true, nil
	}
	var items [][]byte
	var k int
	var err error
	if p := callNoPanic(func() { items, k, err = rlp.DecodeList(b, 0) }); p != nil {
		return nil, false, p
	}
	if err != nil || k != len(b) {
		return nil, false, nil
	}
	node := &rlpNode{IsList: true}
	for _, it := range items {
		sub, ok, p := deepCadence(it, depth+1)
		if p != nil || !ok {
			return nil, false, p
		}
		node.Items = append(node.Items, sub)
	}
	return node, true, nil
}

// wrapperLevel calls stdlib.RLPDecodeString / RLPDecodeList (the functions
// behind RLP.decodeString / RLP.decodeList) on interpreter values.
func (c *c46) wrapperLevel(b []byte, v rlpVerdict) string {
	for _, fn := range []string{"decodeString", "decodeList"} {
		var out interpreter.Value
		p := callNoPanic(func() {
			arr := interpreter.ByteSliceToByteArrayValue(c.inter, b)
			if fn == "decodeString" {
				out = stdlib.RLPDecodeString(arr, c.inter)
			} else {
				out = stdlib.RLPDecodeList(arr, c.inter)
			}
		})
		if msg := c.judgeWrapper(fn, v, p == nil, func() ([]byte, [][]byte, error) {
			if fn == "decodeString" {
				s, err := interpreter.ByteArrayValueToByteSlice(c.inter, out)
				return s, nil, err
			}
			arr, ok := out.(*interpreter.ArrayValue)
			if !ok {
				return nil, nil, fmt.Errorf("result is %T", out)
			}
			items := [][]byte{}
			var ierr error
			arr.Iterate(c.inter, func(e interpreter.Value) bool {
				s, err := interpreter.ByteArrayValueToByteSlice(c.inter, e)
				if err != nil {
					ierr = err
					return false
				}
				items = append(items, s)
				return true
			}, false)
			return nil, items, ierr
		}, func() string {
			// failure must be the user error of that function
			switch e := p.(type) {
			case *stdlib.RLPDecodeStringError:
				if fn != "decodeString" {
					return "wrong error type RLPDecodeStringError"
				}
				var _ cdcerrors.UserError = e
				return ""
			case *stdlib.RLPDecodeListError:
				if fn != "decodeList" {
					return "wrong error type RLPDecodeListError"
				}
				var _ cdcerrors.UserError = e
				return ""
			}
			return fmt.Sprintf("failed with %T (%v), want the function's user error", p, p)
		}); msg != "" {
			return "stdlib.RLP" + fn + ": " + msg
		}
	}
	return ""
}

// judgeWrapper applies the accept/reject table of the statement to one of the
// two Cadence-level functions.
func (c *c46) judgeWrapper(fn string, v rlpVerdict, succeeded bool, result func() ([]byte, [][]byte, error), failureProblem func() string) string {
	mustAccept := v.StringOK
	mustReject := !v.StringOK
	if fn == "decodeList" {
		mustAccept = v.Strict && v.Tree.IsList
		mustReject = !v.ListShallow
		if !mustAccept && !mustReject {
			c.rec.Class("list-top-level-canonical-but-items-not")
		}
	}
	if !succeeded {
		if mustAccept {
			return fmt.Sprintf("rejected a canonical encoding (%s)", failureProblem())
		}
		return failureProblem()
	}
	if mustReject {
		why := v.Reason
		if fn == "decodeList" {
			why = v.ShallowWhy
		}
		return fmt.Sprintf("accepted an input the reference rejects (%s)", why)
	}
	s, items, err := result()
	if err != nil {
		return "result not readable: " + err.Error()
	}
	if fn == "decodeString" {
		if !bytes.Equal(s, v.Payload) {
			return fmt.Sprintf("payload %x, reference %x", s, v.Payload)
		}
		return ""
	}
	if len(items) != len(v.ShallowItems) {
		return fmt.Sprintf("%d items, reference %d", len(items), len(v.ShallowItems))
	}
	for i := range items {
		if !bytes.Equal(items[i], v.ShallowItems[i]) {
			return fmt.Sprintf("item %d = %x, reference %x", i, items[i], v.ShallowItems[i])
		}
	}
	return ""
}

const c46Script = `access(all) fun main(_ b: [UInt8]): %s { return RLP.%s(b) }`

// scriptLevel runs RLP.decodeString / RLP.decodeList in scripts on both engines.
func (c *c46) scriptLevel(b []byte, v rlpVerdict) string {
	vals := make([]cadence.Value, len(b))
	for i, x := range b {
		vals[i] = cadence.UInt8(x)
	}
	args := host.Args(cadence.NewArray(vals).WithType(cadence.NewVariableSizedArrayType(cadence.UInt8Type)))
	for _, fn := range []string{"decodeString", "decodeList"} {
		ret := "[UInt8]"
		if fn == "decodeList" {
			ret = "[[UInt8]]"
		}
		src := fmt.Sprintf(c46Script, ret, fn)
		for _, eng := range host.Engines {
			h := host.New()
			res := h.Script(src, args, host.Options{Engine: eng})
			info := host.Classify(res)
			c.rec.Class("script/" + eng.String() + "/" + fn + "/" + info.Class)
			if info.Class == "panic" || info.Class == "internal" || info.Class == "external" {
				return fmt.Sprintf("script RLP.%s on %s: %s failure: %v %v", fn, eng, info.Class, res.Err, res.Panic)
			}
			msg := c.judgeWrapper(fn, v, info.Class == "ok", func() ([]byte, [][]byte, error) {
				arr, ok := res.Value.(cadence.Array)
				if !ok {
					return nil, nil, fmt.Errorf("result is %T", res.Value)
				}
				toBytes := func(a cadence.Array) ([]byte, error) {
					out := make([]byte, len(a.Values))
					for i, e := range a.Values {
						u, ok := e.(cadence.UInt8)
						if !ok {
							return nil, fmt.Errorf("element is %T", e)
						}
						out[i] = byte(u)
					}
					return out, nil
				}
				if fn == "decodeString" {
					s, err := toBytes(arr)
					return s, nil, err
				}
				items := [][]byte{}
				for _, e := range arr.Values {
					ia, ok := e.(cadence.Array)
					if !ok {
						return nil, nil, fmt.Errorf("item is %T", e)
					}
					s, err := toBytes(ia)
					if err != nil {
						return nil, nil, err
					}
					items = append(items, s)
				}
				return nil, items, nil
			}, func() string {
				want := "RLPDecodeStringError"
				if fn == "decodeList" {
					want = "RLPDecodeListError"
				}
				if info.Class != "user" || !info.HasType(want) {
					return fmt.Sprintf("failed with class %s, error types %v; want user error %s", info.Class, info.Types, want)
				}
				return ""
			})
			if msg != "" {
				return fmt.Sprintf("script RLP.%s on %s: %s", fn, eng, msg)
			}
		}
	}
	return ""
}

func (c *c46) classify(v rlpVerdict) (label string, nontrivial bool) {
	switch {
	case v.Strict && v.Tree.IsList:
		return "accept/list", true
	case v.Strict:
		return "accept/string", true
	}
	r := v.Reason
	switch r {
	case "empty", "payload-beyond-input", "truncated-length", "trailing-bytes":
		return "reject/" + r, false
	}
	return "reject/" + r, true
}

var (
	c46InterOnce sync.Once
	c46Inter     *interpreter.Interpreter
)

func newBareInterpreter() *interpreter.Interpreter {
	storage := interpreter.NewInMemoryStorage(nil, nil)
	inter, err := interpreter.NewInterpreter(nil, common.StringLocation("verif"), &interpreter.Config{Storage: storage})
	if err != nil {
		panic(err)
	}
	return inter
}

// bareInterpreter is a shared context for Go-level calls on interpreter values.
func bareInterpreter() *interpreter.Interpreter {
	c46InterOnce.Do(func() { c46Inter = newBareInterpreter() })
	return c46Inter
}

// one evaluates one input at the chosen levels.
func (c *c46) one(b []byte, origin string, nontrivialOverride bool, wrapper, script bool) {
	v := refVerdict(b)
	label, nt := c.classify(v)
	nt = nt || nontrivialOverride
	c.rec.CaseH(nt, evid.Hash(string(b)))
	c.rec.Class(label)
	if origin != "" {
		c.rec.Class("origin/" + origin)
	}
	if nt && c.rec.WantSample(origin+"/"+label) && len(b) <= 64 {
		c.rec.Sample(origin+"/"+label, map[string]any{"input_hex": hex.EncodeToString(b), "origin": origin, "reference": label})
	}
	// self-check of the reference: a strictly canonical input re-encodes to itself
	if v.Strict {
		idx := 0
		if !bytes.Equal(v.Tree.encode(&idx, nil), b) {
			c.t.Fatalf("harness bug: reference decoder/encoder disagree on %x", b)
		}
	}
	msg := c.goLevel(b, v)
	if msg == "" && wrapper && (len(b) <= 4096 || c.wrapperCalls%64 == 0) {
		// a fresh in-memory storage now and then: the byte arrays created here are never freed otherwise
		if c.wrapperCalls%4096 == 0 {
			c.inter = newBareInterpreter()
		}
		c.wrapperCalls++
		c.rec.Class("level/stdlib-wrapper")
		msg = c.wrapperLevel(b, v)
	}
	if msg == "" && script {
		msg = c.scriptLevel(b, v)
	}
	if msg != "" {
		show := hex.EncodeToString(b)
		if len(show) > 200 {
			show = show[:200] + "…"
		}
		c.rec.Violation(c.t, c46Case{Hex: hex.EncodeToString(b), Origin: origin}, "input %s (%d bytes, %s; reference: %s): %s", show, len(b), origin, label, msg)
	}
}

// hostileSeeds are the inputs behind the defects fixed in 8303a5f plus relatives.
func c46HostileSeeds() [][]byte {
	seeds := [][]byte{
		{0x81}, {0xb8}, {0xf8}, {0xbf}, {0xff}, {0xb9, 0x01}, {0xf9, 0x01},
		{0xbf, 0x7f, 0xff, 0xff, 0xff, 0xff, 0xff, 0xff, 0xff, 1, 2, 3},
		{0xff, 0x7f, 0xff, 0xff, 0xff, 0xff, 0xff, 0xff, 0xff, 1, 2, 3},
		{0xbf, 0x80, 0, 0, 0, 0, 0, 0, 0, 1, 2, 3},
		{0xbf, 0xff, 0xff, 0xff, 0xff, 0xff, 0xff, 0xff, 0xff},
		{0xff, 0xff, 0xff, 0xff, 0xff, 0xff, 0xff, 0xff, 0xff},
		{0xbf, 0x7f, 0xff, 0xff, 0xff, 0xff, 0xff, 0xff, 0xf7},
		{0xcb, 0xbf, 0x7f, 0xff, 0xff, 0xff, 0xff, 0xff, 0xff, 0xff, 1, 2},
		{0xcb, 0xff, 0x7f, 0xff, 0xff, 0xff, 0xff, 0xff, 0xff, 0xf5, 1, 2},
		{0xc2, 0x81}, {0xc1, 0xb8}, {0xc2, 0xb8, 0x38}, {0xc2, 0x81, 0x05}, {0xc3, 0xc2, 0x81, 0x05},
		{0xbb, 0x7f, 0xff, 0xff, 0xff, 1}, {0xbb, 0x80, 0, 0, 0, 1}, {0xbb, 0xff, 0xff, 0xff, 0xff},
	}
	return seeds
}

func TestC46(t *testing.T) {
	rec := evid.Start(t, "C46", "inputs: (1) every byte string of length 0..3 (16 843 009, exhaustive, shard 0 only); (2) canonical encodings of random nested items from an own encoder "+
		"(strings 0..70 000 bytes incl. 54/55/56, 255/256, 65 535/65 536; single bytes around 0x7f/0x80; lists to depth 4 with payloads straddling 55/56 and 255/256); "+
		"(3) mutants made while encoding at a random node: long form for a short payload, leading-zero length, single byte < 0x80 wrapped as 0x81 b, declared length from "+
		"{2^31,2^32,2^63-1,2^63,2^64-1,…} with 1..8 length bytes, header length ±k, string/list type flipped; plus truncations, trailing bytes, byte flips/inserts/deletes; (4) hostile seeds of the fixed defects. "+
		"Oracle: own strict canonical reference decoder. Checked: rlp.DecodeString/DecodeList + bytesRead==len (all inputs), recursive decoding through both functions accepts exactly the strictly canonical inputs with the same tree, "+
		"stdlib.RLPDecodeString/RLPDecodeList on interpreter values (all generated inputs + a stride of the exhaustive space) and RLP.decodeString/decodeList in scripts on both engines (sample): "+
		"accept ⇔ reference accepts, equal payload/items, failures are the function's user error, never a panic/internal error. "+
		"Non-trivial: the reference accepts the input, or rejects it for a canonicality/structure reason (not mere truncation, trailing bytes or empty input), or it is a mutant one edit away from a canonical encoding. Distinct by input bytes.")
	c := &c46{t: t, rec: rec, inter: newBareInterpreter()}

	if f := evid.ReplayFile(); f != "" {
		var cs c46Case
		if err := evid.LoadReplay(f, &cs); err != nil {
			t.Fatalf("bad replay file: %v", err)
		}
		b, err := hex.DecodeString(cs.Hex)
		if err != nil {
			t.Fatalf("bad replay file: %v", err)
		}
		c.one(b, "replay", true, true, true)
		return
	}

	for _, s := range c46HostileSeeds() {
		c.one(s, "hostile-seed", true, true, true)
	}

	// (1) exhaustive: all inputs of length 0..3
	if evid.Shard() == 0 {
		stride := uint32(evid.N(4099, 257)) // wrapper-level sample of the exhaustive space
		scriptStride := uint32(evid.N(400_009, 40_009))
		var n uint32
		buf := make([]byte, 3)
		for l := 0; l <= 3; l++ {
			total := uint32(1) << (8 * l)
			for x := uint32(0); x < total; x++ {
				for i := 0; i < l; i++ {
					buf[i] = byte(x >> (8 * (l - 1 - i)))
				}
				n++
				c.one(append([]byte{}, buf[:l]...), "", false, l <= 1 || n%stride == 0, l == 0 || n%scriptStride == 0)
			}
		}
		rec.SetExhaustive(true)
		rec.Extra("exhaustive_subspaces", "all byte strings of length 0..3 at the rlp.DecodeString/DecodeList level (16 843 009 inputs)")
	}

	// (2)+(3) generated canonical encodings and mutants
	r := evid.Rand(46)
	nGen := evid.N(6_000, 200_000)
	scriptEvery := evid.N(40, 100)
	for i := 0; i < nGen; i++ {
		maxStr := 300
		if i%50 == 0 {
			maxStr = 70_000
		}
		tree := genRLPNode(r, r.Intn(5), maxStr)
		idx := 0
		canon := tree.encode(&idx, nil)
		script := i%scriptEvery == 0 && len(canon) <= 3000
		rec.Class(fmt.Sprintf("gen/depth%d", tree.depth()))
		c.one(canon, "canonical", true, true, script)
		// metamorphic: decoding at a non-zero start index equals decoding the suffix
		if i%10 == 0 {
			c.startIndex(canon, r)
		}
		// structural mutants
		for k := 0; k < 3; k++ {
			m := &rlpMut{Target: r.Intn(tree.count()), Kind: rlpMutKinds[r.Intn(len(rlpMutKinds))], Pad: r.Intn(9)}
			if m.Kind == "declared" {
				m.Len = rlpHostileLens[r.Intn(len(rlpHostileLens))]
				if r.Intn(4) == 0 {
					m.Len = uint64(len(canon)) + uint64(r.Intn(5)) - 2
				}
			}
			idx = 0
			mb := tree.encode(&idx, m)
			if bytes.Equal(mb, canon) {
				continue
			}
			c.one(mb, "mutant/"+m.Kind, true, true, script && k == 0)
		}
		// byte-level mutants
		switch r.Intn(5) {
		case 0:
			if len(canon) > 0 {
				c.one(canon[:len(canon)-1-r.Intn(min(len(canon), 4))], "mutant/truncated", true, true, false)
			}
		case 1:
			extra := make([]byte, 1+r.Intn(3))
			r.Read(extra)
			c.one(append(append([]byte{}, canon...), extra...), "mutant/trailing", true, true, false)
		case 2:
			if len(canon) > 0 {
				mb := append([]byte{}, canon...)
				mb[r.Intn(min(len(mb), 12))] ^= 1 << r.Intn(8)
				c.one(mb, "mutant/bitflip", true, true, false)
			}
		case 3:
			if len(canon) > 1 {
				p := r.Intn(min(len(canon), 12))
				c.one(append(append([]byte{}, canon[:p]...), canon[p+1:]...), "mutant/delete", true, true, false)
			}
		case 4:
			p := r.Intn(min(len(canon), 12) + 1)
			mb := append(append(append([]byte{}, canon[:p]...), byte(r.Intn(256))), canon[p:]...)
			c.one(mb, "mutant/insert", true, true, false)
		}
	}
	rec.RequireClasses(t, "accept/string", "accept/list", "reject/single-byte-wrapped", "reject/long-form-for-short-payload", "reject/leading-zero-length",
		"origin/mutant/declared", "script/vm/decodeList/ok", "script/interpreter/decodeString/user")
}

// startIndex checks DecodeString/DecodeList with a non-zero start index.
func (c *c46) startIndex(canon []byte, r *rand.Rand) {
	prefix := make([]byte, 1+r.Intn(5))
	r.Read(prefix)
	inp := append(append([]byte{}, prefix...), canon...)
	v := refVerdict(canon)
	c.rec.Evals(1)
	var s []byte
	var items [][]byte
	var n int
	var err error
	if v.StringOK {
		if p := callNoPanic(func() { s, n, err = rlp.DecodeString(inp, len(prefix)) }); p != nil || err != nil || n != len(canon) || !bytes.Equal(s, v.Payload) {
			c.rec.Violation(c.t, c46Case{Hex: hex.EncodeToString(inp), Origin: fmt.Sprintf("startIndex=%d", len(prefix))}, "rlp.DecodeString(input, %d) = (%x, %d, %v, panic %v), want payload %x and %d bytes read", len(prefix), s, n, err, p, v.Payload, len(canon))
		}
	} else if v.ListShallow {
		p := callNoPanic(func() { items, n, err = rlp.DecodeList(inp, len(prefix)) })
		bad := p != nil || err != nil || n != len(canon) || len(items) != len(v.ShallowItems)
		for i := 0; !bad && i < len(items); i++ {
			bad = !bytes.Equal(items[i], v.ShallowItems[i])
		}
		if bad {
			c.rec.Violation(c.t, c46Case{Hex: hex.EncodeToString(inp), Origin: fmt.Sprintf("startIndex=%d", len(prefix))}, "rlp.DecodeList(input, %d) = (%d items, %d, %v, panic %v), want %d items and %d bytes read", len(prefix), len(items), n, err, p, len(v.ShallowItems), len(canon))
		}
	}
}

// FuzzC46 (thorough tier): coverage-guided bytes against the same oracle at the Go level.
func FuzzC46(f *testing.F) {
	for _, s := range c46HostileSeeds() {
		f.Add(s)
	}
	r := rand.New(rand.NewSource(46))
	for i := 0; i < 40; i++ {
		idx := 0
		f.Add(genRLPNode(r, r.Intn(4), 80).encode(&idx, nil))
	}
	f.Fuzz(func(t *testing.T, b []byte) {
		if len(b) > 1<<16 {
			return
		}
		c := &c46{t: nil}
		if msg := c.goLevel(b, refVerdict(b)); msg != "" {
			t.Fatalf("input %x: %s", b, msg)
		}
	})
}
