//go:debug randseednop=0

package ds

import (
	"errors"
	"fmt"
	"math/rand"
	"sort"
	"testing"

	"pgregory.net/rapid"

	"github.com/onflow/cadence/common/bimap"
	"github.com/onflow/cadence/common/intervalst"
	"github.com/onflow/cadence/common/list"
	"github.com/onflow/cadence/common/orderedmap"
	"github.com/onflow/cadence/common/persistent"

	"verif/lib/evid"
)

// C51 — internal ordered collections behave like their slice/map models.
//
// One rapid property; the first draw selects the structure, then a rapid
// state machine (T.Repeat, -rapid.steps actions on average) drives the
// structure and an explicit model side by side. Every action compares its own
// return values; the invariant check after every action compares the complete
// observable state (forward and backward walks, lengths, membership of every
// key of the key universe).

const c51Keys = 40 // key universe 0..40 (collisions and re-insertion are frequent)

// trace accumulates the identity of a case and its non-triviality.
type c51trace struct {
	h        uint64
	nontriv  bool
	ops      int
	features map[string]bool
}

func (tr *c51trace) op(rec *evid.Rec, structure, name string, args ...any) {
	tr.h = evid.Hash(tr.h, name, fmt.Sprint(args...))
	tr.ops++
	rec.Class(structure + "/" + name)
}

func (tr *c51trace) feature(f string) {
	if tr.features == nil {
		tr.features = map[string]bool{}
	}
	tr.features[f] = true
}

func TestC51(t *testing.T) {
	rec := evid.Start(t, "C51", "rapid state machines (T.Repeat) over orderedmap.OrderedMap, persistent.OrderedSet, intervalst.IntervalST, bimap.BiMap and list.List "+
		"run side by side with slice/map models; keys 0..40, every action compares its return values and after every action the whole observable state "+
		"(forward/backward walks, Len, membership of all 41 keys; SearchAll/Search/SearchInterval for every position) is compared. "+
		"Non-trivial: the sequence exercised the structure's hard paths — orderedmap: delete of a present key followed by re-insert, or re-Set of a present key; "+
		"persistent set: a parent mutated after being cloned with a chain depth ≥ 2; interval tree: ≥ 2 stored intervals containing one queried point (overlap/nesting/duplicates); "+
		"bimap: Insert whose key or value was already present; list: a move/remove/insert-relative operation on a list of ≥ 3 elements. Distinct by hash of the operation trace.")

	structures := []string{"orderedmap", "persistent", "intervalst", "bimap", "list"}
	rapid.Check(t, func(rt *rapid.T) {
		which := rapid.SampledFrom(structures).Draw(rt, "structure")
		tr := &c51trace{h: evid.Hash(which)}
		switch which {
		case "orderedmap":
			c51OrderedMap(rt, rec, tr)
		case "persistent":
			c51Persistent(rt, rec, tr)
		case "intervalst":
			c51Interval(rt, rec, tr)
		case "bimap":
			c51BiMap(rt, rec, tr)
		case "list":
			c51List(rt, rec, tr)
		}
		rec.CaseH(tr.nontriv, tr.h)
		rec.Class("sequences/" + which)
		rec.ClassN("operations/"+which, int64(tr.ops))
		if tr.nontriv {
			rec.Class("nontrivial/" + which)
			if rec.WantSample(which) {
				fs := make([]string, 0, len(tr.features))
				for f := range tr.features {
					fs = append(fs, f)
				}
				sort.Strings(fs)
				rec.Sample(which, map[string]any{"structure": which, "operations": tr.ops, "features": fs, "trace_hash": fmt.Sprintf("%016x", tr.h)})
			}
		}
	})
	if evid.ReplayFile() == "" {
		// generator health
		for _, s := range structures {
			if rec.ClassCount("sequences/"+s) > 0 && rec.ClassCount("nontrivial/"+s) == 0 && rec.ClassCount("sequences/"+s) >= 20 {
				rec.Inconclusive(t, "no non-trivial %s sequence among %d", s, rec.ClassCount("sequences/"+s))
			}
		}
	}
}

var c51Key = rapid.IntRange(0, c51Keys)

// ---------------------------------------------------------------- ordered map

type kv struct{ k, v int }

type omModel struct{ items []kv }

func (m *omModel) find(k int) int {
	for i, e := range m.items {
		if e.k == k {
			return i
		}
	}
	return -1
}

func (m *omModel) set(k, v int) (int, bool) {
	if i := m.find(k); i >= 0 {
		old := m.items[i].v
		m.items[i].v = v
		return old, true
	}
	m.items = append(m.items, kv{k, v})
	return 0, false
}

func (m *omModel) del(k int) (int, bool) {
	if i := m.find(k); i >= 0 {
		old := m.items[i].v
		m.items = append(m.items[:i:i], m.items[i+1:]...)
		return old, true
	}
	return 0, false
}

type intMap = orderedmap.OrderedMap[int, int]

func omForward(m *intMap) []kv {
	var out []kv
	for p := m.Oldest(); p != nil; p = p.Next() {
		out = append(out, kv{p.Key, p.Value})
		if len(out) > 10_000 {
			break
		}
	}
	return out
}

func omBackward(m *intMap) []kv {
	var out []kv
	for p := m.Newest(); p != nil; p = p.Prev() {
		out = append(out, kv{p.Key, p.Value})
		if len(out) > 10_000 {
			break
		}
	}
	for i, j := 0, len(out)-1; i < j; i, j = i+1, j-1 {
		out[i], out[j] = out[j], out[i]
	}
	return out
}

func intsEqual(a, b []int) bool {
	if len(a) != len(b) {
		return false
	}
	for i := range a {
		if a[i] != b[i] {
			return false
		}
	}
	return true
}

func kvEqual(a, b []kv) bool {
	if len(a) != len(b) {
		return false
	}
	for i := range a {
		if a[i] != b[i] {
			return false
		}
	}
	return true
}

func c51OrderedMap(rt *rapid.T, rec *evid.Rec, tr *c51trace) {
	const S = "orderedmap"
	// two maps (for SetAll / key-set operations); each starts either as the zero
	// value (lazy initialisation paths) or from New.
	var maps [2]*intMap
	var models [2]*omModel
	// initialized[i]: the map's internal storage exists (New, or a Set happened)
	var initialized [2]bool
	for i := range maps {
		if rapid.Bool().Draw(rt, fmt.Sprintf("zeroValue%d", i)) {
			maps[i] = &intMap{}
		} else {
			maps[i] = orderedmap.New[intMap](rapid.IntRange(0, 8).Draw(rt, "size"))
			initialized[i] = true
		}
		models[i] = &omModel{}
	}
	deleted := map[int]bool{} // keys deleted at least once from map 0/1 (for the non-trivial rule)
	val := 0
	nextVal := func() int { val++; return val }
	pick := func(rt *rapid.T) int { return rapid.IntRange(0, 1).Draw(rt, "map") }

	compare := func(rt *rapid.T, i int) {
		m, mod := maps[i], models[i]
		if m.Len() != len(mod.items) {
			rt.Fatalf("map %d: Len() = %d, model has %d entries", i, m.Len(), len(mod.items))
		}
		if f := omForward(m); !kvEqual(f, mod.items) {
			rt.Fatalf("map %d: Oldest/Next walk = %v, model (insertion order) = %v", i, f, mod.items)
		}
		if b := omBackward(m); !kvEqual(b, mod.items) {
			rt.Fatalf("map %d: Newest/Prev walk (reversed) = %v, model = %v", i, b, mod.items)
		}
		for k := 0; k <= c51Keys; k++ {
			idx := mod.find(k)
			v, ok := m.Get(k)
			if ok != (idx >= 0) || ok && v != mod.items[idx].v {
				rt.Fatalf("map %d: Get(%d) = (%d,%v), model index %d in %v", i, k, v, ok, idx, mod.items)
			}
			if m.Contains(k) != (idx >= 0) {
				rt.Fatalf("map %d: Contains(%d) = %v, model %v", i, k, m.Contains(k), idx >= 0)
			}
			p := m.GetPair(k)
			if (p != nil) != (idx >= 0) || p != nil && (p.Key != k || p.Value != mod.items[idx].v) {
				rt.Fatalf("map %d: GetPair(%d) = %v, model index %d", i, k, p, idx)
			}
		}
	}

	doSet := func(rt *rapid.T) {
		i, k, v := pick(rt), c51Key.Draw(rt, "k"), nextVal()
		tr.op(rec, S, "Set", i, k)
		if models[i].find(k) >= 0 {
			tr.nontriv = true
			tr.feature("re-Set of present key")
		} else if deleted[i*1000+k] {
			tr.nontriv = true
			tr.feature("delete then re-insert")
		}
		old, ok := maps[i].Set(k, v)
		mold, mok := models[i].set(k, v)
		initialized[i] = true
		if ok != mok || ok && old != mold {
			rt.Fatalf("Set(%d,%d) = (%d,%v), model (%d,%v)", k, v, old, ok, mold, mok)
		}
	}

	rt.Repeat(map[string]func(*rapid.T){
		"": func(rt *rapid.T) {
			compare(rt, 0)
			compare(rt, 1)
		},
		"Set":      func(rt *rapid.T) { doSet(rt) },
		"SetAgain": func(rt *rapid.T) { doSet(rt) },
		"Delete": func(rt *rapid.T) {
			i, k := pick(rt), c51Key.Draw(rt, "k")
			tr.op(rec, S, "Delete", i, k)
			old, ok := maps[i].Delete(k)
			mold, mok := models[i].del(k)
			if mok {
				deleted[i*1000+k] = true
			}
			if ok != mok || ok && old != mold {
				rt.Fatalf("Delete(%d) = (%d,%v), model (%d,%v)", k, old, ok, mold, mok)
			}
		},
		"DeletePresent": func(rt *rapid.T) {
			i := pick(rt)
			if len(models[i].items) == 0 {
				return
			}
			k := models[i].items[rapid.IntRange(0, len(models[i].items)-1).Draw(rt, "idx")].k
			tr.op(rec, S, "Delete", i, k)
			old, ok := maps[i].Delete(k)
			mold, mok := models[i].del(k)
			deleted[i*1000+k] = true
			if ok != mok || old != mold {
				rt.Fatalf("Delete(%d) = (%d,%v), model (%d,%v)", k, old, ok, mold, mok)
			}
		},
		"Clear": func(rt *rapid.T) {
			if rapid.IntRange(0, 9).Draw(rt, "rare") != 0 {
				doSet(rt)
				return
			}
			i := pick(rt)
			tr.op(rec, S, "Clear", i)
			maps[i].Clear()
			for _, e := range models[i].items {
				deleted[i*1000+e.k] = true
			}
			models[i].items = nil
		},
		"Foreach": func(rt *rapid.T) {
			i := pick(rt)
			tr.op(rec, S, "Foreach", i)
			var got []kv
			maps[i].Foreach(func(k, v int) { got = append(got, kv{k, v}) })
			if !kvEqual(got, models[i].items) {
				rt.Fatalf("Foreach = %v, model %v", got, models[i].items)
			}
			got = nil
			idxOK := true
			maps[i].ForeachWithIndex(func(idx, k, v int) {
				if idx != len(got) {
					idxOK = false
				}
				got = append(got, kv{k, v})
			})
			if !idxOK || !kvEqual(got, models[i].items) {
				rt.Fatalf("ForeachWithIndex = %v (indices ok %v), model %v", got, idxOK, models[i].items)
			}
		},
		"ForeachWithError": func(rt *rapid.T) {
			i := pick(rt)
			stopAt := rapid.IntRange(0, len(models[i].items)+1).Draw(rt, "stopAt")
			tr.op(rec, S, "ForeachWithError", i, stopAt)
			sentinel := errors.New("stop")
			var got []kv
			err := maps[i].ForeachWithError(func(k, v int) error {
				got = append(got, kv{k, v})
				if len(got) == stopAt {
					return sentinel
				}
				return nil
			})
			want := models[i].items
			var wantErr error
			if stopAt >= 1 && stopAt <= len(want) {
				want = want[:stopAt]
				wantErr = sentinel
			}
			if err != wantErr || !kvEqual(got, want) {
				rt.Fatalf("ForeachWithError(stop at %d) visited %v err %v, model %v err %v", stopAt, got, err, want, wantErr)
			}
		},
		"ForAllAnyKeys": func(rt *rapid.T) {
			i, c := pick(rt), rapid.IntRange(-1, c51Keys+1).Draw(rt, "threshold")
			tr.op(rec, S, "ForAllKeys/ForAnyKey", i, c)
			pred := func(k int) bool { return k < c }
			all, anyk := true, false
			for _, e := range models[i].items {
				all = all && pred(e.k)
				anyk = anyk || pred(e.k)
			}
			if got := maps[i].ForAllKeys(pred); got != all {
				rt.Fatalf("ForAllKeys(k<%d) = %v, model %v over %v", c, got, all, models[i].items)
			}
			// (FD1, fixed in a6ea994: a zero-value map used to answer true here)
			if got := maps[i].ForAnyKey(pred); got != anyk {
				rt.Fatalf("ForAnyKey(k<%d) = %v, model %v over %v (map initialised: %v)", c, got, anyk, models[i].items, initialized[i])
			}
		},
		"SetAll": func(rt *rapid.T) {
			i := pick(rt)
			j := 1 - i
			tr.op(rec, S, "SetAll", i)
			if rapid.IntRange(0, 9).Draw(rt, "nilOther") == 0 {
				maps[i].SetAll(nil)
				return
			}
			for _, e := range models[j].items {
				if models[i].find(e.k) >= 0 {
					tr.nontriv = true
					tr.feature("re-Set of present key")
				}
			}
			maps[i].SetAll(maps[j])
			if len(models[j].items) > 0 {
				initialized[i] = true
			}
			for _, e := range models[j].items {
				models[i].set(e.k, e.v)
			}
		},
		"KeySetOps": func(rt *rapid.T) {
			i := pick(rt)
			j := 1 - i
			tr.op(rec, S, "KeySetIntersection/Union/IsDisjointFrom", i)
			var inter []kv
			for _, e := range models[i].items {
				if models[j].find(e.k) >= 0 {
					inter = append(inter, e)
				}
			}
			union := &omModel{}
			for _, e := range models[i].items {
				union.set(e.k, e.v)
			}
			for _, e := range models[j].items {
				union.set(e.k, e.v)
			}
			gi := orderedmap.KeySetIntersection(maps[i], maps[j])
			if f := omForward(gi); !kvEqual(f, inter) || gi.Len() != len(inter) {
				rt.Fatalf("KeySetIntersection = %v, model %v", f, inter)
			}
			gu := orderedmap.KeySetUnion(maps[i], maps[j])
			if f := omForward(gu); !kvEqual(f, union.items) || gu.Len() != len(union.items) {
				rt.Fatalf("KeySetUnion = %v, model %v", f, union.items)
			}
			if d := maps[i].KeySetIsDisjointFrom(maps[j]); d != (len(inter) == 0) {
				rt.Fatalf("KeySetIsDisjointFrom = %v, model intersection %v", d, inter)
			}
			// results are independent copies: mutating them must not affect the operands
			gi.Set(c51Keys+5, 1)
			gu.Delete(0)
		},
	})
}

// ---------------------------------------------------------------- persistent ordered set

type psModel struct {
	parent int // index into the pool, -1 for none
	own    []int
}

func c51Persistent(rt *rapid.T, rec *evid.Rec, tr *c51trace) {
	const S = "persistent"
	type set = persistent.OrderedSet[int]
	sets := []*set{persistent.NewOrderedSet[int](nil)}
	models := []*psModel{{parent: -1}}
	cloned := map[int]bool{} // sets that have at least one child

	depth := func(i int) int {
		d := 0
		for i >= 0 {
			d++
			i = models[i].parent
		}
		return d
	}
	contains := func(i, item int) bool {
		for i >= 0 {
			for _, x := range models[i].own {
				if x == item {
					return true
				}
			}
			i = models[i].parent
		}
		return false
	}
	forEach := func(i int) []int {
		var out []int
		for i >= 0 {
			out = append(out, models[i].own...)
			i = models[i].parent
		}
		return out
	}
	add := func(i, item int) {
		if !contains(i, item) {
			models[i].own = append(models[i].own, item)
		}
	}
	pick := func(rt *rapid.T, label string) int { return rapid.IntRange(0, len(sets)-1).Draw(rt, label) }
	walk := func(s *set) []int {
		var got []int
		_ = s.ForEach(func(x int) error {
			got = append(got, x)
			return nil
		})
		return got
	}
	maxDepthWithMutatedParent := 0

	rt.Repeat(map[string]func(*rapid.T){
		"": func(rt *rapid.T) {
			for i, s := range sets {
				want := forEach(i)
				got := walk(s)
				if !intsEqual(got, want) {
					rt.Fatalf("set %d: ForEach = %v, model (own items in insertion order, then ancestors') = %v", i, got, want)
				}
				if s.IsEmpty() != (len(want) == 0) {
					rt.Fatalf("set %d: IsEmpty = %v, model has %d items", i, s.IsEmpty(), len(want))
				}
				for k := 0; k <= c51Keys; k++ {
					if s.Contains(k) != contains(i, k) {
						rt.Fatalf("set %d: Contains(%d) = %v, model %v", i, k, s.Contains(k), contains(i, k))
					}
				}
			}
		},
		"Add": func(rt *rapid.T) {
			i, item := pick(rt, "set"), c51Key.Draw(rt, "item")
			tr.op(rec, S, "Add", i, item)
			if cloned[i] {
				// a parent mutated after cloning: every descendant must see the change
				for j := range models {
					if d := depth(j); j != i && d >= 3 {
						for a := models[j].parent; a >= 0; a = models[a].parent {
							if a == i {
								tr.nontriv = true
								tr.feature("parent mutated after clone, chain depth>=3")
								if d > maxDepthWithMutatedParent {
									maxDepthWithMutatedParent = d
								}
							}
						}
					}
				}
				if !tr.nontriv && len(models) >= 3 {
					tr.nontriv = true
					tr.feature("parent mutated after clone")
				}
			}
			sets[i].Add(item)
			add(i, item)
		},
		"Clone": func(rt *rapid.T) {
			i := pick(rt, "set")
			if len(sets) >= 14 || depth(i) >= 7 {
				return
			}
			tr.op(rec, S, "Clone", i)
			sets = append(sets, sets[i].Clone())
			models = append(models, &psModel{parent: i})
			cloned[i] = true
		},
		"NewRoot": func(rt *rapid.T) {
			if len(sets) >= 14 || rapid.IntRange(0, 4).Draw(rt, "rare") != 0 {
				return
			}
			tr.op(rec, S, "NewOrderedSet")
			sets = append(sets, persistent.NewOrderedSet[int](nil))
			models = append(models, &psModel{parent: -1})
		},
		"ForEachStop": func(rt *rapid.T) {
			i := pick(rt, "set")
			want := forEach(i)
			stopAt := rapid.IntRange(0, len(want)+1).Draw(rt, "stopAt")
			tr.op(rec, S, "ForEach(error)", i, stopAt)
			sentinel := errors.New("stop")
			var got []int
			err := sets[i].ForEach(func(x int) error {
				got = append(got, x)
				if len(got) == stopAt {
					return sentinel
				}
				return nil
			})
			var wantErr error
			if stopAt >= 1 && stopAt <= len(want) {
				want, wantErr = want[:stopAt], sentinel
			}
			if err != wantErr || fmt.Sprint(got) != fmt.Sprint(want) {
				rt.Fatalf("ForEach stopping at %d visited %v err %v, model %v err %v", stopAt, got, err, want, wantErr)
			}
		},
		"AddIntersection": func(rt *rapid.T) {
			s, a, b := pick(rt, "s"), pick(rt, "a"), pick(rt, "b")
			tr.op(rec, S, "AddIntersection", s, a, b)
			items := forEach(a)
			sets[s].AddIntersection(sets[a], sets[b])
			for _, x := range items {
				if contains(b, x) {
					add(s, x)
				}
			}
			if cloned[s] {
				tr.feature("AddIntersection into a cloned parent")
			}
		},
	})
}

// ---------------------------------------------------------------- interval tree

type c51pos struct{ line, col int }

func (p c51pos) Compare(other intervalst.Position) int {
	if _, ok := other.(intervalst.MinPosition); ok {
		return 1
	}
	o := other.(c51pos)
	switch {
	case p.line < o.line:
		return -1
	case p.line > o.line:
		return 1
	case p.col < o.col:
		return -1
	case p.col > o.col:
		return 1
	}
	return 0
}

func (p c51pos) String() string { return fmt.Sprintf("%d:%d", p.line, p.col) }

type ivEntry struct {
	min, max c51pos
	id       int
}

func (e ivEntry) contains(p c51pos) bool { return e.min.Compare(p) <= 0 && p.Compare(e.max) <= 0 }
func (e ivEntry) intersects(min, max c51pos) bool {
	return !(max.Compare(e.min) < 0 || e.max.Compare(min) < 0)
}

const c51Lines, c51Cols = 5, 6

func c51Interval(rt *rapid.T, rec *evid.Rec, tr *c51trace) {
	const S = "intervalst"
	// the tree is a randomized BST driven by the global math/rand source: make its
	// shape a function of the case (effective with the go:debug randseednop=0 directive)
	rand.Seed(rapid.Int64().Draw(rt, "treeSeed")) //nolint:staticcheck
	tree := &intervalst.IntervalST[int]{}
	var model []ivEntry
	nextID := 0
	posGen := rapid.Custom(func(rt *rapid.T) c51pos {
		return c51pos{rapid.IntRange(0, c51Lines).Draw(rt, "line"), rapid.IntRange(0, c51Cols).Draw(rt, "col")}
	})
	mkInterval := func(a, b c51pos) (c51pos, c51pos) {
		if a.Compare(b) > 0 {
			return b, a
		}
		return a, b
	}
	ids := func(es []ivEntry) []int {
		out := make([]int, len(es))
		for i, e := range es {
			out[i] = e.id
		}
		sort.Ints(out)
		return out
	}
	stored := func(iv *intervalst.Interval, v int) bool {
		for _, e := range model {
			if e.id == v && e.min.Compare(iv.Min) == 0 && e.max.Compare(iv.Max) == 0 {
				return true
			}
		}
		return false
	}
	checkPoint := func(rt *rapid.T, p c51pos) int {
		var want []ivEntry
		for _, e := range model {
			if e.contains(p) {
				want = append(want, e)
			}
		}
		got := tree.SearchAll(p)
		var gotE []ivEntry
		for _, g := range got {
			if !stored(&g.Interval, g.Value) {
				rt.Fatalf("SearchAll(%v) returned (%v,%d) which was never stored", p, g.Interval, g.Value)
			}
			gotE = append(gotE, ivEntry{id: g.Value})
		}
		if !intsEqual(ids(gotE), ids(want)) {
			rt.Fatalf("SearchAll(%v) = ids %v, model (all stored intervals containing the point) = ids %v; stored: %v", p, ids(gotE), ids(want), model)
		}
		iv, v, ok := tree.Search(p)
		if ok != (len(want) > 0) {
			rt.Fatalf("Search(%v) present = %v, model has %d containing intervals; stored: %v", p, ok, len(want), model)
		}
		if ok && (!stored(iv, v) || !iv.Contains(p)) {
			rt.Fatalf("Search(%v) = (%v,%d): not a stored interval containing the point", p, iv, v)
		}
		if !ok && iv != nil {
			rt.Fatalf("Search(%v) absent but interval %v returned", p, iv)
		}
		return len(want)
	}

	rt.Repeat(map[string]func(*rapid.T){
		"": func(rt *rapid.T) {
			vals := tree.Values()
			sort.Ints(vals)
			if !intsEqual(vals, ids(model)) {
				rt.Fatalf("Values() = %v, model ids %v", vals, ids(model))
			}
		},
		"Put": func(rt *rapid.T) {
			var a, b c51pos
			switch kind := rapid.SampledFrom([]string{"random", "random", "identical", "nested", "adjacent", "point"}).Draw(rt, "kind"); {
			case kind == "random" || len(model) == 0:
				a, b = mkInterval(posGen.Draw(rt, "a"), posGen.Draw(rt, "b"))
			case kind == "point":
				a = posGen.Draw(rt, "a")
				b = a
			default:
				e := model[rapid.IntRange(0, len(model)-1).Draw(rt, "of")]
				switch kind {
				case "identical":
					a, b = e.min, e.max
				case "nested":
					// same start or same end, shorter or longer
					if rapid.Bool().Draw(rt, "sameStart") {
						a, b = mkInterval(e.min, posGen.Draw(rt, "b"))
					} else {
						a, b = mkInterval(posGen.Draw(rt, "a"), e.max)
					}
				case "adjacent":
					// starts exactly where the other ends (closed intervals: they share one point)
					a, b = mkInterval(e.max, posGen.Draw(rt, "b"))
				}
			}
			nextID++
			tr.op(rec, S, "Put", a, b)
			tree.Put(intervalst.NewInterval(a, b), nextID)
			model = append(model, ivEntry{a, b, nextID})
		},
		"GetContains": func(rt *rapid.T) {
			var a, b c51pos
			if len(model) > 0 && rapid.Bool().Draw(rt, "stored") {
				e := model[rapid.IntRange(0, len(model)-1).Draw(rt, "of")]
				a, b = e.min, e.max
			} else {
				a, b = mkInterval(posGen.Draw(rt, "a"), posGen.Draw(rt, "b"))
			}
			tr.op(rec, S, "Get/Contains", a, b)
			var want []int
			for _, e := range model {
				if e.min == a && e.max == b {
					want = append(want, e.id)
				}
			}
			iv := intervalst.NewInterval(a, b)
			v, ok := tree.Get(iv)
			if ok != (len(want) > 0) || tree.Contains(iv) != ok {
				rt.Fatalf("Get(%v) present = %v (Contains %v), model ids %v; stored %v", iv, ok, tree.Contains(iv), want, model)
			}
			if ok {
				found := false
				for _, w := range want {
					found = found || w == v
				}
				if !found {
					rt.Fatalf("Get(%v) = %d, model ids with exactly that interval: %v", iv, v, want)
				}
			}
		},
		"SearchPoint": func(rt *rapid.T) {
			p := posGen.Draw(rt, "p")
			tr.op(rec, S, "Search/SearchAll", p)
			if n := checkPoint(rt, p); n >= 2 {
				tr.nontriv = true
				tr.feature("point inside >=2 stored intervals")
			}
		},
		"SearchEveryPoint": func(rt *rapid.T) {
			if rapid.IntRange(0, 7).Draw(rt, "rare") != 0 {
				return
			}
			tr.op(rec, S, "SearchAll(every position)")
			for l := 0; l <= c51Lines; l++ {
				for c := 0; c <= c51Cols; c++ {
					if checkPoint(rt, c51pos{l, c}) >= 2 {
						tr.nontriv = true
						tr.feature("point inside >=2 stored intervals")
					}
				}
			}
		},
		"SearchInterval": func(rt *rapid.T) {
			a, b := mkInterval(posGen.Draw(rt, "a"), posGen.Draw(rt, "b"))
			tr.op(rec, S, "SearchInterval", a, b)
			n := 0
			for _, e := range model {
				if e.intersects(a, b) {
					n++
				}
			}
			q := intervalst.NewInterval(a, b)
			iv, v, ok := tree.SearchInterval(q)
			if ok != (n > 0) {
				rt.Fatalf("SearchInterval(%v) present = %v, model has %d intersecting intervals; stored %v", q, ok, n, model)
			}
			if ok {
				e := ivEntry{min: iv.Min.(c51pos), max: iv.Max.(c51pos)}
				if !stored(iv, v) || !e.intersects(a, b) {
					rt.Fatalf("SearchInterval(%v) = (%v,%d): not a stored interval intersecting the query", q, iv, v)
				}
			}
		},
	})
}

// ---------------------------------------------------------------- bimap

func c51BiMap(rt *rapid.T, rec *evid.Rec, tr *c51trace) {
	const S = "bimap"
	bm := bimap.NewBiMap[int, int]()
	var model []kv // pairs; always a bijection
	valGen := rapid.IntRange(100, 100+c51Keys)
	findK := func(k int) int {
		for i, e := range model {
			if e.k == k {
				return i
			}
		}
		return -1
	}
	findV := func(v int) int {
		for i, e := range model {
			if e.v == v {
				return i
			}
		}
		return -1
	}
	remove := func(i int) { model = append(model[:i:i], model[i+1:]...) }

	rt.Repeat(map[string]func(*rapid.T){
		"": func(rt *rapid.T) {
			if bm.Size() != len(model) {
				rt.Fatalf("Size() = %d, model has %d pairs %v", bm.Size(), len(model), model)
			}
			for k := 0; k <= c51Keys; k++ {
				i := findK(k)
				v, ok := bm.Get(k)
				if ok != (i >= 0) || ok && v != model[i].v || !ok && v != 0 || bm.Exists(k) != (i >= 0) {
					rt.Fatalf("Get(%d) = (%d,%v) Exists = %v, model %v", k, v, ok, bm.Exists(k), model)
				}
				val := 100 + k
				j := findV(val)
				kk, ok := bm.GetInverse(val)
				if ok != (j >= 0) || ok && kk != model[j].k || !ok && kk != 0 || bm.ExistsInverse(val) != (j >= 0) {
					rt.Fatalf("GetInverse(%d) = (%d,%v) ExistsInverse = %v, model %v", val, kk, ok, bm.ExistsInverse(val), model)
				}
			}
		},
		"Insert": func(rt *rapid.T) {
			var k, v int
			switch rapid.SampledFrom([]string{"fresh", "key", "value", "both", "samepair"}).Draw(rt, "kind") {
			case "fresh":
				k, v = c51Key.Draw(rt, "k"), valGen.Draw(rt, "v")
			case "key":
				if len(model) == 0 {
					return
				}
				k, v = model[rapid.IntRange(0, len(model)-1).Draw(rt, "i")].k, valGen.Draw(rt, "v")
			case "value":
				if len(model) == 0 {
					return
				}
				k, v = c51Key.Draw(rt, "k"), model[rapid.IntRange(0, len(model)-1).Draw(rt, "i")].v
			case "both":
				if len(model) < 2 {
					return
				}
				k = model[rapid.IntRange(0, len(model)-1).Draw(rt, "i")].k
				v = model[rapid.IntRange(0, len(model)-1).Draw(rt, "j")].v
			case "samepair":
				if len(model) == 0 {
					return
				}
				e := model[rapid.IntRange(0, len(model)-1).Draw(rt, "i")]
				k, v = e.k, e.v
			}
			tr.op(rec, S, "Insert", k, v)
			ik, iv := findK(k), findV(v)
			if ik >= 0 || iv >= 0 {
				tr.nontriv = true
				switch {
				case ik >= 0 && iv >= 0 && ik != iv:
					tr.feature("Insert: key and value present in different pairs")
				case ik >= 0 && iv >= 0:
					tr.feature("Insert: same pair again")
				case ik >= 0:
					tr.feature("Insert: key present")
				default:
					tr.feature("Insert: value present")
				}
			}
			bm.Insert(k, v)
			if i := findK(k); i >= 0 {
				remove(i)
			}
			if i := findV(v); i >= 0 {
				remove(i)
			}
			model = append(model, kv{k, v})
		},
		"Delete": func(rt *rapid.T) {
			k := c51Key.Draw(rt, "k")
			tr.op(rec, S, "Delete", k)
			bm.Delete(k)
			if i := findK(k); i >= 0 {
				remove(i)
			}
		},
		"DeleteInverse": func(rt *rapid.T) {
			v := valGen.Draw(rt, "v")
			tr.op(rec, S, "DeleteInverse", v)
			bm.DeleteInverse(v)
			if i := findV(v); i >= 0 {
				remove(i)
			}
		},
	})
}

// ---------------------------------------------------------------- list

func c51List(rt *rapid.T, rec *evid.Rec, tr *c51trace) {
	const S = "list"
	type elem = list.Element[int]
	// two lists; index 1 starts as a zero value (lazy initialisation)
	lists := [2]*list.List[int]{list.New[int](), {}}
	var models [2][]int // element ids (== values) in order
	handles := map[int]*elem{}
	owner := map[int]int{} // id -> list index, -1 once removed
	var allIDs []int
	next := 0
	newID := func() int { next++; return next }
	pickList := func(rt *rapid.T) int { return rapid.IntRange(0, 1).Draw(rt, "list") }
	pickElem := func(rt *rapid.T, label string) int {
		return allIDs[rapid.IntRange(0, len(allIDs)-1).Draw(rt, label)]
	}
	indexOf := func(l, id int) int {
		for i, x := range models[l] {
			if x == id {
				return i
			}
		}
		return -1
	}
	removeAt := func(l, i int) { models[l] = append(models[l][:i:i], models[l][i+1:]...) }
	insertAt := func(l, i, id int) {
		m := append([]int{}, models[l][:i]...)
		m = append(m, id)
		models[l] = append(m, models[l][i:]...)
	}
	register := func(e *elem, id, l int) {
		handles[id] = e
		owner[id] = l
		allIDs = append(allIDs, id)
	}
	relative := func(l int) {
		if len(models[l]) >= 3 {
			tr.nontriv = true
			tr.feature("relative move/remove/insert on a list of >=3 elements")
		}
	}
	{ // one initial element so that element-relative actions always have a handle to draw
		id := newID()
		register(lists[0].PushBack(id), id, 0)
		models[0] = append(models[0], id)
	}

	rt.Repeat(map[string]func(*rapid.T){
		"": func(rt *rapid.T) {
			for l := 0; l < 2; l++ {
				if lists[l].Len() != len(models[l]) {
					rt.Fatalf("list %d: Len() = %d, model %v", l, lists[l].Len(), models[l])
				}
				var fwd, bwd []int
				for e := lists[l].Front(); e != nil && len(fwd) < 100_000; e = e.Next() {
					fwd = append(fwd, e.Value)
				}
				for e := lists[l].Back(); e != nil && len(bwd) < 100_000; e = e.Prev() {
					bwd = append(bwd, e.Value)
				}
				for i, j := 0, len(bwd)-1; i < j; i, j = i+1, j-1 {
					bwd[i], bwd[j] = bwd[j], bwd[i]
				}
				if !intsEqual(fwd, models[l]) || !intsEqual(bwd, models[l]) {
					rt.Fatalf("list %d: forward %v backward %v, model %v", l, fwd, bwd, models[l])
				}
				// handles of live elements are the elements the walk reaches
				for i, id := range models[l] {
					if h, ok := handles[id]; ok {
						if h.Value != id {
							rt.Fatalf("element %d holds %d", id, h.Value)
						}
						var wantNext, wantPrev any
						if i+1 < len(models[l]) {
							wantNext = models[l][i+1]
						}
						if i > 0 {
							wantPrev = models[l][i-1]
						}
						var gotNext, gotPrev any
						if n := h.Next(); n != nil {
							gotNext = n.Value
						}
						if p := h.Prev(); p != nil {
							gotPrev = p.Value
						}
						if gotNext != wantNext || gotPrev != wantPrev {
							rt.Fatalf("list %d element %d: Next %v Prev %v, model %v %v", l, id, gotNext, gotPrev, wantNext, wantPrev)
						}
					}
				}
			}
			for _, id := range allIDs {
				if owner[id] < 0 && (handles[id].Next() != nil || handles[id].Prev() != nil) {
					rt.Fatalf("removed element %d still has neighbours", id)
				}
			}
		},
		"PushBack": func(rt *rapid.T) {
			l, id := pickList(rt), newID()
			tr.op(rec, S, "PushBack", l)
			register(lists[l].PushBack(id), id, l)
			models[l] = append(models[l], id)
		},
		"PushFront": func(rt *rapid.T) {
			l, id := pickList(rt), newID()
			tr.op(rec, S, "PushFront", l)
			register(lists[l].PushFront(id), id, l)
			insertAt(l, 0, id)
		},
		"InsertBefore": func(rt *rapid.T) {
			l, mark, id := pickList(rt), pickElem(rt, "mark"), newID()
			tr.op(rec, S, "InsertBefore", l, mark)
			e := lists[l].InsertBefore(id, handles[mark])
			if owner[mark] != l {
				if e != nil {
					rt.Fatalf("InsertBefore with a mark that is not in the list returned an element")
				}
				return
			}
			relative(l)
			if e == nil || e.Value != id {
				rt.Fatalf("InsertBefore returned %v", e)
			}
			register(e, id, l)
			insertAt(l, indexOf(l, mark), id)
		},
		"InsertAfter": func(rt *rapid.T) {
			l, mark, id := pickList(rt), pickElem(rt, "mark"), newID()
			tr.op(rec, S, "InsertAfter", l, mark)
			e := lists[l].InsertAfter(id, handles[mark])
			if owner[mark] != l {
				if e != nil {
					rt.Fatalf("InsertAfter with a mark that is not in the list returned an element")
				}
				return
			}
			relative(l)
			if e == nil || e.Value != id {
				rt.Fatalf("InsertAfter returned %v", e)
			}
			register(e, id, l)
			insertAt(l, indexOf(l, mark)+1, id)
		},
		"Remove": func(rt *rapid.T) {
			l, id := pickList(rt), pickElem(rt, "e")
			tr.op(rec, S, "Remove", l, id)
			if v := lists[l].Remove(handles[id]); v != id {
				rt.Fatalf("Remove returned %d, want %d", v, id)
			}
			if owner[id] == l {
				relative(l)
				removeAt(l, indexOf(l, id))
				owner[id] = -1
			}
		},
		"MoveToFront": func(rt *rapid.T) {
			l, id := pickList(rt), pickElem(rt, "e")
			tr.op(rec, S, "MoveToFront", l, id)
			lists[l].MoveToFront(handles[id])
			if owner[id] == l {
				relative(l)
				removeAt(l, indexOf(l, id))
				insertAt(l, 0, id)
			}
		},
		"MoveToBack": func(rt *rapid.T) {
			l, id := pickList(rt), pickElem(rt, "e")
			tr.op(rec, S, "MoveToBack", l, id)
			lists[l].MoveToBack(handles[id])
			if owner[id] == l {
				relative(l)
				removeAt(l, indexOf(l, id))
				models[l] = append(models[l], id)
			}
		},
		"MoveBefore": func(rt *rapid.T) {
			l, id, mark := pickList(rt), pickElem(rt, "e"), pickElem(rt, "mark")
			tr.op(rec, S, "MoveBefore", l, id, mark)
			lists[l].MoveBefore(handles[id], handles[mark])
			if owner[id] == l && owner[mark] == l && id != mark {
				relative(l)
				removeAt(l, indexOf(l, id))
				insertAt(l, indexOf(l, mark), id)
			}
		},
		"MoveAfter": func(rt *rapid.T) {
			l, id, mark := pickList(rt), pickElem(rt, "e"), pickElem(rt, "mark")
			tr.op(rec, S, "MoveAfter", l, id, mark)
			lists[l].MoveAfter(handles[id], handles[mark])
			if owner[id] == l && owner[mark] == l && id != mark {
				relative(l)
				removeAt(l, indexOf(l, id))
				insertAt(l, indexOf(l, mark)+1, id)
			}
		},
		"PushBackList": func(rt *rapid.T) {
			l, o := pickList(rt), pickList(rt)
			if len(models[l])+len(models[o]) > 80 {
				return
			}
			tr.op(rec, S, "PushBackList", l, o)
			snapshot := append([]int{}, models[o]...)
			lists[l].PushBackList(lists[o])
			models[l] = append(models[l], snapshot...)
			// the copies carry the same values; the handles map keeps pointing at the originals
			c51Relabel(lists[l], &models[l], handles, owner, &allIDs, l, newID)
		},
		"PushFrontList": func(rt *rapid.T) {
			l, o := pickList(rt), pickList(rt)
			if len(models[l])+len(models[o]) > 80 {
				return
			}
			tr.op(rec, S, "PushFrontList", l, o)
			snapshot := append([]int{}, models[o]...)
			lists[l].PushFrontList(lists[o])
			models[l] = append(snapshot, models[l]...)
			c51Relabel(lists[l], &models[l], handles, owner, &allIDs, l, newID)
		},
	})
}

// c51Relabel gives the copies created by Push*List fresh unique ids (values are
// public fields) after first verifying that the list carries the modelled value
// sequence, so that element identity stays checkable afterwards.
func c51Relabel(l *list.List[int], model *[]int, handles map[int]*list.Element[int], owner map[int]int, all *[]int, li int, newID func() int) {
	i := 0
	for e := l.Front(); e != nil && i < len(*model); e, i = e.Next(), i+1 {
		id := (*model)[i]
		if e.Value != id {
			return // mismatch: left for the invariant check to report
		}
		if handles[id] != e {
			nid := newID()
			e.Value = nid
			(*model)[i] = nid
			handles[nid] = e
			owner[nid] = li
			*all = append(*all, nid)
		}
	}
}
