package ds

import (
	"fmt"
	"github.com/onflow/cadence/errors"
	"math/rand"
	"testing"
)

func TestProbeGen(t *testing.T) {
	r := rand.New(rand.NewSource(1))
	ok, comp := 0, 0
	errs := map[string]int{}
	shown := 0
	for i := 0; i < 400; i++ {
		p := genC35Program(r)
		ch, err := c35Check(p.Source)
		if err != nil {
			e := err.Error()
			if ce, ok := err.(interface{ ChildErrors() []error }); ok && len(ce.ChildErrors()) > 0 {
				e = fmt.Sprintf("%T %v", ce.ChildErrors()[0], ce.ChildErrors()[0])
			}
			errs[e[:min(100, len(e))]]++
			if shown < 40 {
				shown++
				if se, ok := err.(interface{ ChildErrors() []error }); ok {
					if x, ok := se.ChildErrors()[0].(interface{ ErrorNotes() []errors.ErrorNote }); ok {
						for _, n := range x.ErrorNotes() {
							fmt.Println("NOTE", n.Message())
						}
					}
					if x, ok := se.ChildErrors()[0].(interface{ SecondaryError() string }); ok {
						fmt.Println("SEC", x.SecondaryError())
					}
				}
			}
			continue
		}
		ok++
		if _, err := c35CompileChecker(ch, false); err != nil {
			errs[err.Error()[:min(100, len(err.Error()))]]++
			continue
		}
		comp++
	}
	fmt.Println("checked", ok, "compiled", comp)
	for k, v := range errs {
		fmt.Println(v, k)
	}
}
