package exec

import (
	"errors"
	"fmt"
	"os"
	"sort"
	"strings"
	"testing"
	"time"

	"verif/lib/evid"
	"verif/lib/execgen"
	"verif/lib/host"
	"verif/lib/prog"
)

// C28 — host failures are never swallowed (level: fault_enumeration).
//
// For every item (hand-written corpus covering every reachable callback kind +
// generated histories), every engine and every step: a clean run records the
// host call trace; then EVERY (callback kind, k-th call) of that step is re-run
// from the same pre-step state with a fault in each variant (error return,
// panic(error), panic(non-error)).

// FaultCase is the replay format of C28.
type FaultCase struct {
	Item    execgen.Item `json:"item"`
	Engine  int          `json:"engine"`
	Step    int          `json:"step"`
	Kind    string       `json:"kind"`
	Index   int          `json:"index"`
	Variant string       `json:"variant"`
	// Second fault (pairs: the first one is a documented swallower).
	Kind2    string `json:"kind2,omitempty"`
	Index2   int    `json:"index2,omitempty"`
	Variant2 string `json:"variant2,omitempty"`
}

var faultVariants = []string{host.FaultError, host.FaultPanicError, host.FaultPanicValue}

type multiUnwrapper interface{ Unwrap() []error }
type childErrors interface{ ChildErrors() []error }

// carries reports whether err carries the injected failure: a *host.SentinelError
// with the token reachable through Unwrap / ChildErrors, or the token in the text.
func carries(err error, token string) bool {
	if err == nil {
		return false
	}
	var se *host.SentinelError
	if errors.As(err, &se) && se.Token == token {
		return true
	}
	found := false
	seen := 0
	var walk func(e error)
	walk = func(e error) {
		if e == nil || found || seen > 10000 {
			return
		}
		seen++
		if s, ok := e.(*host.SentinelError); ok && s.Token == token {
			found = true
			return
		}
		// non-error panics are carried as errors.ExternalNonError{Recovered: "... <token>"}: the node's
		// own text counts even when the top-level pretty printer does not render it
		if _, ok := e.(interface{ ChildErrors() []error }); !ok {
			if func() (hit bool) {
				defer func() { _ = recover() }()
				return strings.Contains(e.Error(), token)
			}() {
				found = true
				return
			}
		}
		if c, ok := e.(childErrors); ok {
			for _, x := range c.ChildErrors() {
				walk(x)
			}
		}
		if u, ok := e.(interface{ Unwrap() error }); ok {
			walk(u.Unwrap())
		}
		if u, ok := e.(multiUnwrapper); ok {
			for _, x := range u.Unwrap() {
				walk(x)
			}
		}
	}
	walk(err)
	if found {
		return true
	}
	return strings.Contains(err.Error(), token)
}

// tryUpdateWindow reports whether the fault fired while a `contracts.tryUpdate`
// call was in progress. Corpus programs bracket tryUpdate calls with
// log("tryUpdate:begin") / log("tryUpdate:end").
func inTryUpdate(trace []host.Call, firedAt int) bool {
	open := false
	for i, c := range trace {
		if i >= firedAt {
			break
		}
		if c.Kind == "ProgramLog" {
			if strings.Contains(c.Detail, "tryUpdate:begin") {
				open = true
			} else if strings.Contains(c.Detail, "tryUpdate:end") {
				open = false
			}
		}
	}
	return open
}

// tryUpdateKinds are the callbacks reachable from inside contracts.tryUpdate
// (existing-code lookup, parsing/checking the new code and its imports, update
// validation, code write, AccountContractUpdated event).
var tryUpdateKinds = map[string]bool{
	"GetAccountContractCode": true, "UpdateAccountContractCode": true, "GetOrLoadProgram": true, "GetCode": true, "ResolveLocation": true,
	"EmitEvent": true, "GetAccountContractNames": true, "RecoverProgram": true, "GetValue": true,
}

// unbracketedTryUpdate: programs of plugged-in generators call contracts.tryUpdate without the
// begin/end log brackets of the exec corpus, so the exact window is unknown. For such a step a fault
// of a kind reachable inside tryUpdate is judged by the documented exception: it may surface as an
// unsuccessful deployment result (execution goes on as the program dictates). All variants: a
// non-error panic raised inside the load callback of GetOrLoadProgram reaches tryUpdate re-wrapped as
// ExternalError by the outer ExternalInterface wrapper and is recovered as well.
func unbracketedTryUpdate(src string, f *host.Fault) bool {
	return strings.Contains(src, ".tryUpdate(") && !strings.Contains(src, "tryUpdate:begin") && tryUpdateKinds[f.Kind]
}

// faultVerdict judges one faulted step. It returns (outcome class, "" | violation).
func faultVerdict(res host.Result, faults []*host.Fault, src string) (string, string) {
	last := faults[len(faults)-1] // the fault that must not be swallowed
	if res.Panic != nil {
		return "escaped-panic", fmt.Sprintf("panic escaped the runtime: %v", res.Panic)
	}
	if !last.Fired {
		return "not-reached", ""
	}
	info := host.Classify(res)
	if res.Err == nil {
		// documented exception 2: faults inside contracts.tryUpdate may be reported
		// as an unsuccessful deployment result (the program then continues normally,
		// including its writes)
		if inTryUpdate(res.Trace, last.FiredAt) {
			for _, l := range res.Logs {
				if strings.Contains(l, "tryUpdate:deployed=false") {
					return "exception-tryupdate", ""
				}
			}
			return "swallowed", "fault inside contracts.tryUpdate: execution succeeded but the deployment result does not report failure"
		}
		if unbracketedTryUpdate(src, last) {
			return "exception-tryupdate-unbracketed", ""
		}
		return "swallowed", "execution reported success although the host callback failed"
	}
	// no SetValue after the fault
	for _, w := range res.Writes {
		if w.TracePos > last.FiredAt {
			return "write-after-fault", fmt.Sprintf("SetValue(%x, %q) at trace position %d after the fault fired at %d", w.Owner, w.Key, w.TracePos, last.FiredAt)
		}
	}
	if res.Value != nil {
		return "value-with-error", "a result value was returned together with an error"
	}
	if carries(res.Err, last.Token) {
		return "carried-" + info.Class, ""
	}
	// documented exception 1: ValidatePublicKey returning an error means "invalid key"
	if last.Kind == "ValidatePublicKey" && last.Variant == host.FaultError && info.Class == "user" && info.HasType("InvalidPublicKeyError") {
		return "exception-invalid-key", ""
	}
	// documented exception 2, failing flavour: inside tryUpdate a *later* failure may
	// surface instead (the update failed and the program went on to fail by itself)
	if inTryUpdate(res.Trace, last.FiredAt) {
		return "exception-tryupdate-failed", ""
	}
	if unbracketedTryUpdate(src, last) && info.Class == "user" {
		return "exception-tryupdate-unbracketed-failed", ""
	}
	return "not-carried", fmt.Sprintf("execution failed (%s, %s) but the error does not carry the injected host failure: %.300s", info.Class, info.Root, res.Err.Error())
}

type stepPoint struct {
	kind  string
	index int
}

// pointsOf lists the fault points of a trace in first-occurrence order.
func pointsOf(trace []host.Call) []stepPoint {
	counts := map[string]int{}
	var out []stepPoint
	for _, c := range trace {
		out = append(out, stepPoint{c.Kind, counts[c.Kind]})
		counts[c.Kind]++
	}
	return out
}

func runFaultCase(fc FaultCase, pre *host.Host) (host.Result, []*host.Fault) {
	// pre is the state before step fc.Step (nil: rebuild it by running the prefix)
	var h *host.Host
	if pre != nil {
		h = pre.Fork()
	} else {
		h = execgen.NewHost(fc.Item)
		for i := 0; i < fc.Step; i++ {
			execgen.RunStep(h, fc.Item.Hist.Steps[i], host.Options{Engine: host.Engine(fc.Engine)})
		}
	}
	token := fmt.Sprintf("tok%08x", evid.Hash(fc.Item.Name, fc.Engine, fc.Step, fc.Kind, fc.Index, fc.Variant)&0xffffffff)
	faults := []*host.Fault{{Kind: fc.Kind, Index: fc.Index, Variant: fc.Variant, Token: token}}
	if fc.Kind2 != "" {
		faults = append(faults, &host.Fault{Kind: fc.Kind2, Index: fc.Index2, Variant: fc.Variant2, Token: token + "second"})
	}
	h.Faults = faults
	res := execgen.RunStep(h, fc.Item.Hist.Steps[fc.Step], host.Options{Engine: host.Engine(fc.Engine)})
	return res, faults
}

// Known findings (narrow predicates; only applied when listed in known_findings.json).
//
// FX1: (fixed in /repo 8ced14f, no longer excluded) RecoverProgram's returned error was discarded.
// FX2: BLS.aggregateSignatures / aggregatePublicKeys map any host error to nil.
// FX3: (fixed in /repo 722c2b5, no longer excluded) vmEnvironment.load*Type discarded the error of loadProgram.
// FX4: atree CheckStorageHealth tests `!ok` before `err` -> a GetValue error during the post-commit
//      health check surfaces as SlabNotFoundError without the cause (dependency atree v0.16.1).
// FX9: storage iteration (forEachStored / forEachPublic) "checks" every value by loading its type inside
//      interpreter.checkValue, which recovers errors.ExternalError as well as user errors and SKIPS the value:
//      a host failure while loading the type's program is swallowed.
func knownFinding(fc FaultCase, class string, res host.Result, faults []*host.Fault) string {
	if fc.Kind2 != "" {
		return ""
	}
	info := host.Classify(res)
	switch {
	case (fc.Kind == "BLSAggregateSignatures" || fc.Kind == "BLSAggregatePublicKeys") && fc.Variant == host.FaultError &&
		(class == "swallowed" || class == "not-carried"):
		return "FX2"
	case fc.Kind == "GetValue" && fc.Variant == host.FaultError && class == "not-carried" && info.HasType("atree.SlabNotFoundError") &&
		(strings.Contains(res.Err.Error(), "failed to get child slab") || strings.Contains(res.Err.Error(), "failed to get parent slab")):
		// the two messages are produced only by atree's storage_health_check.go
		return "FX4"
	case class == "swallowed" && fx9Kinds[fc.Kind] &&
		(strings.Contains(fc.Item.Hist.Steps[fc.Step].Source, ".forEachPublic(") ||
			(strings.Contains(fc.Item.Hist.Steps[fc.Step].Source, ".forEachStored(") && fc.Kind != "GetValue" && fc.Kind != "ValueExists")):
		// storage reads are only swallowed when a capability's target is checked (forEachPublic)
		return "FX9"
	}
	return ""
}

// callbacks reachable while checkValue loads the program of a stored value's type / checks a capability target
var fx9Kinds = map[string]bool{"GetOrLoadProgram": true, "GetAccountContractCode": true, "GetCode": true, "ResolveLocation": true, "GetValue": true, "ValueExists": true}

var knownRepros = map[string]FaultCase{
	"FX9": {Item: findItem("tx-foreachstored-imported-types"), Engine: 0, Step: 2, Kind: "GetOrLoadProgram", Index: 0, Variant: host.FaultError},
	"FX2": {Item: findItem("script-bls"), Engine: 0, Step: 0, Kind: "BLSAggregateSignatures", Index: 0, Variant: host.FaultError},
	"FX4": {Item: findItem("tx-storage-big"), Engine: 1, Step: 1, Kind: "GetValue", Index: 14, Variant: host.FaultError},
}

func TestC28(t *testing.T) {
	rec := evid.Start(t, "C28", "every (item, engine, step, callback kind, k-th call, variant in {error, panic-error, panic-value}) of the clean-run host trace is re-run with that fault injected; "+
		"non-trivial = the fault point was reached and fired (all enumerated points are); distinct by (item, engine, step, kind, k, variant); hand-written corpus: every k; generated histories: every k <= 3 plus a 1/40 sample; "+
		"pairs: first fault is a documented swallower (ValidatePublicKey error / fault inside tryUpdate), second fault at every later point")

	if p := evid.ReplayFile(); p != "" {
		var fc FaultCase
		if err := evid.LoadReplay(p, &fc); err != nil {
			t.Fatal(err)
		}
		res, faults := runFaultCase(fc, nil)
		class, viol := faultVerdict(res, faults, fc.Item.Hist.Steps[fc.Step].Source)
		rec.Case(true, "replay")
		if viol != "" {
			rec.Violation(t, fc, "%s: %s", class, viol)
		}
		return
	}

	for _, id := range []string{"FX2", "FX4", "FX9"} {
		if rec.Known(id) {
			fc := knownRepros[id]
			res, faults := runFaultCase(fc, nil)
			class, viol := faultVerdict(res, faults, fc.Item.Hist.Steps[fc.Step].Source)
			rec.ReportKnown(id, viol != "" && knownFinding(fc, class, res, faults) == id)
		}
	}

	items := execgen.FullCorpus()
	nCorpus := len(items)
	// generated histories: per registered source (own templates and plugged-in generator packages)
	items = append(items, execgen.Generated(evid.Rand(28), evid.N(3, 40))...)
	isCorpus := map[string]bool{}
	for _, it := range items[:nCorpus] {
		isCorpus[it.Name] = true
	}
	sampler := evid.Rand(2828)
	// shard the items
	var mine []execgen.Item
	for i, it := range items {
		if i%evid.Shards() == evid.Shard() {
			mine = append(mine, it)
		}
	}

	kindPoints := map[string]int{}
	kindsSeen := map[string]bool{}
	total := 0
	prevName, prevStart, prevRuns := "", time.Now(), 0
	for _, it := range mine {
		if debugCollect() {
			if prevName != "" {
				fmt.Printf("DEBUG-ITEM %-28s %8s runs=%d\n", prevName, time.Since(prevStart).Round(time.Millisecond), total-prevRuns)
			}
			prevName, prevStart, prevRuns = it.Name, time.Now(), total
		}
		for _, eng := range host.Engines {
			// clean run, keeping the state before every step
			h := execgen.NewHost(it)
			for si, step := range it.Hist.Steps {
				pre := h.Fork()
				clean := execgen.RunStep(h, step, host.Options{Engine: eng})
				if clean.Panic != nil {
					rec.Violation(t, FaultCase{Item: it, Engine: int(eng), Step: si}, "clean run panicked: %v", clean.Panic)
				}
				cleanOK := clean.Err == nil
				if !cleanOK && !step.MayFail && strings.HasPrefix(it.Hist.Origin, "execgen/") {
					rec.Inconclusive(t, "item %s step %d fails in the clean run on %s: %v", it.Name, si, eng, clean.Err)
				}
				pts := pointsOf(clean.Trace)
				if !isCorpus[it.Name] {
					// generated histories: every k <= 3 of every kind, plus a sample of the later calls
					// (the hand-written corpus is enumerated completely)
					var keep []stepPoint
					// cost cap (deterministic): big steps (thousands of host calls, seconds per re-run)
					// get fewer points
					maxPts := 45
					switch {
					case len(pts) > 600:
						maxPts = 4
					case len(pts) > 150:
						maxPts = 10
					}
					for _, pt := range pts {
						if (pt.index <= 3 || sampler.Intn(40) == 0) && len(keep) < maxPts {
							keep = append(keep, pt)
						}
					}
					rec.ClassN("generated-points-skipped-by-sampling", int64(len(pts)-len(keep)))
					pts = keep
				}
				for _, pt := range pts {
					kindsSeen[pt.kind] = true
					for _, variant := range faultVariants {
						fc := FaultCase{Item: it, Engine: int(eng), Step: si, Kind: pt.kind, Index: pt.index, Variant: variant}
						res, faults := runFaultCase(fc, pre)
						class, viol := faultVerdict(res, faults, fc.Item.Hist.Steps[fc.Step].Source)
						total++
						if class == "not-reached" {
							// the clean trace is deterministic, so this must not happen
							rec.Violation(t, fc, "fault point (%s, %d) of the clean trace was not reached in the re-run (non-deterministic host call sequence)", pt.kind, pt.index)
						}
						rec.Case(true, it.Name, eng, si, pt.kind, pt.index, variant)
						kindPoints[pt.kind]++
						rec.Class("kind:" + pt.kind)
						rec.Class("variant:" + variant)
						rec.Class("outcome:" + class)
						if !cleanOK {
							rec.Class("clean-run-failing-step")
						}
						if viol != "" {
							if id := knownFinding(fc, class, res, faults); id != "" && rec.Known(id) {
								rec.Excluded(id)
								rec.Class("known:" + id)
								continue
							}
							fc.Item = slimItem(it, si)
							if debugCollect() {
								fmt.Printf("DEBUG-VIOLATION %s on %s step %d fault %s#%d/%s: %s: %s\n", it.Name, eng, si, pt.kind, pt.index, variant, class, viol)
								continue
							}
							rec.Violation(t, fc, "%s on %s step %d fault %s#%d/%s: %s: %s", it.Name, eng, si, pt.kind, pt.index, variant, class, viol)
						}
						if rec.WantSample(class) {
							rec.Sample(class, map[string]any{"item": it.Name, "engine": eng.String(), "step": si, "kind": pt.kind, "index": pt.index, "variant": variant,
								"err": errText(res.Err)})
						}
						// pairs: when the first fault was (legitimately) swallowed or converted,
						// inject a second fault at every later point of the *faulted* run
						if class == "exception-tryupdate" || class == "exception-invalid-key" || class == "exception-tryupdate-failed" {
							pairFaults(t, rec, it, eng, si, pre, fc, res)
						}
					}
				}
			}
		}
	}

	_ = 0
	// coverage: every reachable callback kind must have been faulted at least once
	var missing []string
	for _, k := range reachableKinds {
		if !kindsSeen[k] && evid.Shards() == 1 {
			missing = append(missing, k)
		}
	}
	rec.Extra("fault_points_per_kind", kindPoints)
	rec.Extra("callback_kinds_faulted", len(kindsSeen))
	rec.Extra("callback_kinds_unreachable", unreachableKinds)
	rec.Extra("items", len(mine))
	if len(missing) > 0 {
		rec.Inconclusive(t, "callback kinds never reached by the corpus: %v", missing)
	}
	rec.Extra("exhaustive_scope", "hand-written corpus x every (callback kind, k) of every step x 3 variants x 2 engines is enumerated completely; generated / plugged-in histories: every k <= 3 plus a sample, capped per step")
	rec.SetExhaustive(true)
}

// pairFaults enumerates second faults after a swallowed first one.
func pairFaults(t *testing.T, rec *evid.Rec, it execgen.Item, eng host.Engine, si int, pre *host.Host, first FaultCase, firstRes host.Result) {
	firedAt := -1
	counts := map[string]int{}
	var later []stepPoint
	// locate the first fault in the faulted trace, then list the later points
	for i, c := range firstRes.Trace {
		idx := counts[c.Kind]
		counts[c.Kind]++
		if firedAt < 0 {
			if c.Kind == first.Kind && idx == first.Index {
				firedAt = i
			}
			continue
		}
		later = append(later, stepPoint{c.Kind, idx})
	}
	for _, pt := range later {
		for _, variant := range faultVariants {
			fc := first
			fc.Kind2, fc.Index2, fc.Variant2 = pt.kind, pt.index, variant
			res, faults := runFaultCase(fc, pre)
			class, viol := faultVerdict(res, faults, fc.Item.Hist.Steps[fc.Step].Source)
			if class == "not-reached" {
				rec.Violation(t, fc, "second fault point (%s, %d) was not reached in the re-run", pt.kind, pt.index)
			}
			rec.Case(true, it.Name, eng, si, first.Kind, first.Index, first.Variant, pt.kind, pt.index, variant)
			rec.Class("pair:" + class)
			rec.Class("pair-second-kind:" + pt.kind)
			if viol != "" {
				fc.Item = slimItem(it, si)
				rec.Violation(t, fc, "%s on %s step %d fault pair %s#%d/%s then %s#%d/%s: %s: %s", it.Name, eng, si, first.Kind, first.Index, first.Variant, pt.kind, pt.index, variant, class, viol)
			}
		}
	}
}

// reachableKinds are the callbacks the runtime can call in the harness's
// configuration; every one of them must be hit by the corpus.
var reachableKinds = []string{
	"ResolveLocation", "GetCode", "GetOrLoadProgram", "GetValue", "SetValue", "AllocateSlabIndex",
	"CreateAccount", "AddAccountKey", "GetAccountKey", "AccountKeysCount", "RevokeAccountKey",
	"UpdateAccountContractCode", "GetAccountContractCode", "RemoveAccountContractCode", "GetSigningAccounts",
	"ProgramLog", "EmitEvent", "GenerateUUID", "DecodeArgument", "GetCurrentBlockHeight", "GetBlockAtHeight",
	"ReadRandom", "VerifySignature", "Hash", "GetAccountBalance", "GetAccountAvailableBalance", "GetStorageUsed",
	"GetStorageCapacity", "ValidatePublicKey", "GetAccountContractNames", "BLSVerifyPOP", "BLSAggregateSignatures",
	"BLSAggregatePublicKeys", "GenerateAccountID", "RecoverProgram", "ValidateAccountCapabilitiesGet",
	"ValidateAccountCapabilitiesPublish", "MinimumRequiredVersion",
}

// unreachableKinds: never called by the runtime at all (ValueExists, ImplementationDebugLog: only the
// ExternalInterface wrapper references them) or only with features the harness host leaves off
// (ResourceOwnerChanged: Config.ResourceOwnerChangeHandlerEnabled; RecordTrace: interpreter.TracingEnabled);
// the latter two have no error result and lib/host does not route them through the fault injector.
var unreachableKinds = []string{"ValueExists", "ImplementationDebugLog", "ResourceOwnerChanged", "RecordTrace"}

// debugCollect (EXEC_DEBUG_COLLECT=1) prints all C28 violations instead of stopping at the first (development aid).
func debugCollect() bool { return os.Getenv("EXEC_DEBUG_COLLECT") != "" }

func errText(err error) string {
	if err == nil {
		return ""
	}
	s := err.Error()
	if len(s) > 240 {
		s = s[:240]
	}
	return s
}

func findItem(name string) execgen.Item {
	for _, it := range execgen.FullCorpus() {
		if it.Name == name {
			return it
		}
	}
	panic("no corpus item " + name)
}

// slimItem drops the steps after si (they are irrelevant for the replay).
func slimItem(it execgen.Item, si int) execgen.Item {
	c := it
	c.Hist.Steps = append([]prog.Step(nil), it.Hist.Steps[:si+1]...)
	return c
}

func sortedKeys(m map[string]int) []string {
	ks := make([]string, 0, len(m))
	for k := range m {
		ks = append(ks, k)
	}
	sort.Strings(ks)
	return ks
}
