package exec

import (
	"fmt"
	"os"
	"strconv"
	"strings"
	"testing"
	"time"

	"verif/lib/evid"
	"verif/lib/execgen"
	"verif/lib/host"
)

// C30 — every execution is bounded by the metering and depth limits.
//
// Divergence seeds (lib/execgen/bound.go: endless loops, ever-growing arrays /
// strings / dictionaries / big integers / nested values / stored containers,
// self / mutual / closure / method / interface-default / initializer / callback
// recursion, built-ins that loop internally inside an endless loop, exact-depth
// recursion; feedback loops that feed the result of every allocating built-in
// (String.join / replaceAll / split+join / concat / templates / toLower / slice /
// toString / encodeHex / fromUTF8 / decodeHex / fromCharacters, Array concat / map /
// filter / reverse / slice / appendAll / insert / toVariableSized, dictionary
// inserts / keys / values, big-integer arithmetic and byte conversions) back into
// it under SMALL memory limits {1e4,3e4}: the memory limit error must be raised
// before the value reaches 64x (slow seeds: 8x) the limit - bounded growth) run under computation limits {1e3,1e4,1e5}, memory limits
// {3e6,3e7} and StackDepthLimit {10,100,default}, on both engines, inside child
// processes watched by a watchdog.

const (
	callsAfterBound = 64 // metering calls tolerated after the first limit error (error construction while unwinding)
	defaultDepth    = 2000
)

func hasType(br *execgen.BoundResult, s string) bool {
	for _, t := range br.Types {
		if strings.Contains(t, s) {
			return true
		}
	}
	return false
}

// boundVerdict returns (outcome class, violation, inconclusive).
func boundVerdict(bc execgen.BoundCase, br *execgen.BoundResult) (class, viol, inconcl string) {
	if br.SetupFail != "" {
		return "setup-failed", "", "set-up step failed: " + br.SetupFail
	}
	if br.Panic != "" {
		return "escaped-panic", "a Go panic escaped the runtime: " + br.Panic, ""
	}
	comp := hasType(br, "errors.ComputationMeteringError")
	mem := hasType(br, "errors.MemoryMeteringError")
	depth := hasType(br, "interpreter.CallStackLimitExceededError")
	switch {
	case comp:
		class = "computation-limit"
	case mem:
		class = "memory-limit"
	case depth:
		class = "call-depth-limit"
	case br.Class == "ok":
		class = "ok"
	default:
		class = "other-" + br.Class
	}
	if br.LimitHit {
		// the gauge returned a limit error: it must be the (user-visible) outcome
		if br.Class == "ok" {
			return class, "the gauge reported a limit error but the execution succeeded (limit error swallowed)", ""
		}
		if !comp && !mem {
			return class, fmt.Sprintf("the gauge reported a limit error but the execution failed with a different error (%s %s): %s", br.Class, br.Root, br.ErrMsg), ""
		}
		if br.Class != "user" {
			return class, fmt.Sprintf("limit error reported with class %s, want a user error: %v", br.Class, br.Types), ""
		}
		if br.CallsAfter > callsAfterBound {
			return class, fmt.Sprintf("%d metering calls were made after the first limit error (execution continued)", br.CallsAfter), ""
		}
	} else if comp || mem {
		return class, "metering error reported although the gauge never returned one", ""
	}
	if depth && br.Class != "user" {
		return class, fmt.Sprintf("call-depth error reported with class %s, want a user error: %v", br.Class, br.Types), ""
	}
	limit := bc.StackDepthLimit
	if limit == 0 {
		limit = defaultDepth
	}
	switch {
	case bc.GrowthBound > 0:
		// feedback loop through an allocating built-in: bounded growth
		switch class {
		case "memory-limit", "computation-limit":
		case "ok":
			return class, fmt.Sprintf("bounded growth: the value grew to >= %d bytes = %dx the memory limit %d and the program returned normally; no memory limit error was raised (memory metered in total: %d, computation %d)",
				bc.GrowthBound, bc.GrowthBound/bc.MemLimit, bc.MemLimit, br.MemTotal, br.CompTotal), ""
		default:
			if br.Class != "user" {
				return class, fmt.Sprintf("growth seed ended with a %s error instead of a user-visible limit error: %s %s", br.Class, br.Root, br.ErrMsg), ""
			}
			return class, "", fmt.Sprintf("growth seed failed with an unrelated user error (seed bug): %s %s", br.Root, br.ErrMsg)
		}
	case bc.Depth > 0:
		// exact-depth recursion with generous metering limits
		d := uint64(bc.Depth)
		switch {
		case d+8 < limit:
			if class != "ok" {
				return class, fmt.Sprintf("recursion of depth %d under call-depth limit %d failed: %s %s", d, limit, br.Root, br.ErrMsg), ""
			}
		case d > limit+8:
			if class != "call-depth-limit" {
				return class, fmt.Sprintf("recursion of depth %d exceeds the configured call-depth limit %d but the outcome is %s (%s)", d, limit, class, br.ErrMsg), ""
			}
		}
	case bc.WantDepthError:
		if class != "call-depth-limit" {
			return class, fmt.Sprintf("unbounded recursion under generous metering limits must end with the call-depth error, got %s (%s %s)", class, br.Root, br.ErrMsg), ""
		}
	case bc.Diverges:
		switch class {
		case "computation-limit", "memory-limit", "call-depth-limit":
		case "ok":
			return class, "", "seed marked divergent terminated normally (seed bug)"
		default:
			if br.Class != "user" {
				return class, fmt.Sprintf("divergent program ended with a %s error instead of a user-visible limit error: %s %s", br.Class, br.Root, br.ErrMsg), ""
			}
			return class, "", fmt.Sprintf("seed marked divergent failed with an unrelated user error (seed bug): %s %s", br.Root, br.ErrMsg)
		}
	}
	return class, "", ""
}

// isFX6: the VM environment ignores runtime.Config.StackDepthLimit (always 2000).
func isFX6(bc execgen.BoundCase, class string) bool {
	if host.Engine(bc.Engine) == host.Interp || bc.StackDepthLimit == 0 || bc.StackDepthLimit == defaultDepth {
		return false
	}
	return bc.Depth > 0 && uint64(bc.Depth) > bc.StackDepthLimit+8 && bc.Depth+8 < defaultDepth && class == "ok"
}

type boundOutcome struct {
	br       *execgen.BoundResult
	watchdog int    // number of watchdog hits (0, 1 = single hit, 2 = confirmed)
	crash    string // child died: tail of its output
}

// runBoundJobs executes the cases in child processes (chunked), handling the
// watchdog: a case that makes a child exceed the budget is re-run alone with a
// doubled budget; the rest of its chunk is re-queued.
func runBoundJobs(cases []execgen.BoundCase, budget time.Duration, workers int) []boundOutcome {
	out := make([]boundOutcome, len(cases))
	type chunk struct{ idx []int }
	var chunks []chunk
	const per = 24
	for i := 0; i < len(cases); i += per {
		var c chunk
		for j := i; j < i+per && j < len(cases); j++ {
			c.idx = append(c.idx, j)
		}
		chunks = append(chunks, c)
	}
	parallel(len(chunks), workers, func(k int) {
		idx := chunks[k].idx
		for len(idx) > 0 {
			var bcs []execgen.BoundCase
			for _, i := range idx {
				bcs = append(bcs, cases[i])
			}
			res := execgen.RunChild(execgen.Job{Mode: execgen.ModeBound, Bounds: bcs}, execgen.ChildOpts{PerReply: budget, Timeout: time.Duration(len(bcs)+1) * budget})
			for p, r := range res.Replies {
				out[idx[p]].br = r.Bound
			}
			if res.Complete && len(res.Replies) == len(idx) {
				return
			}
			// the case after the last reply is the suspect
			s := len(res.Replies)
			if s >= len(idx) {
				return
			}
			suspect := idx[s]
			if res.TimedOut {
				out[suspect].watchdog = 1
			} else {
				out[suspect].crash = res.Output
			}
			// confirmation run: alone, doubled budget
			conf := execgen.RunChild(execgen.Job{Mode: execgen.ModeBound, Bounds: []execgen.BoundCase{cases[suspect]}}, execgen.ChildOpts{PerReply: 2 * budget, Timeout: 3 * budget})
			switch {
			case conf.Complete && len(conf.Replies) == 1:
				out[suspect].br = conf.Replies[0].Bound
			case conf.TimedOut:
				out[suspect].watchdog++
				if out[suspect].watchdog == 1 {
					out[suspect].watchdog = 2 // crash first, then timeout: treat as confirmed non-termination
				}
			default:
				out[suspect].crash = "confirmed: " + conf.Output
			}
			idx = idx[s+1:]
		}
	})
	return out
}

func TestC30(t *testing.T) {
	rec := evid.Start(t, "C30", "cases = divergence seed x amplification x computation limit {1e3,1e4,1e5} x memory limit {3e6,3e7} x StackDepthLimit {10,100,default} x engine, plus feedback-growth seed x memory limit {1e4,3e4} x engine (a memory limit error must precede growth to 64x the limit), each run in a watched child process; "+
		"non-trivial = a computation / memory / call-depth limit error was the outcome; distinct by (seed program, engine, limits)")

	budget := 120 * time.Second
	if b, err := strconv.Atoi(os.Getenv("EXEC_C30_BUDGET_S")); err == nil && b > 0 {
		budget = time.Duration(b) * time.Second // development aid (mutation runs)
	}
	if p := evid.ReplayFile(); p != "" {
		var bc execgen.BoundCase
		if err := evid.LoadReplay(p, &bc); err != nil {
			t.Fatal(err)
		}
		rec.Case(true, "replay")
		o := runBoundJobs([]execgen.BoundCase{bc}, budget, 1)[0]
		switch {
		case o.watchdog >= 2:
			rec.Violation(t, bc, "execution did not terminate within the watchdog budget (twice)")
		case o.crash != "":
			rec.Violation(t, bc, "child process died: %s", o.crash)
		case o.br == nil:
			t.Fatal("no result")
		}
		if _, viol, _ := boundVerdict(bc, o.br); viol != "" {
			rec.Violation(t, bc, "%s", viol)
		}
		return
	}

	if rec.Known("FX6") {
		bc := execgen.BoundCases(evid.Rand(1), 1)[0]
		for _, c := range execgen.BoundCases(evid.Rand(2), 400) {
			if c.Seed == "depth-exact" && c.Engine == int(host.VM) {
				bc = c
				break
			}
		}
		bc.StackDepthLimit, bc.Depth = 10, 50
		bc.Item = execgen.DepthExactItem(50)
		br := execgen.RunBound(bc)
		class, viol, _ := boundVerdict(bc, &br)
		rec.ReportKnown("FX6", viol != "" && isFX6(bc, class))
	}

	cases := execgen.BoundCases(evid.Rand(30), evid.N(420, 3000))
	// bounded growth: every feedback seed (quick: one memory limit each; thorough: 4 draws)
	grnd := evid.Rand(3030)
	for k := 0; k < evid.N(1, 4); k++ {
		cases = append(cases, execgen.GrowthCases(grnd, 0)...)
	}
	var mine []execgen.BoundCase
	for i, c := range cases {
		if (i/2)%evid.Shards() == evid.Shard() {
			mine = append(mine, c)
		}
	}
	cases = mine
	outs := runBoundJobs(cases, budget, 4)

	maxAfter := 0
	seedsHit := map[string]bool{}
	for i, bc := range cases {
		o := outs[i]
		eng := host.Engine(bc.Engine)
		key := []any{bc.Seed, bc.Item.Hist.Steps[len(bc.Item.Hist.Steps)-1].Source, eng, bc.CompLimit, bc.MemLimit, bc.StackDepthLimit}
		switch {
		case o.watchdog >= 2:
			rec.Case(true, key...)
			rec.Violation(t, bc, "%s on %s (comp %d, mem %d, depth %d): execution did not terminate within the watchdog budget, confirmed by a second run alone with a doubled budget",
				bc.Seed, eng, bc.CompLimit, bc.MemLimit, bc.StackDepthLimit)
		case o.crash != "" && o.br == nil:
			rec.Case(true, key...)
			if strings.Contains(o.crash, "stack overflow") || strings.Contains(o.crash, "goroutine stack exceeds") {
				rec.Violation(t, bc, "%s on %s: the child process died with a Go stack overflow: %.1500s", bc.Seed, eng, o.crash)
			}
			if strings.HasPrefix(o.crash, "confirmed: ") && !strings.Contains(o.crash, "out of memory") && !strings.Contains(o.crash, "cannot allocate") {
				rec.Violation(t, bc, "%s on %s: the child process died twice: %.1500s", bc.Seed, eng, o.crash)
			}
			rec.Class("child-died-inconclusive")
			continue
		case o.br == nil:
			rec.Inconclusive(t, "no result for case %d (%s)", i, bc.Seed)
		}
		if o.watchdog == 1 {
			rec.Class("watchdog-single-hit(inconclusive)")
		}
		class, viol, inconcl := boundVerdict(bc, o.br)
		nontrivial := class == "computation-limit" || class == "memory-limit" || class == "call-depth-limit"
		rec.Case(nontrivial, key...)
		rec.Class("outcome:" + class)
		rec.Class("seed:" + bc.Seed)
		rec.Class(fmt.Sprintf("engine:%s/%s", eng, class))
		if nontrivial {
			seedsHit[bc.Seed] = true
		}
		if o.br.CallsAfter > maxAfter {
			maxAfter = o.br.CallsAfter
		}
		if debugCollect() {
			fmt.Printf("DEBUG-C30 %-28s %-11s comp=%-7d mem=%-9d depth=%-4d D=%-5d -> %-18s %6dms after=%d viol=%q inconcl=%q\n", bc.Seed, eng, bc.CompLimit, bc.MemLimit, bc.StackDepthLimit, bc.Depth, class, o.br.Millis, o.br.CallsAfter, viol, inconcl)
			continue
		}
		if inconcl != "" {
			rec.Inconclusive(t, "%s on %s: %s", bc.Seed, eng, inconcl)
		}
		if viol != "" {
			if isFX6(bc, class) && rec.Known("FX6") {
				rec.Excluded("FX6")
				continue
			}
			rec.Violation(t, bc, "%s on %s (comp %d, mem %d, depth %d): %s", bc.Seed, eng, bc.CompLimit, bc.MemLimit, bc.StackDepthLimit, viol)
		}
		if rec.WantSample(class + "/" + eng.String()) {
			rec.Sample(class+"/"+eng.String(), map[string]any{"seed": bc.Seed, "engine": eng.String(), "comp_limit": bc.CompLimit, "mem_limit": bc.MemLimit, "depth_limit": bc.StackDepthLimit,
				"source": bc.Item.Hist.Steps[len(bc.Item.Hist.Steps)-1].Source, "comp_total": o.br.CompTotal, "mem_total": o.br.MemTotal, "calls_after_limit": o.br.CallsAfter, "millis": o.br.Millis})
		}
	}
	rec.Extra("max_metering_calls_after_limit_error", maxAfter)
	rec.Extra("seeds", len(execgen.BoundSeedNames()))
	rec.Extra("seeds_stopped_by_a_limit", len(seedsHit))
	if evid.Shards() == 1 {
		rec.RequireClasses(t, "outcome:computation-limit", "outcome:memory-limit", "outcome:call-depth-limit")
	}
}
