package exec

import (
	"fmt"
	"testing"

	"verif/lib/evid"
	"verif/lib/execgen"
	"verif/lib/host"
)

// C31 — metering is deterministic and history-independent.
//
// Reference: each item runs ALONE in a fresh child process (one process per item
// and engine) with recording gauges: the per-step sequences [(MemoryKind, amount)]
// and [(ComputationKind, intensity)]. Compared against it, per engine:
//   (ii)  the item run twice in this (long-lived, reused) test process,
//   (iii) the item run in fresh child processes after a random prefix of 0..20
//         OTHER items (every member of such a sequence is compared; position 0 is
//         a second fresh process).
// Main configuration: AtreeValidationEnabled = false (production). With the
// validation on, the post-commit health check reads slabs in Go map order (FX5),
// so there only the multiset of metering calls is required to be equal; an order
// difference is counted as excluded FX5.

// MeterCase is the replay format: the target is the last of Items; the others are the prefix.
type MeterCase struct {
	Engine     int            `json:"engine"`
	Items      []execgen.Item `json:"items"`
	Mode       string         `json:"mode"` // "prefix" | "inprocess"
	Validation bool           `json:"validation"`
}

func gaugeCalls(gs []execgen.GaugeTrace) int {
	n := 0
	for _, g := range gs {
		n += g.MemCalls + g.CompCalls
	}
	return n
}

// childGauges runs the items in one fresh child, in order.
func childGauges(items []execgen.Item, eng host.Engine, full, validation bool) ([][]execgen.GaugeTrace, error) {
	res := execgen.RunChild(execgen.Job{Mode: execgen.ModeGauge, Engine: int(eng), Items: items, Full: full, Validation: validation}, execgen.ChildOpts{})
	if res.Err != nil || !res.Complete || len(res.Replies) != len(items) {
		return nil, fmt.Errorf("child failed: err=%v complete=%v timedout=%v replies=%d/%d output=%s", res.Err, res.Complete, res.TimedOut, len(res.Replies), len(items), res.Output)
	}
	out := make([][]execgen.GaugeTrace, len(items))
	for i, r := range res.Replies {
		out[i] = r.Gauges
	}
	return out, nil
}

// meterDiff re-runs both sides of a case with full sequences. It returns "" when they agree.
func meterDiff(mc MeterCase) string {
	eng := host.Engine(mc.Engine)
	target := mc.Items[len(mc.Items)-1]
	ref, err := childGauges([]execgen.Item{target}, eng, true, mc.Validation)
	if err != nil {
		return "re-run failed: " + err.Error()
	}
	var other []execgen.GaugeTrace
	if mc.Mode == "inprocess" {
		other = execgen.RunGauges(target, eng, true, mc.Validation)
	} else {
		o, err := childGauges(mc.Items, eng, true, mc.Validation)
		if err != nil {
			return "re-run failed: " + err.Error()
		}
		other = o[len(mc.Items)-1]
	}
	if mc.Validation {
		return execgen.DiffGaugeBags(ref[0], other)
	}
	return execgen.DiffGauges(ref[0], other)
}

func explainMeterDiff(mc MeterCase) string {
	if d := meterDiff(mc); d != "" {
		return "confirmed on re-run: " + d
	}
	return "not reproduced on re-run (intermittent)"
}

// fx5StillFails: corpus item tx-storage-big on the VM with validation on meters in varying order.
func fx5StillFails() bool {
	it := findItem("tx-storage-big")
	first := execgen.RunGauges(it, host.VM, false, true)
	for k := 0; k < 24; k++ {
		g := execgen.RunGauges(it, host.VM, false, true)
		if execgen.DiffGauges(first, g) != "" && execgen.DiffGaugeBags(first, g) == "" {
			return true
		}
	}
	return false
}

func TestC31(t *testing.T) {
	rec := evid.Start(t, "C31", "items = hand-written corpus + generated histories; reference = gauge call sequences of the item alone in a fresh child process; "+
		"compared per engine with (ii) two runs in the reused test process and (iii) runs in fresh child processes after random prefixes of 0..20 other items; "+
		"non-trivial = the item makes >= 200 gauge calls and the compared run had a non-empty in-process history; distinct by (item, engine, validation, mode, prefix)")

	if p := evid.ReplayFile(); p != "" {
		var mc MeterCase
		if err := evid.LoadReplay(p, &mc); err != nil {
			t.Fatal(err)
		}
		rec.Case(true, "replay")
		for k := 0; k < 5; k++ {
			if d := meterDiff(mc); d != "" {
				rec.Violation(t, mc, "%s", d)
			}
		}
		return
	}
	if rec.Known("FX5") {
		rec.ReportKnown("FX5", fx5StillFails())
	}

	rnd := evid.Rand(31)
	items := execgen.FullCorpus()
	items = append(items, execgen.Generated(rnd, evid.N(2, 30))...)
	var mine []execgen.Item
	for i, it := range items {
		if i%evid.Shards() == evid.Shard() {
			mine = append(mine, it)
		}
	}
	items = mine
	workers := 4
	rounds := evid.N(1, 4)

	// compare judges one comparison; it returns false when the case was excluded.
	compare := func(ref, got []execgen.GaugeTrace, mc MeterCase, what string) {
		if !mc.Validation {
			if d := execgen.DiffGauges(ref, got); d != "" {
				rec.Violation(t, mc, "%s: %s; %s", what, d, explainMeterDiff(mc))
			}
			return
		}
		if d := execgen.DiffGaugeBags(ref, got); d != "" {
			rec.Violation(t, mc, "%s (validation on): %s; %s", what, d, explainMeterDiff(mc))
		}
		if d := execgen.DiffGauges(ref, got); d != "" {
			if rec.Known("FX5") {
				rec.Excluded("FX5")
				return
			}
			rec.Violation(t, mc, "%s (validation on): same multiset but different order: %s", what, d)
		}
	}

	for _, eng := range host.Engines {
		for _, validation := range []bool{false, true} {
			vtag := map[bool]string{false: "validation-off", true: "validation-on"}[validation]
			ref := make([][]execgen.GaugeTrace, len(items))
			if !validation {
				// (i) reference: alone in a fresh process
				errs := make([]error, len(items))
				parallel(len(items), workers, func(i int) {
					g, err := childGauges(items[i:i+1], eng, false, validation)
					if err == nil {
						ref[i] = g[0]
					}
					errs[i] = err
				})
				for i, e := range errs {
					if e != nil {
						rec.Inconclusive(t, "reference run of %s failed: %v", items[i].Name, e)
					}
				}
			} else {
				// validation on (debug configuration): the reference is the first in-process run
				for i, it := range items {
					ref[i] = execgen.RunGauges(it, eng, false, validation)
				}
			}

			// (ii) twice in this process (which has a long history of other programs)
			for i, it := range items {
				nt := gaugeCalls(ref[i]) >= 200
				for k := 0; k < 2; k++ {
					g := execgen.RunGauges(it, eng, false, validation)
					rec.Case(nt, it.Name, eng, validation, "inprocess", k)
					rec.Class("mode:in-process")
					rec.Class(vtag)
					compare(ref[i], g, MeterCase{Engine: int(eng), Items: []execgen.Item{it}, Mode: "inprocess", Validation: validation},
						fmt.Sprintf("%s on %s: run %d in the reused process meters differently from the reference", it.Name, eng, k))
				}
				if nt {
					rec.Class("items>=200-gauge-calls")
				}
			}

			// (iii) random prefixes in fresh child processes
			var seqs [][]int
			r := rounds
			if validation {
				r = 1
			}
			for ; r > 0; r-- {
				perm := rnd.Perm(len(items))
				for len(perm) > 0 {
					n := 2 + rnd.Intn(20)
					if n > len(perm) {
						n = len(perm)
					}
					seqs = append(seqs, perm[:n])
					perm = perm[n:]
				}
			}
			outs := make([][][]execgen.GaugeTrace, len(seqs))
			errs := make([]error, len(seqs))
			parallel(len(seqs), workers, func(k int) {
				var its []execgen.Item
				for _, i := range seqs[k] {
					its = append(its, items[i])
				}
				outs[k], errs[k] = childGauges(its, eng, false, validation)
			})
			for k, s := range seqs {
				if errs[k] != nil {
					rec.Inconclusive(t, "prefix child failed: %v", errs[k])
				}
				for pos, i := range s {
					nt := pos > 0 && gaugeCalls(ref[i]) >= 200
					rec.Case(nt, items[i].Name, eng, validation, "prefix", evid.Hash(fmt.Sprint(s[:pos])))
					rec.Class("mode:after-prefix")
					rec.Class(vtag)
					rec.Class(fmt.Sprintf("prefix-len:%02d-%02d", pos/5*5, pos/5*5+4))
					if lab := fmt.Sprintf("after-prefix-%s-%s", eng, vtag); pos > 2 && rec.WantSample(lab) {
						var pre []string
						for _, j := range s[:pos] {
							pre = append(pre, items[j].Name)
						}
						rec.Sample(lab, map[string]any{"item": items[i].Name, "engine": eng.String(), "validation": validation, "prefix": pre,
							"gauge_calls": gaugeCalls(ref[i]), "first_step": outs[k][pos][0]})
					}
					var its []execgen.Item
					for _, j := range s[:pos+1] {
						its = append(its, items[j])
					}
					compare(ref[i], outs[k][pos], MeterCase{Engine: int(eng), Items: its, Mode: "prefix", Validation: validation},
						fmt.Sprintf("%s on %s after prefix %v meters differently from the fresh process", items[i].Name, eng, itemNames(its[:pos])))
				}
			}
			if !validation && rec.WantSample("gauge-trace-"+eng.String()) {
				rec.Sample("gauge-trace-"+eng.String(), map[string]any{"item": items[1].Name, "engine": eng.String(), "gauges_per_step": ref[1]})
			}
		}
	}
	rec.Extra("items", len(items))
	rec.Extra("prefix_rounds", rounds)
}
