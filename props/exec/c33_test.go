package exec

import (
	"fmt"
	"strings"
	"testing"

	"verif/lib/evid"
	"verif/lib/execgen"
	"verif/lib/host"
)

// C33 — execution outcomes are deterministic.
//
// Every item (corpus + generated histories that touch many accounts, many
// dictionary keys, several contract updates in one transaction) is executed
// twice in this process and in fresh child processes over the matrix
// GOMAXPROCS in {1, 2, 16} x CPU affinity in {1 core, 4 cores, all} (taskset;
// runtime.NumCPU() feeds FastCommit's worker count). All outcome traces must be
// byte-identical: result (JSON-CDC and CCF bytes), error class + root type +
// message (stack traces disabled), ordered events (CCF), ordered logs, ordered
// SetValue (owner, key, value) sequence, slab-index / UUID / account-id call
// order, ledger digest after every step, number of host callbacks.

type procConfig struct {
	GoMaxProcs int    `json:"gomaxprocs"`
	CPUs       string `json:"cpus"` // taskset list, "" = all
}

func (c procConfig) String() string {
	cp := c.CPUs
	if cp == "" {
		cp = "all"
	}
	return fmt.Sprintf("GOMAXPROCS=%d,cpus=%s", c.GoMaxProcs, cp)
}

// TraceCase is the replay format of C33.
type TraceCase struct {
	Item   execgen.Item `json:"item"`
	Engine int          `json:"engine"`
	Config procConfig   `json:"config"`
}

func procMatrix() []procConfig {
	n := execgen.NumCPU()
	// shard-specific CPU sets, so that parallel shards do not pile up on the same cores
	sh := evid.Shard()
	four := "0-3"
	if n >= 4*(sh+1) {
		four = fmt.Sprintf("%d-%d", 4*sh, 4*sh+3)
	} else if n < 4 {
		four = fmt.Sprintf("0-%d", n-1)
	}
	one := fmt.Sprint((n - 1 - sh%n + n) % n)
	var out []procConfig
	for _, g := range []int{1, 2, 16} {
		for _, c := range []string{one, four, ""} {
			if c != "" && !execgen.HaveTaskset() {
				continue
			}
			out = append(out, procConfig{g, c})
		}
	}
	return out
}

func childTraces(items []execgen.Item, eng host.Engine, c procConfig) ([]execgen.Trace, execgen.Reply, error) {
	res := execgen.RunChild(execgen.Job{Mode: execgen.ModeTrace, Engine: int(eng), Items: items, Validation: true},
		execgen.ChildOpts{GoMaxProcs: c.GoMaxProcs, CPUs: c.CPUs})
	if res.Err != nil || !res.Complete || len(res.Replies) != len(items) {
		return nil, execgen.Reply{}, fmt.Errorf("child failed: err=%v complete=%v timedout=%v replies=%d/%d output=%s", res.Err, res.Complete, res.TimedOut, len(res.Replies), len(items), res.Output)
	}
	out := make([]execgen.Trace, len(items))
	for i, r := range res.Replies {
		out[i] = *r.Trace
	}
	return out, res.Replies[0], nil
}

func traceNontrivial(tr execgen.Trace, it execgen.Item) bool {
	writes, events, updates := 0, 0, 0
	for i, s := range tr.Steps {
		writes += len(s.Writes)
		events += len(s.Events)
		updates += strings.Count(it.Hist.Steps[i].Source, "contracts.update(")
	}
	return writes >= 5 || events >= 3 || updates >= 2
}

func TestC33(t *testing.T) {
	rec := evid.Start(t, "C33", "items = hand-written corpus + generated histories; each runs twice in-process and in fresh child processes over GOMAXPROCS {1,2,16} x CPU affinity {1 core, 4 cores, all}; "+
		"all outcome traces must be identical to the first in-process run; non-trivial = the history issues >= 5 register writes or >= 3 events or >= 2 contract updates; distinct by (item, engine, process configuration)")

	if p := evid.ReplayFile(); p != "" {
		var tc TraceCase
		if err := evid.LoadReplay(p, &tc); err != nil {
			t.Fatal(err)
		}
		rec.Case(true, "replay")
		ref := execgen.RunTrace(tc.Item, execgen.RunOpts{Engine: host.Engine(tc.Engine)})
		for k := 0; k < 10; k++ {
			tr, _, err := childTraces([]execgen.Item{tc.Item}, host.Engine(tc.Engine), tc.Config)
			if err != nil {
				t.Fatal(err)
			}
			if d := execgen.DiffTraces(ref, tr[0]); d != "" {
				rec.Violation(t, tc, "%s", d)
			}
			if d := execgen.DiffTraces(ref, execgen.RunTrace(tc.Item, execgen.RunOpts{Engine: host.Engine(tc.Engine)})); d != "" {
				rec.Violation(t, tc, "in-process: %s", d)
			}
		}
		return
	}

	rnd := evid.Rand(33)
	items := execgen.FullCorpus()
	items = append(items, execgen.Generated(rnd, evid.N(7, 24))...)
	var mine []execgen.Item
	for i, it := range items {
		if i%evid.Shards() == evid.Shard() {
			mine = append(mine, it)
		}
	}
	items = mine
	matrix := procMatrix()
	if !evid.Thorough() && len(matrix) > 6 {
		// quick: 6 of the 9 configurations, always including the extremes
		keep := []int{0, 2, 4, 5, 6, 8}
		var m []procConfig
		for _, k := range keep {
			m = append(m, matrix[k])
		}
		matrix = m
	}
	if !execgen.HaveTaskset() {
		rec.Class("no-taskset")
	}
	cpuSeen := map[string]bool{}

	for _, eng := range host.Engines {
		ref := make([]execgen.Trace, len(items))
		nt := make([]bool, len(items))
		for i, it := range items {
			ref[i] = execgen.RunTrace(it, execgen.RunOpts{Engine: eng})
			nt[i] = traceNontrivial(ref[i], it)
			if nt[i] {
				rec.Class("nontrivial-items")
			}
			// second in-process run
			tr := execgen.RunTrace(it, execgen.RunOpts{Engine: eng})
			rec.Case(nt[i], it.Name, eng, "inprocess")
			rec.Class("config:in-process")
			if d := execgen.DiffTraces(ref[i], tr); d != "" {
				rec.Violation(t, TraceCase{Item: it, Engine: int(eng)}, "%s on %s: two runs in one process differ: %s", it.Name, eng, d)
			}
			for _, s := range ref[i].Steps {
				rec.Class("outcome:" + s.Class)
			}
		}
		// child processes: per configuration, the items are split into chunks in a
		// configuration-specific order
		type jobT struct {
			cfg procConfig
			idx []int
		}
		var jobs []jobT
		for _, c := range matrix {
			perm := rnd.Perm(len(items))
			chunk := (len(items) + 3) / 4
			if chunk > 14 {
				chunk = 14
			}
			for len(perm) > 0 {
				n := chunk
				if n > len(perm) {
					n = len(perm)
				}
				jobs = append(jobs, jobT{c, perm[:n]})
				perm = perm[n:]
			}
		}
		outs := make([][]execgen.Trace, len(jobs))
		infos := make([]execgen.Reply, len(jobs))
		errs := make([]error, len(jobs))
		parallel(len(jobs), 4, func(k int) {
			var its []execgen.Item
			for _, i := range jobs[k].idx {
				its = append(its, items[i])
			}
			outs[k], infos[k], errs[k] = childTraces(its, eng, jobs[k].cfg)
		})
		for k, j := range jobs {
			if errs[k] != nil {
				rec.Inconclusive(t, "child %s failed: %v", j.cfg, errs[k])
			}
			cpuSeen[fmt.Sprintf("GOMAXPROCS=%d NumCPU=%d", infos[k].GoMaxProcs, infos[k].NumCPU)] = true
			if j.cfg.GoMaxProcs != infos[k].GoMaxProcs {
				rec.Inconclusive(t, "child did not run with the requested GOMAXPROCS: %d vs %d", infos[k].GoMaxProcs, j.cfg.GoMaxProcs)
			}
			for pos, i := range j.idx {
				rec.Case(nt[i], items[i].Name, eng, j.cfg.String())
				rec.Class("config:" + j.cfg.String())
				if lab := "child-" + j.cfg.String(); nt[i] && eng == host.VM && rec.WantSample(lab) {
					st := outs[k][pos].Steps[len(outs[k][pos].Steps)-1]
					rec.Sample(lab, map[string]any{"item": items[i].Name, "engine": eng.String(), "config": j.cfg.String(), "numcpu_seen": infos[k].NumCPU,
						"steps": len(outs[k][pos].Steps), "last_step_class": st.Class, "last_step_writes": len(st.Writes), "last_step_digest": st.Digest})
				}
				if d := execgen.DiffTraces(ref[i], outs[k][pos]); d != "" {
					rec.Violation(t, TraceCase{Item: items[i], Engine: int(eng), Config: j.cfg}, "%s on %s: child process (%s) differs from the in-process run: %s", items[i].Name, eng, j.cfg, d)
				}
			}
		}
		if rec.WantSample("trace-" + eng.String()) {
			k := 0
			for i := range items {
				if nt[i] {
					k = i
					break
				}
			}
			st := ref[k].Steps[len(ref[k].Steps)-1]
			rec.Sample("trace-"+eng.String(), map[string]any{"item": items[k].Name, "engine": eng.String(), "last_step_class": st.Class, "last_step_value": st.Value,
				"writes": len(st.Writes), "events": len(st.Events), "digest": st.Digest})
		}
	}
	var seen []string
	for k := range cpuSeen {
		seen = append(seen, k)
	}
	rec.Extra("process_configurations_observed", sortedStrings(seen))
	rec.Extra("items", len(items))
	if len(cpuSeen) < 3 {
		rec.Inconclusive(t, "fewer than 3 distinct (GOMAXPROCS, NumCPU) configurations could be produced: %v", seen)
	}
}
