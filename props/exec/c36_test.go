package exec

import (
	"fmt"
	"os"
	"strings"
	"testing"
	"time"

	"verif/lib/evid"
	"verif/lib/execgen"
	"verif/lib/host"
)

// C36 — concurrent checking/execution behaves like sequential.
//
// A batch = three shared generated contracts (entitlement mappings with
// includes, interfaces with default functions, a big composite, resources,
// attachment, enum) + 8..48 generated programs importing them (scripts and
// transactions: mapped references, interface dispatch, run-time types,
// resources/attachments/capabilities, programs with checker errors, programs
// with run-time errors). Each batch runs in a FRESH child process: first
// concurrently (2..16 goroutines, random start order, GOMAXPROCS in {2,4,16}),
// every goroutine with its own host but all sharing what a host's program cache
// shares (the loaded *runtime.Program of contract locations: AST + elaboration
// + compiled program), several rounds each with a fresh cache; then
// twice sequentially over one shared cache (program order, reverse order). The
// REFERENCE of a program is its run ALONE: a separate fresh child process runs
// every program with its own fresh program cache (shared contracts parsed and
// checked anew). Per program the outcome trace (result JSON+CCF, error class /
// type / message, events, logs, writes, allocation order, ledger digest) of
// every concurrent round and of both sequential-shared passes must equal the
// reference (so state leaking between programs through the shared imports is
// seen even when it leaks the same way sequentially and concurrently).
// The contracts include Ent: interfaces with distinct entitlement sets
// (conjunctive and access(C | D) members) used in intersections, post-conditions
// with result, attachments for interfaces and deliberately ill-typed programs. The binary is built with -race: any "WARNING: DATA
// RACE" in a child's output is echoed to this test's output, where the driver
// turns it into a violation.

// BatchCase is the replay format of C36.
type BatchCase struct {
	Job        execgen.BatchJob `json:"job"`
	GoMaxProcs int              `json:"gomaxprocs"`
	// SkipFX8: race reports whose two accesses are both in sema/entitlementset.go
	// (lazy Minimize of a cached EntitlementSet, known finding FX8) are counted, not reported.
	SkipFX8 bool `json:"skip_fx8,omitempty"`
}

func runBatchChild(bc BatchCase) (*execgen.BatchResult, string, error) {
	br, out, _, err := runBatchChildN(bc)
	return br, out, err
}

// runBatchChildN also returns the number of race reports attributed to known finding FX8.
func runBatchChildN(bc BatchCase) (*execgen.BatchResult, string, int, error) {
	alone, fail, out, err := aloneReference(bc)
	if err != nil {
		return nil, out, 0, err
	}
	if fail != nil {
		return fail, out, 0, nil
	}
	return runBatchAgainst(bc, alone)
}

// aloneReference: every program ALONE with a fresh program cache, in its own fresh process
// (fail is the result carrying a set-up failure).
func aloneReference(bc BatchCase) (alone []execgen.StepTrace, fail *execgen.BatchResult, out string, err error) {
	job := bc.Job
	job.AloneOnly, job.Alone = true, nil
	ref := execgen.RunChild(execgen.Job{Mode: execgen.ModeBatch, Batch: &job}, execgen.ChildOpts{Timeout: 15 * time.Minute})
	if ref.Err != nil || !ref.Complete || len(ref.Replies) != 1 || ref.Replies[0].Batch == nil {
		return nil, nil, ref.Output, fmt.Errorf("reference child (programs alone, sequential) failed: err=%v complete=%v timedout=%v output=%.3000s", ref.Err, ref.Complete, ref.TimedOut, ref.Output)
	}
	if ref.Replies[0].Batch.SetupFail != "" {
		return nil, ref.Replies[0].Batch, ref.Output, nil
	}
	return ref.Replies[0].Batch.Alone, nil, ref.Output, nil
}

func runBatchAgainst(bc BatchCase, alone []execgen.StepTrace) (*execgen.BatchResult, string, int, error) {
	bc.Job.Alone = alone
	res := execgen.RunChild(execgen.Job{Mode: execgen.ModeBatch, Batch: &bc.Job}, execgen.ChildOpts{GoMaxProcs: bc.GoMaxProcs, Timeout: 15 * time.Minute, MaxOutput: 8 << 20})
	other, nfx8 := raceReports(res.Output, bc.SkipFX8)
	if len(other) > 0 {
		return nil, strings.Join(other, "\n==================\n"), nfx8, nil
	}
	if res.Err != nil || !res.Complete || len(res.Replies) != 1 || res.Replies[0].Batch == nil {
		return nil, res.Output, nfx8, fmt.Errorf("child failed: err=%v complete=%v timedout=%v output=%.3000s", res.Err, res.Complete, res.TimedOut, res.Output)
	}
	return res.Replies[0].Batch, res.Output, nfx8, nil
}

func raceBuild() bool { return raceEnabled }

// raceReports splits a child's output into its race reports; with skipFX8 the reports of known
// finding FX8 (top frame of BOTH accesses in sema/entitlementset.go) are only counted.
func raceReports(out string, skipFX8 bool) (other []string, fx8 int) {
	parts := strings.Split(out, "WARNING: DATA RACE")
	for _, rep := range parts[1:] {
		if end := strings.Index(rep, "\n=================="); end > 0 {
			rep = rep[:end]
		}
		rep = "WARNING: DATA RACE" + rep
		if skipFX8 && isFX8Report(rep) {
			fx8++
			continue
		}
		other = append(other, rep)
	}
	return
}

func isFX8Report(rep string) bool {
	lines := strings.Split(rep, "\n")
	accesses, inFile := 0, 0
	for i, l := range lines {
		if strings.HasPrefix(l, "Read at ") || strings.HasPrefix(l, "Write at ") || strings.HasPrefix(l, "Previous read at ") || strings.HasPrefix(l, "Previous write at ") ||
			strings.HasPrefix(l, "Atomic") || strings.HasPrefix(l, "Previous atomic") {
			accesses++
			// top frame: function line + file line
			if i+2 < len(lines) && strings.Contains(lines[i+1], "sema.(*EntitlementSet).") && strings.Contains(lines[i+2], "/sema/entitlementset.go:") {
				inFile++
			}
		}
	}
	return accesses == 2 && inFile == 2
}

// raceSummary renders the first race report of a child's output: of every section
// (the two accesses, the goroutine creations) the header and the top frames.
func raceSummary(out string) string {
	idx := strings.Index(out, "WARNING: DATA RACE")
	if idx < 0 {
		return ""
	}
	rep := out[idx:]
	if end := strings.Index(rep, "\n=================="); end > 0 {
		rep = rep[:end]
	}
	var b strings.Builder
	inSection := 0
	for _, l := range strings.Split(rep, "\n") {
		if l != "" && l[0] != ' ' && l[0] != '\t' {
			inSection = 0
		}
		if inSection < 25 {
			b.WriteString(l + "\n")
		} else if inSection == 25 {
			b.WriteString("      ...\n")
		}
		inSection++
	}
	return b.String()
}

// FX7: on the VM every execution that finds program.compiledProgram == nil on a program served by the
// host's program cache compiles it and stores the result into the SHARED *runtime.Program
// (vmEnvironment.loadProgram), and compilation (desugar) writes into the shared Elaboration.
// FX8: sema.EntitlementSet.Access() minimises the set lazily (Minimize writes s.minimized and may delete
// from s.Disjunctions) although the set is cached in the type (supportedEntitlements) and so shared by
// every program importing the type through the host's program cache.
func fx8StillFails() bool {
	if !raceBuild() {
		return true
	}
	b := execgen.GenBatchOf(evid.Rand(8), 32, "ent-attachment-access")
	for k := 0; k < 4; k++ {
		job := execgen.BatchJob{Batch: b, Engine: int(host.Interp), Goroutines: 8, Seed: int64(k), Repeat: 4, AloneOnly: false}
		alone := job
		alone.AloneOnly = true
		ref := execgen.RunChild(execgen.Job{Mode: execgen.ModeBatch, Batch: &alone}, execgen.ChildOpts{Timeout: 10 * time.Minute})
		if len(ref.Replies) != 1 || ref.Replies[0].Batch == nil {
			return true
		}
		job.Alone = ref.Replies[0].Batch.Alone
		res := execgen.RunChild(execgen.Job{Mode: execgen.ModeBatch, Batch: &job}, execgen.ChildOpts{GoMaxProcs: 16, Timeout: 10 * time.Minute, MaxOutput: 8 << 20})
		if _, n := raceReports(res.Output, true); n > 0 {
			return true
		}
	}
	return false
}

func fx7StillFails() bool {
	if !raceBuild() {
		return true // cannot be observed without the race detector; keep reporting it
	}
	b := execgen.GenBatch(evid.Rand(7), 24)
	for k := 0; k < 3; k++ {
		res := execgen.RunChild(execgen.Job{Mode: execgen.ModeBatch, Batch: &execgen.BatchJob{Batch: b, Engine: int(host.VM), Goroutines: 8, Seed: int64(k), Repeat: 4}},
			execgen.ChildOpts{GoMaxProcs: 16, Timeout: 10 * time.Minute})
		if (strings.Contains(res.Output, "WARNING: DATA RACE") && strings.Contains(res.Output, "(*vmEnvironment).loadProgram")) || strings.Contains(res.Output, "concurrent map") {
			return true
		}
	}
	return false
}

func TestC36(t *testing.T) {
	rec := evid.Start(t, "C36", "batch = 4 shared contracts + 8..48 generated programs importing them; reference = each program ALONE with a fresh program cache in a fresh child process; a second fresh child runs the programs concurrently (2..16 goroutines, shared program cache, random order, GOMAXPROCS {2,4,16}, several rounds) and then twice sequentially over a shared cache (program order, reverse); "+
		"per program every concurrent and every sequential-shared outcome trace must equal the reference and the race detector must stay silent; non-trivial = the program imports a shared contract and ran concurrently with >= 1 other program; distinct by (program source, engine, goroutines, GOMAXPROCS)")

	report := func(bc BatchCase, br *execgen.BatchResult, out string, err error) {
		if br == nil && err == nil {
			// data race: echo the report; the driver classifies the marker
			fmt.Println(raceSummary(out))
			rec.Violation(t, bc, "data race reported by the race detector in a concurrent batch (engine %s, %d goroutines, GOMAXPROCS %d)", host.Engine(bc.Job.Engine), bc.Job.Goroutines, bc.GoMaxProcs)
		}
		if err != nil {
			// a child that dies with a Go fatal error / panic while running a concurrent batch is a
			// violation (e.g. "fatal error: concurrent map writes"), not a harness problem
			for _, pat := range []string{"fatal error: concurrent map", "fatal error:", "panic:", "SIGSEGV"} {
				if i := strings.Index(out, pat); i >= 0 && !strings.Contains(out, "out of memory") && !strings.Contains(out, "cannot allocate") {
					end := i + 3000
					if end > len(out) {
						end = len(out)
					}
					rec.Violation(t, bc, "the child process crashed while executing the batch concurrently (engine %s, %d goroutines, GOMAXPROCS %d): %s", host.Engine(bc.Job.Engine), bc.Job.Goroutines, bc.GoMaxProcs, out[i:end])
				}
			}
			rec.Inconclusive(t, "%v", err)
		}
		if br.SetupFail != "" {
			rec.Inconclusive(t, "batch set-up failed: %s", br.SetupFail)
		}
		if len(br.Diffs) > 0 {
			rec.Violation(t, bc, "execution against shared imports differs from the program run alone (engine %s, %d goroutines, GOMAXPROCS %d): %s", host.Engine(bc.Job.Engine), bc.Job.Goroutines, bc.GoMaxProcs, strings.Join(br.Diffs, "; "))
		}
	}

	if p := evid.ReplayFile(); p != "" {
		var bc BatchCase
		if err := evid.LoadReplay(p, &bc); err != nil {
			t.Fatal(err)
		}
		rec.Case(true, "replay")
		// the schedule is not reproducible: many rounds
		bc.Job.Repeat = 40
		for k := 0; k < 5; k++ {
			bc.Job.Seed += int64(k)
			br, out, err := runBatchChild(bc)
			report(bc, br, out, err)
		}
		return
	}

	if !raceBuild() {
		rec.Class("built-without-race-detector")
		if os.Getenv("VERIF_BIN") != "" {
			rec.Inconclusive(t, "C36 must be built with -race (props.d: \"race\": true)")
		}
	}

	fx7 := rec.Known("FX7")
	if fx7 {
		rec.ReportKnown("FX7", fx7StillFails())
	}

	fx8 := rec.Known("FX8")
	if fx8 {
		rec.ReportKnown("FX8", fx8StillFails())
	}

	rnd := evid.Rand(36)
	nBatches := evid.N(10, 96)
	type jobT struct {
		bc BatchCase
	}
	var jobs []jobT
	for b := 0; b < nBatches; b++ {
		if b%evid.Shards() != evid.Shard() {
			// keep the random stream aligned across shards
			_ = execgen.GenBatch(rnd, 8+rnd.Intn(41))
			rnd.Intn(15)
			rnd.Intn(3)
			rnd.Int63()
			continue
		}
		batch := execgen.GenBatch(rnd, 8+rnd.Intn(41))
		g := 2 + rnd.Intn(15)
		gmp := []int{2, 4, 16}[rnd.Intn(3)]
		seed := rnd.Int63()
		eng := host.Engines[b%len(host.Engines)]
		jobs = append(jobs, jobT{BatchCase{Job: execgen.BatchJob{Batch: batch, Engine: int(eng), Goroutines: g, Seed: seed, Repeat: evid.N(3, 4),
			Warm: fx7 && eng != host.Interp}, GoMaxProcs: gmp, SkipFX8: fx8}})
	}
	type outT struct {
		br  *execgen.BatchResult
		out string
		fx8 int
		err error
	}
	outs := make([]outT, len(jobs))
	// phase 1: the references (single-threaded children, 4 at a time); phase 2: the concurrent batches (2 at a time)
	alones := make([][]execgen.StepTrace, len(jobs))
	parallel(len(jobs), 4, func(k int) {
		alones[k], outs[k].br, outs[k].out, outs[k].err = aloneReference(jobs[k].bc)
	})
	parallel(len(jobs), 2, func(k int) {
		if outs[k].err != nil || outs[k].br != nil {
			return
		}
		outs[k].br, outs[k].out, outs[k].fx8, outs[k].err = runBatchAgainst(jobs[k].bc, alones[k])
	})
	loads, hits := 0, 0
	for k, j := range jobs {
		o := outs[k]
		report(j.bc, o.br, o.out, o.err)
		eng := host.Engine(j.bc.Job.Engine)
		for i, p := range j.bc.Job.Batch.Programs {
			for r := 0; r < o.br.Rounds; r++ {
				rec.Case(true, p.Source, eng, j.bc.Job.Goroutines, j.bc.GoMaxProcs)
			}
			rec.Class("program:" + p.Name)
			if lab := "program-" + p.Name; rec.WantSample(lab) {
				rec.Sample(lab, map[string]any{"template": p.Name, "engine": eng.String(), "goroutines": j.bc.Job.Goroutines, "gomaxprocs": j.bc.GoMaxProcs,
					"outcome_alone": o.br.Classes[i], "source": p.Source})
			}
			rec.Class("outcome:" + o.br.Classes[i])
		}
		if j.bc.Job.Warm {
			rec.Excluded("FX7")
		}
		for x := 0; x < outs[k].fx8; x++ {
			rec.Excluded("FX8")
		}
		rec.Class(fmt.Sprintf("engine:%s", eng))
		rec.Class(fmt.Sprintf("gomaxprocs:%d", j.bc.GoMaxProcs))
		rec.Class(fmt.Sprintf("goroutines:%02d-%02d", j.bc.Job.Goroutines/4*4, j.bc.Job.Goroutines/4*4+3))
		loads += o.br.CacheLoads
		hits += o.br.CacheHits
		if rec.WantSample("batch-" + eng.String()) {
			rec.Sample("batch-"+eng.String(), map[string]any{"engine": eng.String(), "goroutines": j.bc.Job.Goroutines, "gomaxprocs": j.bc.GoMaxProcs, "programs": len(j.bc.Job.Batch.Programs),
				"rounds": o.br.Rounds, "first_program": j.bc.Job.Batch.Programs[0].Source, "shared_cache_loads": o.br.CacheLoads, "shared_cache_hits": o.br.CacheHits})
		}
	}
	rec.Extra("batches", len(jobs))
	rec.Extra("shared_cache_loads", loads)
	rec.Extra("shared_cache_hits", hits)
	rec.Extra("race_detector", raceBuild())
	if hits == 0 {
		rec.Inconclusive(t, "the shared program cache was never hit: nothing was shared")
	}
}
