package exec

import (
	"sort"
	"sync"
	"testing"

	"verif/lib/execgen"
)

// TestChildExec is the entry point of the child worker processes (C30, C31,
// C33): the parent re-executes the test binary with -test.run=^TestChildExec$
// and VERIF_EXEC_CHILD=1 and sends a job on stdin.
func TestChildExec(t *testing.T) {
	if !execgen.IsChild() {
		t.Skip("child worker entry point")
	}
	execgen.ChildMain()
}

// parallel runs f(i) for i in [0,n) on at most w goroutines.
func parallel(n, w int, f func(i int)) {
	if w < 1 {
		w = 1
	}
	var wg sync.WaitGroup
	ch := make(chan int)
	for k := 0; k < w; k++ {
		wg.Add(1)
		go func() {
			defer wg.Done()
			for i := range ch {
				f(i)
			}
		}()
	}
	for i := 0; i < n; i++ {
		ch <- i
	}
	close(ch)
	wg.Wait()
}

// itemNames is a compact description of a list of items.
func itemNames(items []execgen.Item) []string {
	out := make([]string, len(items))
	for i, it := range items {
		out[i] = it.Name
	}
	return out
}

func sortedStrings(s []string) []string {
	sort.Strings(s)
	return s
}
