package exec

import (
	"fmt"
	"testing"

	"github.com/onflow/cadence/common"
	"verif/lib/host"
)

func TestProbeAddRemove(t *testing.T) {
	for _, e := range host.Engines {
		for _, noval := range []bool{false, true} {
			h := host.New()
			r := h.Tx(`transaction { prepare(a: auth(Contracts) &Account) { a.contracts.add(name: "T", code: "access(all) contract T {}".utf8); a.contracts.remove(name: "T") } }`, nil, []common.Address{host.Addr(1)}, host.Options{Engine: e, NoAtreeValidation: noval})
			fmt.Println(e, noval, host.Classify(r).Class, r.Err)
			fmt.Println(len(h.Ledger.SortedKeys()))
		}
	}
}
