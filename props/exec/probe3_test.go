package exec

import (
	"fmt"
	"strings"
	"testing"

	"verif/lib/evid"
	"verif/lib/execgen"
	"verif/lib/host"
)

func TestProbeCCF(t *testing.T) {
	t.Setenv("VERIF_SCALE", "0.5")
	for _, it := range execgen.Generated(evid.Rand(33), evid.N(7, 60)) {
		for _, e := range host.Engines {
			tr := execgen.RunTrace(it, execgen.RunOpts{Engine: e})
			for i, s := range tr.Steps {
				if strings.HasPrefix(s.ValueCCF, "!") {
					fmt.Printf("%s %s step %d: %s\nvalue=%s\nsrc=%s\n", it.Name, e, i, s.ValueCCF, s.Value, it.Hist.Steps[i].Source)
				}
			}
		}
	}
}
