package exec

import (
	"fmt"
	"math/rand"
	"testing"

	"verif/lib/execgen"
	"verif/lib/host"
)

func TestProbeGen(t *testing.T) {
	bad := 0
	for _, it := range execgen.Generated(rand.New(rand.NewSource(1)), 80) {
		for _, e := range host.Engines {
			runs, _ := execgen.Run(it, execgen.RunOpts{Engine: e, FaultStep: -1})
			for i, r := range runs {
				info := host.Classify(r.Res)
				st := it.Hist.Steps[i]
				if (info.Class != "ok") != st.MayFail {
					bad++
					if bad < 12 {
					fmt.Printf("%s %s step %d %s\n%s\n   err: %.600s\n", it.Name, e, i, info.Class, st.Source, fmt.Sprint(r.Res.Err, r.Res.Panic))
					}
				}
			}
		}
	}
	fmt.Println("bad", bad)
}
