package exec

import (
	"fmt"
	"sort"
	"testing"

	"verif/lib/execgen"
	"verif/lib/host"
)

func TestProbeCorpus(t *testing.T) {
	kinds := map[string]int{}
	for _, it := range execgen.FullCorpus() {
		for _, e := range host.Engines {
			runs, _ := execgen.Run(it, execgen.RunOpts{Engine: e, FaultStep: -1})
			for i, r := range runs {
				info := host.Classify(r.Res)
				st := it.Hist.Steps[i]
				flag := ""
				if (info.Class != "ok") != st.MayFail {
					flag = "  <<<<<<<< UNEXPECTED"
				}
				fmt.Printf("%-28s %-11s step %d %-6s %-8s v=%.80s logs=%d ev=%d wr=%d calls=%d%s\n", it.Name, e, i, st.Kind, info.Class, host.ExportJSON(r.Res.Value), len(r.Res.Logs), len(r.Res.Events), len(r.Res.Writes), len(r.Res.Trace), flag)
				if info.Class != "ok" {
					fmt.Printf("      err: %.300s\n", fmt.Sprint(r.Res.Err, r.Res.Panic))
				}
				for _, c := range r.Res.Trace {
					kinds[c.Kind]++
				}
			}
		}
	}
	var ks []string
	for k := range kinds {
		ks = append(ks, k)
	}
	sort.Strings(ks)
	for _, k := range ks {
		fmt.Printf("%-36s %d\n", k, kinds[k])
	}
}
