//go:build race

package exec

const raceEnabled = true
