package exec

import (
	"fmt"
	"testing"
	"time"

	"verif/lib/execgen"
	"verif/lib/host"
	"verif/lib/prog"
)

func TestTmpRepl(t *testing.T) {
	for _, src := range []string{
		`access(all) fun main(): Int { var s = "aaaaaaaa"; while s.length < %d { s = s.replaceAll(of: "a", with: "aa") }; return s.length }`,
		`access(all) fun main(): Int { var s = "ab,cd,ef"; while s.length < %d { let parts = s.split(separator: ","); s = String.join(parts.concat(parts), separator: ",") }; return s.length }`,
		`access(all) fun main(): Int { var s = "ab,cd,ef"; var n = 0; while s.length < %d { s = s.concat(s) }; return s.split(separator: ",").length }`,
	} {
		for _, n := range []int{1000, 10000, 100000, 400000} {
			for _, eng := range host.Engines {
				it := execgen.Item{Name: "x", Hist: prog.History{Steps: []prog.Step{{Kind: prog.Script, Source: fmt.Sprintf(src, n), MayFail: true}}}}
				t0 := time.Now()
				br := execgen.RunBound(execgen.BoundCase{Item: it, Engine: int(eng)})
				fmt.Printf("n=%-7d %-11s %-5s memtotal=%-10d comptotal=%-8d %v %.80s\n", n, eng, br.Class, br.MemTotal, br.CompTotal, time.Since(t0), br.ErrMsg)
			}
		}
	}
}
