package exec

import (
	"fmt"
	"math/rand"
	"testing"
	"time"

	"verif/lib/execgen"
	"verif/lib/host"
)

func TestTmpGrowth(t *testing.T) {
	cases := execgen.GrowthCases(rand.New(rand.NewSource(1)), 0)
	var free []execgen.BoundCase
	for _, bc := range cases {
		f := bc
		f.MemLimit = 0
		free = append(free, f)
	}
	lim := runBoundJobs(cases, 60*time.Second, 6)
	unl := runBoundJobs(free, 60*time.Second, 6)
	for i, bc := range cases {
		l, u := lim[i], unl[i]
		ls, us := "TIMEOUT/CRASH", "TIMEOUT/CRASH"
		if l.br != nil {
			ls = fmt.Sprintf("%-5s %-38s %6dms memtotal=%-9d", l.br.Class, l.br.Root, l.br.Millis, l.br.MemTotal)
		}
		if u.br != nil {
			us = fmt.Sprintf("%-5s %6dms memtotal=%-10d %.120s", u.br.Class, u.br.Millis, u.br.MemTotal, u.br.ErrMsg)
		}
		fmt.Printf("%-28s %-11s mem=%-7d -> %s | unlimited: %s\n", bc.Seed, host.Engine(bc.Engine), bc.MemLimit, ls, us)
	}
}
