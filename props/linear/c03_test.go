package linear

import (
	"fmt"
	"math/rand"
	"strings"
	"sync"
	"testing"

	"github.com/onflow/cadence/common"
	"github.com/onflow/cadence/parser"
	"github.com/onflow/cadence/sema"
	"github.com/onflow/cadence/stdlib"

	"verif/lib/evid"
)

// C03: the checker rejects every resource-linearity violation and accepts the linear fragment.

// ---------------------------------------------------------------- generator

// gen builds programs. With eps == 0 and defectAt < 0 every program is linear by construction; defectAt ≥ 0 makes
// exactly one deliberate mistake at that decision point (when one is applicable); eps > 0 makes independent random mistakes.
type gen struct {
	r        *rand.Rand
	eps      float64
	defectAt int
	decision int
	defect   string // kind of the mistake made (defect mode)
	nvar     int
	nfun     int
	types    map[string]string
	lets     map[string]bool
	budget   int
	maxDepth int
}

type scopeEnv struct {
	visible []string // all declared variables visible here (live or dead), in declaration order
	live    []string // visible variables currently holding a resource
	funLive int      // number of live resources of the whole function outside `live`'s view is not needed: live is function-wide
	funs    []string
}

func (g *gen) mistake(kind string) bool {
	return g.mistakeIf(true, kind)
}

// mistakeIf counts a decision point only when the mistake is applicable there.
func (g *gen) mistakeIf(applicable bool, kind string) bool {
	if !applicable {
		return false
	}
	g.decision++
	if g.defectAt >= 0 {
		if g.decision == g.defectAt && g.defect == "" {
			g.defect = kind
			return true
		}
		return false
	}
	return g.eps > 0 && g.r.Float64() < g.eps
}

func (g *gen) newVar(t string) string {
	g.nvar++
	name := fmt.Sprintf("r%d", g.nvar)
	g.types[name] = t
	g.lets[name] = g.r.Intn(2) == 0
	return name
}

func remove(ss []string, v string) []string {
	out := make([]string, 0, len(ss))
	for _, s := range ss {
		if s != v {
			out = append(out, s)
		}
	}
	return out
}

func contains(ss []string, v string) bool {
	for _, s := range ss {
		if s == v {
			return true
		}
	}
	return false
}

// consumeStmt emits statements that consume v (directly, or by moving it into a new variable that is then consumed
// later: the new variable is returned as still live).
func (g *gen) consumeStmt(v string, visible *[]string) (stmts []Stmt, newLive []string) {
	t := g.types[v]
	switch k := g.r.Intn(10); {
	case k < 4:
		return []Stmt{{K: "destroy", V: v}}, nil
	case k < 7:
		return []Stmt{{K: "consume", V: v}}, nil
	case k < 8:
		nt := t
		if t == "R" && g.r.Intn(2) == 0 {
			nt = "O"
		}
		n := g.newVar(nt)
		*visible = append(*visible, n)
		return []Stmt{{K: "move", V: n, S: []string{v}, T: nt, Let: g.lets[n]}}, []string{n}
	case k < 9 && t == "R":
		n := g.newVar("A")
		*visible = append(*visible, n)
		return []Stmt{{K: "arr", V: n, S: []string{v}, T: "A", Let: g.lets[n]}}, []string{n}
	default:
		return []Stmt{{K: "destroy", V: v}}, nil
	}
}

type blockCtx struct {
	depth     int
	inLoop    bool
	loopLive  []string // live variables declared inside the innermost loop (must be dead at break/continue)
	inFun     bool
	funOuter  []string // visible names of the enclosing function (capturable) when inside a nested function
	funsKnown []string
	// inSwitch: the innermost breakable construct is a switch case; switchLive are the live variables that must be dead
	// when a `break` leaves the case (case locals and the outer variables the case has to consume)
	inSwitch   bool
	switchLive []string
}

// block generates a block. `outerLive` are live variables declared outside the block; `required` ⊆ outerLive must be
// consumed by the block (on every path that falls out of its end), the others must stay untouched. allLive is every live
// resource of the function (for return). Returns the statements and whether the block ends in a terminator.
// The second result says how the block ends: "" falls out of its end, "leave" every path leaves the enclosing switch/function
// (return, panic, loop jump), "swbreak" ends in a `break` that continues behind the enclosing switch.
func (g *gen) block(visibleIn []string, outerLive []string, required []string, bc blockCtx) (stmts []Stmt, term string) {
	visible := append([]string(nil), visibleIn...)
	live := append([]string(nil), outerLive...) // function-wide live set as seen here
	var locals []string                          // live locals of this block
	pending := append([]string(nil), required...)
	loopLive := append([]string(nil), bc.loopLive...)
	switchLive := append([]string(nil), bc.switchLive...)
	n := 1 + g.r.Intn(5)
	if bc.depth >= g.maxDepth {
		n = g.r.Intn(3)
	}
	consumable := func() []string { return append(append([]string(nil), locals...), pending...) }
	markDead := func(v string) {
		live = remove(live, v)
		locals = remove(locals, v)
		pending = remove(pending, v)
		loopLive = remove(loopLive, v)
		switchLive = remove(switchLive, v)
	}
	addLocal := func(v string) {
		live = append(live, v)
		locals = append(locals, v)
		if bc.inLoop {
			loopLive = append(loopLive, v)
		}
		if bc.inSwitch {
			switchLive = append(switchLive, v)
		}
	}
	emitConsume := func(v string) {
		ss, nl := g.consumeStmt(v, &visible)
		stmts = append(stmts, ss...)
		markDead(v)
		for _, x := range nl {
			addLocal(x)
		}
	}
	for i := 0; i < n && g.budget > 0; i++ {
		g.budget--
		switch k := g.r.Intn(20); {
		case k < 4: // new resource
			t := []string{"R", "R", "R", "A", "O"}[g.r.Intn(5)]
			v := g.newVar(t)
			visible = append(visible, v)
			stmts = append(stmts, Stmt{K: "new", V: v, T: t, Let: g.lets[v]})
			addLocal(v)
		case k < 7: // consume something
			cs := consumable()
			var deadv []string // visible variables that are not live (already consumed)
			for _, v := range visible {
				if !contains(live, v) {
					deadv = append(deadv, v)
				}
			}
			if g.mistakeIf(len(deadv) > 0, "use-dead") {
				v := deadv[g.r.Intn(len(deadv))]
				if g.r.Intn(4) == 0 && !g.lets[v] {
					// swap of a dead variable with a live one of the same type
					for _, w := range live {
						if g.types[w] == g.types[v] && !g.lets[w] {
							if g.r.Intn(2) == 0 {
								stmts = append(stmts, Stmt{K: "swap", V: v, S: []string{w}})
							} else {
								stmts = append(stmts, Stmt{K: "swap", V: w, S: []string{v}})
							}
							break
						}
					}
					if len(stmts) > 0 && stmts[len(stmts)-1].K == "swap" {
						continue
					}
				}
				stmts = append(stmts, Stmt{K: []string{"destroy", "consume", "use"}[g.r.Intn(3)], V: v})
				continue
			}
			if g.mistakeIf(len(live) > len(cs), "untouchable") {
				// consume a live variable this block must not touch (outer variable in a loop body / other branch set)
				var others []string
				for _, v := range live {
					if !contains(cs, v) {
						others = append(others, v)
					}
				}
				v := others[g.r.Intn(len(others))]
				stmts = append(stmts, Stmt{K: "destroy", V: v})
				live = remove(live, v)
				continue
			}
			if len(cs) == 0 {
				continue
			}
			emitConsume(cs[g.r.Intn(len(cs))])
		case k < 9: // use
			if len(live) > 0 {
				stmts = append(stmts, Stmt{K: "use", V: live[g.r.Intn(len(live))]})
			}
		case k < 10: // swap two live variables of the same type
			var cand [][2]string
			for i, x := range live {
				for _, y := range live[i+1:] {
					if g.types[x] == g.types[y] && !g.lets[x] && !g.lets[y] {
						cand = append(cand, [2]string{x, y})
					}
				}
			}
			if len(cand) > 0 {
				p := cand[g.r.Intn(len(cand))]
				stmts = append(stmts, Stmt{K: "swap", V: p[0], S: []string{p[1]}})
			}
		case k < 11: // overwrite (only as a mistake)
			target := ""
			for _, v := range live {
				if g.types[v] == "R" && !g.lets[v] {
					target = v
				}
			}
			if g.mistakeIf(target != "", "overwrite") {
				stmts = append(stmts, Stmt{K: "assign", V: target})
			}
		case k < 15 && bc.depth < g.maxDepth: // if / if-let
			cs := consumable()
			var sub []string
			for _, v := range cs {
				if g.r.Intn(2) == 0 {
					sub = append(sub, v)
				}
			}
			st := Stmt{K: "if", E: g.r.Intn(3) > 0}
			// optional binding when an optional is available
			var bound string
			for _, v := range sub {
				if g.types[v] == "O" && g.r.Intn(2) == 0 {
					bound = v
					break
				}
			}
			thenReq, elseReq := append([]string(nil), sub...), append([]string(nil), sub...)
			visThen := visible
			liveThen, liveElse := live, live
			if bound != "" {
				y := g.newVar("R")
				st = Stmt{K: "iflet", V: y, S: []string{bound}, Let: g.lets[y], E: true}
				thenReq = append(remove(thenReq, bound), y)
				elseReq = remove(elseReq, bound)
				visThen = append(append([]string(nil), visible...), y)
				liveThen = append(remove(append([]string(nil), live...), bound), y)
				liveElse = remove(append([]string(nil), live...), bound)
			}
			if !st.E && len(sub) > 0 && bound == "" {
				st.E = true // without an else branch nothing outer may be consumed
			}
			if g.mistakeIf(len(elseReq) > 0, "branch-mismatch") {
				elseReq = elseReq[1:]
			}
			sub2 := blockCtx{depth: bc.depth + 1, inLoop: bc.inLoop, loopLive: loopLive, inFun: bc.inFun, funOuter: bc.funOuter, funsKnown: bc.funsKnown,
				inSwitch: bc.inSwitch, switchLive: switchLive}
			if bound != "" {
				// the bound variable is declared inside the loop iteration if we are in a loop
				l2 := remove(append([]string(nil), loopLive...), bound)
				if bc.inLoop {
					sub2.loopLive = append(l2, st.V)
				}
				if bc.inSwitch {
					sub2.switchLive = append(remove(append([]string(nil), switchLive...), bound), st.V)
				}
			}
			var tt, et string
			st.A, tt = g.block(visThen, liveThen, thenReq, sub2)
			sub3 := sub2
			sub3.loopLive = remove(append([]string(nil), loopLive...), bound)
			sub3.switchLive = remove(append([]string(nil), switchLive...), bound)
			if st.E {
				st.B, et = g.block(visible, liveElse, elseReq, sub3)
			}
			stmts = append(stmts, st)
			for _, v := range sub {
				markDead(v)
			}
			if tt != "" && et != "" && st.E {
				if tt == "leave" && et == "leave" {
					return stmts, "leave"
				}
				return stmts, "swbreak"
			}
		case k == 15 && bc.depth < g.maxDepth && g.r.Intn(2) == 0: // switch: every case (and the default) consumes the same outer set
			cs := consumable()
			var sub []string
			for _, v := range cs {
				if g.r.Intn(2) == 0 {
					sub = append(sub, v)
				}
			}
			ncase := 1 + g.r.Intn(3)
			hasDefault := len(sub) > 0 || g.r.Intn(2) == 0
			st := Stmt{K: "switch"}
			allLeave := hasDefault
			for ci := 0; ci < ncase+1; ci++ {
				isDefault := ci == ncase
				if isDefault && !hasDefault {
					break
				}
				req := append([]string(nil), sub...)
				if g.mistakeIf(len(req) > 0, "branch-mismatch") {
					req = req[1:]
				}
				sl := append(append([]string(nil), switchLiveFor(bc, switchLive)...), req...)
				body, tm := g.block(visible, live, req, blockCtx{depth: bc.depth + 1, inLoop: bc.inLoop, loopLive: loopLive, inFun: bc.inFun,
					funOuter: bc.funOuter, funsKnown: bc.funsKnown, inSwitch: true, switchLive: uniq(sl)})
				if tm != "leave" {
					allLeave = false
				}
				if len(body) == 0 {
					body = []Stmt{{K: "break"}} // a switch case needs at least one statement
				}
				st.A = append(st.A, Stmt{K: "case", E: isDefault, A: body})
			}
			stmts = append(stmts, st)
			for _, v := range sub {
				markDead(v)
			}
			if allLeave {
				return stmts, "leave"
			}
		case k < 17 && bc.depth < g.maxDepth: // loop: the body may not consume outer resources
			kind := "while"
			if g.r.Intn(3) == 0 {
				kind = "for"
			}
			body, _ := g.block(visible, live, nil, blockCtx{depth: bc.depth + 1, inLoop: true, loopLive: nil, inFun: bc.inFun, funOuter: bc.funOuter, funsKnown: bc.funsKnown})
			stmts = append(stmts, Stmt{K: kind, A: body})
		case k < 18 && bc.depth < g.maxDepth && !bc.inFun: // nested function with its own resources
			g.nfun++
			name := fmt.Sprintf("f%d", g.nfun)
			body, _ := g.block(nil, nil, nil, blockCtx{depth: bc.depth + 1, inFun: true, funOuter: visible})
			if g.mistakeIf(len(live) > 0, "capture") {
				body = append([]Stmt{{K: "use", V: live[g.r.Intn(len(live))]}}, body...)
			}
			stmts = append(stmts, Stmt{K: "fun", V: name, A: body})
			if g.r.Intn(2) == 0 {
				stmts = append(stmts, Stmt{K: "call", V: name})
			}
		default: // terminator
			if bc.depth == 0 && g.r.Intn(3) > 0 {
				continue
			}
			switch t := g.r.Intn(7); {
			case t == 6 && bc.inSwitch: // break out of the switch case: everything the case owns must be gone
				early := g.mistakeIf(len(switchLive) > 0, "early-jump")
				if !early {
					for _, v := range append([]string(nil), switchLive...) {
						if contains(locals, v) || contains(pending, v) {
							emitConsume(v)
						}
					}
					for len(locals) > 0 {
						emitConsume(locals[0])
					}
					if len(switchLive) > 0 {
						continue
					}
				}
				stmts = append(stmts, Stmt{K: "break"})
				return stmts, "swbreak"
			case t < 2 && bc.inLoop: // break / continue: every resource of the iteration must be gone
				kind := []string{"break", "continue"}[g.r.Intn(2)]
				if bc.inSwitch {
					kind = "continue" // a break here would only leave the switch
				}
				early := g.mistakeIf(len(loopLive) > 0, "early-jump")
				if !early {
					for _, v := range append([]string(nil), loopLive...) {
						if contains(locals, v) || contains(pending, v) {
							emitConsume(v)
						}
					}
					// consuming may have created new locals
					for len(locals) > 0 {
						emitConsume(locals[0])
					}
					if len(loopLive) > 0 {
						continue // something of the iteration is live that this block may not touch
					}
				}
				stmts = append(stmts, Stmt{K: kind})
				return stmts, "leave"
			case t < 4: // return: every resource of the function must be gone
				early := g.mistakeIf(len(live) > 0, "early-return")
				if !early {
					for len(locals)+len(pending) > 0 {
						emitConsume(consumable()[0])
					}
					if len(live) > 0 {
						continue
					}
				}
				stmts = append(stmts, Stmt{K: "return"})
				return stmts, "leave"
			case t < 6:
				stmts = append(stmts, Stmt{K: "panic"})
				return stmts, "leave"
			}
		}
	}
	// end of block: everything local and everything required must be consumed
	for len(locals)+len(pending) > 0 {
		v := consumable()[0]
		if g.mistake("drop") {
			markDead(v) // forget it
			continue
		}
		emitConsume(v)
		if g.mistake("double") {
			stmts = append(stmts, Stmt{K: "destroy", V: v})
		}
	}
	return stmts, ""
}

// switchLiveFor: a switch nested in a switch case starts a new break target, the outer case's obligations do not apply to
// a break of the inner switch.
func switchLiveFor(bc blockCtx, cur []string) []string { return nil }

func uniq(ss []string) []string {
	var out []string
	for _, s := range ss {
		if !contains(out, s) {
			out = append(out, s)
		}
	}
	return out
}

func (g *gen) program() *Program {
	g.types, g.lets = map[string]string{}, map[string]bool{}
	g.nvar, g.nfun, g.decision, g.defect = 0, 0, 0, ""
	g.budget = 28
	body, term := g.block(nil, nil, nil, blockCtx{})
	if term == "" && g.r.Intn(8) == 0 {
		// tail position only: the checker treats the statement as a definite halt and would call anything behind it unreachable
		body = append(body, Stmt{K: "maybehalt"})
	}
	return &Program{Body: body}
}

// ---------------------------------------------------------------- checker side

var (
	actOnce sync.Once
	baseAct *sema.VariableActivation
)

func baseActivation() *sema.VariableActivation {
	actOnce.Do(func() {
		baseAct = sema.NewVariableActivation(sema.BaseValueActivation)
		baseAct.DeclareValue(stdlib.InterpreterPanicFunction)
	})
	return baseAct
}

type checkResult struct {
	Resource []string // resource-linearity errors (type names)
	Other    []string // any other error
	Panic    any
}

func isResourceError(err error) bool {
	switch err.(type) {
	case *sema.ResourceLossError, *sema.ResourceUseAfterInvalidationError, *sema.ResourceFieldNotInvalidatedError,
		*sema.ResourceCapturingError, *sema.InvalidResourceAssignmentError, *sema.MissingMoveOperationError,
		*sema.InvalidNestedResourceMoveError, *sema.InvalidatedResourceReferenceError:
		return true
	}
	return false
}

func check(src string) (res checkResult) {
	defer func() {
		if r := recover(); r != nil {
			res.Panic = r
		}
	}()
	prog, err := parser.ParseProgram(nil, []byte(src), parser.Config{})
	if err != nil {
		res.Other = append(res.Other, "parse: "+err.Error())
		return
	}
	act := baseActivation()
	checker, err := sema.NewChecker(prog, common.StringLocation("c03"), nil, &sema.Config{
		AccessCheckMode:            sema.AccessCheckModeStrict,
		BaseValueActivationHandler: func(common.Location) *sema.VariableActivation { return act },
	})
	if err != nil {
		res.Other = append(res.Other, err.Error())
		return
	}
	err = checker.Check()
	if err == nil {
		return
	}
	ce, ok := err.(*sema.CheckerError)
	if !ok {
		res.Other = append(res.Other, err.Error())
		return
	}
	for _, e := range ce.Errors {
		name := strings.TrimPrefix(fmt.Sprintf("%T", e), "*sema.")
		if isResourceError(e) {
			res.Resource = append(res.Resource, name)
		} else {
			res.Other = append(res.Other, name+": "+e.Error())
		}
	}
	return
}

// ---------------------------------------------------------------- the property

type c03Case struct {
	Mode    string   `json:"mode"`
	Defect  string   `json:"defect,omitempty"`
	Program *Program `json:"program"`
	Source  string   `json:"source,omitempty"`
}

// judge compares oracle and checker. Returns "" / violation text, and the cell of the 2×2 table.
func judge(p *Program, knownGap bool) (msg string, cell string, v Verdict, cr checkResult) {
	v = Analyse(p)
	if v.IsOutside() {
		return "", "outside", v, cr
	}
	cr = check(p.Print())
	if cr.Panic != nil {
		return fmt.Sprintf("checker panicked: %v", cr.Panic), "panic", v, cr
	}
	rejected := len(cr.Resource) > 0
	switch {
	case v.IsBad() && rejected:
		return "", "bad/rejected", v, cr
	case v.IsBad() && !rejected:
		if len(cr.Other) > 0 {
			return "", "bad/other-error-only", v, cr
		}
		if knownJumpHalt && p.matchesJumpBeforeHaltUnsoundness() && allLoss(v.Bad) {
			return "", "bad/accepted-FS46", v, cr
		}
		if knownSwitchBreak && p.matchesSwitchBreakUnsoundness() {
			return "", "bad/accepted-FS45", v, cr
		}
		if knownMaybeHalt && p.contains("maybehalt") && allLoss(v.Bad) {
			return "", "bad/accepted-FS44", v, cr
		}
		if knownLoopHalt && p.matchesLoopHaltUnsoundness() && (allDead(v.Bad) || knownMaybeHalt && p.contains("maybehalt")) {
			return "", "bad/accepted-FS28", v, cr
		}
		return fmt.Sprintf("checker ACCEPTS a program with a linearity violation: %s", strings.Join(v.Bad, "; ")), "bad/accepted", v, cr
	case !v.IsBad() && rejected:
		if knownGap && p.matchesLoopJumpGap() {
			return "", "good/rejected-FS24", v, cr
		}
		if knownLoopReturnJump && p.matchesLoopReturnJumpGap() {
			return "", "good/rejected-FS39", v, cr
		}
		if knownNestedReturnGap && p.matchesNestedReturnGap() && onlyLoss(cr.Resource) {
			return "", "good/rejected-FS27", v, cr
		}
		if knownHaltBranchGap && p.matchesHaltBranchGap() {
			return "", "good/rejected-FS26", v, cr
		}
		if knownHaltGap && (v.PanicWithLive || p.hasExitingScopeWithLocal()) && p.hasJump() && onlyLoss(cr.Resource) {
			// FS25: once a break/continue was seen (ReturnInfo.MaybeJumped), the scope-end loss check is no longer
			// suppressed for a block that halts with panic, so a resource that is live at the panic is reported as lost
			return "", "good/rejected-FS25", v, cr
		}
		return fmt.Sprintf("checker REJECTS a linear program of the fragment: %s", strings.Join(cr.Resource, ", ")), "good/rejected", v, cr
	default:
		if len(cr.Other) > 0 {
			return "", "good/other-error", v, cr
		}
		return "", "good/accepted", v, cr
	}
}

var knownHaltGap, knownHaltBranchGap, knownNestedReturnGap, knownLoopHalt, knownLoopReturnJump bool

var knownSwitchBreak, knownMaybeHalt, knownJumpHalt bool

func allLoss(reasons []string) bool {
	for _, r := range reasons {
		if !strings.HasPrefix(r, "loss:") {
			return false
		}
	}
	return len(reasons) > 0
}

func allDead(reasons []string) bool {
	for _, r := range reasons {
		if !strings.HasPrefix(r, "dead:") {
			return false
		}
	}
	return len(reasons) > 0
}

func onlyLoss(errs []string) bool {
	for _, e := range errs {
		if e != "ResourceLossError" {
			return false
		}
	}
	return len(errs) > 0
}

// shrink removes statements / unwraps blocks while the same kind of disagreement persists.
func shrink(p *Program, keep func(*Program) bool) *Program {
	cur := p
	for round := 0; round < 30; round++ {
		progress := false
		var paths [][]int
		var collect func(ss []Stmt, prefix []int)
		collect = func(ss []Stmt, prefix []int) {
			for i := range ss {
				pp := append(append([]int(nil), prefix...), i)
				paths = append(paths, pp)
				collect(ss[i].A, append(append([]int(nil), pp...), -1))
				collect(ss[i].B, append(append([]int(nil), pp...), -2))
			}
		}
		collect(cur.Body, nil)
		for i := len(paths) - 1; i >= 0; i-- {
			cand := deleteAt(cur, paths[i])
			if cand != nil && keep(cand) {
				cur = cand
				progress = true
				break
			}
		}
		if !progress {
			break
		}
	}
	return cur
}

func cloneStmts(ss []Stmt) []Stmt {
	out := make([]Stmt, len(ss))
	for i, s := range ss {
		out[i] = s
		out[i].S = append([]string(nil), s.S...)
		out[i].A = cloneStmts(s.A)
		out[i].B = cloneStmts(s.B)
	}
	return out
}

// deleteAt removes the statement addressed by path (indices, -1 = into A, -2 = into B).
func deleteAt(p *Program, path []int) *Program {
	body := cloneStmts(p.Body)
	var rec func(ss []Stmt, path []int) ([]Stmt, bool)
	rec = func(ss []Stmt, path []int) ([]Stmt, bool) {
		i := path[0]
		if i < 0 || i >= len(ss) {
			return ss, false
		}
		if len(path) == 1 {
			return append(ss[:i:i], ss[i+1:]...), true
		}
		var ok bool
		if path[1] == -1 {
			ss[i].A, ok = rec(ss[i].A, path[2:])
		} else {
			ss[i].B, ok = rec(ss[i].B, path[2:])
		}
		return ss, ok
	}
	nb, ok := rec(body, path)
	if !ok {
		return nil
	}
	return &Program{Body: nb}
}

func TestC03(t *testing.T) {
	rec := evid.Start(t, "C03", "mini-AST programs of the resource fragment (let/var bindings of @R, @[R], @R?; moves into variables, arrays, optionals, "+
		"function arguments; destroy; references as uses; swap; if/else; if-let; while/for with break/continue; return; panic; nested functions) generated "+
		"(i) linear by construction, (ii) with exactly one deliberate mistake (use of a dead variable, consuming an untouchable outer variable, branch mismatch, "+
		"dropped or doubled destroy, early return/break/continue, overwrite, capture), (iii) with independent random mistakes; judged by an independent analysis "+
		"that propagates the exact set of {unbound, live, dead} variable states along all paths (loops to a fixpoint). Checker must report a resource error iff the "+
		"oracle finds a violation and no error at all for linear programs. Non-trivial: ≥ 2 resources, ≥ 1 branch or loop, nesting depth ≥ 2. Distinct by program text.")
	knownGap := rec.Known("FS24")
	knownHaltGap = rec.Known("FS25") && evid.ReplayFile() == ""
	replaying := evid.ReplayFile() != ""
	knownSwitchBreak, knownMaybeHalt = false, false
	if rec.Known("FS45") && !replaying {
		m, _, _, _ := judge(&Program{Body: []Stmt{
			{K: "new", V: "q", T: "R", Let: true},
			{K: "switch", A: []Stmt{{K: "case", A: []Stmt{{K: "destroy", V: "q"}, {K: "if", A: []Stmt{{K: "break"}}}, {K: "return"}}}}},
			{K: "destroy", V: "q"},
		}}, false)
		rec.ReportKnown("FS45", m != "")
		knownSwitchBreak = true
	}
	knownJumpHalt = false
	if rec.Known("FS46") && !replaying {
		m, _, _, _ := judge(&Program{Body: []Stmt{{K: "while", A: []Stmt{
			{K: "new", V: "q", T: "R", Let: true},
			{K: "if", E: true, A: []Stmt{{K: "if", A: []Stmt{{K: "break"}}}, {K: "panic"}}, B: []Stmt{{K: "destroy", V: "q"}}},
		}}}}, false)
		rec.ReportKnown("FS46", m != "")
		knownJumpHalt = true
	}
	if rec.Known("FS44") && !replaying {
		m, _, _, _ := judge(&Program{Body: []Stmt{{K: "new", V: "q", T: "R", Let: true}, {K: "maybehalt"}}}, false)
		rec.ReportKnown("FS44", m != "")
		knownMaybeHalt = true
	}
	knownLoopReturnJump = rec.Known("FS39") && evid.ReplayFile() == ""
	if knownLoopReturnJump {
		knownLoopReturnJump = false
		m, _, _, _ := judge(&Program{Body: []Stmt{
			{K: "new", V: "q", T: "R", Let: true},
			{K: "while", A: []Stmt{{K: "if", A: []Stmt{{K: "continue"}}}, {K: "destroy", V: "q"}, {K: "return"}}},
			{K: "destroy", V: "q"},
		}}, false)
		knownLoopReturnJump = true
		rec.ReportKnown("FS39", m != "")
	}
	knownLoopHalt = rec.Known("FS28") && evid.ReplayFile() == ""
	if knownLoopHalt {
		knownLoopHalt = false
		m, _, _, _ := judge(&Program{Body: []Stmt{
			{K: "new", V: "q", T: "R", Let: true},
			{K: "while", A: []Stmt{{K: "destroy", V: "q"}}},
			{K: "panic"},
		}}, false)
		knownLoopHalt = true
		rec.ReportKnown("FS28", m != "")
	}
	knownNestedReturnGap = rec.Known("FS27") && evid.ReplayFile() == ""
	if knownNestedReturnGap {
		knownNestedReturnGap = false
		m, _, _, _ := judge(&Program{Body: []Stmt{
			{K: "new", V: "q", T: "R", Let: true},
			{K: "if", E: true, A: []Stmt{{K: "if", E: true, A: []Stmt{{K: "destroy", V: "q"}, {K: "return"}}, B: []Stmt{{K: "destroy", V: "q"}, {K: "return"}}}},
				B: []Stmt{{K: "destroy", V: "q"}}},
		}}, false)
		knownNestedReturnGap = true
		rec.ReportKnown("FS27", m != "")
	}
	knownHaltBranchGap = rec.Known("FS26") && evid.ReplayFile() == ""
	if knownHaltBranchGap {
		knownHaltBranchGap = false
		m, _, _, _ := judge(&Program{Body: []Stmt{
			{K: "new", V: "q", T: "R", Let: true},
			{K: "if", A: []Stmt{{K: "destroy", V: "q"}, {K: "panic"}}},
			{K: "destroy", V: "q"},
		}}, false)
		knownHaltBranchGap = true
		rec.ReportKnown("FS26", m != "")
	}
	if knownHaltGap {
		knownHaltGap = false
		m, _, _, _ := judge(&Program{Body: []Stmt{{K: "while", A: []Stmt{
			{K: "if", A: []Stmt{{K: "continue"}}},
			{K: "new", V: "q", T: "R", Let: true},
			{K: "panic"},
		}}}}, false)
		knownHaltGap = true
		rec.ReportKnown("FS25", m != "")
	}
	if f := evid.ReplayFile(); f != "" {
		var c c03Case
		if err := evid.LoadReplay(f, &c); err != nil {
			t.Fatalf("bad replay file: %v", err)
		}
		if msg, _, _, _ := judge(c.Program, false); msg != "" {
			rec.Violation(t, c, "%s", msg)
		}
		return
	}
	if knownGap {
		gap := &Program{Body: []Stmt{{K: "while", A: []Stmt{
			{K: "new", V: "q", T: "R", Let: true},
			{K: "if", A: []Stmt{{K: "destroy", V: "q"}, {K: "continue"}}},
			{K: "destroy", V: "q"},
		}}}}
		m, _, _, _ := judge(gap, false)
		rec.ReportKnown("FS24", m != "")
	}
	// systematic enumeration (every run, shard 0): all if/else shapes inside a loop — each branch one of nine behaviours, the
	// resource declared inside or before the loop, and a destroy behind the if / behind the loop or none
	if evid.Shard() == 0 {
		kinds := map[string][]Stmt{
			"fallthrough": nil, "consume": {{K: "destroy", V: "r"}},
			"consume+return": {{K: "destroy", V: "r"}, {K: "return"}}, "consume+break": {{K: "destroy", V: "r"}, {K: "break"}},
			"consume+continue": {{K: "destroy", V: "r"}, {K: "continue"}},
			"break": {{K: "break"}}, "continue": {{K: "continue"}}, "return": {{K: "return"}}, "panic": {{K: "panic"}},
		}
		names := []string{"fallthrough", "consume", "consume+return", "consume+break", "consume+continue", "break", "continue", "return", "panic"}
		for _, loop := range []string{"while", "for"} {
			for _, decl := range []string{"inside", "outside"} {
				for _, tail := range []string{"none", "after-if", "after-loop"} {
					if tail == "after-loop" && decl == "inside" {
						continue
					}
					for _, a := range names {
						for _, b := range names {
							ifs := Stmt{K: "if", E: true, A: cloneStmts(kinds[a]), B: cloneStmts(kinds[b])}
							body := []Stmt{ifs}
							if tail == "after-if" {
								body = append(body, Stmt{K: "destroy", V: "r"})
							}
							newR := Stmt{K: "new", V: "r", T: "R", Let: true}
							var prog []Stmt
							if decl == "inside" {
								prog = []Stmt{{K: loop, A: append([]Stmt{newR}, body...)}}
							} else {
								prog = []Stmt{newR, {K: loop, A: body}}
								if tail == "after-loop" {
									prog = append(prog, Stmt{K: "destroy", V: "r"})
								}
							}
							p := &Program{Body: prog}
							msg, cell, _, _ := judge(p, knownGap)
							if cell == "outside" {
								rec.Class("enum/outside-fragment")
								continue
							}
							rec.CaseH(true, evid.Hash("enum", p.Print()))
							rec.Class("enum/" + cell)
							if strings.Contains(cell, "-FS") {
								rec.Excluded(cell[strings.Index(cell, "-FS")+1:])
							}
							if msg != "" {
								rec.Violation(t, c03Case{Mode: "enum", Defect: loop + "/" + decl + "/" + tail + "/" + a + "|" + b, Program: p, Source: strings.TrimPrefix(p.Print(), prelude)}, "%s", msg)
							}
						}
					}
				}
			}
		}
		rec.RequireClasses(t, "enum/good/accepted", "enum/bad/rejected")
	}
	r := evid.Rand(3)
	N := evid.N(20_000, 100_000)
	table := map[string]int{}
	defects := map[string]int{}
	otherErrs := 0
	firstProblem := ""
	for i := 0; i < N; i++ {
		seed := r.Int63()
		g := &gen{r: rand.New(rand.NewSource(seed)), defectAt: -1, maxDepth: 2 + r.Intn(3)}
		mode := "linear"
		var p *Program
		switch i % 5 {
		case 0, 1:
			p = g.program()
		case 2, 3:
			// the same program twice: the first pass counts the applicable decision points, the second makes one mistake
			mode = "defect"
			g.program()
			points := g.decision
			g = &gen{r: rand.New(rand.NewSource(seed)), defectAt: -1, maxDepth: g.maxDepth}
			if points > 0 {
				g.defectAt = 1 + r.Intn(points)
			}
			p = g.program()
		default:
			mode = "random"
			g.eps = 0.03 + r.Float64()*0.2
			p = g.program()
		}
		msg, cell, v, cr := judge(p, knownGap)
		if cell == "outside" {
			rec.Class("outside-fragment")
			continue
		}
		vars, ctl, depth, _ := p.Shape()
		src := p.Print()
		nontrivial := vars >= 2 && ctl >= 1 && depth >= 2
		rec.CaseH(nontrivial, evid.Hash(src))
		rec.Class(mode + "/" + cell)
		table[cell]++
		if mode == "defect" {
			d := g.defect
			if d == "" {
				d = "none-applicable"
			}
			defects[d+"/"+cell]++
		}
		if cell == "good/rejected-FS24" {
			rec.Excluded("FS24")
		}
		if cell == "bad/accepted-FS46" {
			rec.Excluded("FS46")
		}
		if cell == "bad/accepted-FS45" {
			rec.Excluded("FS45")
		}
		if cell == "bad/accepted-FS44" {
			rec.Excluded("FS44")
		}
		if cell == "bad/accepted-FS28" {
			rec.Excluded("FS28")
		}
		if cell == "good/rejected-FS39" {
			rec.Excluded("FS39")
		}
		if cell == "good/rejected-FS27" {
			rec.Excluded("FS27")
		}
		if cell == "good/rejected-FS26" {
			rec.Excluded("FS26")
		}
		if cell == "good/rejected-FS25" {
			rec.Excluded("FS25")
		}
		if cell == "good/other-error" || cell == "bad/other-error-only" {
			otherErrs++
			if firstProblem == "" {
				firstProblem = fmt.Sprintf("%s\nother errors: %v\noracle: %+v", strings.TrimPrefix(src, prelude), cr.Other, v)
			}
			if rec.WantSample("generator-problem") {
				rec.Sample("generator-problem", map[string]any{"source": src, "other_errors": cr.Other, "oracle": v})
			}
		}
		if nontrivial && rec.WantSample(mode+"/"+cell) {
			rec.Sample(mode+"/"+cell, map[string]any{"source": strings.TrimPrefix(src, prelude), "oracle_bad": v.Bad, "checker_resource_errors": cr.Resource})
		}
		if mode == "linear" && v.IsBad() {
			// the linear generator and the oracle disagree: one of them is wrong (harness problem, not a cadence problem)
			rec.Inconclusive(t, "linear-by-construction program judged bad by the oracle (%v):\n%s", v.Bad, src)
		}
		if msg != "" {
			kind := cell
			small := shrink(p, func(q *Program) bool {
				m, c2, _, _ := judge(q, knownGap)
				return m != "" && c2 == kind
			})
			m2, _, _, _ := judge(small, knownGap)
			if m2 != "" {
				p, msg = small, m2
			}
			rec.Violation(t, c03Case{Mode: mode, Defect: g.defect, Program: p, Source: strings.TrimPrefix(p.Print(), prelude)}, "%s", msg)
		}
	}
	rec.Extra("table", table)
	rec.Extra("defect_kinds", defects)
	rec.Extra("programs_with_non_resource_errors", otherErrs)
	if otherErrs > 0 {
		rec.Inconclusive(t, "%d generated programs drew non-resource errors from the checker (generator problem):\n%s", otherErrs, firstProblem)
	}
	rec.RequireClasses(t, "linear/good/accepted", "defect/bad/rejected", "random/bad/rejected", "random/good/accepted")
}
