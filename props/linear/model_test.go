package linear

import (
	"fmt"
	"sort"
	"strings"
)

// Mini-AST of the resource fragment of property C03. A program is the body of `fun test()`;
// every variable is a resource of one of three types: R (@R), A (@[R]), O (@R?).
// Variable names are globally unique (no shadowing), so a name identifies a declaration.

type Stmt struct {
	// new move arr destroy consume use swap assign if iflet while for break continue return panic fun call maybehalt
	// switch (A = list of "case" pseudo-statements, each with body A; E on a case marks `default`)
	K   string   `json:"k"`
	V   string   `json:"v,omitempty"`   // declared / operated variable (or function name)
	S   []string `json:"s,omitempty"`   // source variables
	T   string   `json:"t,omitempty"`   // type of the declared variable: R, A, O
	Let bool     `json:"let,omitempty"` // declared with let (constant) instead of var
	A   []Stmt   `json:"a,omitempty"`   // then-branch / loop or function body
	B   []Stmt   `json:"b,omitempty"`   // else-branch
	E   bool     `json:"e,omitempty"`   // has an else branch
}

type Program struct {
	Body []Stmt `json:"body"`
}

const prelude = `access(all) resource R { access(all) fun touch() {} }
access(all) fun c(): Bool { return true }
access(all) fun consumeR(_ r: @R) { destroy r }
access(all) fun consumeA(_ r: @[R]) { destroy r }
access(all) fun consumeO(_ r: @R?) { destroy r }
access(all) fun useR(_ r: &R) {}
access(all) fun useA(_ r: &[R]) {}
access(all) fun useO(_ r: &R?) {}
access(all) fun n(): Int { return 1 }
access(all) struct S { access(all) fun fail(): Never { panic("") } }
access(all) fun opt(): S? { return nil }
`

func typeText(t string) string {
	switch t {
	case "A":
		return "@[R]"
	case "O":
		return "@R?"
	}
	return "@R"
}

// Print renders the program as Cadence source.
func (p *Program) Print() string {
	var sb strings.Builder
	sb.WriteString(prelude)
	sb.WriteString("access(all) fun test() {\n")
	types := map[string]string{}
	collectTypes(p.Body, types)
	loopCounter = 0
	printStmts(&sb, p.Body, 1, types, 0)
	sb.WriteString("}\n")
	return sb.String()
}

var loopCounter int // loop variables get unique names (the test is single-threaded)

func collectTypes(ss []Stmt, types map[string]string) {
	for _, s := range ss {
		switch s.K {
		case "new", "move", "arr":
			types[s.V] = s.T
		case "iflet":
			types[s.V] = "R"
		}
		collectTypes(s.A, types)
		collectTypes(s.B, types)
	}
}

func printStmts(sb *strings.Builder, ss []Stmt, ind int, types map[string]string, loopDepth int) {
	pad := strings.Repeat("    ", ind)
	kw := func(s Stmt) string {
		if s.Let {
			return "let"
		}
		return "var"
	}
	for _, s := range ss {
		sb.WriteString(pad)
		switch s.K {
		case "new":
			switch s.T {
			case "A":
				fmt.Fprintf(sb, "%s %s: @[R] <- [<- create R()]\n", kw(s), s.V)
			case "O":
				fmt.Fprintf(sb, "%s %s: @R? <- create R()\n", kw(s), s.V)
			default:
				fmt.Fprintf(sb, "%s %s <- create R()\n", kw(s), s.V)
			}
		case "move":
			fmt.Fprintf(sb, "%s %s: %s <- %s\n", kw(s), s.V, typeText(s.T), s.S[0])
		case "arr":
			parts := make([]string, len(s.S))
			for i, v := range s.S {
				parts[i] = "<- " + v
			}
			fmt.Fprintf(sb, "%s %s: @[R] <- [%s]\n", kw(s), s.V, strings.Join(parts, ", "))
		case "destroy":
			fmt.Fprintf(sb, "destroy %s\n", s.V)
		case "consume":
			fmt.Fprintf(sb, "consume%s(<- %s)\n", types[s.V], s.V)
		case "use":
			t := types[s.V]
			fmt.Fprintf(sb, "use%s(&%s as &%s)\n", t, s.V, strings.TrimPrefix(typeText(t), "@"))
		case "swap":
			fmt.Fprintf(sb, "%s <-> %s\n", s.V, s.S[0])
		case "assign":
			fmt.Fprintf(sb, "%s <- create R()\n", s.V)
		case "if":
			sb.WriteString("if c() {\n")
			printStmts(sb, s.A, ind+1, types, loopDepth)
			sb.WriteString(pad + "}")
			if s.E {
				sb.WriteString(" else {\n")
				printStmts(sb, s.B, ind+1, types, loopDepth)
				sb.WriteString(pad + "}")
			}
			sb.WriteString("\n")
		case "iflet":
			fmt.Fprintf(sb, "if %s %s <- %s {\n", kw(s), s.V, s.S[0])
			printStmts(sb, s.A, ind+1, types, loopDepth)
			sb.WriteString(pad + "}")
			if s.E {
				sb.WriteString(" else {\n")
				printStmts(sb, s.B, ind+1, types, loopDepth)
				sb.WriteString(pad + "}")
			}
			sb.WriteString("\n")
		case "while":
			sb.WriteString("while c() {\n")
			printStmts(sb, s.A, ind+1, types, loopDepth+1)
			sb.WriteString(pad + "}\n")
		case "for":
			loopCounter++
			fmt.Fprintf(sb, "for i%d in [1, 2] {\n", loopCounter)
			printStmts(sb, s.A, ind+1, types, loopDepth+1)
			sb.WriteString(pad + "}\n")
		case "switch":
			sb.WriteString("switch n() {\n")
			for i, cs := range s.A {
				if cs.E {
					sb.WriteString(pad + "default:\n")
				} else {
					fmt.Fprintf(sb, "%scase %d:\n", pad, i+1)
				}
				printStmts(sb, cs.A, ind+1, types, loopDepth)
			}
			sb.WriteString(pad + "}\n")
		case "maybehalt":
			// optional chaining on a function returning Never: halts only when the receiver is not nil
			sb.WriteString("opt()?.fail()\n")
		case "break", "continue", "return":
			sb.WriteString(s.K + "\n")
		case "panic":
			sb.WriteString("panic(\"\")\n")
		case "fun":
			fmt.Fprintf(sb, "fun %s() {\n", s.V)
			printStmts(sb, s.A, ind+1, types, 0)
			sb.WriteString(pad + "}\n")
		case "call":
			fmt.Fprintf(sb, "%s()\n", s.V)
		default:
			panic("unknown statement kind " + s.K)
		}
	}
}

// ---------------------------------------------------------------- the oracle

// Verdict of the independent path-sensitive analysis.
type Verdict struct {
	Bad     []string // reasons: some path uses a dead resource or loses a live one (sorted, unique)
	// PanicWithLive: on some path a panic is reached while a resource of the function is still live (legal: nothing is
	// lost when the program aborts). Used by the predicate of finding FS25.
	PanicWithLive bool
	Outside       []string // the program leaves the fragment (out-of-scope name, constant swapped, re-initialisation of a dead variable…)
}

func (v Verdict) IsBad() bool     { return len(v.Bad) > 0 }
func (v Verdict) IsOutside() bool { return len(v.Outside) > 0 }

const (
	unbound = 0
	live    = 1
	dead    = 2
)

type varInfo struct {
	id  int
	typ string
	let bool
}

type stateSet map[string]struct{}

func (s stateSet) add(st []byte)        { s[string(st)] = struct{}{} }
func (s stateSet) addAll(o stateSet)    { for k := range o { s[k] = struct{}{} } }
func (s stateSet) subsetOf(o stateSet) bool {
	for k := range s {
		if _, ok := o[k]; !ok {
			return false
		}
	}
	return true
}

type analysis struct {
	vars    map[string]*varInfo
	funs    map[string]bool
	bad     map[string]bool
	outside map[string]bool
	panicWithLive bool
}

// ctx is the static context of a block: open scopes (variables declared in each), where the innermost
// loop body scope and the function scope start, and the set of variables declared inside the current function.
type ctx struct {
	scopes   [][]int // variable ids per open scope (shared, appended while executing)
	loopBase int     // index of the innermost loop body scope, -1 outside loops (target of continue)
	breakBase int    // index of the scope a `break` leaves: innermost loop body or switch case, -1 if none
	own      map[int]bool
}

// Analyse is the oracle: it enumerates all control-flow paths (branch conditions unknown, loops any number of
// times — the set of variable states is finite, so the loop fixpoint is exact) over the states
// {unbound, live, dead} of every variable and reports every path event that the language rules forbid:
// using/moving/destroying a dead resource, and leaving a live resource behind when its scope ends
// (block end, loop iteration end, break/continue out of the scope, return).
// Calibration (docs/language/resources and the sema tests named at each rule):
//   - code after panic(...) (type Never) is unreachable and nothing is lost there
//     (TestCheckResourceLossAfterPanic-style tests: `let r <- create R(); panic("")` is accepted);
//   - `return` checks the loss of *all* resources of the function at the return site;
//   - `if let y <- o` invalidates `o` in both branches;
//   - closures may not capture resources: any reference to an outer resource inside a nested function is an error;
//   - assignment to a resource variable is an error whenever the target holds a resource (overwrite);
//     assigning to an already moved variable is outside the fragment (the checker rejects every plain assignment
//     to a resource-typed target and demands `<-!`/swap, a typing rule, not a linearity rule).
func Analyse(p *Program) Verdict {
	a := &analysis{vars: map[string]*varInfo{}, funs: map[string]bool{}, bad: map[string]bool{}, outside: map[string]bool{}}
	a.declare(p.Body)
	start := make([]byte, len(a.vars))
	in := stateSet{}
	in.add(start)
	c := &ctx{loopBase: -1, breakBase: -1, own: a.declaredIn(p.Body)}
	out, _, _ := a.block(p.Body, in, c)
	_ = out // the function scope was left inside block()
	var v Verdict
	for k := range a.bad {
		v.Bad = append(v.Bad, k)
	}
	for k := range a.outside {
		v.Outside = append(v.Outside, k)
	}
	v.PanicWithLive = a.panicWithLive
	sort.Strings(v.Bad)
	sort.Strings(v.Outside)
	return v
}

func (a *analysis) declare(ss []Stmt) {
	for _, s := range ss {
		switch s.K {
		case "new", "move", "arr":
			if _, dup := a.vars[s.V]; dup {
				a.outside["redeclaration of "+s.V] = true
			}
			a.vars[s.V] = &varInfo{id: len(a.vars), typ: s.T, let: s.Let}
		case "iflet":
			if _, dup := a.vars[s.V]; dup {
				a.outside["redeclaration of "+s.V] = true
			}
			a.vars[s.V] = &varInfo{id: len(a.vars), typ: "R", let: s.Let}
		case "fun":
			a.funs[s.V] = true
		}
		a.declare(s.A)
		a.declare(s.B)
	}
}

func (a *analysis) declaredIn(ss []Stmt) map[int]bool {
	out := map[int]bool{}
	var walk func(ss []Stmt)
	walk = func(ss []Stmt) {
		for _, s := range ss {
			switch s.K {
			case "new", "move", "arr", "iflet":
				out[a.vars[s.V].id] = true
			case "fun":
				continue // its variables belong to the nested function
			}
			walk(s.A)
			walk(s.B)
		}
	}
	walk(ss)
	return out
}

// leave ends the scopes from index `from` to the top for one state: live variables are lost.
func (a *analysis) leave(st []byte, c *ctx, from int, where string) []byte {
	n := append([]byte(nil), st...)
	for i := len(c.scopes) - 1; i >= from; i-- {
		for _, id := range c.scopes[i] {
			if n[id] == live {
				a.bad["loss: "+a.name(id)+" still holds a resource at "+where] = true
			}
			n[id] = unbound
		}
	}
	return n
}

func (a *analysis) name(id int) string {
	for k, v := range a.vars {
		if v.id == id {
			return k
		}
	}
	return "?"
}

// ref resolves a variable reference in the current function; ok=false when it cannot be judged.
func (a *analysis) ref(name string, c *ctx) (*varInfo, bool) {
	v, ok := a.vars[name]
	if !ok {
		a.outside["unknown variable "+name] = true
		return nil, false
	}
	if !c.own[v.id] {
		a.bad["capture: "+name+" is used inside a nested function"] = true
		return nil, false
	}
	return v, true
}

// need checks that the variable is live in the state (a dead one is a use-after-invalidation).
func (a *analysis) need(st []byte, v *varInfo, name, what string) bool {
	switch st[v.id] {
	case live:
		return true
	case dead:
		a.bad["dead: "+name+" is "+what+" after it was moved or destroyed"] = true
	default:
		a.outside["variable "+name+" is "+what+" outside its scope"] = true
	}
	return false
}

func (a *analysis) bind(st []byte, c *ctx, v *varInfo) {
	st[v.id] = live
	top := len(c.scopes) - 1
	for _, id := range c.scopes[top] {
		if id == v.id {
			return
		}
	}
	c.scopes[top] = append(c.scopes[top], v.id)
}

// block executes a statement list in a new scope. Returns the states that fall out of the end, and the states
// leaving through break / continue (already stripped of the scopes they leave).
func (a *analysis) block(ss []Stmt, in stateSet, c *ctx) (out, brk, cont stateSet) {
	c.scopes = append(c.scopes, nil)
	me := len(c.scopes) - 1
	cur := in
	brk, cont = stateSet{}, stateSet{}
	for _, s := range ss {
		if len(cur) == 0 && len(in) > 0 {
			// statements after return/break/continue/panic (or after an if whose branches all end that way):
			// the checker reports unreachable code, which is not a linearity judgement
			a.outside["unreachable statement"] = true
		}
		next := stateSet{}
		switch s.K {
		case "if", "iflet":
			thenIn, elseIn := stateSet{}, stateSet{}
			if s.K == "if" {
				thenIn, elseIn = cur, cur
			} else {
				src, ok := a.ref(s.S[0], c)
				if ok && src.typ != "O" {
					a.outside["optional binding of non-optional "+s.S[0]] = true
				}
				for k := range cur {
					st := []byte(k)
					if ok && a.need(st, src, s.S[0], "bound") {
						st[src.id] = dead
					}
					thenIn.add(st)
					elseIn.add(st)
				}
			}
			// then-branch (the bound variable lives in the branch scope)
			var to, tb, tc stateSet
			if s.K == "iflet" {
				bound := stateSet{}
				v := a.vars[s.V]
				c.scopes = append(c.scopes, []int{v.id})
				for k := range thenIn {
					st := []byte(k)
					st[v.id] = live
					bound.add(st)
				}
				o2, b2, c2 := a.block(s.A, bound, c)
				// leave the binding scope
				to, tb, tc = stateSet{}, b2, c2
				for k := range o2 {
					to.add(a.leave([]byte(k), c, len(c.scopes)-1, "the end of the if-let branch"))
				}
				c.scopes = c.scopes[:len(c.scopes)-1]
				// states that left through break/continue/return inside were already stripped by block(): the binding
				// scope is above loopBase only if the loop is outside, in which case leave() covered it (scopes ≥ loopBase).
			} else {
				to, tb, tc = a.block(s.A, thenIn, c)
			}
			next.addAll(to)
			brk.addAll(tb)
			cont.addAll(tc)
			if s.E {
				eo, eb, ec := a.block(s.B, elseIn, c)
				next.addAll(eo)
				brk.addAll(eb)
				cont.addAll(ec)
			} else {
				next.addAll(elseIn)
			}
		case "while", "for":
			loopIn := stateSet{}
			loopIn.addAll(cur)
			allBrk := stateSet{}
			saved, savedBreak := c.loopBase, c.breakBase
			for {
				c.loopBase, c.breakBase = len(c.scopes), len(c.scopes)
				n, b, cn := a.block(s.A, loopIn, c)
				c.loopBase, c.breakBase = saved, savedBreak
				allBrk.addAll(b)
				grown := stateSet{}
				grown.addAll(n)
				grown.addAll(cn)
				if grown.subsetOf(loopIn) {
					break
				}
				loopIn.addAll(grown)
			}
			next.addAll(loopIn)
			next.addAll(allBrk)
		case "switch":
			// every case is a scope of its own; `break` leaves the case; without a default the switch may be skipped.
			// (docs/language/control-flow: no implicit fallthrough.) The subject n() touches no resource.
			hasDefault := false
			savedBreak := c.breakBase
			for _, cs := range s.A {
				if cs.E {
					hasDefault = true
				}
				c.breakBase = len(c.scopes)
				o, b, cn := a.block(cs.A, cur, c)
				c.breakBase = savedBreak
				next.addAll(o)
				next.addAll(b) // break: continue behind the switch
				cont.addAll(cn)
			}
			if !hasDefault {
				next.addAll(cur)
			}
		case "maybehalt":
			// `opt()?.fail()` halts only if opt() is not nil: the path may continue
			next = cur
		case "break", "continue":
			base := c.loopBase
			if s.K == "break" {
				base = c.breakBase
			}
			if base < 0 {
				a.outside[s.K+" outside of a loop"] = true
				break
			}
			for k := range cur {
				st := a.leave([]byte(k), c, base, s.K)
				if s.K == "break" {
					brk.add(st)
				} else {
					cont.add(st)
				}
			}
			// the path does not continue in this block
		case "return":
			for k := range cur {
				a.leave([]byte(k), c, 0, "return")
			}
		case "panic":
			// Never: the path ends, nothing is checked
			for k := range cur {
				for id := range c.own {
					if k[id] == live {
						a.panicWithLive = true
					}
				}
			}
		case "fun":
			inner := &ctx{loopBase: -1, breakBase: -1, own: a.declaredIn(s.A)}
			start := stateSet{}
			start.add(make([]byte, len(a.vars)))
			a.block(s.A, start, inner)
			next = cur
		case "call":
			if !a.funs[s.V] {
				a.outside["unknown function "+s.V] = true
			}
			next = cur
		default:
			for k := range cur {
				st := []byte(k)
				a.simple(s, st, c)
				next.add(st)
			}
		}
		cur = next
	}
	out = stateSet{}
	for k := range cur {
		where := "the end of its scope"
		out.add(a.leave([]byte(k), c, me, where))
	}
	c.scopes = c.scopes[:me]
	return
}

// simple executes a straight-line statement on one state (in place).
func (a *analysis) simple(s Stmt, st []byte, c *ctx) {
	switch s.K {
	case "new":
		a.bind(st, c, a.vars[s.V])
	case "move":
		src, ok := a.ref(s.S[0], c)
		if ok {
			if !(src.typ == s.T || src.typ == "R" && s.T == "O") {
				a.outside["type mismatch in move to "+s.V] = true
			}
			if a.need(st, src, s.S[0], "moved") {
				st[src.id] = dead
			}
		}
		a.bind(st, c, a.vars[s.V])
	case "arr":
		for _, name := range s.S {
			src, ok := a.ref(name, c)
			if !ok {
				continue
			}
			if src.typ != "R" {
				a.outside["array element "+name+" is not an R"] = true
			}
			if a.need(st, src, name, "moved") {
				st[src.id] = dead
			}
		}
		a.bind(st, c, a.vars[s.V])
	case "destroy", "consume":
		if v, ok := a.ref(s.V, c); ok && a.need(st, v, s.V, map[string]string{"destroy": "destroyed", "consume": "moved"}[s.K]) {
			st[v.id] = dead
		}
	case "use":
		if v, ok := a.ref(s.V, c); ok {
			a.need(st, v, s.V, "used")
		}
	case "swap":
		x, ok1 := a.ref(s.V, c)
		y, ok2 := a.ref(s.S[0], c)
		if ok1 && ok2 {
			if x.let || y.let || x.typ != y.typ || x == y {
				a.outside["swap of constants / different types"] = true
			}
			a.need(st, x, s.V, "swapped")
			a.need(st, y, s.S[0], "swapped")
		}
	case "assign":
		if v, ok := a.ref(s.V, c); ok {
			if v.let || v.typ != "R" {
				a.outside["assignment to a constant or non-R variable"] = true
			}
			switch st[v.id] {
			case live:
				a.bad["overwrite: "+s.V+" is assigned while it holds a resource"] = true
			case dead:
				a.outside["re-initialisation of the moved variable "+s.V] = true
			default:
				a.outside["variable "+s.V+" is assigned outside its scope"] = true
			}
		}
	default:
		panic("unknown statement kind " + s.K)
	}
}

// ---------------------------------------------------------------- structural helpers

// Shape returns (resources, branchesOrLoops, depth, statements) for the non-triviality rule.
func (p *Program) Shape() (vars, ctl, depth, n int) {
	var walk func(ss []Stmt, d int)
	walk = func(ss []Stmt, d int) {
		if d > depth {
			depth = d
		}
		for _, s := range ss {
			n++
			switch s.K {
			case "new", "move", "arr", "iflet":
				vars++
			}
			switch s.K {
			case "if", "iflet", "while", "for", "switch":
				ctl++
			}
			if s.K == "case" {
				n--
				walk(s.A, d)
			} else if len(s.A) > 0 || len(s.B) > 0 || s.K == "if" || s.K == "while" || s.K == "for" || s.K == "iflet" || s.K == "fun" {
				walk(s.A, d+1)
				walk(s.B, d+1)
			}
		}
	}
	walk(p.Body, 1)
	return
}

// hasJump reports whether the program contains a break or continue.
func (p *Program) hasJump() bool {
	found := false
	var walk func(ss []Stmt)
	walk = func(ss []Stmt) {
		for _, s := range ss {
			if s.K == "break" || s.K == "continue" {
				found = true
			}
			walk(s.A)
			walk(s.B)
		}
	}
	walk(p.Body)
	return found
}

// matchesLoopJumpGap is the predicate of the known completeness gap (finding FS24): inside a loop, a branch of an
// `if` ends in break/continue after consuming a resource that was declared outside that branch but inside the loop.
// The checker merges that branch's invalidation as "potential" although the branch leaves the iteration.
func (p *Program) matchesLoopJumpGap() bool { return p.matchesBranchGap(true) }

// matchesHaltBranchGap is the predicate of finding FS26: a branch of an `if` ends in panic(...) after consuming a
// resource that was declared outside that branch. The checker keeps that invalidation as "potential" after the if,
// although the branch never reaches the code behind it (the `return` variant is accepted).
func (p *Program) matchesHaltBranchGap() bool { return p.matchesBranchGap(false) }

func (p *Program) matchesBranchGap(jump bool) bool {
	found := false
	var consumes func(ss []Stmt, outer map[string]bool) bool
	consumes = func(ss []Stmt, outer map[string]bool) bool {
		for _, s := range ss {
			switch s.K {
			case "destroy", "consume":
				if outer[s.V] {
					return true
				}
			case "move", "arr", "iflet":
				for _, v := range s.S {
					if outer[v] {
						return true
					}
				}
			}
			if s.K != "fun" && (consumes(s.A, outer) || consumes(s.B, outer)) {
				return true
			}
		}
		return false
	}
	var allExit func(ss []Stmt) (exits, viaPanic bool)
	allExit = func(ss []Stmt) (bool, bool) {
		if len(ss) == 0 {
			return false, false
		}
		last := ss[len(ss)-1]
		switch last.K {
		case "panic":
			return true, true
		case "return":
			return true, false
		case "if", "iflet":
			if last.E {
				e1, p1 := allExit(last.A)
				e2, p2 := allExit(last.B)
				return e1 && e2, p1 || p2
			}
		case "switch":
			def, all, anyPanic := false, true, false
			for _, cs := range last.A {
				e, p := allExit(cs.A)
				all = all && e
				anyPanic = anyPanic || p
				def = def || cs.E
			}
			return def && all, anyPanic
		}
		return false, false
	}
	endsInJump := func(ss []Stmt) bool {
		if len(ss) == 0 {
			return false
		}
		if jump {
			return ss[len(ss)-1].K == "break" || ss[len(ss)-1].K == "continue"
		}
		// every path of the branch leaves the function and at least one does so by halting
		exits, viaPanic := allExit(ss)
		return exits && viaPanic
	}
	var walk func(ss []Stmt, loopVars map[string]bool, inLoop bool)
	walk = func(ss []Stmt, loopVars map[string]bool, inLoop bool) {
		local := map[string]bool{}
		for k := range loopVars {
			local[k] = true
		}
		for _, s := range ss {
			switch s.K {
			case "new", "move", "arr":
				if inLoop || !jump {
					local[s.V] = true
				}
			case "if", "iflet":
				if s.K == "iflet" && (inLoop || !jump) {
					local[s.V] = true // (visible in the then-branch only; harmless over-approximation)
				}
				if inLoop || !jump {
					for _, br := range [][]Stmt{s.A, s.B} {
						if endsInJump(br) && consumes(br, local) {
							found = true
						}
					}
				}
				walk(s.A, local, inLoop)
				walk(s.B, local, inLoop)
			case "while", "for":
				if jump {
					walk(s.A, map[string]bool{}, true)
				} else {
					// the same for a loop body that consumes an outer resource and halts
					if endsInJump(s.A) && consumes(s.A, local) {
						found = true
					}
					walk(s.A, local, true)
				}
			case "fun":
				walk(s.A, map[string]bool{}, false)
			case "switch", "case":
				if s.K == "switch" && !jump {
					// a case that consumes an outer resource and exits next to a case that halts: the pair is summarised
					// as "definitely invalidated" (third level of mergeResourceInfos) and then merged with the other cases
					consuming, halting := false, false
					for _, cs := range s.A {
						e, viaPanic := allExit(cs.A)
						if e && consumes(cs.A, local) {
							consuming = true
						}
						if e && viaPanic {
							halting = true
						}
					}
					if consuming && halting {
						found = true
					}
				}
				if s.K == "case" && jump {
					// `break` out of a switch case behaves like `break` out of a loop iteration
					walk(s.A, map[string]bool{}, true)
					continue
				}
				if s.K == "case" && (inLoop || !jump) && !jump {
					// a switch case is merged like an if-branch
					if endsInJump(s.A) && consumes(s.A, local) {
						found = true
					}
				}
				walk(s.A, local, inLoop)
			}
		}
	}
	walk(p.Body, map[string]bool{}, false)
	return found
}

// matchesNestedReturnGap is the predicate of finding FS27: one branch of an if/else ends in a nested if/else whose
// branches all consume an outer resource and return, while the other branch consumes it and continues. The nested merge
// drops the invalidation ("both returned"), after which the outer merge sees a returning branch *without* invalidation and
// downgrades the other branch's invalidation to "potential".
func (p *Program) matchesNestedReturnGap() bool {
	found := false
	var allReturn func(ss []Stmt) bool
	allReturn = func(ss []Stmt) bool {
		if len(ss) == 0 {
			return false
		}
		last := ss[len(ss)-1]
		switch last.K {
		case "return":
			return true
		case "if", "iflet":
			return last.E && allReturn(last.A) && allReturn(last.B)
		case "switch":
			def := false
			for _, cs := range last.A {
				if !allReturn(cs.A) {
					return false
				}
				def = def || cs.E
			}
			return def && len(last.A) >= 2
		}
		return false
	}
	var consumesAny func(ss []Stmt) bool
	consumesAny = func(ss []Stmt) bool {
		for _, s := range ss {
			switch s.K {
			case "destroy", "consume", "move", "arr", "iflet":
				return true
			}
			if s.K != "fun" && (consumesAny(s.A) || consumesAny(s.B)) {
				return true
			}
		}
		return false
	}
	nestedReturning := func(ss []Stmt) bool {
		if len(ss) == 0 {
			return false
		}
		last := ss[len(ss)-1]
		if last.K == "switch" {
			return allReturn(ss) && consumesAny([]Stmt{last})
		}
		return (last.K == "if" || last.K == "iflet") && last.E && allReturn(last.A) && allReturn(last.B) && consumesAny([]Stmt{last})
	}
	terminated := func(ss []Stmt) bool {
		if len(ss) == 0 {
			return false
		}
		switch ss[len(ss)-1].K {
		case "return", "panic":
			return true
		}
		// (a branch that ends in break/continue still reaches the scope end of the loop body / switch case, where the
		// downgraded invalidation is reported)
		return allReturn(ss)
	}
	var walk func(ss []Stmt)
	walk = func(ss []Stmt) {
		for _, s := range ss {
			if (s.K == "if" || s.K == "iflet") && s.E {
				if nestedReturning(s.A) && !terminated(s.B) && consumesAny(s.B) || nestedReturning(s.B) && !terminated(s.A) && consumesAny(s.A) {
					found = true
				}
			}
			if s.K == "switch" {
				// the cases of a switch are merged pairwise like a chain of if/else: two returning cases next to one that
				// consumes and continues give the same situation
				returning, continuing := 0, 0
				for _, cs := range s.A {
					switch {
					case allReturn(cs.A) && consumesAny(cs.A):
						returning++
					case !terminated(cs.A) && consumesAny(cs.A):
						continuing++
					}
				}
				nested := 0
				for _, cs := range s.A {
					if nestedReturning(cs.A) {
						nested++
					}
				}
				if (returning >= 2 || nested >= 1) && continuing >= 1 {
					found = true
				}
			}
			walk(s.A)
			walk(s.B)
		}
	}
	walk(p.Body)
	return found
}

// matchesLoopHaltUnsoundness is the predicate of finding FS28 (a soundness gap): a loop body consumes a resource that was
// declared outside the loop — so a second iteration uses a dead resource — and the program contains a panic. The checker
// has no second-iteration check; it relies on the "potentially invalidated ⇒ lost at scope end" report, which is suppressed
// when the scope ends in a halt.
func (p *Program) matchesLoopHaltUnsoundness() bool {
	hasPanic, found := false, false
	var consumes func(ss []Stmt, outer map[string]bool) bool
	consumes = func(ss []Stmt, outer map[string]bool) bool {
		for _, s := range ss {
			switch s.K {
			case "destroy", "consume":
				if outer[s.V] {
					return true
				}
			case "move", "arr", "iflet":
				for _, v := range s.S {
					if outer[v] {
						return true
					}
				}
			}
			if s.K != "fun" && (consumes(s.A, outer) || consumes(s.B, outer)) {
				return true
			}
		}
		return false
	}
	var walk func(ss []Stmt, declared map[string]bool)
	walk = func(ss []Stmt, declared map[string]bool) {
		local := map[string]bool{}
		for k := range declared {
			local[k] = true
		}
		for _, s := range ss {
			switch s.K {
			case "panic", "maybehalt":
				hasPanic = true
			case "new", "move", "arr":
				local[s.V] = true
			case "while", "for":
				if consumes(s.A, local) {
					found = true
				}
			case "fun":
				walk(s.A, map[string]bool{})
				continue
			}
			if s.K == "iflet" {
				l2 := map[string]bool{s.V: true}
				for k := range local {
					l2[k] = true
				}
				walk(s.A, l2)
			} else {
				walk(s.A, local)
			}
			walk(s.B, local)
		}
	}
	walk(p.Body, map[string]bool{})
	return found && hasPanic
}

// matchesLoopReturnJumpGap is the predicate of finding FS39: a loop body consumes a resource declared outside the loop on a
// path that then returns (legal), and the same loop body also contains a break/continue. Because of the jump the body is not
// "definitely returned" for the merge after the loop and the consumption is kept as a potential invalidation.
func (p *Program) matchesLoopReturnJumpGap() bool {
	found := false
	var consumes func(ss []Stmt, outer map[string]bool) bool
	consumes = func(ss []Stmt, outer map[string]bool) bool {
		for _, s := range ss {
			switch s.K {
			case "destroy", "consume":
				if outer[s.V] {
					return true
				}
			case "move", "arr", "iflet":
				for _, v := range s.S {
					if outer[v] {
						return true
					}
				}
			}
			if s.K != "fun" && (consumes(s.A, outer) || consumes(s.B, outer)) {
				return true
			}
		}
		return false
	}
	var hasJump func(ss []Stmt) bool
	hasJump = func(ss []Stmt) bool {
		for _, s := range ss {
			if s.K == "break" || s.K == "continue" {
				return true
			}
			if s.K != "fun" && s.K != "while" && s.K != "for" && (hasJump(s.A) || hasJump(s.B)) {
				return true
			}
		}
		return false
	}
	var walk func(ss []Stmt, declared map[string]bool)
	walk = func(ss []Stmt, declared map[string]bool) {
		local := map[string]bool{}
		for k := range declared {
			local[k] = true
		}
		for _, s := range ss {
			switch s.K {
			case "new", "move", "arr":
				local[s.V] = true
			case "while", "for":
				if consumes(s.A, local) && hasJump(s.A) {
					found = true
				}
			case "fun":
				walk(s.A, map[string]bool{})
				continue
			}
			if s.K == "iflet" {
				l2 := map[string]bool{s.V: true}
				for k := range local {
					l2[k] = true
				}
				walk(s.A, l2)
			} else {
				walk(s.A, local)
			}
			walk(s.B, local)
		}
	}
	walk(p.Body, map[string]bool{})
	return found
}

// hasExitingScopeWithLocal: some block declares a resource and ends in a statement through which every path leaves the
// function (return / panic / if-else of such). Together with a break/continue anywhere earlier this is the shape of FS25:
// `checkResourceLoss` skips the scope-end check only when `DefinitelyExited && !MaybeJumped()`, and MaybeJumped is
// function-wide; with a both-branches-return merge ("NO-OP") or a halt the local then looks un-invalidated at the scope end.
func (p *Program) hasExitingScopeWithLocal() bool {
	found := false
	var allExit func(ss []Stmt) bool
	allExit = func(ss []Stmt) bool {
		if len(ss) == 0 {
			return false
		}
		last := ss[len(ss)-1]
		switch last.K {
		case "return", "panic":
			return true
		case "if", "iflet":
			return last.E && allExit(last.A) && allExit(last.B)
		}
		return false
	}
	var walk func(ss []Stmt, bound bool)
	walk = func(ss []Stmt, bound bool) {
		declares := bound
		for _, s := range ss {
			switch s.K {
			case "new", "move", "arr":
				declares = true
			}
			walk(s.A, s.K == "iflet")
			walk(s.B, false)
		}
		if declares && allExit(ss) {
			found = true
		}
	}
	walk(p.Body, false)
	return found
}

func (p *Program) contains(kind string) bool {
	found := false
	var walk func(ss []Stmt)
	walk = func(ss []Stmt) {
		for _, s := range ss {
			if s.K == kind {
				found = true
			}
			walk(s.A)
			walk(s.B)
		}
	}
	walk(p.Body)
	return found
}

// matchesSwitchBreakUnsoundness is the predicate of finding FS45: a switch case that contains a `break` on some path but whose
// last statement returns on every remaining path. The case then counts as "definitely returned" and its invalidations (or
// missing invalidations) are ignored behind the switch although the break path continues there.
func (p *Program) matchesSwitchBreakUnsoundness() bool {
	found := false
	var allReturn func(ss []Stmt) bool
	allReturn = func(ss []Stmt) bool {
		if len(ss) == 0 {
			return false
		}
		last := ss[len(ss)-1]
		switch last.K {
		case "return", "panic":
			return true
		case "if", "iflet":
			return last.E && allReturn(last.A) && allReturn(last.B)
		}
		return false
	}
	var hasBreak func(ss []Stmt) bool
	hasBreak = func(ss []Stmt) bool {
		for _, s := range ss {
			if s.K == "break" {
				return true
			}
			if s.K == "while" || s.K == "for" || s.K == "fun" || s.K == "switch" {
				continue
			}
			if hasBreak(s.A) || hasBreak(s.B) {
				return true
			}
		}
		return false
	}
	var walk func(ss []Stmt)
	walk = func(ss []Stmt) {
		for _, s := range ss {
			if s.K == "case" && hasBreak(s.A) && allReturn(s.A) {
				found = true
			}
			walk(s.A)
			walk(s.B)
		}
	}
	walk(p.Body)
	return found
}

// matchesJumpBeforeHaltUnsoundness is the predicate of finding FS46: a block contains a break/continue on some path and ends
// in panic(...) on the others. The block counts as definitely halted, so a sibling branch's invalidation is taken as
// definite and the resource that is still live on the jump path is never reported.
func (p *Program) matchesJumpBeforeHaltUnsoundness() bool {
	found := false
	var hasJump func(ss []Stmt) bool
	hasJump = func(ss []Stmt) bool {
		for _, s := range ss {
			if s.K == "break" || s.K == "continue" {
				return true
			}
			if s.K == "while" || s.K == "for" || s.K == "fun" {
				continue
			}
			if hasJump(s.A) || hasJump(s.B) {
				return true
			}
		}
		return false
	}
	var haltsAtEnd func(ss []Stmt) bool
	haltsAtEnd = func(ss []Stmt) bool {
		if len(ss) == 0 {
			return false
		}
		last := ss[len(ss)-1]
		switch last.K {
		case "panic", "maybehalt":
			return true
		case "if", "iflet":
			return last.E && haltsAtEnd(last.A) && haltsAtEnd(last.B)
		}
		return false
	}
	var walk func(ss []Stmt)
	walk = func(ss []Stmt) {
		if haltsAtEnd(ss) && hasJump(ss[:len(ss)-1]) {
			found = true
		}
		for _, s := range ss {
			walk(s.A)
			walk(s.B)
		}
	}
	walk(p.Body)
	return found
}
