package linear

import (
	"fmt"
	"os"
	"strings"
	"testing"
)

func TestScratchC03(t *testing.T) {
	f := os.Getenv("SCRATCH_SRC")
	if f == "" {
		t.Skip()
	}
	b, _ := os.ReadFile(f)
	for _, body := range strings.Split(string(b), "----\n") {
		cr := check(prelude + "access(all) fun test() {\n" + body + "}\n")
		fmt.Printf("%s=> resource=%v other=%v\n\n", body, cr.Resource, cr.Other)
	}
}
