package num

import (
	"fmt"
	"math/big"
	"math/rand"
	"testing"

	fix "github.com/onflow/fixed-point"

	"github.com/onflow/cadence/interpreter"

	"verif/lib/evid"
	"verif/lib/host"
	"verif/lib/numv"
	"verif/lib/oracle"
)

// ---------------------------------------------------------------- C15
//
// Fixed-point arithmetic is exact at the type's scale. All values are handled
// as raw integers (value·10^scale); the reference results are computed with
// math/big only.

// fixRules maps the oracle's rounding rules to the library constants that the
// interpreter's MultiplyDivide takes (the *language-level* mapping from
// RoundingRule cases is exercised by the script slice below).
var fixRules = map[oracle.Rounding]fix.RoundingMode{
	oracle.TowardZero:      fix.RoundTowardZero,
	oracle.AwayFromZero:    fix.RoundAwayFromZero,
	oracle.NearestHalfAway: fix.RoundNearestHalfAway,
	oracle.NearestHalfEven: fix.RoundNearestHalfEven,
}

func ruleByName(s string) oracle.Rounding {
	for _, r := range oracle.Roundings {
		if r.String() == s {
			return r
		}
	}
	panic("unknown rounding rule " + s)
}

// c15Expect returns the expectation and the exact (unrounded) result in raw
// units as a rational (nil when there is none: division by zero).
func c15Expect(t oracle.Type, op string, a, b, c *big.Int, rule oracle.Rounding) (Expect, *big.Rat, bool) {
	scale := oracle.Pow10(t.Scale)
	// modMayFail: `%` is allowed to fail with a range error (only) when the quotient is out of range
	switch op {
	case "plus":
		x := new(big.Int).Add(a, b)
		return checkedExpect(t, x), new(big.Rat).SetInt(x), false
	case "minus":
		x := new(big.Int).Sub(a, b)
		return checkedExpect(t, x), new(big.Rat).SetInt(x), false
	case "negate":
		x := new(big.Int).Neg(a)
		return checkedExpect(t, x), new(big.Rat).SetInt(x), false
	case "mul":
		q := new(big.Rat).SetFrac(new(big.Int).Mul(a, b), scale)
		return checkedExpect(t, oracle.RoundRat(q, oracle.TowardZero)), q, false
	case "div":
		if b.Sign() == 0 {
			return Expect{Fail: "divzero"}, nil, false
		}
		q := new(big.Rat).SetFrac(new(big.Int).Mul(a, scale), b)
		return checkedExpect(t, oracle.RoundRat(q, oracle.TowardZero)), q, false
	case "mod":
		if b.Sign() == 0 {
			return Expect{Fail: "divzero"}, nil, false
		}
		// a - trunc(a/b)·b ; trunc(a/b) is an integer, in raw units trunc(a_raw/b_raw)
		k := oracle.TruncQuo(a, b)
		x := new(big.Int).Sub(a, new(big.Int).Mul(k, b))
		// quotient at the type's scale
		q := oracle.RoundRat(new(big.Rat).SetFrac(new(big.Int).Mul(a, scale), b), oracle.TowardZero)
		return Expect{Value: x}, new(big.Rat).SetFrac(a, b), !t.Fits(q)
	case "muldiv":
		if c.Sign() == 0 {
			return Expect{Fail: "divzero"}, nil, false
		}
		q := new(big.Rat).SetFrac(new(big.Int).Mul(a, b), c)
		return checkedExpect(t, oracle.RoundRat(q, rule)), q, false
	}
	panic("unknown op " + op)
}

func checkedExpect(t oracle.Type, exact *big.Int) Expect {
	if t.Fits(exact) {
		return Expect{Value: exact}
	}
	return Expect{Fail: "range"}
}

func c15Run(ctx *interpreter.Interpreter, t oracle.Type, op string, a, b, c *big.Int, rule oracle.Rounding) numv.Outcome {
	av := numv.Make(t, a)
	return numv.Call(func() interpreter.Value {
		switch op {
		case "plus":
			return av.Plus(ctx, numv.Make(t, b))
		case "minus":
			return av.Minus(ctx, numv.Make(t, b))
		case "mul":
			return av.Mul(ctx, numv.Make(t, b))
		case "div":
			return av.Div(ctx, numv.Make(t, b))
		case "mod":
			return av.Mod(ctx, numv.Make(t, b))
		case "negate":
			return av.Negate(ctx)
		case "muldiv":
			if rule == oracle.TowardZero {
				// the entry point programs use (`x.multiplyDivide(f, d)` without a rounding argument)
				return interpreter.NativeFixedPointMultiplyDivideFunction(ctx, nil, nil, av,
					[]interpreter.Value{numv.Make(t, b), numv.Make(t, c)})
			}
			return av.(interpreter.FixedPointValue).MultiplyDivide(ctx,
				numv.Make(t, b).(interpreter.FixedPointValue),
				numv.Make(t, c).(interpreter.FixedPointValue), fixRules[rule])
		}
		panic("unknown op " + op)
	})
}

func str(v *big.Int) string {
	if v == nil {
		return ""
	}
	return v.String()
}

type c15 struct {
	useKnown bool
	rec      *evid.Rec
	t        *testing.T
	ctx      *interpreter.Interpreter
}

func (k *c15) one(ty oracle.Type, op string, a, b, c *big.Int, rule oracle.Rounding) {
	e, q, modMayFail := c15Expect(ty, op, a, b, c, rule)
	o := c15Run(k.ctx, ty, op, a, b, c, rule)
	// non-trivial: discarded fraction, result within one unit of a range end or out of range,
	// non-zero result of magnitude below one unit, or zero divisor
	nt := e.Fail != ""
	label := "exact"
	if q != nil {
		switch {
		case !q.IsInt():
			nt = true
			label = "fraction"
			if new(big.Rat).Abs(q).Cmp(big.NewRat(1, 1)) < 0 {
				label = "subunit"
			} else if op == "muldiv" && new(big.Int).Mul(big.NewInt(2), new(big.Int).Rem(new(big.Int).Abs(q.Num()), q.Denom())).Cmp(q.Denom()) == 0 {
				label = "tie"
			}
		case e.Fail == "" && near(ty, e.Value, 1):
			nt = true
			label = "bound"
		}
	}
	if e.Fail != "" {
		label = "fail-" + e.Fail
	}
	if modMayFail {
		nt = true
		label = "mod-quotient-out-of-range"
	}
	rs := ""
	if op == "muldiv" {
		rs = rule.String()
	}
	k.rec.CaseH(nt, evid.Hash(ty.Name, op, rs, a.String(), str(b), str(c)))
	cl := ty.Name + "/" + op
	if rs != "" {
		cl += "/" + rs
	}
	if nt {
		k.rec.Class(cl + "/" + label)
		if k.rec.WantSample(cl + "/" + label) {
			k.rec.Sample(cl+"/"+label, map[string]any{"type": ty.Name, "op": op, "rule": rs, "a_raw": a.String(), "b_raw": str(b), "c_raw": str(c), "expected_raw": e.String()})
		}
	}
	msg := judge(ty, e, o)
	if hit, how := fn1Lib(ty, op, a, b, c, rule); hit {
		// known finding FN1: the dependency itself (called directly) is wrong for these magnitudes.
		// Counted, and excluded from the verdict only while FN1 is listed as known.
		sub := "/other-branch"
		if fn1Case(ty, op, a, b, c) {
			sub = "/edge-branch-mirror"
		}
		if msg == "" {
			k.rec.Class("FN1/" + how + sub + "/cadence-result-correct")
		} else {
			k.rec.Class("FN1/" + how + sub + "/cadence-result-wrong")
		}
		if k.useKnown && k.rec.Known("FN1") {
			k.rec.Excluded("FN1")
			return
		}
	}
	if msg != "" && modMayFail && numv.RangeFail(numv.ErrClass(o.Panic)) {
		msg = ""
		k.rec.Class(ty.Name + "/mod/failed-on-quotient-range")
	}
	if msg != "" {
		k.rec.Violation(k.t, Case{Type: ty.Name, Op: op, A: a.String(), B: str(b), C: str(c), Rule: rs},
			"%s (raw values, scale %d): %s %s %s %s %s: %s", ty.Name, ty.Scale, a, op, str(b), str(c), rs, msg)
	}
}

// c15Partner draws the second operand for (op, a): mostly the generic
// boundary-biased partner, plus partners that put the quotient at a range end or
// below one unit.
func c15Partner(p *oracle.Picker, r *rand.Rand, ty oracle.Type, op string, a *big.Int) *big.Int {
	scale := oracle.Pow10(ty.Scale)
	if op == "div" || op == "mod" {
		switch r.Intn(8) {
		case 0: // a·10^s / b near a bound
			if a.Sign() != 0 {
				bound := ty.Max
				if ty.Signed() && r.Intn(2) == 0 {
					bound = ty.Min
				}
				b := new(big.Int).Quo(new(big.Int).Mul(a, scale), bound)
				b.Add(b, big.NewInt(int64(r.Intn(5)-2)))
				if ty.Fits(b) {
					return b
				}
			}
		case 1: // tiny quotient: |b| > |a|·10^s
			b := new(big.Int).Mul(new(big.Int).Abs(a), scale)
			b.Add(b, big.NewInt(int64(r.Intn(3))))
			if ty.Signed() && r.Intn(2) == 0 {
				b.Neg(b)
			}
			if ty.Fits(b) {
				return b
			}
		case 2: // small divisors
			b := big.NewInt(int64(r.Intn(7) - 3))
			if ty.Fits(b) {
				return b
			}
		}
	}
	return nil
}

func (k *c15) pair(p *oracle.Picker, r *rand.Rand, ty oracle.Type, op string) (*big.Int, *big.Int) {
	a, b := p.Pair(r)
	if nb := c15Partner(p, r, ty, op, a); nb != nil {
		b = nb
	}
	return a, b
}

// triple draws (a, factor, divisor) for multiplyDivide.
func (k *c15) triple(p *oracle.Picker, r *rand.Rand, ty oracle.Type) (*big.Int, *big.Int, *big.Int) {
	scale := oracle.Pow10(ty.Scale)
	small := func() *big.Int {
		v := big.NewInt(int64(r.Intn(41)))
		if ty.Signed() && r.Intn(2) == 0 {
			v.Neg(v)
		}
		return v
	}
	switch r.Intn(10) {
	case 0, 1: // tiny raw values: many exact ties and sub-unit results
		return small(), small(), small()
	case 2: // a · 1.0 / (2k units·…): halves of odd raw values
		a := p.One(r)
		c := new(big.Int).Mul(scale, big.NewInt(int64(2*(r.Intn(4)+1))))
		if r.Intn(2) == 0 {
			c = big.NewInt(int64(2 * (r.Intn(4) + 1)))
		}
		if ty.Signed() && r.Intn(2) == 0 {
			c.Neg(c)
		}
		b := scale
		if r.Intn(2) == 0 {
			b = p.One(r)
		}
		if ty.Fits(c) {
			return a, b, c
		}
	case 3, 4, 5: // divisor chosen so that a·b/c is at a range end
		a, b := p.One(r), p.One(r)
		if a.Sign() != 0 && b.Sign() != 0 {
			bound := ty.Max
			if ty.Signed() && r.Intn(2) == 0 {
				bound = ty.Min
			}
			c := new(big.Int).Quo(new(big.Int).Mul(a, b), bound)
			c.Add(c, big.NewInt(int64(r.Intn(5)-2)))
			if ty.Fits(c) {
				return a, b, c
			}
		}
	case 6: // intermediate product far beyond the type's width, result in range
		a, b := p.One(r), p.One(r)
		c := new(big.Int).Set(a)
		if r.Intn(2) == 0 {
			c.Set(b)
		}
		c.Add(c, big.NewInt(int64(r.Intn(5)-2)))
		if ty.Fits(c) {
			return a, b, c
		}
	}
	return p.One(r), p.One(r), p.One(r)
}

func TestC15(t *testing.T) {
	rec := evid.Start(t, "C15", "direct calls of Plus/Minus/Mul/Div/Mod/Negate and MultiplyDivide (each of the four rounding rules) on Fix64, UFix64, Fix128, UFix128 values "+
		"compared with exact math/big rationals at the type's scale (truncation toward zero for the operators, the requested rule for multiplyDivide; failure iff the rounded result is out of range; "+
		"% may additionally fail only when the quotient at scale is out of range); operands from the fixed-point boundary pool (0, ±1 unit, ±1.0, ±0.5, 10^k, min, max, √(max·10^scale)±2) × pool plus random, "+
		"partners derived so that sums/products/quotients land within 2 units of a range end or below one unit, triples with exact ties; multiplyDivide without a rounding argument goes through the native function wrapper programs use; the boundary triples (a,0,0), (a,b,0), (0,b,c), (a,b,b), (a,0,c) systematically for all rules at the Go level and as scripts (default + four rules, both engines); plus a slice of the same cases executed as Cadence scripts on both engines. "+
		"Non-trivial: the exact result has a non-zero discarded fraction, or lies within one unit of a range end, or is out of range, or the divisor is zero, or (for %) the quotient is out of range. "+
		"Distinct by (type, op, rule, operands).")
	k := &c15{rec: rec, t: t, ctx: context(t), useKnown: evid.ReplayFile() == ""}
	types := typesWhere(func(ty oracle.Type) bool { return ty.IsFixed() })

	if f := evid.ReplayFile(); f != "" {
		var cs Case
		if err := evid.LoadReplay(f, &cs); err != nil {
			t.Fatalf("bad replay file: %v", err)
		}
		var b, c *big.Int
		if cs.B != "" {
			b = bi(cs.B)
		}
		if cs.C != "" {
			c = bi(cs.C)
		}
		rule := oracle.TowardZero
		if cs.Rule != "" {
			rule = ruleByName(cs.Rule)
		}
		if cs.Op == "script" {
			k.scriptCase(oracle.ByName(cs.Type), cs.Rule, bi(cs.A), b, c)
			return
		}
		k.one(oracle.ByName(cs.Type), cs.Op, bi(cs.A), b, c, rule)
		return
	}

	if rec.Known("FN1") {
		ty := oracle.ByName("Fix128")
		a, b, c := bi("20282409603651670423947251286015"), bi("4247091015633700519367227700732191"), bi("4247091015633700519367227700732192")
		e, _, _ := c15Expect(ty, "muldiv", a, b, c, oracle.TowardZero)
		hit, _ := fn1Lib(ty, "muldiv", a, b, c, oracle.TowardZero)
		rec.ReportKnown("FN1", hit && judge(ty, e, c15Run(k.ctx, ty, "muldiv", a, b, c, oracle.TowardZero)) != "")
	}

	n := evid.N(30_000, 350_000)
	for _, ty := range types {
		r := evid.Rand(int64(evid.Hash("C15", ty.Name) % 1000003))
		p := oracle.NewPicker(ty)
		pool := p.PoolValues()
		ops := []string{"plus", "minus", "mul", "div", "mod"}
		if ty.Signed() {
			for _, a := range pool {
				k.one(ty, "negate", a, nil, nil, 0)
			}
			for i := 0; i < n/10; i++ {
				k.one(ty, "negate", p.One(r), nil, nil, 0)
			}
		}
		for _, op := range ops {
			// strided sweep over pool × pool
			stride := len(pool)*len(pool)/n + 1
			for i := r.Intn(stride); i < len(pool)*len(pool); i += stride {
				k.one(ty, op, pool[i/len(pool)], pool[i%len(pool)], nil, 0)
			}
			for i := 0; i < n; i++ {
				a, b := k.pair(p, r, ty, op)
				k.one(ty, op, a, b, nil, 0)
			}
		}
		for _, rule := range oracle.Roundings {
			for i := 0; i < n; i++ {
				a, b, c := k.triple(p, r, ty)
				k.one(ty, "muldiv", a, b, c, rule)
			}
		}
	}

	// boundary triples of multiplyDivide, systematically: (a,0,0), (a,b,0), (0,b,c), (a,b,b), (a,0,c)
	// through the Go-level entry points (all rules) and as scripts on both engines (default + four rules)
	for _, ty := range types {
		rb := evid.Rand(int64(evid.Hash("C15b", ty.Name) % 1000003))
		p := oracle.NewPicker(ty)
		one := oracle.Pow10(ty.Scale)
		zero := big.NewInt(0)
		as := []*big.Int{zero, big.NewInt(1), one, ty.Max, new(big.Int).Sub(ty.Max, big.NewInt(1)), new(big.Int).Rsh(ty.Max, 1), p.One(rb), p.One(rb), ty.Random(rb)}
		nz := []*big.Int{big.NewInt(1), big.NewInt(3), one, ty.Max, new(big.Int).Add(new(big.Int).Rsh(ty.Max, 1), big.NewInt(1)), ty.Random(rb)}
		if ty.Signed() {
			as = append(as, big.NewInt(-1), new(big.Int).Neg(one), ty.Min, new(big.Int).Add(ty.Min, big.NewInt(1)))
			nz = append(nz, big.NewInt(-1), new(big.Int).Neg(one), ty.Min)
		}
		var nzs []*big.Int
		for _, v := range nz {
			if v.Sign() != 0 {
				nzs = append(nzs, v)
			}
		}
		type triple struct {
			a, b, c *big.Int
			shape   string
		}
		var ts []triple
		for _, a := range as {
			ts = append(ts, triple{a, zero, zero, "a,0,0"})
			for _, b := range nzs {
				ts = append(ts, triple{a, b, zero, "a,b,0"}, triple{a, b, b, "a,b,b"}, triple{a, zero, b, "a,0,c"})
			}
		}
		for _, b := range nzs {
			for _, c := range nzs {
				ts = append(ts, triple{zero, b, c, "0,b,c"})
			}
		}
		for i, tr := range ts {
			for _, rule := range oracle.Roundings {
				k.one(ty, "muldiv", tr.a, tr.b, tr.c, rule)
			}
			rec.Class("boundary-triple/" + tr.shape)
			// scripts: every (a,0,0), a quarter of the rest
			if tr.c.Sign() == 0 && tr.b.Sign() == 0 || i%4 == 0 {
				k.scriptOps(ty, tr.a, tr.b, tr.c, 5)
				rec.Class("boundary-triple-script/" + tr.shape)
			}
		}
	}

	// script slice: the same operations through the language on both engines
	ns := evid.N(300, 4000)
	r := evid.Rand(1515)
	for _, ty := range types {
		p := oracle.NewPicker(ty)
		for i := 0; i < ns/len(types); i++ {
			a, b, c := k.triple(p, r, ty)
			rule := oracle.Roundings[r.Intn(4)]
			k.scriptCase(ty, rule.String(), a, b, c)
		}
	}
	for _, shape := range []string{"a,0,0", "a,b,0", "0,b,c", "a,b,b", "a,0,c"} {
		if rec.ClassCount("boundary-triple/"+shape) == 0 || rec.ClassCount("boundary-triple-script/"+shape) == 0 {
			rec.Inconclusive(t, "boundary triple shape %s never generated", shape)
		}
	}
	for _, ty := range types {
		for _, op := range []string{"mul", "div", "mod", "muldiv/towardZero", "muldiv/nearestHalfEven"} {
			if rec.ClassCount(ty.Name+"/"+op+"/fraction") == 0 {
				rec.Inconclusive(t, "no case with a discarded fraction for %s %s", ty.Name, op)
			}
		}
		for _, rule := range oracle.Roundings {
			if rec.ClassCount(ty.Name+"/muldiv/"+rule.String()+"/tie") == 0 {
				rec.Inconclusive(t, "no exact tie generated for %s multiplyDivide %s", ty.Name, rule)
			}
		}
	}
}

// ---- script slice ---------------------------------------------------------------

const c15Script = `
access(all) fun main(a: %[1]s, b: %[1]s, c: %[1]s, op: Int): %[1]s {
    switch op {
    case 0: return a + b
    case 1: return a - b
    case 2: return a * b
    case 3: return a / b
    case 4: return a %% b
    case 5: return a.multiplyDivide(b, c)
    case 6: return a.multiplyDivide(b, c, rounding: RoundingRule.towardZero)
    case 7: return a.multiplyDivide(b, c, rounding: RoundingRule.awayFromZero)
    case 8: return a.multiplyDivide(b, c, rounding: RoundingRule.nearestHalfAway)
    case 9: return a.multiplyDivide(b, c, rounding: RoundingRule.nearestHalfEven)
    }
    return a
}`

// scriptCase runs all ten script operations for one operand triple on both engines.
func (k *c15) scriptCase(ty oracle.Type, _ string, a, b, c *big.Int) {
	k.scriptOps(ty, a, b, c, 0)
}

// scriptOps runs the script operations with index >= from (5.. = the five multiplyDivide forms).
func (k *c15) scriptOps(ty oracle.Type, a, b, c *big.Int, from int) {
	src := fmt.Sprintf(c15Script, ty.Name)
	type sop struct {
		op   string
		rule oracle.Rounding
	}
	sops := []sop{{"plus", 0}, {"minus", 0}, {"mul", 0}, {"div", 0}, {"mod", 0}, {"muldiv", oracle.TowardZero},
		{"muldiv", oracle.TowardZero}, {"muldiv", oracle.AwayFromZero}, {"muldiv", oracle.NearestHalfAway}, {"muldiv", oracle.NearestHalfEven}}
	for i, s := range sops {
		if i < from {
			continue
		}
		e, _, modMayFail := c15Expect(ty, s.op, a, b, c, s.rule)
		for _, eng := range host.Engines {
			h := host.New()
			res := h.Script(src, [][]byte{argJSON(ty, a), argJSON(ty, b), argJSON(ty, c), argJSON(oracle.ByName("Int"), big.NewInt(int64(i)))}, host.Options{Engine: eng})
			k.rec.Case(true, "script", ty.Name, i, a.String(), b.String(), c.String(), eng.String())
			k.rec.Class("script/" + eng.String())
			msg := judgeScript(ty, e, res)
			if hit, _ := fn1Lib(ty, s.op, a, b, c, s.rule); hit && k.useKnown && k.rec.Known("FN1") {
				k.rec.Excluded("FN1")
				continue
			}
			if msg != "" && modMayFail && scriptRangeFail(res) {
				msg = ""
			}
			if msg != "" {
				k.rec.Violation(k.t, Case{Type: ty.Name, Op: "script", A: a.String(), B: b.String(), C: c.String()},
					"%s script op %d (%s %s) on %s with raw a=%s b=%s c=%s: %s", ty.Name, i, s.op, s.rule, eng, a, b, c, msg)
			}
		}
	}
}
