package num

import (
	"fmt"
	"math/big"
	"math/rand"
	"sort"
	"testing"

	"github.com/onflow/cadence/interpreter"

	"verif/lib/evid"
	"verif/lib/host"
	"verif/lib/numv"
	"verif/lib/oracle"
)

// ---------------------------------------------------------------- C16
//
// Numeric conversions preserve the value or fail. Every (source, target) pair of
// the 27 numeric types through interpreter.ConverterDeclarations.

type convDecl struct {
	convert   func(interpreter.Value) interpreter.Value
	withRound func(interpreter.Value, oracle.Rounding) interpreter.Value
}

func converters(t testing.TB) map[string]convDecl {
	out := map[string]convDecl{}
	for _, d := range interpreter.ConverterDeclarations {
		d := d
		cd := convDecl{convert: func(v interpreter.Value) interpreter.Value { return d.Convert(nil, v) }}
		if d.ConvertWithRounding != nil {
			cd.withRound = func(v interpreter.Value, r oracle.Rounding) interpreter.Value {
				return d.ConvertWithRounding(nil, v, fixRules[r])
			}
		}
		out[d.Name] = cd
	}
	for _, ty := range oracle.Types {
		if _, ok := out[ty.Name]; !ok {
			t.Fatalf("no converter declaration for %s", ty.Name)
		}
	}
	return out
}

// c16Expect: src raw value `a` of type src converted to tgt, optionally with a rounding rule.
// Returns the expectation and whether the case is non-trivial with its label.
func c16Expect(src, tgt oracle.Type, a *big.Int, rule *oracle.Rounding) (Expect, bool, string) {
	v := src.RatOfRaw(a) // exact mathematical value
	r := oracle.TowardZero
	if rule != nil {
		r = *rule
	}
	// the value at the target's scale (integers: scale 0); rounding rules only apply to
	// excess *fractional digits*, i.e. to fixed-point targets; integer targets truncate
	var res *big.Int
	if tgt.IsFixed() {
		res = oracle.ScaleRat(v, tgt.Scale, r)
	} else {
		res = oracle.RoundRat(v, oracle.TowardZero)
	}
	hasFraction := !new(big.Rat).Mul(v, new(big.Rat).SetInt(oracle.Pow10(tgt.Scale))).IsInt()
	label := "plain"
	nt := false
	switch {
	case hasFraction:
		nt, label = true, "fraction"
	case a.Sign() < 0 && !tgt.Signed():
		nt, label = true, "negative-to-unsigned"
	}
	if !nt && near(src, a, 2) {
		nt, label = true, "source-bound"
	}
	if tgt.Kind == oracle.Word {
		if !tgt.Fits(res) {
			nt, label = true, "wraps"
		} else if near(tgt, res, 2) && (label == "plain" || label == "source-bound") {
			nt, label = true, "bound"
		}
		return Expect{Value: tgt.Wrap(res)}, nt, label
	}
	if !tgt.Fits(res) {
		if label == "plain" || label == "source-bound" {
			label = "out-of-range"
		}
		return Expect{Fail: "range"}, true, label
	}
	if near(tgt, res, 2) && (label == "plain" || label == "source-bound") {
		nt, label = true, "bound"
	}
	return Expect{Value: res}, nt, label
}

// c16Sources builds the source raw values for one (src, tgt) pair.
func c16Sources(src, tgt oracle.Type, pool []*big.Int, r *rand.Rand, nRandom int) []*big.Int {
	seen := map[string]bool{}
	var out []*big.Int
	add := func(raw *big.Int) {
		if !src.Fits(raw) {
			return
		}
		k := raw.String()
		if !seen[k] {
			seen[k] = true
			out = append(out, raw)
		}
	}
	srcScale := new(big.Rat).SetInt(oracle.Pow10(src.Scale))
	addRat := func(x *big.Rat) {
		// the source value closest to x from either side
		s := new(big.Rat).Mul(x, srcScale)
		add(oracle.RoundRat(s, oracle.TowardZero))
		add(oracle.RoundRat(s, oracle.AwayFromZero))
	}
	// anchors: the target's bounds, zero, and multiples of 2^n for Word targets
	var anchors []*big.Rat
	anchors = append(anchors, new(big.Rat))
	for _, b := range []*big.Int{tgt.Min, tgt.Max} {
		if b != nil {
			anchors = append(anchors, tgt.RatOfRaw(b))
		}
	}
	if tgt.Bits != 0 && tgt.IsInteger() {
		p := new(big.Int).Lsh(big.NewInt(1), uint(tgt.Bits))
		h := new(big.Int).Rsh(p, 1)
		for _, m := range []*big.Int{p, h, new(big.Int).Neg(p), new(big.Int).Neg(h), new(big.Int).Mul(p, big.NewInt(3))} {
			anchors = append(anchors, new(big.Rat).SetInt(m))
		}
	}
	// 2^63, 2^64: the limits of the native int paths (ToInt)
	for _, k := range []uint{31, 32, 63, 64} {
		p := new(big.Int).Lsh(big.NewInt(1), k)
		anchors = append(anchors, new(big.Rat).SetInt(p), new(big.Rat).SetInt(new(big.Int).Neg(p)))
	}
	unitS := new(big.Rat).SetFrac(big.NewInt(1), oracle.Pow10(src.Scale))
	unitT := new(big.Rat).SetFrac(big.NewInt(1), oracle.Pow10(tgt.Scale))
	offs := []*big.Rat{new(big.Rat), big.NewRat(1, 1), big.NewRat(2, 1), big.NewRat(1, 2), big.NewRat(3, 2),
		unitS, unitT, new(big.Rat).Mul(unitT, big.NewRat(1, 2)), new(big.Rat).Mul(unitT, big.NewRat(3, 2)),
		new(big.Rat).Mul(unitT, big.NewRat(5, 2)), new(big.Rat).Mul(unitT, big.NewRat(2, 1)),
		new(big.Rat).Add(new(big.Rat).Mul(unitT, big.NewRat(1, 2)), unitS), new(big.Rat).Sub(new(big.Rat).Mul(unitT, big.NewRat(1, 2)), unitS),
		new(big.Rat).Sub(big.NewRat(1, 1), unitS), new(big.Rat).Sub(big.NewRat(1, 1), unitT)}
	for _, an := range anchors {
		for _, o := range offs {
			addRat(new(big.Rat).Add(an, o))
			addRat(new(big.Rat).Sub(an, o))
		}
	}
	for _, b := range []*big.Int{src.Min, src.Max} {
		if b != nil {
			for d := int64(0); d <= 2; d++ {
				add(new(big.Int).Add(b, big.NewInt(d)))
				add(new(big.Int).Sub(b, big.NewInt(d)))
			}
		}
	}
	// a slice of the source pool and random values
	for i := 0; i < nRandom && len(pool) > 0; i++ {
		add(pool[r.Intn(len(pool))])
		add(src.Random(r))
	}
	return out
}

type c16Case struct {
	Src  string `json:"src"`
	Tgt  string `json:"tgt"`
	A    string `json:"a"`
	Rule string `json:"rule,omitempty"`
	Via  string `json:"via,omitempty"` // "" = Go level, else engine name
}

// c16Known returns the id of the known finding whose narrow predicate the case matches.
func c16Known(src, tgt oracle.Type, a *big.Int, rule *oracle.Rounding, e Expect) string {
	// FN2: narrowing conversion *with a rounding rule* from a 128-bit fixed-point value to a 64-bit
	// fixed-point type, non-zero source, rounded result exactly zero (the library reports "underflow").
	if rule != nil && src.IsFixed() && src.Bits == 128 && tgt.IsFixed() && tgt.Bits == 64 &&
		a.Sign() != 0 && e.Fail == "" && e.Value.Sign() == 0 {
		return "FN2"
	}
	// FN4: plain 128-bit -> 64-bit fixed-point conversion whose *untruncated* source lies outside the
	// target's range scaled to 24 places although the truncated value fits (range check before truncation).
	if rule == nil && src.IsFixed() && src.Bits == 128 && tgt.IsFixed() && tgt.Bits == 64 && e.Fail == "" {
		f := oracle.Pow10(16)
		if a.Cmp(new(big.Int).Mul(tgt.Max, f)) > 0 || a.Cmp(new(big.Int).Mul(tgt.Min, f)) < 0 {
			return "FN4"
		}
	}
	// FN3: plain Fix128 -> Fix64 conversion of a negative value that has digits beyond the 8th
	// fractional place (floor division instead of truncation in fix128BigIntToFix64).
	if rule == nil && src.Name == "Fix128" && tgt.Name == "Fix64" && a.Sign() < 0 && e.Fail == "" &&
		new(big.Int).Rem(a, oracle.Pow10(16)).Sign() != 0 {
		return "FN3"
	}
	return ""
}

type c16 struct {
	useKnown bool
	rec      *evid.Rec
	t        *testing.T
	convs    map[string]convDecl
	cells    map[string]int
}

func (k *c16) one(src, tgt oracle.Type, a *big.Int, rule *oracle.Rounding) {
	e, nt, label := c16Expect(src, tgt, a, rule)
	cd := k.convs[tgt.Name]
	sv := numv.Make(src, a)
	rs := ""
	if rule != nil {
		rs = rule.String()
	}
	o := numv.Call(func() interpreter.Value {
		if rule != nil {
			return cd.withRound(sv, *rule)
		}
		return cd.convert(sv)
	})
	k.rec.CaseH(nt, evid.Hash(src.Name, tgt.Name, a.String(), rs))
	if nt {
		k.cells[src.Name+">"+tgt.Name]++
		cl := label
		if rule != nil {
			cl = "rounding/" + rs + "/" + label
		}
		k.rec.Class(cl)
		sl := fmt.Sprintf("%s>%s/%s", src.Name, tgt.Name, cl)
		if k.rec.WantSample(cl) {
			k.rec.Sample(cl, map[string]any{"src": src.Name, "tgt": tgt.Name, "value": fixedString(src, a), "rule": rs, "expected_raw": e.String(), "label": sl})
		}
	}
	msg := judge(tgt, e, o)
	if id := c16Known(src, tgt, a, rule, e); id != "" && k.useKnown && k.rec.Known(id) {
		if msg == "" {
			k.rec.Class(id + "/predicate-holds-but-result-correct")
		}
		k.rec.Excluded(id)
		return
	}
	if msg != "" {
		k.rec.Violation(k.t, c16Case{Src: src.Name, Tgt: tgt.Name, A: a.String(), Rule: rs},
			"%s(%s as %s)%s: %s (raw target units)", tgt.Name, fixedString(src, a), src.Name, ruleSuffix(rs), msg)
	}
}

func ruleSuffix(rs string) string {
	if rs == "" {
		return ""
	}
	return " rounding " + rs
}

func (k *c16) script(src, tgt oracle.Type, a *big.Int, rule *oracle.Rounding, engines []host.Engine) {
	e, _, _ := c16Expect(src, tgt, a, rule)
	if id := c16Known(src, tgt, a, rule, e); id != "" && k.useKnown && k.rec.Known(id) {
		k.rec.Excluded(id)
		return
	}
	call := tgt.Name + "(x)"
	rs := ""
	if rule != nil {
		rs = rule.String()
		call = fmt.Sprintf("%s(x, rounding: RoundingRule.%s)", tgt.Name, rs)
	}
	srcCode := fmt.Sprintf("access(all) fun main(x: %s): %s { return %s }", src.Name, tgt.Name, call)
	for _, eng := range engines {
		res := host.New().Script(srcCode, [][]byte{argJSON(src, a)}, host.Options{Engine: eng})
		k.rec.Case(true, "script", eng.String(), src.Name, tgt.Name, a.String(), rs)
		k.rec.Class("script/" + eng.String())
		if msg := judgeScript(tgt, e, res); msg != "" {
			k.rec.Violation(k.t, c16Case{Src: src.Name, Tgt: tgt.Name, A: a.String(), Rule: rs, Via: eng.String()},
				"script %s with x = %s on %s: %s", srcCode, fixedString(src, a), eng, msg)
		}
	}
}

func TestC16(t *testing.T) {
	rec := evid.Start(t, "C16", "every (source, target) pair of the 27 numeric types through interpreter.ConverterDeclarations[target].Convert, and ConvertWithRounding with each of the four rules where declared (Fix64, UFix64); "+
		"source values: the target's bounds, 0, ±2^31, ±2^32, ±2^63, ±2^64 and (integer targets) multiples of 2^n, each ± {0,1,2,0.5,1.5, 1 source unit, 1/0.5/1.5/2/2.5 target units, half a target unit ± one source unit} "+
		"expressed in the source type from both sides, the source's own bounds ±2, a slice of the source boundary pool and random values; plus the same conversion as a Cadence script `T(x)` / `T(x, rounding: r)` on both engines for a sample. "+
		"Oracle: exact rational value; integer target = truncation toward zero must fit (Word: reduced mod 2^n, never fails); fixed-point target = value truncated (or rounded by the rule) to the target scale must fit; otherwise overflow/underflow error. "+
		"Non-trivial: value has digits the target cannot hold, or is negative with an unsigned/Word target, or is out of range / wraps, or the result is within 2 units of a target bound, or the source is within 2 units of its own bounds (the only boundary a pure widening has). Distinct by (source, target, value, rule).")
	k := &c16{rec: rec, t: t, convs: converters(t), cells: map[string]int{}, useKnown: evid.ReplayFile() == ""}
	if rec.Known("FN3") {
		src, tgt := oracle.ByName("Fix128"), oracle.ByName("Fix64")
		e, _, _ := c16Expect(src, tgt, big.NewInt(-1), nil)
		o := numv.Call(func() interpreter.Value { return k.convs["Fix64"].convert(numv.Make(src, big.NewInt(-1))) })
		rec.ReportKnown("FN3", judge(tgt, e, o) != "")
	}
	if rec.Known("FN4") {
		src, tgt := oracle.ByName("Fix128"), oracle.ByName("UFix64")
		e, _, _ := c16Expect(src, tgt, big.NewInt(-1), nil)
		o := numv.Call(func() interpreter.Value { return k.convs["UFix64"].convert(numv.Make(src, big.NewInt(-1))) })
		rec.ReportKnown("FN4", judge(tgt, e, o) != "")
	}
	if rec.Known("FN2") {
		src, tgt := oracle.ByName("Fix128"), oracle.ByName("Fix64")
		rule := oracle.TowardZero
		e, _, _ := c16Expect(src, tgt, big.NewInt(1), &rule)
		o := numv.Call(func() interpreter.Value { return k.convs["Fix64"].withRound(numv.Make(src, big.NewInt(1)), rule) })
		rec.ReportKnown("FN2", judge(tgt, e, o) != "")
	}

	if f := evid.ReplayFile(); f != "" {
		var cs c16Case
		if err := evid.LoadReplay(f, &cs); err != nil {
			t.Fatalf("bad replay file: %v", err)
		}
		var rule *oracle.Rounding
		if cs.Rule != "" {
			r := ruleByName(cs.Rule)
			rule = &r
		}
		src, tgt := oracle.ByName(cs.Src), oracle.ByName(cs.Tgt)
		if cs.Via != "" {
			k.script(src, tgt, bi(cs.A), rule, host.Engines)
			return
		}
		k.one(src, tgt, bi(cs.A), rule)
		return
	}

	nRandom := evid.N(400, 6000)
	scriptEvery := evid.N(397, 97) // every n-th case also runs as a script
	counter := 0
	pools := map[string][]*big.Int{}
	for _, ty := range oracle.Types {
		pools[ty.Name] = ty.Pool()
	}
	for _, src := range oracle.Types {
		for _, tgt := range oracle.Types {
			r := evid.Rand(int64(evid.Hash("C16", src.Name, tgt.Name) % 1000003))
			for _, a := range c16Sources(src, tgt, pools[src.Name], r, nRandom) {
				k.one(src, tgt, a, nil)
				var rule *oracle.Rounding
				if k.convs[tgt.Name].withRound != nil {
					for i := range oracle.Roundings {
						k.one(src, tgt, a, &oracle.Roundings[i])
					}
					rule = &oracle.Roundings[r.Intn(4)]
					if r.Intn(3) == 0 {
						rule = nil
					}
				}
				counter++
				if counter%scriptEvery == 0 {
					k.script(src, tgt, a, rule, host.Engines)
				}
			}
		}
	}
	// coverage matrix: every cell must have at least one non-trivial case
	var empty []string
	matrix := map[string]int{}
	for _, src := range oracle.Types {
		for _, tgt := range oracle.Types {
			c := k.cells[src.Name+">"+tgt.Name]
			matrix[src.Name+">"+tgt.Name] = c
			if c == 0 && !(tgt.Name == "Int" && src.IsInteger()) {
				// (integer -> Int admits no non-trivial case under the rule: no fraction, no bound, always representable)
				empty = append(empty, src.Name+">"+tgt.Name)
			}
		}
	}
	sort.Strings(empty)
	rec.Extra("pair_matrix_nontrivial_cases", matrix)
	rec.Extra("pairs_total", len(matrix))
	rec.Extra("pairs_without_nontrivial_case", empty)
	if len(empty) > 0 {
		rec.Inconclusive(t, "conversion pairs without a non-trivial case: %v", empty)
	}
	for _, cl := range []string{"fraction", "negative-to-unsigned", "wraps", "out-of-range", "bound", "rounding/nearestHalfEven/fraction", "script/interpreter", "script/vm"} {
		if rec.ClassCount(cl) == 0 {
			rec.Inconclusive(t, "class %q never generated", cl)
		}
	}
}
