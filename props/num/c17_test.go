package num

import (
	"encoding/hex"
	"encoding/json"
	"fmt"
	"math/big"
	"math/rand"
	"sort"
	"strings"
	"testing"

	"github.com/onflow/cadence"
	jsoncdc "github.com/onflow/cadence/encoding/json"
	"github.com/onflow/cadence/interpreter"

	"verif/lib/evid"
	"verif/lib/host"
	"verif/lib/numv"
	"verif/lib/oracle"
)

// ---------------------------------------------------------------- C17
//
// Textual and byte encodings of numbers and addresses round-trip.

// ---- reference reading of a numeral ----------------------------------------------

// denoted is the value a string denotes under a deliberately liberal grammar
//
//	[+-]? digits? ( '.' digits? )?      with at least one digit
//
// ok=false means no reading exists at all (foreign characters, empty, lone sign,
// two dots, inner sign, …): every parser must then return nil.
type denoted struct {
	ok         bool
	neg        bool   // written with '-'
	sign       string // "", "+", "-"
	intDigits  string
	fracDigits string
	hasDot     bool
}

func readNumeral(s string) denoted {
	d := denoted{}
	rest := s
	if strings.HasPrefix(rest, "+") || strings.HasPrefix(rest, "-") {
		d.sign = rest[:1]
		d.neg = d.sign == "-"
		rest = rest[1:]
	}
	ip, fp, dot := strings.Cut(rest, ".")
	d.hasDot = dot
	isDigits := func(x string) bool {
		for i := 0; i < len(x); i++ {
			if x[i] < '0' || x[i] > '9' {
				return false
			}
		}
		return true
	}
	if !isDigits(ip) || !isDigits(fp) || len(ip)+len(fp) == 0 {
		return denoted{}
	}
	d.ok, d.intDigits, d.fracDigits = true, ip, fp
	return d
}

// rawAt returns the denoted value as a raw integer at the given scale; exact=false
// when the value has non-zero digits beyond the scale.
func (d denoted) rawAt(scale int) (*big.Int, bool) {
	fp := d.fracDigits
	exact := true
	if len(fp) > scale {
		if strings.Trim(fp[scale:], "0") != "" {
			exact = false
		}
		fp = fp[:scale]
	}
	for len(fp) < scale {
		fp += "0"
	}
	ds := d.intDigits + fp
	if ds == "" {
		ds = "0"
	}
	v, _ := new(big.Int).SetString(ds, 10)
	if d.neg {
		v.Neg(v)
	}
	return v, exact
}

// representable: the string's value can be written in t: in range and not more
// fraction digits than the scale (and a '.' exactly when t is fixed-point).
func (d denoted) representable(t oracle.Type) bool {
	if !d.ok || len(d.fracDigits) > t.Scale {
		return false
	}
	raw, _ := d.rawAt(t.Scale)
	return t.Fits(raw)
}

func classOf(t oracle.Type) string {
	switch t.Kind {
	case oracle.SignedInt:
		return "signed-integer"
	case oracle.UnsignedInt, oracle.Word:
		return "unsigned-integer"
	case oracle.SignedFix:
		return "signed-fixed"
	}
	return "unsigned-fixed"
}

var c17Classes = []string{"signed-integer", "unsigned-integer", "signed-fixed", "unsigned-fixed"}

// parseOutcome of one parser call.
type parseOutcome struct {
	accepted bool
	raw      *big.Int
	panicked any
}

func c17Parse(t oracle.Type, s string) (o parseOutcome) {
	p := interpreter.StringValueParsers[t.Name]
	defer func() {
		if r := recover(); r != nil {
			o.panicked = r
		}
	}()
	res := p.Parser(nil, s)
	switch v := res.(type) {
	case interpreter.NilValue:
		return parseOutcome{}
	case *interpreter.SomeValue:
		inner := v.InnerValue()
		name, raw := numv.Raw(inner)
		if name != t.Name {
			return parseOutcome{panicked: fmt.Sprintf("parser of %s returned a %s", t.Name, name)}
		}
		return parseOutcome{accepted: true, raw: raw}
	}
	return parseOutcome{panicked: fmt.Sprintf("unexpected parser result %T", res)}
}

type c17 struct {
	rec      *evid.Rec
	t        *testing.T
	useKnown bool
}

type c17Case struct {
	Part   string   `json:"part"`
	Str    string   `json:"str,omitempty"`
	Type   string   `json:"type,omitempty"`
	Raw    string   `json:"raw,omitempty"`
	Bytes  []string `json:"bytes,omitempty"` // hex
	Engine string   `json:"engine,omitempty"`
}

// fn5 is the narrow predicate of known finding FN5: fixed-point type, the denoted value is out of
// range, but it would be in range if the fraction digits were read *unscaled* (as the integer they
// spell, in units of 10^-scale) — which is what fixedpoint.CheckRange compares.
func fn5(t oracle.Type, d denoted) bool {
	if !t.IsFixed() || !d.ok || !d.hasDot || len(d.fracDigits) == 0 || len(d.fracDigits) >= t.Scale || d.intDigits == "" {
		return false
	}
	raw, _ := d.rawAt(t.Scale)
	if t.Fits(raw) {
		return false
	}
	ip, _ := new(big.Int).SetString(d.intDigits, 10)
	fp, _ := new(big.Int).SetString(d.fracDigits, 10)
	mis := new(big.Int).Add(new(big.Int).Mul(ip, oracle.Pow10(t.Scale)), fp)
	if d.neg {
		mis.Neg(mis)
	}
	return t.Fits(mis)
}

// checkString runs s through all 27 parsers and applies the four rules.
func (k *c17) checkString(s string, perturbation string) {
	d := readNumeral(s)
	outs := map[string]parseOutcome{}
	for _, t := range oracle.Types {
		outs[t.Name] = c17Parse(t, s)
	}
	viol := func(format string, args ...any) {
		k.rec.Violation(k.t, c17Case{Part: "string", Str: s}, "fromString(%q): %s", s, fmt.Sprintf(format, args...))
	}
	for _, cl := range c17Classes {
		var decided []string // decisions of the types in which the value is representable
		boundHit := false
		for _, t := range oracle.Types {
			if classOf(t) != cl {
				continue
			}
			o := outs[t.Name]
			if fn5(t, d) {
				if !o.accepted {
					k.rec.Class("FN5/predicate-holds-but-rejected")
				}
				if k.useKnown && k.rec.Known("FN5") {
					k.rec.Excluded("FN5")
					continue
				}
			}
			if o.panicked != nil {
				viol("%s parser panicked: %v", t.Name, o.panicked)
			}
			if !d.ok && o.accepted {
				viol("%s accepts a string that denotes no number (got raw %s)", t.Name, o.raw)
			}
			if !d.ok {
				continue
			}
			raw, exact := d.rawAt(t.Scale)
			if o.accepted && (!exact || o.raw.Cmp(raw) != 0) {
				viol("%s returns raw %s, the string denotes %s (exact at scale: %v)", t.Name, o.raw, raw, exact)
			}
			if o.accepted && !t.Fits(raw) {
				viol("%s accepts the out-of-range value %s", t.Name, raw)
			}
			if !t.Fits(raw) && exact && !o.accepted {
				k.rec.Class("range-rejected/" + cl)
			}
			if d.representable(t) {
				decided = append(decided, fmt.Sprintf("%s=%v", t.Name, o.accepted))
				if near(t, raw, 1) {
					boundHit = true
				}
			}
		}
		if d.ok {
			acc, rej := 0, 0
			for _, x := range decided {
				if strings.HasSuffix(x, "=true") {
					acc++
				} else {
					rej++
				}
			}
			if acc > 0 && rej > 0 {
				viol("acceptance differs between types of class %s in all of which the value is representable: %v", cl, decided)
			}
			if acc > 0 {
				k.rec.Class("accepted/" + cl + "/" + perturbation)
			} else if rej > 0 {
				k.rec.Class("rejected/" + cl + "/" + perturbation)
			}
		} else {
			k.rec.Class("no-reading/" + cl + "/" + perturbation)
		}
		nt := perturbation != "canonical" || boundHit
		k.rec.Case(nt, "str", cl, s)
		if nt && k.rec.WantSample("string/"+perturbation) {
			k.rec.Sample("string/"+perturbation, map[string]any{"string": s, "perturbation": perturbation, "class": cl, "decisions": decided})
		}
	}
}

// ---- string generator --------------------------------------------------------------

func digitsOf(v *big.Int) string { return new(big.Int).Abs(v).String() }

// baseNumerals returns canonical numerals (value strings) interesting for class cl.
func baseNumerals(cl string, r *rand.Rand, n int) []string {
	var out []string
	fixed := strings.HasSuffix(cl, "fixed")
	signed := strings.HasPrefix(cl, "signed")
	for _, t := range oracle.Types {
		if classOf(t) != cl {
			continue
		}
		for _, b := range []*big.Int{t.Min, t.Max} {
			if b == nil {
				continue
			}
			for d := int64(-1); d <= 1; d++ {
				v := new(big.Int).Add(b, big.NewInt(d))
				if fixed {
					out = append(out, fixedString(t, v))
					// short and long fractions at the extreme integer part
					ip := new(big.Int).Quo(v, oracle.Pow10(t.Scale))
					for _, f := range []string{"0", "5", "6", "9", "54", "55", "99", "547758", "5477581", "54775807", "54775808", "3", "4", "2", "1",
						"211455", "211456", "768211455", "768211456", "105727", "105728", "884105727", "884105728"} {
						out = append(out, ip.String()+"."+f)
					}
				} else {
					out = append(out, v.String())
				}
			}
		}
		for i := 0; i < n; i++ {
			var v *big.Int
			if i%2 == 0 {
				p := t.Pool()
				v = p[r.Intn(len(p))]
			} else {
				v = t.Random(r)
			}
			if fixed {
				s := fixedString(t, v)
				// vary the number of fraction digits: strip trailing zeros / cut / extend
				switch r.Intn(4) {
				case 0:
					s = strings.TrimRight(s, "0")
					if strings.HasSuffix(s, ".") {
						s += "0"
					}
				case 1:
					ip, fp, _ := strings.Cut(s, ".")
					s = ip + "." + fp[:1+r.Intn(len(fp))]
				case 2:
					s += strings.Repeat("0", r.Intn(20))
				}
				out = append(out, s)
			} else {
				out = append(out, v.String())
			}
		}
	}
	_ = signed
	for _, s := range []string{"0", "1", "7", "10", "255", "256"} {
		if fixed {
			out = append(out, s+".0", s+".5", s+".00000001", s+".000000001", s+".000000000000000000000001", s+".0000000000000000000000001")
		} else {
			out = append(out, s)
		}
	}
	return out
}

type perturb struct {
	name string
	f    func(s string, r *rand.Rand) string
}

var perturbations = []perturb{
	{"canonical", func(s string, _ *rand.Rand) string { return s }},
	{"plus-sign", func(s string, _ *rand.Rand) string { return "+" + strings.TrimLeft(s, "+-") }},
	{"minus-sign", func(s string, _ *rand.Rand) string { return "-" + strings.TrimLeft(s, "+-") }},
	{"minus-zero", func(s string, r *rand.Rand) string {
		if strings.Contains(s, ".") {
			return []string{"-0.0", "-0.00000000", "-00.0", "+0.0", "-0.000000000000000000000000"}[r.Intn(5)]
		}
		return []string{"-0", "-00", "+0", "-000000"}[r.Intn(4)]
	}},
	{"leading-zeros", func(s string, r *rand.Rand) string {
		sign := ""
		if strings.HasPrefix(s, "-") || strings.HasPrefix(s, "+") {
			sign, s = s[:1], s[1:]
		}
		return sign + strings.Repeat("0", 1+r.Intn(30)) + s
	}},
	{"underscore", func(s string, r *rand.Rand) string {
		i := r.Intn(len(s) + 1)
		return s[:i] + "_" + s[i:]
	}},
	{"space", func(s string, r *rand.Rand) string {
		i := r.Intn(len(s) + 1)
		return s[:i] + []string{" ", "\t", "\n", " ", "\x00"}[r.Intn(5)] + s[i:]
	}},
	{"base-prefix", func(s string, r *rand.Rand) string {
		p := []string{"0x", "0X", "0b", "0o", "0"}[r.Intn(5)]
		if strings.HasPrefix(s, "-") {
			return "-" + p + s[1:]
		}
		return p + s
	}},
	{"empty-or-lone", func(_ string, r *rand.Rand) string {
		return []string{"", "+", "-", ".", "-.", "+.", "..", "_", " ", "-_1", "+-1", "--1", "++1", "-+1"}[r.Intn(14)]
	}},
	{"missing-part", func(s string, r *rand.Rand) string {
		ip, fp, dot := strings.Cut(s, ".")
		if !dot {
			return []string{s + ".", "." + strings.TrimLeft(s, "-+")}[r.Intn(2)]
		}
		return []string{ip + ".", "." + fp, strings.TrimRight(ip, "0123456789") + "." + fp}[r.Intn(3)]
	}},
	{"two-dots", func(s string, r *rand.Rand) string {
		i := r.Intn(len(s) + 1)
		return s[:i] + "." + s[i:] + []string{"", ".0"}[r.Intn(2)]
	}},
	{"exponent", func(s string, r *rand.Rand) string {
		return s + []string{"e0", "e1", "E2", "e-1", "e+1", "p1"}[r.Intn(6)]
	}},
	{"inner-sign", func(s string, r *rand.Rand) string {
		i := 1 + r.Intn(len(s))
		return s[:i] + []string{"-", "+"}[r.Intn(2)] + s[i:]
	}},
	{"foreign-digits", func(s string, r *rand.Rand) string {
		// replace one ASCII digit by a non-ASCII decimal digit / letter
		idx := []int{}
		for i := 0; i < len(s); i++ {
			if s[i] >= '0' && s[i] <= '9' {
				idx = append(idx, i)
			}
		}
		if len(idx) == 0 {
			return s + "a"
		}
		i := idx[r.Intn(len(idx))]
		return s[:i] + []string{"١", "１", "a", "f", "²", "l", "O"}[r.Intn(7)] + s[i+1:]
	}},
	{"sign-in-fraction", func(s string, r *rand.Rand) string {
		ip, fp, dot := strings.Cut(s, ".")
		if !dot {
			return s + ".-0"
		}
		return ip + "." + []string{"-", "+"}[r.Intn(2)] + fp
	}},
	{"extra-fraction-digit", func(s string, r *rand.Rand) string {
		if !strings.Contains(s, ".") {
			return s + ".0"
		}
		return s + []string{"0", "1", "5", "9"}[r.Intn(4)]
	}},
	{"integer-for-fixed-or-back", func(s string, _ *rand.Rand) string {
		ip, _, dot := strings.Cut(s, ".")
		if dot {
			return ip
		}
		return s + ".0"
	}},
	{"words", func(_ string, r *rand.Rand) string {
		return []string{"NaN", "Inf", "-Inf", "infinity", "nil", "true", "1/2", "1,000", "1.000,5", "0x", "1e", "١٢٣", "１２３"}[r.Intn(13)]
	}},
}

// ---- bytes -------------------------------------------------------------------------

func typeSize(t oracle.Type) int { return t.Bits / 8 }

// decodeBE is the reference two's-complement / unsigned decoding of exactly size bytes.
func decodeBE(t oracle.Type, b []byte) *big.Int {
	v := new(big.Int).SetBytes(b)
	if t.Signed() && len(b) > 0 && b[0]&0x80 != 0 {
		v.Sub(v, new(big.Int).Lsh(big.NewInt(1), uint(8*len(b))))
	}
	return v
}

func encodeBE(t oracle.Type, v *big.Int) []byte {
	n := typeSize(t)
	p := oracle.ToTwos(v, t.Bits)
	return p.FillBytes(make([]byte, n))
}

func bytesArg(bs [][]byte) []byte {
	var sb strings.Builder
	sb.WriteString(`{"type":"Array","value":[`)
	for i, b := range bs {
		if i > 0 {
			sb.WriteByte(',')
		}
		sb.WriteString(`{"type":"Array","value":[`)
		for j, x := range b {
			if j > 0 {
				sb.WriteByte(',')
			}
			fmt.Fprintf(&sb, `{"type":"UInt8","value":"%d"}`, x)
		}
		sb.WriteString(`]}`)
	}
	sb.WriteString(`]}`)
	return []byte(sb.String())
}

func numbersArg(t oracle.Type, vs []*big.Int) []byte {
	var sb strings.Builder
	sb.WriteString(`{"type":"Array","value":[`)
	for i, v := range vs {
		if i > 0 {
			sb.WriteByte(',')
		}
		sb.Write(argJSON(t, v))
	}
	sb.WriteString(`]}`)
	return []byte(sb.String())
}

// jsonOf exports a cadence value and decodes the JSON generically.
func jsonOf(v cadence.Value) (map[string]any, error) {
	if v == nil {
		return nil, fmt.Errorf("no value")
	}
	b, err := jsoncdc.Encode(v)
	if err != nil {
		return nil, err
	}
	var m map[string]any
	dec := json.NewDecoder(strings.NewReader(string(b)))
	dec.UseNumber()
	if err := dec.Decode(&m); err != nil {
		return nil, err
	}
	return m, nil
}

// numFromJSON reads {"type":T,"value":"…"}.
func numFromJSON(m any, t oracle.Type) (*big.Int, error) {
	mm, ok := m.(map[string]any)
	if !ok || mm["type"] != t.Name {
		return nil, fmt.Errorf("not a %s: %v", t.Name, m)
	}
	s, _ := mm["value"].(string)
	raw, ok := parseDecimal(s, t.Scale)
	if !ok {
		return nil, fmt.Errorf("bad number %v", m)
	}
	return raw, nil
}

func bytesFromJSON(m any) ([]byte, error) {
	mm, ok := m.(map[string]any)
	if !ok || mm["type"] != "Array" {
		return nil, fmt.Errorf("not an array: %v", m)
	}
	var out []byte
	for _, e := range mm["value"].([]any) {
		em := e.(map[string]any)
		var x int
		if _, err := fmt.Sscanf(em["value"].(string), "%d", &x); err != nil {
			return nil, err
		}
		out = append(out, byte(x))
	}
	return out, nil
}

func hexes(bs [][]byte) []string {
	out := make([]string, len(bs))
	for i, b := range bs {
		out[i] = hex.EncodeToString(b)
	}
	return out
}

// checkBytesScript: fromBigEndianBytes over byte arrays of every length 0..size+1 on one engine.
func (k *c17) checkBytesScript(t oracle.Type, inputs [][]byte, eng host.Engine) {
	src := fmt.Sprintf(`access(all) fun main(bs: [[UInt8]]): [%[1]s?] {
        let r: [%[1]s?] = []
        for b in bs { r.append(%[1]s.fromBigEndianBytes(b)) }
        return r
    }`, t.Name)
	res := host.New().Script(src, [][]byte{bytesArg(inputs)}, host.Options{Engine: eng})
	cs := c17Case{Part: "fromBytes", Type: t.Name, Bytes: hexes(inputs), Engine: eng.String()}
	if res.Err != nil || res.Panic != nil {
		k.rec.Violation(k.t, cs, "%s.fromBigEndianBytes script failed on %s: err=%v panic=%v", t.Name, eng, res.Err, res.Panic)
	}
	m, err := jsonOf(res.Value)
	if err != nil {
		k.rec.Violation(k.t, cs, "cannot export result: %v", err)
	}
	vals := m["value"].([]any)
	if len(vals) != len(inputs) {
		k.rec.Violation(k.t, cs, "result has %d entries for %d inputs", len(vals), len(inputs))
	}
	size := typeSize(t)
	for i, b := range inputs {
		opt := vals[i].(map[string]any)
		inner := opt["value"]
		tooLong := size != 0 && len(b) > size
		nt := len(b) >= size-1 || len(b) == 0
		k.rec.Case(nt, "fromBytes", t.Name, hex.EncodeToString(b), eng.String())
		one := c17Case{Part: "fromBytes", Type: t.Name, Bytes: []string{hex.EncodeToString(b)}, Engine: eng.String()}
		switch {
		case tooLong:
			k.rec.Class("bytes/too-long")
			if inner != nil {
				k.rec.Violation(k.t, one, "%s.fromBigEndianBytes(%x) (%d bytes > size %d) on %s returned %v, want nil", t.Name, b, len(b), size, eng, inner)
			}
		case inner == nil:
			k.rec.Violation(k.t, one, "%s.fromBigEndianBytes(%x) (%d bytes <= size %d) on %s returned nil", t.Name, b, len(b), size, eng)
		default:
			raw, err := numFromJSON(inner, t)
			if err != nil {
				k.rec.Violation(k.t, one, "%s.fromBigEndianBytes(%x) on %s: %v", t.Name, b, eng, err)
			}
			if len(b) == size && size != 0 {
				k.rec.Class("bytes/full-size")
				if want := decodeBE(t, b); raw.Cmp(want) != 0 {
					k.rec.Violation(k.t, one, "%s.fromBigEndianBytes(%x) on %s = raw %s, want %s", t.Name, b, eng, raw, want)
				}
			} else {
				// shorter inputs: the statement fixes no reading; record which extension is used
				k.rec.Class("bytes/short")
				if !t.Fits(raw) {
					k.rec.Violation(k.t, one, "%s.fromBigEndianBytes(%x) on %s = raw %s outside the type's range", t.Name, b, eng, raw)
				}
				if t.Signed() && len(b) > 0 && b[0]&0x80 != 0 && size != 0 {
					if raw.Sign() < 0 {
						k.rec.Class("bytes/short-input-extension/" + t.Name + "/sign-extended")
					} else {
						k.rec.Class("bytes/short-input-extension/" + t.Name + "/zero-extended")
					}
				}
			}
		}
	}
}

// checkToBytesScript: x.toBigEndianBytes() and the round trip, one engine.
func (k *c17) checkToBytesScript(t oracle.Type, vals []*big.Int, eng host.Engine) {
	src := fmt.Sprintf(`access(all) fun main(xs: [%[1]s]): [[UInt8]] {
        let r: [[UInt8]] = []
        for x in xs {
            let b = x.toBigEndianBytes()
            r.append(b)
            let back = %[1]s.fromBigEndianBytes(b)
            if back == nil || back! != x { r.append([1, 2, 3, 4, 5, 6, 7, 8, 9, 10, 11, 12, 13, 14, 15, 16, 17, 18, 19, 20, 21, 22, 23, 24, 25, 26, 27, 28, 29, 30, 31, 32, 33, 34, 35, 36, 37, 38, 39, 40, 41, 42, 43]) } else { r.append([]) }
        }
        return r
    }`, t.Name)
	res := host.New().Script(src, [][]byte{numbersArg(t, vals)}, host.Options{Engine: eng})
	strs := make([]string, len(vals))
	for i, v := range vals {
		strs[i] = v.String()
	}
	cs := c17Case{Part: "toBytes", Type: t.Name, Raw: strings.Join(strs, ","), Engine: eng.String()}
	if res.Err != nil || res.Panic != nil {
		k.rec.Violation(k.t, cs, "%s.toBigEndianBytes script failed on %s: err=%v panic=%v", t.Name, eng, res.Err, res.Panic)
	}
	m, err := jsonOf(res.Value)
	if err != nil {
		k.rec.Violation(k.t, cs, "cannot export result: %v", err)
	}
	arr := m["value"].([]any)
	size := typeSize(t)
	for i, v := range vals {
		one := c17Case{Part: "toBytes", Type: t.Name, Raw: v.String(), Engine: eng.String()}
		b, err := bytesFromJSON(arr[2*i])
		if err != nil {
			k.rec.Violation(k.t, one, "bad bytes: %v", err)
		}
		flag, _ := bytesFromJSON(arr[2*i+1])
		k.rec.Case(near(t, v, 1) || v.Sign() < 0, "toBytes", t.Name, v.String(), eng.String())
		k.rec.Class("bytes/round-trip")
		if len(flag) != 0 {
			k.rec.Violation(k.t, one, "%s.fromBigEndianBytes(x.toBigEndianBytes()) != x for raw x = %s on %s (bytes %x)", t.Name, v, eng, b)
		}
		if size != 0 {
			if want := encodeBE(t, v); hex.EncodeToString(want) != hex.EncodeToString(b) {
				k.rec.Violation(k.t, one, "%s raw %s .toBigEndianBytes() on %s = %x, want %x", t.Name, v, eng, b, want)
			}
		} else if decodeBE(t, b).Cmp(v) != 0 {
			k.rec.Violation(k.t, one, "%s raw %s .toBigEndianBytes() on %s = %x which does not decode to the value", t.Name, v, eng, b)
		}
	}
}

// bytes at the Go level: converter tables + ToBigEndianBytes, random volume
func (k *c17) checkBytesGo(t oracle.Type, v *big.Int) {
	val := numv.Make(t, v)
	tb, ok := val.(interface{ ToBigEndianBytes() []byte })
	if !ok {
		k.rec.Violation(k.t, c17Case{Part: "goBytes", Type: t.Name, Raw: v.String()}, "%s value has no ToBigEndianBytes", t.Name)
	}
	var b []byte
	var back *big.Int
	o := numv.Call(func() interpreter.Value {
		b = tb.ToBigEndianBytes()
		cp := append([]byte(nil), b...)
		return interpreter.BigEndianBytesConverters[t.Name].Converter(nil, cp)
	})
	k.rec.Case(near(t, v, 1) || v.Sign() < 0, "goBytes", t.Name, v.String())
	one := c17Case{Part: "goBytes", Type: t.Name, Raw: v.String()}
	if o.Panic != nil {
		k.rec.Violation(k.t, one, "%s raw %s: byte round trip panicked: %v", t.Name, v, o.Panic)
	}
	_, back = numv.Raw(o.Value)
	if back.Cmp(v) != 0 {
		k.rec.Violation(k.t, one, "%s raw %s -> %x -> %s", t.Name, v, b, back)
	}
	if size := typeSize(t); size != 0 && hex.EncodeToString(b) != hex.EncodeToString(encodeBE(t, v)) {
		k.rec.Violation(k.t, one, "%s raw %s .ToBigEndianBytes() = %x, want %x", t.Name, v, b, encodeBE(t, v))
	}
}

// ---- addresses, hex strings, paths ---------------------------------------------------

func (k *c17) checkMisc(r *rand.Rand, n int, eng host.Engine) {
	// addresses
	var addrs []uint64
	for _, a := range []uint64{0, 1, 0xff, 0x100, 1 << 32, 1<<63 - 1, 1 << 63, ^uint64(0), 0x0102030405060708} {
		addrs = append(addrs, a)
	}
	for i := 0; i < n; i++ {
		addrs = append(addrs, r.Uint64()>>uint(r.Intn(64)))
	}
	var sb strings.Builder
	sb.WriteString(`{"type":"Array","value":[`)
	for i, a := range addrs {
		if i > 0 {
			sb.WriteByte(',')
		}
		fmt.Fprintf(&sb, `{"type":"Address","value":"0x%016x"}`, a)
	}
	sb.WriteString(`]}`)
	src := `access(all) fun main(xs: [Address]): [[AnyStruct]] {
        let r: [[AnyStruct]] = []
        for a in xs {
            let s = a.toString()
            let b = a.toBytes()
            r.append([s, b, Address.fromString(s) == a, Address.fromBytes(b) == a, Address.fromString(s) != nil])
        }
        return r
    }`
	res := host.New().Script(src, [][]byte{[]byte(sb.String())}, host.Options{Engine: eng})
	cs := c17Case{Part: "address", Engine: eng.String()}
	if res.Err != nil || res.Panic != nil {
		k.rec.Violation(k.t, cs, "address script failed on %s: err=%v panic=%v", eng, res.Err, res.Panic)
	}
	m, err := jsonOf(res.Value)
	if err != nil {
		k.rec.Violation(k.t, cs, "cannot export: %v", err)
	}
	for i, row := range m["value"].([]any) {
		cols := row.(map[string]any)["value"].([]any)
		a := addrs[i]
		one := c17Case{Part: "address", Raw: fmt.Sprintf("0x%016x", a), Engine: eng.String()}
		k.rec.Case(a>>56 == 0 || a>>63 == 1, "address", a, eng.String())
		k.rec.Class("address")
		s := cols[0].(map[string]any)["value"].(string)
		b, _ := bytesFromJSON(cols[1])
		okStr := cols[2].(map[string]any)["value"].(bool)
		okBytes := cols[3].(map[string]any)["value"].(bool)
		if !okStr {
			k.rec.Violation(k.t, one, "Address.fromString(a.toString()) != a for a = 0x%016x on %s (toString = %q)", a, eng, s)
		}
		if !okBytes {
			k.rec.Violation(k.t, one, "Address.fromBytes(a.toBytes()) != a for a = 0x%016x on %s (toBytes = %x)", a, eng, b)
		}
		if want := fmt.Sprintf("%016x", a); hex.EncodeToString(b) != want {
			k.rec.Violation(k.t, one, "a.toBytes() = %x, want %s on %s", b, want, eng)
		}
		// the string must denote the same number in hexadecimal
		hs := strings.TrimPrefix(s, "0x")
		if v, ok := new(big.Int).SetString(hs, 16); !ok || !strings.HasPrefix(s, "0x") || v.Cmp(new(big.Int).SetUint64(a)) != 0 {
			k.rec.Violation(k.t, one, "a.toString() = %q does not denote 0x%x on %s", s, a, eng)
		}
	}

	// hex strings: decodeHex(encodeHex(b)) == b, encodeHex(b) is the lowercase hex, encodeHex(decodeHex(s)) == s
	var bss [][]byte
	for _, l := range []int{0, 1, 2, 7, 8, 32, 33} {
		b := make([]byte, l)
		r.Read(b)
		bss = append(bss, b)
	}
	bss = append(bss, []byte{0x00}, []byte{0xff, 0x00, 0x7f, 0x80}, []byte{0xab, 0xcd, 0xef})
	for i := 0; i < n; i++ {
		b := make([]byte, r.Intn(40))
		r.Read(b)
		bss = append(bss, b)
	}
	src = `access(all) fun main(bs: [[UInt8]]): [[AnyStruct]] {
        let r: [[AnyStruct]] = []
        for b in bs {
            let s = String.encodeHex(b)
            r.append([s, s.decodeHex() == b, String.encodeHex(s.decodeHex()) == s])
        }
        return r
    }`
	res = host.New().Script(src, [][]byte{bytesArg(bss)}, host.Options{Engine: eng})
	cs = c17Case{Part: "hex", Engine: eng.String(), Bytes: hexes(bss)}
	if res.Err != nil || res.Panic != nil {
		k.rec.Violation(k.t, cs, "hex script failed on %s: err=%v panic=%v", eng, res.Err, res.Panic)
	}
	m, err = jsonOf(res.Value)
	if err != nil {
		k.rec.Violation(k.t, cs, "cannot export: %v", err)
	}
	for i, row := range m["value"].([]any) {
		cols := row.(map[string]any)["value"].([]any)
		b := bss[i]
		one := c17Case{Part: "hex", Bytes: []string{hex.EncodeToString(b)}, Engine: eng.String()}
		k.rec.Case(len(b) == 0 || b[0] == 0 || b[0] >= 0x80, "hex", hex.EncodeToString(b), eng.String())
		k.rec.Class("hex")
		s := cols[0].(map[string]any)["value"].(string)
		if s != hex.EncodeToString(b) {
			k.rec.Violation(k.t, one, "String.encodeHex(%x) = %q on %s", b, s, eng)
		}
		if !cols[1].(map[string]any)["value"].(bool) || !cols[2].(map[string]any)["value"].(bool) {
			k.rec.Violation(k.t, one, "hex round trip of %x fails on %s", b, eng)
		}
	}

	// paths: P(identifier: id)!.toString() == "/domain/id"; rebuilding from the printed identifier gives an equal path
	ids := []string{"a", "foo", "foo_bar", "_x", "A1", "x9_", "flowTokenVault", strings.Repeat("long", 20)}
	const alpha = "abcdefghijklmnopqrstuvwxyzABCDEFGHIJKLMNOPQRSTUVWXYZ0123456789_"
	for i := 0; i < n; i++ {
		l := 1 + r.Intn(24)
		var ib strings.Builder
		for j := 0; j < l; j++ {
			ib.WriteByte(alpha[r.Intn(len(alpha))])
		}
		ids = append(ids, ib.String())
	}
	sb.Reset()
	sb.WriteString(`{"type":"Array","value":[`)
	for i, id := range ids {
		if i > 0 {
			sb.WriteByte(',')
		}
		fmt.Fprintf(&sb, `{"type":"String","value":%q}`, id)
	}
	sb.WriteString(`]}`)
	src = `access(all) fun main(ids: [String]): [[AnyStruct]] {
        let r: [[AnyStruct]] = []
        for id in ids {
            let s = StoragePath(identifier: id)!
            let p = PublicPath(identifier: id)!
            let ss = s.toString()
            let ps = p.toString()
            let s2 = StoragePath(identifier: ss.slice(from: 9, upTo: ss.length))!
            let p2 = PublicPath(identifier: ps.slice(from: 8, upTo: ps.length))!
            r.append([ss, ps, s2 == s, p2 == p])
        }
        return r
    }`
	res = host.New().Script(src, [][]byte{[]byte(sb.String())}, host.Options{Engine: eng})
	cs = c17Case{Part: "path", Engine: eng.String()}
	if res.Err != nil || res.Panic != nil {
		k.rec.Violation(k.t, cs, "path script failed on %s: err=%v panic=%v", eng, res.Err, res.Panic)
	}
	m, err = jsonOf(res.Value)
	if err != nil {
		k.rec.Violation(k.t, cs, "cannot export: %v", err)
	}
	for i, row := range m["value"].([]any) {
		cols := row.(map[string]any)["value"].([]any)
		id := ids[i]
		one := c17Case{Part: "path", Str: id, Engine: eng.String()}
		k.rec.Case(strings.HasPrefix(id, "_") || len(id) > 20, "path", id, eng.String())
		k.rec.Class("path")
		if got := cols[0].(map[string]any)["value"].(string); got != "/storage/"+id {
			k.rec.Violation(k.t, one, "StoragePath(identifier: %q)!.toString() = %q on %s", id, got, eng)
		}
		if got := cols[1].(map[string]any)["value"].(string); got != "/public/"+id {
			k.rec.Violation(k.t, one, "PublicPath(identifier: %q)!.toString() = %q on %s", id, got, eng)
		}
		if !cols[2].(map[string]any)["value"].(bool) || !cols[3].(map[string]any)["value"].(bool) {
			k.rec.Violation(k.t, one, "path rebuilt from its printed identifier %q differs on %s", id, eng)
		}
	}
}

// fromStringScript ties the parser table to the language: T.fromString(s) on both engines.
func (k *c17) fromStringScript(t oracle.Type, strs []string, eng host.Engine) {
	var sb strings.Builder
	sb.WriteString(`{"type":"Array","value":[`)
	for i, s := range strs {
		if i > 0 {
			sb.WriteByte(',')
		}
		b, _ := json.Marshal(s)
		fmt.Fprintf(&sb, `{"type":"String","value":%s}`, b)
	}
	sb.WriteString(`]}`)
	src := fmt.Sprintf(`access(all) fun main(ss: [String]): [%[1]s?] {
        let r: [%[1]s?] = []
        for s in ss { r.append(%[1]s.fromString(s)) }
        return r
    }`, t.Name)
	res := host.New().Script(src, [][]byte{[]byte(sb.String())}, host.Options{Engine: eng})
	cs := c17Case{Part: "fromStringScript", Type: t.Name, Str: strings.Join(strs, "\x1f"), Engine: eng.String()}
	if res.Err != nil || res.Panic != nil {
		k.rec.Violation(k.t, cs, "%s.fromString script failed on %s: err=%v panic=%v", t.Name, eng, res.Err, res.Panic)
	}
	m, err := jsonOf(res.Value)
	if err != nil {
		k.rec.Violation(k.t, cs, "cannot export: %v", err)
	}
	for i, e := range m["value"].([]any) {
		inner := e.(map[string]any)["value"]
		want := c17Parse(t, strs[i])
		one := c17Case{Part: "fromStringScript", Type: t.Name, Str: strs[i], Engine: eng.String()}
		k.rec.Case(true, "fromStringScript", t.Name, strs[i], eng.String())
		k.rec.Class("fromString-script/" + eng.String())
		if (inner != nil) != want.accepted {
			k.rec.Violation(k.t, one, "%s.fromString(%q) on %s: accepted=%v, parser table says %v", t.Name, strs[i], eng, inner != nil, want.accepted)
		}
		if inner != nil {
			raw, err := numFromJSON(inner, t)
			if err != nil || raw.Cmp(want.raw) != 0 {
				k.rec.Violation(k.t, one, "%s.fromString(%q) on %s = %v, parser table gives raw %s", t.Name, strs[i], eng, inner, want.raw)
			}
		}
	}
}

func TestC17(t *testing.T) {
	rec := evid.Start(t, "C17", "(i) values of all 27 numeric types (boundary pool + random) -> String() -> StringValueParsers[T] must give the value back; "+
		"(ii) numerals around every type's bounds (±1) and random, canonical and with one of 18 perturbations (+/- sign, -0, leading zeros, underscore, whitespace/NUL, base prefix, empty/lone sign, missing integer or fraction part, two dots, exponent, inner sign, non-ASCII digits, sign in fraction, excess fraction digit, integer<->fixed form, words), each run through all 27 parsers: never a panic; a string with no reading under a liberal numeral grammar is rejected by all; an accepted string yields exactly its denoted value; an out-of-range value is rejected; and within a class (signed/unsigned × integer/fixed) all types in which the value is representable (in range, fraction digits ≤ scale) take the same accept/reject decision; "+
		"(iii) byte arrays of every length 0..size+1 (00/7f/80/ff patterns + random) through T.fromBigEndianBytes in scripts on both engines: nil exactly when longer than the size, full-size inputs decode as two's complement; x.toBigEndianBytes() is the size-byte two's-complement form and fromBigEndianBytes gives x back (scripts + direct calls of the converter table); "+
		"(iv) Address toString/fromString/toBytes/fromBytes, String.encodeHex/decodeHex, StoragePath/PublicPath(identifier:)/toString round trips in scripts on both engines; a sample of (ii) also through T.fromString in scripts. "+
		"Non-trivial: the string is perturbed or denotes a bound of some type of the class; byte inputs of length 0, size-1, size, size+1; negative or bound values. Distinct by (class, string) / (type, bytes) / (type, value).")
	k := &c17{rec: rec, t: t, useKnown: evid.ReplayFile() == ""}

	if f := evid.ReplayFile(); f != "" {
		var cs c17Case
		if err := evid.LoadReplay(f, &cs); err != nil {
			t.Fatalf("bad replay file: %v", err)
		}
		unhex := func(hs []string) [][]byte {
			var out [][]byte
			for _, h := range hs {
				b, _ := hex.DecodeString(h)
				out = append(out, b)
			}
			return out
		}
		switch cs.Part {
		case "string":
			k.checkString(cs.Str, "replay")
		case "roundtrip":
			k.roundTrip(oracle.ByName(cs.Type), bi(cs.Raw))
		case "fromBytes":
			for _, e := range host.Engines {
				k.checkBytesScript(oracle.ByName(cs.Type), unhex(cs.Bytes), e)
			}
		case "toBytes":
			var vs []*big.Int
			for _, s := range strings.Split(cs.Raw, ",") {
				vs = append(vs, bi(s))
			}
			for _, e := range host.Engines {
				k.checkToBytesScript(oracle.ByName(cs.Type), vs, e)
			}
		case "goBytes":
			k.checkBytesGo(oracle.ByName(cs.Type), bi(cs.Raw))
		case "fromStringScript":
			for _, e := range host.Engines {
				k.fromStringScript(oracle.ByName(cs.Type), strings.Split(cs.Str, "\x1f"), e)
			}
		default:
			for _, e := range host.Engines {
				k.checkMisc(evid.Rand(17), evid.N(60, 600), e)
			}
		}
		return
	}

	if rec.Known("FN5") {
		o := c17Parse(oracle.ByName("Fix64"), "-92233720368.55")
		rec.ReportKnown("FN5", o.accepted)
	}

	// (i) value -> string -> value
	nv := evid.N(3000, 200_000)
	for _, ty := range oracle.Types {
		r := evid.Rand(int64(evid.Hash("C17i", ty.Name) % 1000003))
		for _, v := range ty.Pool() {
			k.roundTrip(ty, v)
		}
		for i := 0; i < nv; i++ {
			k.roundTrip(ty, ty.Random(r))
		}
	}

	// (ii) strings
	r := evid.Rand(1717)
	nb := evid.N(40, 900)
	rounds := evid.N(3, 6)
	var scriptStrs []string
	for _, cl := range c17Classes {
		bases := baseNumerals(cl, r, nb)
		for _, b := range bases {
			for _, p := range perturbations {
				for i := 0; i < rounds; i++ {
					s := p.f(b, r)
					k.checkString(s, p.name)
					if r.Intn(200) == 0 {
						scriptStrs = append(scriptStrs, s)
					}
					if p.name == "canonical" {
						break
					}
				}
			}
		}
	}
	sort.Strings(scriptStrs)
	for _, ty := range oracle.Types {
		for _, eng := range host.Engines {
			for i := 0; i < len(scriptStrs); i += 200 {
				k.fromStringScript(ty, scriptStrs[i:min(i+200, len(scriptStrs))], eng)
			}
		}
	}

	// (iii) bytes
	patterns := []byte{0x00, 0x7f, 0x80, 0xff, 0x01}
	for _, ty := range oracle.Types {
		rb := evid.Rand(int64(evid.Hash("C17iii", ty.Name) % 1000003))
		size := typeSize(ty)
		maxLen := size + 1
		if size == 0 {
			maxLen = 40
		}
		var inputs [][]byte
		for l := 0; l <= maxLen; l++ {
			for _, pb := range patterns {
				b := make([]byte, l)
				for i := range b {
					b[i] = pb
				}
				inputs = append(inputs, b)
				if l == 0 {
					break
				}
				// first byte differs from the rest
				b2 := make([]byte, l)
				b2[0] = pb
				inputs = append(inputs, b2)
			}
			for j := 0; j < evid.N(2, 20) && l > 0; j++ {
				b := make([]byte, l)
				rb.Read(b)
				inputs = append(inputs, b)
			}
		}
		for _, eng := range host.Engines {
			k.checkBytesScript(ty, inputs, eng)
		}
		var vals []*big.Int
		pool := ty.Pool()
		for i := 0; i < evid.N(60, 400); i++ {
			if i < len(pool) && i < 40 {
				vals = append(vals, pool[(i*7)%len(pool)])
			} else {
				vals = append(vals, ty.Random(rb))
			}
		}
		for _, eng := range host.Engines {
			k.checkToBytesScript(ty, vals, eng)
		}
		for _, v := range pool {
			k.checkBytesGo(ty, v)
		}
		for i := 0; i < evid.N(2000, 100_000); i++ {
			k.checkBytesGo(ty, ty.Random(rb))
		}
	}

	// (iv) addresses, hex strings, paths
	for _, eng := range host.Engines {
		k.checkMisc(evid.Rand(17), evid.N(60, 600), eng)
	}

	for _, cl := range c17Classes {
		for _, want := range []string{"accepted/" + cl + "/canonical", "accepted/" + cl + "/leading-zeros", "rejected/" + cl + "/underscore", "no-reading/" + cl + "/space", "range-rejected/" + cl} {
			if want == "rejected/"+cl+"/underscore" {
				want = "no-reading/" + cl + "/underscore"
			}
			if rec.ClassCount(want) == 0 {
				rec.Inconclusive(t, "class %q never generated", want)
			}
		}
	}
	for _, want := range []string{"bytes/too-long", "bytes/full-size", "bytes/short", "bytes/round-trip", "address", "hex", "path", "fromString-script/interpreter", "fromString-script/vm"} {
		if rec.ClassCount(want) == 0 {
			rec.Inconclusive(t, "class %q never generated", want)
		}
	}
}

func (k *c17) roundTrip(ty oracle.Type, v *big.Int) {
	val := numv.Make(ty, v)
	var s string
	var out parseOutcome
	func() {
		defer func() {
			if r := recover(); r != nil {
				out.panicked = r
			}
		}()
		s = val.String()
		out = c17Parse(ty, s)
	}()
	nt := near(ty, v, 1) || v.Sign() < 0
	k.rec.CaseH(nt, evid.Hash("rt", ty.Name, v.String()))
	k.rec.Class("round-trip/" + classOf(ty))
	one := c17Case{Part: "roundtrip", Type: ty.Name, Raw: v.String()}
	if out.panicked != nil {
		k.rec.Violation(k.t, one, "%s raw %s: toString/fromString panicked: %v", ty.Name, v, out.panicked)
	}
	if !out.accepted || out.raw.Cmp(v) != 0 {
		k.rec.Violation(k.t, one, "%s.fromString(%q) = accepted:%v raw:%v, want raw %s", ty.Name, s, out.accepted, out.raw, v)
	}
	// the printed form itself must denote the value
	d := readNumeral(s)
	if raw, exact := d.rawAt(ty.Scale); !d.ok || !exact || raw.Cmp(v) != 0 {
		k.rec.Violation(k.t, one, "%s raw %s prints as %q which does not denote it", ty.Name, v, s)
	}
	if nt && k.rec.WantSample("round-trip/"+ty.Name) && (ty.Name == "Fix128" || ty.Name == "Int256") {
		k.rec.Sample("round-trip/"+ty.Name, map[string]any{"type": ty.Name, "raw": v.String(), "string": s})
	}
}
