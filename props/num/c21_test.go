package num

import (
	"fmt"
	"math/big"
	"math/rand"
	"sort"
	"strings"
	"testing"

	"verif/lib/evid"
	"verif/lib/host"
	"verif/lib/oracle"
)

// ---------------------------------------------------------------- C21
//
// InclusiveRange iteration and membership match the arithmetic sequence.

type rangeSpec struct {
	Start   *big.Int
	End     *big.Int
	Step    *big.Int // nil = omitted
	Needles []*big.Int
}

type c21Case struct {
	Type    string   `json:"type"`
	Start   string   `json:"start"`
	End     string   `json:"end"`
	Step    string   `json:"step,omitempty"`
	Needles []string `json:"needles,omitempty"`
	Engine  string   `json:"engine,omitempty"`
}

func (s rangeSpec) toCase(ty oracle.Type, eng string) c21Case {
	c := c21Case{Type: ty.Name, Start: s.Start.String(), End: s.End.String(), Engine: eng}
	if s.Step != nil {
		c.Step = s.Step.String()
	}
	for _, n := range s.Needles {
		c.Needles = append(c.Needles, n.String())
	}
	return c
}

func (s rangeSpec) String() string {
	if s.Step == nil {
		return fmt.Sprintf("InclusiveRange(%s, %s)", s.Start, s.End)
	}
	return fmt.Sprintf("InclusiveRange(%s, %s, step: %s)", s.Start, s.End, s.Step)
}

// effectiveStep returns the step of the denoted sequence, or a reason why the
// construction must fail (the statement only speaks about successfully constructed ranges).
func effectiveStep(ty oracle.Type, s rangeSpec) (*big.Int, string) {
	c := s.Start.Cmp(s.End)
	if s.Step == nil {
		if c > 0 {
			if !ty.Signed() {
				return nil, "negative default step for unsigned type"
			}
			return big.NewInt(-1), ""
		}
		return big.NewInt(1), ""
	}
	if s.Step.Sign() == 0 {
		return nil, "zero step"
	}
	if c < 0 && s.Step.Sign() < 0 || c > 0 && s.Step.Sign() > 0 {
		return nil, "moving away from end"
	}
	return s.Step, ""
}

// sequence is the reference: start + k·step while not beyond end, in ℤ.
func sequence(s rangeSpec, step *big.Int, limit int) []*big.Int {
	var out []*big.Int
	cur := new(big.Int).Set(s.Start)
	for len(out) <= limit {
		if step.Sign() > 0 && cur.Cmp(s.End) > 0 || step.Sign() < 0 && cur.Cmp(s.End) < 0 {
			break
		}
		out = append(out, new(big.Int).Set(cur))
		cur.Add(cur, step)
	}
	return out
}

func member(s rangeSpec, step, x *big.Int) bool {
	if step.Sign() > 0 && (x.Cmp(s.Start) < 0 || x.Cmp(s.End) > 0) {
		return false
	}
	if step.Sign() < 0 && (x.Cmp(s.Start) > 0 || x.Cmp(s.End) < 0) {
		return false
	}
	d := new(big.Int).Sub(x, s.Start)
	return new(big.Int).Rem(d, step).Sign() == 0
}

const c21MaxLen = 300

const c21Script = `
access(all) fun main(starts: [%[1]s], ends: [%[1]s], steps: [%[1]s], hasStep: [Bool], needles: [[%[1]s]]): [[AnyStruct]] {
    let out: [[AnyStruct]] = []
    var i = 0
    while i < starts.length {
        let r = hasStep[i] ? InclusiveRange(starts[i], ends[i], step: steps[i]) : InclusiveRange(starts[i], ends[i])
        let elems: [%[1]s] = []
        for x in r {
            elems.append(x)
            if elems.length > 1000 { break }
        }
        let cs: [Bool] = []
        for n in needles[i] { cs.append(r.contains(n)) }
        out.append([elems, cs, r.start, r.end, r.step])
        i = i + 1
    }
    return out
}`

type c21 struct {
	rec *evid.Rec
	t   *testing.T
}

// runBatch executes the ranges in one script per engine; on a script failure it falls back to
// running the ranges one by one to find the culprit.
func (k *c21) runBatch(ty oracle.Type, specs []rangeSpec, engines []host.Engine) {
	if len(specs) == 0 {
		return
	}
	src := fmt.Sprintf(c21Script, ty.Name)
	var starts, ends, steps []*big.Int
	var has strings.Builder
	var nd strings.Builder
	has.WriteString(`{"type":"Array","value":[`)
	nd.WriteString(`{"type":"Array","value":[`)
	for i, s := range specs {
		starts = append(starts, s.Start)
		ends = append(ends, s.End)
		if s.Step != nil {
			steps = append(steps, s.Step)
		} else {
			steps = append(steps, big.NewInt(0))
		}
		if i > 0 {
			has.WriteByte(',')
			nd.WriteByte(',')
		}
		fmt.Fprintf(&has, `{"type":"Bool","value":%v}`, s.Step != nil)
		nd.Write(numbersArg(ty, s.Needles))
	}
	has.WriteString(`]}`)
	nd.WriteString(`]}`)
	args := [][]byte{numbersArg(ty, starts), numbersArg(ty, ends), numbersArg(ty, steps), []byte(has.String()), []byte(nd.String())}
	for _, eng := range engines {
		g := host.NewGauge(false)
		g.CompLimit = 50_000_000
		res := host.New().Script(src, args, host.Options{Engine: eng, Gauge: g})
		if res.Err != nil || res.Panic != nil {
			if len(specs) == 1 {
				k.rec.Case(true, "range", ty.Name, specs[0].String(), eng.String())
				k.rec.Violation(k.t, specs[0].toCase(ty, eng.String()), "%s %s with needles %v on %s: constructing, iterating or contains failed: err=%v panic=%v",
					ty.Name, specs[0], specs[0].Needles, eng, res.Err, res.Panic)
			}
			for _, s := range specs {
				k.runBatch(ty, []rangeSpec{s}, []host.Engine{eng})
			}
			continue
		}
		m, err := jsonOf(res.Value)
		if err != nil {
			k.rec.Violation(k.t, specs[0].toCase(ty, eng.String()), "cannot export the result: %v", err)
		}
		rows := m["value"].([]any)
		if len(rows) != len(specs) {
			k.rec.Violation(k.t, specs[0].toCase(ty, eng.String()), "%d results for %d ranges", len(rows), len(specs))
		}
		for i, s := range specs {
			k.judge(ty, s, rows[i].(map[string]any)["value"].([]any), eng)
		}
	}
}

func (k *c21) judge(ty oracle.Type, s rangeSpec, cols []any, eng host.Engine) {
	step, _ := effectiveStep(ty, s)
	want := sequence(s, step, c21MaxLen+5)
	cs := s.toCase(ty, eng.String())
	// non-trivial: end within |step| of a type bound, or the step does not divide end-start
	absStep := new(big.Int).Abs(step)
	nt := new(big.Int).Rem(new(big.Int).Sub(s.End, s.Start), step).Sign() != 0
	label := "plain"
	if nt {
		label = "unreachable-end"
	}
	for _, b := range []*big.Int{ty.Min, ty.Max} {
		if b != nil && new(big.Int).Abs(new(big.Int).Sub(b, s.End)).Cmp(absStep) < 0 {
			nt = true
			if new(big.Int).Sub(b, s.End).Sign() == 0 {
				label = "end-at-type-bound"
			} else if label == "plain" {
				label = "end-near-type-bound"
			}
		}
	}
	stepS := "omitted"
	if s.Step != nil {
		stepS = s.Step.String()
	}
	k.rec.Case(nt, "range", ty.Name, s.Start.String(), s.End.String(), stepS, eng.String())
	dir := "ascending"
	if step.Sign() < 0 {
		dir = "descending"
	}
	k.rec.Class(classOfInt(ty) + "/" + dir + "/" + label)
	k.rec.Class("engine/" + eng.String())
	if s.Step == nil {
		k.rec.Class("step-omitted/" + dir)
	}
	if nt && k.rec.WantSample(classOfInt(ty)+"/"+dir+"/"+label) {
		k.rec.Sample(classOfInt(ty)+"/"+dir+"/"+label, map[string]any{"type": ty.Name, "range": s.String(), "expected_length": len(want)})
	}
	// fields
	for j, f := range []struct {
		name string
		v    *big.Int
	}{{"start", s.Start}, {"end", s.End}, {"step", step}} {
		got, err := numFromJSON(cols[2+j], ty)
		if err != nil || got.Cmp(f.v) != 0 {
			k.rec.Violation(k.t, cs, "%s %s on %s: field %s = %v, want %s", ty.Name, s, eng, f.name, cols[2+j], f.v)
		}
	}
	// iteration
	elems := cols[0].(map[string]any)["value"].([]any)
	if len(elems) != len(want) {
		k.rec.Violation(k.t, cs, "%s %s on %s: iteration yields %d elements, the sequence has %d", ty.Name, s, eng, len(elems), len(want))
	}
	for i, e := range elems {
		got, err := numFromJSON(e, ty)
		if err != nil || got.Cmp(want[i]) != 0 {
			k.rec.Violation(k.t, cs, "%s %s on %s: element %d is %v, want %s", ty.Name, s, eng, i, e, want[i])
		}
	}
	// membership
	conts := cols[1].(map[string]any)["value"].([]any)
	if len(conts) != len(s.Needles) {
		k.rec.Violation(k.t, cs, "%s %s on %s: %d contains results for %d needles", ty.Name, s, eng, len(conts), len(s.Needles))
	}
	for i, n := range s.Needles {
		got := conts[i].(map[string]any)["value"].(bool)
		exp := member(s, step, n)
		k.rec.Evals(1)
		if exp {
			k.rec.Class("contains/true")
		} else {
			k.rec.Class("contains/false")
		}
		if n.Sign()*s.Start.Sign() < 0 {
			k.rec.Class("contains/needle-and-start-of-different-sign")
		}
		if got != exp {
			one := cs
			one.Needles = []string{n.String()}
			k.rec.Violation(k.t, one, "%s %s .contains(%s) on %s = %v, want %v", ty.Name, s, n, eng, got, exp)
		}
	}
}

func classOfInt(ty oracle.Type) string {
	switch {
	case ty.Kind == oracle.Word:
		return "word"
	case ty.Signed() && ty.Bits == 0:
		return "Int"
	case ty.Bits == 0:
		return "UInt"
	case ty.Signed():
		return "signed"
	}
	return "unsigned"
}

// c21Value draws start/end values.
func c21Value(ty oracle.Type, r *rand.Rand) *big.Int {
	var cands []*big.Int
	for _, v := range []int64{-1, 0, 1, 2, -2, 100, -100} {
		cands = append(cands, big.NewInt(v))
	}
	if ty.Min != nil {
		cands = append(cands, ty.Min, new(big.Int).Add(ty.Min, big.NewInt(1)), new(big.Int).Add(ty.Min, big.NewInt(2)), new(big.Int).Add(ty.Min, big.NewInt(int64(r.Intn(300)))))
	}
	if ty.Max != nil {
		cands = append(cands, ty.Max, new(big.Int).Sub(ty.Max, big.NewInt(1)), new(big.Int).Sub(ty.Max, big.NewInt(2)), new(big.Int).Sub(ty.Max, big.NewInt(int64(r.Intn(300)))))
		cands = append(cands, new(big.Int).Rsh(ty.Max, 1), new(big.Int).Add(new(big.Int).Rsh(ty.Max, 1), big.NewInt(1)))
	}
	for {
		var v *big.Int
		if r.Intn(10) < 7 {
			v = cands[r.Intn(len(cands))]
		} else {
			v = ty.Random(r)
			if ty.Bits == 0 && r.Intn(2) == 0 {
				v = new(big.Int).Rsh(v, uint(r.Intn(300)))
			}
		}
		if ty.Fits(v) {
			return v
		}
	}
}

// c21Spec draws one constructible range of at most c21MaxLen elements (or ok=false).
func c21Spec(ty oracle.Type, r *rand.Rand) (rangeSpec, string) {
	s := rangeSpec{Start: c21Value(ty, r), End: c21Value(ty, r)}
	if r.Intn(8) == 0 {
		// short range right at a bound
		d := big.NewInt(int64(r.Intn(12)))
		switch {
		case ty.Max != nil && r.Intn(2) == 0:
			s.End = ty.Max
			s.Start = new(big.Int).Sub(ty.Max, d)
		case ty.Min != nil && ty.Signed():
			s.End = ty.Min
			s.Start = new(big.Int).Add(ty.Min, d)
		}
	}
	diff := new(big.Int).Sub(s.End, s.Start)
	absDiff := new(big.Int).Abs(diff)
	minStep := new(big.Int).Add(new(big.Int).Quo(absDiff, big.NewInt(c21MaxLen-1)), big.NewInt(0))
	if minStep.Sign() == 0 {
		minStep = big.NewInt(1)
	}
	switch r.Intn(9) {
	case 0: // omitted
		if absDiff.Cmp(big.NewInt(c21MaxLen-1)) > 0 {
			// too long for a default step: shorten the range
			nd := big.NewInt(int64(r.Intn(c21MaxLen)))
			if diff.Sign() < 0 {
				nd.Neg(nd)
			}
			s.End = new(big.Int).Add(s.Start, nd)
			if !ty.Fits(s.End) {
				s.End = new(big.Int).Sub(s.Start, nd)
			}
			if !ty.Fits(s.End) {
				s.End = s.Start
			}
		}
	default:
		var mag *big.Int
		switch r.Intn(7) {
		case 0:
			mag = minStep
		case 1:
			mag = new(big.Int).Add(minStep, big.NewInt(int64(r.Intn(7))))
		case 2: // type max / |min| as step
			if ty.Max != nil {
				mag = new(big.Int).Set(ty.Max)
				if ty.Signed() && diff.Sign() < 0 && r.Intn(2) == 0 {
					mag = new(big.Int).Neg(ty.Min)
				}
			} else {
				mag = new(big.Int).Lsh(big.NewInt(1), uint(r.Intn(200)))
			}
		case 3: // exactly the distance, or a divisor of it
			mag = new(big.Int).Set(absDiff)
			if q := int64(1 + r.Intn(6)); new(big.Int).Rem(absDiff, big.NewInt(q)).Sign() == 0 {
				mag = new(big.Int).Quo(absDiff, big.NewInt(q))
			}
		case 4: // distance ± 1: just reaches / just misses
			mag = new(big.Int).Add(absDiff, big.NewInt(int64(r.Intn(3)-1)))
		case 5:
			mag = new(big.Int).Mul(minStep, big.NewInt(int64(1+r.Intn(50))))
		default:
			mag = new(big.Int).Add(minStep, new(big.Int).Rand(r, new(big.Int).Add(absDiff, big.NewInt(2))))
		}
		if mag.Sign() <= 0 || mag.Cmp(minStep) < 0 {
			mag = new(big.Int).Set(minStep)
		}
		step := new(big.Int).Set(mag)
		if diff.Sign() < 0 || diff.Sign() == 0 && ty.Signed() && r.Intn(2) == 0 {
			step.Neg(step)
		}
		if r.Intn(25) == 0 { // sometimes a construction that must fail
			switch r.Intn(2) {
			case 0:
				step = big.NewInt(0)
			default:
				step.Neg(step)
			}
		}
		if !ty.Fits(step) {
			step = new(big.Int).Set(minStep)
			if diff.Sign() < 0 {
				step.Neg(step)
			}
			if !ty.Fits(step) {
				return s, "step-not-representable"
			}
		}
		s.Step = step
	}
	es, why := effectiveStep(ty, s)
	if why != "" {
		return s, why
	}
	seq := sequence(s, es, c21MaxLen+1)
	if len(seq) > c21MaxLen {
		return s, "too-long"
	}
	// needles
	seen := map[string]bool{}
	add := func(v *big.Int) {
		if ty.Fits(v) && !seen[v.String()] && len(s.Needles) < 40 {
			seen[v.String()] = true
			s.Needles = append(s.Needles, v)
		}
	}
	one := big.NewInt(1)
	add(s.End)
	add(new(big.Int).Add(s.End, one))
	add(new(big.Int).Sub(s.End, one))
	add(s.Start)
	add(new(big.Int).Add(s.Start, one))
	add(new(big.Int).Sub(s.Start, one))
	add(new(big.Int).Add(s.End, es))
	add(new(big.Int).Sub(s.Start, es))
	for _, b := range []*big.Int{ty.Min, ty.Max} {
		if b != nil {
			add(b)
			add(new(big.Int).Add(b, one))
			add(new(big.Int).Sub(b, one))
		}
	}
	add(big.NewInt(0))
	add(big.NewInt(-1))
	add(big.NewInt(1))
	add(new(big.Int).Neg(s.Start))
	for i := 0; i < 5 && len(seq) > 0; i++ {
		m := seq[r.Intn(len(seq))]
		add(m)
		add(new(big.Int).Add(m, one))
		add(new(big.Int).Sub(m, one))
	}
	if len(seq) > 0 {
		last := seq[len(seq)-1]
		add(last)
		add(new(big.Int).Add(last, es))
	}
	for i := 0; i < 4; i++ {
		add(c21Value(ty, r))
	}
	return s, ""
}

func TestC21(t *testing.T) {
	rec := evid.Start(t, "C21", "Cadence scripts on both engines constructing InclusiveRange<T> for all 20 integer element types (start/end from {min, min+1, min+2, -2..2, max-2..max, max/2, ±100} ∪ near-bound ∪ random; "+
		"steps: omitted, the smallest giving <= 300 elements, that plus 0..6, type max / |min|, the exact distance or a divisor of it, distance ±1, multiples, random; short ranges ending exactly at the type's max/min), many ranges per script. "+
		"Oracle: the sequence start + k·step not beyond end computed in ℤ; `for x in r` must yield exactly it without error, the start/end/step fields must be as given (default step ±1), and contains(x) for x in "+
		"{end, end±1, start, start±1, end+step, start-step, type bounds ±1, 0, ±1, -start, members and their neighbours, random} must equal membership and never fail. Constructions that must fail (zero step, wrong direction, "+
		"descending default step for unsigned types) are classified and not executed. 8-bit types: in the thorough tier all (start, end) pairs with 3 step choices (omitted, ±3, ±max). "+
		"Non-trivial: end within |step| of a type bound, or the step does not divide end-start. Distinct by (type, start, end, step, engine); every contains call is an evaluation.")
	k := &c21{rec: rec, t: t}

	intTypes := typesWhere(func(ty oracle.Type) bool { return ty.IsInteger() })
	if f := evid.ReplayFile(); f != "" {
		var cs c21Case
		if err := evid.LoadReplay(f, &cs); err != nil {
			t.Fatalf("bad replay file: %v", err)
		}
		s := rangeSpec{Start: bi(cs.Start), End: bi(cs.End)}
		if cs.Step != "" {
			s.Step = bi(cs.Step)
		}
		for _, n := range cs.Needles {
			s.Needles = append(s.Needles, bi(n))
		}
		k.runBatch(oracle.ByName(cs.Type), []rangeSpec{s}, host.Engines)
		return
	}

	perType := evid.N(90, 500)
	batch := 40
	for _, ty := range intTypes {
		r := evid.Rand(int64(evid.Hash("C21", ty.Name) % 1000003))
		var specs []rangeSpec
		// fixed regression shapes at the bounds
		one := big.NewInt(1)
		if ty.Max != nil {
			specs = append(specs,
				rangeSpec{Start: new(big.Int).Sub(ty.Max, big.NewInt(5)), End: ty.Max, Step: one},
				rangeSpec{Start: new(big.Int).Sub(ty.Max, big.NewInt(5)), End: ty.Max},
				rangeSpec{Start: new(big.Int).Sub(ty.Max, big.NewInt(7)), End: ty.Max, Step: big.NewInt(3)},
				rangeSpec{Start: big.NewInt(0), End: ty.Max, Step: ty.Max},
				rangeSpec{Start: big.NewInt(1), End: ty.Max, Step: ty.Max},
				rangeSpec{Start: ty.Max, End: ty.Max},
			)
		}
		if ty.Signed() && ty.Min != nil {
			specs = append(specs,
				rangeSpec{Start: new(big.Int).Add(ty.Min, big.NewInt(5)), End: ty.Min, Step: big.NewInt(-1)},
				rangeSpec{Start: new(big.Int).Add(ty.Min, big.NewInt(5)), End: ty.Min},
				rangeSpec{Start: new(big.Int).Add(ty.Min, big.NewInt(7)), End: ty.Min, Step: big.NewInt(-3)},
				rangeSpec{Start: ty.Max, End: ty.Min, Step: ty.Min},
				rangeSpec{Start: big.NewInt(0), End: ty.Min, Step: ty.Min},
				rangeSpec{Start: big.NewInt(-1), End: ty.Min, Step: ty.Min},
				rangeSpec{Start: ty.Min, End: ty.Max, Step: ty.Max},
				rangeSpec{Start: ty.Min, End: ty.Min},
			)
		}
		for i := range specs {
			// give the fixed shapes needles through the generator's needle logic
			s := specs[i]
			es, _ := effectiveStep(ty, s)
			seq := sequence(s, es, c21MaxLen)
			for _, v := range []*big.Int{s.End, s.Start, new(big.Int).Sub(s.End, one), new(big.Int).Add(s.Start, one), big.NewInt(0), big.NewInt(-1), big.NewInt(100), ty.Max, ty.Min, seq[len(seq)-1]} {
				if v != nil && ty.Fits(v) {
					specs[i].Needles = append(specs[i].Needles, v)
				}
			}
		}
		for tries := 0; len(specs) < perType && tries < perType*20; tries++ {
			s, why := c21Spec(ty, r)
			if why != "" {
				rec.Class("not-executed/" + why)
				continue
			}
			specs = append(specs, s)
		}
		for i := 0; i < len(specs); i += batch {
			k.runBatch(ty, specs[i:min(i+batch, len(specs))], host.Engines)
		}
		// thorough: 8-bit element types exhaustively over (start, end) with 6 step choices, sharded by start
		if evid.Thorough() && ty.Bits == 8 {
			lo, hi := ty.Min.Int64(), ty.Max.Int64()
			for a := lo; a <= hi; a++ {
				if int(a-lo)%evid.Shards() != evid.Shard() {
					continue
				}
				var ex []rangeSpec
				for b := lo; b <= hi; b++ {
					d := b - a
					for _, st := range []int64{0, 3, hi} { // 0 = omitted (= ±1)
						s := rangeSpec{Start: big.NewInt(a), End: big.NewInt(b)}
						if st != 0 {
							v := st
							if d < 0 {
								v = -st
							}
							s.Step = big.NewInt(v)
							if !ty.Fits(s.Step) {
								continue
							}
						}
						if _, why := effectiveStep(ty, s); why != "" {
							continue
						}
						s.Needles = []*big.Int{s.End, big.NewInt(b - 1), big.NewInt(a + 1), ty.Min, ty.Max, big.NewInt(0)}
						var nn []*big.Int
						for _, n := range s.Needles {
							if ty.Fits(n) {
								nn = append(nn, n)
							}
						}
						s.Needles = nn
						ex = append(ex, s)
					}
				}
				for i := 0; i < len(ex); i += 200 {
					k.runBatch(ty, ex[i:min(i+200, len(ex))], host.Engines)
				}
			}
			rec.Extra("exhaustive_subspaces", "8-bit element types: every (start, end) pair with step in {omitted (= ±1), ±3, ±max} (union of the shards)")
		}
	}
	var missing []string
	for _, want := range []string{"word/ascending/end-at-type-bound", "unsigned/ascending/end-at-type-bound", "signed/ascending/end-at-type-bound", "signed/descending/end-at-type-bound",
		"signed/descending/unreachable-end", "unsigned/ascending/unreachable-end", "Int/descending/unreachable-end", "UInt/ascending/unreachable-end",
		"step-omitted/ascending", "step-omitted/descending", "contains/true", "contains/false", "contains/needle-and-start-of-different-sign", "engine/interpreter", "engine/vm"} {
		if rec.ClassCount(want) == 0 {
			missing = append(missing, want)
		}
	}
	sort.Strings(missing)
	if len(missing) > 0 {
		rec.Inconclusive(t, "classes never generated: %v", missing)
	}
}
