package num

import (
	"fmt"
	"math/big"
	"math/rand"
	"testing"
	"unsafe"

	"github.com/onflow/cadence/common"
	"github.com/onflow/cadence/interpreter"

	"verif/lib/evid"
	"verif/lib/numv"
	"verif/lib/oracle"
)

// ---------------------------------------------------------------- C32
//
// Big-integer memory metering never under-reports: the MemoryKindBigInt amount
// metered during an operation is at least len(result.Bits()) × word size.

const wordBytes = int(unsafe.Sizeof(big.Word(0)))

// bigIntGauge sums the BigInt-kind amounts metered while armed.
type bigIntGauge struct {
	sum     uint64
	maxOne  uint64
	entries int
}

func (g *bigIntGauge) MeterMemory(u common.MemoryUsage) error {
	if u.Kind == common.MemoryKindBigInt {
		g.sum += u.Amount
		if u.Amount > g.maxOne {
			g.maxOne = u.Amount
		}
		g.entries++
	}
	return nil
}

func (g *bigIntGauge) reset() { g.sum, g.maxOne, g.entries = 0, 0, 0 }

type c32Case struct {
	Type string `json:"type"`
	Op   string `json:"op"`
	A    string `json:"a_hex"`
	B    string `json:"b_hex,omitempty"`
}

func hexInt(v *big.Int) string {
	if v == nil {
		return ""
	}
	return v.Text(16)
}

func unhexInt(s string) *big.Int {
	v, ok := new(big.Int).SetString(s, 16)
	if !ok {
		panic("bad hex integer " + s)
	}
	return v
}

var c32Ops = map[string]func(c *interpreter.Interpreter, a, b interpreter.NumberValue) interpreter.Value{
	"plus":   func(c *interpreter.Interpreter, a, b interpreter.NumberValue) interpreter.Value { return a.Plus(c, b) },
	"minus":  func(c *interpreter.Interpreter, a, b interpreter.NumberValue) interpreter.Value { return a.Minus(c, b) },
	"mul":    func(c *interpreter.Interpreter, a, b interpreter.NumberValue) interpreter.Value { return a.Mul(c, b) },
	"div":    func(c *interpreter.Interpreter, a, b interpreter.NumberValue) interpreter.Value { return a.Div(c, b) },
	"mod":    func(c *interpreter.Interpreter, a, b interpreter.NumberValue) interpreter.Value { return a.Mod(c, b) },
	"negate": func(c *interpreter.Interpreter, a, _ interpreter.NumberValue) interpreter.Value { return a.Negate(c) },
	"satplus": func(c *interpreter.Interpreter, a, b interpreter.NumberValue) interpreter.Value {
		return a.SaturatingPlus(c, b)
	},
	"satminus": func(c *interpreter.Interpreter, a, b interpreter.NumberValue) interpreter.Value {
		return a.SaturatingMinus(c, b)
	},
	"satmul": func(c *interpreter.Interpreter, a, b interpreter.NumberValue) interpreter.Value {
		return a.SaturatingMul(c, b)
	},
	"and": func(c *interpreter.Interpreter, a, b interpreter.NumberValue) interpreter.Value {
		return a.(interpreter.IntegerValue).BitwiseAnd(c, b.(interpreter.IntegerValue))
	},
	"or": func(c *interpreter.Interpreter, a, b interpreter.NumberValue) interpreter.Value {
		return a.(interpreter.IntegerValue).BitwiseOr(c, b.(interpreter.IntegerValue))
	},
	"xor": func(c *interpreter.Interpreter, a, b interpreter.NumberValue) interpreter.Value {
		return a.(interpreter.IntegerValue).BitwiseXor(c, b.(interpreter.IntegerValue))
	},
	"shl": func(c *interpreter.Interpreter, a, b interpreter.NumberValue) interpreter.Value {
		return a.(interpreter.IntegerValue).BitwiseLeftShift(c, b.(interpreter.IntegerValue))
	},
	"shr": func(c *interpreter.Interpreter, a, b interpreter.NumberValue) interpreter.Value {
		return a.(interpreter.IntegerValue).BitwiseRightShift(c, b.(interpreter.IntegerValue))
	},
}

var c32OpOrder = []string{"plus", "minus", "mul", "div", "mod", "and", "or", "xor", "shl", "shr", "negate", "satplus", "satminus", "satmul"}

type c32 struct {
	useKnown bool
	rec      *evid.Rec
	t        *testing.T
	gauge    *bigIntGauge
	ctx      *interpreter.Interpreter
}

func newC32(t *testing.T, rec *evid.Rec) *c32 {
	g := &bigIntGauge{}
	storage := interpreter.NewInMemoryStorage(nil, nil)
	inter, err := interpreter.NewInterpreter(nil, common.StringLocation("verif"), &interpreter.Config{Storage: storage, MemoryGauge: g})
	if err != nil {
		t.Fatal(err)
	}
	return &c32{rec: rec, t: t, gauge: g, ctx: inter, useKnown: evid.ReplayFile() == ""}
}

func words(v *big.Int) int { return len(v.Bits()) }

func lenClass(n int) string {
	switch {
	case n == 0:
		return "0"
	case n == 1:
		return "1"
	case n <= 4:
		return "2-4"
	case n <= 39:
		return "5-39"
	case n <= 42:
		return "40-42"
	case n <= 98:
		return "43-98"
	case n <= 102:
		return "99-102"
	}
	return "103+"
}

func (k *c32) one(ty oracle.Type, op string, a, b *big.Int) {
	av := numv.Make(ty, a)
	var bv interpreter.NumberValue
	if b != nil {
		bv = numv.Make(ty, b)
	}
	k.gauge.reset()
	f := c32Ops[op]
	o := numv.Call(func() interpreter.Value { return f(k.ctx, av, bv) })
	metered, maxOne := k.gauge.sum, k.gauge.maxOne
	lb := 0
	shiftClass := ""
	if b != nil {
		lb = words(b)
		if op == "shl" || op == "shr" {
			switch {
			case !b.IsInt64():
				shiftClass = "huge"
			case b.Int64()%64 == 0:
				shiftClass = "word-aligned"
			default:
				shiftClass = "unaligned"
			}
		}
	}
	nt := words(a) >= 2 || lb >= 2
	key := evid.Hash(ty.Name, op, words(a), lb, a.Sign(), func() int {
		if b == nil {
			return 0
		}
		return b.Sign()
	}(), shiftClass, hexInt(a), hexInt(b))
	k.rec.CaseH(nt, key)
	cs := c32Case{Type: ty.Name, Op: op, A: hexInt(a), B: hexInt(b)}
	if id := c32Known(ty, op, a, b); id != "" && k.useKnown && k.rec.Known(id) {
		k.rec.Excluded(id)
		return
	}
	if maxOne >= 1<<62 {
		k.rec.Violation(k.t, cs, "%s %s: a single metered BigInt amount is %d (>= 2^62: a negative length wrapped); |a|=%d words, |b|=%d words, b=%s",
			ty.Name, op, maxOne, words(a), lb, shortInt(b))
	}
	if o.Panic != nil {
		cl := numv.ErrClass(o.Panic)
		k.rec.Class("failed/" + op)
		if len(cl) > 5 && cl[:5] == "other" {
			// operations on same-typed operands may only fail with the arithmetic errors
			k.rec.Violation(k.t, cs, "%s %s failed with %s", ty.Name, op, cl)
		}
		return
	}
	_, res := numv.Raw(o.Value)
	need := uint64(words(res) * wordBytes)
	if nt {
		k.rec.Class(fmt.Sprintf("%s/%s", ty.Name, op))
		k.rec.Class(fmt.Sprintf("len/%s/a=%s,b=%s", op, lenClass(words(a)), lenClass(lb)))
		if shiftClass != "" {
			k.rec.Class("shift/" + op + "/" + shiftClass)
		}
		lab := fmt.Sprintf("%s/%s", ty.Name, op)
		if k.rec.WantSample(lab) {
			k.rec.Sample(lab, map[string]any{"type": ty.Name, "op": op, "a_words": words(a), "b_words": lb, "a_sign": a.Sign(), "b": shortInt(b), "metered_bytes": metered, "result_bytes": need})
		}
	}
	if metered < need {
		k.rec.Violation(k.t, cs, "%s %s: metered %d bytes of BigInt memory, the result occupies %d bytes (%d words); |a|=%d words (sign %d), |b|=%d words, b=%s",
			ty.Name, op, metered, need, words(res), words(a), a.Sign(), lb, shortInt(b))
	}
}

// c32Known: narrow predicates of the known findings of C32.
func c32Known(ty oracle.Type, op string, a, b *big.Int) string {
	// FN6: div/mod of unbounded integers where the signed comparison a < b is false, the divisor has
	// more than one and fewer than 100 words, and |a| - |b| + 5 words is negative.
	if (op == "div" || op == "mod") && ty.Bits == 0 && b != nil && b.Sign() != 0 &&
		a.Cmp(b) >= 0 && words(b) > 1 && words(b) < 100 && words(a)-words(b)+5 < 0 {
		return "FN6"
	}
	// FN7: remainder of unbounded integers in the "|b| < 100 words" branch of NewModBigIntMemoryUsage,
	// where the metered |a|-|b|+5 words (the quotient's bound) is below the remainder's bound of |b| words.
	if op == "mod" && ty.Bits == 0 && b != nil && b.Sign() != 0 &&
		a.Cmp(b) >= 0 && words(b) > 1 && words(b) < 100 && words(a)-words(b)+5 < words(b) {
		return "FN7"
	}
	return ""
}

func shortInt(v *big.Int) string {
	if v == nil {
		return "-"
	}
	s := v.String()
	if len(s) > 40 {
		return fmt.Sprintf("%s…(%d digits)", s[:20], len(s))
	}
	return s
}

// c32Value draws a value of ty with a word length biased to the thresholds of the
// estimates: 0..4, the Karatsuba threshold 40±2, the recursive-division threshold 100±2, up to 300.
func c32Value(ty oracle.Type, r *rand.Rand) *big.Int {
	maxWords := 300
	if ty.Bits != 0 {
		maxWords = ty.Bits / 64
	}
	var l int
	switch r.Intn(10) {
	case 0, 1:
		l = r.Intn(5)
	case 2, 3:
		l = 38 + r.Intn(6)
	case 4, 5:
		l = 97 + r.Intn(7)
	case 6:
		l = []int{79, 80, 81, 82, 199, 200, 201, 299, 300}[r.Intn(9)]
	default:
		l = r.Intn(301)
	}
	if l > maxWords {
		l = r.Intn(maxWords + 1)
	}
	v := new(big.Int)
	if l > 0 {
		top := new(big.Int).Lsh(big.NewInt(1), uint(64*l))
		switch r.Intn(5) {
		case 0: // all ones: 2^(64l)-1
			v.Sub(top, big.NewInt(1))
		case 1: // smallest l-word value 2^(64(l-1))
			v.Lsh(big.NewInt(1), uint(64*(l-1)))
		case 2: // 2^(64(l-1)) + 1
			v.Lsh(big.NewInt(1), uint(64*(l-1)))
			v.Add(v, big.NewInt(1))
		default:
			v.Rand(r, top)
			v.SetBit(v, 64*l-1-r.Intn(64), 1)
		}
	}
	if ty.Signed() && r.Intn(2) == 0 {
		v.Neg(v)
	}
	if !ty.Fits(v) {
		return ty.Wrap(v)
	}
	return v
}

func c32Shift(ty oracle.Type, op string, r *rand.Rand) *big.Int {
	var n int64
	switch r.Intn(6) {
	case 0:
		n = int64(r.Intn(4))
	case 1, 2:
		n = 64*int64(r.Intn(313)) + int64(r.Intn(3)-1)
	case 3:
		n = int64([]int{63, 64, 65, 127, 128, 129, 255, 256, 257, 399, 400, 401, 511, 512, 4095, 4096, 19999, 20000}[r.Intn(18)])
	default:
		n = int64(r.Intn(20001))
	}
	if n < 0 {
		n = 0
	}
	v := big.NewInt(n)
	if op == "shr" && r.Intn(40) == 0 {
		// huge right shifts are cheap (result 0 or -1)
		v = new(big.Int).Lsh(big.NewInt(1), uint(31+r.Intn(40)))
		v.Add(v, big.NewInt(int64(r.Intn(3)-1)))
	}
	if !ty.Fits(v) {
		v = ty.Max
		if ty.Bits == 256 || ty.Bits == 128 {
			v = big.NewInt(int64(r.Intn(ty.Bits + 2)))
		}
	}
	return v
}

func TestC32(t *testing.T) {
	rec := evid.Start(t, "C32", "direct calls of + - * / % & | ^ << >> negate (and the saturating forms) on Int, UInt, Int128, Int256, UInt128, UInt256, Word128, Word256 values with a recording memory gauge; "+
		"requirement: the sum of MemoryKindBigInt amounts metered during the call is at least len(result.Bits()) × word size, and no single amount is >= 2^62 (negative length wrapped). "+
		"Operand word lengths 0..300 biased to 0..4, 38..43 (Karatsuba threshold), 97..103 (recursive-division threshold), 80/200/300, with values 2^(64k)-1, 2^(64(k-1)), 2^(64(k-1))+1 and random, both signs; "+
		"divisors additionally chosen shorter/equal/longer than the dividend; shift amounts 0..20000 biased to multiples of 64 ±1, and huge right-shift amounts. "+
		"Non-trivial: an operand of at least 2 words. Distinct by (type, op, operands).")
	k := newC32(t, rec)

	if f := evid.ReplayFile(); f != "" {
		var cs c32Case
		if err := evid.LoadReplay(f, &cs); err != nil {
			t.Fatalf("bad replay file: %v", err)
		}
		var b *big.Int
		if cs.B != "" {
			b = unhexInt(cs.B)
		}
		k.one(oracle.ByName(cs.Type), cs.Op, unhexInt(cs.A), b)
		return
	}

	if rec.Known("FN7") {
		ty := oracle.ByName("Int")
		k.gauge.reset()
		a := new(big.Int).Lsh(big.NewInt(1), 2559)
		b := new(big.Int).Add(new(big.Int).Lsh(big.NewInt(1), 2495), big.NewInt(1))
		o := numv.Call(func() interpreter.Value { return numv.Make(ty, a).Mod(k.ctx, numv.Make(ty, b)) })
		_, res := numv.Raw(o.Value)
		rec.ReportKnown("FN7", k.gauge.sum < uint64(words(res)*wordBytes))
	}
	if rec.Known("FN6") {
		ty := oracle.ByName("Int")
		k.gauge.reset()
		numv.Call(func() interpreter.Value {
			return numv.Make(ty, big.NewInt(1)).Div(k.ctx, numv.Make(ty, new(big.Int).Neg(new(big.Int).Lsh(big.NewInt(1), 448))))
		})
		rec.ReportKnown("FN6", k.gauge.maxOne >= 1<<62)
	}

	types := typesWhere(func(ty oracle.Type) bool { return ty.IsInteger() && (ty.Bits == 0 || ty.Bits >= 128) })
	n := evid.N(9000, 300_000)
	for _, ty := range types {
		r := evid.Rand(int64(evid.Hash("C32", ty.Name) % 1000003))
		nn := n
		if ty.Bits != 0 {
			nn = n / 6 // fixed-width big types have at most 2/4 words: a smaller share
		}
		for _, op := range c32OpOrder {
			if (op == "negate") && !ty.Signed() {
				continue
			}
			if len(op) > 3 && op[:3] == "sat" {
				st, ok := semaTypeByName(ty.Name).(interface {
					SupportsSaturatingAdd() bool
					SupportsSaturatingSubtract() bool
					SupportsSaturatingMultiply() bool
				})
				if !ok || op == "satplus" && !st.SupportsSaturatingAdd() || op == "satminus" && !st.SupportsSaturatingSubtract() || op == "satmul" && !st.SupportsSaturatingMultiply() {
					continue
				}
			}
			for i := 0; i < nn; i++ {
				a := c32Value(ty, r)
				var b *big.Int
				switch op {
				case "negate":
				case "shl", "shr":
					b = c32Shift(ty, op, r)
					if op == "shl" && ty.Bits == 0 && words(a) > 300 {
						continue
					}
				case "div", "mod":
					b = c32Value(ty, r)
					if r.Intn(3) == 0 && a.Sign() != 0 {
						// divisor derived from the dividend: about half its length, its own length, one word less
						sh := []int{words(a) * 32, 0, 64, 1, 64 * (words(a) - 1)}[r.Intn(5)]
						if sh < 0 {
							sh = 0
						}
						b = new(big.Int).Rsh(new(big.Int).Abs(a), uint(sh))
						b.Add(b, big.NewInt(int64(r.Intn(3))))
						if ty.Signed() && r.Intn(2) == 0 {
							b.Neg(b)
						}
						if !ty.Fits(b) {
							b = c32Value(ty, r)
						}
					}
				default:
					b = c32Value(ty, r)
				}
				k.one(ty, op, a, b)
			}
		}
	}
	for _, want := range []string{"Int/mul", "Int/mod", "UInt/div", "Int/shr", "Int/shl", "UInt256/mul", "Word128/shl", "len/mul/a=40-42,b=40-42", "len/mod/a=103+,b=99-102", "shift/shr/word-aligned", "shift/shr/huge"} {
		if rec.ClassCount(want) == 0 {
			rec.Inconclusive(t, "class %q never generated", want)
		}
	}
}
