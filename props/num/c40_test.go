package num

import (
	"encoding/hex"
	"fmt"
	"math/big"
	"math/rand"
	"reflect"
	"sort"
	"strings"
	"testing"
	"unicode/utf8"

	"golang.org/x/text/unicode/norm"

	"github.com/onflow/cadence/ast"
	"github.com/onflow/cadence/common"
	"github.com/onflow/cadence/runtime"

	"verif/lib/evid"
	"verif/lib/host"
	"verif/lib/oracle"
)

// ---------------------------------------------------------------- C40
//
// Literals denote their written values.

// numLit is a generated numeric literal for a declared type.
type numLit struct {
	Type string `json:"type"`
	Text string `json:"text"`
	// what the own evaluator says
	feature string
}

// evalNumLit is the own literal evaluator: it reads the *text* (never the AST).
// Returns the value as a rational raw pair: integer value (for integer literals) or
// raw at `scale` digits with the count of written fraction digits.
func evalIntLit(text string) (*big.Int, bool) {
	neg := strings.HasPrefix(text, "-")
	t := strings.TrimPrefix(text, "-")
	base := 10
	switch {
	case strings.HasPrefix(t, "0b"):
		base, t = 2, t[2:]
	case strings.HasPrefix(t, "0o"):
		base, t = 8, t[2:]
	case strings.HasPrefix(t, "0x"):
		base, t = 16, t[2:]
	}
	t = strings.ReplaceAll(t, "_", "")
	if t == "" {
		return nil, false
	}
	v := new(big.Int)
	b := big.NewInt(int64(base))
	for _, c := range t {
		var d int
		switch {
		case c >= '0' && c <= '9':
			d = int(c - '0')
		case c >= 'a' && c <= 'f':
			d = int(c-'a') + 10
		case c >= 'A' && c <= 'F':
			d = int(c-'A') + 10
		default:
			return nil, false
		}
		if d >= base {
			return nil, false
		}
		v.Mul(v, b)
		v.Add(v, big.NewInt(int64(d)))
	}
	if neg {
		v.Neg(v)
	}
	return v, true
}

// evalFixLit returns (raw at scale, number of written fraction digits, exact at scale).
func evalFixLit(text string, scale int) (*big.Int, int, bool) {
	neg := strings.HasPrefix(text, "-")
	t := strings.ReplaceAll(strings.TrimPrefix(text, "-"), "_", "")
	ip, fp, _ := strings.Cut(t, ".")
	digits := len(fp)
	exact := true
	if len(fp) > scale {
		if strings.Trim(fp[scale:], "0") != "" {
			exact = false
		}
		fp = fp[:scale]
	}
	for len(fp) < scale {
		fp += "0"
	}
	v, _ := new(big.Int).SetString(ip+fp, 10)
	if neg {
		v.Neg(v)
	}
	return v, digits, exact
}

// expectation for a numeric literal: accepted with raw value, or rejected.
func c40Expect(l numLit) (accept bool, raw *big.Int) {
	ty := oracle.ByName(l.Type)
	if ty.IsInteger() {
		v, ok := evalIntLit(l.Text)
		if !ok {
			panic("generator produced an unreadable integer literal " + l.Text)
		}
		return ty.Fits(v), v
	}
	v, digits, _ := evalFixLit(l.Text, ty.Scale)
	if digits > ty.Scale {
		return false, nil
	}
	return ty.Fits(v), v
}

// withUnderscores inserts underscores at legal positions (between two digits).
func withUnderscores(digits string, r *rand.Rand, n int) string {
	if len(digits) < 2 {
		return digits
	}
	b := []byte(digits)
	for i := 0; i < n; i++ {
		pos := 1 + r.Intn(len(b)-1)
		if b[pos-1] == '_' && r.Intn(3) != 0 { // doubled underscores are legal but keep them rarer
			continue
		}
		b = append(b[:pos], append([]byte{'_'}, b[pos:]...)...)
	}
	// never leading / trailing
	s := strings.Trim(string(b), "_")
	return s
}

func renderInt(ty oracle.Type, v *big.Int, r *rand.Rand) (string, string) {
	abs := new(big.Int).Abs(v)
	var prefix, digits, feature string
	switch r.Intn(6) {
	case 0:
		prefix, digits, feature = "0b", abs.Text(2), "binary"
	case 1:
		prefix, digits, feature = "0o", abs.Text(8), "octal"
	case 2, 3:
		prefix, digits, feature = "0x", abs.Text(16), "hex"
		if r.Intn(2) == 0 {
			digits = strings.ToUpper(digits)
		} else if r.Intn(2) == 0 {
			// mixed case
			bs := []byte(digits)
			for i := range bs {
				if r.Intn(2) == 0 {
					bs[i] = strings.ToUpper(string(bs[i]))[0]
				}
			}
			digits = string(bs)
		}
	default:
		prefix, digits, feature = "", abs.Text(10), "decimal"
	}
	if r.Intn(3) == 0 {
		digits = strings.Repeat("0", 1+r.Intn(5)) + digits
		feature += "+leading-zeros"
	}
	if r.Intn(2) == 0 {
		digits = withUnderscores(digits, r, 1+r.Intn(4))
		if strings.Contains(digits, "_") {
			feature += "+underscores"
		}
	}
	s := prefix + digits
	if v.Sign() < 0 || v.Sign() == 0 && ty.Signed() && r.Intn(6) == 0 {
		s = "-" + s
	}
	return s, feature
}

func renderFix(ty oracle.Type, raw *big.Int, r *rand.Rand) (string, string) {
	abs := new(big.Int).Abs(raw)
	ip, fp := new(big.Int).QuoRem(abs, oracle.Pow10(ty.Scale), new(big.Int))
	fs := fmt.Sprintf("%0*s", ty.Scale, fp.String())
	feature := "full-scale"
	switch r.Intn(5) {
	case 0: // strip trailing zeros (at least one digit)
		fs = strings.TrimRight(fs, "0")
		if fs == "" {
			fs = "0"
		}
		feature = "short-fraction"
	case 1: // cut to k digits (changes the value: fine, the evaluator reads the text)
		fs = fs[:1+r.Intn(len(fs))]
		feature = "cut-fraction"
	case 2: // extend beyond the scale
		ext := 1 + r.Intn(6)
		if r.Intn(2) == 0 {
			fs += strings.Repeat("0", ext)
			feature = "excess-zero-digits"
		} else {
			for i := 0; i < ext; i++ {
				fs += string(rune('0' + r.Intn(10)))
			}
			feature = "excess-digits"
		}
	}
	is := ip.String()
	if r.Intn(4) == 0 {
		is = strings.Repeat("0", 1+r.Intn(3)) + is
		feature += "+leading-zeros"
	}
	if r.Intn(3) == 0 {
		is = withUnderscores(is, r, 1+r.Intn(3))
		fs = withUnderscores(fs, r, r.Intn(3))
		if strings.Contains(is+fs, "_") {
			feature += "+underscores"
		}
	}
	s := is + "." + fs
	zeroText := strings.Trim(is+fs, "0_") == ""
	if raw.Sign() < 0 && !(zeroText && !ty.Signed()) || ty.Signed() && r.Intn(6) == 0 && zeroText {
		s = "-" + s
	}
	return s, feature
}

// genNumLits produces n literals for ty.
func genNumLits(ty oracle.Type, r *rand.Rand, n int) []numLit {
	var out []numLit
	one := big.NewInt(1)
	var anchors []*big.Int
	for _, b := range []*big.Int{ty.Min, ty.Max} {
		if b != nil {
			anchors = append(anchors, new(big.Int).Sub(b, one), b, new(big.Int).Add(b, one), new(big.Int).Sub(b, big.NewInt(2)), new(big.Int).Add(b, big.NewInt(2)))
		}
	}
	anchors = append(anchors, big.NewInt(0), big.NewInt(1), big.NewInt(-1), big.NewInt(7), big.NewInt(255), big.NewInt(256))
	pool := ty.Pool()
	for i := 0; i < n; i++ {
		var v *big.Int
		switch r.Intn(10) {
		case 0, 1, 2, 3:
			v = anchors[r.Intn(len(anchors))]
		case 4:
			v = pool[r.Intn(len(pool))]
		case 5, 6:
			v = ty.Random(r)
		case 7: // out of range by a lot
			v = new(big.Int).Lsh(big.NewInt(1), uint(8+r.Intn(300)))
			v.Add(v, big.NewInt(int64(r.Intn(1000))))
			if r.Intn(2) == 0 {
				v.Neg(v)
			}
		case 8: // hundreds of digits
			v = new(big.Int).Rand(r, new(big.Int).Exp(big.NewInt(10), big.NewInt(int64(40+r.Intn(260))), nil))
			if r.Intn(2) == 0 {
				v.Neg(v)
			}
		default:
			v = new(big.Int).Add(anchors[r.Intn(len(anchors))], big.NewInt(int64(r.Intn(5)-2)))
		}
		var text, feature string
		if ty.IsInteger() {
			text, feature = renderInt(ty, v, r)
		} else {
			text, feature = renderFix(ty, v, r)
		}
		out = append(out, numLit{Type: ty.Name, Text: text, feature: feature})
	}
	return out
}

// c40Known: narrow predicates of the known findings of C40.
// FN8: integer literal of value zero written with a minus sign, declared type a signed integer type other than Int.
// (For unsigned types a minus sign in front of a zero is not generated: unary minus is not defined for them at all,
// so whether `-0` / `-0.0` is a literal of such a type is a language-design question outside the statement.)
func c40Known(l numLit) string {
	ty := oracle.ByName(l.Type)
	if ty.Kind == oracle.SignedInt && ty.Name != "Int" && strings.HasPrefix(l.Text, "-") {
		if v, ok := evalIntLit(l.Text); ok && v.Sign() == 0 {
			return "FN8"
		}
	}
	return ""
}

type c40Case struct {
	Kind string   `json:"kind"` // "number" | "string"
	Lits []numLit `json:"lits,omitempty"`
	Src  string   `json:"src,omitempty"`
	Want string   `json:"want_utf8_hex,omitempty"`
}

type c40 struct {
	useKnown bool
	rec      *evid.Rec
	t        *testing.T
}

type posErr interface {
	error
	StartPosition() ast.Position
}

// collect finds all positioned leaf errors.
func collectErrors(err error, out *[]posErr) {
	if err == nil {
		return
	}
	type children interface{ ChildErrors() []error }
	type unwrap interface{ Unwrap() error }
	if c, ok := err.(children); ok && len(c.ChildErrors()) > 0 {
		for _, e := range c.ChildErrors() {
			collectErrors(e, out)
		}
		return
	}
	if p, ok := err.(posErr); ok {
		*out = append(*out, p)
		return
	}
	if u, ok := err.(unwrap); ok {
		collectErrors(u.Unwrap(), out)
	}
}

// checkBatch type-checks one program with a declaration per literal and compares accept/reject per line.
func (k *c40) checkBatch(lits []numLit) {
	var sb strings.Builder
	sb.WriteString("access(all) fun main() {\n")
	for i, l := range lits {
		fmt.Fprintf(&sb, "    let x%d: %s = %s\n", i, l.Type, l.Text)
	}
	sb.WriteString("}\n")
	src := sb.String()
	h := host.New()
	h.BeginExecution(nil)
	rt := runtime.NewRuntime(runtime.Config{})
	var err error
	var pan any
	func() {
		defer func() { pan = recover() }()
		_, err = rt.ParseAndCheckProgram([]byte(src), runtime.Context{Interface: h, Location: common.ScriptLocation{0x40}})
	}()
	cs := c40Case{Kind: "number", Lits: lits}
	if pan != nil {
		if len(lits) == 1 {
			k.rec.Violation(k.t, cs, "checking `let x: %s = %s` panicked: %v", lits[0].Type, lits[0].Text, pan)
		}
		for _, l := range lits {
			k.checkBatch([]numLit{l})
		}
		return
	}
	var errs []posErr
	collectErrors(err, &errs)
	if err != nil && len(errs) == 0 {
		k.rec.Violation(k.t, cs, "checking failed without positioned errors: %v", err)
	}
	byLine := map[int][]string{}
	for _, e := range errs {
		line := e.StartPosition().Line - 2 // line 1 = function header
		byLine[line] = append(byLine[line], reflect.TypeOf(e).String())
	}
	for i, l := range lits {
		accept, raw := c40Expect(l)
		kinds := byLine[i]
		ty := oracle.ByName(l.Type)
		nt := strings.Contains(l.feature, "binary") || strings.Contains(l.feature, "octal") || strings.Contains(l.feature, "hex") ||
			strings.Contains(l.feature, "underscores") || len(l.Text) >= 40 || raw != nil && (near(ty, raw, 1) || !ty.Fits(raw) && (ty.Max != nil && new(big.Int).Sub(raw, ty.Max).Cmp(big.NewInt(1)) == 0 || ty.Min != nil && new(big.Int).Sub(ty.Min, raw).Cmp(big.NewInt(1)) == 0))
		k.rec.Case(nt, "check", l.Type, l.Text)
		cl := "integer"
		if ty.IsFixed() {
			cl = "fixed"
		}
		verdict := "accepted"
		if !accept {
			verdict = "rejected"
		}
		k.rec.Class(cl + "/" + verdict)
		for _, f := range strings.Split(l.feature, "+") {
			k.rec.Class(cl + "/feature/" + f)
		}
		if nt && len(l.Text) < 60 && k.rec.WantSample(l.Type+"/"+verdict) {
			k.rec.Sample(l.Type+"/"+verdict, map[string]any{"declaration": fmt.Sprintf("let x: %s = %s", l.Type, l.Text), "expected": verdict})
		}
		one := c40Case{Kind: "number", Lits: []numLit{l}}
		if id := c40Known(l); id != "" && k.useKnown && k.rec.Known(id) {
			if len(kinds) == 0 {
				k.rec.Class(id + "/predicate-holds-but-accepted")
			}
			k.rec.Excluded(id)
			continue
		}
		if accept && len(kinds) > 0 {
			k.rec.Violation(k.t, one, "`let x: %s = %s` is rejected (%v) although the written value %s is representable", l.Type, l.Text, kinds, raw)
		}
		if !accept && len(kinds) == 0 {
			k.rec.Violation(k.t, one, "`let x: %s = %s` is accepted although the written value is not representable in %s", l.Type, l.Text, l.Type)
		}
		if !accept {
			ok := false
			for _, kd := range kinds {
				if strings.Contains(kd, "InvalidIntegerLiteralRangeError") || strings.Contains(kd, "InvalidFixedPointLiteralRangeError") || strings.Contains(kd, "InvalidFixedPointLiteralScaleError") {
					ok = true
				}
			}
			if !ok {
				k.rec.Violation(k.t, one, "`let x: %s = %s` is rejected with %v, want a literal range/scale error", l.Type, l.Text, kinds)
			}
		}
	}
}

// execBatch runs accepted literals and compares the returned values (both engines).
func (k *c40) execBatch(lits []numLit, engines []host.Engine) {
	var acc []numLit
	var raws []*big.Int
	for _, l := range lits {
		if id := c40Known(l); id != "" && k.useKnown && k.rec.Known(id) {
			continue
		}
		if ok, raw := c40Expect(l); ok {
			acc = append(acc, l)
			raws = append(raws, raw)
		}
	}
	if len(acc) == 0 {
		return
	}
	// Every literal is evaluated six times from the SAME two AST nodes: three calls of a function whose body
	// returns the literal, and three iterations of a loop whose body declares `let x: T = lit`. All six must
	// equal the written value (a literal's evaluation must not depend on earlier evaluations of the same node).
	var sb strings.Builder
	for i, l := range acc {
		fmt.Fprintf(&sb, "access(all) fun lit%d(): %s { return %s }\n", i, l.Type, l.Text)
	}
	sb.WriteString("access(all) fun main(): [[AnyStruct]] {\n    let out: [[AnyStruct]] = []\n    var j = 0\n")
	for i, l := range acc {
		fmt.Fprintf(&sb, "    let r%d: [AnyStruct] = [lit%d(), lit%d(), lit%d()]\n", i, i, i, i)
		fmt.Fprintf(&sb, "    j = 0\n    while j < 3 { let x: %s = %s; r%d.append(x); j = j + 1 }\n    out.append(r%d)\n", l.Type, l.Text, i, i)
	}
	sb.WriteString("    return out\n}\n")
	places := []string{"1st call of fun(): T { return lit }", "2nd call", "3rd call", "1st loop iteration of `let x: T = lit`", "2nd iteration", "3rd iteration"}
	for _, eng := range engines {
		res := host.New().Script(sb.String(), nil, host.Options{Engine: eng})
		cs := c40Case{Kind: "number", Lits: acc}
		if res.Err != nil || res.Panic != nil {
			if len(acc) == 1 {
				k.rec.Violation(k.t, cs, "executing the literal %s of type %s on %s failed: %v %v", acc[0].Text, acc[0].Type, eng, res.Err, res.Panic)
			}
			for _, l := range acc {
				k.execBatch([]numLit{l}, []host.Engine{eng})
			}
			continue
		}
		m, err := jsonOf(res.Value)
		if err != nil {
			k.rec.Violation(k.t, cs, "cannot export: %v", err)
		}
		rows := m["value"].([]any)
		if len(rows) != len(acc) {
			k.rec.Violation(k.t, cs, "%d result rows for %d literals", len(rows), len(acc))
		}
		for i, l := range acc {
			ty := oracle.ByName(l.Type)
			k.rec.Case(true, "exec", l.Type, l.Text, eng.String())
			k.rec.Evals(5)
			k.rec.Class("executed/" + eng.String())
			if ty.IsFixed() {
				_, digits, _ := evalFixLit(l.Text, ty.Scale)
				if digits == ty.Scale {
					k.rec.Class("executed/fixed-at-full-scale")
					if strings.HasPrefix(l.Text, "-") {
						k.rec.Class("executed/fixed-at-full-scale-negative")
					}
				}
			} else if (ty.Bits == 0 || ty.Bits >= 128) && raws[i].BitLen() > 64 {
				k.rec.Class("executed/big-integer-beyond-64-bits")
			}
			vals := rows[i].(map[string]any)["value"].([]any)
			if len(vals) != len(places) {
				k.rec.Violation(k.t, c40Case{Kind: "number", Lits: []numLit{l}}, "%d evaluations returned for literal %s, want %d", len(vals), l.Text, len(places))
			}
			for j, v := range vals {
				got, err := numFromJSON(v, ty)
				if err != nil || got.Cmp(raws[i]) != 0 {
					k.rec.Violation(k.t, c40Case{Kind: "number", Lits: []numLit{l}}, "the %s literal %s evaluates to %v in the %s on %s, it denotes raw %s (all evaluations: %v)",
						l.Type, l.Text, v, places[j], eng, raws[i], vals)
				}
			}
		}
	}
}

// ---- strings ---------------------------------------------------------------------

type strPiece struct {
	src     string // source text inside the quotes
	decoded string
	feature string
}

func genStringPiece(r *rand.Rand) strPiece {
	switch r.Intn(12) {
	case 0:
		return strPiece{`\0`, "\x00", "escape-0"}
	case 1:
		return strPiece{`\\`, `\`, "escape-backslash"}
	case 2:
		return strPiece{`\t`, "\t", "escape-t"}
	case 3:
		return strPiece{`\n`, "\n", "escape-n"}
	case 4:
		return strPiece{`\r`, "\r", "escape-r"}
	case 5:
		return strPiece{`\"`, `"`, "escape-dquote"}
	case 6:
		return strPiece{`\'`, `'`, "escape-squote"}
	case 7, 8: // \u{…} with 1..6 hex digits (leading zeros allowed), valid scalar values only
		var cp rune
		for {
			switch r.Intn(5) {
			case 0:
				cp = rune(r.Intn(0x80))
			case 1:
				cp = rune(0x80 + r.Intn(0x780))
			case 2:
				cp = rune(0x800 + r.Intn(0xF800))
			case 3:
				cp = rune(0x10000 + r.Intn(0x100000))
			default:
				cp = []rune{0, 0x7f, 0x80, 0x7ff, 0x800, 0xd7ff, 0xe000, 0xfffd, 0xffff, 0x10000, 0x10ffff, 0x301, 0x1F600, 0x200D, 0xFEFF}[r.Intn(15)]
			}
			if utf8.ValidRune(cp) {
				break
			}
		}
		hx := fmt.Sprintf("%x", cp)
		if r.Intn(2) == 0 {
			hx = strings.ToUpper(hx)
		}
		if pad := 6 - len(hx); pad > 0 && r.Intn(2) == 0 {
			hx = strings.Repeat("0", 1+r.Intn(pad)) + hx
		}
		return strPiece{`\u{` + hx + `}`, string(cp), fmt.Sprintf("escape-u%d", len(hx))}
	case 9: // raw non-ASCII
		s := []string{"é", "é", "ß", "日本", "😀", "👨‍👩‍👧", "🇩🇪", " ", "İ", "ﬁ", "Å", "Å", "한", "한"}[r.Intn(14)]
		return strPiece{s, s, "raw-unicode"}
	default:
		const ascii = "abcXYZ 019_-+*/(){}[]<>.,;:!?#$%&@^~|`="
		n := 1 + r.Intn(4)
		var sb strings.Builder
		for i := 0; i < n; i++ {
			sb.WriteByte(ascii[r.Intn(len(ascii))])
		}
		return strPiece{sb.String(), sb.String(), "ascii"}
	}
}

var invalidEscapes = []string{`\a`, `\x41`, `\U{41}`, `\u41`, `\u{zz}`, `\u{41`, `\q`, `\ `, `\1`, `\u{4 1}`, `\N`, `\e`}

// runStrings: one script per batch returning the utf8 of every literal.
func (k *c40) runStrings(srcs []string, wants []string, feats [][]string, char bool, engines []host.Engine) {
	var sb strings.Builder
	sb.WriteString("access(all) fun main(): [[UInt8]] {\n    return [\n")
	for i, s := range srcs {
		if char {
			fmt.Fprintf(&sb, "        (\"%s\" as Character).utf8", s)
		} else {
			fmt.Fprintf(&sb, "        \"%s\".utf8", s)
		}
		if i < len(srcs)-1 {
			sb.WriteString(",")
		}
		sb.WriteString("\n")
	}
	sb.WriteString("    ]\n}\n")
	for _, eng := range engines {
		res := host.New().Script(sb.String(), nil, host.Options{Engine: eng})
		if res.Err != nil || res.Panic != nil {
			if len(srcs) == 1 {
				k.rec.Case(true, "string", srcs[0], eng.String())
				k.rec.Violation(k.t, c40Case{Kind: "string", Src: srcs[0], Want: hex.EncodeToString([]byte(wants[0]))}, "string literal \"%s\" (character: %v) on %s failed: %v %v", srcs[0], char, eng, res.Err, res.Panic)
			}
			for i := range srcs {
				k.runStrings(srcs[i:i+1], wants[i:i+1], feats[i:i+1], char, []host.Engine{eng})
			}
			continue
		}
		m, err := jsonOf(res.Value)
		if err != nil {
			k.rec.Violation(k.t, c40Case{Kind: "string", Src: srcs[0]}, "cannot export: %v", err)
		}
		rows := m["value"].([]any)
		for i, s := range srcs {
			got, err := bytesFromJSON(rows[i])
			want := norm.NFC.String(wants[i])
			nt := false
			for _, f := range feats[i] {
				if f != "ascii" {
					nt = true
				}
				k.rec.Class("string/feature/" + f)
			}
			k.rec.Case(nt, "string", s, char, eng.String())
			if char {
				k.rec.Class("character/" + eng.String())
			} else {
				k.rec.Class("string/" + eng.String())
			}
			if want != wants[i] {
				k.rec.Class("string/needs-normalisation")
			}
			if nt && k.rec.WantSample("string/"+strings.Join(feats[i], "+")) && len(feats[i]) <= 2 {
				k.rec.Sample("string/"+strings.Join(feats[i], "+"), map[string]any{"literal": `"` + s + `"`, "expected_utf8_hex": hex.EncodeToString([]byte(want))})
			}
			if err != nil || string(got) != want {
				k.rec.Violation(k.t, c40Case{Kind: "string", Src: s, Want: hex.EncodeToString([]byte(want))},
					"literal \"%s\" (character: %v) on %s has utf8 %x, the escapes denote %x (NFC of %x)", s, char, eng, got, want, wants[i])
			}
		}
	}
}

// invalid escapes must be rejected (no value can be intended)
func (k *c40) runInvalidEscape(esc string, r *rand.Rand) {
	p1 := genStringPiece(r)
	src := fmt.Sprintf("access(all) fun main(): String { return \"%s%szz\" }", p1.src, esc)
	for _, eng := range host.Engines {
		res := host.New().Script(src, nil, host.Options{Engine: eng})
		k.rec.Case(true, "invalid-escape", src, eng.String())
		k.rec.Class("string/invalid-escape-rejected")
		if res.Panic != nil {
			k.rec.Violation(k.t, c40Case{Kind: "string", Src: src}, "program %q panicked on %s: %v", src, eng, res.Panic)
		}
		if res.Err == nil {
			k.rec.Violation(k.t, c40Case{Kind: "string", Src: src}, "program %q with the invalid escape %s is accepted on %s and returns %v", src, esc, eng, res.Value)
		}
	}
}

func TestC40(t *testing.T) {
	rec := evid.Start(t, "C40", "generated literals against an own evaluator that reads the literal *text*: integer literals for all 20 integer types (bases 2/8/10/16, upper/lower/mixed-case hex digits, underscores between digits incl. doubled, leading zeros, unary minus, values at each type's min/max ±1/±2, pool, random, far out of range, 40–300 digits) "+
		"and fixed-point literals for the 4 fixed-point types (1–30 fraction digits: full scale, stripped, cut, excess zero / non-zero digits; integer parts around the bounds; underscores, leading zeros, minus): "+
		"many `let x: T = lit` declarations per program are type-checked; the checker must reject exactly those whose written value is outside T's range (integer) or has more fraction digits than T's scale or is out of range (fixed-point), with a literal range/scale error; "+
		"a sample of the accepted ones is executed on both engines, each literal six times from the same two AST nodes (three calls of `fun(): T { return lit }` and three iterations of a loop containing `let x: T = lit`), and every evaluation must equal exactly the written value. "+
		"String and Character literals assembled from all escapes (\\0 \\\\ \\t \\n \\r \\\" \\' \\u{1–6 hex digits, valid scalar values}), raw Unicode and ASCII: `.utf8` on both engines must equal the UTF-8 of the NFC form of the decoded code points; invalid escapes must be rejected. "+
		"Non-trivial: non-decimal base, underscores, >= 40 characters, value within 1 of a bound (inside or outside); strings: any non-ASCII-plain piece. Distinct by (type, literal text).")
	k := &c40{rec: rec, t: t, useKnown: evid.ReplayFile() == ""}
	if rec.Known("FN8") {
		res := host.New().Script("access(all) fun main(): Int8 { let x: Int8 = -0; return x }", nil, host.Options{})
		rec.ReportKnown("FN8", res.Err != nil)
	}

	if f := evid.ReplayFile(); f != "" {
		var cs c40Case
		if err := evid.LoadReplay(f, &cs); err != nil {
			t.Fatalf("bad replay file: %v", err)
		}
		if cs.Kind == "number" {
			k.checkBatch(cs.Lits)
			k.execBatch(cs.Lits, host.Engines)
			return
		}
		if strings.HasPrefix(cs.Src, "access(all)") {
			for _, eng := range host.Engines {
				res := host.New().Script(cs.Src, nil, host.Options{Engine: eng})
				if res.Err == nil {
					rec.Violation(t, cs, "program %q is accepted on %s", cs.Src, eng)
				}
			}
			return
		}
		w, _ := hex.DecodeString(cs.Want)
		k.runStrings([]string{cs.Src}, []string{string(w)}, [][]string{{"replay"}}, false, host.Engines)
		return
	}

	perType := evid.N(2500, 40_000)
	execEvery := 7
	for _, ty := range oracle.Types {
		r := evid.Rand(int64(evid.Hash("C40", ty.Name) % 1000003))
		lits := genNumLits(ty, r, perType)
		for i := 0; i < len(lits); i += 150 {
			k.checkBatch(lits[i:min(i+150, len(lits))])
		}
		var ex []numLit
		for i, l := range lits {
			if i%execEvery == 0 {
				ex = append(ex, l)
			}
		}
		for i := 0; i < len(ex); i += 100 {
			k.execBatch(ex[i:min(i+100, len(ex))], host.Engines)
		}
	}

	// strings and characters
	r := evid.Rand(4040)
	ns := evid.N(1500, 20_000)
	var srcs, wants []string
	var feats [][]string
	for i := 0; i < ns; i++ {
		n := 1 + r.Intn(6)
		var s, w strings.Builder
		var fs []string
		for j := 0; j < n; j++ {
			p := genStringPiece(r)
			s.WriteString(p.src)
			w.WriteString(p.decoded)
			fs = append(fs, p.feature)
		}
		sort.Strings(fs)
		srcs, wants, feats = append(srcs, s.String()), append(wants, w.String()), append(feats, fs)
	}
	for i := 0; i < len(srcs); i += 100 {
		j := min(i+100, len(srcs))
		k.runStrings(srcs[i:j], wants[i:j], feats[i:j], false, host.Engines)
	}
	// characters: a single piece that is one grapheme cluster
	var csrcs, cwants []string
	var cfeats [][]string
	for len(csrcs) < evid.N(300, 3000) {
		p := genStringPiece(r)
		if utf8.RuneCountInString(p.decoded) != 1 {
			continue
		}
		if cp, _ := utf8.DecodeRuneInString(p.decoded); cp == '\r' {
			// (a lone CR is a cluster of its own; fine) keep
			_ = cp
		}
		csrcs, cwants, cfeats = append(csrcs, p.src), append(cwants, p.decoded), append(cfeats, []string{p.feature})
	}
	for i := 0; i < len(csrcs); i += 100 {
		j := min(i+100, len(csrcs))
		k.runStrings(csrcs[i:j], cwants[i:j], cfeats[i:j], true, host.Engines)
	}
	for _, e := range invalidEscapes {
		for i := 0; i < evid.N(2, 10); i++ {
			k.runInvalidEscape(e, r)
		}
	}

	for _, want := range []string{"integer/accepted", "integer/rejected", "fixed/accepted", "fixed/rejected", "integer/feature/binary", "integer/feature/octal", "integer/feature/hex", "integer/feature/underscores",
		"integer/feature/leading-zeros", "fixed/feature/excess-digits", "fixed/feature/excess-zero-digits", "fixed/feature/short-fraction", "executed/interpreter", "executed/vm", "executed/fixed-at-full-scale", "executed/fixed-at-full-scale-negative", "executed/big-integer-beyond-64-bits",
		"string/feature/escape-0", "string/feature/escape-u6", "string/feature/escape-u1", "string/feature/raw-unicode", "string/needs-normalisation", "character/vm", "string/invalid-escape-rejected"} {
		if rec.ClassCount(want) == 0 {
			rec.Inconclusive(t, "class %q never generated", want)
		}
	}
}
