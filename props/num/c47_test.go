package num

import (
	"encoding/binary"
	"fmt"
	"math"
	"math/big"
	"math/rand"
	"sort"
	"testing"

	"github.com/onflow/cadence/interpreter"
	"github.com/onflow/cadence/sema"
	"github.com/onflow/cadence/stdlib"

	"verif/lib/evid"
	"verif/lib/host"
	"verif/lib/numv"
	"verif/lib/oracle"
)

// ---------------------------------------------------------------- C47
//
// revertibleRandom is bounded and exactly uniform.

// scriptedGen answers the first request with the scripted bytes and aborts on a
// second request (the draw was rejected), or — in stream mode — serves a byte stream.
type scriptedGen struct {
	first    []byte // bytes served to the first request (zero-extended / truncated to its length)
	requests int
	reqLen   int
	stream   []byte // stream mode when non-nil (cycled)
	pos      int
	seq      [][]byte // sequence mode when non-nil: the i-th request is served seq[i]; one more request aborts
}

type rejectedDraw struct{}

func (g *scriptedGen) ReadRandom(b []byte) error {
	g.requests++
	if g.stream != nil {
		for i := range b {
			b[i] = g.stream[g.pos%len(g.stream)]
			g.pos++
		}
		return nil
	}
	if g.seq != nil {
		if g.requests > len(g.seq) {
			panic(rejectedDraw{})
		}
		g.reqLen = len(b)
		d := g.seq[g.requests-1]
		for i := range b {
			b[i] = 0
		}
		copy(b[max(0, len(b)-len(d)):], d[max(0, len(d)-len(b)):])
		return nil
	}
	if g.requests > 1 {
		panic(rejectedDraw{})
	}
	g.reqLen = len(b)
	// right-align: the enumerated integer's big-endian form in len(b) bytes
	for i := range b {
		b[i] = 0
	}
	copy(b[max(0, len(b)-len(g.first)):], g.first[max(0, len(g.first)-len(b)):])
	return nil
}

var c47Types = []string{"UInt8", "UInt16", "UInt32", "UInt64", "UInt128", "UInt256", "Word8", "Word16", "Word32", "Word64", "Word128", "Word256"}

type c47Case struct {
	Type   string `json:"type"`
	Modulo string `json:"modulo"`          // "" = no modulo
	Draw   string `json:"draw,omitempty"`  // hex of the first-request bytes
	Check  string `json:"check,omitempty"` // which sub-check
}

type c47 struct {
	rec *evid.Rec
	t   *testing.T
}

// draw performs one call; returns (value, accepted, requested length, other panic).
func (k *c47) draw(ty oracle.Type, st sema.Type, modulo *big.Int, gen *scriptedGen) (val *big.Int, accepted bool, other any) {
	var mv interpreter.Value
	if modulo != nil {
		mv = numv.Make(ty, modulo)
	}
	func() {
		defer func() {
			if r := recover(); r != nil {
				if _, ok := r.(rejectedDraw); ok {
					return
				}
				other = r
			}
		}()
		v := stdlib.RevertibleRandom(gen, nil, st, mv)
		name, raw := numv.Raw(v)
		if name != ty.Name {
			other = fmt.Sprintf("result has type %s, want %s", name, ty.Name)
			return
		}
		val, accepted = raw, true
	}()
	return
}

// fastDraw is draw without per-call allocations of the harness; the value is returned as uint64
// (values of the big types that do not fit 64 bits are reported as MaxUint64, which is >= any enumerated modulo).
func fastDraw(gen *scriptedGen, st sema.Type, mv interpreter.Value) (val uint64, accepted bool, other any) {
	defer func() {
		if r := recover(); r != nil {
			if _, ok := r.(rejectedDraw); ok {
				return
			}
			other = r
		}
	}()
	switch v := stdlib.RevertibleRandom(gen, nil, st, mv).(type) {
	case interpreter.UInt8Value:
		return uint64(v), true, nil
	case interpreter.UInt16Value:
		return uint64(v), true, nil
	case interpreter.UInt32Value:
		return uint64(v), true, nil
	case interpreter.UInt64Value:
		return uint64(v), true, nil
	case interpreter.Word8Value:
		return uint64(v), true, nil
	case interpreter.Word16Value:
		return uint64(v), true, nil
	case interpreter.Word32Value:
		return uint64(v), true, nil
	case interpreter.Word64Value:
		return uint64(v), true, nil
	default:
		_, raw := numv.Raw(v)
		if !raw.IsUint64() {
			return math.MaxUint64, true, nil
		}
		return raw.Uint64(), true, nil
	}
}

// exhaustive enumerates every draw of the requested length (must be <= 2 bytes, 0 for modulo 1)
// for one modulus and checks boundedness and equal pre-image sizes.
func (k *c47) exhaustive(ty oracle.Type, st sema.Type, m uint64, counts []uint32) {
	modulo := new(big.Int).SetUint64(m)
	cs := c47Case{Type: ty.Name, Modulo: modulo.String(), Check: "exhaustive"}
	// probe the draw length
	probe := &scriptedGen{first: []byte{0, 0, 0}}
	_, _, other := k.draw(ty, st, modulo, probe)
	if other != nil {
		k.rec.Violation(k.t, cs, "%s modulo %d: failed with %v", ty.Name, m, other)
	}
	n := probe.reqLen
	if probe.requests == 0 {
		n = 0
	}
	if n > 2 {
		k.rec.Violation(k.t, cs, "%s modulo %d requests %d random bytes for a draw; at most 2 can be needed below 2^16 (not enumerable)", ty.Name, m, n)
	}
	for i := uint64(0); i < m; i++ {
		counts[i] = 0
	}
	total := 1 << (8 * n)
	acceptedN := 0
	var buf [2]byte
	mv := numv.Make(ty, modulo)
	gen := &scriptedGen{}
	for d := 0; d < total; d++ {
		binary.BigEndian.PutUint16(buf[:], uint16(d))
		*gen = scriptedGen{first: buf[2-n:]}
		val, ok, other := fastDraw(gen, st, mv)
		if other != nil {
			cs.Draw = fmt.Sprintf("%x", buf[2-n:])
			k.rec.Violation(k.t, cs, "%s modulo %d draw %x: failed with %v", ty.Name, m, buf[2-n:], other)
		}
		if !ok {
			continue
		}
		acceptedN++
		if val >= m {
			cs.Draw = fmt.Sprintf("%x", buf[2-n:])
			k.rec.Violation(k.t, cs, "%s modulo %d draw %x: returned %d, not below the modulo", ty.Name, m, buf[2-n:], val)
		}
		counts[val]++
	}
	nt := m&(m-1) != 0 // not a power of two: rejection actually occurs
	k.rec.CaseH(nt, evid.Hash("ex", ty.Name, m))
	k.rec.Evals(int64(total) - 1)
	if nt {
		k.rec.Class("exhaustive/" + ty.Name + "/non-power-of-two")
	} else {
		k.rec.Class("exhaustive/" + ty.Name + "/power-of-two")
	}
	if nt && acceptedN == total {
		k.rec.Violation(k.t, cs, "%s modulo %d (not a power of two): all %d draws accepted, so the %d values cannot be equally likely", ty.Name, m, total, m)
	}
	want := counts[0]
	for v := uint64(0); v < m; v++ {
		if counts[v] == 0 {
			k.rec.Violation(k.t, cs, "%s modulo %d: value %d is never returned over all %d draws of %d byte(s)", ty.Name, m, v, total, n)
		}
		if counts[v] != want {
			k.rec.Violation(k.t, cs, "%s modulo %d: value %d is returned for %d draws but value 0 for %d draws (of %d draws of %d byte(s), %d accepted): not uniform",
				ty.Name, m, v, counts[v], want, total, n, acceptedN)
		}
	}
	if nt && m > 2 && k.rec.WantSample("exhaustive/"+ty.Name) {
		k.rec.Sample("exhaustive/"+ty.Name, map[string]any{"type": ty.Name, "modulo": m, "draw_bytes": n, "draws": total, "accepted": acceptedN, "each_value_hit": want})
	}
}

// noModuloExhaustive: without modulo the map draw -> value on size(T) bytes must be a bijection.
func (k *c47) noModuloExhaustive(ty oracle.Type, st sema.Type) {
	cs := c47Case{Type: ty.Name, Check: "no-modulo-exhaustive"}
	size := ty.Bits / 8
	total := 1 << ty.Bits
	seen := make([]bool, total)
	var buf [2]byte
	for d := 0; d < total; d++ {
		binary.BigEndian.PutUint16(buf[:], uint16(d))
		gen := &scriptedGen{first: buf[2-size:]}
		val, ok, other := k.draw(ty, st, nil, gen)
		if other != nil || !ok {
			k.rec.Violation(k.t, cs, "%s without modulo, draw %x: rejected or failed (%v)", ty.Name, buf[2-size:], other)
		}
		if gen.reqLen != size {
			k.rec.Violation(k.t, cs, "%s without modulo requests %d bytes, want %d", ty.Name, gen.reqLen, size)
		}
		if !ty.Fits(val) || seen[val.Uint64()] {
			k.rec.Violation(k.t, cs, "%s without modulo: value %s returned for two different draws (or out of range): not a bijection", ty.Name, val)
		}
		seen[val.Uint64()] = true
	}
	k.rec.CaseH(true, evid.Hash("nomod", ty.Name))
	k.rec.Evals(int64(total) - 1)
	k.rec.Class("no-modulo/exhaustive/" + ty.Name)
}

// chiSquare over B buckets of [0,m): returns the statistic for `counts`.
func chiSquare(counts []int, total int) float64 {
	exp := float64(total) / float64(len(counts))
	s := 0.0
	for _, c := range counts {
		d := float64(c) - exp
		s += d * d / exp
	}
	return s
}

// wide checks moduli whose draws cannot be enumerated: boundedness on adversarial and
// pseudo-random sources, plus a bucketed chi-square test (16 buckets, threshold for p ~ 1e-12).
func (k *c47) wide(ty oracle.Type, st sema.Type, modulo *big.Int, r *rand.Rand, samples int) {
	cs := c47Case{Type: ty.Name, Modulo: modulo.String(), Check: "wide"}
	size := ty.Bits / 8
	// adversarial single draws
	adversarial := [][]byte{make([]byte, size), bytesOf(0xff, size), alternating(size, 0xaa), alternating(size, 0x55)}
	mm1 := new(big.Int).Sub(modulo, big.NewInt(1))
	adversarial = append(adversarial, mm1.FillBytes(make([]byte, size)), modulo.FillBytes(make([]byte, size)))
	for _, a := range adversarial {
		gen := &scriptedGen{first: a}
		val, ok, other := k.draw(ty, st, modulo, gen)
		k.rec.Evals(1)
		if other != nil {
			cs.Draw = fmt.Sprintf("%x", a)
			k.rec.Violation(k.t, cs, "%s modulo %s draw %x: failed with %v", ty.Name, modulo, a, other)
		}
		if ok && val.Cmp(modulo) >= 0 {
			cs.Draw = fmt.Sprintf("%x", a)
			k.rec.Violation(k.t, cs, "%s modulo %s draw %x: returned %s, not below the modulo", ty.Name, modulo, a, val)
		}
		if ok {
			k.rec.Class("wide/adversarial-accepted")
		} else {
			k.rec.Class("wide/adversarial-rejected")
		}
	}
	// pseudo-random stream (rejections simply continue in the stream)
	stream := make([]byte, 1<<16)
	r.Read(stream)
	gen := &scriptedGen{stream: stream, pos: r.Intn(1 << 16)}
	const buckets = 16
	counts := make([]int, buckets)
	bm := new(big.Int)
	for i := 0; i < samples; i++ {
		if i%2048 == 0 {
			r.Read(stream) // refresh so the stream is not periodic
		}
		val, ok, other := k.draw(ty, st, modulo, gen)
		if other != nil || !ok {
			k.rec.Violation(k.t, cs, "%s modulo %s on a pseudo-random stream: failed with %v", ty.Name, modulo, other)
		}
		if val.Cmp(modulo) >= 0 {
			k.rec.Violation(k.t, cs, "%s modulo %s: returned %s, not below the modulo", ty.Name, modulo, val)
		}
		bm.Mul(val, big.NewInt(buckets))
		bm.Quo(bm, modulo)
		counts[bm.Int64()]++
	}
	nt := new(big.Int).And(modulo, mm1).Sign() != 0
	k.rec.CaseH(nt, evid.Hash("wide", ty.Name, modulo.String()))
	k.rec.Evals(int64(samples) - 1)
	k.rec.Class("wide/" + ty.Name)
	// the bucket boundaries are exact only when 16 | m or m is huge; for m >= 2^20 the imbalance is < 2^-16
	if modulo.BitLen() > 20 && samples >= 20000 {
		if chi := chiSquare(counts, samples); chi > 110 { // 15 degrees of freedom: P(chi2 > 110) < 1e-15
			k.rec.Violation(k.t, cs, "%s modulo %s: %d pseudo-random draws fall into 16 equal sub-ranges as %v (chi-square %.1f, 15 dof): not uniform", ty.Name, modulo, samples, counts, chi)
		}
		k.rec.Class("wide/chi-square")
	}
}

func bytesOf(b byte, n int) []byte {
	out := make([]byte, n)
	for i := range out {
		out[i] = b
	}
	return out
}

func alternating(n int, b byte) []byte {
	out := make([]byte, n)
	for i := range out {
		if i%2 == 0 {
			out[i] = b
		} else {
			out[i] = ^b
		}
	}
	return out
}

// noModuloWide: injectivity, exact request length, every input bit matters, every output bit varies.
func (k *c47) noModuloWide(ty oracle.Type, st sema.Type, r *rand.Rand, samples int) {
	cs := c47Case{Type: ty.Name, Check: "no-modulo-wide"}
	size := ty.Bits / 8
	seen := map[string]string{}
	or, and := new(big.Int), new(big.Int).Sub(new(big.Int).Lsh(big.NewInt(1), uint(ty.Bits)), big.NewInt(1))
	call := func(d []byte) *big.Int {
		gen := &scriptedGen{first: d}
		val, ok, other := k.draw(ty, st, nil, gen)
		if other != nil || !ok {
			k.rec.Violation(k.t, cs, "%s without modulo, draw %x: rejected or failed (%v)", ty.Name, d, other)
		}
		if gen.reqLen != size {
			k.rec.Violation(k.t, cs, "%s without modulo requests %d bytes, want %d", ty.Name, gen.reqLen, size)
		}
		if !ty.Fits(val) {
			k.rec.Violation(k.t, cs, "%s without modulo: %s out of range", ty.Name, val)
		}
		return val
	}
	for i := 0; i < samples; i++ {
		d := make([]byte, size)
		r.Read(d)
		v := call(d)
		key := v.String()
		if prev, dup := seen[key]; dup && prev != string(d) {
			k.rec.Violation(k.t, cs, "%s without modulo: draws %x and %x give the same value %s", ty.Name, prev, d, v)
		}
		seen[key] = string(d)
		or.Or(or, v)
		and.And(and, v)
		if i < 64 {
			// flipping any single input bit must change the value
			bit := r.Intn(size * 8)
			d2 := append([]byte(nil), d...)
			d2[bit/8] ^= 1 << uint(bit%8)
			if call(d2).Cmp(v) == 0 {
				k.rec.Violation(k.t, cs, "%s without modulo: flipping bit %d of draw %x does not change the value", ty.Name, bit, d)
			}
		}
	}
	full := new(big.Int).Sub(new(big.Int).Lsh(big.NewInt(1), uint(ty.Bits)), big.NewInt(1))
	if samples >= 1000 && (or.Cmp(full) != 0 || and.Sign() != 0) {
		k.rec.Violation(k.t, cs, "%s without modulo: over %d random draws some output bit never changes (or=%x and=%x)", ty.Name, samples, or, and)
	}
	k.rec.CaseH(true, evid.Hash("nomodwide", ty.Name))
	k.rec.Evals(int64(samples) - 1)
	k.rec.Class("no-modulo/sampled/" + ty.Name)
}

// runs extends the pre-image argument over request *sequences*: a source that serves k draws each of
// which is rejected on its own, followed by a draw d that is accepted on its own with value f(d), must
// yield exactly f(d) after exactly k+1 requests — rejection sampling maps a draw sequence to its first
// accepted element, never to a function of a rejected one, however long the run of rejections is.
var c47RunLengths = []int{0, 1, 2, 5, 31, 32, 33, 64, 100, 1000}

func (k *c47) runs(ty oracle.Type, st sema.Type, modulo *big.Int, r *rand.Rand) {
	cs := c47Case{Type: ty.Name, Modulo: modulo.String(), Check: "runs"}
	one := big.NewInt(1)
	if new(big.Int).And(modulo, new(big.Int).Sub(modulo, one)).Sign() == 0 {
		return // power of two: no draw is ever rejected
	}
	probe := &scriptedGen{first: []byte{0}}
	if _, _, other := k.draw(ty, st, modulo, probe); other != nil {
		k.rec.Violation(k.t, cs, "%s modulo %s: failed with %v", ty.Name, modulo, other)
	}
	n := probe.reqLen
	bits := uint(modulo.BitLen()) // = bit length of modulo-1 for a non-power-of-two
	space := new(big.Int).Lsh(one, uint(8*n))
	maskTop := new(big.Int).Lsh(one, bits) // values in [modulo, 2^bits) are the rejected ones under any mask reading
	garbage := func(v *big.Int) *big.Int {
		// random bits above the modulo's bit length (inside the n requested bytes) must not matter
		if uint(8*n) > bits && r.Intn(2) == 0 {
			g := new(big.Int).Rand(r, new(big.Int).Rsh(space, bits))
			return new(big.Int).Or(v, g.Lsh(g, bits))
		}
		return v
	}
	enc := func(v *big.Int) []byte { return v.FillBytes(make([]byte, n)) }
	single := func(d []byte) (*big.Int, bool) {
		val, ok, other := k.draw(ty, st, modulo, &scriptedGen{first: d})
		if other != nil {
			k.rec.Violation(k.t, cs, "%s modulo %s draw %x: failed with %v", ty.Name, modulo, d, other)
		}
		return val, ok
	}
	rejKinds := []string{"all-ones", "smallest-rejected", "random-rejected"}
	for _, kind := range rejKinds {
		for _, runLen := range c47RunLengths {
			// the rejected prefix
			seq := make([][]byte, 0, runLen+1)
			for i := 0; i < runLen; i++ {
				var v *big.Int
				switch kind {
				case "all-ones":
					v = new(big.Int).Sub(space, one)
				case "smallest-rejected":
					v = garbage(new(big.Int).Set(modulo))
				default:
					v = new(big.Int).Rand(r, new(big.Int).Sub(maskTop, modulo))
					v = garbage(v.Add(v, modulo))
				}
				d := enc(v)
				if i < 3 || i == runLen-1 {
					if _, ok := single(d); ok {
						// not rejected on its own under this implementation's reading: not a usable prefix
						k.rec.Class("runs/prefix-not-rejected")
						seq = nil
						break
					}
				}
				seq = append(seq, d)
			}
			if seq == nil && runLen > 0 {
				continue
			}
			// the accepted draw
			var av *big.Int
			switch r.Intn(3) {
			case 0:
				av = big.NewInt(0)
			case 1:
				av = new(big.Int).Sub(modulo, one)
			default:
				av = new(big.Int).Rand(r, modulo)
			}
			ad := enc(garbage(av))
			want, ok := single(ad)
			if !ok {
				k.rec.Class("runs/final-not-accepted")
				continue
			}
			gen := &scriptedGen{seq: append(seq, ad)}
			got, accepted, other := k.draw(ty, st, modulo, gen)
			nt := runLen >= 31
			k.rec.CaseH(nt, evid.Hash("runs", ty.Name, modulo.String(), kind, runLen, fmt.Sprintf("%x", ad)))
			k.rec.Evals(int64(runLen))
			k.rec.Class(fmt.Sprintf("runs/k=%d", runLen))
			k.rec.Class("runs/" + kind)
			one47 := cs
			one47.Draw = fmt.Sprintf("%d x %s, then %x", runLen, kind, ad)
			if other != nil {
				k.rec.Violation(k.t, one47, "%s modulo %s after %d rejected draws (%s): failed with %v", ty.Name, modulo, runLen, kind, other)
			}
			if !accepted {
				k.rec.Violation(k.t, one47, "%s modulo %s: %d rejected draws (%s) followed by the accepted draw %x: a further request was made (%d requests)", ty.Name, modulo, runLen, kind, ad, gen.requests)
			}
			if gen.requests != runLen+1 {
				k.rec.Violation(k.t, one47, "%s modulo %s: %d rejected draws (%s) followed by the accepted draw %x: %d requests were made, want %d (returned %s)", ty.Name, modulo, runLen, kind, ad, gen.requests, runLen+1, got)
			}
			if got.Cmp(want) != 0 || got.Cmp(modulo) >= 0 {
				k.rec.Violation(k.t, one47, "%s modulo %s: %d rejected draws (%s) followed by the draw %x (value %s on its own) returned %s", ty.Name, modulo, runLen, kind, ad, want, got)
			}
			if nt && k.rec.WantSample("runs/"+ty.Name) {
				k.rec.Sample("runs/"+ty.Name, map[string]any{"type": ty.Name, "modulo": modulo.String(), "rejected_draws": runLen, "kind": kind, "then_draw": fmt.Sprintf("%x", ad), "result": got.String()})
			}
		}
	}
}

// c47RunModuli: non-power-of-two moduli for the run check (small path, big path, near powers of two, max).
func c47RunModuli(ty oracle.Type, r *rand.Rand) []*big.Int {
	var out []*big.Int
	for _, m := range []int64{3, 5, 6, 7, 100, 129, 255} {
		if ty.Fits(big.NewInt(m)) {
			out = append(out, big.NewInt(m))
		}
	}
	one := big.NewInt(1)
	for _, kb := range []int{8, 9, 15, 16, 31, 32, 33, 63, 64, 65, 127, 128, 129, 255} {
		if kb >= ty.Bits {
			continue
		}
		p := new(big.Int).Lsh(one, uint(kb))
		out = append(out, new(big.Int).Add(p, one))
		if kb+2 <= ty.Bits {
			out = append(out, new(big.Int).Mul(p, big.NewInt(3)))
		}
	}
	out = append(out, new(big.Int).Set(ty.Max), new(big.Int).Add(new(big.Int).Rsh(ty.Max, 1), big.NewInt(2)))
	for i := 0; i < 3; i++ {
		if m := ty.Random(r); m.Sign() > 0 {
			out = append(out, m)
		}
	}
	return out
}

func (k *c47) zeroModulo(ty oracle.Type, st sema.Type) {
	cs := c47Case{Type: ty.Name, Modulo: "0", Check: "zero"}
	_, ok, other := k.draw(ty, st, big.NewInt(0), &scriptedGen{stream: []byte{1, 2, 3}})
	k.rec.CaseH(true, evid.Hash("zero", ty.Name))
	k.rec.Class("zero-modulo")
	if ok || other == nil {
		k.rec.Violation(k.t, cs, "%s modulo 0 did not fail", ty.Name)
	}
	if other != any(stdlib.ZeroModuloError) {
		k.rec.Violation(k.t, cs, "%s modulo 0 failed with %T %v, want the ZeroModuloError user error", ty.Name, other, other)
	}
}

// scripts: revertibleRandom<T>(modulo: m) / revertibleRandom<T>() through the language on both
// engines, compared with the directly tested function on the same byte stream.
func (k *c47) scripts(r *rand.Rand, n int) {
	for i := 0; i < n; i++ {
		ty := oracle.ByName(c47Types[r.Intn(len(c47Types))])
		st := semaTypeByName(ty.Name)
		stream := make([]byte, 64)
		r.Read(stream)
		var modulo *big.Int
		switch r.Intn(6) {
		case 0: // none
		case 1:
			modulo = big.NewInt(0)
		case 2:
			modulo = big.NewInt(int64(1 + r.Intn(255)))
		default:
			modulo = ty.Random(r)
		}
		cs := c47Case{Type: ty.Name, Check: "script", Draw: fmt.Sprintf("%x", stream)}
		src := fmt.Sprintf("access(all) fun main(): %[1]s { return revertibleRandom<%[1]s>() }", ty.Name)
		var args [][]byte
		if modulo != nil {
			cs.Modulo = modulo.String()
			src = fmt.Sprintf("access(all) fun main(m: %[1]s): %[1]s { return revertibleRandom<%[1]s>(modulo: m) }", ty.Name)
			args = [][]byte{argJSON(ty, modulo)}
		}
		want, okDirect, other := k.draw(ty, st, modulo, &scriptedGen{stream: stream})
		for _, eng := range host.Engines {
			h := host.New()
			h.Random = stream
			res := h.Script(src, args, host.Options{Engine: eng})
			k.rec.Case(true, "script", ty.Name, cs.Modulo, cs.Draw, eng.String())
			k.rec.Class("script/" + eng.String())
			if modulo != nil && modulo.Sign() == 0 {
				k.rec.Class("script/zero-modulo")
				info := host.Classify(res)
				if info.Class != "user" {
					k.rec.Violation(k.t, cs, "revertibleRandom<%s>(modulo: 0) on %s: outcome class %s (%v), want a user error", ty.Name, eng, info.Class, res.Err)
				}
				continue
			}
			if !okDirect {
				k.rec.Violation(k.t, cs, "direct call failed: %v", other)
			}
			if res.Err != nil || res.Panic != nil {
				k.rec.Violation(k.t, cs, "script %q on %s failed: %v %v", src, eng, res.Err, res.Panic)
			}
			name, raw, err := resultRaw(res.Value)
			if err != nil || name != ty.Name {
				k.rec.Violation(k.t, cs, "script %q on %s: bad result %v (%v)", src, eng, res.Value, err)
			}
			if modulo != nil && raw.Cmp(modulo) >= 0 {
				k.rec.Violation(k.t, cs, "revertibleRandom<%s>(modulo: %s) on %s returned %s", ty.Name, modulo, eng, raw)
			}
			if raw.Cmp(want) != 0 {
				k.rec.Violation(k.t, cs, "revertibleRandom<%s>(modulo: %v) on %s returned %s, the library function gives %s on the same random bytes", ty.Name, modulo, eng, raw, want)
			}
		}
	}
}

// c47Moduli16: the quick-tier sample of 16-bit moduli.
func c47Moduli16(r *rand.Rand, n int) []uint64 {
	set := map[uint64]bool{}
	for k := 0; k <= 16; k++ {
		for d := -1; d <= 1; d++ {
			m := int64(1)<<uint(k) + int64(d)
			if m >= 1 && m <= 65535 {
				set[uint64(m)] = true
			}
		}
	}
	for _, p := range []uint64{3, 5, 7, 11, 13, 251, 257, 509, 521, 1021, 4093, 8191, 16381, 32749, 65521, 65535, 65534, 40000, 43691, 21845, 49152, 24576, 6, 10, 100, 1000, 10000, 384, 640} {
		set[p] = true
	}
	for len(set) < n {
		set[uint64(1+r.Intn(65535))] = true
	}
	out := make([]uint64, 0, len(set))
	for m := range set {
		out = append(out, m)
	}
	sort.Slice(out, func(i, j int) bool { return out[i] < out[j] })
	return out
}

func TestC47(t *testing.T) {
	rec := evid.Start(t, "C47", "direct calls of stdlib.RevertibleRandom with a scripted generator that serves the enumerated bytes to the first request and aborts on a second one (= draw rejected). "+
		"For UInt8 and Word8: all moduli 1..255 × all draws of the requested length; for the other ten types every modulus 1..256 and (quick) ~260 moduli up to 65535 for UInt16/Word16, ~70 for the wider types (2^k, 2^k±1, primes, random; thorough: all 65535, sharded) × all 65536 two-byte draws: "+
		"every returned value is below the modulo, every value below the modulo is returned for the same number of draws (and at least once), and a non-power-of-two modulo rejects some draw. "+
		"Without modulo: the map from size(T) bytes to the value is a bijection (8/16-bit exhaustively; wider: exact request length, injectivity, single-bit sensitivity and bit balance over random draws). "+
		"Moduli beyond 2^16 (2^k, 2^k±1, 3·2^k, max, random): boundedness on adversarial (zeros, ones, alternating, modulo-1, modulo) and pseudo-random streams with a 16-bucket chi-square test. "+
		"Request sequences: sources serving k in {0,1,2,5,31,32,33,64,100,1000} draws that are each rejected on their own (all-ones, the smallest rejected value, random rejected values, with random bits above the modulo's length) followed by a draw d accepted on its own with value f(d) must return exactly f(d) after exactly k+1 requests, for ~20 non-power-of-two moduli per type (small and big-number path). "+
		"Zero modulo fails with the ZeroModuloError user error. A sample also runs as revertibleRandom<T>(modulo:) scripts on both engines and must agree with the library call on the same bytes. "+
		"Non-trivial: the modulo is not a power of two. Distinct by (type, modulo); every enumerated draw is counted as an evaluation.")
	k := &c47{rec: rec, t: t}

	if f := evid.ReplayFile(); f != "" {
		var cs c47Case
		if err := evid.LoadReplay(f, &cs); err != nil {
			t.Fatalf("bad replay file: %v", err)
		}
		ty := oracle.ByName(cs.Type)
		st := semaTypeByName(ty.Name)
		switch cs.Check {
		case "exhaustive":
			k.exhaustive(ty, st, bi(cs.Modulo).Uint64(), make([]uint32, 65536))
		case "no-modulo-exhaustive":
			k.noModuloExhaustive(ty, st)
		case "no-modulo-wide":
			k.noModuloWide(ty, st, evid.Rand(47), 2000)
		case "zero":
			k.zeroModulo(ty, st)
		case "wide":
			k.wide(ty, st, bi(cs.Modulo), evid.Rand(47), 30000)
		case "runs":
			k.runs(ty, st, bi(cs.Modulo), evid.Rand(47))
		default:
			k.scripts(evid.Rand(4747), evid.N(150, 1000))
		}
		return
	}

	counts := make([]uint32, 65536)
	shard, shards := evid.Shard(), evid.Shards()
	exhaustive8 := true
	for ti, name := range c47Types {
		ty := oracle.ByName(name)
		st := semaTypeByName(name)
		r := evid.Rand(int64(evid.Hash("C47", name) % 1000003))
		k.zeroModulo(ty, st)
		// runs of rejected draws followed by an accepted one (every shard: cheap)
		for _, m := range c47RunModuli(ty, r) {
			k.runs(ty, st, m, r)
		}
		// 8-bit moduli: exhaustively for every type (the draw is one byte whatever the type)
		if shard == 0 {
			top := uint64(256)
			if ty.Bits == 8 {
				top = 255
			}
			for m := uint64(1); m <= top; m++ {
				k.exhaustive(ty, st, m, counts)
			}
		}
		if ty.Bits >= 16 {
			var moduli []uint64
			if evid.Thorough() {
				for m := uint64(257); m <= 65535; m++ {
					if int(m)%shards == shard {
						moduli = append(moduli, m)
					}
				}
				// the wider types share the code path of UInt16/Word16 for these moduli: a strided slice each
				if ty.Bits > 16 {
					var sl []uint64
					for i, m := range moduli {
						if i%16 == ti%16 {
							sl = append(sl, m)
						}
					}
					moduli = sl
				}
			} else {
				n := 260
				if ty.Bits > 16 {
					n = 70
				}
				for _, m := range c47Moduli16(r, evid.N(n, n)) {
					if m > 256 {
						moduli = append(moduli, m)
					}
				}
			}
			for _, m := range moduli {
				k.exhaustive(ty, st, m, counts)
			}
		}
		// no modulo
		if shard == 0 {
			if ty.Bits <= 16 {
				k.noModuloExhaustive(ty, st)
			} else {
				k.noModuloWide(ty, st, r, evid.N(20_000, 100_000))
			}
		}
		// wide moduli
		if ty.Bits > 16 {
			var moduli []*big.Int
			one := big.NewInt(1)
			for _, kbit := range []int{17, 24, 31, 32, 33, 47, 63, 64, 65, 100, 127, 128, 129, 200, 255} {
				if kbit >= ty.Bits {
					continue
				}
				p := new(big.Int).Lsh(one, uint(kbit))
				moduli = append(moduli, p, new(big.Int).Add(p, one), new(big.Int).Sub(p, one))
				if kbit+2 <= ty.Bits {
					moduli = append(moduli, new(big.Int).Mul(p, big.NewInt(3)))
				}
			}
			moduli = append(moduli, ty.Max, new(big.Int).Sub(ty.Max, one), new(big.Int).Add(new(big.Int).Rsh(ty.Max, 1), big.NewInt(2)))
			for i := 0; i < evid.N(6, 40); i++ {
				if m := ty.Random(r); m.BitLen() > 16 {
					moduli = append(moduli, m)
				}
			}
			for i, m := range moduli {
				if i%shards == shard {
					k.wide(ty, st, m, r, evid.N(25_000, 100_000))
				}
			}
		}
	}
	k.scripts(evid.Rand(4747), evid.N(150, 1000))
	if shards == 1 || evid.Thorough() {
		rec.SetExhaustive(exhaustive8)
		if evid.Thorough() {
			rec.Extra("exhaustive_subspaces", "all moduli 1..255 x all one-byte draws for every type; all moduli 1..65535 x all 65536 two-byte draws for UInt16 and Word16 (union of the shards); no-modulo map of the 8- and 16-bit types")
		} else {
			rec.Extra("exhaustive_subspaces", "all moduli 1..255 (1..256 for wider types) x all draws of the requested length (one byte; two for 256) for every type; no-modulo map of the 8- and 16-bit types; NOT exhaustive: 16-bit moduli (sampled), wider moduli")
		}
	}
	for _, want := range []string{"exhaustive/UInt8/non-power-of-two", "exhaustive/Word8/non-power-of-two", "exhaustive/UInt16/non-power-of-two", "exhaustive/Word256/non-power-of-two",
		"wide/chi-square", "wide/adversarial-rejected", "wide/adversarial-accepted", "script/interpreter", "script/vm", "script/zero-modulo", "zero-modulo", "no-modulo/exhaustive/UInt16", "no-modulo/sampled/UInt64",
		"runs/k=0", "runs/k=31", "runs/k=32", "runs/k=33", "runs/k=1000", "runs/all-ones", "runs/smallest-rejected", "runs/random-rejected"} {
		if shard == 0 && rec.ClassCount(want) == 0 {
			rec.Inconclusive(t, "class %q never generated", want)
		}
	}
}
