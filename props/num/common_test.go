package num

import (
	"encoding/json"
	"fmt"
	"math/big"
	"strings"
	"sync"
	"testing"

	"github.com/onflow/cadence"
	"github.com/onflow/cadence/common"
	jsoncdc "github.com/onflow/cadence/encoding/json"
	"github.com/onflow/cadence/interpreter"
	"github.com/onflow/cadence/sema"

	"verif/lib/host"
	"verif/lib/numv"
	"verif/lib/oracle"
)

var (
	ctxOnce sync.Once
	ctx     *interpreter.Interpreter
)

// context returns a bare interpreter used as the arithmetic context.
func context(t testing.TB) *interpreter.Interpreter {
	ctxOnce.Do(func() {
		storage := interpreter.NewInMemoryStorage(nil, nil)
		inter, err := interpreter.NewInterpreter(nil, common.StringLocation("verif"), &interpreter.Config{Storage: storage})
		if err != nil {
			panic(err)
		}
		ctx = inter
	})
	return ctx
}

// Case is the JSON form of one arithmetic case (also the replay format).
type Case struct {
	Type string `json:"type"`
	Op   string `json:"op"`
	A    string `json:"a"`
	B    string `json:"b,omitempty"`
	C    string `json:"c,omitempty"`
	Rule string `json:"rule,omitempty"`
}

func bi(s string) *big.Int {
	v, ok := new(big.Int).SetString(s, 10)
	if !ok {
		panic("bad integer " + s)
	}
	return v
}

// Expect is what the oracle says about a case.
type Expect struct {
	Value    *big.Int // exact expected raw result when Fail == ""
	Fail     string   // "", "range" (overflow or underflow), "divzero", "negshift"
	AltRange bool     // additionally allow a range failure (C14: unbounded shift amount not fitting 64 bits)
}

func (e Expect) String() string {
	if e.Fail != "" {
		return "fail:" + e.Fail
	}
	s := e.Value.String()
	if e.AltRange {
		s += " (or overflow)"
	}
	return s
}

// judge compares an outcome with the expectation; "" means agreement.
func judge(t oracle.Type, e Expect, o numv.Outcome) string {
	class := numv.ErrClass(o.Panic)
	switch {
	case e.Fail == "":
		if class == "ok" {
			name, raw := numv.Raw(o.Value)
			if name != t.Name {
				return fmt.Sprintf("result has type %s, want %s", name, t.Name)
			}
			if raw.Cmp(e.Value) != 0 {
				return fmt.Sprintf("got %s, want %s", raw, e.Value)
			}
			if !t.Fits(raw) {
				return fmt.Sprintf("result %s is outside the range of %s", raw, t.Name)
			}
			return ""
		}
		if e.AltRange && numv.RangeFail(class) {
			return ""
		}
		return fmt.Sprintf("failed with %s, want %s", class, e.Value)
	case e.Fail == "range":
		if numv.RangeFail(class) {
			return ""
		}
		if class == "ok" {
			_, raw := numv.Raw(o.Value)
			return fmt.Sprintf("returned %s, want overflow/underflow error", raw)
		}
		return fmt.Sprintf("failed with %s, want overflow/underflow error", class)
	default:
		if class == e.Fail {
			return ""
		}
		if class == "ok" {
			_, raw := numv.Raw(o.Value)
			return fmt.Sprintf("returned %s, want %s error", raw, e.Fail)
		}
		return fmt.Sprintf("failed with %s, want %s error", class, e.Fail)
	}
}

func semaTypeByName(name string) sema.Type {
	for _, t := range sema.AllNumberTypes {
		if t.String() == name {
			return t
		}
	}
	panic("no sema type " + name)
}

func typesWhere(f func(oracle.Type) bool) []oracle.Type {
	var out []oracle.Type
	for _, t := range oracle.Types {
		if f(t) {
			out = append(out, t)
		}
	}
	return out
}

// ---- script glue (JSON-CDC built and parsed by hand, so that no cadence number
// code sits between the oracle and the program under test) ---------------------

// fixedString renders raw/10^scale as a decimal with exactly scale fraction digits.
func fixedString(ty oracle.Type, raw *big.Int) string {
	if ty.Scale == 0 {
		return raw.String()
	}
	abs := new(big.Int).Abs(raw)
	ip, fp := new(big.Int).QuoRem(abs, oracle.Pow10(ty.Scale), new(big.Int))
	s := fmt.Sprintf("%s.%0*s", ip, ty.Scale, fp)
	if raw.Sign() < 0 {
		s = "-" + s
	}
	return s
}

// argJSON is the JSON-CDC encoding of the number raw of type ty.
func argJSON(ty oracle.Type, raw *big.Int) []byte {
	return []byte(fmt.Sprintf(`{"type":%q,"value":%q}`, ty.Name, fixedString(ty, raw)))
}

// parseDecimal reads an optionally signed decimal "123" / "-1.500" as raw value at scale.
func parseDecimal(s string, scale int) (*big.Int, bool) {
	neg := strings.HasPrefix(s, "-")
	s = strings.TrimPrefix(s, "-")
	ip, fp, _ := strings.Cut(s, ".")
	if len(fp) > scale {
		if strings.Trim(fp[scale:], "0") != "" {
			return nil, false
		}
		fp = fp[:scale]
	}
	for len(fp) < scale {
		fp += "0"
	}
	v, ok := new(big.Int).SetString(ip+fp, 10)
	if !ok {
		return nil, false
	}
	if neg {
		v.Neg(v)
	}
	return v, true
}

// resultRaw decodes an exported number value into (type name, raw).
func resultRaw(v cadence.Value) (string, *big.Int, error) {
	if v == nil {
		return "", nil, fmt.Errorf("no value")
	}
	b, err := jsoncdc.Encode(v)
	if err != nil {
		return "", nil, err
	}
	var w struct {
		Type  string `json:"type"`
		Value string `json:"value"`
	}
	if err := json.Unmarshal(b, &w); err != nil {
		return "", nil, fmt.Errorf("%s: %v", b, err)
	}
	for _, t := range oracle.Types {
		if t.Name == w.Type {
			raw, ok := parseDecimal(w.Value, t.Scale)
			if !ok {
				return "", nil, fmt.Errorf("bad number %s", b)
			}
			return t.Name, raw, nil
		}
	}
	return "", nil, fmt.Errorf("not a number: %s", b)
}

// scriptErrClass maps a script result to the same classes as numv.ErrClass.
func scriptErrClass(res host.Result) string {
	if res.Panic != nil {
		return fmt.Sprintf("gopanic:%v", res.Panic)
	}
	if res.Err == nil {
		return "ok"
	}
	info := host.ClassifyErr(res.Err)
	switch {
	case info.HasType("OverflowError"):
		return "overflow"
	case info.HasType("UnderflowError"):
		return "underflow"
	case info.HasType("DivisionByZeroError"):
		return "divzero"
	case info.HasType("NegativeShiftError"):
		return "negshift"
	}
	return "other:" + info.Class + ":" + info.Root + ":" + res.Err.Error()
}

func scriptRangeFail(res host.Result) bool { return numv.RangeFail(scriptErrClass(res)) }

// judgeScript is judge for a script result.
func judgeScript(t oracle.Type, e Expect, res host.Result) string {
	class := scriptErrClass(res)
	if class == "ok" {
		name, raw, err := resultRaw(res.Value)
		if err != nil {
			return err.Error()
		}
		if e.Fail != "" {
			return fmt.Sprintf("returned %s, want %s error", raw, e.Fail)
		}
		if name != t.Name {
			return fmt.Sprintf("result has type %s, want %s", name, t.Name)
		}
		if raw.Cmp(e.Value) != 0 {
			return fmt.Sprintf("got %s, want %s", raw, e.Value)
		}
		return ""
	}
	switch {
	case e.Fail == "":
		if e.AltRange && numv.RangeFail(class) {
			return ""
		}
		return fmt.Sprintf("failed with %s, want %s", class, e.Value)
	case e.Fail == "range":
		if numv.RangeFail(class) {
			return ""
		}
	default:
		if class == e.Fail {
			return ""
		}
	}
	return fmt.Sprintf("failed with %s, want %s error", class, e.Fail)
}

func near(t oracle.Type, v *big.Int, d int64) bool {
	dd := big.NewInt(d)
	if t.Max != nil && new(big.Int).Abs(new(big.Int).Sub(t.Max, v)).Cmp(dd) <= 0 {
		return true
	}
	if t.Min != nil && new(big.Int).Abs(new(big.Int).Sub(t.Min, v)).Cmp(dd) <= 0 {
		return true
	}
	return false
}
