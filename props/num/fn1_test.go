package num

import (
	"math/big"

	fix "github.com/onflow/fixed-point"

	"verif/lib/oracle"
)

// Finding FN1 (C15): the 256/128-bit division of github.com/onflow/fixed-point
// v0.1.1 (raw128.go div192by128, "edge case" branch: the truncated interim
// remainder equals the truncated denominator) assumes that the low quotient word
// is 2^64-1; when it is smaller the quotient comes out one too large and the
// remainder wraps. Fix128/UFix128 `*`, `/`, `%` and multiplyDivide all divide
// through that routine. fn1Hit mirrors the *control flow* of div128 with
// math/big and reports whether that branch is taken with a low quotient word
// below 2^64-1 — the exact root cause, nothing else.

var (
	fn1Mask64 = new(big.Int).Sub(new(big.Int).Lsh(big.NewInt(1), 64), big.NewInt(1))
	fn1Two64  = new(big.Int).Lsh(big.NewInt(1), 64)
)

func fn1Word(v *big.Int, i uint) *big.Int {
	return new(big.Int).And(new(big.Int).Rsh(v, 64*i), fn1Mask64)
}

// fn1Edge mirrors div192by128(h, m, l, y) for y >= 2^64 and (h:m) < y·2^64.
func fn1Edge(h, m, l, y *big.Int) (hit bool, rem *big.Int) {
	hm := new(big.Int).Or(new(big.Int).Lsh(h, 64), m)
	interim := new(big.Int).Mod(hm, y)
	r := new(big.Int).Or(new(big.Int).Lsh(interim, 64), l)
	s := uint(128 - y.BitLen())
	final := new(big.Int).Rsh(r, 64-s)
	estY := new(big.Int).Rsh(y, 64-s)
	finalHi := new(big.Int).Rsh(final, 64)
	q, rem := new(big.Int).QuoRem(r, y, new(big.Int))
	return finalHi.Cmp(estY) >= 0 && q.Cmp(fn1Mask64) < 0, rem
}

// fn1Hit: does div128(n, y) (n < 2^256, 0 < y < 2^128) take the faulty branch?
func fn1Hit(n, y *big.Int) bool {
	ylo := fn1Word(y, 0)
	tz := uint(64)
	if ylo.Sign() != 0 {
		tz = ylo.TrailingZeroBits()
	}
	n = new(big.Int).Rsh(n, tz)
	y = new(big.Int).Rsh(y, tz)
	if y.Cmp(fn1Two64) < 0 {
		return false // 64-bit denominator: different routine
	}
	if fn1Word(n, 3).Sign() == 0 {
		hit, _ := fn1Edge(fn1Word(n, 2), fn1Word(n, 1), fn1Word(n, 0), y)
		return hit
	}
	hit, rhi := fn1Edge(fn1Word(n, 3), fn1Word(n, 2), fn1Word(n, 1), y)
	if hit {
		return true
	}
	hit, _ = fn1Edge(fn1Word(rhi, 1), fn1Word(rhi, 0), fn1Word(n, 0), y)
	return hit
}

// fn1Case applies the predicate to a C15 case.
func fn1Case(t oracle.Type, op string, a, b, c *big.Int) bool {
	if t.Bits != 128 || !t.IsFixed() {
		return false
	}
	abs := func(v *big.Int) *big.Int { return new(big.Int).Abs(v) }
	one := oracle.Pow10(t.Scale)
	var n, y *big.Int
	switch op {
	case "mul":
		n, y = new(big.Int).Mul(abs(a), abs(b)), one
	case "div":
		n, y = new(big.Int).Mul(abs(a), one), abs(b)
	case "mod":
		n, y = abs(a), abs(b)
	case "muldiv":
		n, y = new(big.Int).Mul(abs(a), abs(b)), abs(c)
	default:
		return false
	}
	if y.Sign() == 0 || n.Sign() == 0 {
		return false
	}
	// the library rejects quotients that cannot fit 128 bits before dividing
	if new(big.Int).Rsh(n, 128).Cmp(y) >= 0 {
		return false
	}
	return fn1Hit(n, y)
}

// fn1Lib is the predicate actually used for exclusion: it calls the *dependency itself* (not cadence)
// on the operand magnitudes — the unsigned routine that every Fix128/UFix128 `*`, `/`, `%` and
// multiplyDivide funnels into — and reports whether the library panics or returns something else than the
// exactly rounded quotient. A defect in cadence's own wrapper code (signs, rounding-rule mapping, error
// mapping, range of the signed type) does not make this predicate true, so it cannot be masked by it.
func fn1Lib(t oracle.Type, op string, a, b, c *big.Int, rule oracle.Rounding) (hit bool, how string) {
	if t.Bits != 128 || !t.IsFixed() {
		return false, ""
	}
	u := func(v *big.Int) fix.UFix128 {
		m := new(big.Int).Abs(v)
		return fix.NewUFix128(new(big.Int).Rsh(m, 64).Uint64(), new(big.Int).And(m, fn1Mask64).Uint64())
	}
	back := func(x fix.UFix128) *big.Int {
		v := new(big.Int).SetUint64(uint64(x.Hi))
		v.Lsh(v, 64)
		return v.Or(v, new(big.Int).SetUint64(uint64(x.Lo)))
	}
	one := oracle.Pow10(t.Scale)
	umax := new(big.Int).Sub(new(big.Int).Lsh(big.NewInt(1), 128), big.NewInt(1))
	var res fix.UFix128
	var err error
	var exact *big.Int
	abs := func(v *big.Int) *big.Int { return new(big.Int).Abs(v) }
	defer func() {
		if r := recover(); r != nil {
			hit, how = true, "library-panic"
		}
	}()
	switch op {
	case "mul":
		res, err = u(a).Mul(u(b), fix.RoundTruncate)
		exact = oracle.RoundRat(new(big.Rat).SetFrac(new(big.Int).Mul(abs(a), abs(b)), one), oracle.TowardZero)
	case "div":
		if b.Sign() == 0 {
			return false, ""
		}
		res, err = u(a).Div(u(b), fix.RoundTruncate)
		exact = oracle.RoundRat(new(big.Rat).SetFrac(new(big.Int).Mul(abs(a), one), abs(b)), oracle.TowardZero)
	case "mod":
		if b.Sign() == 0 {
			return false, ""
		}
		res, err = u(a).Mod(u(b))
		exact = new(big.Int).Rem(abs(a), abs(b))
	case "muldiv":
		if c.Sign() == 0 {
			return false, ""
		}
		res, err = u(a).FMD(u(b), u(c), fixRules[rule])
		exact = oracle.RoundRat(new(big.Rat).SetFrac(new(big.Int).Mul(abs(a), abs(b)), abs(c)), rule)
	default:
		return false, ""
	}
	switch err.(type) {
	case nil:
		if back(res).Cmp(exact) != 0 {
			return true, "library-wrong-result"
		}
	case fix.UnderflowError:
		if exact.Sign() != 0 {
			return true, "library-wrong-underflow"
		}
	case fix.PositiveOverflowError, fix.NegativeOverflowError:
		if exact.Cmp(umax) <= 0 {
			return true, "library-wrong-overflow"
		}
	}
	return false, ""
}
