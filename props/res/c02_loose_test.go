package res

import (
	"fmt"

	"verif/lib/evid"
	"verif/lib/host"
	"verif/lib/prog"
	"verif/lib/resgen"
)

var looseUniverse = &resgen.Universe{}

// checkLoose: second family of C02. The program is not linear by construction; the
// checker decides. Accepted programs run with flag=true and flag=false on both engines and
// every successful execution must conserve resources. Rejections are only counted.
func checkLoose(rt fataler, rec *evid.Rec, c *resgen.LooseCase) {
	fail := func(e host.Engine, flag bool, f string, a ...any) {
		rt.Fatalf("C02/checker-decides [%v flag=%v] %s\nconstructs %v\n%s", e, flag, fmt.Sprintf(f, a...), c.Constructs, c.Prog.Steps[1].Source)
	}
	accepted := true
	executed := 0
	for _, e := range host.Engines {
		for _, flag := range []bool{true, false} {
			hist := c.WithFlag(flag)
			h := host.New()
			if r := prog.RunStep(h, hist.Steps[0], host.Options{Engine: e}); r.Err != nil {
				fail(e, flag, "deployment failed: %s", errText(r))
			}
			before, err := resgen.TakeCensus(h.Ledger, looseUniverse, []uint64{1})
			if err != nil {
				fail(e, flag, "census: %v", err)
			}
			r := prog.RunStep(h, hist.Steps[1], host.Options{Engine: e, NoAtreeValidation: noAtreeValidation})
			info := host.Classify(r)
			if r.Panic != nil {
				fail(e, flag, "Go panic escaped the runtime: %v", r.Panic)
			}
			if isCheckerReject(info) {
				accepted = false
				break
			}
			after, err := resgen.TakeCensus(h.Ledger, looseUniverse, []uint64{1})
			if err != nil {
				fail(e, flag, "census: %v", err)
			}
			if r.Err != nil {
				rec.Class("loose:run-time-error:" + info.Class)
				if !equalU(before.UUIDs, after.UUIDs) {
					fail(e, flag, "failed transaction changed the stored resources")
				}
				continue
			}
			executed++
			var evs []resgen.Event
			for _, ev := range r.Events {
				oe, err := resgen.ObserveEvent(ev)
				if err != nil {
					fail(e, flag, "malformed event: %v", err)
				}
				evs = append(evs, oe)
			}
			D, bad := destroyedIDs(evs)
			if bad != "" {
				fail(e, flag, "%s", bad)
			}
			if d := dups(D); len(d) > 0 {
				fail(e, flag, "destruction event emitted more than once for uuids %v", d)
			}
			if d := dups(after.UUIDs); len(d) > 0 {
				fail(e, flag, "duplicate uuids in the committed ledger: %v", d)
			}
			lhs, rhs := sortedU(before.UUIDs, r.UUIDs), sortedU(D, after.UUIDs)
			if !equalU(lhs, rhs) {
				fail(e, flag, "the checker accepted a program that does not conserve resources: S_before+C = %v but D+S_after = %v (C=%v D=%v S_after=%v)",
					lhs, rhs, r.UUIDs, sortedU(D), after.UUIDs)
			}
		}
		if !accepted {
			break
		}
	}
	verdict := "rejected"
	if accepted {
		verdict = "accepted"
	}
	for _, k := range c.Constructs {
		rec.Class("loose-" + verdict + ":" + k)
	}
	rec.Class("loose:" + verdict)
	if c.Balanced && !accepted {
		rec.Class("loose:balanced-but-rejected")
	}
	// non-trivial: the checker had to decide about a construct whose evaluation is only potential
	interesting := false
	for _, k := range c.Constructs {
		if k != "plain-destroy" && k != "plain-save" {
			interesting = true
		}
	}
	_ = executed
	rec.Case(interesting, "loose", c.Prog.Steps[1].Source)
	if accepted && !c.Balanced && rec.WantSample("checker-decides-accepted") {
		rec.Sample("checker-decides-accepted", map[string]any{"constructs": c.Constructs, "source": c.Prog.Steps[1].Source})
	}
}
