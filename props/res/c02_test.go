package res

import (
	"fmt"
	"strings"
	"sync/atomic"
	"testing"

	"github.com/onflow/cadence/common"
	"pgregory.net/rapid"

	"verif/lib/evid"
	"verif/lib/host"
	"verif/lib/resgen"
)

// fr1Repro is the minimal input of finding FR1: a swap whose operand indexes a
// resource-kinded container *field* (`x.f[i] <-> y`). The interpreter fails with an
// internal error; the VM completes but drops the whole field, losing its contents.
const fr1Contract = `access(all) contract C {
    access(all) resource R {
        access(all) event ResourceDestroyed(id: UInt64 = self.uuid)
        access(all) var arr: @[R]
        init() { self.arr <- [] }
    }
    access(all) fun mk(): @R { return <- create R() }
}`

const fr1Tx = `import C from 0x1
transaction { prepare(a: auth(Storage) &Account) {
    var r <- C.mk()
    r.arr.append(<- C.mk())
    var o <- C.mk()
    r.arr[0] <-> o
    destroy o
    destroy r
} }`

// fr1StillFails: created {1,2,3} must all be destroyed by a successful run.
func fr1StillFails() bool {
	fails := false
	for _, e := range host.Engines {
		h := host.New()
		if r := h.Deploy(host.Addr(1), "C", fr1Contract, e); r.Err != nil {
			return true
		}
		r := h.Tx(fr1Tx, nil, []common.Address{host.Addr(1)}, host.Options{Engine: e})
		if r.Err != nil || r.Panic != nil {
			fails = true // accepted program, run-time failure (internal error in the interpreter)
			continue
		}
		n := 0
		for _, ev := range r.Events {
			if resgen.IsDestroyEvent(ev.EventType.ID()) {
				n++
			}
		}
		if n != len(r.UUIDs) {
			fails = true
		}
	}
	return fails
}

const fr2Contract = `access(all) contract C {
    access(all) resource R {
        access(all) var arr: @[R]
        init() { self.arr <- [] }
        access(all) fun pop(_ i: Int): @R { return <- self.arr.remove(at: i) }
    }
    access(all) fun mk(): @R { return <- create R() }
}`

const fr2Tx = `import C from 0x1
transaction { prepare(a: auth(Storage) &Account) {
    let r <- C.mk()
    r.arr.append(<- C.mk())
    let arr: @[C.R] <- [<- r]
    let x <- arr[0].pop(0)
    arr.append(<- C.mk())
    destroy x
    destroy arr
} }`

func fr2StillFails() bool {
	for _, e := range host.Engines {
		h := host.New()
		if r := h.Deploy(host.Addr(1), "C", fr2Contract, e); r.Err != nil {
			return true
		}
		if r := h.Tx(fr2Tx, nil, []common.Address{host.Addr(1)}, host.Options{Engine: e}); r.Err != nil || r.Panic != nil {
			return true
		}
	}
	return false
}

type c02Counters struct {
	histories, rejected, txs, txRejected atomic.Int64
}

func TestC02(t *testing.T) {
	rec := evid.Start(t, "C02", "case = generated resource-linear multi-transaction history (resgen: <=6 tx x <=25 stmts, <=30 live resources, "+
		"resource types with nested resource/optional/array/dictionary fields and ResourceDestroyed events) run on interpreter and VM; per successful tx: "+
		"D and S duplicate-free, S_before+C = D+S_after (C from host GenerateUUID, D from ResourceDestroyed events, S from a Go-side walk of the committed ledger), "+
		"and agreement with the Go model (created uuids, destroy events, per-location census, logs; intended failures fail and leave the ledger unchanged); "+
		"non-trivial = creates >=2 resources, nests >=1, moves through a container or storage, destroys a tree of >=2 resources; distinct by program text; "+
		"second family (2 of 5 checks, 4 programs each): 'checker-decides' programs that are not linear by construction (a move in the right operand of &&, ||, ??, in one or both "+
		"branches of ?:/if/if-let/switch, in an optional-chaining argument, in while/for bodies, behind a conditional return; balanced and unbalanced variants); only those the checker "+
		"accepts run (flag=true and false, both engines) and every successful run must satisfy the conservation invariant; non-trivial there = uses a potentially-unevaluated construct; "+
		"accept/reject counts per construct are in the class histogram")
	opts := resgen.DefaultOptions()
	if rec.Known("FR1") {
		rec.ReportKnown("FR1", fr1StillFails())
		opts.NoSwapMemberIndex = true
	}
	if rec.Known("FR2") {
		rec.ReportKnown("FR2", fr2StillFails())
		noAtreeValidation = true
	}
	var cnt c02Counters
	rapid.Check(t, func(rt *rapid.T) {
		src := resgen.FromRapid(rt)
		if src.Intn(5) < 2 {
			// second family: programs that are not linear by construction; the checker decides
			for i := 0; i < 4; i++ {
				checkLoose(rt, rec, resgen.GenLooseCase(src))
			}
			return
		}
		h := resgen.Generate(src, opts)
		checkC02(rt, rec, h, &cnt)
	})
	finishHealth(t, rec, &cnt)
}

func finishHealth(t *testing.T, rec *evid.Rec, cnt *c02Counters) {
	n, rej := cnt.histories.Load(), cnt.rejected.Load()
	if n == 0 {
		return
	}
	rate := float64(n-rej) / float64(n)
	rec.Extra("checker_accept_rate_histories", rate)
	rec.Extra("histories", n)
	rec.Extra("transactions", cnt.txs.Load())
	rec.Extra("transactions_rejected_by_checker", cnt.txRejected.Load())
	if n >= 20 && rate < 0.70 && !t.Failed() {
		rec.Inconclusive(t, "checker accepts only %.0f%% of the generated histories (target >= 70%%)", 100*rate)
	}
}

type fataler interface {
	Fatalf(format string, args ...any)
	Logf(format string, args ...any)
}

func checkC02(rt fataler, rec *evid.Rec, h *resgen.History, cnt *c02Counters) {
	st := h.Stats
	nontrivial := st.Created >= 2 && st.Nested >= 1 && st.ContainerMv+st.StorageMv >= 1 && st.TreeDestroys >= 1
	checkHistory(rt, rec, h, cnt, histMode{id: "C02", nontrivial: nontrivial})
}

// histMode selects what a consumer of resgen histories judges beyond the common part.
type histMode struct {
	id         string
	nontrivial bool
	payloads   bool // compare complete event payloads (names, order, declared types, values) with the model (C48)
	// tolerateFR3: while FR3 is known, the interpreter's unboxed optional default arguments are judged as boxed
	tolerateFR3 bool
}

// checkHistory runs a generated history on both engines and compares every step
// with the conservation invariant and with the model.
func checkHistory(rt fataler, rec *evid.Rec, h *resgen.History, cnt *c02Counters, mode histMode) {
	nontrivial := mode.nontrivial
	fail := func(e host.Engine, step int, f string, a ...any) {
		rt.Fatalf("%s [%v] step %d: %s\n%s", mode.id, e, step, fmt.Sprintf(f, a...), h.Prog.String())
	}
	cnt.histories.Add(1)
	rejected := false
	for _, e := range host.Engines {
		obs, err := runHistory(h, e)
		if err != nil {
			fail(e, len(obs), "census failed: %v", err)
		}
		for i, o := range obs {
			exp := h.Expect[i]
			if i > 0 && e == host.Interp {
				cnt.txs.Add(1)
			}
			if o.Res.Panic != nil {
				fail(e, i, "Go panic escaped the runtime: %v", o.Res.Panic)
			}
			if o.Rejected {
				if e == host.Interp {
					cnt.txRejected.Add(1)
					rec.Class("checker-rejected-tx")
					rec.Class("reject:" + firstErrLine(o.Res))
					if rec.WantSample("checker-rejected") {
						rec.Sample("checker-rejected", map[string]any{"error": errText(o.Res), "source": h.Prog.Steps[i].Source})
					}
					rt.Logf("checker rejected step %d: %s\n%s", i, errText(o.Res), h.Prog.Steps[i].Source)
				}
				rejected = true
				break
			}
			if o.EvErr != nil {
				fail(e, i, "malformed event: %v", o.EvErr)
			}
			// --- invariant part (independent of the model) ---
			if d := dups(o.After.UUIDs); len(d) > 0 {
				fail(e, i, "duplicate uuids in the committed ledger: %v", d)
			}
			if o.Res.Err != nil {
				// failed execution: nothing may have changed
				if !equalU(o.Before.UUIDs, o.After.UUIDs) || diffCensus(o.After.Canon, o.Before.Canon) != "" {
					fail(e, i, "failed transaction changed the stored resources: %s", diffCensus(o.After.Canon, o.Before.Canon))
				}
			} else {
				D, bad := destroyedIDs(o.Events)
				if bad != "" {
					fail(e, i, "%s", bad)
				}
				if d := dups(D); len(d) > 0 {
					fail(e, i, "destruction event emitted more than once for uuids %v", d)
				}
				if d := dups(o.Res.UUIDs); len(d) > 0 {
					fail(e, i, "host handed out duplicate uuids %v", d)
				}
				lhs, rhs := sortedU(o.Before.UUIDs, o.Res.UUIDs), sortedU(D, o.After.UUIDs)
				if !equalU(lhs, rhs) {
					fail(e, i, "conservation violated: S_before+C = %v but D+S_after = %v (S_before=%v C=%v D=%v S_after=%v)",
						lhs, rhs, o.Before.UUIDs, o.Res.UUIDs, sortedU(D), o.After.UUIDs)
				}
			}
			// --- agreement with the model ---
			if exp.Fails {
				if o.Res.Err == nil {
					fail(e, i, "model expects a run-time failure (%s) but the transaction succeeded", exp.FailKind)
				}
				if o.Info.Class != "user" {
					fail(e, i, "intended failure (%s) surfaced as %s error: %s", exp.FailKind, o.Info.Class, errText(o.Res))
				}
				if o.Info.HasType(exp.FailKind) {
					rec.Class("fail-kind-matched")
				} else {
					rec.Class("fail-kind-other:" + exp.FailKind + "->" + o.Info.Root)
				}
			} else {
				if o.Res.Err != nil && isFR2Failure(e, o) {
					// known finding FR2 (interpreter: slab sizes go stale after a nested mutation through an
					// index-derived reference): with validation off the stale size surfaces later as an atree
					// error. The model cannot follow a history whose transaction failed: stop judging it.
					rec.Excluded("FR2")
					rec.Case(false, h.Prog.Key())
					return
				}
				if o.Res.Err != nil {
					fail(e, i, "model expects success but the transaction failed (%s): %s", o.Info.Class, errText(o.Res))
				}
				if !equalU(o.Res.UUIDs, exp.Created) {
					fail(e, i, "created uuids %v, model expects %v", o.Res.UUIDs, exp.Created)
				}
				got, want := destroyKeys(o.Events), destroyKeys(exp.Events)
				if !equalS(got, want) {
					fail(e, i, "destruction events differ from the model:\n got  %v\n want %v", got, want)
				}
				if !equalS(o.Res.Logs, exp.Logs) {
					fail(e, i, "logs %v, model expects %v", o.Res.Logs, exp.Logs)
				}
				if mode.payloads {
					msg, tolerated := comparePayloads(o, exp, mode.tolerateFR3 && e == host.Interp)
					if msg != "" {
						fail(e, i, "%s", msg)
					}
					for ; tolerated > 0; tolerated-- {
						rec.Excluded("FR3")
					}
				}
			}
			if d := diffCensus(o.After.Canon, exp.Census); d != "" {
				fail(e, i, "stored values differ from the model: %s", d)
			}
			if !equalU(o.After.UUIDs, exp.Stored) {
				fail(e, i, "stored uuids %v, model expects %v", o.After.UUIDs, exp.Stored)
			}
		}
		if rejected {
			break
		}
	}
	if rejected {
		cnt.rejected.Add(1)
		rec.Class("history-rejected-by-checker")
		rec.Case(false, h.Prog.Key())
		return
	}
	rec.Case(nontrivial, h.Prog.Key())
	rec.Class("history-accepted")
	for _, f := range h.Prog.Features {
		rec.Class("feature:" + f)
	}
	if nontrivial {
		rec.Class("nontrivial")
	}
	label := fmt.Sprintf("history-%d-steps", len(h.Prog.Steps))
	if nontrivial && rec.WantSample(label) {
		rec.Sample(label, map[string]any{"steps": len(h.Prog.Steps), "features": h.Prog.Features,
			"last_tx": h.Prog.Steps[len(h.Prog.Steps)-1].Source, "stats": fmt.Sprintf("%+v", h.Stats)})
	}
	_ = strings.Join
}

// isFR2Failure recognises the run-time face of finding FR2 (only while it is listed as known,
// i.e. while the checks run without atree validation): an interpreter-only external atree
// error about slab sizes.
func isFR2Failure(e host.Engine, o stepObs) bool {
	if !noAtreeValidation || e != host.Interp || o.Info.Class != "external" {
		return false
	}
	msg := o.Res.Err.Error()
	return strings.Contains(msg, "slab failed to split") || strings.Contains(msg, "header size") ||
		strings.Contains(msg, "slab failed to merge")
}
