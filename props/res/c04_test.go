package res

import (
	"fmt"
	"sync/atomic"
	"testing"

	"pgregory.net/rapid"

	"verif/lib/evid"
	"verif/lib/host"
	"verif/lib/prog"
	"verif/lib/resgen"
)

func TestC04(t *testing.T) {
	rec := evid.Start(t, "C04", "case = resource tree (depth<=3: optional child, array, dictionary, attachments) held in a variable/array/dictionary/optional/storage; "+
		"a reference to a random node is routed through a function, struct field, array, dictionary or optional (the checker rejects the purely local pattern); "+
		"then one relocation of the node, an ancestor, a descendant or an unrelated node (or none), then one use; expected: relocation of the node or an ancestor => "+
		"the use fails with InvalidatedResourceReferenceError exactly at the use, otherwise it yields the model's value; storage references reach the current value "+
		"(DereferenceError if empty / other type); both engines; non-trivial = target depth>=2 or reached through a container; distinct by (shape,holder,route,target,relation,reloc,use)")
	var total, rejected atomic.Int64
	rapid.Check(t, func(rt *rapid.T) {
		src := resgen.FromRapid(rt)
		var c *resgen.RefCase
		if src.Intn(4) == 0 {
			// a function value bound through a reference now, called after the relocation/replacement
			c = resgen.GenBoundCase(src)
		} else {
			c = resgen.GenRefCase(src)
		}
		total.Add(1)
		if !checkC04(rt, rec, c) {
			rejected.Add(1)
		}
	})
	if n := total.Load(); n > 0 {
		rate := float64(n-rejected.Load()) / float64(n)
		rec.Extra("checker_accept_rate", rate)
		if n >= 20 && rate < 0.70 && !t.Failed() {
			rec.Inconclusive(t, "checker accepts only %.0f%% of the generated cases (target >= 70%%)", 100*rate)
		}
	}
}

// checkC04 returns false when the checker rejected the program.
func checkC04(rt fataler, rec *evid.Rec, c *resgen.RefCase) bool {
	fail := func(e host.Engine, f string, a ...any) {
		rt.Fatalf("C04 [%v] %s\ncase: holder=%s route=%s target=%s relation=%s reloc=%s use=%s expect-invalid=%v (%s) logs=%v\n%s",
			e, fmt.Sprintf(f, a...), c.Holder, c.Route, c.Target, c.Relation, c.Reloc, c.Use, c.Invalid, c.FailKind, c.Logs, c.Prog.Steps[1].Source)
	}
	for _, e := range host.Engines {
		rs, _ := prog.Run(nil, c.Prog, host.Options{Engine: e, NoAtreeValidation: noAtreeValidation})
		if rs[0].Err != nil {
			fail(e, "deployment failed: %s", errText(rs[0]))
		}
		r := rs[1]
		info := host.Classify(r)
		if r.Panic != nil {
			fail(e, "Go panic escaped the runtime: %v", r.Panic)
		}
		if isCheckerReject(info) {
			rec.Class("checker-rejected")
			rec.Class("reject:" + firstErrLine(r))
			if l := "rej:" + firstErrLine(r); rec.WantSample(l) {
				rec.Sample(l, map[string]any{"error": errText(r), "source": c.Prog.Steps[1].Source})
			}
			rec.Case(false, c.Prog.Key())
			return false
		}
		if c.Invalid {
			if r.Err == nil {
				fail(e, "use of a reference to a relocated resource succeeded; logs %v", r.Logs)
			}
			if info.Class != "user" || !info.HasType(c.FailKind) {
				fail(e, "expected %s, got %s error %s: %s", c.FailKind, info.Class, info.Root, errText(r))
			}
			if !equalS(r.Logs, c.Logs) {
				fail(e, "failure did not happen at the use: logs %v, want %v: %s", r.Logs, c.Logs, errText(r))
			}
		} else {
			if r.Err != nil {
				fail(e, "use of a valid reference failed (%s %s): %s", info.Class, info.Root, errText(r))
			}
			if !equalS(r.Logs, c.Logs) {
				fail(e, "logs %v, model expects %v", r.Logs, c.Logs)
			}
		}
	}
	nontrivial := c.Depth >= 2 || c.Through
	rec.Case(nontrivial, c.Shape, c.Holder, c.Route, c.Target, c.Relation, c.Reloc, c.Use)
	rec.Class("holder:" + c.Holder)
	rec.Class("route:" + c.Route)
	rec.Class("relation:" + c.Relation)
	rec.Class("reloc:" + c.Reloc)
	rec.Class("use:" + c.Use)
	if c.Route == "bound-function" || c.Route == "direct-call" {
		rec.Class(c.Route + ":" + c.Holder + ":" + c.Reloc)
	}
	if c.DoubleOptional {
		rec.Class("behind-double-optional")
		if c.Invalid && (c.Relation == "ancestor" || c.Relation == "self") {
			rec.Class("behind-double-optional:relocated")
		}
	}
	if c.Invalid {
		rec.Class("expect:" + c.FailKind)
	} else {
		rec.Class("expect:valid")
	}
	if rec.WantSample(c.Relation) {
		rec.Sample(c.Relation, map[string]any{"holder": c.Holder, "route": c.Route, "target": c.Target, "reloc": c.Reloc, "use": c.Use,
			"invalid": c.Invalid, "source": c.Prog.Steps[1].Source})
	}
	return true
}
