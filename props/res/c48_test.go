package res

import (
	"fmt"
	"strings"

	"github.com/onflow/cadence/common"

	"verif/lib/host"
	"verif/lib/resgen"
)

// conformsTo is the harness's own judgement whether a value (given by the type ID of
// its dynamic type and its printed form) conforms to a declared primitive/optional type
// (type IDs: optional = "(T)?").
func conformsTo(dynType, printed, declared string) bool {
	inner := func(s string) (string, bool) {
		if strings.HasPrefix(s, "(") && strings.HasSuffix(s, ")?") {
			return s[1 : len(s)-2], true
		}
		return s, false
	}
	if d, ok := inner(declared); ok {
		v, vok := inner(dynType)
		if !vok {
			return false
		}
		if printed == "nil" {
			return true // an empty optional conforms to every optional type
		}
		return conformsTo(v, printed, d)
	}
	return dynType == declared
}

// comparePayloads compares every destruction event's complete payload (type ID, field
// names in declaration order, declared field types, values) with the model, as multisets,
// and checks that each delivered value conforms to the declared field type.
//
// tolerateFR3 (interpreter, while finding FR3 is listed as known): a value delivered
// unboxed for an optional field is judged as if it had been boxed.
func comparePayloads(o stepObs, exp resgen.TxExpect, tolerateFR3 bool) (msg string, tolerated int) {
	var got []resgen.Event
	for _, e := range o.Events {
		if resgen.IsDestroyEvent(e.Type) {
			got = append(got, e)
			for i := range e.Names {
				if tolerateFR3 && strings.HasSuffix(e.Types[i], ")?") && e.Types[i] == "("+e.Dyn[i]+")?" {
					tolerated++
					continue
				}
				if !conformsTo(e.Dyn[i], e.Values[i], e.Types[i]) {
					return fmt.Sprintf("event %s: value %s of field %s has type %s, which does not conform to the declared type %s",
						e.Type, e.Values[i], e.Names[i], e.Dyn[i], e.Types[i]), tolerated
				}
			}
		}
	}
	g, w := resgen.SortedStrings(got), resgen.SortedStrings(exp.Events)
	if !equalS(g, w) {
		return fmt.Sprintf("event payloads differ from the declarations/model:\n got  %s\n want %s", strings.Join(g, "\n      "), strings.Join(w, "\n      ")), tolerated
	}
	return "", tolerated
}

const fr3Contract = `access(all) contract C {
    access(all) resource R {
        access(all) event ResourceDestroyed(ch: String? = "x", m: Int? = self.n)
        access(all) var n: Int
        init() { self.n = 3 }
    }
    access(all) fun mk(): @R { return <- create R() }
}`

// fr3StillFails: some engine delivers a non-optional value for an optional field.
func fr3StillFails() bool {
	for _, e := range host.Engines {
		h := host.New()
		if r := h.Deploy(host.Addr(1), "C", fr3Contract, e); r.Err != nil {
			return true
		}
		r := h.Tx(`import C from 0x1
transaction { prepare(a: auth(Storage) &Account) { destroy C.mk() } }`, nil, []common.Address{host.Addr(1)}, host.Options{Engine: e})
		if r.Err != nil {
			return true
		}
		for _, ev := range r.Events {
			if oe, err := resgen.ObserveEvent(ev); err == nil && resgen.IsDestroyEvent(oe.Type) {
				for i := range oe.Names {
					if !conformsTo(oe.Dyn[i], oe.Values[i], oe.Types[i]) {
						return true
					}
				}
			}
		}
	}
	return false
}
