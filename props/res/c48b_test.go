package res

import (
	"fmt"
	"testing"

	"github.com/onflow/cadence"
	"pgregory.net/rapid"

	"verif/lib/evid"
	"verif/lib/host"
	"verif/lib/prog"
	"verif/lib/resgen"
)

// matchValue is the harness's own conformance-and-equality judgement: the delivered value
// must have exactly the shape the declared type demands and equal the expected value.
func matchValue(v cadence.Value, e *resgen.EVal) string {
	if v == nil {
		return "missing value"
	}
	t := e.T
	switch t.K {
	case "prim":
		if v.Type() == nil || v.Type().ID() != t.Name {
			return fmt.Sprintf("value %s has type %v, declared %s", v, typeID(v), t.Name)
		}
		if v.String() != e.S {
			return fmt.Sprintf("value %s, expected %s", v.String(), e.S)
		}
	case "opt":
		o, ok := v.(cadence.Optional)
		if !ok {
			return fmt.Sprintf("value %s (%T) is not an optional, declared %s", v, v, t.ID())
		}
		if e.Nil {
			if o.Value != nil {
				return fmt.Sprintf("value %s, expected nil", v)
			}
			return ""
		}
		if o.Value == nil {
			return fmt.Sprintf("value nil, expected %s", e.In.Lit)
		}
		return matchValue(o.Value, e.In)
	case "arr", "carr":
		a, ok := v.(cadence.Array)
		if !ok {
			return fmt.Sprintf("value %s (%T) is not an array, declared %s", v, v, t.ID())
		}
		if a.ArrayType == nil || a.ArrayType.ID() != t.ID() {
			return fmt.Sprintf("array %s has type %v, declared %s", v, typeID(v), t.ID())
		}
		if len(a.Values) != len(e.El) {
			return fmt.Sprintf("array %s has %d elements, expected %d", v, len(a.Values), len(e.El))
		}
		for i := range e.El {
			if m := matchValue(a.Values[i], e.El[i]); m != "" {
				return fmt.Sprintf("[%d]: %s", i, m)
			}
		}
	case "dict":
		d, ok := v.(cadence.Dictionary)
		if !ok {
			return fmt.Sprintf("value %s (%T) is not a dictionary, declared %s", v, v, t.ID())
		}
		if d.DictionaryType == nil || d.DictionaryType.ID() != t.ID() {
			return fmt.Sprintf("dictionary %s has type %v, declared %s", v, typeID(v), t.ID())
		}
		if len(d.Pairs) != len(e.Keys) {
			return fmt.Sprintf("dictionary %s has %d entries, expected %d", v, len(d.Pairs), len(e.Keys))
		}
		for i, k := range e.Keys {
			found := false
			for _, p := range d.Pairs {
				if matchValue(p.Key, k) == "" {
					found = true
					if m := matchValue(p.Value, e.El[i]); m != "" {
						return fmt.Sprintf("[%s]: %s", k.S, m)
					}
				}
			}
			if !found {
				return fmt.Sprintf("dictionary %s lacks key %s", v, k.S)
			}
		}
	case "struct", "enum":
		var fields map[string]cadence.Value
		switch c := v.(type) {
		case cadence.Struct:
			if t.K != "struct" {
				return fmt.Sprintf("value %s is a struct, declared %s", v, t.ID())
			}
			fields = c.FieldsMappedByName()
		case cadence.Enum:
			if t.K != "enum" {
				return fmt.Sprintf("value %s is an enum, declared %s", v, t.ID())
			}
			fields = c.FieldsMappedByName()
		default:
			return fmt.Sprintf("value %s (%T) is not a %s", v, v, t.K)
		}
		if typeID(v) != t.ID() {
			return fmt.Sprintf("value %s has type %s, declared %s", v, typeID(v), t.ID())
		}
		if len(fields) != len(e.Fields) {
			return fmt.Sprintf("value %s has %d fields, expected %d", v, len(fields), len(e.Fields))
		}
		for i, n := range e.Fields {
			if m := matchValue(fields[n], e.El[i]); m != "" {
				return fmt.Sprintf(".%s: %s", n, m)
			}
		}
	}
	return ""
}

func typeID(v cadence.Value) string {
	if v == nil || v.Type() == nil {
		return "<nil>"
	}
	return v.Type().ID()
}

// TestC48 has two parts: (1) explicit emits of generated events with parameters of every
// exportable kind (contracts E and F, emits in functions, through parameters, in pre/post
// conditions, in loops, from an importing contract); (2) default destruction events of
// generated resource histories (resgen) with every default-argument form.
func TestC48(t *testing.T) {
	rec := evid.Start(t, "C48", "part 1: case = generated contracts E/F declaring 1-4 events with 0-5 parameters (primitives of all literal kinds, optionals, variable and constant "+
		"arrays, dictionaries, structs, enums, paths, addresses, types; depth<=2) and a transaction emitting 1-5 of them (literal arguments, through function parameters, in pre/post "+
		"conditions, in loops, via an importing contract); each payload delivered to EmitEvent must carry the location-qualified declared type ID, the fields in declaration order "+
		"(wire form) with the declared field types, and values that have exactly the declared shape and equal the written literals; count and order of events = program order; "+
		"part 2: resgen histories, ResourceDestroyed payloads (default arguments self.uuid, fields, nested struct fields, dictionary lookups, literals, base.* of attachments, "+
		"interface events) equal the model's values of the resource as it was when destroyed; both engines; non-trivial = event with >=3 parameters of distinct kinds, or nested destruction")
	fr3 := rec.Known("FR3")
	if fr3 {
		rec.ReportKnown("FR3", fr3StillFails())
	}
	opts := resgen.DefaultOptions()
	opts.MaxTx, opts.MaxOps = 3, 15
	if rec.Known("FR1") {
		rec.ReportKnown("FR1", fr1StillFails())
		opts.NoSwapMemberIndex = true
	}
	if rec.Known("FR2") {
		rec.ReportKnown("FR2", fr2StillFails())
		noAtreeValidation = true
	}
	var cnt c02Counters
	rapid.Check(t, func(rt *rapid.T) {
		if resgen.FromRapid(rt).Intn(3) == 0 { // drawn from rapid so that a replay takes the same branch
			h := resgen.Generate(resgen.FromRapid(rt), opts)
			rec.Class("part:destroy-events")
			checkHistory(rt, rec, h, &cnt, histMode{id: "C48", nontrivial: h.Stats.TreeDestroys >= 1, payloads: true, tolerateFR3: fr3})
			return
		}
		rec.Class("part:explicit-emits")
		checkEventCase(rt, rec, resgen.GenEventCase(resgen.FromRapid(rt)))
	})
	finishHealth(t, rec, &cnt)
}

func checkEventCase(rt fataler, rec *evid.Rec, c *resgen.EventCase) {
	fail := func(e host.Engine, f string, a ...any) {
		rt.Fatalf("C48 [%v] %s\n%s", e, fmt.Sprintf(f, a...), c.Prog.String())
	}
	nontrivial := false
	for _, e := range host.Engines {
		rs, _ := prog.Run(nil, c.Prog, host.Options{Engine: e})
		for i, r := range rs {
			if r.Panic != nil {
				fail(e, "step %d: Go panic escaped the runtime: %v", i, r.Panic)
			}
			if r.Err != nil {
				if isCheckerReject(host.Classify(r)) {
					rec.Class("checker-rejected")
					rec.Class("reject:" + firstErrLine(r))
					if rec.WantSample("checker-rejected") {
						rec.Sample("checker-rejected", map[string]any{"error": errText(r), "step": i, "source": c.Prog.Steps[i].Source})
					}
					rec.Case(false, c.Prog.Key())
					return
				}
				fail(e, "step %d failed: %s", i, errText(r))
			}
		}
		var got []cadence.Event
		for _, ev := range rs[len(rs)-1].Events {
			got = append(got, ev)
		}
		if len(got) != len(c.Expect) {
			fail(e, "%d events delivered, program emits %d: %v", len(got), len(c.Expect), got)
		}
		for i, x := range c.Expect {
			ev := got[i]
			oe, err := resgen.ObserveEvent(ev)
			if err != nil {
				fail(e, "event %d malformed: %v", i, err)
			}
			if oe.Type != x.Decl.TypeID() {
				fail(e, "event %d has type ID %s, declared %s", i, oe.Type, x.Decl.TypeID())
			}
			if len(oe.Names) != len(x.Decl.Params) {
				fail(e, "event %d (%s) has fields %v, declared %v", i, oe.Type, oe.Names, x.Decl.Params)
			}
			vals := ev.FieldsMappedByName()
			kinds := map[string]bool{}
			for j, p := range x.Decl.Params {
				if oe.Names[j] != p {
					fail(e, "event %d (%s): fields in order %v, declared %v", i, oe.Type, oe.Names, x.Decl.Params)
				}
				if oe.Types[j] != x.Decl.Types[j].ID() {
					fail(e, "event %d (%s): field %s has type %s, declared %s", i, oe.Type, p, oe.Types[j], x.Decl.Types[j].ID())
				}
				if m := matchValue(vals[p], x.Args[j]); m != "" {
					fail(e, "event %d (%s, emitted by %s): field %s: %s", i, oe.Type, x.Site, p, m)
				}
				kinds[x.Decl.Types[j].Kind()] = true
			}
			if len(kinds) >= 3 {
				nontrivial = true
			}
			if e == host.Interp {
				rec.Class("site:" + x.Site)
				for k := range kinds {
					rec.Class("kind:" + k)
				}
			}
		}
	}
	rec.Case(nontrivial, c.Prog.Key())
	rec.Class("events-accepted")
	label := fmt.Sprintf("emit-%d-events", len(c.Expect))
	if nontrivial && rec.WantSample(label) {
		rec.Sample(label, map[string]any{"contract": c.Prog.Steps[0].Source, "tx": c.Prog.Steps[2].Source})
	}
}
