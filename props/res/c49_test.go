package res

import (
	"testing"

	"pgregory.net/rapid"

	"verif/lib/evid"
	"verif/lib/resgen"
)

// C49 runs the resource-history generator with attachments in focus: every
// lifecycle rule of the statement is an observable of those histories —
//   - attach moves the base into the result (linear environment; the old variable is dead),
//   - a second attach of the same type is an intended failure (DuplicateAttachmentError, rolled back),
//   - b[A] == nil iff the model has no A on b (log), also through references to nested bases,
//   - after moves (variables, containers, fields, functions) and storage round trips in later
//     transactions the same attachments with the same field values (logs + Go-side census),
//   - `base` is the current base: base.n read through the attachment after the base was mutated / moved,
//   - remove emits the attachment's destruction event once (payload with the base's uuid), then b[A] == nil,
//   - destroying a base (also deep inside a destroyed tree) emits the events of all its attachments once,
//   - forEachAttachment visits exactly the present set (count + type/field checksum).
func TestC49(t *testing.T) {
	rec := evid.Start(t, "C49", "case = resgen history with attachment focus (1-3 resource attachment types with ResourceDestroyed(y, bid=base.uuid, ...), attach/remove/"+
		"access b[A] directly and through references/method calls reading base and self/forEachAttachment/duplicate attach, bases moved through variables, containers, "+
		"fields, functions and storage across transactions, destroyed singly and inside trees) on both engines, judged against the Go model (logs, destroy events as a multiset "+
		"with full payloads, per-location census including attachment fields, intended failures); struct attachments by the value-semantics sequences of TestC49 part 2; "+
		"non-trivial = some base carries >=2 attachment types and a base with attachments goes through storage and an attachment is removed or a base with attachments destroyed")
	opts := resgen.DefaultOptions()
	opts.AttachFocus = true
	opts.Universe.Attachments = 3
	opts.Universe.AttEventsAlways = true
	opts.Universe.MaxRes = 2
	if rec.Known("FR1") {
		rec.ReportKnown("FR1", fr1StillFails())
		opts.NoSwapMemberIndex = true
	}
	if rec.Known("FR2") {
		rec.ReportKnown("FR2", fr2StillFails())
		noAtreeValidation = true
	}
	fr3 := rec.Known("FR3")
	if fr3 {
		rec.ReportKnown("FR3", fr3StillFails())
	}
	var cnt c02Counters
	rapid.Check(t, func(rt *rapid.T) {
		h := resgen.Generate(resgen.FromRapid(rt), opts)
		st := h.Stats
		nontrivial := st.TwoAtts >= 1 && st.AttStorage >= 1 && (st.AttRemove >= 1 || st.AttBaseDestr >= 1)
		for k, v := range map[string]int{"two-attachments": st.TwoAtts, "storage-roundtrip": st.AttStorage, "remove": st.AttRemove,
			"base-destroy": st.AttBaseDestr, "base-move": st.AttBaseMoves, "attach": st.Attach} {
			if v > 0 {
				rec.Class("att:" + k)
			}
		}
		checkHistory(rt, rec, h, &cnt, histMode{id: "C49", nontrivial: nontrivial, payloads: true, tolerateFR3: fr3})
	})
	finishHealth(t, rec, &cnt)
}
