package res

import (
	"fmt"
	"testing"

	"pgregory.net/rapid"

	"verif/lib/evid"
	"verif/lib/host"
	"verif/lib/prog"
	"verif/lib/resgen"
)

// C49 runs the resource-history generator with attachments in focus: every
// lifecycle rule of the statement is an observable of those histories —
//   - attach moves the base into the result (linear environment; the old variable is dead),
//   - a second attach of the same type is an intended failure (DuplicateAttachmentError, rolled back),
//   - b[A] == nil iff the model has no A on b (log), also through references to nested bases,
//   - after moves (variables, containers, fields, functions) and storage round trips in later
//     transactions the same attachments with the same field values (logs + Go-side census),
//   - `base` is the current base: base.n read through the attachment after the base was mutated / moved,
//   - remove emits the attachment's destruction event once (payload with the base's uuid), then b[A] == nil,
//   - destroying a base (also deep inside a destroyed tree) emits the events of all its attachments once,
//   - forEachAttachment visits exactly the present set (count + type/field checksum).
func TestC49(t *testing.T) {
	rec := evid.Start(t, "C49", "case = resgen history with attachment focus (1-3 resource attachment types with ResourceDestroyed(y, bid=base.uuid, ...), attach/remove/"+
		"access b[A] directly and through references/method calls reading base and self/forEachAttachment/duplicate attach, bases moved through variables, containers, "+
		"fields, functions and storage across transactions, destroyed singly and inside trees) on both engines, judged against the Go model (logs, destroy events as a multiset "+
		"with full payloads, per-location census including attachment fields, intended failures); struct attachments by the value-semantics sequences of TestC49 part 2; "+
		"non-trivial = some base carries >=2 attachment types and a base with attachments goes through storage and an attachment is removed or a base with attachments destroyed")
	opts := resgen.DefaultOptions()
	opts.AttachFocus = true
	opts.Universe.Attachments = 3
	opts.Universe.AttEventsAlways = true
	opts.Universe.MaxRes = 2
	if rec.Known("FR1") {
		rec.ReportKnown("FR1", fr1StillFails())
		opts.NoSwapMemberIndex = true
	}
	if rec.Known("FR2") {
		rec.ReportKnown("FR2", fr2StillFails())
		noAtreeValidation = true
	}
	fr3 := rec.Known("FR3")
	if fr3 {
		rec.ReportKnown("FR3", fr3StillFails())
	}
	var cnt c02Counters
	rapid.Check(t, func(rt *rapid.T) {
		if resgen.FromRapid(rt).Intn(4) == 0 { // drawn from rapid so that a replay takes the same branch
			checkStructAtt(rt, rec, resgen.GenStructAttCase(resgen.FromRapid(rt)))
			return
		}
		h := resgen.Generate(resgen.FromRapid(rt), opts)
		st := h.Stats
		nontrivial := st.TwoAtts >= 1 && st.AttStorage >= 1 && (st.AttRemove >= 1 || st.AttBaseDestr >= 1)
		for k, v := range map[string]int{"two-attachments": st.TwoAtts, "storage-roundtrip": st.AttStorage, "remove": st.AttRemove,
			"base-destroy": st.AttBaseDestr, "base-move": st.AttBaseMoves, "attach": st.Attach} {
			if v > 0 {
				rec.Class("att:" + k)
			}
		}
		checkHistory(rt, rec, h, &cnt, histMode{id: "C49", nontrivial: nontrivial, payloads: true, tolerateFR3: fr3})
	})
	finishHealth(t, rec, &cnt)
}

// TestC49 part 2 is run from TestC49Struct's body (called by TestC49): struct attachments have
// value semantics — attach copies the base, every copy carries its own attachments.
func checkStructAtt(rt fataler, rec *evid.Rec, c *resgen.StructAttCase) {
	fail := func(e host.Engine, i int, f string, a ...any) {
		rt.Fatalf("C49/struct [%v] step %d: %s\n%s", e, i, fmt.Sprintf(f, a...), c.Prog.String())
	}
	for _, e := range host.Engines {
		rs, _ := prog.Run(nil, c.Prog, host.Options{Engine: e, NoAtreeValidation: noAtreeValidation})
		for i, r := range rs {
			exp := c.Expect[i]
			info := host.Classify(r)
			if r.Panic != nil {
				fail(e, i, "Go panic escaped the runtime: %v", r.Panic)
			}
			if isCheckerReject(info) {
				rec.Class("struct:checker-rejected")
				rec.Class("reject:" + firstErrLine(r))
				if rec.WantSample("struct-rejected") {
					rec.Sample("struct-rejected", map[string]any{"error": errText(r), "source": c.Prog.Steps[i].Source})
				}
				rec.Case(false, c.Prog.Key())
				return
			}
			if exp.Fails {
				if r.Err == nil {
					fail(e, i, "second attach of the same attachment type succeeded")
				}
				if info.Class != "user" || !info.HasType(exp.FailKind) {
					fail(e, i, "expected %s, got %s %s: %s", exp.FailKind, info.Class, info.Root, errText(r))
				}
				continue
			}
			if r.Err != nil {
				fail(e, i, "model expects success: %s", errText(r))
			}
			if !equalS(r.Logs, exp.Logs) {
				fail(e, i, "logs %v, model expects %v", r.Logs, exp.Logs)
			}
		}
	}
	st := c.Stats
	rec.Case(st.TwoAtts >= 1 && st.Storage >= 1 && st.Remove >= 1, c.Prog.Key())
	rec.Class("struct:accepted")
	for k, v := range map[string]int{"attach": st.Attach, "remove": st.Remove, "copy": st.Copies, "storage": st.Storage, "two": st.TwoAtts, "duplicate-attach": st.Fails} {
		if v > 0 {
			rec.Class("struct:" + k)
		}
	}
}
