package res

import (
	"fmt"
	"reflect"
	"sort"
	"strings"

	"verif/lib/host"
	"verif/lib/prog"
	"verif/lib/resgen"
)

// stepObs is what one step of a history did on one engine.
type stepObs struct {
	Res      host.Result
	Info     host.ErrInfo
	Rejected bool           // the checker (or parser) rejected the program
	Events   []resgen.Event // every event in comparable form
	EvErr    error
	Before   resgen.CensusResult
	After    resgen.CensusResult
}

func isCheckerReject(info host.ErrInfo) bool {
	if info.Class != "user" {
		return false
	}
	if info.HasType("ParsingCheckingError") || info.HasType("CheckerError") || info.HasType("parser.Error") {
		return true
	}
	return strings.HasPrefix(info.Root, "*sema.") || strings.HasPrefix(info.Root, "sema.") || strings.HasPrefix(info.Root, "*parser.") || strings.HasPrefix(info.Root, "parser.")
}

// noAtreeValidation is set while finding FR2 is listed as known (see findings_inbox/res.md).
var noAtreeValidation bool

// runHistory executes the history on a fresh host; it stops after the first
// step the checker rejects (the model cannot follow a program that did not run).
func runHistory(h *resgen.History, e host.Engine) ([]stepObs, error) {
	hst := host.New()
	var out []stepObs
	before, err := resgen.TakeCensus(hst.Ledger, h.U, h.Accounts)
	if err != nil {
		return nil, err
	}
	for _, st := range h.Prog.Steps {
		o := stepObs{Before: before}
		o.Res = prog.RunStep(hst, st, host.Options{Engine: e, NoAtreeValidation: noAtreeValidation})
		o.Info = host.Classify(o.Res)
		o.Rejected = isCheckerReject(o.Info)
		for _, ev := range o.Res.Events {
			oe, err := resgen.ObserveEvent(ev)
			if err != nil && o.EvErr == nil {
				o.EvErr = err
			}
			o.Events = append(o.Events, oe)
		}
		o.After, err = resgen.TakeCensus(hst.Ledger, h.U, h.Accounts)
		if err != nil {
			return out, fmt.Errorf("after step %d: %w", len(out), err)
		}
		before = o.After
		out = append(out, o)
		if o.Rejected {
			break
		}
	}
	return out, nil
}

func dups(xs []uint64) []uint64 {
	seen := map[uint64]int{}
	var out []uint64
	for _, x := range xs {
		seen[x]++
		if seen[x] == 2 {
			out = append(out, x)
		}
	}
	return out
}

func sortedU(xs ...[]uint64) []uint64 {
	var out []uint64
	for _, x := range xs {
		out = append(out, x...)
	}
	sort.Slice(out, func(i, j int) bool { return out[i] < out[j] })
	return out
}

func equalU(a, b []uint64) bool {
	if len(a) == 0 && len(b) == 0 {
		return true
	}
	return reflect.DeepEqual(a, b)
}

func equalS(a, b []string) bool {
	if len(a) == 0 && len(b) == 0 {
		return true
	}
	return reflect.DeepEqual(a, b)
}

func diffCensus(got, want map[string]string) string {
	var keys []string
	seen := map[string]bool{}
	for k := range got {
		keys = append(keys, k)
		seen[k] = true
	}
	for k := range want {
		if !seen[k] {
			keys = append(keys, k)
		}
	}
	sort.Strings(keys)
	var out []string
	for _, k := range keys {
		if got[k] != want[k] {
			out = append(out, fmt.Sprintf("%s: ledger has %q, model has %q", k, got[k], want[k]))
		}
	}
	return strings.Join(out, "; ")
}

func errText(r host.Result) string {
	if r.Panic != nil {
		return fmt.Sprintf("PANIC %v", r.Panic)
	}
	if r.Err == nil {
		return "<ok>"
	}
	s := r.Err.Error()
	if len(s) > 1500 {
		s = s[:300] + " … " + s[len(s)-1100:]
	}
	return s
}

// destroyedIDs extracts the multiset D: the id argument of every resource
// destruction event (attachment and interface events carry no `id`).
func destroyedIDs(evs []resgen.Event) (ids []uint64, bad string) {
	for _, e := range evs {
		if !resgen.IsDestroyEvent(e.Type) {
			continue
		}
		if v, ok := e.Field("id"); ok {
			var n uint64
			if _, err := fmt.Sscan(v, &n); err != nil {
				return nil, fmt.Sprintf("event %s has a non-numeric id %q", e.Type, v)
			}
			ids = append(ids, n)
		}
	}
	return ids, ""
}

// destroyKeys reduces destruction events to (type, identifying argument): the
// C02 view "each destruction event exactly once" without judging payloads (C48).
func destroyKeys(evs []resgen.Event) []string {
	var out []string
	for _, e := range evs {
		if !resgen.IsDestroyEvent(e.Type) {
			continue
		}
		k := e.Type
		for _, n := range []string{"id", "iid", "bid"} {
			if v, ok := e.Field(n); ok {
				k += " " + n + "=" + v
			}
		}
		out = append(out, k)
	}
	sort.Strings(out)
	return out
}

// firstErrLine is the first "error:" line of a checker report (class label of rejections).
func firstErrLine(r host.Result) string {
	if r.Err == nil {
		return ""
	}
	for _, l := range strings.Split(r.Err.Error(), "\n") {
		if strings.HasPrefix(l, "error: ") {
			if len(l) > 90 {
				l = l[:90]
			}
			return l
		}
	}
	return "?"
}
