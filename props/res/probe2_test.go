package res

import (
	"fmt"
	"os"
	"testing"

	"github.com/onflow/cadence"
	"github.com/onflow/cadence/encoding/ccf"
	jsoncdc "github.com/onflow/cadence/encoding/json"
)

func probeEvent(ev cadence.Event) {
	if os.Getenv("RES_PROBE_EV") == "" {
		return
	}
	b, err := ccf.Encode(ev)
	fmt.Printf("    ccf: %d bytes err=%v\n", len(b), err)
	if err == nil {
		v, err := ccf.Decode(nil, b)
		fmt.Printf("    ccf decode: %v err=%v\n", v, err)
	}
	j, err := jsoncdc.Encode(ev)
	fmt.Printf("    json: %s err=%v\n", j, err)
	for n, v := range ev.FieldsMappedByName() {
		fmt.Printf("    field %s: %T %v\n", n, v, v.Type().ID())
	}
}

var _ = testing.Short

func probeEventTypes(ev cadence.Event) string {
	s := ""
	for n, v := range ev.FieldsMappedByName() {
		s += fmt.Sprintf(" %s:%T", n, v)
	}
	return s
}
