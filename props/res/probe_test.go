package res

import (
	"fmt"
	"os"
	"strings"
	"testing"

	"verif/lib/host"
	"verif/lib/prog"
)

// TestProbe runs the history in $RES_PROBE (steps separated by lines "--- kind [name] [signer]").
func TestProbe(t *testing.T) {
	p := os.Getenv("RES_PROBE")
	if p == "" {
		t.Skip()
	}
	b, err := os.ReadFile(p)
	if err != nil {
		t.Fatal(err)
	}
	var hist prog.History
	for _, chunk := range strings.Split("\n"+string(b), "\n--- ")[1:] {
		nl := strings.Index(chunk, "\n")
		hdr := strings.Fields(chunk[:nl])
		st := prog.Step{Kind: hdr[0], Source: chunk[nl+1:], Signers: []uint64{1}}
		if len(hdr) > 1 {
			st.Name = hdr[1]
		}
		hist.Steps = append(hist.Steps, st)
	}
	for _, e := range host.Engines {
		rs, _ := prog.Run(nil, hist, host.Options{Engine: e})
		for i, r := range rs {
			ci := host.Classify(r)
			fmt.Printf("[%v] step %d: %s root=%s value=%s logs=%v uuids=%v\n", e, i, ci.Class, ci.Root, host.ExportJSON(r.Value), r.Logs, r.UUIDs)
			for _, ev := range r.Events {
				fmt.Printf("    event %s %v %s\n", ev.EventType.ID(), ev, probeEventTypes(ev))
				probeEvent(ev)
			}
			if r.Err != nil {
				es := r.Err.Error()
				if len(es) > 1500 {
					es = es[:300] + " ... " + es[len(es)-1200:]
				}
				fmt.Printf("    err: %v\n", es)
			}
			if r.Panic != nil {
				fmt.Printf("    PANIC: %v\n", r.Panic)
			}
		}
	}
}
