package smoke

import (
	"fmt"
	"testing"

	"verif/lib/host"
	"verif/lib/prog"
)

func TestSmoke(t *testing.T) {
	hist := prog.History{Steps: []prog.Step{
		{Kind: prog.Deploy, Name: "C", Signers: []uint64{1}, Source: `access(all) contract C { access(all) resource R { access(all) var n: Int; init() { self.n = 1 } } access(all) fun mk(): @R { return <- create R() } }`},
		{Kind: prog.Tx, Signers: []uint64{1}, Source: `import C from 0x1
transaction { prepare(a: auth(Storage) &Account) { a.storage.save(<- C.mk(), to: /storage/r); log("saved") } }`},
		{Kind: prog.Script, Source: `import C from 0x1
access(all) fun main(): Int { return getAuthAccount<auth(Storage) &Account>(0x1).storage.borrow<&C.R>(from: /storage/r)!.n }`},
	}}
	engines := []host.Engine{host.Interp, host.VM}
	if host.HasPeephole() {
		engines = append(engines, host.VMPeephole)
	}
	for _, e := range engines {
		rs, h := prog.Run(nil, hist, host.Options{Engine: e})
		for i, r := range rs {
			fmt.Println(e, i, host.Classify(r).Class, host.ExportJSON(r.Value), r.Logs, len(r.Writes), r.Err)
		}
		fmt.Println(len(h.Ledger.SortedKeys()), h.Ledger.Digest()[:12])
	}
}
